//go:build verif

package itemsfetcher

// VerifQueued returns the number of batches waiting in the notification and in the
// received-items channel, so that a test harness can tell when the loop has taken a batch.
func (f *Fetcher) VerifQueued() (notifications int, received int) {
	return len(f.notifications), len(f.receivedItems)
}
