//go:build verif

package basestreamseeder

import "sync/atomic"

// Verification harness only (build tag verif): read-only views of the seeder's queues, so that
// the harness can order an unregistration before the next request and detect quiescence
// without sleeping.

// VerifPendingUnregisters = number of unregistrations not yet taken by the reader loop.
func (s *BaseSeeder) VerifPendingUnregisters() int { return len(s.notifyUnregisteredPeer) }

// VerifPendingRequests = number of requests not yet taken by the reader loop.
func (s *BaseSeeder) VerifPendingRequests() int { return len(s.notifyReceivedRequest) }

// VerifPendingResponsesSize = memory of the responses enqueued but not yet sent.
func (s *BaseSeeder) VerifPendingResponsesSize() int64 {
	return atomic.LoadInt64(&s.pendingResponsesSize)
}
