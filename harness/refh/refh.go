// Package refh is the scenario layer shared by the C10 / C01 harnesses: a textual scenario
// (validators, events as small integer ids with creator index, seq, parents, claimed frame),
// real abft.IndexedLachesis instances to run it on, an online DAG generator that uses the real
// Build, and parents-first delivery orders.
package refh

import (
	"crypto/sha256"
	"encoding/binary"
	"fmt"
	"math/rand"
	"sort"
	"strconv"
	"strings"

	"github.com/Fantom-foundation/lachesis-base/abft"
	"github.com/Fantom-foundation/lachesis-base/hash"
	"github.com/Fantom-foundation/lachesis-base/inter/dag"
	"github.com/Fantom-foundation/lachesis-base/inter/dag/tdag"
	"github.com/Fantom-foundation/lachesis-base/inter/idx"
	"github.com/Fantom-foundation/lachesis-base/inter/pos"
	"github.com/Fantom-foundation/lachesis-base/kvdb"
	"github.com/Fantom-foundation/lachesis-base/kvdb/memorydb"
	"github.com/Fantom-foundation/lachesis-base/lachesis"
	"github.com/Fantom-foundation/lachesis-base/utils/adapters"
	"github.com/Fantom-foundation/lachesis-base/utils/cachescale"
	"github.com/Fantom-foundation/lachesis-base/vecfc"
)

// ---------- scenario ----------

type Ev struct {
	Ep      uint32 // epoch (1-based)
	ID      int
	Cr      int // index into Scn.VIDs
	Seq     uint32
	Frame   uint32 // claimed
	Parents []int  // self-parent first when Seq > 1
}

type Scn struct {
	Salt uint64
	VIDs []uint32
	Ws   []uint32
	Seal uint32 // 0 = never; else the application seals every epoch at this frame
	Pol  int    // validators of the next epoch: 0 unchanged, 1 weights mutated, 2 last validator in canonical order removed
	// ApplyFrom: 0 = BlockCallbacks.ApplyEvent installed for every block; k in 1..8 = nil for the first k
	// blocks of the run, installed afterwards; 9 = never installed
	ApplyFrom int
	// CfgV: cache configuration of abft.Store and vecfc.Index: 0 lite, 1 all sizes 0, 2 all sizes 1, 3 default,
	// 4..7 tiny roots cache (RootsNum 1..4 = fewer roots than one frame holds, RootsFrames 100), 8 RootsNum 2 / RootsFrames 2
	CfgV int
	Evs  []Ev

	vcache map[uint32][2][]uint32
}

// NextVals is the sealing policy: the validators of epoch+1 from those of epoch.
func NextVals(pol int, vids, ws []uint32, epoch uint32) ([]uint32, []uint32) {
	nv := append([]uint32{}, vids...)
	nw := append([]uint32{}, ws...)
	switch pol {
	case 1:
		for i := range nw {
			f := 500 + (uint64(nv[i])+7*uint64(epoch))%500
			nw[i] = uint32(uint64(nw[i])*f/1000 + 1)
		}
	case 2:
		if len(nv) > 1 {
			// last in canonical order: lowest weight, then highest id
			k := 0
			for i := range nv {
				if nw[i] < nw[k] || (nw[i] == nw[k] && nv[i] > nv[k]) {
					k = i
				}
			}
			nv = append(nv[:k], nv[k+1:]...)
			nw = append(nw[:k], nw[k+1:]...)
		}
	}
	return nv, nw
}

// ValsAt returns the validator list (ids, weights) of an epoch.
func (s *Scn) ValsAt(epoch uint32) ([]uint32, []uint32) {
	if epoch <= 1 {
		return s.VIDs, s.Ws
	}
	if s.vcache == nil {
		s.vcache = map[uint32][2][]uint32{}
	}
	if c, ok := s.vcache[epoch]; ok {
		return c[0], c[1]
	}
	pv, pw := s.ValsAt(epoch - 1)
	nv, nw := NextVals(s.Pol, pv, pw, epoch-1)
	s.vcache[epoch] = [2][]uint32{nv, nw}
	return nv, nw
}

// Header tokens: salt sealcode nv id1 w1 ... ; ops: e id cr seq frame parents... | n
// sealcode = seal + 100*policy + 1000*applyFrom + 10000*cacheConfig
func (s *Scn) Tokens(extraHeader []string) []string {
	t := []string{u64(s.Salt), strconv.Itoa(int(s.Seal) + 100*s.Pol + 1000*s.ApplyFrom + 10000*s.CfgV), strconv.Itoa(len(s.VIDs))}
	for i := range s.VIDs {
		t = append(t, strconv.Itoa(int(s.VIDs[i])), strconv.Itoa(int(s.Ws[i])))
	}
	t = append(t, extraHeader...)
	ep := uint32(1)
	for _, e := range s.Evs {
		for e.Ep > ep {
			t = append(t, ";", "n")
			ep++
		}
		t = append(t, ";", "e", strconv.Itoa(e.ID), strconv.Itoa(e.Cr), strconv.Itoa(int(e.Seq)), strconv.Itoa(int(e.Frame)))
		for _, p := range e.Parents {
			t = append(t, strconv.Itoa(p))
		}
	}
	return t
}

func u64(u uint64) string { return strconv.FormatUint(u, 10) }

// Parse splits the tokens into the scenario and the extra header tokens.
func Parse(tok []string) (*Scn, []string, error) {
	groups := [][]string{{}}
	for _, t := range tok {
		if t == ";" {
			groups = append(groups, []string{})
		} else {
			groups[len(groups)-1] = append(groups[len(groups)-1], t)
		}
	}
	h := groups[0]
	if len(h) < 3 {
		return nil, nil, fmt.Errorf("short header")
	}
	s := &Scn{}
	var err error
	if s.Salt, err = strconv.ParseUint(h[0], 10, 64); err != nil {
		return nil, nil, err
	}
	seal, err := strconv.Atoi(h[1])
	if err != nil {
		return nil, nil, err
	}
	s.Seal = uint32(seal % 100)
	s.Pol = (seal / 100) % 10
	s.ApplyFrom = (seal / 1000) % 10
	s.CfgV = (seal / 10000) % 10
	nv, err := strconv.Atoi(h[2])
	if err != nil || len(h) < 3+2*nv {
		return nil, nil, fmt.Errorf("bad header")
	}
	for i := 0; i < nv; i++ {
		a, e1 := strconv.ParseUint(h[3+2*i], 10, 32)
		b, e2 := strconv.ParseUint(h[4+2*i], 10, 32)
		if e1 != nil || e2 != nil {
			return nil, nil, fmt.Errorf("bad validator")
		}
		s.VIDs = append(s.VIDs, uint32(a))
		s.Ws = append(s.Ws, uint32(b))
	}
	extra := h[3+2*nv:]
	ep := uint32(1)
	for _, g := range groups[1:] {
		if len(g) == 1 && g[0] == "n" {
			ep++
			continue
		}
		if len(g) < 5 || g[0] != "e" {
			continue
		}
		n := make([]int, len(g)-1)
		for i := range n {
			v, e := strconv.ParseUint(g[i+1], 10, 32)
			if e != nil {
				return nil, nil, e
			}
			n[i] = int(v)
		}
		s.Evs = append(s.Evs, Ev{Ep: ep, ID: n[0], Cr: n[1], Seq: uint32(n[2]), Frame: uint32(n[3]), Parents: n[4:]})
	}
	return s, extra, nil
}

// ---------- event store ----------

type EvStore struct{ db map[hash.Event]dag.Event }

func (s *EvStore) HasEvent(h hash.Event) bool      { _, ok := s.db[h]; return ok }
func (s *EvStore) GetEvent(h hash.Event) dag.Event { return s.db[h] }

// ---------- instance ----------

type Blk struct {
	Epoch    uint32
	Frame    uint32
	Atropos  hash.Event
	Cheaters []uint32
	Sealed   bool
	Applied  bool         // ApplyEvent was installed for this block
	Deliv    []hash.Event // events passed to ApplyEvent
}

type Inst struct {
	L      *abft.IndexedLachesis
	Store  *abft.Store
	Input  *EvStore
	Vals   *pos.Validators
	Blocks []Blk
	Crit   []string
	Seal   uint32
	Pol    int
	CurV   []uint32
	CurW   []uint32
	ApplyFrom int
}

func storeCfg(v int) abft.StoreConfig {
	switch v {
	case 1:
		return abft.StoreConfig{Cache: abft.StoreCacheConfig{RootsNum: 0, RootsFrames: 0}}
	case 2:
		return abft.StoreConfig{Cache: abft.StoreCacheConfig{RootsNum: 1, RootsFrames: 1}}
	case 3:
		return abft.DefaultStoreConfig(cachescale.Identity)
	case 4, 5, 6, 7, 8: // tiny: fewer roots fit than one frame holds (RootsNum 1..4), several frames
		rn := []uint{1, 2, 3, 4, 2}[v-4]
		rf := []int{100, 100, 100, 100, 2}[v-4]
		return abft.StoreConfig{Cache: abft.StoreCacheConfig{RootsNum: rn, RootsFrames: rf}}
	}
	return abft.LiteStoreConfig()
}

func indexCfg(v int) vecfc.IndexConfig {
	switch v {
	case 1:
		return vecfc.IndexConfig{Caches: vecfc.IndexCacheConfig{ForklessCausePairs: 0, HighestBeforeSeqSize: 0, LowestAfterSeqSize: 0}}
	case 2:
		return vecfc.IndexConfig{Caches: vecfc.IndexCacheConfig{ForklessCausePairs: 1, HighestBeforeSeqSize: 1, LowestAfterSeqSize: 1}}
	case 3:
		return vecfc.DefaultConfig(cachescale.Identity)
	}
	return vecfc.LiteConfig()
}

func (in *Inst) Epoch() uint32 { return uint32(in.Store.GetEpoch()) }

func NewInst(s *Scn) *Inst {
	in := &Inst{Input: &EvStore{db: map[hash.Event]dag.Event{}}, Seal: s.Seal, Pol: s.Pol, CurV: s.VIDs, CurW: s.Ws, ApplyFrom: s.ApplyFrom}
	b := pos.NewBuilder()
	for i := range s.VIDs {
		b.Set(idx.ValidatorID(s.VIDs[i]), pos.Weight(s.Ws[i]))
	}
	in.Vals = b.Build()
	crit := func(err error) { in.Crit = append(in.Crit, err.Error()) }
	in.Store = abft.NewStore(memorydb.New(), func(idx.Epoch) kvdb.Store { return memorydb.New() }, crit, storeCfg(s.CfgV))
	if err := in.Store.ApplyGenesis(&abft.Genesis{Epoch: 1, Validators: in.Vals}); err != nil {
		panic(err)
	}
	in.L = abft.NewIndexedLachesis(in.Store, in.Input, &adapters.VectorToDagIndexer{Index: vecfc.NewIndex(crit, indexCfg(s.CfgV))}, crit, abft.LiteConfig())
	err := in.L.Bootstrap(lachesis.ConsensusCallbacks{
		BeginBlock: func(block *lachesis.Block) lachesis.BlockCallbacks {
			bl := Blk{Epoch: uint32(in.Store.GetEpoch()), Frame: uint32(in.Store.GetLastDecidedFrame()) + 1, Atropos: block.Atropos}
			for _, c := range block.Cheaters {
				bl.Cheaters = append(bl.Cheaters, uint32(c))
			}
			nblk := len(in.Blocks) // blocks of the whole run so far
			var apply lachesis.ApplyEventFn
			if in.ApplyFrom != 9 && nblk >= in.ApplyFrom {
				bl.Applied = true
				apply = func(e dag.Event) { bl.Deliv = append(bl.Deliv, e.ID()) }
			}
			return lachesis.BlockCallbacks{
				ApplyEvent: apply,
				EndBlock: func() *pos.Validators {
					var res *pos.Validators
					if in.Seal != 0 && bl.Frame == in.Seal {
						bl.Sealed = true
						in.CurV, in.CurW = NextVals(in.Pol, in.CurV, in.CurW, bl.Epoch)
						nb := pos.NewBuilder()
						for i := range in.CurV {
							nb.Set(idx.ValidatorID(in.CurV[i]), pos.Weight(in.CurW[i]))
						}
						res = nb.Build()
					}
					in.Blocks = append(in.Blocks, bl)
					return res
				},
			}
		},
	})
	if err != nil {
		panic(err)
	}
	return in
}

// EventOf materialises scenario event ev; ids maps scenario ids to the hashes of (accepted) earlier
// events. Returns nil when a parent is unknown.
func EventOf(s *Scn, ev Ev, ids map[int]*tdag.TestEvent, epoch uint32) *tdag.TestEvent {
	e := &tdag.TestEvent{}
	if ev.Ep > 0 {
		epoch = ev.Ep
	}
	vids, _ := s.ValsAt(epoch)
	e.SetEpoch(idx.Epoch(epoch))
	e.SetCreator(idx.ValidatorID(vids[ev.Cr%len(vids)]))
	e.SetSeq(idx.Event(ev.Seq))
	e.SetFrame(idx.Frame(ev.Frame))
	ps := hash.Events{}
	lam := idx.Lamport(0)
	for _, p := range ev.Parents {
		pe, ok := ids[p]
		if !ok {
			return nil
		}
		ps = append(ps, pe.ID())
		if pe.Lamport() > lam {
			lam = pe.Lamport()
		}
	}
	e.SetParents(ps)
	e.SetLamport(lam + 1)
	var buf [16]byte
	binary.BigEndian.PutUint64(buf[:8], s.Salt)
	binary.BigEndian.PutUint64(buf[8:], uint64(ev.ID))
	h := sha256.Sum256(buf[:])
	var tail [24]byte
	copy(tail[:], h[:24])
	e.SetID(tail)
	e.Name = strconv.Itoa(ev.ID)
	return e
}

// BuildFrame runs the real Build on a copy of e and returns the assigned frame (0 on error).
func (in *Inst) BuildFrame(e *tdag.TestEvent) uint32 {
	c := &tdag.TestEvent{}
	c.SetEpoch(e.Epoch())
	c.SetCreator(e.Creator())
	c.SetSeq(e.Seq())
	c.SetParents(e.Parents())
	c.SetLamport(e.Lamport())
	if err := in.L.Build(c); err != nil {
		return 0
	}
	return uint32(c.Frame())
}

// Process feeds e to the real Process, the way an application does: store first, remove on error.
// code: 0 ok, 1 wrong frame, 2 other error, 9 crit
func (in *Inst) Process(e *tdag.TestEvent) int {
	in.Input.db[e.ID()] = e
	nc := len(in.Crit)
	err := in.L.Process(e)
	if len(in.Crit) > nc {
		return 9
	}
	if err != nil {
		delete(in.Input.db, e.ID())
		if err == abft.ErrWrongFrame {
			return 1
		}
		return 2
	}
	return 0
}

// BlockTokens renders the emitted blocks with scenario ids: B epoch frame atropos sealed k cheaters...
func (in *Inst) BlockTokens(name map[hash.Event]int) []string {
	var t []string
	for _, b := range in.Blocks {
		a, ok := name[b.Atropos]
		at := strconv.Itoa(a)
		if !ok {
			at = "?"
		}
		sl := "0"
		if b.Sealed {
			sl = "1"
		}
		t = append(t, "B", strconv.Itoa(int(b.Epoch)), strconv.Itoa(int(b.Frame)), at, sl, strconv.Itoa(len(b.Cheaters)))
		for _, c := range b.Cheaters {
			t = append(t, strconv.Itoa(int(c)))
		}
		// delivered events (sorted scenario ids), "dn" when ApplyEvent was nil for this block
		if !b.Applied {
			t = append(t, "dn")
		} else {
			ds := make([]int, 0, len(b.Deliv))
			for _, h := range b.Deliv {
				if n, ok := name[h]; ok {
					ds = append(ds, n)
				} else {
					ds = append(ds, -1)
				}
			}
			sort.Ints(ds)
			parts := make([]string, len(ds))
			for i, d := range ds {
				parts[i] = strconv.Itoa(d)
			}
			t = append(t, "d"+strings.Join(parts, ","))
		}
	}
	t = append(t, "L", strconv.Itoa(int(in.Store.GetEpoch())), strconv.Itoa(int(in.Store.GetLastDecidedFrame())))
	return t
}

// Stat is set by the harness commands to vu.Stat (kept as a variable so that this package does not
// depend on the framework).
var Stat = func(string) {}

// ---------- generator ----------

type GenCfg struct {
	NEvents   int
	MaxPar    int     // max number of parents (incl. self-parent), 1..nv
	Lag       []int   // activity weight per validator (0 = silent)
	PartUntil int     // events created before this step only see their own group
	Group     []int   // partition group per validator
	Cheat     []bool  // cheater set (weight < 1/3)
	ForkP     float64 // probability that a cheater's event forks
	LowerP    float64 // probability to claim a lower (still allowed) frame
	ProbeP    float64 // probability to add a wrong-frame probe (rejected, leaf)
}

// WeightShapes returns the genesis weights for n validators by shape number.
func WeightShapes(r *rand.Rand, n int, shape int) []uint32 {
	w := make([]uint32, n)
	switch shape {
	case 7: // one validator holds exactly 1/3 or 2/3 of the weight, or one unit more / less
		k := uint32(n + r.Intn(8))
		if n == 1 {
			w[0] = 3 * k
			break
		}
		big := []uint32{k - 1, k, k + 1, 2*k - 1, 2 * k, 2*k + 1}[r.Intn(6)]
		spread(r, w, 3*k-big, 0)
		w[0] = big
		r.Shuffle(n, func(i, j int) { w[i], w[j] = w[j], w[i] })
	case 8: // a validator (the designated forker) with weight c where the total is 3c+1
		if n == 1 {
			w[0] = 1
			break
		}
		c := uint32(n/2 + 1 + r.Intn(6))
		spread(r, w, 2*c+1, 0)
		w[0] = c
	case 0: // equal
		x := uint32(1 + r.Intn(5))
		for i := range w {
			w[i] = x
		}
	case 1: // one validator >= 1/3 (others equal)
		for i := range w {
			w[i] = 2
		}
		w[r.Intn(n)] = uint32(n) + uint32(r.Intn(3)) // total-others = 2(n-1); big >= (n-1) => >= 1/3
	case 2: // one just under 1/3: big*3 < total, (big+1)*3 >= total
		for i := range w {
			w[i] = 3
		}
		if n >= 4 {
			rest := uint32(3 * (n - 1))
			// big < rest/2  <=> 3 big < big + rest
			big := (rest - 1) / 2
			if 2*big >= rest {
				big--
			}
			w[r.Intn(n)] = big
		}
	case 3: // total = 2^31-1
		total := uint32(2147483647)
		left := total
		for i := 0; i < n-1; i++ {
			x := left / uint32(n-i)
			if x > 2 {
				x = x - uint32(r.Intn(int(x/2)))
			}
			w[i] = x
			left -= x
		}
		w[n-1] = left
	case 4: // many tiny + random
		for i := range w {
			w[i] = 1
		}
		if n > 2 && r.Intn(2) == 0 {
			w[r.Intn(n)] = 2
		}
	case 5: // random
		for i := range w {
			w[i] = uint32(1 + r.Intn(20))
		}
	case 6: // one dominant validator (>= 2/3): forkless-causes on its own
		for i := range w {
			w[i] = 1
		}
		w[r.Intn(n)] = uint32(2*n + r.Intn(4))
	}
	return w
}

// spread distributes total over w[1:] (each at least 1; the remainder goes to random positions)
func spread(r *rand.Rand, w []uint32, total uint32, _ int) {
	n := len(w) - 1
	if n <= 0 {
		return
	}
	for i := 1; i <= n; i++ {
		w[i] = 1
	}
	left := int64(total) - int64(n)
	for left > 0 {
		w[1+r.Intn(n)]++
		left--
	}
}

// PickCheaters returns a random validator subset with 3*weight < total (possibly empty).
func PickCheaters(r *rand.Rand, ws []uint32, want int) []bool {
	total := uint64(0)
	for _, w := range ws {
		total += uint64(w)
	}
	ch := make([]bool, len(ws))
	sum := uint64(0)
	for _, i := range r.Perm(len(ws)) {
		if want == 0 {
			break
		}
		if 3*(sum+uint64(ws[i])) < total {
			ch[i] = true
			sum += uint64(ws[i])
			want--
		}
	}
	return ch
}

// Generate builds a scenario online: every event gets its frame from the real Build on a reference
// instance and is then processed there.
func Generate(r *rand.Rand, s *Scn, cfg GenCfg) {
	// the generating instance always runs with the lite cache configuration, whatever the scenario's
	// instances will use: the DAG must not depend on the configuration under test
	gs := *s
	gs.CfgV = 0
	ref := NewInst(&gs)
	nv := len(s.VIDs)
	ids := map[int]*tdag.TestEvent{}
	own := make([][]int, nv)   // all own accepted events of this epoch, in creation order
	heads := make([][]int, nv) // own events that are not a self-parent of another (branch tips)
	evByID := map[int]Ev{}
	var act []int
	for v := 0; v < nv; v++ {
		for k := 0; k < cfg.Lag[v]; k++ {
			act = append(act, v)
		}
	}
	for v := 0; v < nv; v++ {
		if cfg.Lag[v] == 0 {
			Stat("gen_validator_never_emits")
		}
	}
	if nv > 64 {
		Stat("gen_more_than_64_validators")
	} else if nv > 32 {
		Stat("gen_more_than_32_validators")
	}
	next := 0
	curEp := uint32(1)
	for step := 0; step < cfg.NEvents && len(act) > 0; step++ {
		if ep := ref.Epoch(); ep != curEp {
			// the application sealed the epoch: new validator set, empty DAG
			if ep > 3 {
				break
			}
			curEp = ep
			nv = len(ref.CurV)
			own, heads = make([][]int, nv), make([][]int, nv)
			cfg.Lag, cfg.Group = make([]int, nv), make([]int, nv)
			act = nil
			for v := 0; v < nv; v++ {
				cfg.Lag[v] = 1 + r.Intn(4)
				cfg.Group[v] = r.Intn(2)
				for k := 0; k < cfg.Lag[v]; k++ {
					act = append(act, v)
				}
			}
			cfg.Cheat = PickCheaters(r, ref.CurW, r.Intn(3))
			cfg.PartUntil = 0
			if cfg.MaxPar > nv {
				cfg.MaxPar = nv
			}
		}
		c := act[r.Intn(len(act))]
		ev := Ev{Ep: curEp, ID: next, Cr: c, Seq: 1}
		// self-parent
		if len(own[c]) > 0 {
			sp := own[c][len(own[c])-1]
			if cfg.Cheat[c] && r.Float64() < cfg.ForkP {
				k := r.Intn(len(own[c]) + 1)
				if k == len(own[c]) {
					sp = -1
				} else {
					sp = own[c][k]
				}
			} else if cfg.Cheat[c] && len(heads[c]) > 1 {
				sp = heads[c][r.Intn(len(heads[c]))] // continue some branch
			}
			if sp >= 0 {
				ev.Parents = append(ev.Parents, sp)
				ev.Seq = evByID[sp].Seq + 1
			}
		}
		// other parents
		np := 1 + r.Intn(cfg.MaxPar)
		if k := 1 + r.Intn(cfg.MaxPar); k > np {
			np = k
		}
		for _, o := range r.Perm(nv) {
			if len(ev.Parents) >= np {
				break
			}
			if o == c || len(own[o]) == 0 {
				continue
			}
			if step < cfg.PartUntil && cfg.Group[o] != cfg.Group[c] {
				continue
			}
			p := own[o][len(own[o])-1]
			if len(heads[o]) > 1 && r.Intn(2) == 0 {
				p = heads[o][r.Intn(len(heads[o]))]
			}
			if step < cfg.PartUntil && r.Intn(4) == 0 && len(own[o]) > 1 {
				p = own[o][r.Intn(len(own[o]))] // stale view
			}
			ev.Parents = append(ev.Parents, p)
		}
		if ev.Seq > 1 && len(ev.Parents) == 0 {
			continue
		}
		if len(ev.Parents) >= nv && nv > 1 {
			Stat("gen_event_with_all_validators_as_parents")
		}
		e := EventOf(s, ev, ids, curEp)
		if e == nil {
			continue
		}
		high, crashed := safeBuild(ref, e)
		if crashed {
			// the real code panicked while generating: keep the event so that Run reproduces it
			ev.Frame = 1
			s.Evs = append(s.Evs, ev)
			return
		}
		if high == 0 {
			// the real Build failed on an event whose parents are all processed: keep it (the
			// reference decides what should have happened) but do not build on it
			Stat("gen_build_failed_kept")
			ev.Frame = 1
			s.Evs = append(s.Evs, ev)
			next = ev.ID + 1
			continue
		}
		ev.Frame = high
		spf := uint32(0)
		if ev.Seq > 1 {
			spf = evByID[ev.Parents[0]].Frame
		}
		// wrong-frame probe: a rejected twin of this event (never a parent of anything)
		if r.Float64() < cfg.ProbeP {
			pr := ev
			pr.ID = next
			switch r.Intn(4) {
			case 0:
				pr.Frame = high + 1
			case 1:
				pr.Frame = high + 2 + uint32(r.Intn(3))
			case 2:
				if spf > 0 {
					pr.Frame = spf - 1
				} else {
					pr.Frame = 0
				}
			case 3:
				pr.Frame = 0
			}
			if pr.Frame != high {
				Stat("gen_probe")
				next++
				s.Evs = append(s.Evs, pr)
				ev.ID = next
			}
		}
		if spf > 0 && high > spf && r.Float64() < cfg.LowerP {
			ev.Frame = spf + uint32(r.Intn(int(high-spf)))
			Stat("gen_lowered_frame")
		}
		e = EventOf(s, ev, ids, curEp)
		code, crashed := safeProcess(ref, e)
		if crashed || code == 9 {
			s.Evs = append(s.Evs, ev)
			return
		}
		if code != 0 {
			// the reference instance's real Process rejected an event the generator considers valid
			// (built frame or a lowered allowed frame): keep it in the scenario with that outcome to be
			// judged by the reference, never drop it silently; nothing is built on top of it
			Stat("gen_ref_rejected_kept_" + strconv.Itoa(code))
			s.Evs = append(s.Evs, ev)
			next = ev.ID + 1
			continue
		}
		next = ev.ID + 1
		s.Evs = append(s.Evs, ev)
		ids[ev.ID] = e
		evByID[ev.ID] = ev
		own[c] = append(own[c], ev.ID)
		if ev.Seq > 1 {
			sp := ev.Parents[0]
			for i, h := range heads[c] {
				if h == sp {
					heads[c] = append(heads[c][:i], heads[c][i+1:]...)
					break
				}
			}
		}
		heads[c] = append(heads[c], ev.ID)
	}
}

func safeBuild(in *Inst, e *tdag.TestEvent) (f uint32, crashed bool) {
	defer func() {
		if r := recover(); r != nil {
			crashed = true
		}
	}()
	return in.BuildFrame(e), false
}

func safeProcess(in *Inst, e *tdag.TestEvent) (code int, crashed bool) {
	defer func() {
		if r := recover(); r != nil {
			crashed = true
		}
	}()
	return in.Process(e), false
}

// RandomScenario draws weights, validator ids, cheaters and generator settings.
func RandomScenario(r *rand.Rand, maxEvents int, probes bool) (*Scn, GenCfg, string) {
	nv := 1 + r.Intn(9)
	shape := r.Intn(9)
	s := &Scn{Salt: r.Uint64() >> 1}
	fam := r.Intn(24)
	tie := fam < 8
	many := fam == 8                // more than 32 / 64 validators
	chain := fam == 9              // one emitting validator: one frame per event, hundreds of frames
	if many {
		nv = []int{33, 40, 65, 70}[r.Intn(4)]
		if maxEvents >= 400 && r.Intn(3) == 0 {
			nv = 130
		}
	}
	if tie {
		// measured with the mutant "tie counts as no": equal weights on 4 / 5 / 6 validators change
		// the outcome in ~15% / 10% / 2% of the runs, unequal weights practically never
		tw := [][]uint32{{2, 1, 1}, {3, 2, 1}, {2, 2, 1, 1}, {3, 1, 1, 1}, {2, 1, 1, 1, 1}, {4, 3, 2, 1}, {3, 3, 2, 2, 1, 1}, {1, 1, 1, 1, 1, 1, 1, 1}}[r.Intn(8)]
		x := uint32(1 + r.Intn(5))
		switch k := r.Intn(10); {
		case k < 5:
			tw = []uint32{x, x, x, x}
		case k < 8:
			tw = []uint32{x, x, x, x, x}
		case k < 9:
			tw = []uint32{x, x, x, x, x, x}
		}
		nv = len(tw)
		shape = 11
		s.Ws = append([]uint32{}, tw...)
		r.Shuffle(nv, func(i, j int) { s.Ws[i], s.Ws[j] = s.Ws[j], s.Ws[i] })
	} else if many {
		// three heavy validators hold more than 2/3 together, all others weight 1 (or a few 2)
		shape = 9
		s.Ws = make([]uint32, nv)
		for i := range s.Ws {
			s.Ws[i] = 1 + uint32(r.Intn(8)/7)
		}
		for i := 0; i < 3; i++ {
			s.Ws[i] = uint32(nv)
		}
		r.Shuffle(nv, func(i, j int) { s.Ws[i], s.Ws[j] = s.Ws[j], s.Ws[i] })
	} else if chain {
		shape = 10
		if r.Intn(2) == 0 {
			nv = 1
			s.Ws = []uint32{uint32(1 + r.Intn(1000))}
		} else {
			s.Ws = WeightShapes(r, nv, 6) // one validator >= 2/3
		}
	} else {
		s.Ws = WeightShapes(r, nv, shape)
	}
	seen := map[uint32]bool{}
	for len(s.VIDs) < nv {
		var id uint32
		switch r.Intn(3) {
		case 0:
			id = uint32(1 + r.Intn(12))
		case 1:
			id = uint32(1 + r.Intn(70000))
		default:
			id = r.Uint32()
		}
		if id == 0 || seen[id] {
			continue
		}
		seen[id] = true
		s.VIDs = append(s.VIDs, id)
	}
	cfg := GenCfg{NEvents: nv * (6 + r.Intn(20)), MaxPar: nv}
	if cfg.NEvents > maxEvents {
		cfg.NEvents = maxEvents
	}
	if r.Intn(4) == 0 {
		cfg.MaxPar = 1 + r.Intn(nv)
	}
	if r.Intn(8) == 0 {
		cfg.NEvents = 4 + r.Intn(9) // tiny: cross-checked against FcSpec.fc_spec by the driver
	}
	cfg.Lag = make([]int, nv)
	for i := range cfg.Lag {
		cfg.Lag[i] = 4
	}
	kind := "plain"
	switch r.Intn(4) {
	case 1: // lagging validators
		kind = "lag"
		for i := range cfg.Lag {
			if r.Intn(3) == 0 {
				cfg.Lag[i] = r.Intn(2) // silent or slow
			}
		}
		cfg.Lag[r.Intn(nv)] = 4
	case 2: // partition for the first part of the run
		kind = "part"
		cfg.PartUntil = cfg.NEvents / (1 + r.Intn(3))
	case 3:
		kind = "lagpart"
		cfg.PartUntil = cfg.NEvents / 2
		cfg.Lag[r.Intn(nv)] = 1
	}
	cfg.Group = make([]int, nv)
	for i := range cfg.Group {
		cfg.Group[i] = r.Intn(2)
	}
	want := 0
	if r.Intn(3) != 0 {
		want = 1 + r.Intn(3)
	}
	cfg.Cheat = PickCheaters(r, s.Ws, want)
	if tie {
		// tie-prone family: few validators whose weights split evenly, everybody references
		// everybody, one or two slow validators (their roots are seen by only part of the next
		// frame's roots), no cheaters in most runs
		kind = "tie"
		shape = 11
		for i := range cfg.Lag {
			cfg.Lag[i] = 3
		}
		cfg.Lag[r.Intn(nv)] = 1
		if r.Intn(2) == 0 {
			cfg.Lag[r.Intn(nv)] = 1 + r.Intn(2)
		}
		cfg.MaxPar = nv
		cfg.PartUntil = 0
		if r.Intn(3) != 0 {
			cfg.Cheat = make([]bool, nv)
		}
		cfg.NEvents = nv * (10 + r.Intn(25))
		if cfg.NEvents > maxEvents {
			cfg.NEvents = maxEvents
		}
	}
	if shape == 8 && nv > 1 {
		// the designated validator forks: it holds exactly one unit less than a third
		cfg.Cheat = make([]bool, nv)
		cfg.Cheat[0] = true
		kind += "_forker_third_minus_unit"
	}
	if many {
		kind = "many"
		cfg.MaxPar = 3 + r.Intn(6)
		if r.Intn(4) == 0 {
			cfg.MaxPar = nv
		}
		cfg.PartUntil = 0
		for i := range cfg.Lag {
			cfg.Lag[i] = r.Intn(3) // light validators: silent, slow or normal
			if s.Ws[i] >= uint32(nv) {
				cfg.Lag[i] = 30
			}
		}
		cfg.Cheat = make([]bool, nv)
		for k := 0; k < 3; k++ { // light cheaters, also at high validator indices
			c := r.Intn(nv)
			if s.Ws[c] < uint32(nv) {
				cfg.Cheat[c] = true
				if cfg.Lag[c] == 0 {
					cfg.Lag[c] = 2
				}
			}
		}
		cfg.NEvents = maxEvents - maxEvents/7
	}
	if chain {
		kind = "chain"
		// only the heaviest validator emits
		hv := 0
		for i := range s.Ws {
			if s.Ws[i] > s.Ws[hv] {
				hv = i
			}
		}
		for i := range cfg.Lag {
			cfg.Lag[i] = 0
		}
		cfg.Lag[hv] = 1
		cfg.Cheat = make([]bool, nv)
		cfg.PartUntil = 0
		cfg.NEvents = maxEvents + maxEvents/3 + maxEvents/50
	}
	cfg.ForkP = []float64{0.05, 0.15, 0.4}[r.Intn(3)]
	if many {
		cfg.ForkP = 0.4
	}
	if r.Intn(3) == 0 {
		cfg.LowerP = 0.1
	}
	// ApplyEvent: installed for every block / nil for the first k blocks / never
	if r.Intn(2) == 0 {
		s.ApplyFrom = []int{1, 2, 3, 5, 9}[r.Intn(5)]
	}
	// caches of abft.Store and vecfc.Index: lite / all 0 / all 1 / default
	s.CfgV = []int{0, 0, 1, 2, 3, 4, 5, 6, 7, 8}[r.Intn(10)]
	Stat("cfg_caches_" + []string{"lite", "zero", "one", "default", "tiny1", "tiny2", "tiny3", "tiny4", "tiny2x2"}[s.CfgV])
	Stat("cfg_applyevent_from_" + strconv.Itoa(s.ApplyFrom))
	if r.Intn(4) == 0 {
		// the application seals every epoch at frame 1, 2, 3 or 5; up to three epochs
		s.Seal = []uint32{1, 2, 3, 5}[r.Intn(4)]
		s.Pol = r.Intn(3)
		kind += fmt.Sprintf("_seal%d", s.Pol)
	}
	if probes {
		cfg.ProbeP = 0.08
	}
	nc := 0
	for _, c := range cfg.Cheat {
		if c {
			nc++
		}
	}
	return s, cfg, fmt.Sprintf("shape%d_%s_cheat%d", shape, kind, nc)
}

// ---------- delivery orders ----------

// Order returns a parents-first order (indices into s.Evs) chosen by kind and seed.
//   0 random topological   1 latest-ready-first   2 one validator as late as possible
//   3 cheaters' events first   4 cheaters' events last   5 creation order   6 lowest frame first
//   7 the seed-th linear extension (all parents-first orders, enumerated; small DAGs only)
func Order(s *Scn, kind int, seed int64) []int {
	// epoch by epoch
	maxEp := uint32(1)
	for _, e := range s.Evs {
		if e.Ep > maxEp {
			maxEp = e.Ep
		}
	}
	if maxEp > 1 {
		var out []int
		for ep := uint32(1); ep <= maxEp; ep++ {
			sub := &Scn{Salt: s.Salt}
			sub.VIDs, sub.Ws = s.ValsAt(ep)
			var back []int
			for i, e := range s.Evs {
				if e.Ep == ep {
					e2 := e
					e2.Ep = 1
					sub.Evs = append(sub.Evs, e2)
					back = append(back, i)
				}
			}
			for _, j := range Order(sub, kind, seed+int64(ep)) {
				out = append(out, back[j])
			}
		}
		return out
	}
	if kind%8 == 7 {
		all := LinearExtensions(s, 5041)
		if len(all) == 0 {
			return nil
		}
		return all[int(uint64(seed)%uint64(len(all)))]
	}
	n := len(s.Evs)
	pos := map[int]int{}
	for i, e := range s.Evs {
		pos[e.ID] = i
	}
	r := rand.New(rand.NewSource(seed))
	// forking creators (by duplicate seq)
	type cs struct {
		c int
		s uint32
	}
	cnt := map[cs]int{}
	for _, e := range s.Evs {
		cnt[cs{e.Cr, e.Seq}]++
	}
	forker := map[int]bool{}
	for k, c := range cnt {
		if c > 1 {
			forker[k.c] = true
		}
	}
	late := 0
	if len(s.VIDs) > 0 {
		late = r.Intn(len(s.VIDs))
	}
	done := make([]bool, n)
	var out []int
	for len(out) < n {
		var ready []int
		for i, e := range s.Evs {
			if done[i] {
				continue
			}
			ok := true
			for _, p := range e.Parents {
				j, known := pos[p]
				if known && !done[j] {
					ok = false
					break
				}
			}
			if ok {
				ready = append(ready, i)
			}
		}
		if len(ready) == 0 {
			break
		}
		prefer := func(f func(i int) bool) int {
			var a []int
			for _, i := range ready {
				if f(i) {
					a = append(a, i)
				}
			}
			if len(a) == 0 {
				a = ready
			}
			return a[r.Intn(len(a))]
		}
		var pick int
		switch kind % 8 {
		case 0:
			pick = ready[r.Intn(len(ready))]
		case 1:
			pick = ready[len(ready)-1]
		case 2:
			pick = prefer(func(i int) bool { return s.Evs[i].Cr != late })
		case 3:
			pick = prefer(func(i int) bool { return forker[s.Evs[i].Cr] })
		case 4:
			pick = prefer(func(i int) bool { return !forker[s.Evs[i].Cr] })
		case 5:
			pick = ready[0]
		case 6:
			sort.Slice(ready, func(a, b int) bool { return s.Evs[ready[a]].Frame < s.Evs[ready[b]].Frame })
			pick = ready[0]
		}
		done[pick] = true
		out = append(out, pick)
	}
	return out
}

// LinearExtensions enumerates the parents-first orders of s.Evs (at most limit of them).
// Truncated reports whether the last LinearExtensions call hit its limit.
var Truncated bool

func LinearExtensions(s *Scn, limit int) [][]int {
	Truncated = false
	n := len(s.Evs)
	pos := map[int]int{}
	for i, e := range s.Evs {
		pos[e.ID] = i
	}
	var out [][]int
	done := make([]bool, n)
	cur := make([]int, 0, n)
	var rec func()
	rec = func() {
		if len(out) >= limit {
			Truncated = true
			return
		}
		if len(cur) == n {
			out = append(out, append([]int{}, cur...))
			return
		}
		for i, e := range s.Evs {
			if done[i] {
				continue
			}
			ok := true
			for _, p := range e.Parents {
				if j, known := pos[p]; known && !done[j] {
					ok = false
					break
				}
			}
			if !ok {
				continue
			}
			done[i] = true
			cur = append(cur, i)
			rec()
			cur = cur[:len(cur)-1]
			done[i] = false
		}
	}
	rec()
	return out
}

func Join(t []string) string { return strings.Join(t, " ") }
