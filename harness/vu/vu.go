// Package vu is the small framework shared by all correspondence harnesses.
//
// A property registers a generator of inputs (token lists) and a runner that executes the
// REAL implementation on one input and returns its observation tokens.  The framework
// writes one line per case:  CASE <n> <input...> | <obs...>   plus "STAT key count" lines
// describing the input distribution.  All randomness comes from one PRNG seeded by --seed.
package vu

import (
	"bufio"
	"flag"
	"fmt"
	"math/rand"
	"os"
	"sort"
	"strings"
	"sync"
)

type Prop struct {
	// Gen emits up to n inputs (it may emit more or fewer when it enumerates a finite space).
	Gen func(r *rand.Rand, n int, tier string, emit func(input ...string))
	// Run executes the implementation on one input and returns the observation.
	Run func(input []string) []string
	// Parallel > 1 runs that many cases concurrently (for real-time scripts).
	Parallel int
	// Setup/Teardown are optional.
	Setup    func()
	Teardown func()
}

var props = map[string]*Prop{}
var statMu sync.Mutex
var stats = map[string]int{}

func Register(id string, p *Prop) { props[id] = p }

// Stat counts one occurrence of key in the input/behaviour distribution of this run.
func Stat(key string) { statMu.Lock(); stats[key]++; statMu.Unlock() }
func StatN(key string, n int) { statMu.Lock(); stats[key] += n; statMu.Unlock() }

// SafeRun runs p.Run and turns a panic into the observation "PANIC <kind>".
func SafeRun(p *Prop, in []string) (obs []string) {
	defer func() {
		if r := recover(); r != nil {
			msg := fmt.Sprint(r)
			msg = strings.ReplaceAll(msg, " ", "_")
			if len(msg) > 60 {
				msg = msg[:60]
			}
			obs = []string{"PANIC", msg}
			Stat("panic")
		}
	}()
	return p.Run(in)
}

func Main() {
	if len(os.Args) < 3 {
		fmt.Fprintln(os.Stderr, "usage: vh <ID> gen|replay [flags]")
		os.Exit(2)
	}
	id, mode := os.Args[1], os.Args[2]
	p, ok := props[id]
	if !ok {
		fmt.Fprintln(os.Stderr, "unknown property", id)
		os.Exit(2)
	}
	fs := flag.NewFlagSet("vh", flag.ExitOnError)
	seed := fs.Int64("seed", 1, "PRNG seed")
	n := fs.Int("n", 100, "number of cases")
	tier := fs.String("tier", "quick", "quick|thorough")
	out := fs.String("out", "/dev/stdout", "output case file")
	in := fs.String("in", "", "input case file (replay)")
	_ = fs.Parse(os.Args[3:])

	var inputs [][]string
	switch mode {
	case "gen":
		r := rand.New(rand.NewSource(*seed))
		p.Gen(r, *n, *tier, func(input ...string) {
			cp := make([]string, len(input))
			copy(cp, input)
			inputs = append(inputs, cp)
		})
	case "replay":
		f, err := os.Open(*in)
		if err != nil {
			fmt.Fprintln(os.Stderr, err)
			os.Exit(2)
		}
		sc := bufio.NewScanner(f)
		sc.Buffer(make([]byte, 1<<20), 1<<28)
		for sc.Scan() {
			t := strings.Fields(sc.Text())
			if len(t) < 2 || t[0] != "CASE" {
				continue
			}
			t = t[2:]
			for i, x := range t {
				if x == "|" {
					t = t[:i]
					break
				}
			}
			inputs = append(inputs, t)
		}
		f.Close()
	default:
		fmt.Fprintln(os.Stderr, "unknown mode", mode)
		os.Exit(2)
	}

	if p.Setup != nil {
		p.Setup()
	}
	obs := make([][]string, len(inputs))
	par := p.Parallel
	if par < 1 {
		par = 1
	}
	var wg sync.WaitGroup
	sem := make(chan struct{}, par)
	for i := range inputs {
		wg.Add(1)
		sem <- struct{}{}
		go func(i int) {
			defer wg.Done()
			obs[i] = SafeRun(p, inputs[i])
			<-sem
		}(i)
		if par == 1 {
			wg.Wait()
		}
	}
	wg.Wait()
	if p.Teardown != nil {
		p.Teardown()
	}

	f, err := os.Create(*out)
	if err != nil {
		fmt.Fprintln(os.Stderr, err)
		os.Exit(2)
	}
	w := bufio.NewWriterSize(f, 1<<20)
	fmt.Fprintf(w, "# property=%s mode=%s seed=%d tier=%s cases=%d\n", id, mode, *seed, *tier, len(inputs))
	for i := range inputs {
		fmt.Fprintf(w, "CASE %d %s | %s\n", i, strings.Join(inputs[i], " "), strings.Join(obs[i], " "))
	}
	keys := make([]string, 0, len(stats))
	for k := range stats {
		keys = append(keys, k)
	}
	sort.Strings(keys)
	for _, k := range keys {
		fmt.Fprintf(w, "STAT %s %d\n", k, stats[k])
	}
	w.Flush()
	f.Close()
}

// Hex renders a byte string ("-" for empty).
func Hex(b []byte) string {
	if len(b) == 0 {
		return "-"
	}
	return fmt.Sprintf("%x", b)
}

// UnHex parses Hex output.
func UnHex(s string) []byte {
	if s == "-" || s == "~" {
		return []byte{}
	}
	b := make([]byte, len(s)/2)
	for i := range b {
		fmt.Sscanf(s[2*i:2*i+2], "%02x", &b[i])
	}
	return b
}

func Itoa(i int) string        { return fmt.Sprint(i) }
func U64(u uint64) string      { return fmt.Sprint(u) }
func B(b bool) string {
	if b {
		return "1"
	}
	return "0"
}
