package main

import (
	"fmt"
	"math/rand"
	"runtime"
	"strings"
	"sync"
	"sync/atomic"
	"time"

	"github.com/Fantom-foundation/lachesis-base/gossip/dagordering"
	"github.com/Fantom-foundation/lachesis-base/hash"
	"github.com/Fantom-foundation/lachesis-base/inter/dag"
	"github.com/Fantom-foundation/lachesis-base/inter/idx"
)

// ------------------------------------------------------------------ EventsBuffer

// a fixed small DAG: event i has parents among the events with smaller index
type evDef struct {
	id      hash.Event
	parents []int
	ev      dag.Event
}

func makeDag(seed int64, n int) []evDef {
	r := rand.New(rand.NewSource(seed ^ 0x5eed))
	evs := make([]evDef, n)
	for i := range evs {
		var raw [24]byte
		raw[0] = byte(i + 1)
		np := 0
		if i > 0 {
			np = r.Intn(3)
		}
		seen := map[int]bool{}
		for len(evs[i].parents) < np && len(seen) < i {
			p := r.Intn(i)
			if !seen[p] {
				seen[p] = true
				evs[i].parents = append(evs[i].parents, p)
			}
		}
		me := &dag.MutableBaseEvent{}
		me.SetEpoch(1)
		me.SetLamport(idx.Lamport(i + 1))
		var ps hash.Events
		for _, p := range evs[i].parents {
			ps = append(ps, evs[p].id)
		}
		me.SetParents(ps)
		me.SetID(raw)
		evs[i].ev = &me.BaseEvent
		evs[i].id = me.ID()
	}
	return evs
}

type bufComp struct {
	evs       []evDef
	byID      map[hash.Event]int
	buf       *dagordering.EventsBuffer
	mu        sync.Mutex
	processed map[hash.Event]bool
	limit     dag.Metric

	withReleased, withCheck bool

	// EBMID: block inside Process of one event
	blockOn int
	entered chan struct{}
	gate    chan struct{}
}

func newBufferWith(evs []evDef, limit dag.Metric) *bufComp {
	return newBufferCfg(evs, limit, true, false)
}

func newBufferCfg(evs []evDef, limit dag.Metric, withReleased, withCheck bool) *bufComp {
	c := &bufComp{evs: evs, byID: map[hash.Event]int{}, processed: map[hash.Event]bool{}, limit: limit, blockOn: -1,
		withReleased: withReleased, withCheck: withCheck}
	for i, e := range evs {
		c.byID[e.id] = i
	}
	var released func(e dag.Event, peer string, err error)
	if withReleased {
		released = func(e dag.Event, peer string, err error) {}
	}
	var check func(e dag.Event, parents dag.Events) error
	if withCheck {
		check = func(e dag.Event, parents dag.Events) error { return nil }
	}
	c.buf = dagordering.New(limit, dagordering.Callback{
		Check: check,
		Process: func(e dag.Event) error {
			if c.blockOn >= 0 && e.ID() == c.evs[c.blockOn].id {
				close(c.entered)
				<-c.gate
			}
			c.mu.Lock()
			c.processed[e.ID()] = true
			c.mu.Unlock()
			return nil
		},
		Released: released,
		Get: func(id hash.Event) dag.Event {
			c.mu.Lock()
			defer c.mu.Unlock()
			if c.processed[id] {
				return c.evs[c.byID[id]].ev
			}
			return nil
		},
		Exists: func(id hash.Event) bool {
			c.mu.Lock()
			defer c.mu.Unlock()
			return c.processed[id]
		},
	})
	return c
}

// newBuffer: variants by seed — limit.Num 0, 1, 2..4; limit.Size large or 100 (one event); Released callback nil
// or not; Check callback nil or not
func newBuffer(seed int64) *bufComp {
	lim := dag.Metric{Num: idx.Event(2 + seed%3), Size: 100000}
	switch (seed / 3) % 5 {
	case 1:
		lim.Num = 0
	case 2:
		lim.Num = 1
	case 3:
		lim.Size = 100
	}
	c := newBufferCfg(makeDag(seed, 7), lim, (seed/15)%2 == 0, (seed/30)%2 == 0)
	return c
}

func (c *bufComp) Cfg() string {
	return fmt.Sprintf("num%d.size%d.rel%d.chk%d", c.limit.Num, c.limit.Size, b2i(c.withReleased), b2i(c.withCheck))
}

func (c *bufComp) Finish() {}

// dagToken describes the events and the limit for the driver's search over the extracted Buffer.v model:
// dag=<limitNum>/<limitSize>/<i>:<parent.parent>:<size>;...
func (c *bufComp) dagToken() string {
	var parts []string
	for i, e := range c.evs {
		ps := []string{}
		for _, p := range e.parents {
			ps = append(ps, itoa(p))
		}
		parts = append(parts, fmt.Sprintf("%d:%s:%d", i, strings.Join(ps, "."), e.ev.Size()))
	}
	return fmt.Sprintf(" dag=%d/%d/%s", c.limit.Num, c.limit.Size, strings.Join(parts, ";"))
}

func (c *bufComp) Gen(r *rand.Rand, t, i int, lin bool) []string {
	e := itoa(r.Intn(len(c.evs)))
	n := r.Intn(100)
	switch {
	case n < 55:
		return []string{"Push", e}
	case n < 75:
		return []string{"Total"}
	case n < 95:
		return []string{"IsBuffered", e}
	default:
		return []string{"Clear"}
	}
}

func (c *bufComp) Exec(t int, op []string) string {
	switch op[0] {
	case "Push":
		return itoa(b2i(c.buf.PushEvent(c.evs[atoi(op[1])].ev, "peer")))
	case "Total":
		m := c.buf.Total()
		return fmt.Sprintf("%d,%d", m.Num, m.Size)
	case "IsBuffered":
		return itoa(b2i(c.buf.IsBuffered(c.evs[atoi(op[1])].id)))
	case "Clear":
		c.buf.Clear()
		return "ok"
	}
	panic("buffer exec: unknown op " + op[0])
}

// sequential reference of the buffer (Process never fails, no Check callback)
type bufModel struct {
	evs       []evDef
	limitNum  int
	limitSize int
	inc       []int // incomplete events, oldest first
	processed []bool
}

func (c *bufComp) Model() seqModel {
	return &bufModel{evs: c.evs, limitNum: int(c.limit.Num), limitSize: int(c.limit.Size), processed: make([]bool, len(c.evs))}
}

func (m *bufModel) Clone() seqModel {
	c := &bufModel{evs: m.evs, limitNum: m.limitNum, limitSize: m.limitSize}
	c.inc = append(c.inc, m.inc...)
	c.processed = append(c.processed, m.processed...)
	return c
}
func (m *bufModel) Key() string { return fmt.Sprint(m.inc, m.processed) }

func (m *bufModel) has(e int) bool {
	for _, x := range m.inc {
		if x == e {
			return true
		}
	}
	return false
}
func (m *bufModel) remove(e int) {
	for i, x := range m.inc {
		if x == e {
			m.inc = append(m.inc[:i:i], m.inc[i+1:]...)
			return
		}
	}
}
func (m *bufModel) weight() int {
	w := 0
	for _, x := range m.inc {
		w += m.evs[x].ev.Size()
	}
	return w
}
func (m *bufModel) push(e int, list []int, haveList, recheck bool) bool {
	if m.processed[e] {
		m.remove(e)
		return false
	}
	for _, p := range m.evs[e].parents {
		if !m.processed[p] {
			if !recheck {
				m.inc = append(m.inc, e)
			}
			return false
		}
	}
	m.processed[e] = true
	if !haveList {
		list = append([]int{}, m.inc...)
	}
	for _, ch := range list {
		for _, p := range m.evs[ch].parents {
			if p == e {
				m.push(ch, list, true, true)
				break
			}
		}
	}
	m.remove(e)
	return true
}
func (m *bufModel) spill(num, size int) {
	for len(m.inc) > num || m.weight() > size {
		if len(m.inc) == 0 {
			break
		}
		m.inc = m.inc[1:]
	}
}
func (m *bufModel) Apply(op []string) string {
	switch op[0] {
	case "Push":
		e := atoi(op[1])
		if m.has(e) {
			return "0"
		}
		ok := m.push(e, nil, false, false)
		m.spill(m.limitNum, m.limitSize)
		return itoa(b2i(ok))
	case "Total":
		return fmt.Sprintf("%d,%d", len(m.inc), m.weight())
	case "IsBuffered":
		return itoa(b2i(m.has(atoi(op[1]))))
	case "Clear":
		m.spill(0, 0)
		return "ok"
	}
	panic("buffer model: unknown op " + op[0])
}

// EBMID: e has no parents, c1 and c2 have the single parent e.  c1, c2 are pushed first (incomplete), then
// PushEvent(e) runs in a goroutine and its Process(c2) callback blocks; meanwhile Total / IsBuffered are
// called from the main goroutine.  They are answered by the inner LRU without the buffer mutex and see c1
// already gone and c2 still buffered — a state no sequential execution of PushEvent exposes.
func ebMid() {
	mk := func(i int, parents ...hash.Event) evDef {
		var raw [24]byte
		raw[0] = byte(i + 1)
		me := &dag.MutableBaseEvent{}
		me.SetEpoch(1)
		me.SetLamport(idx.Lamport(i + 1))
		me.SetParents(parents)
		me.SetID(raw)
		return evDef{id: me.ID(), ev: &me.BaseEvent}
	}
	e := mk(0)
	c1 := mk(1, e.id)
	c1.parents = []int{0}
	c2 := mk(2, e.id)
	c2.parents = []int{0}
	c := newBufferWith([]evDef{e, c1, c2}, dag.Metric{Num: 10, Size: 100000})
	var h []rec
	do := func(t int, op ...string) {
		a := tick()
		res := c.Exec(t, op)
		b := tick()
		h = append(h, rec{t, a, b, op, res})
	}
	do(0, "Push", "1")
	do(0, "Push", "2")
	do(0, "Total")
	c.blockOn, c.entered, c.gate = 2, make(chan struct{}), make(chan struct{})
	var pushRec rec
	pushed := make(chan struct{})
	go func() {
		a := tick()
		res := c.Exec(1, []string{"Push", "0"})
		b := tick()
		pushRec = rec{1, a, b, []string{"Push", "0"}, res}
		close(pushed)
	}()
	<-c.entered
	// the reads run in their own goroutine: if a repaired buffer takes its mutex in Total/IsBuffered they
	// block until the push is over (then the gate is opened after a grace period and the history is linearizable)
	readsDone := make(chan struct{})
	var reads []rec
	go func() {
		for _, op := range [][]string{{"Total"}, {"IsBuffered", "1"}, {"IsBuffered", "2"}} {
			a := tick()
			res := c.Exec(0, op)
			b := tick()
			reads = append(reads, rec{0, a, b, op, res})
		}
		close(readsDone)
	}()
	select {
	case <-readsDone:
	case <-time.After(300 * time.Millisecond):
	}
	close(c.gate)
	<-pushed
	<-readsDone
	h = append(h, pushRec)
	h = append(h, reads...)
	do(0, "Total")
	report(h, c.Model(), "buffer", c.dagToken())
}

// EBTORN: every buffered event has the SAME size s, so every state the buffer's cache ever holds satisfies
// Size == Num*s — including the states in the middle of a PushEvent that the (recorded) unlocked Total() may see,
// because Total() takes the (weight, count) pair in ONE critical section of the cache.  Writers push incomplete
// events (their parent never arrives) and Clear; readers call Total() all the time and check the relation.  A
// Total() that assembles the pair from two separately locked reads returns pairs the cache never held.
func ebTorn(seed int64) {
	runtime.GOMAXPROCS(2 + int(seed%7))
	const writers, perWriter, readers, rounds = 3, 24, 3, 60
	var ghost [24]byte
	ghost[0] = 0xee
	gm := &dag.MutableBaseEvent{}
	gm.SetEpoch(1)
	gm.SetID(ghost)
	ghostID := gm.ID() // a parent that is never connected
	evs := make([]dag.Event, writers*perWriter)
	for i := range evs {
		var raw [24]byte
		raw[0], raw[1] = byte(i+1), byte((i+1)>>8)
		me := &dag.MutableBaseEvent{}
		me.SetEpoch(1)
		me.SetLamport(idx.Lamport(i + 2))
		me.SetParents(hash.Events{ghostID})
		me.SetID(raw)
		evs[i] = &me.BaseEvent
	}
	s := uint64(evs[0].Size())
	buf := dagordering.New(dag.Metric{Num: 1000, Size: 1 << 30}, dagordering.Callback{
		Process:  func(e dag.Event) error { return nil },
		Released: func(e dag.Event, peer string, err error) {},
		Get:      func(id hash.Event) dag.Event { return nil },
		Exists:   func(id hash.Event) bool { return false },
	})
	var stop int32
	var pushes, clears, reads int64
	type torn struct {
		reader   int
		num      uint64
		size     uint64
		nth      int64
		pushes   int64
		clearsAt int64
	}
	var mu sync.Mutex
	var first *torn
	var wg, rg sync.WaitGroup
	for r := 0; r < readers; r++ {
		rg.Add(1)
		go func(r int) {
			defer rg.Done()
			for atomic.LoadInt32(&stop) == 0 {
				m := buf.Total()
				n := atomic.AddInt64(&reads, 1)
				if m.Size != uint64(m.Num)*s {
					mu.Lock()
					if first == nil {
						first = &torn{r, uint64(m.Num), m.Size, n, atomic.LoadInt64(&pushes), atomic.LoadInt64(&clears)}
					}
					mu.Unlock()
				}
			}
		}(r)
	}
	for w := 0; w < writers; w++ {
		wg.Add(1)
		go func(w int) {
			defer wg.Done()
			for round := 0; round < rounds; round++ {
				for i := 0; i < perWriter; i++ {
					buf.PushEvent(evs[w*perWriter+i], "peer")
					atomic.AddInt64(&pushes, 1)
				}
				if w == 0 || round%3 == 0 {
					buf.Clear()
					atomic.AddInt64(&clears, 1)
				}
			}
		}(w)
	}
	wg.Wait()
	atomic.StoreInt32(&stop, 1)
	rg.Wait()
	if first != nil {
		fmt.Printf("torn=1 pair=%d,%d eventsize=%d reader=%d read#=%d pushes_so_far=%d clears_so_far=%d reads=%d pushes=%d clears=%d\n",
			first.num, first.size, s, first.reader, first.nth, first.pushes, first.clearsAt, reads, pushes, clears)
		return
	}
	fmt.Printf("torn=0 eventsize=%d reads=%d pushes=%d clears=%d\n", s, reads, pushes, clears)
}
