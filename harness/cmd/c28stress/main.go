// c28stress — runtime tie of C28.  Built WITH the race detector (bin/c28_lockscan) and run once per
// case by `vh C28` (harness/cmd/vh/c28.go), which parses the race reports from stderr.
//
//	c28stress LIN    <component> <seed> <threads> <opsPerThread>   short history, checked for linearizability
//	c28stress STRESS <component> <seed> <threads> <opsPerThread>   long workload, race detection only
//	c28stress EBMID                                                  deterministic EventsBuffer mid-push scenario
//	c28stress SNAPMID                                                deterministic Flushable.GetSnapshot vs Flush scenario (parent snapshot blocks)
//
// components: flushable lazy pool wlru sem buffer snap.  The real lachesis-base objects are driven by
// <threads> goroutines; every goroutine executes a list of operations that is a function of the
// seed only (the interleaving is the scheduler's).  In LIN mode every call is bracketed by two
// ticks of one atomic logical clock; the resulting invocation/response history is searched for a
// linearization (Wing–Gong search with memoisation) against a small sequential reference model
// written here in Go (independent of the code under test; the extracted Coq models of C22/C29/
// C30/C14 are not linked in — see design-notes/C28.md).
//
// stdout: one line of observation tokens:  lin=<0|1> ops=<n> ovl=<overlapping pairs> [why=...] H <history>
package main

import (
	"bufio"
	"fmt"
	"math/rand"
	"os"
	"runtime"
	"sort"
	"strconv"
	"strings"
	"sync"
	"sync/atomic"
	"time"
)

// ------------------------------------------------------------------ framework

type seqModel interface {
	Clone() seqModel
	Key() string
	Apply(op []string) string
}

type component interface {
	Cfg() string                                            // the configuration variant of this run (function of the seed)
	Gen(r *rand.Rand, thread int, i int, lin bool) []string // one operation
	Exec(thread int, op []string) string                    // run it on the real object
	Model() seqModel
	Finish()
}

type rec struct {
	t        int
	inv, ret int64
	op       []string
	res      string
}

var clock int64

func tick() int64 { return atomic.AddInt64(&clock, 1) }

func newComponent(name string, seed int64, threads int) component {
	switch name {
	case "flushable":
		return newFlushable(false, seed)
	case "lazy":
		return newFlushable(true, seed)
	case "pool":
		return newPool(seed)
	case "wlru":
		return newWlru(seed)
	case "sem":
		return newSem(seed)
	case "buffer":
		return newBuffer(seed)
	case "snap":
		return newSnap()
	}
	fmt.Fprintln(os.Stderr, "unknown component", name)
	os.Exit(2)
	return nil
}

func main() {
	if len(os.Args) < 2 {
		fmt.Fprintln(os.Stderr, "usage: c28stress LIN|STRESS component seed threads ops | EBMID | SERVE")
		os.Exit(2)
	}
	if os.Args[1] == "SERVE" {
		// one case per input line; the answer is one line "RESULT <tokens>" on stdout followed by the
		// marker "CASE-END" on stderr (race reports of the case precede the marker)
		sc := bufio.NewScanner(os.Stdin)
		for sc.Scan() {
			args := strings.Fields(sc.Text())
			if len(args) == 0 {
				continue
			}
			oneCase(args)
			os.Stdout.Sync()
			fmt.Fprintln(os.Stderr, "CASE-END")
		}
		return
	}
	oneCase(os.Args[1:])
}

func oneCase(args []string) {
	done := make(chan struct{})
	go func() { // watchdog: a hang (self-deadlock, lost wake-up) is an observation, not a timeout of the check
		select {
		case <-done:
		case <-time.After(20 * time.Second):
			fmt.Println("RESULT hang=1")
			os.Exit(3)
		}
	}()
	atomic.StoreInt64(&clock, 0)
	fmt.Print("RESULT ")
	switch {
	case args[0] == "EBMID":
		ebMid()
	case args[0] == "SNAPMID":
		snapMid()
	case args[0] == "POOLMID":
		poolMid(false)
	case args[0] == "POOLRD":
		poolMid(true)
	case args[0] == "EBTORN":
		sd := int64(1)
		if len(args) > 1 {
			sd, _ = strconv.ParseInt(args[1], 10, 64)
		}
		ebTorn(sd)
	case (args[0] == "LIN" || args[0] == "STRESS") && len(args) >= 5:
		seed, _ := strconv.ParseInt(args[2], 10, 64)
		threads, _ := strconv.Atoi(args[3])
		nops, _ := strconv.Atoi(args[4])
		run(args[0] == "LIN", args[1], seed, threads, nops)
	default:
		fmt.Println("bad-case")
	}
	close(done)
}

func run(lin bool, comp string, seed int64, threads, nops int) {
	runtime.GOMAXPROCS(1 + int(seed%8))
	c := newComponent(comp, seed, threads)
	plans := make([][][]string, threads)
	yields := make([][]bool, threads)
	for t := 0; t < threads; t++ {
		r := rand.New(rand.NewSource(seed*1000 + int64(t)))
		for i := 0; i < nops; i++ {
			plans[t] = append(plans[t], c.Gen(r, t, i, lin))
			yields[t] = append(yields[t], r.Intn(3) == 0)
		}
	}
	recs := make([][]rec, threads)
	var wg sync.WaitGroup
	start := make(chan struct{})
	for t := 0; t < threads; t++ {
		wg.Add(1)
		go func(t int) {
			defer wg.Done()
			<-start
			for i, op := range plans[t] {
				if yields[t][i] {
					runtime.Gosched()
				}
				if lin {
					a := tick()
					res := safeExec(c, t, op)
					b := tick()
					recs[t] = append(recs[t], rec{t, a, b, op, res})
				} else {
					safeExec(c, t, op)
				}
			}
		}(t)
	}
	close(start)
	wg.Wait()
	c.Finish()
	if !lin {
		fmt.Printf("ops=%d cfg=%s\n", threads*nops, c.Cfg())
		return
	}
	var h []rec
	for _, r := range recs {
		h = append(h, r...)
	}
	extra := " cfg=" + c.Cfg()
	if b, ok := c.(*bufComp); ok {
		extra += b.dagToken()
	}
	report(h, c.Model(), comp, extra)
}

// safeExec: an operation that panics (documented use-after-Close behaviour of Flushable) is an observation
func safeExec(c component, t int, op []string) (res string) {
	defer func() {
		if r := recover(); r != nil {
			res = "panic"
		}
	}()
	return c.Exec(t, op)
}

func overlapping(h []rec) int {
	n := 0
	for i := range h {
		for j := i + 1; j < len(h); j++ {
			if h[i].t != h[j].t && h[i].inv < h[j].ret && h[j].inv < h[i].ret {
				n++
			}
		}
	}
	return n
}

func histTokens(h []rec) string {
	type ev struct {
		at  int64
		tok string
	}
	var evs []ev
	for _, r := range h {
		evs = append(evs, ev{r.inv, fmt.Sprintf("i%d:%s", r.t, strings.Join(r.op, ","))})
		evs = append(evs, ev{r.ret, fmt.Sprintf("r%d:%s", r.t, r.res)})
	}
	sort.Slice(evs, func(i, j int) bool { return evs[i].at < evs[j].at })
	var out []string
	for _, e := range evs {
		out = append(out, e.tok)
	}
	return strings.Join(out, " ")
}

func report(h []rec, m seqModel, comp string, extra string) {
	ok := linearizable(h, m)
	why := ""
	if !ok && comp == "pool" {
		// the recorded finding: SyncedPool.Flush / NotFlushedSizeEst visit the stores one critical section after
		// the other, so writes through the store handles can fall in between.  Diagnose: is the history
		// linearizable once every PFlush is replaced by independent per-store flushes (same interval) and the
		// PSize calls that overlap a handle write are dropped?
		var h2 []rec
		pseudo := 100
		writeOverlapsFlush := false // the finding is about writes through the handles that overlap a pool operation
		for _, f := range h {
			if f.op[0] != "PFlush" && f.op[0] != "PSize" {
				continue
			}
			for _, w := range h {
				if w.op[0] == "H" && len(w.op) > 2 && (w.op[2] == "Put" || w.op[2] == "Delete" || w.op[2] == "Batch" || w.op[2] == "DropNotFlushed") &&
					w.t != f.t && w.inv < f.ret && f.inv < w.ret {
					writeOverlapsFlush = true
				}
			}
		}
		for _, r := range h {
			switch {
			case r.op[0] == "PFlush":
				for _, n := range []string{"a", "b", "c", "d", "z"} {
					h2 = append(h2, rec{pseudo, r.inv, r.ret, []string{"SFlush", n, r.op[1]}, "ok"})
					pseudo++
				}
			case r.op[0] == "PSize":
				mid := false
				for _, w := range h {
					if w.op[0] == "H" && w.t != r.t && w.inv < r.ret && r.inv < w.ret {
						mid = true
					}
				}
				if !mid {
					h2 = append(h2, r)
				}
			default:
				h2 = append(h2, r)
			}
		}
		if writeOverlapsFlush && linearizable(h2, m) {
			why = " why=pool-multi-store-not-atomic"
		}
	}
	if !ok && comp == "buffer" {
		// the recorded finding: Total/IsBuffered are served by the inner LRU without the buffer mutex and can
		// observe the middle of a PushEvent.  Diagnose: does the history become linearizable once the unlocked
		// reads that overlap a PushEvent/Clear are dropped?
		var h2 []rec
		for _, r := range h {
			if r.op[0] == "Total" || r.op[0] == "IsBuffered" {
				mid := false
				for _, w := range h {
					if (w.op[0] == "Push" || w.op[0] == "Clear") && w.t != r.t && w.inv < r.ret && r.inv < w.ret {
						mid = true
					}
				}
				if mid {
					continue
				}
			}
			h2 = append(h2, r)
		}
		if len(h2) < len(h) && linearizable(h2, m) {
			why = " why=eb-unlocked-read-mid-push"
		}
	}
	fmt.Printf("lin=%d ops=%d ovl=%d%s%s H %s\n", b2i(ok), len(h), overlapping(h), why, extra, histTokens(h))
}

func b2i(b bool) int {
	if b {
		return 1
	}
	return 0
}

// linearizable: is there a total order of the operations, extending "a returned before b was invoked",
// whose sequential execution on the model yields every recorded result?
func linearizable(h []rec, m0 seqModel) bool {
	n := len(h)
	if n > 62 {
		return true // not searched (never generated)
	}
	memo := map[string]bool{}
	var dfs func(done uint64, m seqModel) bool
	dfs = func(done uint64, m seqModel) bool {
		if done == (uint64(1)<<uint(n))-1 {
			return true
		}
		key := strconv.FormatUint(done, 16) + "|" + m.Key()
		if memo[key] {
			return false
		}
		// minimal operations: not done, and no other not-done operation returned before it was invoked
		var minRet int64 = 1 << 62
		for i := 0; i < n; i++ {
			if done&(1<<uint(i)) == 0 && h[i].ret < minRet {
				minRet = h[i].ret
			}
		}
		for i := 0; i < n; i++ {
			if done&(1<<uint(i)) != 0 || h[i].inv > minRet {
				continue
			}
			m2 := m.Clone()
			if m2.Apply(h[i].op) == h[i].res && dfs(done|1<<uint(i), m2) {
				return true
			}
		}
		memo[key] = true
		return false
	}
	return dfs(0, m0)
}

func pick(r *rand.Rand, xs ...string) string { return xs[r.Intn(len(xs))] }

func itoa(i int) string { return strconv.Itoa(i) }
