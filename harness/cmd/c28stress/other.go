package main

import (
	"fmt"
	"math/rand"
	"strings"
	"sync"
	"sync/atomic"
	"time"

	"github.com/Fantom-foundation/lachesis-base/inter/dag"
	"github.com/Fantom-foundation/lachesis-base/inter/idx"
	"github.com/Fantom-foundation/lachesis-base/utils/datasemaphore"
	"github.com/Fantom-foundation/lachesis-base/utils/wlru"
)

// ------------------------------------------------------------------ wlru.Cache

type lruEntry struct {
	k, v string
	w    int
}

type lruModel struct {
	ents      []lruEntry // newest first
	maxW, max int
}

func (m *lruModel) Clone() seqModel {
	c := &lruModel{maxW: m.maxW, max: m.max}
	c.ents = append(c.ents, m.ents...)
	return c
}
func (m *lruModel) Key() string { return fmt.Sprint(m.ents, m.maxW, m.max) }
func (m *lruModel) weight() int {
	w := 0
	for _, e := range m.ents {
		w += e.w
	}
	return w
}
func (m *lruModel) find(k string) int {
	for i, e := range m.ents {
		if e.k == k {
			return i
		}
	}
	return -1
}
func (m *lruModel) normalize() int {
	ev := 0
	for (m.weight() > m.maxW || len(m.ents) > m.max) && len(m.ents) > 0 {
		m.ents = m.ents[:len(m.ents)-1]
		ev++
	}
	return ev
}
func (m *lruModel) add(k, v string, w int) int {
	if i := m.find(k); i >= 0 {
		m.ents = append(m.ents[:i], m.ents[i+1:]...)
	}
	m.ents = append([]lruEntry{{k, v, w}}, m.ents...)
	return m.normalize()
}
func (m *lruModel) Apply(op []string) string {
	switch op[0] {
	case "Add":
		return itoa(m.add(op[1], op[2], atoi(op[3])))
	case "Get":
		if i := m.find(op[1]); i >= 0 {
			e := m.ents[i]
			m.ents = append(m.ents[:i], m.ents[i+1:]...)
			m.ents = append([]lruEntry{e}, m.ents...)
			return e.v
		}
		return "nil"
	case "Peek":
		if i := m.find(op[1]); i >= 0 {
			return m.ents[i].v
		}
		return "nil"
	case "Contains":
		return itoa(b2i(m.find(op[1]) >= 0))
	case "ContainsOrAdd":
		if m.find(op[1]) >= 0 {
			return "1,0"
		}
		return "0," + itoa(m.add(op[1], op[2], atoi(op[3])))
	case "PeekOrAdd":
		if i := m.find(op[1]); i >= 0 {
			return m.ents[i].v + ",1,0"
		}
		return "nil,0," + itoa(m.add(op[1], op[2], atoi(op[3])))
	case "Remove":
		if i := m.find(op[1]); i >= 0 {
			m.ents = append(m.ents[:i], m.ents[i+1:]...)
			return "1"
		}
		return "0"
	case "RemoveOldest":
		if len(m.ents) == 0 {
			return "nil"
		}
		e := m.ents[len(m.ents)-1]
		m.ents = m.ents[:len(m.ents)-1]
		return e.k + "=" + e.v
	case "GetOldest":
		if len(m.ents) == 0 {
			return "nil"
		}
		e := m.ents[len(m.ents)-1]
		return e.k + "=" + e.v
	case "Keys":
		ks := []string{}
		for i := len(m.ents) - 1; i >= 0; i-- {
			ks = append(ks, m.ents[i].k)
		}
		return "[" + strings.Join(ks, ";") + "]"
	case "Len":
		return itoa(len(m.ents))
	case "Weight":
		return itoa(m.weight())
	case "Total":
		return itoa(m.weight()) + "," + itoa(len(m.ents))
	case "Resize":
		m.maxW, m.max = atoi(op[1]), atoi(op[2])
		return itoa(m.normalize())
	case "Purge":
		m.ents = nil
		return "ok"
	}
	panic("lru model: unknown op " + op[0])
}

func atoi(s string) int {
	n := 0
	fmt.Sscan(s, &n)
	return n
}

type lruComp struct {
	c         *wlru.Cache
	maxW, max int
	cb        bool
	evicted   int64 // eviction callbacks seen (the callback runs under the cache's lock)
}

// newWlru: variants by seed — ordinary bounds, size 0, size 1, weight 0, weight 1; with and without the
// eviction callback (NewWithEvict)
func newWlru(seed int64) *lruComp {
	c := &lruComp{maxW: 6 + int(seed%5), max: 2 + int(seed%3)}
	switch (seed / 7) % 6 {
	case 1:
		c.max = 0
	case 2:
		c.max = 1
	case 3:
		c.maxW = 0
	case 4:
		c.maxW = 1
	}
	c.cb = (seed/3)%2 == 0
	if c.cb {
		c.c, _ = wlru.NewWithEvict(uint(c.maxW), c.max, func(k, v interface{}) { atomic.AddInt64(&c.evicted, 1) })
	} else {
		c.c, _ = wlru.New(uint(c.maxW), c.max)
	}
	return c
}

func (c *lruComp) Cfg() string { return fmt.Sprintf("w%d.s%d.cb%d", c.maxW, c.max, b2i(c.cb)) }

func (c *lruComp) Model() seqModel { return &lruModel{maxW: c.maxW, max: c.max} }
func (c *lruComp) Finish()         {}

func (c *lruComp) Gen(r *rand.Rand, t, i int, lin bool) []string {
	k := pick(r, "a", "b", "c", "d")
	v := fmt.Sprintf("%x%02x", t+1, i)
	w := itoa(1 + r.Intn(4))
	n := r.Intn(100)
	switch {
	case n < 22:
		return []string{"Add", k, v, w}
	case n < 34:
		return []string{"Get", k}
	case n < 40:
		return []string{"Peek", k}
	case n < 46:
		return []string{"Contains", k}
	case n < 51:
		return []string{"ContainsOrAdd", k, v, w}
	case n < 56:
		return []string{"PeekOrAdd", k, v, w}
	case n < 62:
		return []string{"Remove", k}
	case n < 66:
		return []string{"RemoveOldest"}
	case n < 70:
		return []string{"GetOldest"}
	case n < 76:
		return []string{"Keys"}
	case n < 82:
		return []string{"Len"}
	case n < 88:
		return []string{"Weight"}
	case n < 94:
		return []string{"Total"}
	case n < 98:
		return []string{"Resize", itoa(3 + r.Intn(8)), itoa(1 + r.Intn(4))}
	default:
		return []string{"Purge"}
	}
}

func sv(v interface{}, ok bool) string {
	if !ok {
		return "nil"
	}
	return v.(string)
}

func (c *lruComp) Exec(t int, op []string) string {
	l := c.c
	switch op[0] {
	case "Add":
		return itoa(l.Add(op[1], op[2], uint(atoi(op[3]))))
	case "Get":
		return sv(l.Get(op[1]))
	case "Peek":
		return sv(l.Peek(op[1]))
	case "Contains":
		return itoa(b2i(l.Contains(op[1])))
	case "ContainsOrAdd":
		ok, ev := l.ContainsOrAdd(op[1], op[2], uint(atoi(op[3])))
		return itoa(b2i(ok)) + "," + itoa(ev)
	case "PeekOrAdd":
		p, ok, ev := l.PeekOrAdd(op[1], op[2], uint(atoi(op[3])))
		return sv(p, ok) + "," + itoa(b2i(ok)) + "," + itoa(ev)
	case "Remove":
		return itoa(b2i(l.Remove(op[1])))
	case "RemoveOldest":
		k, v, ok := l.RemoveOldest()
		if !ok {
			return "nil"
		}
		return k.(string) + "=" + v.(string)
	case "GetOldest":
		k, v, ok := l.GetOldest()
		if !ok {
			return "nil"
		}
		return k.(string) + "=" + v.(string)
	case "Keys":
		ks := []string{}
		for _, k := range l.Keys() {
			ks = append(ks, k.(string))
		}
		return "[" + strings.Join(ks, ";") + "]"
	case "Len":
		return itoa(l.Len())
	case "Weight":
		return itoa(int(l.Weight()))
	case "Total":
		w, n := l.Total()
		return itoa(int(w)) + "," + itoa(n)
	case "Resize":
		return itoa(l.Resize(uint(atoi(op[1])), atoi(op[2])))
	case "Purge":
		l.Purge()
		return "ok"
	}
	panic("lru exec: unknown op " + op[0])
}

// ------------------------------------------------------------------ DataSemaphore

type semModel struct {
	pn, mn uint32
	ps, ms uint64
}

func (m *semModel) Clone() seqModel { c := *m; return &c }
func (m *semModel) Key() string     { return fmt.Sprint(*m) }
func (m *semModel) try(n uint32, s uint64) bool {
	if m.pn+n > m.mn || m.ps+s > m.ms {
		return false
	}
	m.pn += n
	m.ps += s
	return true
}
func (m *semModel) Apply(op []string) string {
	n, s := uint32(atoi(op[1])), uint64(atoi(op[2]))
	switch op[0] {
	case "TryAcquire", "Acquire0", "AcquireB", "AcquireZ", "AcquireH":
		// a blocking Acquire takes effect in its last critical section: it succeeds iff the weight fits THEN;
		// it gives up (deadline passed, or weight above the maximum) only right after a failed attempt
		return itoa(b2i(m.try(n, s)))
	case "Release":
		if m.pn < n || m.ps < s {
			m.pn, m.ps = 0, 0
		} else {
			m.pn -= n
			m.ps -= s
		}
		return "ok"
	case "Processing":
		return fmt.Sprintf("%d,%d", m.pn, m.ps)
	case "Available":
		return fmt.Sprintf("%d,%d", m.mn-m.pn, m.ms-m.ps)
	case "Terminate":
		m.mn, m.ms = 0, 0
		return "ok"
	}
	panic("sem model: unknown op " + op[0])
}

type semComp struct {
	s      *datasemaphore.DataSemaphore
	stop   chan struct{}
	once   sync.Once
	mn     uint32
	ms     uint64
	warnCb bool
}

// newSem: variants by seed — capacity (5,50), (0,0), (1,1), (0,50), (3,0); warning callback nil or not
func newSem(seed int64) *semComp {
	c := &semComp{stop: make(chan struct{}), mn: 5, ms: 50}
	switch (seed / 5) % 6 {
	case 1:
		c.mn, c.ms = 0, 0
	case 2:
		c.mn, c.ms = 1, 1
	case 3:
		c.mn, c.ms = 0, 50
	case 4:
		c.mn, c.ms = 3, 0
	}
	c.warnCb = (seed/2)%2 == 0
	var warn func(dag.Metric, dag.Metric, dag.Metric)
	if c.warnCb {
		warn = func(dag.Metric, dag.Metric, dag.Metric) {}
	}
	c.s = datasemaphore.New(dag.Metric{Num: idx.Event(c.mn), Size: c.ms}, warn)
	return c
}
func (c *semComp) Cfg() string     { return fmt.Sprintf("n%d.s%d.warn%d", c.mn, c.ms, b2i(c.warnCb)) }
func (c *semComp) Model() seqModel { return &semModel{mn: c.mn, ms: c.ms} }
func (c *semComp) Finish()         { close(c.stop); c.s.Terminate() }

// waker: Acquire re-checks its deadline only when the condition variable is signalled (the missing timer is
// the C30 finding, not this property's): while blocking Acquires are in flight an empty Release is issued
// every millisecond so that every waiter gets to see its deadline.
func (c *semComp) waker() {
	c.once.Do(func() {
		go func() {
			for {
				select {
				case <-c.stop:
					return
				case <-time.After(time.Millisecond):
					c.s.Release(dag.Metric{})
				}
			}
		}()
	})
}

func (c *semComp) Gen(r *rand.Rand, t, i int, lin bool) []string {
	n, s := itoa(r.Intn(4)), itoa(r.Intn(30))
	if r.Intn(8) == 0 {
		n, s = "0", "0" // zero weight
	}
	x := r.Intn(100)
	switch {
	case x < 3:
		return []string{"AcquireZ", n, s} // timeout exactly zero
	case x < 6:
		return []string{"AcquireH", "100", "1000"} // an hour of timeout, a weight above every capacity: refused at once
	case x < 30:
		return []string{"TryAcquire", n, s}
	case x < 36:
		return []string{"Acquire0", n, s}
	case x < 40:
		if lin {
			return []string{"AcquireB", n, s}
		}
		return []string{"Acquire0", n, s}
	case x < 65:
		return []string{"Release", n, s}
	case x < 80:
		return []string{"Processing", "0", "0"}
	case x < 96:
		return []string{"Available", "0", "0"}
	case x < 98:
		if lin {
			return []string{"Terminate", "0", "0"}
		}
		return []string{"AcquireWait", n, s}
	default:
		if lin {
			return []string{"Available", "0", "0"}
		}
		return []string{"AcquireWait", n, s}
	}
}

func (c *semComp) Exec(t int, op []string) string {
	m := dag.Metric{Num: idx.Event(atoi(op[1])), Size: uint64(atoi(op[2]))}
	switch op[0] {
	case "TryAcquire":
		return itoa(b2i(c.s.TryAcquire(m)))
	case "Acquire0":
		// deadline in the past: never waits (when the weight does not fit, the loop sees the deadline
		// passed and returns false)
		return itoa(b2i(c.s.Acquire(m, -time.Second)))
	case "AcquireZ":
		return itoa(b2i(c.s.Acquire(m, 0)))
	case "AcquireH":
		return itoa(b2i(c.s.Acquire(m, time.Hour)))
	case "AcquireB": // really blocks on the condition variable, up to 2 ms
		return itoa(b2i(c.s.Acquire(m, 2*time.Millisecond)))
	case "AcquireWait": // STRESS only: really waits on the condition variable; a helper releases
		c.waker()
		go func() { time.Sleep(200 * time.Microsecond); c.s.Release(m) }()
		c.s.Acquire(m, time.Millisecond)
		return "ok"
	case "Release":
		c.s.Release(m)
		return "ok"
	case "Processing":
		p := c.s.Processing()
		return fmt.Sprintf("%d,%d", p.Num, p.Size)
	case "Available":
		p := c.s.Available()
		return fmt.Sprintf("%d,%d", p.Num, p.Size)
	case "Terminate":
		c.s.Terminate()
		return "ok"
	}
	panic("sem exec: unknown op " + op[0])
}
