package main

import (
	"fmt"
	"math/rand"
	"sort"
	"strings"
	"sync"
	"time"

	"github.com/Fantom-foundation/lachesis-base/kvdb"
	"github.com/Fantom-foundation/lachesis-base/kvdb/flushable"
	"github.com/Fantom-foundation/lachesis-base/kvdb/memorydb"
)

// ------------------------------------------------------------------ sequential reference: overlay over a parent map

type kvState struct {
	overlay map[string]*string // nil = deleted marker
	parent  map[string]string
	size    int
	closed  bool
}

func newKvState() *kvState {
	return &kvState{overlay: map[string]*string{}, parent: map[string]string{}}
}

func (s *kvState) clone() *kvState {
	c := newKvState()
	for k, v := range s.overlay {
		c.overlay[k] = v
	}
	for k, v := range s.parent {
		c.parent[k] = v
	}
	c.size = s.size
	c.closed = s.closed
	return c
}

func (s *kvState) key() string {
	var ks []string
	for k, v := range s.overlay {
		if v == nil {
			ks = append(ks, "o"+k+"=~")
		} else {
			ks = append(ks, "o"+k+"="+*v)
		}
	}
	for k, v := range s.parent {
		ks = append(ks, "p"+k+"="+v)
	}
	sort.Strings(ks)
	return strings.Join(ks, ",") + fmt.Sprintf("#%d%v", s.size, s.closed)
}

func (s *kvState) put(k, v string) {
	vv := v
	s.overlay[k] = &vv
	s.size += len(k) + len(v) + 128
}
func (s *kvState) del(k string) {
	s.overlay[k] = nil
	s.size += len(k) + 128
}
func (s *kvState) get(k string) string {
	if v, ok := s.overlay[k]; ok {
		if v == nil {
			return "nil"
		}
		return *v
	}
	if v, ok := s.parent[k]; ok {
		return v
	}
	return "nil"
}
func (s *kvState) flush() {
	for k, v := range s.overlay {
		if v == nil {
			delete(s.parent, k)
		} else {
			s.parent[k] = *v
		}
	}
	s.overlay = map[string]*string{}
	s.size = 0
}
func (s *kvState) content() string {
	m := map[string]string{}
	for k, v := range s.parent {
		m[k] = v
	}
	for k, v := range s.overlay {
		if v == nil {
			delete(m, k)
		} else {
			m[k] = *v
		}
	}
	var ks []string
	for k := range m {
		ks = append(ks, k)
	}
	sort.Strings(ks)
	out := []string{}
	for _, k := range ks {
		out = append(out, k+"="+m[k])
	}
	return "[" + strings.Join(out, ";") + "]"
}

// operations shared by the single store and by the stores inside the pool
func (s *kvState) apply(op []string) string {
	if s.closed {
		// after Close (flushable.go): the overlay tree is nil.  Reads and Flush / batch Write / Close report
		// errClosed; the methods that dereference the tree panic; the size estimate was reset by Close
		switch op[0] {
		case "Get", "Has", "Flush", "Batch", "Close":
			return "err"
		case "Put", "Delete", "Pairs", "DropNotFlushed", "Snap":
			return "panic"
		case "SizeEst":
			return "0"
		}
		return "ok"
	}
	switch op[0] {
	case "Close":
		s.overlay = map[string]*string{}
		s.size = 0
		s.closed = true
		return "ok"
	case "MidFlush":
		return "ok"
	case "Put":
		s.put(op[1], op[2])
		return "ok"
	case "Delete":
		s.del(op[1])
		return "ok"
	case "Get":
		return s.get(op[1])
	case "Has":
		return itoa(b2i(s.get(op[1]) != "nil"))
	case "Flush":
		s.flush()
		return "ok"
	case "DropNotFlushed":
		s.overlay = map[string]*string{}
		s.size = 0
		return "ok"
	case "Pairs":
		return itoa(len(s.overlay))
	case "SizeEst":
		return itoa(s.size)
	case "Snap":
		return s.content()
	case "Batch": // Batch k v k v ... ; v = "~" deletes
		for i := 1; i+1 < len(op); i += 2 {
			if op[i+1] == "~" {
				s.del(op[i])
			} else {
				s.put(op[i], op[i+1])
			}
		}
		return "ok"
	case "Stat", "Compact", "InitDb":
		return "ok"
	}
	panic("kv model: unknown op " + op[0])
}

type kvModel struct{ s *kvState }

func (m kvModel) Clone() seqModel          { return kvModel{m.s.clone()} }
func (m kvModel) Key() string              { return m.s.key() }
func (m kvModel) Apply(op []string) string { return m.s.apply(op) }

// ------------------------------------------------------------------ real Flushable / LazyFlushable

type storeLike interface {
	kvdb.Store
	NotFlushedPairs() int
	NotFlushedSizeEst() int
	Flush() error
	DropNotFlushed()
}

type flushComp struct {
	db      storeLike
	lazy    *flushable.LazyFlushable
	mids    []*flushable.Flushable // the wrapped layers below the store under test (depth 2, 3)
	cfg     string
	closing bool // variant: Close is one of the operations, the others are those that survive it
	hand    chan handed
}

// an iterator and a snapshot created by one goroutine and used / released by another
type handed struct {
	it   kvdb.Iterator
	snap kvdb.Snapshot
}

// newFlushable: variants by seed — wrapping depth 1..3 (a Flushable over Flushables: the nested lock instances),
// LazyFlushable initialised before the run or not, and a run in which the store is closed by one of the goroutines
func newFlushable(lazy bool, seed int64) *flushComp {
	c := &flushComp{hand: make(chan handed, 64)}
	depth := 1 + int(seed%3)
	var bottom kvdb.Store = memorydb.New()
	for i := 1; i < depth; i++ {
		m := flushable.Wrap(bottom)
		c.mids = append(c.mids, m)
		bottom = m
	}
	c.closing = (seed/3)%5 == 0
	c.cfg = fmt.Sprintf("depth%d", depth)
	if lazy {
		c.lazy = flushable.NewLazy(func() (kvdb.Store, error) { return bottom, nil }, nil)
		c.db = c.lazy
		if (seed/15)%2 == 0 {
			c.lazy.InitUnderlyingDb()
			c.cfg += "-inited"
		} else {
			c.cfg += "-uninit"
		}
	} else {
		c.db = flushable.Wrap(bottom)
	}
	if c.closing {
		c.cfg += "-closing"
	}
	return c
}

func (c *flushComp) Cfg() string { return c.cfg }

var kvKeys = []string{"a", "b", "c"}

func genKvOp(r *rand.Rand, t, i int, lin bool, lazy bool) []string {
	k := kvKeys[r.Intn(len(kvKeys))]
	v := fmt.Sprintf("%x%02x", t+1, i) // unique per write
	n := r.Intn(100)
	switch {
	case n < 22:
		return []string{"Put", k, v}
	case n < 30:
		return []string{"Delete", k}
	case n < 45:
		return []string{"Get", k}
	case n < 50:
		return []string{"Has", k}
	case n < 58:
		return []string{"Flush"}
	case n < 62:
		return []string{"DropNotFlushed"}
	case n < 72:
		return []string{"Pairs"}
	case n < 82:
		return []string{"SizeEst"}
	case n < 87:
		return []string{"Snap"}
	case n < 92:
		k2 := kvKeys[r.Intn(len(kvKeys))]
		return []string{"Batch", k, v, k2, pick(r, "~", v+"b")}
	case n < 95:
		return []string{"Stat"}
	case n < 97:
		if lazy {
			return []string{"InitDb"}
		}
		return []string{"Stat"}
	default:
		if lin {
			return []string{"Has", k}
		}
		return []string{pick(r, "Iterate", "Compact")}
	}
}

func (c *flushComp) Gen(r *rand.Rand, t, i int, lin bool) []string {
	if c.closing { // the store is closed by one of the goroutines; every operation is defined after Close
		k := kvKeys[r.Intn(len(kvKeys))]
		switch n := r.Intn(100); {
		case n < 8:
			return []string{"Close"}
		case n < 25:
			return []string{"Put", k, fmt.Sprintf("%x%02x", t+1, i)}
		case n < 45:
			return []string{"Get", k}
		case n < 55:
			return []string{"Has", k}
		case n < 65:
			return []string{"Flush"}
		case n < 75:
			return []string{"Pairs"}
		case n < 85:
			return []string{"SizeEst"}
		case n < 92:
			return []string{"Batch", k, fmt.Sprintf("%x%02xb", t+1, i)}
		default:
			if lin {
				return []string{"DropNotFlushed"}
			}
			return []string{"Iterate"}
		}
	}
	if n := r.Intn(100); n < 6 && len(c.mids) > 0 {
		return []string{"MidFlush", itoa(r.Intn(len(c.mids)))} // flush of a lower layer: invisible from the top
	} else if n < 12 && !lin {
		return []string{pick(r, "HandOver", "Drain")}
	}
	return genKvOp(r, t, i, lin, c.lazy != nil)
}

func errs(err error) string {
	if err != nil {
		return "err"
	}
	return "ok"
}

func bytesOrNil(b []byte, err error) string {
	if err != nil {
		return "err"
	}
	if b == nil {
		return "nil"
	}
	return string(b)
}

func snapshotContent(db kvdb.Store) string {
	snap, err := db.GetSnapshot()
	if err != nil {
		return "err"
	}
	defer snap.Release()
	it := snap.NewIterator(nil, nil)
	defer it.Release()
	out := []string{}
	for it.Next() {
		if string(it.Key()) == "flag" { // the pool's flush-id mark (observed through PInit instead)
			continue
		}
		out = append(out, string(it.Key())+"="+string(it.Value()))
	}
	return "[" + strings.Join(out, ";") + "]"
}

func execKvOp(db storeLike, op []string) string {
	switch op[0] {
	case "Put":
		return errs(db.Put([]byte(op[1]), []byte(op[2])))
	case "Delete":
		return errs(db.Delete([]byte(op[1])))
	case "Get":
		return bytesOrNil(db.Get([]byte(op[1])))
	case "Has":
		ok, err := db.Has([]byte(op[1]))
		if err != nil {
			return "err"
		}
		return itoa(b2i(ok))
	case "Flush":
		return errs(db.Flush())
	case "DropNotFlushed":
		db.DropNotFlushed()
		return "ok"
	case "Pairs":
		return itoa(db.NotFlushedPairs())
	case "SizeEst":
		return itoa(db.NotFlushedSizeEst())
	case "Snap":
		return snapshotContent(db)
	case "Batch":
		b := db.NewBatch()
		for i := 1; i+1 < len(op); i += 2 {
			if op[i+1] == "~" {
				b.Delete([]byte(op[i]))
			} else {
				b.Put([]byte(op[i]), []byte(op[i+1]))
			}
		}
		return errs(b.Write())
	case "Stat":
		db.Stat("x")
		return "ok"
	case "Compact":
		db.Compact(nil, nil)
		return "ok"
	case "Iterate":
		it := db.NewIterator(nil, nil)
		for it.Next() {
			_ = it.Key()
			_ = it.Value()
		}
		it.Release()
		return "ok"
	}
	panic("kv exec: unknown op " + op[0])
}

func (c *flushComp) Exec(t int, op []string) string {
	switch op[0] {
	case "InitDb":
		_, err := c.lazy.InitUnderlyingDb()
		return errs(err)
	case "MidFlush":
		return errs(c.mids[atoi(op[1])].Flush())
	case "Close":
		return errs(c.db.Close())
	case "HandOver": // created here, used and released by whoever drains
		snap, err := c.db.GetSnapshot()
		if err != nil {
			return "err"
		}
		select {
		case c.hand <- handed{c.db.NewIterator(nil, nil), snap}:
		default:
			snap.Release()
		}
		return "ok"
	case "Drain":
		select {
		case h := <-c.hand:
			for h.it.Next() {
				_ = h.it.Key()
			}
			h.it.Release()
			h.snap.Get([]byte("a"))
			h.snap.Release()
		default:
		}
		return "ok"
	}
	return execKvOp(c.db, op)
}

func (c *flushComp) Model() seqModel { return kvModel{newKvState()} }
func (c *flushComp) Finish()         {}

// ------------------------------------------------------------------ SyncedPool

type poolComp struct {
	pool    *flushable.SyncedPool
	handles map[string]storeLike
	under   map[string]kvdb.Store
	names   []string // stores opened (with their underlying databases) before the run
}

func (c *poolComp) Cfg() string { return "stores:" + strings.Join(c.names, ".") }

var poolNames = []string{"a", "b"}

func poolStores(seed int64) []string {
	switch seed % 3 {
	case 0:
		return []string{"a"}
	case 1:
		return []string{"a", "b"}
	}
	return []string{"a", "b", "e", "f", "g"}
}

// safeProducer: a DBProducer over memorydb stores with its own locking.  (memorydb.NewProducer is not used
// here: its fakeFS drop callback deletes from a map without the fakeFS lock — a race outside the five
// components of this property, noted in design-notes/C28.md.)
type safeProducer struct {
	mu  sync.Mutex
	dbs map[string]kvdb.Store
}

func (p *safeProducer) OpenDB(name string) (kvdb.Store, error) {
	p.mu.Lock()
	defer p.mu.Unlock()
	if db, ok := p.dbs[name]; ok {
		return db, nil
	}
	db := memorydb.NewWithDrop(func() {
		p.mu.Lock()
		delete(p.dbs, name)
		p.mu.Unlock()
	})
	p.dbs[name] = db
	return db, nil
}

func newPool(seed int64) *poolComp {
	c := &poolComp{pool: flushable.NewSyncedPool(&safeProducer{dbs: map[string]kvdb.Store{}}, []byte("flag")),
		handles: map[string]storeLike{}, under: map[string]kvdb.Store{}, names: poolStores(seed)}
	for _, n := range c.names {
		db, err := c.pool.OpenDB(n)
		if err != nil {
			panic(err)
		}
		c.handles[n] = db.(storeLike)
		u, err := c.pool.GetUnderlying(n)
		if err != nil {
			panic(err)
		}
		c.under[n] = u
	}
	return c
}

func (c *poolComp) Gen(r *rand.Rand, t, i int, lin bool) []string {
	n := r.Intn(100)
	name := c.names[r.Intn(len(c.names))]
	switch {
	case n < 40:
		op := genKvOp(r, t, i, true, false)
		for op[0] == "Stat" || op[0] == "Flush" { // Flush of a single store bypasses the pool's marks: keep the model simple
			op = genKvOp(r, t, i, true, false)
		}
		return append([]string{"H", name}, op...)
	case n < 52:
		return []string{"PFlush", fmt.Sprintf("%x%02x", t+1, i)}
	case n < 64:
		return []string{"PSize"}
	case n < 72:
		return []string{"PNames"}
	case n < 78:
		return []string{"POpen", pick(r, "a", "b", "c", "d")}
	case n < 84:
		return []string{"PInit", pick(r, "a", "c", "d"), pick(r, "b", "c", "d")}
	case n < 90:
		return []string{"PUnder", pick(r, "a", "b", "c")}
	case n < 96:
		return []string{"UGet", name, kvKeys[r.Intn(len(kvKeys))]}
	default:
		if lin {
			return []string{"PSize"}
		}
		return []string{"Victim", pick(r, "Get", "Has", "Flush", "Drop", "Size")}
	}
}

func (c *poolComp) Exec(t int, op []string) string {
	switch op[0] {
	case "H":
		return execKvOp(c.handles[op[1]], op[2:])
	case "PFlush":
		return errs(c.pool.Flush([]byte(op[1])))
	case "PSize":
		return itoa(c.pool.NotFlushedSizeEst())
	case "PNames":
		ns := c.pool.Names()
		sort.Strings(ns)
		return "[" + strings.Join(ns, ";") + "]"
	case "POpen":
		_, err := c.pool.OpenDB(op[1])
		return errs(err)
	case "PInit":
		_, err := c.pool.Initialize(op[1:], nil)
		return errs(err)
	case "PUnder":
		_, err := c.pool.GetUnderlying(op[1])
		return errs(err)
	case "UGet":
		return bytesOrNil(c.under[op[1]].Get([]byte(op[2])))
	case "Victim": // STRESS only: a store that is dropped while its handle is still in use
		db, err := c.pool.OpenDB("z")
		if err != nil {
			return "err"
		}
		h := db.(storeLike)
		switch op[1] {
		case "Get":
			h.Get([]byte("a"))
		case "Has":
			h.Has([]byte("a"))
		case "Flush":
			h.Flush()
		case "Size":
			h.NotFlushedSizeEst()
		case "Drop":
			h.Close()
			h.Drop()
		}
		return "ok"
	}
	panic("pool exec: unknown op " + op[0])
}

func (c *poolComp) Finish() {}

type poolModel struct {
	dbs       map[string]*kvState
	marks     map[string]string // clean flush id stored in the parent under the flag key ("" = none)
	lastFlush string
}

func (c *poolComp) Model() seqModel {
	m := &poolModel{dbs: map[string]*kvState{}, marks: map[string]string{}}
	for _, n := range c.names {
		m.dbs[n] = newKvState()
	}
	return m
}

func (m *poolModel) Clone() seqModel {
	c := &poolModel{dbs: map[string]*kvState{}, marks: map[string]string{}, lastFlush: m.lastFlush}
	for k, v := range m.dbs {
		c.dbs[k] = v.clone()
	}
	for k, v := range m.marks {
		c.marks[k] = v
	}
	return c
}

func (m *poolModel) names() []string {
	var ns []string
	for n := range m.dbs {
		ns = append(ns, n)
	}
	sort.Strings(ns)
	return ns
}

func (m *poolModel) Key() string {
	var b strings.Builder
	for _, n := range m.names() {
		b.WriteString(n + ":" + m.dbs[n].key() + "/" + m.marks[n] + "|")
	}
	return b.String()
}

func (m *poolModel) open(n string) {
	if m.dbs[n] == nil {
		m.dbs[n] = newKvState()
	}
}

func (m *poolModel) Apply(op []string) string {
	switch op[0] {
	case "H":
		return m.dbs[op[1]].apply(op[2:])
	case "PFlush":
		for n, s := range m.dbs {
			s.flush()
			m.marks[n] = op[1]
		}
		return "ok"
	case "SFlush": // diagnosis only: the flush of ONE store
		if s, ok := m.dbs[op[1]]; ok {
			s.flush()
			m.marks[op[1]] = op[2]
		}
		return "ok"
	case "PSize":
		t := 0
		for _, s := range m.dbs {
			t += s.size
		}
		return itoa(t)
	case "PNames":
		return "[" + strings.Join(m.names(), ";") + "]"
	case "POpen", "PUnder":
		m.open(op[1])
		return "ok"
	case "PInit":
		for _, n := range op[1:] {
			m.open(n)
		}
		// CheckDBsSynced(flushID=nil): error iff two stores carry different marks, or some carry a mark and some none
		first, any, none := "", false, false
		for n := range m.dbs {
			mk := m.marks[n]
			if mk == "" {
				none = true
				continue
			}
			if any && mk != first {
				return "err"
			}
			first, any = mk, true
		}
		if any && none {
			return "err"
		}
		return "ok"
	case "UGet":
		if v, ok := m.dbs[op[1]].parent[op[2]]; ok {
			return v
		}
		return "nil"
	}
	panic("pool model: unknown op " + op[0])
}

// ------------------------------------------------------------------ SNAPMID

// gateStore: a parent store whose GetSnapshot, once armed, takes the snapshot and then blocks until the gate opens
type gateStore struct {
	kvdb.Store
	armed   bool
	entered chan struct{}
	gate    chan struct{}
}

func (g *gateStore) GetSnapshot() (kvdb.Snapshot, error) {
	snap, err := g.Store.GetSnapshot()
	if g.armed {
		g.armed = false
		close(g.entered)
		<-g.gate
	}
	return snap, err
}

// snapMid: Put(a) is in the overlay; GetSnapshot runs in goroutine 1 and its parent snapshot blocks; meanwhile
// goroutine 0 calls Flush.  A store that holds its read lock across the parent snapshot makes Flush wait (the gate
// opens after a grace period) and the snapshot is [a=..].  A store that takes the parent snapshot outside its
// critical section lets Flush move the pair into the parent and clear the overlay in between: the snapshot is the
// OLD parent plus the NEW (empty) overlay = [] although the merged content was [a=..] at every instant.
func snapMid() {
	g := &gateStore{Store: memorydb.New(), entered: make(chan struct{}), gate: make(chan struct{})}
	db := flushable.Wrap(g)
	var h []rec
	do := func(t int, op ...string) rec {
		a := tick()
		res := execKvOp(db, op)
		b := tick()
		return rec{t, a, b, op, res}
	}
	h = append(h, do(0, "Put", "a", "101"))
	g.armed = true
	var snapRec, flushRec rec
	snapDone, flushDone := make(chan struct{}), make(chan struct{})
	go func() { snapRec = do(1, "Snap"); close(snapDone) }()
	<-g.entered
	go func() { flushRec = do(0, "Flush"); close(flushDone) }()
	select {
	case <-flushDone:
	case <-time.After(300 * time.Millisecond):
	}
	close(g.gate)
	<-snapDone
	<-flushDone
	h = append(h, snapRec, flushRec)
	h = append(h, do(0, "Snap"))
	report(h, kvModel{newKvState()}, "flushable", "")
}

// ------------------------------------------------------------------ POOLMID

// gateDB: an underlying database whose batch Write reports to the gate (the data flush of one pooled store)
type gateDB struct {
	kvdb.Store
	name string
	g    *flushGate
}

type gateBatch struct {
	kvdb.Batch
	db *gateDB
}

func (d *gateDB) NewBatch() kvdb.Batch { return &gateBatch{d.Store.NewBatch(), d} }
func (b *gateBatch) Write() error {
	err := b.Batch.Write()
	b.db.g.written(b.db.name)
	return err
}

type flushGate struct {
	mu      sync.Mutex
	armed   bool
	order   []string
	entered chan struct{}
	gate    chan struct{}
}

// written: called at the end of every store's data flush (the store's lock is still held); the SECOND store
// of an armed flush blocks here: one store is flushed, this one is being flushed, the third is not yet
func (g *flushGate) written(name string) {
	g.mu.Lock()
	if !g.armed {
		g.mu.Unlock()
		return
	}
	g.order = append(g.order, name)
	second := len(g.order) == 2
	g.mu.Unlock()
	if second {
		close(g.entered)
		<-g.gate
	}
}

type gateProducer struct {
	mu  sync.Mutex
	dbs map[string]kvdb.Store
	g   *flushGate
}

func (p *gateProducer) OpenDB(name string) (kvdb.Store, error) {
	p.mu.Lock()
	defer p.mu.Unlock()
	if db, ok := p.dbs[name]; ok {
		return db, nil
	}
	db := &gateDB{Store: memorydb.New(), name: name, g: p.g}
	p.dbs[name] = db
	return db, nil
}

// poolMid: three pooled stores; SyncedPool.Flush flushes them one after the other, each under its own lock.
// While the second one is being flushed, another goroutine writes x into the store that is ALREADY flushed and
// then y into the store that is NOT YET flushed.  After the flush y is durable and x is not, although Put(x)
// returned before Put(y) was called: no position of an atomic Flush explains both.
// With readers = true (POOLRD) nothing is written during the flush: every store got k before it, and while the
// second store's flush is blocked another goroutine READS k from the underlying databases of the first and third
// store (GetUnderlying stores, guarded by the pool's `flushing` lock).  A correct pool makes the readers wait for
// the end of the flush; a pool whose Flush does not hold `flushing` exclusively lets them see one store flushed
// and the other not.
func poolMid(readers bool) {
	g := &flushGate{entered: make(chan struct{}), gate: make(chan struct{})}
	prod := &gateProducer{dbs: map[string]kvdb.Store{}, g: g}
	c := &poolComp{pool: flushable.NewSyncedPool(prod, []byte("flag")), handles: map[string]storeLike{}, under: map[string]kvdb.Store{}}
	for _, n := range []string{"a", "b", "c"} {
		db, _ := c.pool.OpenDB(n)
		c.handles[n] = db.(storeLike)
		u, _ := c.pool.GetUnderlying(n)
		c.under[n] = u
	}
	var h []rec
	do := func(t int, op ...string) rec {
		a := tick()
		res := c.Exec(t, op)
		b := tick()
		return rec{t, a, b, op, res}
	}
	if readers {
		for _, n := range []string{"a", "b", "c"} {
			h = append(h, do(0, "H", n, "Put", "k", "v"+n))
		}
	}
	g.armed = true
	var flushRec rec
	flushDone := make(chan struct{})
	go func() { flushRec = do(1, "PFlush", "f1"); close(flushDone) }()
	<-g.entered
	g.mu.Lock()
	first, second := g.order[0], g.order[1]
	g.armed = false
	g.mu.Unlock()
	third := ""
	for _, n := range []string{"a", "b", "c"} {
		if n != first && n != second {
			third = n
		}
	}
	if readers {
		var reads []rec
		readsDone := make(chan struct{})
		go func() {
			reads = append(reads, do(0, "UGet", first, "k"))
			reads = append(reads, do(0, "UGet", third, "k"))
			close(readsDone)
		}()
		select {
		case <-readsDone:
		case <-time.After(300 * time.Millisecond):
		}
		close(g.gate)
		<-flushDone
		<-readsDone
		h = append(h, flushRec)
		h = append(h, reads...)
		m := &poolModel{dbs: map[string]*kvState{}, marks: map[string]string{}}
		for _, n := range []string{"a", "b", "c"} {
			m.dbs[n] = newKvState()
		}
		report(h, m, "pool", " cfg=stores:a.b.c")
		return
	}
	h = append(h, do(0, "H", first, "Put", "k", "x1"))
	h = append(h, do(0, "H", third, "Put", "k", "y1"))
	close(g.gate)
	<-flushDone
	h = append(h, flushRec)
	h = append(h, do(0, "UGet", first, "k"))
	h = append(h, do(0, "UGet", third, "k"))
	m := &poolModel{dbs: map[string]*kvState{}, marks: map[string]string{}}
	for _, n := range []string{"a", "b", "c"} {
		m.dbs[n] = newKvState()
	}
	report(h, m, "pool", " cfg=stores:a.b.c")
}
