package main

import (
	"fmt"
	"math/rand"
	"sort"
	"strings"
	"sync"

	"github.com/Fantom-foundation/lachesis-base/kvdb"
	"github.com/Fantom-foundation/lachesis-base/kvdb/flushable"
	"github.com/Fantom-foundation/lachesis-base/kvdb/memorydb"
)

// ------------------------------------------------------------------ a Snapshot object of a Flushable
// Reads through the snapshot (Get / Has / full iteration) and its Release, from several goroutines, while other
// goroutines keep writing to and flushing the store the snapshot was taken from (which must not show).

type snapComp struct {
	db   *flushable.Flushable
	snap kvdb.Snapshot
	once sync.Once
}

func newSnap() *snapComp {
	parent := memorydb.New()
	parent.Put([]byte("a"), []byte("p1"))
	parent.Put([]byte("c"), []byte("p3"))
	c := &snapComp{db: flushable.Wrap(parent)}
	c.db.Put([]byte("b"), []byte("o2"))
	c.db.Delete([]byte("c"))
	c.snap, _ = c.db.GetSnapshot()
	return c
}

func (c *snapComp) Finish()     {}
func (c *snapComp) Cfg() string { return "snap" }

func (c *snapComp) Gen(r *rand.Rand, t, i int, lin bool) []string {
	k := pick(r, "a", "b", "c", "d")
	n := r.Intn(100)
	switch {
	case n < 30:
		return []string{"SGet", k}
	case n < 45:
		return []string{"SHas", k}
	case n < 60:
		return []string{"SIter"}
	case n < 65:
		return []string{"SRelease"}
	case n < 90:
		return []string{"OPut", k, fmt.Sprintf("%x%02x", t+1, i)}
	default:
		return []string{"OFlush"}
	}
}

func (c *snapComp) Exec(t int, op []string) string {
	switch op[0] {
	case "SGet":
		return bytesOrNil(c.snap.Get([]byte(op[1])))
	case "SHas":
		ok, err := c.snap.Has([]byte(op[1]))
		if err != nil {
			return "err"
		}
		return itoa(b2i(ok))
	case "SIter":
		it := c.snap.NewIterator(nil, nil)
		defer it.Release()
		out := []string{}
		for it.Next() {
			out = append(out, string(it.Key())+"="+string(it.Value()))
		}
		if it.Error() != nil {
			return "err"
		}
		return "[" + strings.Join(out, ";") + "]"
	case "SRelease":
		c.once.Do(c.snap.Release) // a second Release of the parent snapshot is outside the contract
		return "ok"
	case "OPut":
		return errs(c.db.Put([]byte(op[1]), []byte(op[2])))
	case "OFlush":
		return errs(c.db.Flush())
	}
	panic("snap exec: unknown op " + op[0])
}

type snapModel struct {
	content  map[string]string
	released bool
	asked    bool // SRelease was called at least once
}

func (c *snapComp) Model() seqModel {
	return &snapModel{content: map[string]string{"a": "p1", "b": "o2"}}
}
func (m *snapModel) Clone() seqModel { c := *m; return &c }
func (m *snapModel) Key() string     { return fmt.Sprint(m.released) }
func (m *snapModel) Apply(op []string) string {
	switch op[0] {
	case "SGet":
		if m.released {
			return "err"
		}
		if v, ok := m.content[op[1]]; ok {
			return v
		}
		return "nil"
	case "SHas":
		if m.released {
			return "err"
		}
		_, ok := m.content[op[1]]
		return itoa(b2i(ok))
	case "SIter":
		if m.released {
			return "err"
		}
		var ks []string
		for k := range m.content {
			ks = append(ks, k)
		}
		sort.Strings(ks)
		out := []string{}
		for _, k := range ks {
			out = append(out, k+"="+m.content[k])
		}
		return "[" + strings.Join(out, ";") + "]"
	case "SRelease":
		m.released = true
		return "ok"
	case "OPut", "OFlush":
		return "ok"
	}
	panic("snap model: unknown op " + op[0])
}
