// lockscan — the C28 translator (trusted, see DESIGN §3): reads the Go source of the five
// thread-safe components with go/parser + go/ast (standard library only, no type checker) and
// emits the lock-discipline table as Gallina data (coq/gen/LockTable.v).
//
//	lockscan -repo $VERIF_REPO -out coq/gen/LockTable.v [-txt table.txt]
//
// For every function of the scanned packages it walks the body in program order, tracking which
// mutexes are held (Lock/RLock … Unlock/RUnlock, `defer Unlock` = held to the end of the function;
// branches are joined conservatively: a mutex counts as held after an if/for/switch only when it is
// held on every path), inlining calls to other methods of the same object (and to unexported
// methods of other objects of the scanned types), and records every access to a *guarded field*
// together with the lock state at that point.
//
// TRUSTED TABLES (everything else is derived from the source):
//   - `families` below: which struct types form one object with one set of mutexes, which of its
//     fields are never written after construction (`Immutable`, checked: an assignment to one of
//     them in a method is reported as an unlocked write), and which mutex guards which field when a
//     struct has several mutexes.  Every other field — including any field added later — is
//     guarded by the family's default mutex.
//   - `readOnlyMethods`: read-only methods of third-party / standard containers that guarded fields
//     point to (gods red-black tree, container/list); any other method on them counts as a write.
//   - `quiescent`: teardown functions that are documented as not callable concurrently.
//
// For guarded fields pointing to objects of this repository (wlru.Cache.lru -> simplewlru.Cache,
// EventsBuffer.incompletes -> wlru.Cache) "does this method mutate" is computed from the source of
// that type by the same walk.
package main

import (
	"crypto/sha256"
	"flag"
	"fmt"
	"go/ast"
	"go/parser"
	"go/printer"
	"go/token"
	"os"
	"path/filepath"
	"sort"
	"strings"
)

// ---------------------------------------------------------------- configuration (trusted)

type fieldCfg struct {
	Mutex   string // guarding mutex ("" = family default)
	Pointee string // "" : only the field itself is state; "ro:<table>" : pointee with a read-only method table; "fam:<key>" : pointee is an object of that family
	Plain   bool   // calls through the field do not touch this object's state (interface / func value with its own synchronisation): a call is a read of the field
	Nested  bool   // the field may hold an object of the SAME family (a Flushable wrapping a Flushable): a call through it while the lock is held nests a deeper instance of the same lock class
}

type family struct {
	Key          string
	Dir          string
	Types        []string // struct types forming the object, outermost first (embedding hops)
	Report       []string // types whose exported methods are the public operations
	DefaultMutex string
	Guard        map[string]fieldCfg
	Immutable    map[string]bool
	Inner        bool            // not thread-safe by itself: only "does the method mutate" is computed
	Private      map[string]bool // fields of a thread-confined object that are its own (not shared, not checked)
	Confined     bool            // the object itself is used by one goroutine; only what its guarded fields point to is shared
	Follow       map[string]bool // families whose EXPORTED methods are followed when called on a field/local (sub-objects of this one)

	// derived
	mutexes map[string]bool                     // mutex field name -> is RWMutex
	conds   map[string]bool                     // *sync.Cond fields
	fields  map[string]bool                     // all struct fields
	embeds  map[string][]string                 // type -> embedded family types
	methods map[string]map[string]*ast.FuncDecl // type -> name -> decl
	mutates map[string]bool                     // method name -> writes own state (for pointee classification)
}

var families = []*family{
	{Key: "simplewlru", Dir: "utils/simplewlru", Types: []string{"Cache"}, Inner: true,
		Guard: map[string]fieldCfg{"evictList": {Pointee: "ro:list"}, "onEvict": {Plain: true}}},
	{Key: "wlru", Dir: "utils/wlru", Types: []string{"Cache"}, Report: []string{"Cache"}, DefaultMutex: "lock",
		Guard: map[string]fieldCfg{"lru": {Pointee: "fam:simplewlru"}}},
	{Key: "flushable", Dir: "kvdb/flushable",
		Types:        []string{"closeDropWrapped", "LazyFlushable", "Flushable", "Snapshot", "flushableReader"},
		Report:       []string{"Flushable", "flushableReader", "LazyFlushable", "closeDropWrapped", "Snapshot"},
		DefaultMutex: "lock",
		Guard: map[string]fieldCfg{
			"modified":       {Pointee: "ro:rbt"},
			"sizeEstimation": {},
			"underlying":     {Plain: true, Nested: true}, // written by LazyFlushable.initUnderlyingDb; may itself be a Flushable
			"producer":       {Plain: true},
		},
		// onDrop/close/drop: callbacks fixed at construction; parentSnap: fixed at construction
		Immutable: map[string]bool{"onDrop": true, "close": true, "drop": true, "parentSnap": true}},
	// the merged iterator: a thread-confined object that aliases the store's overlay tree (`tree`) and read lock
	// (`lock`); everything else in it is its own cursor state
	{Key: "flushiter", Dir: "kvdb/flushable", Types: []string{"flushableIterator"}, Report: []string{"flushableIterator"},
		DefaultMutex: "lock", Confined: true,
		Guard: map[string]fieldCfg{"tree": {Pointee: "ro:rbt"}},
		Private: map[string]bool{"key": true, "val": true, "prevKey": true, "parentIt": true, "parentOk": true,
			"treeNode": true, "treeOk": true, "start": true, "prefix": true}},
	{Key: "syncedpool", Dir: "kvdb/flushable", Types: []string{"SyncedPool"}, Report: []string{"SyncedPool"},
		DefaultMutex: "Mutex",
		Follow:       map[string]bool{"flushable": true}, // the pooled stores
		Guard: map[string]fieldCfg{
			"wrappers":    {Mutex: "Mutex"},
			"queuedDrops": {Mutex: "queuedDropsMu"},
		},
		Immutable: map[string]bool{"producer": true, "flushIDKey": true}},
	{Key: "datasemaphore", Dir: "utils/datasemaphore", Types: []string{"DataSemaphore"}, Report: []string{"DataSemaphore"},
		DefaultMutex: "mu",
		Guard:        map[string]fieldCfg{},
		Immutable:    map[string]bool{"cond": true, "warning": true}},
	{Key: "eventsbuffer", Dir: "gossip/dagordering", Types: []string{"EventsBuffer"}, Report: []string{"EventsBuffer"},
		DefaultMutex: "mu",
		Guard:        map[string]fieldCfg{"incompletes": {Pointee: "fam:wlru"}},
		Immutable:    map[string]bool{"callback": true, "limit": true}},
}

var readOnlyMethods = map[string]map[string]bool{
	"rbt":  {"Get": true, "Size": true, "Empty": true, "Iterator": true, "Ceiling": true, "Floor": true, "Left": true, "Right": true, "Keys": true, "Values": true, "String": true, "GetNode": true},
	"list": {"Len": true, "Front": true, "Back": true},
}

var quiescent = map[string]string{
	"SyncedPool.Close": "teardown: overwrites the whole pool struct including its mutexes; must not run concurrently with any other call",
}

// ---------------------------------------------------------------- loading

var fset = token.NewFileSet()

type pkg struct {
	dir   string
	files []*ast.File
	funcs []*ast.FuncDecl
	src   []string
}

var pkgs = map[string]*pkg{}

func loadPkg(repo, dir string) *pkg {
	if p, ok := pkgs[dir]; ok {
		return p
	}
	p := &pkg{dir: dir}
	names, err := filepath.Glob(filepath.Join(repo, dir, "*.go"))
	if err != nil || len(names) == 0 {
		fmt.Fprintln(os.Stderr, "lockscan: no go files in", filepath.Join(repo, dir))
		os.Exit(2)
	}
	sort.Strings(names)
	for _, n := range names {
		if strings.HasSuffix(n, "_test.go") {
			continue
		}
		f, err := parser.ParseFile(fset, n, nil, 0)
		if err != nil {
			fmt.Fprintln(os.Stderr, "lockscan:", err)
			os.Exit(2)
		}
		// honour build constraints crudely: skip files guarded by the verif tag (hooks are add-only accessors)
		p.files = append(p.files, f)
		p.src = append(p.src, n)
		for _, d := range f.Decls {
			if fd, ok := d.(*ast.FuncDecl); ok && fd.Body != nil {
				p.funcs = append(p.funcs, fd)
			}
		}
	}
	pkgs[dir] = p
	return p
}

func typeName(e ast.Expr) string {
	switch t := e.(type) {
	case *ast.StarExpr:
		return typeName(t.X)
	case *ast.Ident:
		return t.Name
	case *ast.SelectorExpr:
		if x, ok := t.X.(*ast.Ident); ok {
			return x.Name + "." + t.Sel.Name
		}
	}
	return ""
}

func recvOf(fd *ast.FuncDecl) (name, typ string) {
	if fd.Recv == nil || len(fd.Recv.List) == 0 {
		return "", ""
	}
	r := fd.Recv.List[0]
	if len(r.Names) > 0 {
		name = r.Names[0].Name
	}
	return name, typeName(r.Type)
}

func (f *family) hasType(t string) bool {
	for _, x := range f.Types {
		if x == t {
			return true
		}
	}
	return false
}

func (f *family) reports(t string) bool {
	for _, x := range f.Report {
		if x == t {
			return true
		}
	}
	return false
}

func (f *family) derive(p *pkg) {
	f.mutexes, f.conds, f.fields = map[string]bool{}, map[string]bool{}, map[string]bool{}
	f.embeds, f.methods, f.mutates = map[string][]string{}, map[string]map[string]*ast.FuncDecl{}, map[string]bool{}
	for _, file := range p.files {
		for _, d := range file.Decls {
			gd, ok := d.(*ast.GenDecl)
			if !ok {
				continue
			}
			for _, s := range gd.Specs {
				ts, ok := s.(*ast.TypeSpec)
				if !ok || !f.hasType(ts.Name.Name) {
					continue
				}
				st, ok := ts.Type.(*ast.StructType)
				if !ok {
					continue
				}
				for _, fl := range st.Fields.List {
					tn := typeName(fl.Type)
					names := []string{}
					for _, n := range fl.Names {
						names = append(names, n.Name)
					}
					if len(names) == 0 { // embedded
						short := tn
						if i := strings.LastIndex(short, "."); i >= 0 {
							short = short[i+1:]
						}
						if f.hasType(short) {
							f.embeds[ts.Name.Name] = append(f.embeds[ts.Name.Name], short)
							continue
						}
						names = []string{short}
					}
					for _, n := range names {
						switch tn {
						case "sync.Mutex":
							f.mutexes[n] = false
						case "sync.RWMutex":
							f.mutexes[n] = true
						case "sync.Cond":
							f.conds[n] = true
						default:
							f.fields[n] = true
						}
					}
				}
			}
		}
	}
	for _, fd := range p.funcs {
		_, rt := recvOf(fd)
		if rt != "" && f.hasType(rt) {
			if f.methods[rt] == nil {
				f.methods[rt] = map[string]*ast.FuncDecl{}
			}
			f.methods[rt][fd.Name.Name] = fd
		}
	}
}

// resolve a method name starting at type t (embedding, outermost first)
func (f *family) resolve(t, name string) (*ast.FuncDecl, string) {
	if m, ok := f.methods[t][name]; ok {
		return m, t
	}
	for _, e := range f.embeds[t] {
		if m, et := f.resolve(e, name); m != nil {
			return m, et
		}
	}
	return nil, ""
}

func (f *family) resolveAny(name string) (*ast.FuncDecl, string) {
	for _, t := range f.Types {
		if m, ok := f.methods[t][name]; ok {
			return m, t
		}
	}
	return nil, ""
}

func (f *family) guardOf(field string) (fieldCfg, bool) {
	if f.Immutable[field] || f.Private[field] {
		return fieldCfg{}, false
	}
	if !f.fields[field] {
		return fieldCfg{}, false
	}
	c := f.Guard[field]
	if c.Mutex == "" {
		c.Mutex = f.DefaultMutex
	}
	return c, true
}

func familyByKey(k string) *family {
	for _, f := range families {
		if f.Key == k {
			return f
		}
	}
	return nil
}

// ---------------------------------------------------------------- the walk

type held struct {
	mode int // 1 shared, 2 exclusive
	id   int
}

type lockState map[string]held // key: owner + "\x00" + family + "\x00" + mutex ; nil = unreachable

func (s lockState) clone() lockState {
	if s == nil {
		return nil
	}
	c := lockState{}
	for k, v := range s {
		c[k] = v
	}
	return c
}

func meet(a, b lockState) lockState {
	if a == nil {
		return b.clone()
	}
	if b == nil {
		return a.clone()
	}
	c := lockState{}
	for k, v := range a {
		if w, ok := b[k]; ok {
			if w.mode < v.mode {
				v.mode = w.mode
			}
			c[k] = v
		}
	}
	return c
}

type rowKey struct {
	owner string // "self" | "other"
	fam   string
	mutex string
}

type rowAcc struct {
	mode                                         int
	reads, writes, unlockedR, unlockedW, sharedW int
	sections                                     map[int]bool
	reacquire, condwait                          bool
	detail                                       []string
}

type scan struct {
	p      *pkg
	top    *ast.FuncDecl
	topFam *family // family of the receiver of the top function (nil for foreign functions)
	rows   map[rowKey]*rowAcc
	nextID int
	stack  []*ast.FuncDecl
	fresh  map[string]bool

	loopSections []loopSec
	curFam       *family // family of the frame being walked (exported foreign calls are followed only from the top family's own code)
}

// frame: the function currently being walked (top or inlined)
type frame struct {
	recv      string  // receiver identifier
	fam       *family // family of the receiver (nil if none)
	typ       string  // static receiver type
	owner     string  // owner path of the receiver: "self" for the top function's receiver
	deferred  []string
	loopDepth int
}

func (sc *scan) row(k rowKey) *rowAcc {
	r := sc.rows[k]
	if r == nil {
		r = &rowAcc{sections: map[int]bool{}}
		sc.rows[k] = r
	}
	return r
}

func ownerClass(owner string) string {
	if owner == "self" {
		return "self"
	}
	return "other"
}

func lkey(owner string, f *family, m string) string { return owner + "\x00" + f.Key + "\x00" + m }

func pos(n ast.Node) string {
	p := fset.Position(n.Pos())
	return fmt.Sprintf("%s:%d", filepath.Base(p.Filename), p.Line)
}

func (sc *scan) access(st lockState, owner string, f *family, field string, cfg fieldCfg, write bool, at ast.Node) {
	if f.Inner {
		if write {
			sc.row(rowKey{ownerClass(owner), f.Key, ""}).writes++
		} else {
			sc.row(rowKey{ownerClass(owner), f.Key, ""}).reads++
		}
		return
	}
	r := sc.row(rowKey{ownerClass(owner), f.Key, cfg.Mutex})
	h, ok := st[lkey(owner, f, cfg.Mutex)]
	if write {
		r.writes++
	} else {
		r.reads++
	}
	switch {
	case !ok || st == nil:
		if write {
			r.unlockedW++
		} else {
			r.unlockedR++
		}
		r.detail = append(r.detail, fmt.Sprintf("unlocked %s of %s.%s at %s", rw(write), owner, field, pos(at)))
	case write && h.mode == 1:
		r.sharedW++
		r.sections[h.id] = true
		r.detail = append(r.detail, fmt.Sprintf("write of %s.%s under shared lock at %s", owner, field, pos(at)))
	default:
		r.sections[h.id] = true
	}
}

func rw(w bool) string {
	if w {
		return "write"
	}
	return "read"
}

func (sc *scan) lockOp(st lockState, fr *frame, owner string, f *family, m, op string, deferred bool, at ast.Node) {
	if st == nil {
		return
	}
	k := lkey(owner, f, m)
	r := sc.row(rowKey{ownerClass(owner), f.Key, m})
	switch op {
	case "Lock", "RLock":
		mode := 2
		if op == "RLock" {
			mode = 1
		}
		if _, ok := st[k]; ok {
			r.reacquire = true
			r.detail = append(r.detail, fmt.Sprintf("%s.%s.%s while already held at %s", owner, m, op, pos(at)))
		}
		for hk := range st { // lock order: every mutex already held -> the one being acquired
			parts := strings.Split(hk, "\x00")
			if len(parts) == 3 {
				lockEdges[parts[1]+"."+parts[2]+" "+f.Key+"."+m] = true
				if os.Getenv("LOCKSCAN_DEBUG") != "" {
					fmt.Fprintf(os.Stderr, "edge %s.%s -> %s.%s in %s at %s (held owner %q, new owner %q)\n", parts[1], parts[2], f.Key, m, sc.top.Name.Name, pos(at), parts[0], owner)
				}
			}
		}
		sc.nextID++
		id := sc.nextID
		st[k] = held{mode, id}
		if mode > r.mode {
			r.mode = mode
		}
		if fr.loopDepth > 0 { // a section taken inside a loop is (at least) two sections
			sc.loopSections = append(sc.loopSections, loopSec{rowKey{ownerClass(owner), f.Key, m}, id})
		}
	case "Unlock", "RUnlock":
		if deferred {
			fr.deferred = append(fr.deferred, k)
		} else {
			delete(st, k)
		}
	}
}

var lockEdges = map[string]bool{}

type loopSec struct {
	k  rowKey
	id int
}

// chain flattens a selector chain x.a.b.c into root ident + names; ok=false if the root is not an identifier
func chain(e ast.Expr) (root *ast.Ident, names []*ast.Ident, ok bool) {
	for {
		switch t := e.(type) {
		case *ast.SelectorExpr:
			names = append([]*ast.Ident{t.Sel}, names...)
			e = t.X
		case *ast.ParenExpr:
			e = t.X
		case *ast.Ident:
			return t, names, true
		default:
			return nil, nil, false
		}
	}
}

func exprString(e ast.Expr) string {
	var b strings.Builder
	printer.Fprint(&b, fset, e)
	return b.String()
}

// familiesOfDir: the thread-safe families defined in the package being scanned
func (sc *scan) pkgFamilies() []*family {
	var out []*family
	for _, f := range families {
		if f.Dir == sc.p.dir {
			out = append(out, f)
		}
	}
	return out
}

type resolved struct {
	kind   string // "field" | "mutex" | "method" | "cond" | "none"
	owner  string
	fam    *family
	typ    string
	name   string
	cfg    fieldCfg
	rest   []*ast.Ident // names after the resolved one
	method *ast.FuncDecl
	mtyp   string
}

// resolveChain interprets root.names… in the frame.
func (sc *scan) resolveChain(fr *frame, root *ast.Ident, names []*ast.Ident) resolved {
	if len(names) == 0 {
		return resolved{kind: "none"}
	}
	if fr.fam != nil && root.Name == fr.recv && root.Name != "" {
		f, typ, owner := fr.fam, fr.typ, fr.owner
		for i, n := range names {
			switch {
			case f.hasType(n.Name) && i < len(names)-1 && !f.fields[n.Name]:
				typ = n.Name // embedding hop
				continue
			case isMutex(f, n.Name):
				return resolved{kind: "mutex", owner: owner, fam: f, name: n.Name, rest: names[i+1:]}
			case f.conds[n.Name]:
				return resolved{kind: "cond", owner: owner, fam: f, name: n.Name, rest: names[i+1:]}
			case (n.Name == "Lock" || n.Name == "Unlock" || n.Name == "RLock" || n.Name == "RUnlock") && i == len(names)-1 && embeddedMutex(f) != "":
				return resolved{kind: "mutex", owner: owner, fam: f, name: embeddedMutex(f), rest: names[i:]}
			}
			if cfg, ok := f.guardOf(n.Name); ok {
				return resolved{kind: "field", owner: owner, fam: f, name: n.Name, cfg: cfg, rest: names[i+1:]}
			}
			if f.Immutable[n.Name] {
				if i == len(names)-1 {
					return resolved{kind: "immutable", owner: owner, fam: f, name: n.Name}
				}
				// continue as a foreign path below the immutable field
				return sc.resolveForeign(owner+"."+n.Name, names[i+1:])
			}
			if m, mt := f.resolve(typ, n.Name); m != nil && i == len(names)-1 {
				return resolved{kind: "method", owner: owner, fam: f, name: n.Name, method: m, mtyp: mt}
			}
			return resolved{kind: "none"}
		}
		return resolved{kind: "none"}
	}
	if sc.fresh[root.Name] {
		return resolved{kind: "none"}
	}
	return sc.resolveForeign(root.Name, names)
}

func isMutex(f *family, n string) bool { _, ok := f.mutexes[n]; return ok }

func embeddedMutex(f *family) string {
	for _, n := range []string{"Mutex", "RWMutex"} {
		if isMutex(f, n) {
			return n
		}
	}
	return ""
}

func isExported(n string) bool { return n != "" && n[0] >= 'A' && n[0] <= 'Z' }

func (sc *scan) resolveForeign(prefix string, names []*ast.Ident) resolved {
	for i, n := range names {
		last := i == len(names)-1
		for _, f := range sc.pkgFamilies() {
			if f.Inner {
				continue
			}
			if isMutex(f, n.Name) && !last {
				nx := names[i+1].Name
				if nx == "Lock" || nx == "Unlock" || nx == "RLock" || nx == "RUnlock" {
					return resolved{kind: "mutex", owner: prefix, fam: f, name: n.Name, rest: names[i+1:]}
				}
			}
			if cfg, ok := f.guardOf(n.Name); ok {
				return resolved{kind: "field", owner: prefix, fam: f, name: n.Name, cfg: cfg, rest: names[i+1:]}
			}
			// unexported methods of any scanned type (they expect the caller to hold the lock), and exported
			// methods of a SUB-OBJECT family (`Follow`; self-locking: each call is one critical section of that
			// object, which is what tells whether a function touches several sub-objects atomically)
			if last && (!isExported(n.Name) || (sc.topFam != nil && sc.curFam == sc.topFam && sc.topFam.Follow[f.Key])) {
				if m, mt := f.resolveAny(n.Name); m != nil {
					return resolved{kind: "method", owner: prefix, fam: f, name: n.Name, method: m, mtyp: mt}
				}
			}
		}
		prefix = prefix + "." + n.Name
	}
	return resolved{kind: "none"}
}

func (sc *scan) pointeeMutates(cfg fieldCfg, method string) bool {
	switch {
	case cfg.Plain:
		return false
	case strings.HasPrefix(cfg.Pointee, "ro:"):
		return !readOnlyMethods[cfg.Pointee[3:]][method]
	case strings.HasPrefix(cfg.Pointee, "fam:"):
		f := familyByKey(cfg.Pointee[4:])
		m, known := f.mutates[method]
		return m || !known
	}
	return true // method with pointer receiver on a plain value field: assume it writes
}

// expr walks an expression; write = the expression is assigned to / mutated.
func (sc *scan) expr(st lockState, fr *frame, e ast.Expr, write bool) {
	switch t := e.(type) {
	case nil:
	case *ast.Ident:
	case *ast.BasicLit:
	case *ast.ParenExpr:
		sc.expr(st, fr, t.X, write)
	case *ast.SelectorExpr:
		root, names, ok := chain(t)
		if !ok {
			sc.expr(st, fr, t.X, false)
			return
		}
		r := sc.resolveChain(fr, root, names)
		switch r.kind {
		case "field":
			sc.access(st, r.owner, r.fam, r.name, r.cfg, write, t)
		case "immutable":
			if write {
				row := sc.row(rowKey{ownerClass(r.owner), r.fam.Key, "immutable:" + r.name})
				row.writes++
				row.unlockedW++
				row.detail = append(row.detail, fmt.Sprintf("assignment to immutable field %s at %s", r.name, pos(t)))
			}
		}
	case *ast.StarExpr:
		if id, ok := t.X.(*ast.Ident); ok && write && fr.fam != nil && id.Name == fr.recv && fr.fam.Confined {
			return // resetting a thread-confined object: its own fields only
		}
		if id, ok := t.X.(*ast.Ident); ok && write && fr.fam != nil && id.Name == fr.recv {
			// *recv = T{} : every guarded field (and the mutexes themselves) overwritten
			for m := range fr.fam.mutexes {
				sc.access(st, fr.owner, fr.fam, "*", fieldCfg{Mutex: m}, true, t)
			}
			return
		}
		sc.expr(st, fr, t.X, write)
	case *ast.IndexExpr:
		sc.expr(st, fr, t.X, write)
		sc.expr(st, fr, t.Index, false)
	case *ast.SliceExpr:
		sc.expr(st, fr, t.X, write)
		sc.expr(st, fr, t.Low, false)
		sc.expr(st, fr, t.High, false)
		sc.expr(st, fr, t.Max, false)
	case *ast.UnaryExpr:
		if t.Op == token.AND {
			if root, names, ok := chain(t.X); ok {
				if r := sc.resolveChain(fr, root, names); r.kind == "field" && len(r.rest) == 0 {
					sc.access(st, r.owner, r.fam, r.name, r.cfg, true, t) // address taken: assume written
					return
				}
			}
		}
		sc.expr(st, fr, t.X, false)
	case *ast.BinaryExpr:
		sc.expr(st, fr, t.X, false)
		sc.expr(st, fr, t.Y, false)
	case *ast.KeyValueExpr:
		sc.expr(st, fr, t.Value, false)
	case *ast.CompositeLit:
		for _, el := range t.Elts {
			sc.expr(st, fr, el, false)
		}
	case *ast.TypeAssertExpr:
		sc.expr(st, fr, t.X, false)
	case *ast.FuncLit:
		// runs later (callback): nothing is held then
		sc.block(lockState{}, &frame{recv: fr.recv, fam: fr.fam, typ: fr.typ, owner: fr.owner}, t.Body)
	case *ast.CallExpr:
		sc.call(st, fr, t, false)
	}
}

func (sc *scan) call(st lockState, fr *frame, c *ast.CallExpr, deferred bool) {
	// builtin delete(m, k): write to m
	if id, ok := c.Fun.(*ast.Ident); ok {
		if id.Name == "delete" && len(c.Args) == 2 {
			sc.expr(st, fr, c.Args[0], true)
			sc.expr(st, fr, c.Args[1], false)
			return
		}
		if id.Name == "panic" {
			for _, a := range c.Args {
				sc.expr(st, fr, a, false)
			}
			return
		}
	}
	for _, a := range c.Args {
		sc.expr(st, fr, a, false)
	}
	if fl, ok := c.Fun.(*ast.FuncLit); ok { // immediately invoked / deferred closure: runs with the current locks
		sc.block(st, fr, fl.Body)
		return
	}
	sel, ok := c.Fun.(*ast.SelectorExpr)
	if !ok {
		sc.expr(st, fr, c.Fun, false)
		return
	}
	root, names, ok := chain(sel)
	if !ok {
		sc.expr(st, fr, sel.X, false)
		return
	}
	r := sc.resolveChain(fr, root, names)
	switch r.kind {
	case "mutex":
		if len(r.rest) == 1 {
			sc.lockOp(st, fr, r.owner, r.fam, r.name, r.rest[0].Name, deferred, c)
		}
	case "cond":
		if len(r.rest) == 1 && r.rest[0].Name == "Wait" {
			for k := range sc.rows {
				if k.owner == "self" && k.fam == r.fam.Key {
					sc.rows[k].condwait = true
				}
			}
		}
	case "field":
		if len(r.rest) >= 1 && r.cfg.Nested && st != nil {
			// e.g. flush(): w.underlying.NewBatch() ... Write() with w.lock held; if the parent is a Flushable too,
			// its lock is taken inside: (flushable.lock, flushable.lock@underlying) = same class, one level deeper
			for hk := range st {
				parts := strings.Split(hk, "\x00")
				if len(parts) == 3 && parts[0] == r.owner && parts[1] == r.fam.Key {
					lockEdges[parts[1]+"."+parts[2]+" "+r.fam.Key+"."+r.cfg.Mutex+"@"+r.name] = true
				}
			}
		}
		if len(r.rest) == 1 { // method call on the guarded field
			if strings.HasPrefix(r.cfg.Pointee, "fam:") && st != nil {
				if pf := familyByKey(r.cfg.Pointee[4:]); pf != nil && !pf.Inner { // the pointee locks itself
					for hk := range st {
						parts := strings.Split(hk, "\x00")
						if len(parts) == 3 {
							lockEdges[parts[1]+"."+parts[2]+" "+pf.Key+"."+pf.DefaultMutex] = true
						}
					}
				}
			}
			sc.access(st, r.owner, r.fam, r.name, r.cfg, sc.pointeeMutates(r.cfg, r.rest[0].Name), sel)
		} else {
			sc.access(st, r.owner, r.fam, r.name, r.cfg, false, sel)
		}
	case "method":
		sc.inline(st, fr, r)
	}
}

func (sc *scan) inline(st lockState, fr *frame, r resolved) {
	for _, s := range sc.stack {
		if s == r.method {
			return // recursion: already accounted for
		}
	}
	rn, _ := recvOf(r.method)
	nf := &frame{recv: rn, fam: r.fam, typ: r.mtyp, owner: r.owner, loopDepth: fr.loopDepth}
	sc.stack = append(sc.stack, r.method)
	saved := sc.curFam
	sc.curFam = r.fam
	sc.block(st, nf, r.method.Body)
	sc.curFam = saved
	sc.stack = sc.stack[:len(sc.stack)-1]
	if st != nil {
		for _, k := range nf.deferred {
			delete(st, k)
		}
	}
}

// block walks statements in order, mutating st; returns false if the end is unreachable
func (sc *scan) block(st lockState, fr *frame, b *ast.BlockStmt) {
	if b == nil {
		return
	}
	for _, s := range b.List {
		sc.stmt(st, fr, s)
	}
}

func replace(dst, src lockState) {
	for k := range dst {
		delete(dst, k)
	}
	for k, v := range src {
		dst[k] = v
	}
}

func (sc *scan) stmt(st lockState, fr *frame, s ast.Stmt) {
	switch t := s.(type) {
	case nil:
	case *ast.ExprStmt:
		sc.expr(st, fr, t.X, false)
	case *ast.AssignStmt:
		for _, r := range t.Rhs {
			sc.expr(st, fr, r, false)
		}
		for i, l := range t.Lhs {
			if t.Tok == token.DEFINE {
				if id, ok := l.(*ast.Ident); ok && i < len(t.Rhs) && isFreshExpr(t.Rhs[i]) {
					sc.fresh[id.Name] = true
				}
				continue
			}
			if t.Tok != token.ASSIGN { // op-assign reads too
				sc.expr(st, fr, l, false)
			}
			sc.expr(st, fr, l, true)
		}
	case *ast.IncDecStmt:
		sc.expr(st, fr, t.X, false)
		sc.expr(st, fr, t.X, true)
	case *ast.DeclStmt:
		if gd, ok := t.Decl.(*ast.GenDecl); ok {
			for _, sp := range gd.Specs {
				if vs, ok := sp.(*ast.ValueSpec); ok {
					for _, v := range vs.Values {
						sc.expr(st, fr, v, false)
					}
				}
			}
		}
	case *ast.DeferStmt:
		sc.call(st, fr, t.Call, true)
	case *ast.GoStmt:
		sc.call(lockState{}, fr, t.Call, false)
	case *ast.ReturnStmt:
		for _, r := range t.Results {
			sc.expr(st, fr, r, false)
		}
		// the rest of the enclosing block is reached only by other paths; handled by the branch join
	case *ast.BlockStmt:
		sc.block(st, fr, t)
	case *ast.IfStmt:
		sc.stmt(st, fr, t.Init)
		sc.expr(st, fr, t.Cond, false)
		a := st.clone()
		sc.block(a, fr, t.Body)
		if endsInReturn(t.Body) {
			a = nil
		}
		b := st.clone()
		if t.Else != nil {
			sc.stmt(b, fr, t.Else)
			if eb, ok := t.Else.(*ast.BlockStmt); ok && endsInReturn(eb) {
				b = nil
			}
		}
		replace(st, meet(a, b))
	case *ast.ForStmt:
		sc.stmt(st, fr, t.Init)
		sc.expr(st, fr, t.Cond, false)
		a := st.clone()
		fr.loopDepth++
		sc.block(a, fr, t.Body)
		sc.stmt(a, fr, t.Post)
		sc.expr(a, fr, t.Cond, false)
		fr.loopDepth--
		replace(st, meet(a, st))
	case *ast.RangeStmt:
		sc.expr(st, fr, t.X, false)
		a := st.clone()
		fr.loopDepth++
		sc.block(a, fr, t.Body)
		fr.loopDepth--
		replace(st, meet(a, st))
	case *ast.SwitchStmt:
		sc.stmt(st, fr, t.Init)
		sc.expr(st, fr, t.Tag, false)
		sc.clauses(st, fr, t.Body)
	case *ast.TypeSwitchStmt:
		sc.stmt(st, fr, t.Init)
		sc.stmt(st, fr, t.Assign)
		sc.clauses(st, fr, t.Body)
	case *ast.SelectStmt:
		sc.clauses(st, fr, t.Body)
	case *ast.LabeledStmt:
		sc.stmt(st, fr, t.Stmt)
	case *ast.SendStmt:
		sc.expr(st, fr, t.Chan, false)
		sc.expr(st, fr, t.Value, false)
	}
}

func (sc *scan) clauses(st lockState, fr *frame, b *ast.BlockStmt) {
	out := st.clone()
	for _, c := range b.List {
		a := st.clone()
		switch cc := c.(type) {
		case *ast.CaseClause:
			for _, e := range cc.List {
				sc.expr(a, fr, e, false)
			}
			for _, s := range cc.Body {
				sc.stmt(a, fr, s)
			}
		case *ast.CommClause:
			sc.stmt(a, fr, cc.Comm)
			for _, s := range cc.Body {
				sc.stmt(a, fr, s)
			}
		}
		out = meet(out, a)
	}
	replace(st, out)
}

func endsInReturn(b *ast.BlockStmt) bool {
	if b == nil || len(b.List) == 0 {
		return false
	}
	switch t := b.List[len(b.List)-1].(type) {
	case *ast.ReturnStmt:
		return true
	case *ast.ExprStmt:
		if c, ok := t.X.(*ast.CallExpr); ok {
			if id, ok := c.Fun.(*ast.Ident); ok && id.Name == "panic" {
				return true
			}
		}
	case *ast.BranchStmt:
		return true
	}
	return false
}

func isFreshExpr(e ast.Expr) bool {
	switch t := e.(type) {
	case *ast.UnaryExpr:
		if t.Op == token.AND {
			_, ok := t.X.(*ast.CompositeLit)
			return ok
		}
	case *ast.CompositeLit:
		return true
	case *ast.CallExpr:
		if id, ok := t.Fun.(*ast.Ident); ok && id.Name == "new" {
			return true
		}
	}
	return false
}

// ---------------------------------------------------------------- rows

type outRow struct {
	typ, method                                            string
	exported                                               bool
	owner                                                  string
	mutex                                                  string
	mode                                                   int
	reads, writes, unlockedR, unlockedW, sharedW, sections int
	reacquire, condwait, quiescent                         bool
	detail                                                 []string
}

func (sc *scan) loopFix() {
	for _, ls := range sc.loopSections {
		if r := sc.rows[ls.k]; r != nil && r.sections[ls.id] {
			r.sections[-ls.id] = true
		}
	}
}

func scanFunc(p *pkg, fd *ast.FuncDecl) *scan {
	sc := &scan{p: p, top: fd, rows: map[rowKey]*rowAcc{}, fresh: map[string]bool{}}
	rn, rt := recvOf(fd)
	fr := &frame{recv: rn, typ: rt, owner: "self"}
	for _, f := range families {
		if f.Dir == p.dir && rt != "" && f.hasType(rt) {
			fr.fam = f
			sc.topFam = f
		}
	}
	sc.stack = []*ast.FuncDecl{fd}
	sc.curFam = sc.topFam
	sc.block(lockState{}, fr, fd.Body)
	sc.loopFix()
	return sc
}

func main() {
	repo := flag.String("repo", os.Getenv("VERIF_REPO"), "repository root")
	out := flag.String("out", "", "Coq output file")
	txt := flag.String("txt", "", "human readable output file")
	flag.Parse()
	if *repo == "" {
		*repo = "/repo"
	}
	var rows []outRow
	h := sha256.New()
	hashed := map[string]bool{}
	for _, f := range families {
		p := loadPkg(*repo, f.Dir)
		f.derive(p)
		for _, s := range p.src {
			if !hashed[s] {
				hashed[s] = true
				b, _ := os.ReadFile(s)
				h.Write(b)
			}
		}
	}
	// inner classification first (families are listed in dependency order)
	donePkg := map[string]bool{}
	for _, f := range families {
		p := pkgs[f.Dir]
		// mutates table of this family
		for _, t := range f.Types {
			for name, fd := range f.methods[t] {
				sc := scanFunc(p, fd)
				w := 0
				for k, r := range sc.rows {
					if k.owner == "self" && k.fam == f.Key {
						w += r.writes
					}
				}
				if _, dup := f.mutates[name]; !dup || w > 0 {
					f.mutates[name] = w > 0
				}
			}
		}
		if f.Inner || donePkg[f.Dir] {
			continue
		}
		// rows: wait until all families of this package have their mutates tables
		last := true
		for _, g := range families {
			if g.Dir == f.Dir && g != f && indexOf(g) > indexOf(f) {
				last = false
			}
		}
		if !last {
			continue
		}
		donePkg[f.Dir] = true
		for _, fd := range p.funcs {
			sc := scanFunc(p, fd)
			_, rt := recvOf(fd)
			tname := rt
			if tname == "" {
				tname = "-"
			}
			reported := sc.topFam != nil && sc.topFam.reports(rt) && isExported(fd.Name.Name)
			if sc.topFam != nil && !reported {
				// unexported helpers (and methods of unreported family types) are accounted for at
				// their call sites: they are inlined into every function that calls them
				continue
			}
			q := quiescent[tname+"."+fd.Name.Name] != ""
			keys := make([]rowKey, 0, len(sc.rows))
			for k := range sc.rows {
				keys = append(keys, k)
			}
			sort.Slice(keys, func(i, j int) bool {
				a, b := keys[i], keys[j]
				if a.owner != b.owner {
					return a.owner > b.owner
				}
				if a.fam != b.fam {
					return a.fam < b.fam
				}
				return a.mutex < b.mutex
			})
			n := 0
			for _, k := range keys {
				r := sc.rows[k]
				if familyByKey(k.fam).Inner {
					continue
				}
				if r.reads+r.writes == 0 && !(reported && k.owner == "self") {
					continue
				}
				owner := k.owner
				if owner != "self" {
					owner = "other:" + k.fam
				}
				if k.owner == "self" && len(r.sections) > 1 {
					r.detail = append(r.detail, fmt.Sprintf("%d separate critical sections of %s touch the guarded fields (not atomic)", len(r.sections), k.mutex))
				}
				rows = append(rows, outRow{tname, fd.Name.Name, reported, owner, k.mutex, r.mode, r.reads, r.writes,
					r.unlockedR, r.unlockedW, r.sharedW, len(r.sections), r.reacquire, r.condwait, q, r.detail})
				n++
			}
			if n == 0 && reported {
				rows = append(rows, outRow{typ: tname, method: fd.Name.Name, exported: true, owner: "self", quiescent: q})
			}
		}
	}
	sort.SliceStable(rows, func(i, j int) bool {
		if rows[i].typ != rows[j].typ {
			return rows[i].typ < rows[j].typ
		}
		return rows[i].method < rows[j].method
	})

	var b strings.Builder
	fmt.Fprintf(&b, "(* GENERATED by harness/cmd/lockscan from the Go source — do not edit, not under version control.\n")
	fmt.Fprintf(&b, "   source sha256 (scanned files): %x *)\n", h.Sum(nil))
	b.WriteString("From Coq Require Import String List NArith.\nFrom LV Require Import model.LockDiscipline.\nImport ListNotations.\nLocal Open Scope string_scope.\nLocal Open Scope N_scope.\n\n")
	b.WriteString("Definition lock_table : list lock_row := [\n")
	modes := []string{"LNone", "LShared", "LExcl"}
	for i, r := range rows {
		sep := ";"
		if i == len(rows)-1 {
			sep = ""
		}
		fmt.Fprintf(&b, "  mk_row %q %q %v %q %q %s %d %d %d %d %d %d %v %v %v%s\n", r.typ, r.method, r.exported, r.owner, r.mutex,
			modes[r.mode], r.reads, r.writes, r.unlockedR, r.unlockedW, r.sharedW, r.sections, r.reacquire, r.condwait, r.quiescent, sep)
	}
	b.WriteString("].\n\n")
	cbRows := scanCallbacks(strings.TrimRight(*repo, "/"))
	b.WriteString("(* places where one of the objects is constructed with callbacks: site, object, callbacks that are function\n   literals, calls from such a literal on the object being constructed (re-entrant), callbacks from elsewhere *)\n")
	b.WriteString("(* lock order: (held, acquired) pairs of mutex classes seen in some function *)\n")
	var edges []string
	for e := range lockEdges {
		edges = append(edges, e)
	}
	sort.Strings(edges)
	b.WriteString("Definition lock_order : list (string * string) := [\n")
	for i, e := range edges {
		p := strings.SplitN(e, " ", 2)
		sep := ";"
		if i == len(edges)-1 {
			sep = ""
		}
		fmt.Fprintf(&b, "  (%q, %q)%s\n", p[0], p[1], sep)
	}
	b.WriteString("].\n\n")
	b.WriteString("Definition callback_table : list cb_row := [\n")
	for i, r := range cbRows {
		sep := ";"
		if i == len(cbRows)-1 {
			sep = ""
		}
		fmt.Fprintf(&b, "  mk_cb %q %q %d %d %d%s\n", r.site, r.object, r.literals, r.reentrant, r.external, sep)
	}
	b.WriteString("].\n")
	if *out != "" {
		os.MkdirAll(filepath.Dir(*out), 0o755)
		if err := os.WriteFile(*out, []byte(b.String()), 0o644); err != nil {
			fmt.Fprintln(os.Stderr, err)
			os.Exit(2)
		}
	} else {
		fmt.Print(b.String())
	}
	var tb strings.Builder
	fmt.Fprintf(&tb, "%-18s %-20s exp %-22s %-16s %-7s  r  w ur uw sw sec reacq cond quiesc\n", "type", "method", "owner", "mutex", "mode")
	for _, r := range rows {
		fmt.Fprintf(&tb, "%-18s %-20s %-3v %-22s %-16s %-7s %2d %2d %2d %2d %2d %3d %-5v %-4v %v\n", r.typ, r.method, b2i(r.exported), r.owner, r.mutex,
			modes[r.mode], r.reads, r.writes, r.unlockedR, r.unlockedW, r.sharedW, r.sections, r.reacquire, r.condwait, r.quiescent)
		for _, d := range r.detail {
			fmt.Fprintf(&tb, "      ! %s\n", d)
		}
	}
	fmt.Fprintf(&tb, "\ncallbacks: site object literals reentrant external\n")
	for _, r := range cbRows {
		fmt.Fprintf(&tb, "%-50s %-14s %d %d %d\n", r.site, r.object, r.literals, r.reentrant, r.external)
		for _, d := range r.detail {
			fmt.Fprintf(&tb, "      . %s\n", d)
		}
	}
	if *txt != "" {
		os.WriteFile(*txt, []byte(tb.String()), 0o644)
	} else if *out != "" {
		fmt.Print(tb.String())
	}
}

// ---------------------------------------------------------------- callbacks given to the objects (re-entrancy)

// The five objects call application callbacks while holding their mutex (EventsBuffer: Process/Released/Get/
// Exists/Check; wlru: onEvicted; DataSemaphore: warning; Flushable: onDrop).  sync mutexes are not re-entrant, and
// the linearizability instances treat a callback as part of the operation's effect: a callback must not call an
// operation of the object it was given to.  What can be checked of that in this repository: every place where one
// of the objects is constructed with callbacks is listed; callbacks that are function literals (directly, or a
// variable/field assigned a literal in the same function) are searched for calls on the expression the new object
// is stored in (`f.buffer = dagordering.New(...)` -> any `f.buffer.X(...)` inside the literal is re-entrant);
// callbacks that come from elsewhere are counted as external (covered by the hypothesis only).
type cbRow struct {
	site, object                  string
	literals, reentrant, external int
	detail                        []string
}

type ctorSpec struct {
	pkgSuffix, fn, object string
	cbArgs                []int // argument positions holding callbacks (a composite literal = its field values)
}

var ctors = []ctorSpec{
	{"gossip/dagordering", "New", "EventsBuffer", []int{1}},
	{"utils/wlru", "NewWithEvict", "Cache", []int{2}},
	{"utils/datasemaphore", "New", "DataSemaphore", []int{1}},
	{"kvdb/flushable", "NewLazy", "LazyFlushable", []int{0, 1}},
	{"kvdb/flushable", "WrapWithDrop", "Flushable", []int{1}},
}

func scanCallbacks(repo string) []cbRow {
	var rows []cbRow
	filepath.WalkDir(repo, func(path string, d os.DirEntry, err error) error {
		if err != nil {
			return nil
		}
		if d.IsDir() {
			n := d.Name()
			if n == ".git" || n == "vendor" || n == "testdata" {
				return filepath.SkipDir
			}
			return nil
		}
		if !strings.HasSuffix(path, ".go") || strings.HasSuffix(path, "_test.go") {
			return nil
		}
		f, perr := parser.ParseFile(fset, path, nil, 0)
		if perr != nil {
			return nil
		}
		imports := map[string]string{} // local name -> import path
		for _, im := range f.Imports {
			ip := strings.Trim(im.Path.Value, "\"")
			name := ip[strings.LastIndex(ip, "/")+1:]
			if im.Name != nil {
				name = im.Name.Name
			}
			imports[name] = ip
		}
		pkgDir, _ := filepath.Rel(repo, filepath.Dir(path))
		for _, decl := range f.Decls {
			fd, ok := decl.(*ast.FuncDecl)
			if !ok || fd.Body == nil {
				continue
			}
			// literals assigned to variables/fields in this function: printed lhs -> literal
			assigned := map[string]*ast.FuncLit{}
			ast.Inspect(fd.Body, func(n ast.Node) bool {
				if as, ok := n.(*ast.AssignStmt); ok {
					for i, r := range as.Rhs {
						if fl, ok := r.(*ast.FuncLit); ok && i < len(as.Lhs) {
							assigned[exprString(as.Lhs[i])] = fl
						}
					}
				}
				return true
			})
			ast.Inspect(fd.Body, func(n ast.Node) bool {
				as, ok := n.(*ast.AssignStmt)
				var call *ast.CallExpr
				target := ""
				if ok && len(as.Rhs) == 1 {
					call, _ = as.Rhs[0].(*ast.CallExpr)
					target = exprString(as.Lhs[0])
				} else if rs, ok2 := n.(*ast.ReturnStmt); ok2 && len(rs.Results) > 0 {
					call, _ = rs.Results[0].(*ast.CallExpr)
				} else if kv, ok3 := n.(*ast.KeyValueExpr); ok3 {
					call, _ = kv.Value.(*ast.CallExpr)
				}
				if call == nil {
					return true
				}
				var spec *ctorSpec
				switch fn := call.Fun.(type) {
				case *ast.SelectorExpr:
					if x, ok := fn.X.(*ast.Ident); ok {
						for i := range ctors {
							if fn.Sel.Name == ctors[i].fn && strings.HasSuffix(imports[x.Name], ctors[i].pkgSuffix) {
								spec = &ctors[i]
							}
						}
					}
				case *ast.Ident: // inside the defining package
					for i := range ctors {
						if fn.Name == ctors[i].fn && pkgDir == ctors[i].pkgSuffix {
							spec = &ctors[i]
						}
					}
				}
				if spec == nil {
					return true
				}
				row := cbRow{site: fmt.Sprintf("%s:%d", filepath.ToSlash(strings.TrimPrefix(path, repo+"/")), fset.Position(call.Pos()).Line), object: spec.object}
				var cbs []ast.Expr
				for _, ai := range spec.cbArgs {
					if ai >= len(call.Args) {
						continue
					}
					if cl, ok := call.Args[ai].(*ast.CompositeLit); ok {
						for _, el := range cl.Elts {
							if kv, ok := el.(*ast.KeyValueExpr); ok {
								cbs = append(cbs, kv.Value)
							} else {
								cbs = append(cbs, el)
							}
						}
					} else {
						cbs = append(cbs, call.Args[ai])
					}
				}
				for _, cbe := range cbs {
					if id, ok := cbe.(*ast.Ident); ok && id.Name == "nil" {
						continue
					}
					fl, ok := cbe.(*ast.FuncLit)
					if !ok {
						fl = assigned[exprString(cbe)]
					}
					if fl == nil {
						row.external++
						row.detail = append(row.detail, "external callback "+exprString(cbe))
						continue
					}
					row.literals++
					if target == "" {
						continue
					}
					ast.Inspect(fl.Body, func(m ast.Node) bool {
						if c2, ok := m.(*ast.CallExpr); ok {
							if se, ok := c2.Fun.(*ast.SelectorExpr); ok && exprString(se.X) == target {
								row.reentrant++
								row.detail = append(row.detail, fmt.Sprintf("callback calls %s.%s at %s", target, se.Sel.Name, pos(c2)))
							}
						}
						return true
					})
				}
				rows = append(rows, row)
				return true
			})
		}
		return nil
	})
	sort.Slice(rows, func(i, j int) bool { return rows[i].site < rows[j].site })
	return rows
}

func b2i(b bool) int {
	if b {
		return 1
	}
	return 0
}

func indexOf(f *family) int {
	for i, g := range families {
		if g == f {
			return i
		}
	}
	return -1
}
