package main

import (
	"math"
	"math/big"
	"math/rand"
	"strconv"
	"strings"
	"time"

	"github.com/Fantom-foundation/lachesis-base/emitter/doublesign"

	"verifharness/vu"
)

// C21: double-sign guard.  `Now` is a field of SyncStatus, so every time value is an input.
//
//   S  <peers> <th> <now> <startup> <connected> <synced> <became> <created> <detected>
//   P  (same fields)            -> DetectParallelInstance
//        each time = two tokens  <sec> <nsec> : int64 seconds since year 1 (time.Time's internal
//        wall representation) and nanoseconds; built with time.Unix (no monotonic reading).
//   SX / PX  like SM / PM but each time is m<off> (monotonic), w<off> (the same instant, wall-only) or
//        z (time.Time{}); Now is always m<off>: the production mixture.
//   SM / PM  (same fields) but each time = one token: an int64 nanosecond offset from a base
//        time.Now(); the values are base.Add(off) and carry monotonic clock readings (the production
//        path: Sub/Before then use the monotonic readings).
// Observation:  S/SM: <wait ns> <error code>   P/PM: <0|1>
//   error codes: 0 nil 1 NoConnections 2 P2PSyncOngoing 3 SelfEventsOngoing 4 JustBecameValidator
//                5 JustConnected 6 JustP2PSynced 7 other

const c21UnixToInternal = 62135596800

func c21Time(sec, nsec int64) time.Time {
	if sec == 0 && nsec == 0 {
		return time.Time{}
	}
	return time.Unix(sec-c21UnixToInternal, nsec) // int64 wrap-around intended: every internal sec is reachable
}

func c21ErrCode(err error) string {
	switch err {
	case nil:
		return "0"
	case doublesign.ErrNoConnections:
		return "1"
	case doublesign.ErrP2PSyncOngoing:
		return "2"
	case doublesign.ErrSelfEventsOngoing:
		return "3"
	case doublesign.ErrJustBecameValidator:
		return "4"
	case doublesign.ErrJustConnected:
		return "5"
	case doublesign.ErrJustP2PSynced:
		return "6"
	}
	return "7"
}

func c21Run(in []string) []string {
	pi := func(s string) int64 {
		v, err := strconv.ParseInt(s, 10, 64)
		if err != nil {
			panic("c21: bad int " + s)
		}
		return v
	}
	op := in[0]
	peers := pi(in[1])
	th := time.Duration(pi(in[2]))
	var ts [7]time.Time
	mono := op == "SM" || op == "PM"
	mixed := op == "SX" || op == "PX"
	if mono {
		base := time.Now()
		for i := 0; i < 7; i++ {
			ts[i] = base.Add(time.Duration(pi(in[3+i])))
		}
	} else if mixed {
		// production shape: Now carries a monotonic reading, stamps may be wall-only (e.g. restored
		// from disk) or never set (time.Time{})
		base := time.Now()
		for i := 0; i < 7; i++ {
			tok := in[3+i]
			switch tok[0] {
			case 'z':
				ts[i] = time.Time{}
				vu.Stat("mixed.zero")
			case 'w':
				ts[i] = base.Add(time.Duration(pi(tok[1:]))).Round(0) // Round(0) strips the monotonic reading
				vu.Stat("mixed.wall")
			default:
				ts[i] = base.Add(time.Duration(pi(tok[1:])))
				vu.Stat("mixed.mono")
			}
		}
	} else {
		for i := 0; i < 7; i++ {
			ts[i] = c21Time(pi(in[3+2*i]), pi(in[4+2*i]))
		}
	}
	mk := func(ts [7]time.Time) doublesign.SyncStatus {
		return doublesign.SyncStatus{
			PeersNum:                  int(peers),
			Now:                       ts[0],
			Startup:                   ts[1],
			LastConnected:             ts[2],
			P2PSynced:                 ts[3],
			BecameValidator:           ts[4],
			ExternalSelfEventCreated:  ts[5],
			ExternalSelfEventDetected: ts[6],
		}
	}
	isS := op == "S" || op == "SM" || op == "SX"
	run := func(ts [7]time.Time) []string {
		if isS {
			w, err := doublesign.SyncedToEmit(mk(ts), th)
			return []string{strconv.FormatInt(int64(w), 10), c21ErrCode(err)}
		}
		return []string{vu.B(doublesign.DetectParallelInstance(mk(ts), th))}
	}
	c21SweepStats(op, peers, int64(th), ts)
	out := run(ts)
	// REPRESENTATION independence (metamorphic): the same seven instants in other representations of
	// time.Time (UTC = nil Location, Local, a fixed zone; these also strip a monotonic reading) must give
	// the same answer; the model sees instants only.  Any difference is appended to the observation.
	zone := time.FixedZone("verif+5", 5*3600)
	for v := 1; v <= 3; v++ {
		var alt [7]time.Time
		for i := range ts {
			switch (i + v) % 4 {
			case 0:
				alt[i] = ts[i]
			case 1:
				alt[i] = ts[i].UTC()
			case 2:
				alt[i] = ts[i].Local()
			default:
				alt[i] = ts[i].In(zone)
			}
			if alt[i].IsZero() && alt[i] != (time.Time{}) {
				vu.Stat("rep.zero_instant_with_location")
			}
		}
		vu.Stat("rep.variant_runs")
		if got := run(alt); strings.Join(got, ",") != strings.Join(out, ",") {
			out = append(out, "representation-dependent:variant"+vu.Itoa(v)+"="+strings.Join(got, ","))
			vu.Stat("rep.DIFFERENT")
			break
		}
	}
	if isS {
		vu.Stat(op + ".err=" + out[1])
		if out[0] == strconv.FormatInt(math.MaxInt64, 10) {
			vu.Stat(op + ".wait=max")
		}
	} else {
		vu.Stat(op + "=" + out[0])
	}
	return out
}

// c21SweepStats records which configuration classes a case reaches (evidence: input_distribution).
func c21SweepStats(op string, peers, th int64, ts [7]time.Time) {
	switch {
	case peers == 0:
		vu.Stat("sweep.peers=0")
	case peers == 1:
		vu.Stat("sweep.peers=1")
	case peers == math.MaxInt64:
		vu.Stat("sweep.peers=maxint")
	case peers < 0:
		vu.Stat("sweep.peers<0")
	}
	switch {
	case th == 0:
		vu.Stat("sweep.th=0")
	case th == 1:
		vu.Stat("sweep.th=1ns")
	case th == math.MaxInt64:
		vu.Stat("sweep.th=maxint64")
	case th == math.MinInt64:
		vu.Stat("sweep.th=minint64")
	case th < 0:
		vu.Stat("sweep.th<0")
	}
	names := []string{"now", "startup", "connected", "synced", "became", "created", "detected"}
	now := ts[0]
	hasMono := func(t time.Time) bool { return strings.Contains(t.String(), " m=") }
	for i := 1; i < 7; i++ {
		switch {
		case ts[i].IsZero():
			vu.Stat("sweep." + names[i] + "=zero")
		case ts[i].Equal(now):
			vu.Stat("sweep." + names[i] + "=now")
		}
		if hasMono(now) {
			if hasMono(ts[i]) {
				vu.Stat("sweep.mono_now_vs_mono_" + names[i])
			} else if !ts[i].IsZero() {
				vu.Stat("sweep.mono_now_vs_wall_" + names[i])
			}
		}
	}
	if now.IsZero() {
		vu.Stat("sweep.now=zero")
	}
	if ts[1].After(now) {
		vu.Stat("sweep.startup_after_now")
	}
	// the two seeded-mutation shapes
	if ts[6].IsZero() && !ts[5].IsZero() && now.Sub(ts[5]) < time.Duration(th) && op[0] == 'S' {
		vu.Stat("sweep.detected_zero_created_recent")
	}
	if ts[5].Before(ts[1]) && now.Sub(ts[5]) < time.Duration(th) && op[0] == 'S' {
		vu.Stat("sweep.created_before_startup_and_recent")
	}
}

var c21Big1e9 = big.NewInt(1e9)

// c21Split turns an exact nanosecond count since year 1 into (sec, nsec); ok=false if sec is not an int64.
func c21Split(ns *big.Int) (sec, nsec int64, ok bool) {
	q, m := new(big.Int).DivMod(ns, c21Big1e9, new(big.Int))
	if !q.IsInt64() {
		return 0, 0, false
	}
	return q.Int64(), m.Int64(), true
}

func c21NS(sec, nsec int64) *big.Int {
	v := new(big.Int).Mul(big.NewInt(sec), c21Big1e9)
	return v.Add(v, big.NewInt(nsec))
}

var c21Thresholds = []int64{-1e9, 0, 1, 1e9, 30 * 60 * 1e9, 1 << 62, math.MaxInt64, math.MaxInt64 - 1,
	math.MinInt64, math.MinInt64 + 1, -(1 << 62), -1, 2}

func c21Threshold(r *rand.Rand) int64 {
	switch r.Intn(6) {
	case 0:
		return r.Int63() - r.Int63()
	case 1:
		return int64(r.Intn(4000)) * 1e9
	}
	return c21Thresholds[r.Intn(len(c21Thresholds))]
}

// anchors for `now` (internal seconds since year 1)
var c21Nows = [][2]int64{
	{c21UnixToInternal + 1790000000, 123456789}, // 2026
	{c21UnixToInternal, 0},                      // 1970
	{0, 0},                                      // zero time
	{0, 1},
	{c21UnixToInternal - 9214646400, 0}, // 1678
	{c21UnixToInternal + 9214646400, 999999999}, // 2262
	{math.MaxInt64, 999999999},
	{math.MinInt64, 0},
	{math.MinInt64 + c21UnixToInternal - 1, 0}, // time.Unix(1<<63-1, 0): "year 292277026596"
	{c21UnixToInternal + (1 << 40), 0},         // time.Unix(1<<40, 0)
	{9223372036, 854775807},
	{-9223372037, 145224192},
}

// offsets (now - t, exact ns) aimed at the comparisons and at the saturation / wrap points
func c21Offset(r *rand.Rand, th int64) *big.Int {
	return c21OffsetK(r, th, r.Intn(c21NClass), int64(r.Intn(5))-2)
}

const c21NClass = 14

func c21OffsetK(r *rand.Rand, th int64, class int, sm int64) *big.Int {
	b := func(v int64) *big.Int { return big.NewInt(v) }
	two63 := new(big.Int).Lsh(big.NewInt(1), 63)
	small := b(sm)
	var o *big.Int
	switch class {
	case 0:
		o = b(0)
	case 1: // around the threshold
		o = b(th)
	case 2: // far in the past
		o = new(big.Int).Set(two63)
	case 3: // far in the future: Since saturates at MinInt64
		o = new(big.Int).Neg(two63)
	case 4: // threshold - since just wraps: since = th - 2^63
		o = new(big.Int).Sub(b(th), two63)
	case 5:
		o = new(big.Int).Sub(b(th), new(big.Int).Sub(two63, b(1)))
	case 6: // well beyond saturation
		o = new(big.Int).Mul(two63, b(int64(r.Intn(7))-3))
		o.Add(o, b(r.Int63n(2e9)-1e9))
	case 7:
		o = b(r.Int63() - r.Int63())
	case 8: // a few minutes around now
		o = b(r.Int63n(7200e9) - 3600e9)
	case 9:
		o = b(th / 2)
	case 10: // since = MinInt64 + k
		o = new(big.Int).Add(new(big.Int).Neg(two63), b(int64(r.Intn(3))*1e9))
	case 11: // > 292 years + 1s ahead
		o = new(big.Int).Sub(new(big.Int).Neg(two63), b(1e9+int64(r.Intn(3))-1))
	case 12:
		o = new(big.Int).Neg(b(th))
	default:
		o = new(big.Int).Add(b(th), b((int64(r.Intn(3))-1)*1e9))
	}
	return o.Add(o, small)
}

func c21Stamp(r *rand.Rand, now [2]int64, th int64) [2]int64 {
	if r.Intn(12) == 0 { // absolute anchors (zero time included)
		return c21Nows[r.Intn(len(c21Nows))]
	}
	for tries := 0; tries < 8; tries++ {
		ns := new(big.Int).Sub(c21NS(now[0], now[1]), c21Offset(r, th))
		if sec, nsec, ok := c21Split(ns); ok {
			return [2]int64{sec, nsec}
		}
	}
	return [2]int64{now[0], now[1]}
}

func c21Emit(emit func(...string), op string, peers, th int64, ts [7][2]int64) {
	t := []string{op, strconv.FormatInt(peers, 10), strconv.FormatInt(th, 10)}
	for _, x := range ts {
		t = append(t, strconv.FormatInt(x[0], 10), strconv.FormatInt(x[1], 10))
	}
	emit(t...)
}

func c21Peers(r *rand.Rand) int64 {
	switch r.Intn(8) {
	case 0:
		return 0
	case 1:
		return -1
	case 2:
		return math.MaxInt64
	}
	return int64(1 + r.Intn(50))
}

func c21MonoOff(r *rand.Rand, th int64) int64 {
	switch r.Intn(8) {
	case 0:
		return 0
	case 1:
		return -th / 2
	case 2:
		if th > math.MinInt64 {
			return -th
		}
		return 0
	case 3:
		if th > math.MinInt64+2 {
			return -th + int64(r.Intn(3)) - 1
		}
		return 1
	case 4:
		return r.Int63n(7200e9) - 3600e9
	case 5: // outside the packed wall-second range: monotonic reading dropped by Add
		return (r.Int63n(2)*2 - 1) * (150 * 365 * 86400 * 1e9)
	case 6:
		return (r.Int63() - r.Int63()) / 2
	}
	return int64(r.Intn(5)) - 2
}

func init() {
	vu.Register("C21", &vu.Prop{
		Gen: func(r *rand.Rand, n int, tier string, emit func(...string)) {
			// the design's grid: every anchor for now x every threshold, each stamp in turn moved
			grid := 1
			// configuration sweep (always): every guarded stamp (and Startup) in turn at: the zero time,
			// exactly Now (monotonic and wall-only), 1 ns before / after Now; the others long ago; peers
			// 0/1/MaxInt; thresholds 0, 1 ns, 1 s, MaxInt64; as S and as P; plus the wall-clock twins
			{
				ths := []int64{0, 1, 1e9, math.MaxInt64}
				prs := []int64{0, 1, math.MaxInt64}
				classes := []string{"z", "m0", "w0", "m-1", "w1", "m1000000000"}
				old := "w-" + strconv.FormatInt(1<<62, 10)
				for which := 1; which < 7; which++ {
					for _, cl := range classes {
						for ti, th := range ths {
							pr := prs[(which+ti)%3]
							if ti == 2 {
								pr = 1
							}
							t := []string{"SX", strconv.FormatInt(pr, 10), strconv.FormatInt(th, 10), "m0"}
							for j := 1; j < 7; j++ {
								if j == which {
									t = append(t, cl)
								} else {
									t = append(t, old)
								}
							}
							emit(t...)
							t2 := append([]string{}, t...)
							t2[0] = "PX"
							emit(t2...)
						}
					}
				}
				// all stamps equal to Now / all zero; Now itself the zero time (wall cases)
				for _, th := range ths {
					emit("SX", "1", strconv.FormatInt(th, 10), "m0", "m0", "m0", "m0", "m0", "m0", "m0")
					emit("SX", "1", strconv.FormatInt(th, 10), "m0", "z", "z", "z", "z", "z", "z")
					emit("SX", "1", strconv.FormatInt(th, 10), "m0", "z", "w-5", "w-5", "z", "z", "z")
					var eq, zr [7][2]int64
					for j := range eq {
						eq[j] = c21Nows[0]
					}
					c21Emit(emit, "S", 1, th, eq)
					c21Emit(emit, "P", 1, th, eq)
					c21Emit(emit, "S", 1, th, zr)
					zr[3] = [2]int64{0, 1}
					c21Emit(emit, "S", 1, th, zr)
					c21Emit(emit, "P", 1, th, zr)
				}
				// Startup after Now; created before / at / after Startup, young and old (P and S)
				for _, th := range []int64{1, 1e9, 30 * 60 * 1e9} {
					for _, so := range []string{"m5", "w5", "m-500000000", "m-2000000000000"} {
						for _, co := range []string{"m-400000000", "m-600000000", "w-400000000", "m6", "m-1900000000000", "z"} {
							emit("PX", "1", strconv.FormatInt(th, 10), "m0", so, old, old, old, co, old)
							emit("SX", "1", strconv.FormatInt(th, 10), "m0", so, old, old, old, co, old)
							emit("SX", "1", strconv.FormatInt(th, 10), "m0", so, old, old, old, co, "z")
						}
					}
				}
			}
			type cs struct {
				class int
				sm    int64
			}
			combos := []cs{{-1, 0}}
			if tier == "thorough" { // exhaustive: every offset class x every +-2ns neighbour
				combos = nil
				grid = 1
				for c := 0; c < c21NClass; c++ {
					for sm := int64(-2); sm <= 2; sm++ {
						combos = append(combos, cs{c, sm})
					}
				}
			}
			for g := 0; g < grid; g++ {
				for _, now := range c21Nows {
					for _, th := range c21Thresholds {
						for which := 2; which < 7; which++ {
							for _, cb := range combos {
								var ts [7][2]int64
								ts[0] = now
								for i := 1; i < 7; i++ { // everything else long ago (or as far back as representable)
									old := new(big.Int).Sub(c21NS(now[0], now[1]), new(big.Int).Lsh(big.NewInt(1), 64))
									if sec, nsec, ok := c21Split(old); ok {
										ts[i] = [2]int64{sec, nsec}
									} else {
										ts[i] = [2]int64{math.MinInt64, 1}
									}
								}
								ts[which] = c21Stamp(r, now, th)
								if cb.class >= 0 {
									ns := new(big.Int).Sub(c21NS(now[0], now[1]), c21OffsetK(r, th, cb.class, cb.sm))
									if sec, nsec, ok := c21Split(ns); ok {
										ts[which] = [2]int64{sec, nsec}
									} else {
										continue
									}
								}
								c21Emit(emit, "S", 3, th, ts)
							}
						}
					}
				}
			}
			for i := 0; i < n; i++ {
				th := c21Threshold(r)
				k := r.Intn(10)
				if k < 2 && r.Intn(2) == 0 { // mixed: monotonic Now against wall-only / zero / monotonic stamps
					t := []string{"SX", strconv.FormatInt(c21Peers(r), 10), strconv.FormatInt(th, 10)}
					if k == 1 {
						t[0] = "PX"
					}
					t = append(t, "m"+strconv.FormatInt(c21MonoOff(r, th), 10))
					for j := 1; j < 7; j++ {
						switch r.Intn(6) {
						case 0:
							t = append(t, "z")
						case 1, 2:
							t = append(t, "w"+strconv.FormatInt(c21MonoOff(r, th), 10))
						default:
							t = append(t, "m"+strconv.FormatInt(c21MonoOff(r, th), 10))
						}
					}
					emit(t...)
					continue
				}
				if k < 2 { // monotonic path
					t := []string{"SM", strconv.FormatInt(c21Peers(r), 10), strconv.FormatInt(th, 10)}
					if k == 1 {
						t[0] = "PM"
					}
					for j := 0; j < 7; j++ {
						t = append(t, strconv.FormatInt(c21MonoOff(r, th), 10))
					}
					emit(t...)
					continue
				}
				now := c21Nows[r.Intn(len(c21Nows))]
				if r.Intn(3) == 0 {
					now = [2]int64{r.Int63() - r.Int63(), int64(r.Intn(1e9))}
				}
				var ts [7][2]int64
				ts[0] = now
				for j := 1; j < 7; j++ {
					ts[j] = c21Stamp(r, now, th)
				}
				if r.Intn(3) == 0 { // most stamps safely old, one or two interesting
					for j := 1; j < 7; j++ {
						if r.Intn(3) != 0 {
							old := new(big.Int).Sub(c21NS(now[0], now[1]), new(big.Int).Lsh(big.NewInt(1), 63))
							old.Sub(old, big.NewInt(int64(r.Intn(3))))
							if sec, nsec, ok := c21Split(old); ok {
								ts[j] = [2]int64{sec, nsec}
							}
						}
					}
				}
				if r.Intn(20) == 0 {
					ts[3] = [2]int64{0, 0}
				}
				op := "S"
				if k < 5 {
					op = "P"
					if r.Intn(3) == 0 { // created around startup
						d := int64(r.Intn(3)) - 1
						ts[1] = ts[5]
						if ns := new(big.Int).Add(c21NS(ts[5][0], ts[5][1]), big.NewInt(d)); true {
							if sec, nsec, ok := c21Split(ns); ok {
								ts[1] = [2]int64{sec, nsec}
							}
						}
					}
				}
				c21Emit(emit, op, c21Peers(r), th, ts)
			}
		},
		Run: c21Run,
	})
}
