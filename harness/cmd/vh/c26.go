package main

import (
	"fmt"
	"math/rand"
	"sort"
	"strconv"
	"strings"
	"sync/atomic"

	"github.com/Fantom-foundation/lachesis-base/kvdb"
	"github.com/Fantom-foundation/lachesis-base/kvdb/flaggedproducer"
	"github.com/Fantom-foundation/lachesis-base/kvdb/memorydb"
	"github.com/Fantom-foundation/lachesis-base/kvdb/multidb"
	"github.com/Fantom-foundation/lachesis-base/utils/fmtfilter"

	"verifharness/vu"
)

// C26: multidb routing.  One case = one history over a set of memory databases:
//
//   mdb <avail types, comma separated> <constructions per NEW> [<table-records key, raw>]
//     ; NEW req=type:name:table:nodrop ...   build a producer (N times: Go's map order is re-randomised)
//     ; RT req                               Producer.RouteOf
//     ; O req                                Producer.OpenDB
//     ; X req                                OpenDB, then Close+Drop of the returned store
//     ; W req key val                        OpenDB, then Put through the returned store
//     ; G req key                            OpenDB, then Get through the returned store
//     ; V                                    Producer.Verify (+ RouteOf of every request of the case)
//
// Strings in the input are raw over [A-Za-z0-9/%._-] with "~" = empty.  Strings in the
// observation are hex.  The observation starts with the oracle section: the results of the
// REAL fmtfilter.CompileFilter for every pattern route of the case on every candidate request
// (all '/'-prefixes of all requests, and ""), which the Coq model takes as its pattern oracle.

var c26Counter uint64
var c26RecordsKey = []byte{0x01, 'r', 'e', 'c'}
var c26FlushKey = []byte{0x02, 'f', 'l'}

func c26s(s string) string {
	if s == "~" {
		return ""
	}
	return s
}
func c26t(s string) string {
	if s == "" {
		return "~"
	}
	return s
}
func c26h(s string) string { return vu.Hex([]byte(s)) }

type c26Entry struct {
	req   string
	route multidb.Route
}

func c26ParseEntry(tok string) c26Entry {
	eq := strings.IndexByte(tok, '=')
	req := c26s(tok[:eq])
	f := strings.Split(tok[eq+1:], ":")
	return c26Entry{req: req, route: multidb.Route{
		Type: multidb.TypeName(c26s(f[0])), Name: c26s(f[1]), Table: c26s(f[2]), NoDrop: f[3] == "1"}}
}

func c26SplitOps(in []string) (header []string, ops [][]string) {
	var cur []string
	first := true
	for _, t := range in {
		if t == ";" {
			if first {
				header, first = cur, false
			} else {
				ops = append(ops, cur)
			}
			cur = nil
			continue
		}
		cur = append(cur, t)
	}
	if first {
		header = cur
	} else {
		ops = append(ops, cur)
	}
	return
}

// candidate requests: every request of the case with all its '/'-prefixes, and ""
func c26Candidates(ops [][]string) (reqs []string, cands []string) {
	seenR, seenC := map[string]bool{}, map[string]bool{}
	addC := func(s string) {
		if !seenC[s] {
			seenC[s] = true
			cands = append(cands, s)
		}
	}
	for _, o := range ops {
		if len(o) >= 2 && o[0] != "NEW" {
			r := c26s(o[1])
			if !seenR[r] {
				seenR[r] = true
				reqs = append(reqs, r)
			}
			for q := r; ; {
				addC(q)
				i := strings.LastIndexByte(q, '/')
				if i < 0 {
					break
				}
				q = q[:i]
			}
		}
	}
	addC("")
	sort.Strings(reqs)
	sort.Strings(cands)
	return
}

func c26RouteTok(r multidb.Route) string {
	return c26h(string(r.Type)) + ":" + c26h(r.Name) + ":" + c26h(r.Table) + ":" + vu.B(r.NoDrop)
}

func c26ErrKind(err error) string {
	m := err.Error()
	switch {
	case strings.HasPrefix(m, "missing producer"):
		return "err:missing"
	case strings.Contains(m, "re-assigning table"):
		return "err:reassign"
	case strings.Contains(m, "conflicting tables"):
		return "err:conflict"
	}
	return "err:other"
}

func c26Run(in []string) []string {
	header, ops := c26SplitOps(in)
	if len(header) < 3 || header[0] != "mdb" {
		return []string{"BAD"}
	}
	trials, _ := strconv.Atoi(header[2])
	if trials < 1 {
		trials = 1
	}
	recordsKey := c26RecordsKey
	if len(header) > 3 { // optional: the table-records key as a raw string
		recordsKey = []byte(c26s(header[3]))
	}
	backends := map[multidb.TypeName]kvdb.IterableDBProducer{}
	producers := map[multidb.TypeName]kvdb.FullDBProducer{}
	for _, t := range strings.Split(header[1], ",") {
		if t == "" || t == "~" {
			continue
		}
		// explicit unique namespace: memorydb's own random namespaces collide (31-bit seed)
		b := memorydb.NewProducer(fmt.Sprintf("c26-%d-%s", atomic.AddUint64(&c26Counter, 1), t))
		backends[multidb.TypeName(t)] = b
		producers[multidb.TypeName(t)] = flaggedproducer.Wrap(b, c26FlushKey)
	}
	reqs, cands := c26Candidates(ops)

	var obs []string
	// ---- oracle section
	obs = append(obs, "ORC")
	seenPat := map[string]bool{}
	for _, o := range ops {
		if len(o) == 0 || o[0] != "NEW" {
			continue
		}
		for _, et := range o[1:] {
			e := c26ParseEntry(et)
			if !strings.ContainsRune(e.req, '%') && !strings.ContainsRune(e.route.Name, '%') {
				continue
			}
			key := e.req + "\x00" + e.route.Name
			if seenPat[key] {
				continue
			}
			seenPat[key] = true
			fn, err := fmtfilter.CompileFilter(e.req, e.route.Name)
			if err != nil {
				obs = append(obs, "c="+c26h(e.req)+"="+c26h(e.route.Name)+"=0")
				vu.Stat("compile_err")
				continue
			}
			obs = append(obs, "c="+c26h(e.req)+"="+c26h(e.route.Name)+"=1")
			for _, q := range cands {
				if name, err := fn(q); err == nil {
					obs = append(obs, "m="+c26h(e.req)+"="+c26h(e.route.Name)+"="+c26h(q)+"="+c26h(name))
					vu.Stat("pattern_match")
				}
			}
		}
	}
	obs = append(obs, ";")

	var cur *multidb.Producer
	for _, o := range ops {
		if len(o) == 0 {
			obs = append(obs, "nop")
			continue
		}
		if o[0] == "NEW" {
			tbl := map[string]multidb.Route{}
			for _, et := range o[1:] {
				e := c26ParseEntry(et)
				tbl[e.req] = e.route
			}
			if _, hasDefault := tbl[""]; !hasDefault {
				// without a default route RouteOf's for{} loop does not terminate: construction must be refused;
				// if it is not, say so and keep the previous producer instead of hanging
				if _, err := multidb.NewProducer(producers, tbl, recordsKey); err == nil {
					obs = append(obs, "new:ok:nodefault")
					continue
				}
			}
			var first *multidb.Producer
			det, failed := "1", false
			for i := 0; i < trials && !failed; i++ {
				// a fresh map each time: iteration order of a Go map differs between maps and runs
				t2 := make(map[string]multidb.Route, len(tbl))
				for k, v := range tbl {
					t2[k] = v
				}
				p, err := multidb.NewProducer(producers, t2, recordsKey)
				if err != nil {
					failed = true
					break
				}
				if first == nil {
					first = p
					continue
				}
				if det == "1" {
					for _, q := range cands {
						if first.RouteOf(q) != p.RouteOf(q) {
							det = "0:" + c26h(q)
							vu.Stat("nondeterministic_route")
							break
						}
					}
				}
			}
			if failed {
				obs = append(obs, "new:err")
				vu.Stat("new_err")
			} else {
				cur = first
				obs = append(obs, "new:ok:"+det)
				vu.Stat("new_ok")
			}
			continue
		}
		if cur == nil {
			obs = append(obs, "nop")
			continue
		}
		switch o[0] {
		case "RT":
			obs = append(obs, "rt:"+c26RouteTok(cur.RouteOf(c26s(o[1]))))
			vu.Stat("route")
		case "O", "X", "W", "G":
			req := c26s(o[1])
			db, err := cur.OpenDB(req)
			if err != nil {
				obs = append(obs, c26ErrKind(err))
				vu.Stat(c26ErrKind(err))
				continue
			}
			rt := cur.RouteOf(req)
			tok := "ok:" + c26RouteTok(rt)
			vu.Stat("open_ok")
			switch o[0] {
			case "X":
				_ = db.Close()
				db.Drop()
				vu.Stat("drop")
				if rt.NoDrop {
					vu.Stat("sweep_nodrop_drop_ignored")
				}
			case "W":
				k, v := []byte(c26s(o[2])), []byte(c26s(o[3]))
				if err := db.Put(k, v); err != nil {
					tok += ":puterr"
				} else {
					// tie the returned store to the reported route: the pair must sit in the routed
					// database under table+key
					raw, _ := producers[rt.Type].OpenDB(rt.Name)
					got, _ := raw.Get(append([]byte(rt.Table), k...))
					if got != nil && string(got) == string(v) {
						tok += ":raw1"
					} else {
						tok += ":raw0"
					}
				}
				vu.Stat("put")
			case "G":
				v, err := db.Get([]byte(c26s(o[2])))
				if err != nil {
					tok += ":geterr"
				} else if v == nil {
					tok += ":~"
				} else {
					tok += ":" + vu.Hex(v)
					vu.Stat("get_hit")
				}
			}
			obs = append(obs, tok)
		case "V":
			if err := cur.Verify(); err != nil {
				obs = append(obs, "v:0")
				vu.Stat("verify_err")
			} else {
				obs = append(obs, "v:1")
				vu.Stat("verify_ok")
			}
			for _, q := range reqs {
				obs = append(obs, "q:"+c26h(q)+":"+c26RouteTok(cur.RouteOf(q)))
			}
		default:
			obs = append(obs, "nop")
		}
	}
	return obs
}

// ---------------------------------------------------------------- generator

var c26Types = []string{"main", "main", "aux", "ghost"}
var c26Exact = []string{"a", "b", "ab", "a/b", "a/b/c", "x", "x/y", "e"}
var c26Pats = [][2]string{ // request template, name template
	{"a%d", "num-%d"}, {"a%s", "str-%s"}, {"a%d", "n%d"}, {"e-%d", "epoch-%d"}, {"e-%s", "es-%s"},
	{"%s", "any-%s"}, {"%d", "i%d"}, {"a%d/%s", "two-%d-%s"}, {"a%d-%d", "dd-%d"}, {"x%s", "x"},
	{"b%d", "b%s"}, {"b%", "b"}, {"c%q", "c"}, {"a1%d", "one%d"}, {"p%%%d", "pct-%d"},
}
var c26Names = []string{"db", "db2", "main", "a", "x"}
var c26Tables = []string{"", "", "t", "tt", "u", "t/", "c", "cb", "b"}
var c26Reqs = []string{"", "a", "a1", "a12", "a-3", "ab", "a/b", "a/b/c", "a/cb", "a/bc", "a1/t", "a1/t/u",
	"e-5", "e-x", "x", "x/y", "x/y/z", "zz", "zz/t", "zz/tt", "b", "b7", "a1-2", "p%5", "a/t", "a/tt", "a/c/b"}
var c26Keys = []string{"k", "t", "tk", "", "u"}

func c26Pick(r *rand.Rand, l []string) string { return l[r.Intn(len(l))] }

func c26GenTable(r *rand.Rand) []string {
	var out []string
	used := map[string]bool{}
	add := func(req, typ, name, table string, nodrop bool) {
		if used[req] {
			return
		}
		used[req] = true
		out = append(out, c26t(req)+"="+c26t(typ)+":"+c26t(name)+":"+c26t(table)+":"+vu.B(nodrop))
	}
	if r.Intn(25) != 0 {
		add("", c26Pick(r, c26Types[:3]), c26Pick(r, c26Names), c26Pick(r, c26Tables[:3]), r.Intn(4) == 0)
	}
	n := r.Intn(6)
	if r.Intn(3) == 0 { // the overlapping pair of DESIGN section 6 #7
		add("a%d", c26Pick(r, c26Types), "num-%d", c26Pick(r, c26Tables), false)
		add("a%s", c26Pick(r, c26Types), "str-%s", c26Pick(r, c26Tables), false)
	}
	for i := 0; i < n; i++ {
		if r.Intn(2) == 0 {
			add(c26Pick(r, c26Exact), c26Pick(r, c26Types), c26Pick(r, c26Names), c26Pick(r, c26Tables), r.Intn(5) == 0)
		} else {
			p := c26Pats[r.Intn(len(c26Pats))]
			if r.Intn(12) != 0 && (strings.HasSuffix(p[0], "%") || strings.Contains(p[0], "%q") || p[0] == "b%d") {
				continue // compile errors only occasionally
			}
			add(p[0], c26Pick(r, c26Types), p[1], c26Pick(r, c26Tables), r.Intn(5) == 0)
		}
	}
	r.Shuffle(len(out), func(i, j int) { out[i], out[j] = out[j], out[i] })
	return out
}

var c26LongReq = "x/" + strings.Repeat("seg/", 14) + strings.Repeat("y", 180)

// a database holding several table records, then a restart whose routing table moves exactly ONE of the
// recorded requests (the first / a middle / the last recorded) to another type, name, or both, with the table
// unchanged or changed: Verify must fail exactly when some recorded request is routed differently
func c26GenMove(r *rand.Rand, emit func(...string)) {
	vu.Stat("sweep_move_one_recorded_request")
	typ := c26Pick(r, []string{"main", "aux"})
	base := c26Pick(r, []string{"zz", "q", "x"})
	tabs := []string{"t", "u", "c"}
	r.Shuffle(len(tabs), func(a, b int) { tabs[a], tabs[b] = tabs[b], tabs[a] })
	k := 2 + r.Intn(2)
	def := "~=" + typ + ":db:~:0"
	in := []string{"mdb", "main,aux", "20", ";", "NEW", def}
	var reqs []string
	for j := 0; j < k; j++ {
		req := base + "/" + tabs[j]
		reqs = append(reqs, req)
		if r.Intn(3) == 0 {
			in = append(in, ";", "W", req, "k", "v1")
		} else {
			in = append(in, ";", "O", req)
		}
	}
	in = append(in, ";", "V")
	which := r.Intn(k) // 0 = the first recorded request of the database
	vu.Stat([]string{"sweep_move_first_recorded", "sweep_move_middle_recorded", "sweep_move_last_recorded"}[func() int {
		if which == 0 {
			return 0
		} else if which == k-1 {
			return 2
		}
		return 1
	}()])
	ntyp, nname := typ, "db"+base
	switch r.Intn(4) {
	case 0:
		ntyp = map[string]string{"main": "aux", "aux": "main"}[typ]
		vu.Stat("sweep_move_type_only")
	case 1:
		nname = "other"
		vu.Stat("sweep_move_name_only")
	case 2:
		ntyp, nname = map[string]string{"main": "aux", "aux": "main"}[typ], "other"
		vu.Stat("sweep_move_type_and_name")
	default:
		vu.Stat("sweep_move_nothing") // the explicit route leads to the same place: Verify must still pass
	}
	ntab := tabs[which]
	if r.Intn(4) == 0 {
		ntab = ntab + "x"
		vu.Stat("sweep_move_table_changed")
	}
	in = append(in, ";", "NEW", def, reqs[which]+"="+ntyp+":"+nname+":"+ntab+":0", ";", "V", ";", "O", reqs[which], ";", "O", reqs[(which+1)%k], ";", "V")
	emit(in...)
}

func c26Gen(r *rand.Rand, n int, tier string, emit func(...string)) {
	for i := 0; i < n; i++ {
		if r.Intn(8) == 0 {
			c26GenMove(r, emit)
			continue
		}
		avail := "main,aux"
		switch r.Intn(16) {
		case 0, 1:
			avail = "main"
		case 2:
			avail = "~" // no producer at all: every open fails with "missing producer"
			vu.Stat("sweep_no_producers")
		}
		in := []string{"mdb", avail, "20"}
		// 1 case in 6: the table-records key is the ASCII string "rec", and tables r / re / rec (prefixes of it,
		// excluded by the property's quantifier as far as colliding KEYS go) are in play: no user key collides
		// with the records key here (keys k,t,tk,u only), so routing, conflicts and Verify must still behave
		recMode := r.Intn(6) == 0
		if recMode {
			in = append(in, "rec")
			vu.Stat("sweep_tables_prefix_of_records_key")
		}
		tbl := c26GenTable(r)
		switch r.Intn(20) {
		case 0:
			tbl = nil // the empty routing table
			vu.Stat("sweep_empty_routing_table")
		case 1, 2:
			tbl = []string{"~=main:db:~:" + vu.B(r.Intn(2) == 0)} // the default route only
			vu.Stat("sweep_default_route_only")
		}
		if recMode && len(tbl) > 0 {
			k := r.Intn(len(tbl))
			e := c26ParseEntry(tbl[k])
			e.route.Table = c26Pick(r, []string{"r", "re", "rec"})
			tbl[k] = c26t(e.req) + "=" + c26t(string(e.route.Type)) + ":" + c26t(e.route.Name) + ":" + c26t(e.route.Table) + ":" + vu.B(e.route.NoDrop)
		}
		in = append(in, ";", "NEW")
		in = append(in, tbl...)
		nops := 4 + r.Intn(14)
		if tier == "thorough" {
			nops += r.Intn(20)
		}
		var opened []string
		for j := 0; j < nops; j++ {
			in = append(in, ";")
			req := c26Pick(r, c26Reqs)
			if len(opened) > 0 && r.Intn(3) == 0 {
				req = opened[r.Intn(len(opened))]
			}
			if r.Intn(70) == 0 {
				req = c26LongReq // a very long, deeply nested request
				vu.Stat("sweep_long_nested_request")
			}
			if j == 0 && r.Intn(6) == 0 {
				in = append(in, "V", ";") // Verify before any database exists
				vu.Stat("sweep_verify_on_empty")
			}
			switch x := r.Intn(20); {
			case x < 3:
				in = append(in, "RT", c26t(req))
			case x < 9:
				in = append(in, "O", c26t(req))
				opened = append(opened, req)
			case x < 10:
				in = append(in, "X", c26t(req))
			case x < 13:
				wk := c26Pick(r, c26Keys)
				if recMode && wk == "" {
					wk = "k"
				}
				in = append(in, "W", c26t(req), c26t(wk), c26t(c26Pick(r, []string{"v1", "v2", ""})))
				opened = append(opened, req)
			case x < 16:
				gk := c26Pick(r, c26Keys)
				if recMode && gk == "" {
					gk = "k"
				}
				in = append(in, "G", c26t(req), c26t(gk))
			case x < 18:
				in = append(in, "V")
			default: // restart: same table re-shuffled, an edited table, or a new one
				in = append(in, "NEW")
				switch r.Intn(3) {
				case 0:
					t2 := append([]string{}, tbl...)
					r.Shuffle(len(t2), func(a, b int) { t2[a], t2[b] = t2[b], t2[a] })
					in = append(in, t2...)
				case 1:
					t2 := append([]string{}, tbl...)
					if len(t2) > 0 {
						k := r.Intn(len(t2))
						e := c26ParseEntry(t2[k])
						switch r.Intn(3) {
						case 0:
							e.route.Table = c26Pick(r, c26Tables)
						case 1:
							e.route.Name = c26Pick(r, c26Names)
						default:
							e.route.Type = multidb.TypeName(c26Pick(r, c26Types[:3]))
						}
						t2[k] = c26t(e.req) + "=" + c26t(string(e.route.Type)) + ":" + c26t(e.route.Name) + ":" + c26t(e.route.Table) + ":" + vu.B(e.route.NoDrop)
					}
					tbl = t2
					in = append(in, t2...)
				default:
					tbl = c26GenTable(r)
					in = append(in, tbl...)
				}
				in = append(in, ";", "V")
			}
		}
		emit(in...)
	}
}

func init() {
	vu.Register("C26", &vu.Prop{Gen: c26Gen, Run: c26Run})
}
