package main

import (
	"fmt"
	"math/big"
	"math/rand"
	"strconv"
	"strings"

	"github.com/Fantom-foundation/lachesis-base/eventcheck"
	"github.com/Fantom-foundation/lachesis-base/eventcheck/basiccheck"
	"github.com/Fantom-foundation/lachesis-base/eventcheck/epochcheck"
	"github.com/Fantom-foundation/lachesis-base/eventcheck/parentscheck"
	"github.com/Fantom-foundation/lachesis-base/hash"
	"github.com/Fantom-foundation/lachesis-base/inter/dag"
	"github.com/Fantom-foundation/lachesis-base/inter/dag/tdag"
	"github.com/Fantom-foundation/lachesis-base/inter/idx"
	"github.com/Fantom-foundation/lachesis-base/inter/pos"

	"verifharness/vu"
)

// C13: event checkers.  One case =
//   V <cur> <nv> <val>*nv <epoch> <seq> <frame> <creator> <lamport> <nid> <id>*nid <np> (<pepoch> <plamport> <ptail> <pcreator> <pseq>)*np
// ids are decimal numbers < 2^256 (the 32 bytes of hash.Event, big endian).  The id of parent j
// is whatever the real SetID/Build computes from (pepoch, plamport, ptail); the generator writes
// that value into the event's id list when it wants the lists to agree.
// Observation: four result codes: Checkers.Validate, basiccheck, epochcheck, parentscheck
// (0 nil, 1 huge, 2 notinited, 3 noparents, 4 double, 5 notrelevant, 6 auth, 7 lamport,
//  8 selfparent, 9 seq, 10 the parentscheck length panic, 11 anything else).

type c13Parent struct {
	epoch, lamport uint32
	tail           uint64
	creator, seq   uint32
}

type c13Case struct {
	mask    int // VN<mask>: 1 Basiccheck nil, 2 Parentscheck nil, 4 Reader returns nil validators
	cur     uint32
	vals    []uint32
	epoch   uint32
	seq     uint32
	frame   uint32
	creator uint32
	lamport uint32
	ids     []*big.Int
	ps      []c13Parent
}

func c13ParentID(p c13Parent) *big.Int {
	v := new(big.Int).SetUint64(uint64(p.epoch))
	v.Lsh(v, 32)
	v.Or(v, new(big.Int).SetUint64(uint64(p.lamport)))
	v.Lsh(v, 192)
	v.Or(v, new(big.Int).SetUint64(p.tail))
	return v
}

func (c *c13Case) tokens() []string {
	op := "V"
	if c.mask != 0 {
		op = "VN" + vu.Itoa(c.mask)
	}
	t := []string{op, vu.U64(uint64(c.cur)), vu.Itoa(len(c.vals))}
	for _, v := range c.vals {
		t = append(t, vu.U64(uint64(v)))
	}
	t = append(t, vu.U64(uint64(c.epoch)), vu.U64(uint64(c.seq)), vu.U64(uint64(c.frame)),
		vu.U64(uint64(c.creator)), vu.U64(uint64(c.lamport)), vu.Itoa(len(c.ids)))
	for _, id := range c.ids {
		t = append(t, id.String())
	}
	t = append(t, vu.Itoa(len(c.ps)))
	for _, p := range c.ps {
		t = append(t, vu.U64(uint64(p.epoch)), vu.U64(uint64(p.lamport)), vu.U64(p.tail),
			vu.U64(uint64(p.creator)), vu.U64(uint64(p.seq)))
	}
	return t
}

func c13Parse(in []string) (*c13Case, error) {
	pos_ := 1
	next := func() string {
		if pos_ >= len(in) {
			panic("c13: short input")
		}
		s := in[pos_]
		pos_++
		return s
	}
	u32 := func() uint32 {
		v, err := strconv.ParseUint(next(), 10, 32)
		if err != nil {
			panic("c13: bad number")
		}
		return uint32(v)
	}
	c := &c13Case{}
	if strings.HasPrefix(in[0], "VN") {
		c.mask, _ = strconv.Atoi(in[0][2:])
	}
	c.cur = u32()
	nv := int(u32())
	for i := 0; i < nv; i++ {
		c.vals = append(c.vals, u32())
	}
	c.epoch, c.seq, c.frame, c.creator, c.lamport = u32(), u32(), u32(), u32(), u32()
	nid := int(u32())
	for i := 0; i < nid; i++ {
		v, ok := new(big.Int).SetString(next(), 10)
		if !ok || v.Sign() < 0 || v.BitLen() > 256 {
			panic("c13: bad id")
		}
		c.ids = append(c.ids, v)
	}
	np := int(u32())
	for i := 0; i < np; i++ {
		var p c13Parent
		p.epoch, p.lamport = u32(), u32()
		t, err := strconv.ParseUint(next(), 10, 64)
		if err != nil {
			panic("c13: bad tail")
		}
		p.tail = t
		p.creator, p.seq = u32(), u32()
		c.ps = append(c.ps, p)
	}
	return c, nil
}

type c13Reader struct {
	v *pos.Validators
	e idx.Epoch
}

func (r *c13Reader) GetEpochValidators() (*pos.Validators, idx.Epoch) { return r.v, r.e }

func c13Code(err error) string {
	switch err {
	case nil:
		return "0"
	case basiccheck.ErrHugeValue:
		return "1"
	case basiccheck.ErrNotInited:
		return "2"
	case basiccheck.ErrNoParents:
		return "3"
	case basiccheck.ErrDoubleParents:
		return "4"
	case epochcheck.ErrNotRelevant:
		return "5"
	case epochcheck.ErrAuth:
		return "6"
	case parentscheck.ErrWrongLamport:
		return "7"
	case parentscheck.ErrWrongSelfParent:
		return "8"
	case parentscheck.ErrWrongSeq:
		return "9"
	}
	return "11"
}

// c13Call runs f and maps the documented length panic of parentscheck to code 10.
func c13Call(f func() error) (code string) {
	defer func() {
		if r := recover(); r != nil {
			if strings.Contains(fmt.Sprint(r), "expected event's parents as an argument") {
				code = "10"
			} else if strings.Contains(fmt.Sprint(r), "nil pointer dereference") {
				code = "12"
			} else {
				code = "11"
			}
		}
	}()
	return c13Code(f())
}

func c13Tail(t uint64) (tail [24]byte) {
	for i := 0; i < 8; i++ {
		tail[23-i] = byte(t >> (8 * uint(i)))
	}
	return
}

// c13Shared is ONE Checkers object with ONE mutable Reader, reused over a history (VH cases).
type c13Shared struct {
	reader   *c13Reader
	checkers *eventcheck.Checkers
}

// VH ; V ... ; V ... ; ...   a history over one Checkers object: before every step the Reader's
// current epoch and validator set are replaced by the step's; observation = the four codes per step.
func c13Run(in []string) []string {
	if in[0] != "VH" {
		return c13RunOne(in, nil)
	}
	sh := &c13Shared{reader: &c13Reader{}}
	sh.checkers = &eventcheck.Checkers{
		Basiccheck:   basiccheck.New(),
		Epochcheck:   epochcheck.New(sh.reader),
		Parentscheck: parentscheck.New(),
	}
	var obs []string
	var step []string
	steps := 0
	flush := func() {
		if len(step) > 0 {
			obs = append(obs, c13RunOne(step, sh)...)
			steps++
		}
		step = nil
	}
	for _, t := range in[1:] {
		if t == ";" {
			flush()
		} else {
			step = append(step, t)
		}
	}
	flush()
	vu.Stat("history.steps=" + vu.Itoa(steps))
	return obs
}

func c13RunOne(in []string, sh *c13Shared) []string {
	c, _ := c13Parse(in)
	// parents: real events, id computed by the real SetID / Build
	parents := make(dag.Events, len(c.ps))
	for i, p := range c.ps {
		me := &dag.MutableBaseEvent{}
		me.SetEpoch(idx.Epoch(p.epoch))
		me.SetLamport(idx.Lamport(p.lamport))
		me.SetCreator(idx.ValidatorID(p.creator))
		me.SetSeq(idx.Event(p.seq))
		me.SetFrame(1)
		if (uint64(i)+p.tail)%2 == 0 {
			me.SetID(c13Tail(p.tail))
			parents[i] = me
		} else {
			parents[i] = me.Build(c13Tail(p.tail))
		}
		if parents[i].ID() != hash.BytesToEvent(c13ParentID(p).FillBytes(make([]byte, 32))) {
			panic("c13: harness id formula disagrees with the real SetID/Build")
		}
	}
	ids := make(hash.Events, len(c.ids))
	for i, v := range c.ids {
		ids[i] = hash.BytesToEvent(v.FillBytes(make([]byte, 32)))
	}
	// share of cases where the caller's contract holds (the events passed are the ones named)
	contract := len(ids) == len(parents)
	for i := 0; contract && i < len(ids); i++ {
		contract = ids[i] == parents[i].ID()
	}
	vu.Stat("parents_of=" + vu.B(contract))
	var e dag.Event
	fill := func(me dag.MutableEvent) {
		me.SetEpoch(idx.Epoch(c.epoch))
		me.SetSeq(idx.Event(c.seq))
		me.SetFrame(idx.Frame(c.frame))
		me.SetCreator(idx.ValidatorID(c.creator))
		me.SetLamport(idx.Lamport(c.lamport))
		me.SetParents(ids)
		me.SetID(c13Tail(uint64(c.seq)*31 + 7))
	}
	if (c.seq+c.lamport)%2 == 0 {
		te := &tdag.TestEvent{}
		fill(te)
		e = te
	} else {
		me := &dag.MutableBaseEvent{}
		fill(me)
		e = me
	}
	b := pos.NewBuilder()
	for _, v := range c.vals {
		b.Set(idx.ValidatorID(v), 1)
	}
	reader := &c13Reader{v: b.Build(), e: idx.Epoch(c.cur)}
	if c.mask&4 != 0 {
		reader.v = nil
	}
	checkers := &eventcheck.Checkers{
		Basiccheck:   basiccheck.New(),
		Epochcheck:   epochcheck.New(reader),
		Parentscheck: parentscheck.New(),
	}
	if sh != nil { // history: the SAME objects, the Reader's answer replaced in place
		if sh.reader.e != reader.e && sh.reader.v != nil {
			vu.Stat("history.epoch_changed")
		}
		sh.reader.v, sh.reader.e = reader.v, reader.e
		reader, checkers = sh.reader, sh.checkers
	}
	if c.mask&1 != 0 {
		checkers.Basiccheck = nil // an empty struct whose methods never touch the receiver
	}
	if c.mask&2 != 0 {
		checkers.Parentscheck = nil
	}
	all := c13Call(func() error { return checkers.Validate(e, parents) })
	ba := c13Call(func() error { return checkers.Basiccheck.Validate(e) })
	ep := c13Call(func() error { return checkers.Epochcheck.Validate(e) })
	pa := c13Call(func() error { return checkers.Parentscheck.Validate(e, parents) })
	// second use: the same Checkers object (and Reader) must answer the same again
	if again := c13Call(func() error { return checkers.Validate(e, parents) }); again != all {
		all = "11"
	}
	c13SweepStats(c)
	vu.Stat("all=" + all)
	vu.Stat("parents=" + pa)
	return []string{all, ba, ep, pa}
}

var c13Bounds = []uint32{0, 1, 2, 255, 256, 65535, 65536, 1<<31 - 3, 1<<31 - 2, 1<<31 - 1, 1 << 31, 1<<32 - 1}

func c13Bucket(n int) string {
	switch {
	case n <= 10:
		return vu.Itoa(n)
	case n <= 32:
		return "11-32"
	case n <= 64:
		return "33-64"
	case n <= 256:
		return "65-256"
	}
	return ">256"
}

// c13SweepStats records which configuration / size classes a case reaches (evidence: input_distribution).
func c13SweepStats(c *c13Case) {
	vu.Stat("np=" + c13Bucket(len(c.ps)))
	vu.Stat("nv=" + c13Bucket(len(c.vals)))
	if c.mask != 0 {
		vu.Stat("nilmask=" + vu.Itoa(c.mask))
	}
	switch c.cur {
	case 0:
		vu.Stat("cur=0")
	case 1<<32 - 1:
		vu.Stat("cur=maxuint32")
	}
	switch c.creator {
	case 0:
		vu.Stat("creator=0")
	case 1<<32 - 1:
		vu.Stat("creator=maxuint32")
	}
	for _, f := range []uint32{c.seq, c.epoch, c.frame, c.lamport} {
		switch f {
		case 255, 256:
			vu.Stat("field@2^8")
		case 65535, 65536:
			vu.Stat("field@2^16")
		case 1<<31 - 3, 1<<31 - 2, 1<<31 - 1, 1 << 31:
			vu.Stat("field@2^31")
		case 1<<32 - 1:
			vu.Stat("field@2^32-1")
		}
	}
}

func c13Pick(r *rand.Rand) uint32 {
	switch r.Intn(4) {
	case 0:
		return c13Bounds[r.Intn(len(c13Bounds))]
	case 1:
		return uint32(r.Intn(6))
	case 2:
		return uint32(1<<31-6) + uint32(r.Intn(8))
	}
	return r.Uint32()
}

// c13Valid builds a well-formed event with np parents (incl. the self-parent when seq > 1).
func c13Valid(r *rand.Rand, seq uint32, others int) *c13Case {
	c := &c13Case{}
	curs := []uint32{1, 2, 5, 77, 1<<31 - 3}
	c.cur = curs[r.Intn(len(curs))]
	nv := 1 + r.Intn(5)
	pool := []uint32{0, 1, 2, 3, 4, 5, 9, 1 << 31, 1<<32 - 1}
	r.Shuffle(len(pool), func(i, j int) { pool[i], pool[j] = pool[j], pool[i] })
	c.vals = append(c.vals, pool[:nv]...)
	c.creator = c.vals[r.Intn(nv)]
	c.epoch = c.cur
	c.seq = seq
	frames := []uint32{1, 2, 3, 1000, 1<<31 - 3}
	c.frame = frames[r.Intn(len(frames))]
	maxl := uint32(0)
	lam := func() uint32 {
		switch r.Intn(5) {
		case 0:
			return uint32(1<<31 - 4)
		case 1:
			return uint32(1<<31-8) + uint32(r.Intn(5))
		}
		return uint32(r.Intn(50))
	}
	tail := uint64(r.Intn(1000)) * 16
	if seq > 1 {
		p := c13Parent{epoch: c.cur, lamport: lam(), tail: tail, creator: c.creator, seq: seq - 1}
		c.ps = append(c.ps, p)
	}
	for i := 0; i < others; i++ {
		tail++
		oc := pool[r.Intn(len(pool))]
		for oc == c.creator {
			oc = pool[r.Intn(len(pool))]
		}
		p := c13Parent{epoch: c.cur, lamport: lam(), tail: tail, creator: oc, seq: c13Pick(r)}
		c.ps = append(c.ps, p)
	}
	for _, p := range c.ps {
		if p.lamport > maxl {
			maxl = p.lamport
		}
		c.ids = append(c.ids, c13ParentID(p))
	}
	c.lamport = maxl + 1
	return c
}

const c13NMut = 24

func c13Mutate(r *rand.Rand, c *c13Case, m int) {
	np := len(c.ps)
	switch m {
	case 0: // a field at a boundary value
		b := c13Bounds[r.Intn(len(c13Bounds))]
		switch r.Intn(4) {
		case 0:
			c.seq = b
		case 1:
			c.epoch = b
		case 2:
			c.frame = b
		default:
			c.lamport = b
		}
	case 1: // duplicate a parent (id list and parents)
		if np > 0 {
			j := r.Intn(np)
			c.ps = append(c.ps, c.ps[j])
			c.ids = append(c.ids, c.ids[j])
		}
	case 2: // duplicate in front
		if np > 0 {
			c.ps = append([]c13Parent{c.ps[0]}, c.ps...)
			c.ids = append([]*big.Int{c.ids[0]}, c.ids...)
		}
	case 3: // no parents at all
		c.ps, c.ids = nil, nil
	case 4:
		c.epoch = c.cur + 1
	case 5:
		c.epoch = c.cur - 1
	case 6:
		c.cur = c.cur + 1
	case 7: // unknown creator (parents keep the old creator)
		c.creator = 12345
	case 8: // creator removed from the validators
		var vs []uint32
		for _, v := range c.vals {
			if v != c.creator {
				vs = append(vs, v)
			}
		}
		c.vals = vs
	case 9:
		c.lamport++
	case 10:
		c.lamport--
	case 11: // a parent's lamport raised above the event's
		if np > 0 {
			j := r.Intn(np)
			c.ps[j].lamport = c.lamport + uint32(r.Intn(2))
			c.ids[j] = c13ParentID(c.ps[j])
		}
	case 12: // self-parent moved to the last position
		if np > 1 {
			c.ps = append(c.ps[1:], c.ps[0])
			c.ids = append(c.ids[1:], c.ids[0])
		}
	case 13: // another parent by the same creator
		if np > 0 {
			j := r.Intn(np)
			c.ps[j].creator = c.creator
		}
	case 14: // first parent by somebody else
		if np > 0 {
			c.ps[0].creator = c.creator + 1
		}
	case 15: // self-parent's seq off
		if np > 0 {
			d := []uint32{0, 1, 2, 1<<32 - 1, c.seq, c.seq + 1}
			c.ps[0].seq = d[r.Intn(len(d))]
		}
	case 16: // the event's seq off
		c.seq += uint32(r.Intn(3)) - 1
	case 17: // id list names a different first parent than the one passed
		if np > 0 {
			c.ids[0] = new(big.Int).Add(c.ids[0], big.NewInt(1))
		}
	case 18: // id list names a different later parent
		if np > 1 {
			c.ids[np-1] = new(big.Int).Add(c.ids[np-1], big.NewInt(5))
		}
	case 19: // length mismatch: the documented panic
		if r.Intn(2) == 0 && np > 0 {
			c.ps = c.ps[:np-1]
		} else {
			c.ids = append(c.ids, big.NewInt(int64(r.Intn(100))))
		}
	case 20: // uint32 wrap of maxLamport+1
		if np > 0 {
			j := r.Intn(np)
			c.ps[j].lamport = 1<<32 - 1
			c.ids[j] = c13ParentID(c.ps[j])
			c.lamport = 0
		}
	case 21: // seq 1 but with a parent by the creator
		c.seq = 1
	case 22: // seq 0
		c.seq = 0
	case 23: // duplicate id only (parents distinct)
		if np > 1 {
			c.ids[np-1] = c.ids[0]
		}
	}
}

func c13Random(r *rand.Rand) *c13Case {
	c := &c13Case{cur: c13Pick(r), epoch: c13Pick(r), seq: c13Pick(r), frame: c13Pick(r),
		creator: uint32(r.Intn(4)), lamport: c13Pick(r)}
	if r.Intn(2) == 0 {
		c.epoch = c.cur
	}
	for i, n := 0, r.Intn(4); i < n; i++ {
		c.vals = append(c.vals, uint32(r.Intn(4)))
	}
	np := r.Intn(4)
	for i := 0; i < np; i++ {
		p := c13Parent{epoch: c.epoch, lamport: c13Pick(r), tail: uint64(r.Intn(3)), creator: uint32(r.Intn(4)), seq: c13Pick(r)}
		if r.Intn(3) == 0 {
			p.lamport = uint32(r.Intn(4))
		}
		c.ps = append(c.ps, p)
		c.ids = append(c.ids, c13ParentID(p))
	}
	if r.Intn(3) == 0 {
		m := uint32(0)
		for _, p := range c.ps {
			if p.lamport > m {
				m = p.lamport
			}
		}
		c.lamport = m + 1
	}
	return c
}

func init() {
	vu.Register("C13", &vu.Prop{
		Gen: func(r *rand.Rand, n int, tier string, emit func(...string)) {
			seqs := []uint32{1, 1, 2, 2, 3, 10, 1<<31 - 3, 1<<31 - 4}
			// every single mutation on every shape once, so that each clause is hit in every run
			for m := 0; m < c13NMut; m++ {
				for _, seq := range []uint32{1, 2, 1<<31 - 3} {
					for others := 0; others <= 2; others++ {
						c := c13Valid(r, seq, others)
						c13Mutate(r, c, m)
						emit(c.tokens()...)
					}
				}
			}
			// histories over ONE Checkers object with a mutable Reader: the epoch advances / goes back, the
			// validator set changes, between calls; late events of the previous epoch must be refused
			nh := 60 + n/50
			for i := 0; i < nh; i++ {
				base := c13Valid(r, []uint32{1, 2, 3}[r.Intn(3)], r.Intn(3))
				cp := func(c *c13Case) *c13Case {
					d := *c
					d.vals = append([]uint32{}, c.vals...)
					d.ids = append([]*big.Int{}, c.ids...)
					d.ps = append([]c13Parent{}, c.ps...)
					return &d
				}
				var steps []*c13Case
				steps = append(steps, cp(base)) // accepted under epoch N
				cur := base.cur
				for j, k := 0, 1+r.Intn(5); j < k; j++ {
					c := cp(base)
					switch r.Intn(7) {
					case 0: // the epoch advanced: the same (now late) event again
						cur++
					case 1: // ... and back (a Reader may also go back, e.g. after a revert)
						cur--
					case 2: // same epoch, creator dropped from the validator set
						var vs []uint32
						for _, v := range c.vals {
							if v != c.creator {
								vs = append(vs, v)
							}
						}
						c.vals = vs
					case 3: // an event of the new current epoch
						c.epoch = cur
					case 4: // another event under the same reader state
						c = c13Valid(r, 2, 1)
						c.cur, c.epoch = cur, cur
					case 5:
						c13Mutate(r, c, r.Intn(c13NMut))
					default: // nothing changed: same reader state, same event
					}
					if c.cur == base.cur {
						c.cur = cur
					}
					c.mask = 0
					if len(c.ids) != len(c.ps) { // keep the documented panic out of histories
						c = cp(base)
						c.cur = cur
					}
					steps = append(steps, c)
				}
				t := []string{"VH"}
				for _, c := range steps {
					t = append(t, ";")
					t = append(t, c.tokens()...)
				}
				emit(t...)
			}
			// configuration / size sweep (always): parents lists of length 0..10, 40, 300; validator sets of
			// 0, 1, 33, 65, 257, 1000; reader epoch 0 / MaxUint32; creator 0 / MaxUint32; every field at each
			// width boundary; nil sub-checkers; a Reader returning nil validators
			for _, others := range []int{0, 1, 2, 3, 4, 5, 6, 7, 8, 9, 10, 39, 299} {
				for _, seq := range []uint32{1, 2} {
					c := c13Valid(r, seq, others)
					emit(c.tokens()...)
					c = c13Valid(r, seq, others)
					c13Mutate(r, c, []int{1, 11, 13, 23, 9}[r.Intn(5)])
					emit(c.tokens()...)
				}
			}
			for _, nv := range []int{0, 1, 33, 65, 257, 1000} {
				for _, in := range []bool{true, false} {
					c := c13Valid(r, 2, 1)
					c.vals = nil
					for v := 0; v < nv; v++ {
						c.vals = append(c.vals, uint32(v*7+100))
					}
					if in && nv > 0 {
						c.vals[r.Intn(nv)] = c.creator
					}
					emit(c.tokens()...)
				}
			}
			for _, cur := range []uint32{0, 1, 255, 256, 65535, 65536, 1<<31 - 3, 1<<31 - 2, 1 << 31, 1<<32 - 1} {
				c := c13Valid(r, 2, 1)
				c.cur, c.epoch = cur, cur
				emit(c.tokens()...)
				c = c13Valid(r, 1, 0)
				c.cur = cur
				emit(c.tokens()...)
			}
			for _, cr := range []uint32{0, 1<<32 - 1} {
				for _, seq := range []uint32{1, 3} {
					c := c13Valid(r, seq, 2)
					c.creator = cr
					c.vals = append(c.vals, cr)
					for j := range c.ps {
						if j == 0 && seq > 1 {
							c.ps[j].creator = cr
						} else if c.ps[j].creator == cr {
							c.ps[j].creator = 7
						}
					}
					emit(c.tokens()...)
				}
			}
			for _, b := range c13Bounds {
				for f := 0; f < 4; f++ {
					c := c13Valid(r, 2, 1)
					switch f {
					case 0: // seq with a matching self-parent
						c.seq = b
						c.ps[0].seq = b - 1
					case 1:
						c.epoch, c.cur = b, b
					case 2:
						c.frame = b
					default: // lamport with matching parents
						c.lamport = b
						for j := range c.ps {
							c.ps[j].lamport = b - 1 - uint32(j)
							c.ids[j] = c13ParentID(c.ps[j])
						}
					}
					emit(c.tokens()...)
				}
			}
			for mask := 1; mask < 8; mask++ {
				for _, m := range []int{-1, 0, 4, 7, 9, 19} {
					c := c13Valid(r, 2, 1)
					if m >= 0 {
						c13Mutate(r, c, m)
					}
					c.mask = mask
					emit(c.tokens()...)
				}
			}
			// boundary grid: all field combinations (thorough) on several parent shapes
			if tier == "thorough" {
				for _, sq := range c13Bounds {
					for _, ep := range c13Bounds {
						for _, fr := range c13Bounds {
							for _, la := range c13Bounds {
								for shape := 0; shape < 6; shape++ {
									c := c13Valid(r, 2, shape%3)
									if shape >= 3 {
										c.ps, c.ids = nil, nil
										if shape == 4 {
											c = c13Valid(r, 1, 2)
										}
										if shape == 5 {
											c = c13Valid(r, 3, 1)
											c.ps = append(c.ps, c.ps[0])
											c.ids = append(c.ids, c.ids[0])
										}
									}
									cur := c.cur
									c.seq, c.epoch, c.frame, c.lamport = sq, ep, fr, la
									if shape%2 == 0 {
										c.cur = ep
									} else {
										c.cur = cur
									}
									// keep the self-parent consistent with the grid's seq where possible
									if len(c.ps) > 0 && shape < 3 {
										c.ps[0].seq = sq - 1
										if la > 0 {
											for j := range c.ps {
												if c.ps[j].lamport >= la {
													c.ps[j].lamport = la - 1
												}
											}
											c.ps[len(c.ps)-1].lamport = la - 1
										}
										for j := range c.ps {
											c.ids[j] = c13ParentID(c.ps[j])
										}
									}
									emit(c.tokens()...)
								}
							}
						}
					}
				}
			}
			for i := 0; i < n; i++ {
				switch k := r.Intn(10); {
				case k < 2: // valid
					seq := seqs[r.Intn(len(seqs))]
					emit(c13Valid(r, seq, r.Intn(3)).tokens()...)
				case k < 6: // one mutation
					c := c13Valid(r, seqs[r.Intn(len(seqs))], r.Intn(3))
					c13Mutate(r, c, r.Intn(c13NMut))
					emit(c.tokens()...)
				case k < 8: // two mutations
					c := c13Valid(r, seqs[r.Intn(len(seqs))], r.Intn(3))
					c13Mutate(r, c, r.Intn(c13NMut))
					c13Mutate(r, c, r.Intn(c13NMut))
					emit(c.tokens()...)
				default:
					emit(c13Random(r).tokens()...)
				}
			}
		},
		Run: c13Run,
	})
}
