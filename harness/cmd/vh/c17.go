package main

import (
	"fmt"
	"math/rand"
	"runtime"
	"sort"
	"strconv"
	"strings"
	"sync"
	"time"

	"github.com/Fantom-foundation/lachesis-base/gossip/basestream"
	"github.com/Fantom-foundation/lachesis-base/gossip/basestream/basestreamseeder"
	"github.com/Fantom-foundation/lachesis-base/utils/workers"

	"verifharness/vu"
)

// C17: stream seeder.  One case = one history against a real BaseSeeder (reader goroutine +
// sender workers):
//
//   <threads>[:<MaxSenderTasks>] <pendLimit> <cfgMaxNum> <cfgMaxSize> <cfgMaxChunks> <nitems> (<key> <size> <mem>)*
//   ; r <peer> <sid> <start> <stop> <maxNum> <maxSize> <maxChunks>     NotifyRequestReceived
//   ; u <peer>                                                         UnregisterPeer
//   ; h                                                                hold: block every SendChunk
//   ; f                                                                flush: release them
//   ; z <peer> <n> (<peer> <sid> <start> <stop> <maxNum> <maxSize> <maxChunks>)*n
//        race of the reader's two input channels: the reader is blocked inside the ForEachItem
//        callback of a blocker request (peer 999999); n requests (each followed by a sentinel),
//        UnregisterPeer(peer) and a last sentinel are submitted; the hooks confirm that both
//        channels hold them; the reader is released and select chooses.  Which entries were
//        taken before the unregistration is read off the log by the driver.
//
// Determinism without sleeping:
//   - serial numbers: every NotifyRequestReceived call gets the next serial (0 = the sentinel
//     session opened first).  The Peer passed with request #s carries closures that know s, so a
//     response delivered through the SendChunk captured at session creation names its
//     incarnation; Request.Type = s mod 256 travels through ForEachItem into the payload, so a
//     response also names the request it serves.
//   - sentinel: after every request a selector-mismatch request of the sentinel peer "0" is
//     submitted; its Misbehaviour callback is called by the reader loop, so when it arrives
//     everything submitted before has been processed by the reader.  Then the harness waits for
//     VerifPendingResponsesSize() == 0 (every payload has TotalMemSize >= 1): all sent.
//   - hold mode: SendChunk blocks on a gate.  After a request the harness waits until the
//     sentinel is seen or the pending size has reached the limit (then the reader cannot add
//     anything until the gate opens) and records the pending size.
//   - UnregisterPeer is only issued when the reader is idle, and the next request only after
//     VerifPendingUnregisters() == 0, so the two input channels are never raced by select.
//
// Observation: q<pending> per request in hold mode; then X<serial>* (ErrTooManyChunks),
// M<serial>* (Misbehaviour), then per incarnation C<creator> R<tag>:<sid>:<done>:<k.k.k>*.

type c17Loc uint64

func (l c17Loc) Compare(b basestream.Locator) int {
	o := b.(c17Loc)
	if l < o {
		return -1
	}
	if l > o {
		return 1
	}
	return 0
}
func (l c17Loc) Inc() basestream.Locator { return l + 1 }

type c17Item struct {
	key, size uint64
	mem       int
}

type c17Payload struct {
	keys []uint64
	size uint64
	mem  int
	tag  int
}

func (p *c17Payload) Len() int          { return len(p.keys) }
func (p *c17Payload) TotalSize() uint64 { return p.size }
func (p *c17Payload) TotalMemSize() int { return p.mem }
func (p *c17Payload) add(it c17Item) {
	p.keys = append(p.keys, it.key)
	p.size += it.size
	p.mem += it.mem
}

type c17Resp struct {
	tag  int
	sid  uint32
	done bool
	keys []uint64
}

type c17World struct {
	mu       sync.Mutex
	cond     *sync.Cond
	held     bool
	serial   int
	tagTable [256]int
	incs     map[int][]c17Resp
	misb     []int
	toomany  []int
	pings    int
	sentResp int
	waiters  map[int]bool // tickets of the SendChunk calls blocked on the gate
	ticket   int
	allowed  int // ticket let through by flush (-1: none)
	passed   int // SendChunk calls completed
	items    []c17Item
	feCalls  int // ForEachItem calls = responses produced
	stopped  bool
	blockFE  bool
	entered  chan struct{}
	release  chan struct{}
	s        *basestreamseeder.BaseSeeder
	limit    int64
}

func c17Spin(what string, cond func() bool) {
	deadline := time.Now().Add(20 * time.Second)
	for i := 0; !cond(); i++ {
		if i < 200 {
			runtime.Gosched()
		} else {
			time.Sleep(30 * time.Microsecond)
			if i%1000 == 0 && time.Now().After(deadline) {
				panic("stuck:" + what)
			}
		}
	}
}

func (w *c17World) submit(peer string, sid uint32, start, stop uint64, num uint32, size uint64, chunks uint32, sentinel bool) {
	w.mu.Lock()
	serial := w.serial
	w.serial++
	w.tagTable[serial%256] = serial
	w.mu.Unlock()
	p := basestreamseeder.Peer{
		ID: peer,
		SendChunk: func(r basestream.Response) error {
			w.mu.Lock()
			if w.held {
				t := w.ticket
				w.ticket++
				w.waiters[t] = true
				for w.held && w.allowed != t {
					w.cond.Wait()
				}
				delete(w.waiters, t)
				if w.allowed == t {
					w.allowed = -1
				}
			}
			w.passed++
			if sentinel {
				w.sentResp++
			} else {
				pl := r.Payload.(*c17Payload)
				w.incs[serial] = append(w.incs[serial], c17Resp{pl.tag, r.SessionID, r.Done, pl.keys})
			}
			w.mu.Unlock()
			return nil
		},
		Misbehaviour: func(err error) {
			w.mu.Lock()
			if sentinel {
				w.pings++
			} else {
				if err != basestreamseeder.ErrSelectorMismatch {
					panic("unexpected misbehaviour")
				}
				w.misb = append(w.misb, serial)
			}
			w.mu.Unlock()
		},
	}
	err, peerErr := w.s.NotifyRequestReceived(p, basestream.Request{
		Session:        basestream.Session{ID: sid, Start: c17Loc(start), Stop: c17Loc(stop)},
		Type:           basestream.RequestType(serial % 256),
		MaxPayloadNum:  num,
		MaxPayloadSize: size,
		MaxChunks:      chunks,
	})
	if err != nil {
		panic("seeder terminated")
	}
	if peerErr != nil {
		if peerErr != basestreamseeder.ErrTooManyChunks {
			panic("unexpected peer error")
		}
		w.mu.Lock()
		w.toomany = append(w.toomany, serial)
		w.mu.Unlock()
		vu.Stat("toomany")
	}
}

func (w *c17World) pingsSeen() int {
	w.mu.Lock()
	defer w.mu.Unlock()
	return w.pings
}

// Extra case family: the REAL utils/workers pool with one worker (what every sender thread is),
//   W <cap> ; e <id> ; g ; d ; q
// e = Enqueue(task id) when it cannot block (TasksCount() < cap, or cap = 0 and the worker idle:
// the rendezvous of an unbuffered channel), otherwise "e-"; tasks block on a gate; g = let the
// running task return; d = Drain(); q (last) = close(quit), release everything, wait for the
// worker.  Observation: e+/e- s<id> (task started) f<id> (returned) d<n> n<TasksCount> and X<ids>
// for the tasks executed after quit (select chooses between quit and a queued task at random).
// Compared with the extracted WorkersFifo.wstep.
func c17RunPool(header []string, ops [][]string) []string {
	capN, _ := strconv.Atoi(header[1])
	quit := make(chan struct{})
	var wg sync.WaitGroup
	pool := workers.New(&wg, quit, capN)
	pool.Start(1)
	entered := make(chan int, 64)
	gate := make(chan struct{})
	finished := make(chan int, 64)
	var free int32
	var mu sync.Mutex
	task := func(id int) func() {
		return func() {
			entered <- id
			mu.Lock()
			f := free
			mu.Unlock()
			if f == 0 {
				<-gate
			}
			finished <- id
		}
	}
	var obs []string
	running := -1
	queued := 0
	waitStart := func() {
		id := <-entered
		running = id
		obs = append(obs, "s"+strconv.Itoa(id))
	}
	releaseAll := func() { // open the gate for whatever is or gets blocked on it until the worker is gone
		stop := make(chan struct{})
		go func() {
			for {
				select {
				case gate <- struct{}{}:
				case <-stop:
					return
				}
			}
		}()
		wg.Wait()
		close(stop)
	}
	quitDone := false
	for _, op := range ops {
		if len(op) == 0 || quitDone {
			continue
		}
		vu.Stat("pool_op_" + op[0])
		switch op[0] {
		case "e":
			id, _ := strconv.Atoi(op[1])
			room := pool.TasksCount() < capN || (capN == 0 && running < 0)
			if !room {
				obs = append(obs, "e-")
				vu.Stat("pool_enqueue_would_block")
			} else {
				if err := pool.Enqueue(task(id)); err != nil {
					panic("enqueue failed")
				}
				obs = append(obs, "e+")
				if running < 0 {
					waitStart()
				} else {
					queued++
				}
			}
		case "g":
			if running < 0 {
				obs = append(obs, "g-")
			} else {
				gate <- struct{}{}
				id := <-finished
				obs = append(obs, "f"+strconv.Itoa(id))
				running = -1
				if queued > 0 {
					queued--
					waitStart()
				}
			}
		case "d":
			obs = append(obs, "d"+strconv.Itoa(pool.TasksCount()))
			pool.Drain()
			queued = 0
		case "q":
			quitDone = true
			mu.Lock()
			free = 1
			mu.Unlock()
			close(quit)
			releaseAll()
			close(finished)
			var xs []string
			for id := range finished {
				xs = append(xs, strconv.Itoa(id))
			}
			obs = append(obs, "X"+strings.Join(xs, ","))
		default:
			panic("bad pool op")
		}
		obs = append(obs, "n"+strconv.Itoa(pool.TasksCount()))
	}
	if !quitDone { // every history ends with quit
		mu.Lock()
		free = 1
		mu.Unlock()
		close(quit)
		releaseAll()
		close(finished)
		var xs []string
		for id := range finished {
			xs = append(xs, strconv.Itoa(id))
		}
		obs = append(obs, "X"+strings.Join(xs, ","), "n"+strconv.Itoa(pool.TasksCount()))
	}
	return obs
}

func c17GenPool(r *rand.Rand, emit func(...string)) {
	in := []string{"W", strconv.Itoa(r.Intn(3))}
	n := 2 + r.Intn(12)
	id := 0
	for i := 0; i < n; i++ {
		switch x := r.Intn(10); {
		case x < 5:
			id++
			in = append(in, ";", "e", strconv.Itoa(id))
		case x < 8:
			in = append(in, ";", "g")
		case x < 9:
			in = append(in, ";", "d")
		default:
			in = append(in, ";", "q")
			emit(in...)
			return
		}
	}
	emit(in...)
}

func c17Run(input []string) []string {
	if len(input) > 0 && input[0] == "W" {
		h, o := c18Split(input)
		return c17RunPool(h, o)
	}
	header, ops := c18Split(input)
	if len(header) < 6 {
		panic("bad header")
	}
	atoi := func(s string) uint64 { n, _ := strconv.ParseUint(s, 10, 64); return n }
	maxTasks, memBase := 128, 1
	if f := strings.Split(header[0], ":"); len(f) > 1 {
		maxTasks = int(atoi(f[1]))
		if len(f) > 2 {
			memBase = int(atoi(f[2]))
		}
		header = append([]string{f[0]}, header[1:]...)
	}
	small := maxTasks < 128
	threads := int(atoi(header[0]))
	limit := int64(atoi(header[1]))
	nitems := int(atoi(header[5]))
	w := &c17World{incs: map[int][]c17Resp{}, limit: limit, waiters: map[int]bool{}, allowed: -1,
		entered: make(chan struct{}, 1), release: make(chan struct{})}
	w.cond = sync.NewCond(&w.mu)
	for i := 0; i < nitems; i++ {
		w.items = append(w.items, c17Item{atoi(header[6+3*i]), atoi(header[7+3*i]), int(atoi(header[8+3*i]))})
	}
	// well-formedness of the history (the shrinker may produce such cases): at most 6 requests
	// per hold period, so that the request channel (16) never fills while the reader is stuck
	{
		held, n := false, 0
		for _, op := range ops {
			if len(op) == 0 {
				continue
			}
			switch op[0] {
			case "h":
				if !held {
					held, n = true, 0
				}
			case "f", "z", "S":
				held, n = false, 0
			case "r":
				if held {
					n++
					if n > 6 {
						return []string{"BAD"}
					}
				}
			}
		}
	}
	w.s = basestreamseeder.New(basestreamseeder.Config{
		SenderThreads:           threads,
		MaxSenderTasks:          maxTasks,
		MaxPendingResponsesSize: limit,
		MaxResponsePayloadNum:   uint32(atoi(header[2])),
		MaxResponsePayloadSize:  atoi(header[3]),
		MaxResponseChunks:       uint32(atoi(header[4])),
	}, basestreamseeder.Callbacks{
		ForEachItem: func(start basestream.Locator, rType basestream.RequestType,
			onKey func(basestream.Locator) bool, onAppended func(basestream.Payload) bool) basestream.Payload {
			w.mu.Lock()
			tag := w.tagTable[int(rType)]
			block := w.blockFE
			w.blockFE = false
			w.mu.Unlock()
			if block { // the reader stops here, inside the callback, until the race is set up
				w.entered <- struct{}{}
				<-w.release
			}
			w.mu.Lock()
			w.feCalls++
			w.mu.Unlock()
			p := &c17Payload{mem: memBase, tag: tag}
			for _, it := range w.items {
				if it.key < uint64(start.(c17Loc)) {
					continue
				}
				if !onKey(c17Loc(it.key)) {
					break
				}
				p.add(it)
				if !onAppended(p) {
					break
				}
			}
			return p
		},
	})
	w.s.Start()
	defer func() {
		if !w.stopped {
			w.s.Stop()
		}
	}()
	defer func() { // never leave sender workers blocked on the gate
		w.mu.Lock()
		w.held = false
		w.cond.Broadcast()
		w.mu.Unlock()
	}()

	pending := func() int64 { return w.s.VerifPendingResponsesSize() }
	expectedPings := 0
	// quiescent: the reader has processed everything submitted (sentinels seen), every response
	// it produced has been handed to SendChunk and returned (counted: a payload may have
	// TotalMemSize 0), and the pending size is back to 0
	quiesce := func() {
		c17Spin("quiesce", func() bool {
			if w.pingsSeen() != expectedPings || pending() != 0 {
				return false
			}
			w.mu.Lock()
			defer w.mu.Unlock()
			return w.passed == w.feCalls
		})
	}
	// flush releases the blocked SendChunk calls one at a time, the most recent arrival first (so
	// that a response routed to another sender worker than its predecessors overtakes them; with
	// one FIFO per session the per-incarnation logs do not depend on the release order).
	flush := func() {
		for {
			for i := 0; i < 60; i++ { // let the workers reach the gate
				runtime.Gosched()
			}
			w.mu.Lock()
			if len(w.waiters) == 0 {
				w.held = false
				w.cond.Broadcast()
				w.mu.Unlock()
				break
			}
			max := -1
			for t := range w.waiters {
				if t > max {
					max = t
				}
			}
			w.allowed = max
			before := w.passed
			w.cond.Broadcast()
			w.mu.Unlock()
			c17Spin("release", func() bool {
				w.mu.Lock()
				defer w.mu.Unlock()
				return w.passed > before
			})
		}
		quiesce()
	}
	if limit <= 0 {
		// MaxPendingResponsesSize = 0: the reader never gets past its first wait.  Submit
		// everything without waiting, give it time, observe that nothing at all was called.
		vu.Stat("cfg_pending_limit_0")
		sc := uint32(1)
		if atoi(header[4]) == 0 {
			sc = 0
		}
		w.submit("0", 0, 0, 0, 1, 1, sc, true)
		var obs []string
		for _, op := range ops {
			if len(op) > 0 && op[0] == "r" && w.s.VerifPendingRequests() < 14 {
				w.submit(op[1], uint32(atoi(op[2])), atoi(op[3]), atoi(op[4]), uint32(atoi(op[5])), atoi(op[6]), uint32(atoi(op[7])), false)
				w.submit("0", 0, 1, 1, 1, 1, 0, true)
			}
		}
		time.Sleep(3 * time.Millisecond)
		w.mu.Lock()
		sort.Ints(w.toomany)
		for _, x := range w.toomany {
			obs = append(obs, "X"+strconv.Itoa(x))
		}
		if w.feCalls != 0 || w.pings != 0 || len(w.incs) != 0 || len(w.misb) != 0 {
			obs = append(obs, "CALLBACK-WITH-LIMIT-0")
		}
		w.mu.Unlock()
		return obs
	}
	// sentinel session (opened by a request for zero chunks when MaxResponseChunks = 0)
	if atoi(header[4]) == 0 {
		vu.Stat("cfg_sentinel_zero_chunks")
		w.submit("0", 0, 0, 0, 1, 1, 0, true)
	} else {
		w.submit("0", 0, 0, 0, 1, 1, 1, true)
		c17Spin("sentinel-open", func() bool {
			w.mu.Lock()
			defer w.mu.Unlock()
			return w.sentResp == 1
		})
	}
	quiesce()

	var obs []string
	stoppedEarly := false
	for _, op := range ops {
		if len(op) == 0 || stoppedEarly {
			continue
		}
		vu.Stat("op_" + op[0])
		switch op[0] {
		case "r":
			w.submit(op[1], uint32(atoi(op[2])), atoi(op[3]), atoi(op[4]), uint32(atoi(op[5])), atoi(op[6]), uint32(atoi(op[7])), false)
			w.submit("0", 0, 1, 1, 1, 1, 0, true)
			expectedPings++
			w.mu.Lock()
			held := w.held
			w.mu.Unlock()
			if held && small {
				// the reader may be blocked in Enqueue (task channel full), which cannot be
				// observed: wait a bounded time and sample the pending size for the bound only
				deadline := time.Now().Add(3 * time.Millisecond)
				c17Spin("held-small", func() bool {
					return w.pingsSeen() == expectedPings || pending() >= limit || time.Now().After(deadline)
				})
				obs = append(obs, "p"+strconv.FormatInt(pending(), 10))
				vu.Stat("held_small_maxtasks")
			} else if held {
				stuck := false
				c17Spin("held", func() bool {
					if w.pingsSeen() == expectedPings {
						return true
					}
					if pending() >= limit {
						stuck = true
						return true
					}
					return false
				})
				if stuck {
					vu.Stat("held_reader_blocked")
				}
				obs = append(obs, "q"+strconv.FormatInt(pending(), 10))
			} else {
				quiesce()
			}
		case "u":
			w.mu.Lock()
			held := w.held
			w.mu.Unlock()
			if held && !small && w.pingsSeen() == expectedPings {
				// reader idle: unregister while the responses stay blocked in the sender queues
				vu.Stat("unregister_while_held")
			} else {
				flush()
			}
			_ = w.s.UnregisterPeer(op[1])
			c17Spin("unregister", func() bool { return w.s.VerifPendingUnregisters() == 0 })
		case "z":
			flush()
			n := int(atoi(op[2]))
			w.mu.Lock()
			w.blockFE = true
			bs := w.serial
			w.mu.Unlock()
			w.submit("999999", uint32(bs), 0, 0, 1, 1, 1, true)
			<-w.entered
			for i := 0; i < n; i++ {
				a := op[3+7*i:]
				w.submit(a[0], uint32(atoi(a[1])), atoi(a[2]), atoi(a[3]), uint32(atoi(a[4])), atoi(a[5]), uint32(atoi(a[6])), false)
				w.submit("0", 0, 1, 1, 1, 1, 0, true)
				expectedPings++
			}
			_ = w.s.UnregisterPeer(op[1])
			w.submit("0", 0, 1, 1, 1, 1, 0, true)
			expectedPings++
			inflight := 0
			for i := 0; i < n; i++ { // requests refused with ErrTooManyChunks never enter the channel
				if uint32(atoi(op[3+7*i+6])) <= uint32(atoi(header[4])) {
					inflight++
				}
			}
			if w.s.VerifPendingRequests() != inflight+n+1 || w.s.VerifPendingUnregisters() != 1 {
				panic("race not set up")
			}
			vu.Stat("race_both_channels_in_flight")
			w.release <- struct{}{}
			quiesce()
			c17Spin("unregister", func() bool { return w.s.VerifPendingUnregisters() == 0 })
		case "S":
			// Stop() while responses are in flight (blocked on the gate or queued): Stop drains the
			// sender queues and waits for the workers, so the gate is opened after Stop has started
			vu.Stat("stop_with_responses_in_flight")
			stopped := make(chan struct{})
			w.stopped = true
			go func() { w.s.Stop(); close(stopped) }()
			time.Sleep(200 * time.Microsecond)
			w.mu.Lock()
			w.held = false
			w.cond.Broadcast()
			w.mu.Unlock()
			<-stopped
			obs = append(obs, "STOPPED")
			stoppedEarly = true
		case "h":
			w.mu.Lock()
			w.held = true
			w.mu.Unlock()
		case "f":
			flush()
		default:
			panic("bad op " + op[0])
		}
	}
	if !stoppedEarly {
		flush()
	}

	w.mu.Lock()
	defer w.mu.Unlock()
	sort.Ints(w.toomany)
	sort.Ints(w.misb)
	for _, s := range w.toomany {
		obs = append(obs, "X"+strconv.Itoa(s))
	}
	for _, s := range w.misb {
		obs = append(obs, "M"+strconv.Itoa(s))
		vu.Stat("misbehaviour")
	}
	creators := make([]int, 0, len(w.incs))
	for c := range w.incs {
		creators = append(creators, c)
	}
	sort.Ints(creators)
	for _, c := range creators {
		obs = append(obs, "C"+strconv.Itoa(c))
		tags := map[int]bool{}
		for _, r := range w.incs[c] {
			ks := make([]string, len(r.keys))
			for i, k := range r.keys {
				ks[i] = strconv.FormatUint(k, 10)
			}
			kk := strings.Join(ks, ".")
			if kk == "" {
				kk = "-"
			}
			obs = append(obs, fmt.Sprintf("R%d:%d:%s:%s", r.tag, r.sid, vu.B(r.done), kk))
			tags[r.tag] = true
			vu.Stat("response")
			if r.done {
				vu.Stat("response_done")
			}
		}
		vu.Stat("incarnation")
		if len(tags) > 1 {
			vu.Stat("incarnation_resumed")
		}
	}
	return obs
}

// ---------------- generator ----------------

type c17Sess struct{ start, stop uint64 }

func c17GenOne(r *rand.Rand, emit func(...string)) {
	// --- configuration sweep (every class is counted in the evidence) ---
	threads := 1 + r.Intn(3)
	if r.Intn(12) == 0 {
		threads = 8
	}
	vu.Stat(fmt.Sprintf("cfg_threads_%d", threads))
	limit := 1000
	small := false
	switch x := r.Intn(40); {
	case x < 10:
		small = true
		limit = 1 + r.Intn(12)
		if r.Intn(4) == 0 {
			limit = 1
		}
		vu.Stat("cfg_pending_limit_small")
	case x < 11:
		limit = 0 // the reader never gets past its first wait (the harness has a mode for it)
	case x < 14:
		limit = 1 << 40
		vu.Stat("cfg_pending_limit_huge")
	default:
		vu.Stat("cfg_pending_limit_default")
	}
	_ = small
	cfgNum, cfgSize, cfgChunks := 100, 1000, 4
	if r.Intn(5) == 0 {
		cfgNum = r.Intn(5) // 0: every response still carries one item
		vu.Stat(fmt.Sprintf("cfg_maxnum_%d", cfgNum))
	}
	if r.Intn(5) == 0 {
		cfgSize = r.Intn(9)
		if cfgSize <= 1 {
			vu.Stat(fmt.Sprintf("cfg_maxsize_%d", cfgSize))
		}
	}
	if r.Intn(5) == 0 {
		cfgChunks = r.Intn(4) // 0: every request asking for a chunk is refused
		vu.Stat(fmt.Sprintf("cfg_maxchunks_%d", cfgChunks))
	}
	nitems := r.Intn(13)
	thr := strconv.Itoa(threads)
	switch x := r.Intn(12); {
	case x < 2 && limit > 0:
		mt := r.Intn(3) // MaxSenderTasks 0, 1 or 2: Enqueue blocks
		thr += ":" + strconv.Itoa(mt)
		vu.Stat(fmt.Sprintf("cfg_maxsendertasks_%d", mt))
	case x < 4:
		thr += ":128:0" // payloads whose TotalMemSize() is 0 when they carry no item memory
		vu.Stat("cfg_payload_membase_0")
	}
	in := []string{thr, strconv.Itoa(limit), strconv.Itoa(cfgNum), strconv.Itoa(cfgSize), strconv.Itoa(cfgChunks), strconv.Itoa(nitems)}
	key := uint64(r.Intn(3))
	maxKey := key
	for i := 0; i < nitems; i++ {
		in = append(in, strconv.FormatUint(key, 10), strconv.Itoa(1+r.Intn(4)), strconv.Itoa(r.Intn(6)))
		maxKey = key
		key += uint64(1 + r.Intn(3))
	}
	npeers := 1 + r.Intn(3)
	nsids := 2 + r.Intn(4)
	known := map[string]c17Sess{}
	nops := 3 + r.Intn(22)
	held, heldReqs := false, 0
	if limit == 0 && nops > 5 {
		nops = 5 // nothing is ever taken out of the request channel (16 entries)
	}
	for i := 0; i < nops; i++ {
		x := r.Intn(100)
		if limit == 0 {
			x = x % 78 // requests only
		}
		switch {
		case x < 78:
			if held && heldReqs >= 6 {
				in = append(in, ";", "f")
				held = false
				continue
			}
			peer := 1 + r.Intn(npeers)
			sid := 1 + r.Intn(nsids)
			k := fmt.Sprintf("%d:%d", peer, sid)
			ss, ok := known[k]
			if !ok || r.Intn(12) == 0 {
				// (re)define the session's selector: a mismatch if the session is still alive
				ss.start = uint64(r.Intn(int(maxKey) + 2))
				ss.stop = ss.start + uint64(r.Intn(int(maxKey)+4))
				if r.Intn(6) == 0 {
					ss.stop = maxKey + 5
				}
				if ss.start == ss.stop {
					vu.Stat("session_start_eq_stop")
				}
				known[k] = ss
			}
			if len(known) > 3*npeers {
				vu.Stat("more_than_3_sessions_some_peer")
			}
			num := r.Intn(6)
			if r.Intn(4) == 0 {
				num = 50
			}
			size := r.Intn(9)
			if r.Intn(4) == 0 {
				size = 500
			}
			chunks := r.Intn(cfgChunks + 1)
			if r.Intn(15) == 0 {
				chunks = cfgChunks + 1 + r.Intn(2)
			}
			in = append(in, ";", "r", strconv.Itoa(peer), strconv.Itoa(sid), strconv.FormatUint(ss.start, 10),
				strconv.FormatUint(ss.stop, 10), strconv.Itoa(num), strconv.Itoa(size), strconv.Itoa(chunks))
			if held {
				heldReqs++
			}
		case x < 80 && r.Intn(3) == 0 && cfgChunks > 0 && limit > 0:
			// race: requests of the unregistering peer (and others) against its unregistration
			pu := 1 + r.Intn(npeers)
			n := r.Intn(4)
			in = append(in, ";", "z", strconv.Itoa(pu), strconv.Itoa(n))
			for j := 0; j < n; j++ {
				peer := pu
				if r.Intn(3) == 0 {
					peer = 1 + r.Intn(npeers)
				}
				sid := 1 + r.Intn(nsids)
				k := fmt.Sprintf("%d:%d", peer, sid)
				ss, ok := known[k]
				if !ok {
					ss.start = uint64(r.Intn(int(maxKey) + 2))
					ss.stop = ss.start + uint64(r.Intn(int(maxKey)+4))
					known[k] = ss
				}
				in = append(in, strconv.Itoa(peer), strconv.Itoa(sid), strconv.FormatUint(ss.start, 10),
					strconv.FormatUint(ss.stop, 10), strconv.Itoa(1+r.Intn(4)), strconv.Itoa(1+r.Intn(8)), strconv.Itoa(r.Intn(cfgChunks+1)))
			}
			held = false
		case x < 86:
			pu := 1 + r.Intn(npeers)
			if r.Intn(6) == 0 {
				pu = 9 // a peer the seeder has never seen
				vu.Stat("unregister_unknown_peer")
			}
			in = append(in, ";", "u", strconv.Itoa(pu))
		case x < 94:
			if !held {
				in = append(in, ";", "h")
				held, heldReqs = true, 0
			} else {
				in = append(in, ";", "f")
				held = false
			}
		default:
			in = append(in, ";", "f")
			held = false
		}
	}
	if nitems == 0 {
		vu.Stat("empty_item_set")
	}
	{
		sids := map[int]int{}
		for k := range known {
			var peer, sid int
			fmt.Sscanf(k, "%d:%d", &peer, &sid)
			sids[sid]++
		}
		for _, c := range sids {
			if c > 1 {
				vu.Stat("same_session_id_from_two_peers")
				break
			}
		}
	}
	if limit > 0 && r.Intn(12) == 0 && len(known) > 0 {
		// Stop() with responses in flight: hold, two more requests, stop
		if held {
			in = append(in, ";", "f")
		}
		in = append(in, ";", "h")
		keys := make([]string, 0, len(known))
		for k := range known {
			keys = append(keys, k)
		}
		sort.Strings(keys)
		for j := 0; j < 2; j++ {
			k := keys[r.Intn(len(keys))]
			ss := known[k]
			var peer, sid int
			fmt.Sscanf(k, "%d:%d", &peer, &sid)
			in = append(in, ";", "r", strconv.Itoa(peer), strconv.Itoa(sid), strconv.FormatUint(ss.start, 10),
				strconv.FormatUint(ss.stop, 10), "2", "500", strconv.Itoa(cfgChunks))
		}
		in = append(in, ";", "S")
	}
	emit(in...)
}

func c17Gen(r *rand.Rand, n int, tier string, emit func(...string)) {
	// the known failing histories of the pinned tree first
	emit(strings.Fields("2 1000 100 1000 4 6 0 1 1 1 1 1 2 1 1 3 1 1 4 1 1 5 1 1 ; r 1 1 0 9 1 100 1 ; r 1 2 0 9 1 100 1 ; r 1 3 0 9 1 100 1 ; r 1 3 0 9 1 100 1 ; r 1 1 0 9 2 100 1")...)
	emit(strings.Fields("2 1000 100 1000 4 6 0 1 1 1 1 1 2 1 1 3 1 1 4 1 1 5 1 1 ; r 1 1 0 9 1 100 0 ; r 1 1 0 9 1 100 1 ; r 1 2 0 9 1 100 1 ; r 1 3 0 9 1 100 1 ; r 1 1 0 9 1 100 1")...)
	for i := 0; i < n; i++ {
		c17GenOne(r, emit)
	}
	for i := 0; i < n/5; i++ {
		c17GenPool(r, emit)
	}
	if tier == "thorough" {
		// exhaustive small scope around the session table: one peer, session ids 1..4, requests
		// for 0 or 1 chunk (limit 2 items), every history of length <= 5
		header := strings.Fields("2 1000 100 1000 4 6 0 1 1 1 1 1 2 1 1 3 1 1 4 1 1 5 1 1")
		var syms [][]string
		for sid := 1; sid <= 4; sid++ {
			for _, ch := range []string{"0", "1"} {
				syms = append(syms, []string{"r", "1", strconv.Itoa(sid), "0", "9", "2", "100", ch})
			}
		}
		syms = append(syms, []string{"u", "1"})
		var rec func(prefix []string, depth int)
		rec = func(prefix []string, depth int) {
			if depth > 0 {
				emit(prefix...)
			}
			if depth == 5 {
				return
			}
			for _, sy := range syms {
				next := append(append(append([]string{}, prefix...), ";"), sy...)
				rec(next, depth+1)
			}
		}
		rec(header, 0)
	}
}

func init() {
	vu.Register("C17", &vu.Prop{Gen: c17Gen, Run: c17Run, Parallel: 8})
}
