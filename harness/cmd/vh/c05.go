package main

// C05 (forkless cause = graph definition), shared scenario machinery for C06 and C20.
//
// One case = one scenario on a REAL vecfc.Index (+ ancestor.QuorumIndexer on top of it through
// adapters.VectorToDagIndexer):
//   nv w_0..w_{nv-1} fcsize vcsize diffk mal ; op ; op ; ...
// ops / observations are described in coq/extract/C05/driver.ml.
// Event ids in the case file are small numbers; the index sees 32-byte ids (c05ID).

import (
	"crypto/sha256"
	"encoding/binary"
	"fmt"
	"math/rand"
	"sort"
	"strconv"
	"strings"

	"github.com/Fantom-foundation/lachesis-base/emitter/ancestor"
	"github.com/Fantom-foundation/lachesis-base/hash"
	"github.com/Fantom-foundation/lachesis-base/inter/dag"
	"github.com/Fantom-foundation/lachesis-base/inter/idx"
	"github.com/Fantom-foundation/lachesis-base/inter/pos"
	"github.com/Fantom-foundation/lachesis-base/kvdb"
	"github.com/Fantom-foundation/lachesis-base/kvdb/memorydb"
	"github.com/Fantom-foundation/lachesis-base/utils/adapters"
	"github.com/Fantom-foundation/lachesis-base/vecengine"
	"github.com/Fantom-foundation/lachesis-base/vecfc"

	"verifharness/vu"
)

// ---------------------------------------------------------------- events

type c05Ev struct {
	id, cr, seq int
	parents     []int
	fork        bool // generator only: this event opened a new branch of its creator
}

func c05ID(n int) hash.Event {
	var b [8]byte
	binary.BigEndian.PutUint64(b[:], uint64(n))
	h := sha256.Sum256(b[:])
	var id hash.Event
	copy(id[:], h[:])
	// keep a plausible epoch / lamport prefix (ids are opaque to the index)
	binary.BigEndian.PutUint32(id[0:4], 1)
	return id
}

func c05Build(ev c05Ev, vals *pos.Validators) dag.Event {
	me := &dag.MutableBaseEvent{}
	me.SetEpoch(1)
	me.SetSeq(idx.Event(ev.seq))
	me.SetCreator(vals.GetID(idx.Validator(ev.cr)))
	ps := make(hash.Events, len(ev.parents))
	for i, p := range ev.parents {
		ps[i] = c05ID(p)
	}
	me.SetParents(ps)
	id := c05ID(ev.id)
	me.SetLamport(idx.Lamport(binary.BigEndian.Uint32(id[4:8])))
	var tail [24]byte
	copy(tail[:], id[8:])
	me.SetID(tail)
	return &me.BaseEvent
}

// ---------------------------------------------------------------- diff-metric family (mirrors QuorumIdx.diff_family)

func c05Diff(k int) ancestor.DiffMetricFn {
	return func(median, current, update idx.Event, v idx.Validator) ancestor.Metric {
		m, c, u := uint64(median), uint64(current), uint64(update)
		min := func(a, b uint64) uint64 {
			if a < b {
				return a
			}
			return b
		}
		switch k {
		case 0:
			return 1
		case 1:
			if u <= c {
				return 0
			}
			return ancestor.Metric(min(u, m) - min(c, m))
		case 2:
			return ancestor.Metric(u<<61 + m<<40)
		case 3:
			return ancestor.Metric((u - c) * (uint64(v) + 1))
		default:
			if m < u {
				return ancestor.Metric(^uint64(0))
			}
			return ancestor.Metric(u)
		}
	}
}

// c05NewIndex builds the index under test.  custom = true: vecfc.NewIndexWithEngine over an externally
// constructed vecengine.Engine whose optional Callbacks.OnDropNotFlushed is nil (legitimate with the vector
// caches disabled: nothing to purge); otherwise the stock vecfc.NewIndex.
func c05NewIndex(crit func(error), custom bool, fcsize, vcsize int) *vecfc.Index {
	cfg := vecfc.IndexConfig{Caches: vecfc.IndexCacheConfig{
		ForklessCausePairs: fcsize, HighestBeforeSeqSize: uint(vcsize), LowestAfterSeqSize: uint(vcsize)}}
	if !custom {
		return vecfc.NewIndex(crit, cfg)
	}
	var fc *vecfc.Index
	engine := vecengine.NewIndex(crit, vecengine.Callbacks{
		GetHighestBefore: func(id hash.Event) vecengine.HighestBeforeI { return fc.GetHighestBefore(id) },
		GetLowestAfter:   func(id hash.Event) vecengine.LowestAfterI { return fc.GetLowestAfter(id) },
		SetHighestBefore: func(id hash.Event, b vecengine.HighestBeforeI) { fc.SetHighestBefore(id, b.(*vecfc.HighestBeforeSeq)) },
		SetLowestAfter:   func(id hash.Event, b vecengine.LowestAfterI) { fc.SetLowestAfter(id, b.(*vecfc.LowestAfterSeq)) },
		NewHighestBefore: func(size idx.Validator) vecengine.HighestBeforeI { return vecfc.NewHighestBeforeSeq(size) },
		NewLowestAfter:   func(size idx.Validator) vecengine.LowestAfterI { return vecfc.NewLowestAfterSeq(size) },
		OnDbReset:        func(db kvdb.Store) { fc.GetEngineCallbacks().OnDbReset(db) },
		// OnDropNotFlushed left nil
	})
	fc = vecfc.NewIndexWithEngine(crit, cfg, engine)
	return fc
}

// ---------------------------------------------------------------- running one scenario on the real code

func c05Atoi(s string) int { n, _ := strconv.Atoi(s); return n }

func c05Run(in []string) []string {
	// split on ";"
	var groups [][]string
	cur := []string{}
	for _, t := range in {
		if t == ";" {
			groups = append(groups, cur)
			cur = []string{}
		} else {
			cur = append(cur, t)
		}
	}
	groups = append(groups, cur)
	hd := groups[0]
	nv := c05Atoi(hd[0])
	if len(hd) != nv+5 {
		return []string{"BADHEADER"}
	}
	b := pos.NewBuilder()
	for i := 0; i < nv; i++ {
		w, _ := strconv.ParseUint(hd[1+i], 10, 32)
		b.Set(idx.ValidatorID(i+1), pos.Weight(w))
	}
	vals := b.Build()
	for i := 0; i < nv; i++ {
		if vals.GetIdx(idx.ValidatorID(i+1)) != idx.Validator(i) {
			return []string{"BADORDER"}
		}
	}
	fcsize, vcsize, diffk := c05Atoi(hd[nv+1]), c05Atoi(hd[nv+2]), c05Atoi(hd[nv+3])

	crits := 0
	crit := func(err error) { crits++ }
	custom := hd[nv+4] == "2" // engine built outside vecfc, OnDropNotFlushed == nil (caches must be 0)
	index := c05NewIndex(crit, custom, fcsize, vcsize)
	events := map[hash.Event]dag.Event{}
	num := map[hash.Event]int{}
	db := memorydb.New() // the persistent store: survives a restart of the index (op RI)
	getEvent := func(id hash.Event) dag.Event {
		if e, ok := events[id]; ok {
			return e
		}
		return nil
	}
	index.Reset(vals, db, getEvent)
	dagi := &adapters.VectorToDagIndexer{Index: index}
	qi := ancestor.NewQuorumIndexer(vals, dagi, c05Diff(diffk))

	var order []int
	flushedLen := 0
	dropPending := func() int { // DropNotFlushed: every event added since the last Flush is gone
		lost := len(order) - flushedLen
		for _, id := range order[flushedLen:] {
			delete(events, c05ID(id))
			delete(num, c05ID(id))
		}
		order = order[:flushedLen]
		index.DropNotFlushed()
		return lost
	}
	lastn := func(k int) []int {
		if k == 0 || k >= len(order) {
			return order
		}
		return order[len(order)-k:]
	}
	u32s := func(l []idx.Event) string {
		s := make([]string, len(l))
		for i, x := range l {
			s[i] = strconv.FormatUint(uint64(x), 10)
		}
		return strings.Join(s, ",")
	}
	obs := make([]string, 0, len(groups)-1)
	for _, op := range groups[1:] {
		if len(op) == 0 {
			obs = append(obs, "BAD")
			continue
		}
		c0 := crits
		out := "BAD"
		switch op[0] {
		case "F":
			index.Flush()
			flushedLen = len(order)
			vu.Stat("flush")
			out = "f"
		case "D":
			out = "d" + strconv.Itoa(dropPending())
			vu.Stat("drop")
		case "RI":
			// restart: a NEW vecfc.Index (fresh caches, possibly other capacities, BranchesInfo not loaded)
			// Reset over the SAME database, as abft.Bootstrap does; the old object and its unflushed
			// writes are abandoned
			lost := len(order) - flushedLen
			for _, id := range order[flushedLen:] {
				delete(events, c05ID(id))
				delete(num, c05ID(id))
			}
			order = order[:flushedLen]
			index = c05NewIndex(crit, custom, c05Atoi(op[1]), c05Atoi(op[2]))
			index.Reset(vals, db, getEvent)
			dagi.Index = index
			vu.Stat("restart_index")
			out = "r" + strconv.Itoa(lost)
		case "RS":
			// Reset of the EXISTING Index object (as abft does at an epoch switch / as an application reusing the
			// object): op[1] = 1: onto a new empty DB (all events forgotten), 0: onto the same DB (unflushed events
			// lost); op[2..] = the new weight table (same validator ids, still descending).  Index.Reset must
			// purge the ForklessCause, HighestBefore and LowestAfter caches itself.
			nv2 := len(op) - 2
			if nv2 < 1 || (op[1] != "1" && nv2 != nv) {
				break // another validator count only together with a new DB
			}
			b2 := pos.NewBuilder()
			for i := 0; i < nv2; i++ {
				w, _ := strconv.ParseUint(op[2+i], 10, 32)
				b2.Set(idx.ValidatorID(i+1), pos.Weight(w))
			}
			vals2 := b2.Build()
			okOrder := true
			for i := 0; i < nv2; i++ {
				if vals2.GetIdx(idx.ValidatorID(i+1)) != idx.Validator(i) {
					okOrder = false
				}
			}
			if !okOrder {
				out = "BADORDER"
				break
			}
			lost := len(order) - flushedLen
			if op[1] == "1" {
				lost = len(order)
				db = memorydb.New()
				flushedLen = 0
			}
			for _, id := range order[flushedLen:] {
				delete(events, c05ID(id))
				delete(num, c05ID(id))
			}
			order = order[:flushedLen]
			vals = vals2
			nv = nv2
			index.Reset(vals, db, getEvent)
			vu.Stat("reset_same_object")
			out = "s" + strconv.Itoa(lost)
		case "DB":
			// the bytes in the persistent store for the last k flushed events: tables S (HighestBefore),
			// s (LowestAfter), b (EventBranch); key = table prefix ++ 32-byte event id
			fl := order[:flushedLen]
			k := c05Atoi(op[1])
			if k > 0 && k < len(fl) {
				fl = fl[len(fl)-k:]
			}
			parts := make([]string, 0, len(fl))
			for _, id := range fl {
				hid := c05ID(id)
				get := func(prefix string) string {
					v, err := db.Get(append([]byte(prefix), hid.Bytes()...))
					if err != nil {
						return "ERR"
					}
					if v == nil {
						return "~"
					}
					return vu.Hex(v)
				}
				parts = append(parts, strconv.Itoa(id)+"="+get("S")+":"+get("s")+":"+get("b"))
			}
			vu.Stat("db_dump")
			// the BranchesInfo record (table "B", key "c"): RLP bytes as stored
			bi := "~"
			if v, err := db.Get([]byte("Bc")); err == nil && v != nil {
				bi = vu.Hex(v)
			}
			out = "b" + strings.Join(parts, "/") + "+B" + bi
		case "E", "A":
			if len(op) < 4 {
				break
			}
			ev := c05Ev{id: c05Atoi(op[1]), cr: c05Atoi(op[2]), seq: c05Atoi(op[3])}
			for _, p := range op[4:] {
				ev.parents = append(ev.parents, c05Atoi(p))
			}
			if ev.cr < 0 || ev.cr >= nv { // only after shrinking removed a Reset: no such validator, not submitted
				out = "es"
				break
			}
			e := c05Build(ev, vals)
			events[e.ID()] = e
			num[e.ID()] = ev.id
			// An un-indexed parent makes Engine.Add panic inside CollectFrom: the "parent not found"
			// check compares an interface holding a typed nil *HighestBeforeSeq with nil and never
			// fires.  The caller protocol after any failure is DropNotFlushed.
			res := func() (res string) {
				defer func() {
					if rec := recover(); rec != nil {
						res = "eP"
					}
				}()
				if err := index.Add(e); err != nil {
					return "e0"
				}
				return "e1"
			}()
			if res != "e1" {
				delete(events, e.ID())
				delete(num, e.ID())
				dropPending()
				vu.Stat("add_fail_" + res)
			} else {
				order = append(order, ev.id)
				if op[0] == "E" {
					index.Flush()
					flushedLen = len(order)
				}
				vu.Stat("add_ok")
			}
			out = res
			c0 = crits // crit on the error path is expected (GetEventBranchID of a missing parent)
		case "Q":
			r := lastn(c05Atoi(op[1]))
			type pr struct{ a, b int }
			var pairs []pr
			for _, a := range r {
				for _, bb := range r {
					pairs = append(pairs, pr{a, bb})
				}
			}
			run := func() string {
				res := map[pr]bool{}
				if op[2] == "1" {
					for i := len(pairs) - 1; i >= 0; i-- {
						res[pairs[i]] = index.ForklessCause(c05ID(pairs[i].a), c05ID(pairs[i].b))
					}
				} else {
					for _, p := range pairs {
						res[p] = index.ForklessCause(c05ID(p.a), c05ID(p.b))
					}
				}
				var sb strings.Builder
				for _, p := range pairs {
					if res[p] {
						sb.WriteByte('1')
						vu.Stat("fc_true")
					} else {
						sb.WriteByte('0')
						vu.Stat("fc_false")
					}
				}
				return sb.String()
			}
			b1 := run()
			b2 := run()
			out = "q" + b1 + "/" + b2
		case "QF":
			// ForklessCause(A, B) for A among the last k and B among the first m indexed events, twice
			ra := lastn(c05Atoi(op[1]))
			m := c05Atoi(op[2])
			rb := order
			if m < len(rb) {
				rb = rb[:m]
			}
			run := func() string {
				var sb strings.Builder
				for _, a := range ra {
					for _, bb := range rb {
						if index.ForklessCause(c05ID(a), c05ID(bb)) {
							sb.WriteByte('1')
							vu.Stat("fc_true")
						} else {
							sb.WriteByte('0')
							vu.Stat("fc_false")
						}
					}
				}
				return sb.String()
			}
			b1 := run()
			b2 := run()
			out = "q" + b1 + "/" + b2
		case "M":
			r := lastn(c05Atoi(op[1]))
			parts := make([]string, 0, len(r))
			for _, id := range r {
				d := index.GetMergedHighestBefore(c05ID(id))
				a := dagi.GetMergedHighestBefore(c05ID(id))
				ds := make([]string, nv)
				as := make([]string, nv)
				for v := 0; v < nv; v++ {
					x := d.Get(idx.Validator(v))
					if x.IsForkDetected() {
						ds[v] = "F"
						vu.Stat("merged_fork")
					} else {
						ds[v] = fmt.Sprintf("%d.%d", x.Seq, x.MinSeq)
						vu.Stat("merged_seq")
					}
					y := a.Get(idx.Validator(v))
					if y.IsForkDetected() {
						as[v] = "F"
					} else {
						as[v] = strconv.FormatUint(uint64(y.Seq()), 10)
					}
				}
				parts = append(parts, strconv.Itoa(id)+"="+strings.Join(ds, ",")+"~"+strings.Join(as, ","))
			}
			out = "m" + strings.Join(parts, "/")
		case "V":
			r := lastn(c05Atoi(op[1]))
			parts := make([]string, 0, len(r))
			for _, id := range r {
				h := index.GetHighestBefore(c05ID(id))
				l := index.GetLowestAfter(c05ID(id))
				hs := make([]string, h.Size())
				for i := range hs {
					x := h.Get(idx.Validator(i))
					if x.IsForkDetected() {
						hs[i] = "F"
					} else {
						hs[i] = fmt.Sprintf("%d.%d", x.Seq, x.MinSeq)
					}
				}
				ls := make([]string, int(l.Size()))
				for i := range ls {
					ls[i] = strconv.FormatUint(uint64(l.Get(idx.Validator(i))), 10)
				}
				parts = append(parts, fmt.Sprintf("%d=b%d:h%s:l%s", id, index.GetEventBranchID(c05ID(id)),
					strings.Join(hs, ","), strings.Join(ls, ",")))
			}
			index.InitBranchesInfo()
			bi := index.BranchesInfo()
			cs := make([]string, len(bi.BranchIDCreatorIdxs))
			for i, c := range bi.BranchIDCreatorIdxs {
				cs[i] = strconv.Itoa(int(c))
			}
			by := make([]string, len(bi.BranchIDByCreators))
			for i, l := range bi.BranchIDByCreators {
				x := make([]string, len(l))
				for j, bb := range l {
					x[j] = strconv.Itoa(int(bb))
				}
				by[i] = strings.Join(x, ".")
			}
			if len(bi.BranchIDCreatorIdxs) > nv {
				vu.Stat("fork_seen")
			}
			out = "v" + strings.Join(parts, "/") + "+bi" + u32s(bi.BranchIDLastSeq) + ":" + strings.Join(cs, ",") + ":" + strings.Join(by, ",")
		case "P":
			e, ok := events[c05ID(c05Atoi(op[1]))]
			if !ok {
				out = "ps"
				break
			}
			qi.ProcessEvent(e, op[2] == "1")
			vu.Stat("qi_process")
			out = "p1"
		case "PX":
			e, ok := events[c05ID(c05Atoi(op[1]))]
			if !ok {
				out = "ps"
				break
			}
			// same id (same merged clock), creator outside the validator set: GetIdx returns 0
			me := &dag.MutableBaseEvent{}
			me.SetEpoch(e.Epoch())
			me.SetSeq(e.Seq())
			me.SetCreator(idx.ValidatorID(1000000))
			me.SetParents(e.Parents())
			me.SetLamport(e.Lamport())
			var tail [24]byte
			id := e.ID()
			copy(tail[:], id[8:])
			me.SetID(tail)
			if me.ID() != e.ID() {
				out = "BADID"
				break
			}
			qi.ProcessEvent(&me.BaseEvent, op[2] == "1")
			vu.Stat("qi_process_nonvalidator")
			out = "p1"
		case "G":
			meds := qi.GetGlobalMedianSeqs()
			m := qi.GetGlobalMatrix()
			rows := make([]string, nv)
			for v := 0; v < nv; v++ {
				row := m.Row(idx.Validator(v))
				x := make([]string, len(row))
				for j, s := range row {
					x[j] = strconv.FormatUint(uint64(s), 10)
					if uint64(s) == 2147483646 {
						vu.Stat("qi_fork_obs")
					}
				}
				rows[v] = strings.Join(x, ".")
			}
			vu.Stat("qi_medians")
			out = "g" + u32s(meds) + ":" + strings.Join(rows, ",") + ":" + u32s(qi.GetSelfParentSeqs())
		case "T":
			id := c05ID(c05Atoi(op[1]))
			if _, ok := events[id]; !ok {
				out = "ts"
				break
			}
			vu.Stat("qi_metric")
			out = "t" + strconv.FormatUint(uint64(qi.GetMetricOf(id)), 10)
		}
		if crits != c0 {
			out += "!crit"
		}
		obs = append(obs, out)
	}
	return obs
}

// ---------------------------------------------------------------- DAG generator

type c05Dag struct {
	nv       int
	ws       []uint32
	cheaters map[int]bool
	evs      []c05Ev       // creation order (parents first)
	byCr     [][]int       // validator -> indices into evs
	tips     [][]int       // validator -> indices of branch tips
	hasChild map[int]bool  // index -> has a self-child
}

func c05Weights(r *rand.Rand, nv int) []uint32 {
	ws := make([]uint32, nv)
	switch r.Intn(6) {
	case 0: // equal
		for i := range ws {
			ws[i] = 1
		}
	case 1: // one validator with >= 1/3
		for i := range ws {
			ws[i] = uint32(1 + r.Intn(3))
		}
		s := uint32(0)
		for _, w := range ws[1:] {
			s += w
		}
		ws[0] = s/2 + uint32(r.Intn(3))
		if ws[0] == 0 {
			ws[0] = 1
		}
	case 2: // one just under 1/3
		for i := range ws {
			ws[i] = uint32(3 + r.Intn(4))
		}
	case 3: // huge: total close to MaxUint32/2
		each := uint32((1<<31 - 1) / uint32(nv))
		for i := range ws {
			ws[i] = each - uint32(r.Intn(5))
		}
	case 4: // many tiny + one big
		for i := range ws {
			ws[i] = 1
		}
		ws[0] = uint32(nv)
	default:
		for i := range ws {
			ws[i] = uint32(1 + r.Intn(20))
		}
	}
	sort.Slice(ws, func(i, j int) bool { return ws[i] > ws[j] })
	return ws
}

func c05GenDag(r *rand.Rand, nv, nev, ncheat int, forkP float64) *c05Dag {
	d := &c05Dag{nv: nv, ws: c05Weights(r, nv), cheaters: map[int]bool{}, byCr: make([][]int, nv), tips: make([][]int, nv), hasChild: map[int]bool{}}
	for len(d.cheaters) < ncheat && len(d.cheaters) < nv {
		d.cheaters[r.Intn(nv)] = true
	}
	lag := make([]float64, nv) // creation frequency
	for i := range lag {
		lag[i] = 1
		if r.Intn(4) == 0 {
			lag[i] = 0.3
		}
	}
	pPar := 0.3 + 0.6*r.Float64()
	for len(d.evs) < nev {
		c := r.Intn(nv)
		if r.Float64() > lag[c] && !d.cheaters[c] {
			continue
		}
		sp := -1 // index of the self-parent, -1 = none (seq 1)
		forked := false
		if d.cheaters[c] && len(d.byCr[c]) > 0 && r.Float64() < forkP {
			// new branch: from any own event (sibling fork / fork of a fork), or a second "first" event
			if r.Intn(5) == 0 {
				sp = -1
			} else {
				sp = d.byCr[c][r.Intn(len(d.byCr[c]))]
			}
			forked = sp == -1 || d.hasChild[sp]
		} else if len(d.tips[c]) > 0 {
			sp = d.tips[c][r.Intn(len(d.tips[c]))]
		}
		ev := c05Ev{id: len(d.evs) + 1, cr: c, seq: 1, fork: forked && len(d.byCr[c]) > 0}
		if sp >= 0 {
			ev.seq = d.evs[sp].seq + 1
			ev.parents = append(ev.parents, d.evs[sp].id)
		}
		var others []int
		for v := 0; v < nv; v++ {
			if v == c || len(d.byCr[v]) == 0 || r.Float64() > pPar {
				continue
			}
			pick := func() int {
				if r.Intn(6) == 0 { // an older event
					return d.byCr[v][r.Intn(len(d.byCr[v]))]
				}
				return d.tips[v][r.Intn(len(d.tips[v]))]
			}
			p := pick()
			others = append(others, d.evs[p].id)
			if len(d.tips[v]) > 1 && r.Intn(4) == 0 { // two branches of a cheater as direct parents
				p2 := pick()
				if p2 != p {
					others = append(others, d.evs[p2].id)
				}
			}
		}
		if d.cheaters[c] && len(d.tips[c]) > 1 && r.Intn(6) == 0 && sp >= 0 { // cheater references another own branch
			p := d.tips[c][r.Intn(len(d.tips[c]))]
			if p != sp {
				others = append(others, d.evs[p].id)
			}
		}
		r.Shuffle(len(others), func(i, j int) { others[i], others[j] = others[j], others[i] })
		ev.parents = append(ev.parents, others...)
		if ev.seq > 1 && sp < 0 {
			continue
		}
		if ev.seq == 1 && len(ev.parents) > 0 {
			// seq 1 with parents: SelfParent() is nil because seq <= 1; fine
		}
		i := len(d.evs)
		d.evs = append(d.evs, ev)
		d.byCr[c] = append(d.byCr[c], i)
		if sp >= 0 {
			d.hasChild[sp] = true
			// replace the tip if sp was one
			repl := false
			for k, t := range d.tips[c] {
				if t == sp {
					d.tips[c][k] = i
					repl = true
					break
				}
			}
			if !repl {
				d.tips[c] = append(d.tips[c], i)
			}
		} else {
			d.tips[c] = append(d.tips[c], i)
		}
		if forked {
			vu.Stat("gen_fork")
		}
	}
	return d
}

// a random parents-first order of the DAG (mode 0: creation order, 1: random topological,
// 2: adversarial: one validator's events as late as possible)
func c05Order(r *rand.Rand, d *c05Dag, mode int) []c05Ev {
	if mode == 0 {
		return d.evs
	}
	done := map[int]bool{}
	var out []c05Ev
	late := r.Intn(d.nv)
	for len(out) < len(d.evs) {
		var ready []int
		for i, e := range d.evs {
			if done[e.id] {
				continue
			}
			ok := true
			for _, p := range e.parents {
				if !done[p] {
					ok = false
					break
				}
			}
			if ok {
				ready = append(ready, i)
			}
		}
		pick := ready[r.Intn(len(ready))]
		if mode == 2 {
			var pref []int
			for _, i := range ready {
				if d.evs[i].cr != late {
					pref = append(pref, i)
				}
			}
			if len(pref) > 0 {
				pick = pref[r.Intn(len(pref))]
			}
		}
		done[d.evs[pick].id] = true
		out = append(out, d.evs[pick])
	}
	return out
}

// all parents-first orders of a (small) DAG, up to limit
func c05AllOrders(d *c05Dag, limit int) [][]c05Ev {
	var res [][]c05Ev
	done := map[int]bool{}
	var cur []c05Ev
	var rec func()
	rec = func() {
		if len(res) >= limit {
			return
		}
		if len(cur) == len(d.evs) {
			res = append(res, append([]c05Ev{}, cur...))
			return
		}
		for _, e := range d.evs {
			if done[e.id] {
				continue
			}
			ok := true
			for _, p := range e.parents {
				if !done[p] {
					ok = false
					break
				}
			}
			if !ok {
				continue
			}
			done[e.id] = true
			cur = append(cur, e)
			rec()
			cur = cur[:len(cur)-1]
			done[e.id] = false
		}
	}
	rec()
	return res
}

func c05Header(d *c05Dag, fcsize, vcsize, diffk, mal int) []string {
	h := []string{strconv.Itoa(d.nv)}
	for _, w := range d.ws {
		h = append(h, strconv.FormatUint(uint64(w), 10))
	}
	return append(h, strconv.Itoa(fcsize), strconv.Itoa(vcsize), strconv.Itoa(diffk), strconv.Itoa(mal))
}

func c05EvOp(e c05Ev) []string {
	op := []string{";", "E", strconv.Itoa(e.id), strconv.Itoa(e.cr), strconv.Itoa(e.seq)}
	for _, p := range e.parents {
		op = append(op, strconv.Itoa(p))
	}
	return op
}

func c05PickDag(r *rand.Rand, tier string, i int) *c05Dag {
	nv := []int{1, 2, 3, 4, 4, 5, 5, 6, 7}[r.Intn(9)]
	nev := 15 + r.Intn(30)
	if tier == "thorough" {
		nev = 20 + r.Intn(60)
	}
	ncheat := []int{0, 1, 1, 2, 2, 3}[r.Intn(6)]
	if i%7 == 0 {
		ncheat = 0
	}
	return c05GenDag(r, nv, nev, ncheat, 0.2+0.5*r.Float64())
}

// c05Malform corrupts a few events of a parents-first order so that the stream leaves wf_stream
// (the index itself validates nothing): seq gaps, a foreign first parent as "self-parent", seq 1
// with parents kept, creator changed.  Used with mal=1: implementation vs model only.
func c05Malform(r *rand.Rand, d *c05Dag, order []c05Ev) []c05Ev {
	out := make([]c05Ev, len(order))
	copy(out, order)
	k := 1 + r.Intn(3)
	for ; k > 0; k-- {
		i := r.Intn(len(out))
		e := out[i]
		e.parents = append([]int{}, e.parents...)
		switch r.Intn(4) {
		case 0:
			e.seq += 1 + r.Intn(3)
			vu.Stat("mal_seq_gap")
		case 1:
			if len(e.parents) >= 2 {
				e.parents[0], e.parents[1] = e.parents[1], e.parents[0]
				vu.Stat("mal_foreign_selfparent")
			}
		case 2:
			// seq 1 with the parents kept: SelfParent() becomes nil.  Well formed (inside wf_stream) when
			// the event has no self-child; the driver keeps the specification on in that case.
			hasChild := false
			for _, x := range out {
				if x.seq > 1 && len(x.parents) > 0 && x.parents[0] == e.id {
					hasChild = true
				}
			}
			e.seq = 1
			if hasChild {
				vu.Stat("mal_seq1_with_parents")
			} else {
				vu.Stat("seq1_with_parents_in_domain")
			}
		default:
			e.cr = r.Intn(d.nv)
			vu.Stat("mal_creator")
		}
		out[i] = e
	}
	return out
}

// c05ManyBranches: size class "many-branches": 2-4 validators, one cheater that is NOT the last validator in
// index order creates 65-140 sibling fork events on one self-parent (cheap events: only the self-parent), i.e.
// as many global branches, within ONE in-memory run of Adds (no DropNotFlushed / Reset / restart, which would
// reload BranchesInfo from its RLP record).  The per-creator branch list crosses every Go slice growth boundary
// (1, 2, 4, ..., 64, 128).  Honest validators keep observing some of the siblings; merged clocks of recent events
// are read all along, of ALL events at the end, ForklessCause among recent events.
func c05ManyBranches(r *rand.Rand) []string {
	nv := 2 + r.Intn(3)
	cheater := r.Intn(2)
	if cheater >= nv-1 {
		cheater = 0
	}
	d := &c05Dag{nv: nv, ws: c05Weights(r, nv)}
	in := c05Header(d, c05FcSizes[r.Intn(len(c05FcSizes))], c05VcSizes[r.Intn(len(c05VcSizes))], 0, 0)
	id := 0
	last := make([]int, nv) // last event id per validator (0 = none); for the cheater: its seq-1 event
	seq := make([]int, nv)
	add := func(cr int, parents []int, s int) int {
		id++
		in = append(in, c05EvOp(c05Ev{id: id, cr: cr, seq: s, parents: parents})...)
		return id
	}
	for v := 0; v < nv; v++ { // first events; the honest ones see the cheater's first event
		var ps []int
		if v != cheater && last[cheater] != 0 {
			ps = []int{last[cheater]}
		}
		last[v] = add(v, ps, 1)
		seq[v] = 1
		if v == cheater {
			// make sure the cheater's first event exists before the others reference it
		}
	}
	base := last[cheater]
	k := 65 + r.Intn(76)
	var sibs []int
	for j := 0; j < k; j++ {
		sibs = append(sibs, add(cheater, []int{base}, 2))
		if j%7 == 6 || j == 63 || j == 64 || j == 127 || j == 128 {
			// an honest validator (preferably the cheater's index neighbour) observes one or two siblings
			h := cheater + 1
			if r.Intn(3) == 0 {
				h = r.Intn(nv)
				if h == cheater {
					h = cheater + 1
				}
			}
			ps := []int{last[h], sibs[len(sibs)-1]}
			if r.Intn(2) == 0 && len(sibs) > 1 {
				ps = append(ps, sibs[r.Intn(len(sibs)-1)])
			}
			if r.Intn(3) == 0 {
				o := r.Intn(nv)
				if o != h && o != cheater {
					ps = append(ps, last[o])
				}
			}
			seq[h]++
			last[h] = add(h, ps, seq[h])
			in = append(in, ";", "M", "2")
			if j%14 == 13 {
				in = append(in, ";", "Q", "6", strconv.Itoa(r.Intn(2)))
			}
		}
	}
	in = append(in, ";", "Q", "10", "0", ";", "M", "0", ";", "V", "2")
	vu.Stat("scenario_many_branches")
	vu.StatN("many_branches_siblings", k)
	return in
}

// c05BigDropped: size class "big-dropped-event".  5 validators, weights 5,1,1,1,1 (quorum 7): validator 0 (heavy)
// is silent, validators 1..3 build a long round-robin DAG of N events (2 parents each), validator 4 joins late.
// Then ONE speculative event of validator 0 on top of everything is added WITHOUT Flush - its LowestAfter DFS marks all
// N ancestors - and dropped; validator 0's REAL first event has no parents; validator 4's first event sees it and a
// few of the oldest events.  ForklessCause(that event, old events) must be false (validators 1..4 weigh 4 < 7); a
// LowestAfter mark of the dropped event surviving in a cache makes validator 0 a phantom observer.  Cache sizes are
// vecfc.DefaultConfig's or larger than the DAG, so nothing is evicted.  N varies around 1024 and up to ~1300.
func c05BigDropped(r *rand.Rand) []string {
	d := &c05Dag{nv: 5, ws: []uint32{5, 1, 1, 1, 1}}
	fc, vc := 20000, 160*1024 // vecfc.DefaultConfig(cachescale.Identity)
	if r.Intn(2) == 0 {
		fc, vc = 50000, 4000000
	}
	in := c05Header(d, fc, vc, 0, 0)
	n := []int{1019, 1022, 1023, 1024, 1025, 1026, 1030, 1100, 1200, 1300}[r.Intn(10)]
	if r.Intn(3) == 0 {
		n = 1100 + r.Intn(200)
	}
	lastOf := map[int]int{}
	seqOf := map[int]int{}
	for id := 1; id <= n; id++ {
		cr := 1 + (id-1)%3
		var ps []int
		if lastOf[cr] != 0 {
			ps = append(ps, lastOf[cr])
		}
		if id > 1 {
			ps = append(ps, id-1)
		}
		seqOf[cr]++
		in = append(in, c05EvOp(c05Ev{id: id, cr: cr, seq: seqOf[cr], parents: ps})...)
		lastOf[cr] = id
	}
	// the speculative event of the silent validator observes everything; temporary id; dropped
	x := c05EvOp(c05Ev{id: 100000, cr: 0, seq: 1, parents: []int{n, n - 1, n - 2}})
	x[1] = "A"
	in = append(in, x...)
	in = append(in, ";", "D")
	// its real first event observes nothing; the late joiner sees it and the oldest events
	in = append(in, c05EvOp(c05Ev{id: n + 1, cr: 0, seq: 1})...)
	old := 3 + r.Intn(6)
	in = append(in, c05EvOp(c05Ev{id: n + 2, cr: 4, seq: 1, parents: []int{n + 1, old}})...)
	in = append(in, ";", "QF", "1", strconv.Itoa(old+2), ";", "M", "1")
	vu.Stat("scenario_big_dropped_event")
	return in
}

// c05TwoEpochs: ONE Index object used for two consecutive epochs the way abft uses it: every event is
// Add+Flush followed by a (no-op) DropNotFlushed, at the epoch switch the index is Reset onto a NEW empty DB with
// ANOTHER validator set (more or fewer validators), then a second DAG (own cheaters, event ids overlapping with
// the first epoch) is indexed.  Merged clocks and forkless cause are read throughout.
func c05TwoEpochs(r *rand.Rand, tier string) []string {
	d1 := c05PickDag(r, tier, 1)
	nv2 := d1.nv + 1 + r.Intn(3)
	if r.Intn(3) == 0 && d1.nv > 1 {
		nv2 = 1 + r.Intn(d1.nv-1)
	}
	d2 := c05GenDag(r, nv2, 12+r.Intn(20), 1+r.Intn(2), 0.2+0.4*r.Float64())
	in := c05Header(d1, c05FcSizes[r.Intn(len(c05FcSizes))], c05VcSizes[r.Intn(len(c05VcSizes))], 0, 0)
	k := strconv.Itoa(5 + r.Intn(6))
	phase := func(d *c05Dag) {
		for j, e := range d.evs {
			in = append(in, c05EvOp(e)...)
			if r.Intn(10) < 7 {
				in = append(in, ";", "D") // abft: deferred DropNotFlushed after the Flush of an accepted event
			}
			in = append(in, ";", "Q", k, strconv.Itoa(r.Intn(2)))
			if j%4 == 3 {
				in = append(in, ";", "M", "2")
			}
		}
		in = append(in, ";", "Q", "0", "0", ";", "M", "0", ";", "V", "0")
	}
	phase(d1)
	in = append(in, ";", "RS", "1")
	for _, w := range d2.ws {
		in = append(in, strconv.FormatUint(uint64(w), 10))
	}
	phase(d2)
	vu.Stat("scenario_two_epochs")
	if nv2 > d1.nv {
		vu.Stat("epoch_switch_more_validators")
	} else {
		vu.Stat("epoch_switch_fewer_validators")
	}
	return in
}

// c05Speculative: Add WITHOUT Flush of a speculative version of an event (all its parents), DropNotFlushed, then
// the real event with the same creator / seq (its own id) and FEWER parents is added and flushed (abft: Build or a
// rejected Process followed by the creator's real event).  custom = the index is built with
// vecfc.NewIndexWithEngine and a nil OnDropNotFlushed callback (vector caches 0).
func c05Speculative(r *rand.Rand, tier string, custom bool) []string {
	d := c05PickDag(r, tier, 1)
	order := c05Order(r, d, r.Intn(3))
	fc, vc, mal := c05FcSizes[r.Intn(len(c05FcSizes))], c05VcSizes[r.Intn(len(c05VcSizes))], 0
	if custom {
		fc, vc, mal = 0, 0, 2
	}
	in := c05Header(d, fc, vc, 0, mal)
	k := strconv.Itoa(6 + r.Intn(6))
	for j, e := range order {
		if e.seq > 1 && len(e.parents) > 1 && r.Intn(3) == 0 {
			// the speculative event has its own (temporary) id, as abft.Build assigns one: the ForklessCause LRU
			// is not purged by DropNotFlushed, so an id must never be reused for another event
			x := e
			x.id = 100000 + e.id
			op := c05EvOp(x)
			op[1] = "A"
			in = append(in, op...)
			in = append(in, ";", "Q", k, "0", ";", "D")
			e.parents = e.parents[:1+r.Intn(len(e.parents)-1)]
			vu.Stat("speculative_then_real")
		}
		in = append(in, c05EvOp(e)...)
		in = append(in, ";", "Q", k, strconv.Itoa(r.Intn(2)))
		if j%6 == 5 {
			in = append(in, ";", "V", "3", ";", "M", "3")
		}
	}
	in = append(in, ";", "Q", "0", "0", ";", "V", "0", ";", "M", "0", ";", "DB", "3")
	if custom {
		vu.Stat("scenario_custom_engine")
	} else {
		vu.Stat("scenario_speculative")
	}
	return in
}

var c05FcSizes = []int{0, 1, 200, 200, 7}
var c05VcSizes = []int{0, 1, 64, 1638, 1638}

func init() {
	vu.Register("C05", &vu.Prop{
		Gen: func(r *rand.Rand, n int, tier string, emit func(...string)) {
			if tier == "thorough" {
				// small scope: EVERY parents-first order of small fork DAGs, all pairs after every Add
				for k := 0; k < 12; k++ {
					nv := 2 + r.Intn(3)
					d := c05GenDag(r, nv, 5+r.Intn(3), 1+r.Intn(2), 0.5)
					for _, order := range c05AllOrders(d, 400) {
						in := c05Header(d, c05FcSizes[r.Intn(len(c05FcSizes))], c05VcSizes[r.Intn(len(c05VcSizes))], 0, 0)
						for _, e := range order {
							in = append(in, c05EvOp(e)...)
							in = append(in, ";", "Q", "0", "0", ";", "M", "0")
						}
						in = append(in, ";", "V", "0")
						emit(in...)
						vu.Stat("small_scope_order")
					}
				}
			}
			nextMany := 7
			nextBig := 11
			for i := 0; i < n; {
				if i >= nextBig { // size class big-dropped-event: 2 per quick run
					emit(c05BigDropped(r)...)
					i++
					nextBig += 30
					continue
				}
				if i >= nextMany { // size class many-branches (65-140 branches of one cheater): 2 per quick run
					emit(c05ManyBranches(r)...)
					i++
					nextMany += 30
					if tier == "thorough" {
						nextMany -= 18
					}
					continue
				}
				switch r.Intn(10) {
				case 0:
					emit(c05TwoEpochs(r, tier)...)
					i++
					continue
				case 1:
					emit(c05Speculative(r, tier, r.Intn(2) == 0)...)
					i++
					continue
				}
				d := c05PickDag(r, tier, i)
				for mode := 0; mode < 3 && i < n; mode++ {
					order := c05Order(r, d, mode)
					mal := 0
					if r.Intn(8) == 0 {
						mal = 1
						order = c05Malform(r, d, order)
					}
					in := c05Header(d, c05FcSizes[r.Intn(len(c05FcSizes))], c05VcSizes[r.Intn(len(c05VcSizes))], 0, mal)
					k := 6 + r.Intn(7)
					if mal == 0 && r.Intn(6) == 0 {
						// REUSE of the same Index object: index a prefix (the tail unflushed), query, Reset (same DB with
						// another weight table, or a new DB), re-add with the same ids - one lost unflushed event is
						// REPLACED by a variant with the same id/creator/seq but fewer parents - and query again
						cut := len(order) * (40 + r.Intn(40)) / 100
						if cut < 2 {
							cut = 2
						}
						tail := 1 + r.Intn(4)
						if tail > cut-1 {
							tail = cut - 1
						}
						for j := 0; j < cut; j++ {
							op := c05EvOp(order[j])
							if j >= cut-tail {
								op[1] = "A"
							}
							in = append(in, op...)
						}
						in = append(in, ";", "Q", "0", "0")
						if r.Intn(4) == 0 {
							in = append(in, ";", "D")
						}
						fresh := r.Intn(3) == 0
						rs := func() {
							w2 := c05Weights(r, d.nv)
							in = append(in, ";", "RS", vu.B(fresh))
							for _, w := range w2 {
								in = append(in, strconv.FormatUint(uint64(w), 10))
							}
						}
						rs()
						if r.Intn(4) == 0 {
							rs() // two Resets in a row
						}
						in = append(in, ";", "Q", "0", "0", ";", "M", "0")
						from := cut - tail
						if fresh {
							from = 0
						}
						variant := cut - tail + r.Intn(tail)
						for j := from; j < len(order); j++ {
							e := order[j]
							if j == variant && e.seq > 1 && len(e.parents) > 1 {
								e.parents = e.parents[:1+r.Intn(len(e.parents)-1)] // same id, creator, seq; fewer parents
								vu.Stat("replaced_event_variant")
							}
							in = append(in, c05EvOp(e)...)
							if j < cut+3 || j%5 == 0 {
								in = append(in, ";", "Q", "0", strconv.Itoa(r.Intn(2)))
							}
						}
						in = append(in, ";", "Q", "0", "0", ";", "V", "0", ";", "M", "0", ";", "DB", "3")
						emit(in...)
						i++
						vu.Stat("scenario_reset_reuse")
						continue
					}
					if mal == 0 && r.Intn(5) == 0 {
						// Flush / DropNotFlushed style: Adds without Flush, explicit F, and D followed by
						// re-adding the dropped events (as a caller retrying after a failure would)
						pendingFrom := 0
						for j := 0; j < len(order); j++ {
							op := c05EvOp(order[j])
							op[1] = "A"
							in = append(in, op...)
							in = append(in, ";", "Q", strconv.Itoa(k), strconv.Itoa(r.Intn(2)))
							switch r.Intn(6) {
							case 0, 1:
								in = append(in, ";", "F")
								pendingFrom = j + 1
							case 2:
								in = append(in, ";", "D", ";", "Q", strconv.Itoa(k), "0", ";", "V", "3", ";", "M", "0")
								j = pendingFrom - 1 // re-add everything that was lost
							case 3:
								// restart over the flushed DB (sometimes right after a Drop), other cache capacities
								if r.Intn(3) == 0 {
									in = append(in, ";", "D")
								}
								in = append(in, ";", "RI", strconv.Itoa(c05FcSizes[r.Intn(len(c05FcSizes))]), strconv.Itoa(c05VcSizes[r.Intn(len(c05VcSizes))]),
									";", "Q", strconv.Itoa(k), "0", ";", "V", "3", ";", "M", "0", ";", "DB", "4")
								j = pendingFrom - 1
							}
						}
						in = append(in, ";", "F", ";", "Q", "0", "0", ";", "V", "0", ";", "M", "0")
						emit(in...)
						i++
						vu.Stat("scenario_flush_drop")
						continue
					}
					bad := -1
					if r.Intn(5) == 0 {
						bad = r.Intn(len(order))
					}
					for j, e := range order {
						if j == bad { // an event whose parent was never indexed: Add fails, DropNotFlushed
							x := e
							x.id = 100000 + e.id
							x.parents = append(append([]int{}, e.parents...), 99999)
							in = append(in, c05EvOp(x)...)
						}
						in = append(in, c05EvOp(e)...)
						if (e.fork && r.Intn(2) == 0) || r.Intn(25) == 0 {
							// restart right after a fork was first observed (BranchesInfo must come back from the DB)
							in = append(in, ";", "RI", strconv.Itoa(c05FcSizes[r.Intn(len(c05FcSizes))]), strconv.Itoa(c05VcSizes[r.Intn(len(c05VcSizes))]), ";", "V", "2", ";", "DB", "2")
						}
						in = append(in, ";", "Q", strconv.Itoa(k), strconv.Itoa(r.Intn(2)))
						if j%6 == 5 {
							in = append(in, ";", "V", "3", ";", "M", "3")
						}
						if j%16 == 15 { // all pairs so far (old B, new A)
							in = append(in, ";", "Q", "0", "0")
						}
					}
					in = append(in, ";", "Q", "0", strconv.Itoa(r.Intn(2)), ";", "V", "0", ";", "M", "0")
					emit(in...)
					i++
				}
			}
		},
		Run: c05Run,
	})
}
