package main

import (
	"fmt"
	"math/rand"
	"strings"
	"time"

	"verifharness/abfth"
	"verifharness/vu"
)

// Consensus cluster C02 C03 C04 C07 C08 C09: one scenario machinery (harness/abfth), the op mix
// is aimed at the property.  Run executes the REAL abft.IndexedLachesis on the case.

var c02Timeouts int

func c02Register(id string, maxQuick, maxThorough int) {
	vu.Register(id, &vu.Prop{
		Gen: func(r *rand.Rand, n int, tier string, emit func(...string)) {
			max := maxQuick
			if tier == "thorough" {
				max = maxThorough
			}
			for i := 0; i < n; i++ {
				// the generator builds the DAG with the real code: guard it by a deadline too
				done := make(chan []string, 1)
				go func() {
					defer func() {
						if rec := recover(); rec != nil {
							done <- []string{id, "200", "50", "5", "1", ";", "V", "1", "1", ";", "GENPANIC", strings.ReplaceAll(fmt.Sprint(rec), " ", "_")}
						}
					}()
					if id == "C02" && r.Intn(10) == 0 { // store-level glue cases (harness/abfth/store.go)
						done <- abfth.GenStore(r, id)
						return
					}
					done <- abfth.Gen(r, abfth.GenOpts{Mix: id, Tier: tier, MaxEv: max})
				}()
				select {
				case toks := <-done:
					emit(toks...)
				case <-time.After(30 * time.Second):
					emit(id, "200", "50", "5", "1", ";", "V", "1", "1", ";", "GENTIMEOUT")
					return
				}
			}
		},
		Run: func(in []string) []string {
			sc := abfth.Parse(in)
			// a per-case deadline: a code change that makes the traversal blow up must end as a
			// reported observation, not as a hanging check
			for _, t := range in {
				if t == "GENTIMEOUT" || t == "GENPANIC" {
					return []string{"TIMEOUT-in-generator"}
				}
			}
			if c02Timeouts >= 3 {
				return []string{"TIMEOUT-skipped"}
			}
			done := make(chan []string, 1)
			go func() {
				defer func() {
					if r := recover(); r != nil {
						done <- []string{"PANIC", strings.ReplaceAll(fmt.Sprint(r), " ", "_")}
					}
				}()
				if abfth.IsStore(in) {
					done <- abfth.ExecStore(in, vu.Stat)
					return
				}
				done <- abfth.Exec(sc, vu.Stat)
			}()
			select {
			case obs := <-done:
				return obs
			case <-time.After(15 * time.Second):
				c02Timeouts++
				vu.Stat("timeout")
				return []string{"TIMEOUT"}
			}
		},
	})
}

func init() {
	c02Register("C02", 90, 250)
	c02Register("C03", 90, 250)
	c02Register("C04", 80, 200)
	c02Register("C07", 80, 200)
	c02Register("C08", 70, 200)
	c02Register("C09", 90, 250)
}
