package main

import (
	"math/rand"

	"verifharness/abfth"
	"verifharness/vu"
)

// Consensus cluster C02 C03 C04 C07 C08 C09: one scenario machinery (harness/abfth), the op mix
// is aimed at the property.  Run executes the REAL abft.IndexedLachesis on the case.

func c02Register(id string, maxQuick, maxThorough int) {
	vu.Register(id, &vu.Prop{
		Gen: func(r *rand.Rand, n int, tier string, emit func(...string)) {
			max := maxQuick
			if tier == "thorough" {
				max = maxThorough
			}
			for i := 0; i < n; i++ {
				emit(abfth.Gen(r, abfth.GenOpts{Mix: id, Tier: tier, MaxEv: max})...)
			}
		},
		Run: func(in []string) []string {
			sc := abfth.Parse(in)
			return abfth.Exec(sc, vu.Stat)
		},
	})
}

func init() {
	c02Register("C02", 90, 250)
	c02Register("C03", 90, 250)
	c02Register("C04", 80, 200)
	c02Register("C07", 80, 200)
	c02Register("C08", 70, 200)
	c02Register("C09", 90, 250)
}
