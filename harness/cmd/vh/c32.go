package main

import (
	"bytes"
	"math/rand"
	"strconv"

	"github.com/Fantom-foundation/lachesis-base/common/bigendian"
	"github.com/Fantom-foundation/lachesis-base/common/littleendian"
	"github.com/Fantom-foundation/lachesis-base/hash"
	"github.com/Fantom-foundation/lachesis-base/inter/dag"
	"github.com/Fantom-foundation/lachesis-base/inter/idx"

	"verifharness/vu"
)

// C32: encodings.  Inputs: BE k n | LE k n | CMP k a b | ID e l tail | IDCMP e1 l1 t1 e2 l2 t2
// For k=4 and k=8 the idx types' Bytes()/BytesToX are used alternately with the raw codec
// (selected by n mod 7) so that every index type is exercised.

func c32Interesting(r *rand.Rand, k int) uint64 {
	bits := uint(8 * k)
	max := uint64(1)<<bits - 1
	if k == 8 {
		max = ^uint64(0)
	}
	switch r.Intn(6) {
	case 0: // around powers of 256
		p := uint64(1) << (8 * uint(r.Intn(k)))
		return (p + uint64(r.Intn(5)) - 2) & max
	case 1:
		return max - uint64(r.Intn(4))
	case 2:
		return uint64(r.Intn(4))
	case 3: // around powers of two
		p := uint64(1) << uint(r.Intn(int(bits)))
		return (p + uint64(r.Intn(3)) - 1) & max
	default:
		return r.Uint64() & max
	}
}

// c32sel is the index type used by the current case (set from the case's type token; the
// value itself no longer selects the type, so every boundary value reaches every type)
var c32sel uint64

func c32be(k int, n0 uint64) []byte {
	n := n0
	switch k {
	case 2:
		return bigendian.Uint16ToBytes(uint16(n))
	case 4:
		switch c32sel % 7 {
		case 0:
			return idx.Epoch(n).Bytes()
		case 1:
			return idx.Event(n).Bytes()
		case 2:
			return idx.Lamport(n).Bytes()
		case 3:
			return idx.Frame(n).Bytes()
		case 4:
			return idx.Pack(n).Bytes()
		case 5:
			return idx.ValidatorID(n).Bytes()
		}
		return bigendian.Uint32ToBytes(uint32(n))
	default:
		if c32sel%2 == 0 {
			return idx.Block(n).Bytes()
		}
		return bigendian.Uint64ToBytes(n)
	}
}

func c32unbe(k int, n uint64, b []byte) uint64 {
	switch k {
	case 2:
		return uint64(bigendian.BytesToUint16(b))
	case 4:
		switch c32sel % 7 {
		case 0:
			return uint64(idx.BytesToEpoch(b))
		case 1:
			return uint64(idx.BytesToEvent(b))
		case 2:
			return uint64(idx.BytesToLamport(b))
		case 3:
			return uint64(idx.BytesToFrame(b))
		case 4:
			return uint64(idx.BytesToPack(b))
		case 5:
			return uint64(idx.BytesToValidatorID(b))
		}
		return uint64(bigendian.BytesToUint32(b))
	default:
		if c32sel%2 == 0 {
			return uint64(idx.BytesToBlock(b))
		}
		return bigendian.BytesToUint64(b)
	}
}

func cmpTok(c int) string {
	if c < 0 {
		return "0"
	}
	if c == 0 {
		return "1"
	}
	return "2"
}

func c32tail(r *rand.Rand) []byte {
	t := make([]byte, 24)
	switch r.Intn(4) {
	case 0:
	case 1:
		for i := range t {
			t[i] = 0xff
		}
	default:
		r.Read(t)
	}
	return t
}

// encoders by width and selector (every index type of inter/idx, and the raw codec)
func c32encSel(k int, sel uint64, v uint64) []byte {
	switch k {
	case 2:
		return bigendian.Uint16ToBytes(uint16(v))
	case 4:
		switch sel % 7 {
		case 0:
			return idx.Epoch(v).Bytes()
		case 1:
			return idx.Event(v).Bytes()
		case 2:
			return idx.Lamport(v).Bytes()
		case 3:
			return idx.Frame(v).Bytes()
		case 4:
			return idx.Pack(v).Bytes()
		case 5:
			return idx.ValidatorID(v).Bytes()
		}
		return bigendian.Uint32ToBytes(uint32(v))
	default:
		if sel%2 == 0 {
			return idx.Block(v).Bytes()
		}
		return bigendian.Uint64ToBytes(v)
	}
}

// ENCHIST: the caller keeps every returned slice (the slice itself, not a copy) and mutates it
func c32History(in []string) []string {
	pu := func(s string) uint64 { v, _ := strconv.ParseUint(s, 10, 64); return v }
	var held [][]byte
	var out []string
	var op []string
	flush := func() {
		if len(op) == 0 {
			return
		}
		switch op[0] {
		case "E":
			b := c32encSel(int(pu(op[1])), pu(op[2]), pu(op[3]))
			out = append(out, vu.Hex(b)) // rendered now: the encoding at the time of return
			held = append(held, b)
		case "L":
			var b []byte
			switch pu(op[1]) {
			case 2:
				b = littleendian.Uint16ToBytes(uint16(pu(op[2])))
			case 4:
				b = littleendian.Uint32ToBytes(uint32(pu(op[2])))
			default:
				b = littleendian.Uint64ToBytes(pu(op[2]))
			}
			out = append(out, vu.Hex(b))
			held = append(held, b)
		case "A":
			if i := int(pu(op[1])); i < len(held) {
				held[i] = append(held[i], vu.UnHex(op[2])...)
			}
			out = append(out, "-")
		case "W":
			if i, p := int(pu(op[1])), int(pu(op[2])); i < len(held) && p < len(held[i]) {
				held[i][p] = byte(pu(op[3]))
			}
			out = append(out, "-")
		case "X": // key composition: append(held[i], enc(v)...)
			e := c32encSel(int(pu(op[2])), pu(op[3]), pu(op[4]))
			out = append(out, vu.Hex(e))
			if i := int(pu(op[1])); i < len(held) {
				held[i] = append(held[i], e...)
			}
			held = append(held, e)
		case "D":
			k, i := int(pu(op[1])), int(pu(op[2]))
			if i >= len(held) || len(held[i]) < k {
				out = append(out, "short")
			} else {
				switch k {
				case 2:
					out = append(out, vu.U64(uint64(bigendian.BytesToUint16(held[i]))))
				case 4:
					out = append(out, vu.U64(uint64(bigendian.BytesToUint32(held[i]))))
				default:
					out = append(out, vu.U64(bigendian.BytesToUint64(held[i])))
				}
			}
		}
		vu.Stat("hist_op_" + op[0])
		op = nil
	}
	for _, t := range in[1:] {
		if t == ";" {
			flush()
		} else {
			op = append(op, t)
		}
	}
	flush()
	vu.Stat("enchist")
	return out
}

func c32GenHistory(r *rand.Rand, emit func(...string)) {
	ks := []int{2, 4, 4, 4, 8}
	val := func() uint64 {
		switch r.Intn(5) {
		case 0:
			return []uint64{0, 1, 2, 254, 255, 256, 257, 65535, 65536}[r.Intn(9)]
		case 1, 2:
			return uint64(r.Intn(256))
		case 3:
			return uint64(r.Intn(70000))
		default:
			return uint64(r.Uint32())
		}
	}
	in := []string{"ENCHIST"}
	add := func(t ...string) { in = append(append(in, ";"), t...) }
	held := 0
	for step, n := 0, 2+r.Intn(4); step < n; step++ {
		k := ks[r.Intn(len(ks))]
		sel := strconv.Itoa(r.Intn(7))
		v := val()
		mask := uint64(1)<<(8*uint(k)-1)<<1 - 1
		v &= mask
		add("E", strconv.Itoa(k), sel, vu.U64(v))
		me := held
		held++
		switch r.Intn(5) { // what the caller does with the slice it got
		case 0:
			add("A", strconv.Itoa(me), vu.Hex([]byte{byte(r.Intn(256)), byte(r.Intn(256)), byte(r.Intn(256)), 9}[:1+r.Intn(4)]))
		case 1:
			add("W", strconv.Itoa(me), strconv.Itoa(r.Intn(k)), strconv.Itoa(r.Intn(256)))
		case 2, 3:
			add("X", strconv.Itoa(me), strconv.Itoa(k), strconv.Itoa(r.Intn(7)), vu.U64(val()&mask))
			held++
			if r.Intn(2) == 0 {
				add("W", strconv.Itoa(me), strconv.Itoa(r.Intn(2*k)), strconv.Itoa(r.Intn(256)))
			}
		}
		// encode the value and its neighbours again, through possibly other index types
		for _, w := range []uint64{v, (v + 1) & mask, (v - 1) & mask} {
			if r.Intn(4) != 0 {
				add("E", strconv.Itoa(k), strconv.Itoa(r.Intn(7)), vu.U64(w))
				held++
			}
		}
		if r.Intn(3) == 0 {
			add("D", strconv.Itoa(k), strconv.Itoa(r.Intn(held)))
		}
		if r.Intn(6) == 0 {
			add("L", strconv.Itoa(k), vu.U64(v))
			held++
		}
	}
	emit(in...)
}

func pu2(s string) uint64 { v, _ := strconv.ParseUint(s, 10, 64); return v }

func init() {
	ks := []int{2, 4, 8}
	vu.Register("C32", &vu.Prop{
		Gen: func(r *rand.Rand, n int, tier string, emit func(...string)) {
			if tier == "thorough" { // all 16-bit values, both endiannesses
				for v := 0; v < 65536; v++ {
					emit("BE", "2", strconv.Itoa(v))
					emit("LE", "2", strconv.Itoa(v))
				}
			} else {
				for v := 0; v < 65536; v += 257 {
					emit("BE", "2", strconv.Itoa(v))
					emit("LE", "2", strconv.Itoa(v))
				}
			}
			// stateful builder histories: SetEpoch / SetLamport / SetID / Build on ONE builder
			for i := 0; i < n/8+20; i++ {
				toks := []string{"IDSEQ"}
				for j, m := 0, 2+r.Intn(8); j < m; j++ {
					toks = append(toks, ";")
					switch r.Intn(4) {
					case 0:
						toks = append(toks, "E", vu.U64(c32Interesting(r, 4)))
					case 1:
						toks = append(toks, "L", vu.U64(c32Interesting(r, 4)))
					case 2:
						toks = append(toks, "S", vu.Hex(c32tail(r)))
					default:
						toks = append(toks, "B", vu.Hex(c32tail(r)))
					}
				}
				emit(toks...)
			}
			// every boundary value through every index type (type token t: 0..6 for k=4, 0..1 for k=8)
			for _, k := range []int{4, 8} {
				max := uint64(1)<<(8*uint(k)-1)<<1 - 1
				bnd := []uint64{0, 1, 255, 256, 65535, 65536, 65537, 1<<24 - 1, 1 << 24, 1<<31 - 1, 1 << 31, 1<<32 - 1, 1 << 32, 1<<63 - 1, 1 << 63, max - 1, max}
				for _, v := range bnd {
					if v > max {
						continue
					}
					for t := 0; t < 7; t++ {
						if k == 8 && t > 1 {
							break
						}
						emit("BE", strconv.Itoa(k), vu.U64(v), strconv.Itoa(t))
						emit("CMP", strconv.Itoa(k), vu.U64(v), vu.U64((v+1)&max), strconv.Itoa(t))
					}
				}
			}
			// byte-wise ID order through the real hash.OrderedEvents: Less on pairs, ByEpochAndLamport on
			// lists; epochs / lamports from boundary classes of uint32 (differences >= 2^31 included)
			c32bnd := func() uint64 {
				cls := []uint64{0, 1, 2, 1<<31 - 2, 1<<31 - 1, 1 << 31, 1<<31 + 1, 1<<31 + 2, 1<<32 - 2, 1<<32 - 1}
				if r.Intn(3) == 0 {
					return uint64(r.Uint32())
				}
				return cls[r.Intn(len(cls))]
			}
			for i := 0; i < n/4+20; i++ {
				e1, l1, e2, l2 := c32bnd(), c32bnd(), c32bnd(), c32bnd()
				t1, t2 := c32tail(r), c32tail(r)
				switch r.Intn(4) {
				case 0:
					e2 = e1
				case 1:
					e2, l2 = e1, l1
				}
				emit("IDLESS", vu.U64(e1), vu.U64(l1), vu.Hex(t1), vu.U64(e2), vu.U64(l2), vu.Hex(t2))
				in := []string{"IDSORT"}
				m := 2 + r.Intn(11)
				if r.Intn(10) == 0 {
					m = 13 + r.Intn(40) // sort.Sort switches algorithm above 12 elements
				}
				for j := 0; j < m; j++ {
					e, l, t := c32bnd(), c32bnd(), c32tail(r)
					if j > 0 && r.Intn(4) == 0 { // equal epoch (and lamport): lamport / tail decide
						e = pu2(in[1])
						if r.Intn(2) == 0 {
							l = pu2(in[2])
						}
					}
					in = append(in, vu.U64(e), vu.U64(l), vu.Hex(t))
				}
				emit(in...)
			}
			for i := 0; i < n; i++ {
				k := ks[r.Intn(3)]
				switch r.Intn(6) {
				case 0:
					emit("BE", strconv.Itoa(k), vu.U64(c32Interesting(r, k)), strconv.Itoa(r.Intn(7)))
				case 1:
					emit("LE", strconv.Itoa(k), vu.U64(c32Interesting(r, k)))
				case 2:
					a := c32Interesting(r, k)
					b := c32Interesting(r, k)
					if r.Intn(4) == 0 {
						b = a + uint64(r.Intn(3)) - 1
						if k < 8 {
							b &= uint64(1)<<(8*uint(k)) - 1
						}
					}
					emit("CMP", strconv.Itoa(k), vu.U64(a), vu.U64(b), strconv.Itoa(r.Intn(7)))
				case 3:
					emit("ID", vu.U64(c32Interesting(r, 4)), vu.U64(c32Interesting(r, 4)), vu.Hex(c32tail(r)))
				default:
					e1, l1 := c32Interesting(r, 4), c32Interesting(r, 4)
					e2, l2 := c32Interesting(r, 4), c32Interesting(r, 4)
					t1, t2 := c32tail(r), c32tail(r)
					switch r.Intn(4) {
					case 0:
						e2 = e1
					case 1:
						e2, l2 = e1, l1
					case 2:
						e2, l2, t2 = e1, l1, t1
					}
					emit("IDCMP", vu.U64(e1), vu.U64(l1), vu.Hex(t1), vu.U64(e2), vu.U64(l2), vu.Hex(t2))
				}
			}
			// histories with caller-side mutation of returned encodings; emitted last, so that a shared
			// buffer corrupted by such a history cannot disturb the plain cases above
			emit("ENCHIST", ";", "E", "4", "0", "5", ";", "X", "0", "4", "2", "9", ";", "E", "4", "0", "6", ";", "E", "4", "6", "5")
			for i := 0; i < n/5+20; i++ {
				c32GenHistory(r, emit)
			}
		},
		Run: func(in []string) []string {
			pu := func(s string) uint64 { v, _ := strconv.ParseUint(s, 10, 64); return v }
			mkid := func(e, l uint64, t []byte) hash.Event {
				var tail [24]byte
				copy(tail[:], t)
				me := &dag.MutableBaseEvent{}
				me.SetEpoch(idx.Epoch(e))
				me.SetLamport(idx.Lamport(l))
				if (e+l)%2 == 0 {
					return me.Build(tail).ID()
				}
				me.SetID(tail)
				return me.ID()
			}
			switch in[0] {
			case "ENCHIST":
				return c32History(in)
			case "IDSEQ":
				me := &dag.MutableBaseEvent{}
				var out []string
				for i := 1; i < len(in); i++ {
					if in[i] != ";" {
						continue
					}
					var tail [24]byte
					switch in[i+1] {
					case "E":
						me.SetEpoch(idx.Epoch(pu(in[i+2])))
					case "L":
						me.SetLamport(idx.Lamport(pu(in[i+2])))
					case "S":
						copy(tail[:], vu.UnHex(in[i+2]))
						me.SetID(tail)
						id := me.ID()
						out = append(out, vu.Hex(id.Bytes()), vu.U64(uint64(id.Epoch())), vu.U64(uint64(id.Lamport())))
					case "B":
						copy(tail[:], vu.UnHex(in[i+2]))
						id := me.Build(tail).ID()
						out = append(out, vu.Hex(id.Bytes()), vu.U64(uint64(id.Epoch())), vu.U64(uint64(id.Lamport())))
					}
				}
				vu.Stat("idseq")
				return out
			case "BE":
				k, _ := strconv.Atoi(in[1])
				n := pu(in[2])
				c32sel = 6
				if len(in) > 3 {
					c32sel = pu(in[3])
				}
				vu.Stat("type" + in[1] + "_" + strconv.Itoa(int(c32sel%7)))
				b := c32be(k, n)
				vu.Stat("be" + in[1])
				return []string{vu.Hex(b), vu.U64(c32unbe(k, n, b))}
			case "LE":
				k, _ := strconv.Atoi(in[1])
				n := pu(in[2])
				vu.Stat("le" + in[1])
				switch k {
				case 2:
					b := littleendian.Uint16ToBytes(uint16(n))
					return []string{vu.Hex(b), vu.U64(uint64(littleendian.BytesToUint16(b)))}
				case 4:
					b := littleendian.Uint32ToBytes(uint32(n))
					return []string{vu.Hex(b), vu.U64(uint64(littleendian.BytesToUint32(b)))}
				default:
					b := littleendian.Uint64ToBytes(n)
					return []string{vu.Hex(b), vu.U64(littleendian.BytesToUint64(b))}
				}
			case "CMP":
				k, _ := strconv.Atoi(in[1])
				a, b := pu(in[2]), pu(in[3])
				c32sel = 6
				if len(in) > 4 {
					c32sel = pu(in[4])
				}
				vu.Stat("cmp" + in[1])
				return []string{cmpTok(bytes.Compare(c32be(k, a), c32be(k, b)))}
			case "ID":
				id := mkid(pu(in[1]), pu(in[2]), vu.UnHex(in[3]))
				vu.Stat("id")
				return []string{vu.Hex(id.Bytes()), vu.U64(uint64(id.Epoch())), vu.U64(uint64(id.Lamport()))}
			case "IDCMP":
				a := mkid(pu(in[1]), pu(in[2]), vu.UnHex(in[3]))
				b := mkid(pu(in[4]), pu(in[5]), vu.UnHex(in[6]))
				vu.Stat("idcmp")
				return []string{cmpTok(bytes.Compare(a.Bytes(), b.Bytes()))}
			case "IDLESS":
				a := mkid(pu(in[1]), pu(in[2]), vu.UnHex(in[3]))
				b := mkid(pu(in[4]), pu(in[5]), vu.UnHex(in[6]))
				vu.Stat("idless")
				return []string{vu.B(hash.OrderedEvents{a, b}.Less(0, 1))}
			case "IDSORT":
				var oe hash.OrderedEvents
				wide := false
				for i := 1; i+2 < len(in); i += 3 {
					oe = append(oe, mkid(pu(in[i]), pu(in[i+1]), vu.UnHex(in[i+2])))
					if len(oe) > 1 {
						d := int64(pu(in[i])) - int64(pu(in[1]))
						wide = wide || d >= 1<<31 || d <= -(1<<31)
					}
				}
				oe.ByEpochAndLamport()
				vu.Stat("idsort")
				if wide {
					vu.Stat("idsort_epochs_2^31_apart")
				}
				out := make([]string, len(oe))
				for i, id := range oe {
					out[i] = vu.Hex(id.Bytes())
				}
				return out
			}
			return []string{"BAD"}
		},
	})
}
