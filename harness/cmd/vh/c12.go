package main

import (
	"bytes"
	"math/big"
	"math/rand"
	"strconv"

	"github.com/ethereum/go-ethereum/rlp"

	"github.com/Fantom-foundation/lachesis-base/abft"
	"github.com/Fantom-foundation/lachesis-base/inter/idx"
	"github.com/Fantom-foundation/lachesis-base/inter/pos"

	"verifharness/vu"
)

// C12: canonical form, RLP round trip, big-stake builder.  Formats: see coq/extract/C12/driver.ml.

type c12Pair struct {
	ID     uint32
	Weight uint32
}

func c12Groups(in []string) (head, probes []string) {
	for i, t := range in {
		if t == ";" {
			return in[:i], in[i+1:]
		}
	}
	return in, nil
}

func c12SplitAll(in []string) [][]string {
	var groups [][]string
	cur := []string{}
	for _, t := range in {
		if t == ";" {
			groups = append(groups, cur)
			cur = []string{}
		} else {
			cur = append(cur, t)
		}
	}
	return append(groups, cur)
}

func c12Pairs(toks []string) (ids []idx.ValidatorID, ws []pos.Weight) {
	for i := 0; i+1 < len(toks); i += 2 {
		id, _ := strconv.ParseUint(toks[i], 10, 32)
		w, _ := strconv.ParseUint(toks[i+1], 10, 32)
		ids = append(ids, idx.ValidatorID(id))
		ws = append(ws, pos.Weight(w))
	}
	return
}

func c12Construct(mode string, toks []string) *pos.Validators {
	ids, ws := c12Pairs(toks)
	set := func() *pos.Validators {
		b := pos.NewBuilder()
		for i := range ids {
			b.Set(ids[i], ws[i])
		}
		return b.Build()
	}
	switch mode {
	case "arr":
		return pos.ArrayToValidators(ids, ws)
	case "eq":
		if len(ids) > 0 {
			same := true
			for _, w := range ws {
				same = same && w == ws[0]
			}
			if same {
				return pos.EqualWeightValidators(ids, ws[0])
			}
		}
		return set()
	case "copy":
		return set().Copy()
	case "bld":
		return set().Builder().Build()
	}
	return set()
}

func c12Obs(vs *pos.Validators, probes []string) []string {
	ids := vs.SortedIDs()
	wts := vs.SortedWeights()
	out := []string{strconv.Itoa(int(vs.Len())), "I"}
	for _, id := range ids {
		out = append(out, vu.U64(uint64(id)))
	}
	out = append(out, "W")
	for _, w := range wts {
		out = append(out, vu.U64(uint64(w)))
	}
	out = append(out, "X")
	m := vs.Idxs()
	for _, id := range ids {
		out = append(out, vu.U64(uint64(m[id])))
	}
	out = append(out, "T", vu.U64(uint64(vs.TotalWeight())), "L", strconv.Itoa(len(m)), "GI")
	for i := range ids {
		out = append(out, vu.U64(uint64(vs.GetID(idx.Validator(i)))))
	}
	out = append(out, "GW")
	for i := range ids {
		out = append(out, vu.U64(uint64(vs.GetWeightByIdx(idx.Validator(i)))))
	}
	out = append(out, "P")
	for _, p := range probes {
		id, _ := strconv.ParseUint(p, 10, 32)
		out = append(out, vu.U64(uint64(vs.Get(idx.ValidatorID(id)))), vu.B(vs.Exists(idx.ValidatorID(id))),
			vu.U64(uint64(vs.GetIdx(idx.ValidatorID(id)))))
	}
	return out
}

func c12Run(in []string) (obs []string) {
	defer func() {
		if r := recover(); r != nil {
			vu.Stat("panic_" + in[0])
			obs = []string{"PANIC"}
		}
	}()
	head, probes := c12Groups(in)
	switch head[0] {
	case "B":
		vs := c12Construct(head[1], head[2:])
		vu.Stat("B_" + head[1])
		return c12Obs(vs, probes)
	case "R":
		vs := c12Construct("set", head[2:])
		var raw []byte
		var err error
		var vs2 *pos.Validators
		if head[1] == "epoch" {
			raw, err = rlp.EncodeToBytes(&abft.EpochState{Epoch: 7, Validators: vs})
			if err != nil {
				return []string{"ERR", "enc"}
			}
			var es abft.EpochState
			if err = rlp.DecodeBytes(raw, &es); err != nil || es.Epoch != 7 {
				return []string{"ERR", "dec"}
			}
			vs2 = es.Validators
			// the bytes of the embedded set alone
			var parts []rlp.RawValue
			if err = rlp.DecodeBytes(raw, &parts); err != nil || len(parts) != 2 {
				return []string{"ERR", "split"}
			}
			raw = parts[1]
		} else {
			raw, err = rlp.EncodeToBytes(vs)
			if err != nil {
				return []string{"ERR", "enc"}
			}
			vs2 = &pos.Validators{}
			if err = rlp.DecodeBytes(raw, vs2); err != nil {
				return []string{"ERR", "dec"}
			}
		}
		var arr []c12Pair
		if err = rlp.DecodeBytes(raw, &arr); err != nil {
			return []string{"ERR", "generic"}
		}
		raw2, err := rlp.EncodeToBytes(vs2)
		if err != nil {
			return []string{"ERR", "enc2"}
		}
		out := append([]string{"ORIG"}, c12Obs(vs, probes)...)
		out = append(out, "ARR", strconv.Itoa(len(arr)))
		for _, p := range arr {
			out = append(out, vu.U64(uint64(p.ID)), vu.U64(uint64(p.Weight)))
		}
		out = append(out, "DEC")
		out = append(out, c12Obs(vs2, probes)...)
		out = append(out, "SAME", vu.B(bytes.Equal(raw, raw2)), "RAW", vu.Hex(raw))
		vu.Stat("R_" + head[1])
		return out
	case "D":
		ids, ws := c12Pairs(head[2:])
		arr := make([]c12Pair, len(ids))
		for i := range ids {
			arr[i] = c12Pair{uint32(ids[i]), uint32(ws[i])}
		}
		raw, err := rlp.EncodeToBytes(arr)
		if err != nil {
			return []string{"ERR", "enc"}
		}
		vs := &pos.Validators{}
		if err = rlp.DecodeBytes(raw, vs); err != nil {
			return []string{"ERR", "dec"}
		}
		vu.Stat("D")
		return append(c12Obs(vs, probes), "RAW", vu.Hex(raw))
	case "S":
		// successive decodes into ONE reused target
		mode := in[1]
		var sets [][]string
		var probes2 []string
		for _, g := range c12SplitAll(in[2:]) {
			if len(g) == 0 {
				continue
			}
			if g[0] == "P" {
				probes2 = g[1:]
			} else {
				sets = append(sets, g[1:])
			}
		}
		target := &pos.Validators{}
		es := &abft.EpochState{Epoch: 1, Validators: &pos.Validators{}}
		var out []string
		for k, set := range sets {
			vs := c12Construct("set", set)
			raw, err := rlp.EncodeToBytes(vs)
			if err != nil {
				return []string{"ERR", "enc"}
			}
			cur := target
			switch mode {
			case "direct":
				err = rlp.DecodeBytes(raw, target)
			case "stream":
				err = target.DecodeRLP(rlp.NewStream(bytes.NewReader(raw), 0))
			default: // "epoch": a long-lived struct whose *Validators field is non-nil: rlp reuses the pointee
				var wraw []byte
				wraw, err = rlp.EncodeToBytes(&abft.EpochState{Epoch: idx.Epoch(k + 2), Validators: vs})
				if err == nil {
					err = rlp.DecodeBytes(wraw, es)
				}
				cur = es.Validators
			}
			if err != nil || cur == nil {
				return append(out, "ERR")
			}
			re, err := rlp.EncodeToBytes(cur)
			if err != nil {
				return append(out, "ERR")
			}
			out = append(out, "STEP")
			out = append(out, c12Obs(cur, probes2)...)
			out = append(out, "RAW", vu.Hex(re))
		}
		vu.Stat("S_" + mode)
		return out
	case "U":
		var sets [][]string
		var probes2 []string
		for _, g := range c12SplitAll(in[1:]) {
			if len(g) == 0 {
				continue
			}
			if g[0] == "P" {
				probes2 = g[1:]
			} else {
				sets = append(sets, g[1:])
			}
		}
		b := pos.NewBuilder()
		ids1, ws1 := c12Pairs(sets[0])
		for i := range ids1 {
			b.Set(ids1[i], ws1[i])
		}
		v1 := b.Build()
		out := append([]string{"V1"}, c12Obs(v1, probes2)...)
		ids2, ws2 := c12Pairs(sets[1])
		for i := range ids2 {
			b.Set(ids2[i], ws2[i]) // the builder is mutated after Build
		}
		out = append(append(out, "V1AGAIN"), c12Obs(v1, probes2)...)
		v2 := b.Build()
		out = append(append(out, "V2"), c12Obs(v2, probes2)...)
		cp := v1.Copy()
		b1 := v1.Builder()
		for i := range ids2 {
			b1.Set(ids2[i], ws2[i]) // a builder taken from v1 is mutated
		}
		_ = b1.Build()
		out = append(append(out, "V1FINAL"), c12Obs(v1, probes2)...)
		out = append(append(out, "COPY"), c12Obs(cp, probes2)...)
		vu.Stat("U")
		return out
	case "G":
		b := pos.NewBigBuilder()
		toks := head[1:]
		for i := 0; i+1 < len(toks); i += 2 {
			id, _ := strconv.ParseUint(toks[i], 10, 32)
			var s *big.Int // "nil" stays a nil pointer
			if toks[i+1] != "nil" {
				s, _ = new(big.Int).SetString(toks[i+1], 10)
				if s.Sign() < 0 {
					vu.Stat("G_negative_stake")
				}
			} else {
				vu.Stat("G_nil_stake")
			}
			b.Set(idx.ValidatorID(id), s)
		}
		sum, allWord := new(big.Int), true
		for _, w := range b {
			sum.Add(sum, w)
			allWord = allWord && w.IsUint64()
		}
		if allWord && len(b) > 0 && !sum.IsUint64() {
			vu.Stat("G_stakes_fit_uint64_total_does_not")
		}
		if len(b) >= 20 {
			vu.Stat("G_20_or_more_stakes")
		}
		tb := b.TotalWeight().BitLen()
		switch {
		case tb > 64:
			vu.Stat("G_total_over_64_bits")
		case tb > 31:
			vu.Stat("G_total_32_to_64_bits")
		default:
			vu.Stat("G_total_fits")
		}
		return c12Obs(b.Build(), probes)
	}
	return []string{"BAD"}
}

func c12Probes(toks []string) []string {
	seen := map[string]bool{}
	var out []string
	max := uint64(0)
	for i := 0; i+1 < len(toks); i += 2 {
		if !seen[toks[i]] {
			seen[toks[i]] = true
			out = append(out, toks[i])
		}
		v, _ := strconv.ParseUint(toks[i], 10, 32)
		if v > max {
			max = v
		}
	}
	return append(out, vu.U64((max+1)&0xFFFFFFFF)) // an id that is (almost always) absent
}

func c12Emit(emit func(...string), head []string, pairs []string) {
	in := append(append([]string{}, head...), pairs...)
	in = append(in, ";")
	in = append(in, c12Probes(pairs)...)
	emit(in...)
}

func c12Shuffle(r *rand.Rand, pairs []string) []string {
	n := len(pairs) / 2
	out := make([]string, 0, len(pairs))
	for _, i := range r.Perm(n) {
		out = append(out, pairs[2*i], pairs[2*i+1])
	}
	return out
}

// values at the byte-width boundaries of uint32 (RLP integer lengths, index widths)
func c12Boundary32(r *rand.Rand) uint64 {
	bs := []uint64{0, 1, 127, 128, 255, 256, 65535, 65536, 1<<24 - 1, 1 << 24, 1<<31 - 1, 1 << 31, 1<<32 - 1}
	return bs[r.Intn(len(bs))]
}

func c12RandLarge(r *rand.Rand, tier string) []string {
	sizes := []int{20, 25, 31, 32, 33, 40, 63, 64, 65, 127, 128, 129}
	n := sizes[r.Intn(len(sizes))]
	if tier == "thorough" && r.Intn(12) == 0 {
		n = []int{255, 256, 257, 300, 600}[r.Intn(5)]
	}
	var pairs []string
	for i := 0; i < n; i++ {
		id := uint64(r.Uint32())
		if r.Intn(4) == 0 {
			id = c12Boundary32(r)
		}
		w := uint64(1 + r.Intn(0x7FFFFFFF/n))
		switch r.Intn(4) {
		case 0:
			w = uint64(1 + r.Intn(3)) // ties
		case 1:
			w = c12Boundary32(r) % uint64(0x7FFFFFFF/n)
		}
		pairs = append(pairs, vu.U64(id), vu.U64(w))
	}
	return pairs
}

func c12RandSmall(r *rand.Rand) []string {
	n := r.Intn(9)
	var pairs []string
	mode := r.Intn(6)
	for i := 0; i < n; i++ {
		var id, w uint64
		switch r.Intn(4) {
		case 0:
			id = uint64(1 + r.Intn(4)) // small pool: overwrites
		case 1:
			id = uint64(r.Uint32())
		default:
			id = uint64(10 + i)
		}
		switch mode {
		case 0: // ties
			w = uint64(1 + r.Intn(2))
		case 1:
			w = uint64(r.Intn(4)) // zeros = deletes
		case 2: // near the limit
			w = uint64(0x7FFFFFFF)/uint64(n) + uint64(r.Intn(3)) - 1
		case 3:
			w = uint64(r.Uint32() >> uint(r.Intn(32)))
		default:
			w = uint64(r.Intn(1000))
		}
		pairs = append(pairs, vu.U64(id), vu.U64(w))
	}
	return pairs
}

func c12RandBig(r *rand.Rand) []string {
	n := 1 + r.Intn(7)
	var pairs []string
	one := big.NewInt(1)
	mode := r.Intn(7)
	base := new(big.Int).Lsh(one, uint(r.Intn(257)))
	for i := 0; i < n; i++ {
		s := new(big.Int)
		switch mode {
		case 0: // random bit lengths up to 256
			s.Rand(r, new(big.Int).Lsh(one, uint(1+r.Intn(256))))
		case 1: // all equal
			s.Set(base)
		case 2: // one dominant, others shift to zero
			if i == 0 {
				s.Lsh(one, uint(200+r.Intn(57)))
				s.Sub(s, big.NewInt(int64(r.Intn(2))))
			} else {
				s.SetInt64(int64(r.Intn(1000)))
			}
		case 3: // total straddling 2^31
			s.SetInt64(int64(0x80000000/uint64(n)) + int64(r.Intn(3)) - 1)
		case 4: // total straddling 2^k
			k := uint(32 + r.Intn(225))
			s.Div(new(big.Int).Lsh(one, k), big.NewInt(int64(n)))
			s.Add(s, big.NewInt(int64(r.Intn(3))-1))
		case 5: // small, incl. zero
			s.SetInt64(int64(r.Intn(3)))
		default: // up to 2^256 - 1
			s.Lsh(one, 256)
			s.Sub(s, big.NewInt(int64(1+r.Intn(3))))
			if i > 0 {
				s.Rsh(s, uint(r.Intn(256)))
			}
		}
		id := uint64(20 + i)
		if r.Intn(6) == 0 {
			id = uint64(20 + r.Intn(n)) // overwrite
		}
		pairs = append(pairs, vu.U64(id), s.String())
	}
	return pairs
}

// stake families aimed at machine-word boundaries of the big-stake arithmetic: every stake fits
// a word (2^32 / 2^64 / 2^128) but the total does not, stakes at 2^63 / 2^64 -1,0,+1, many
// medium stakes, mixes of word-sized and larger stakes where no single stake dominates.
func c12WordFamilies(r *rand.Rand) []string {
	one := big.NewInt(1)
	pow := func(k uint) *big.Int { return new(big.Int).Lsh(one, k) }
	var stakes []*big.Int
	add := func(b *big.Int) { stakes = append(stakes, new(big.Int).Set(b)) }
	words := []uint{32, 64, 64, 128, 256, 512}
	w := words[r.Intn(len(words))]
	switch r.Intn(8) {
	case 0: // k stakes just below the word, the sum crosses it
		for k, m := 0, 2+r.Intn(4); k < m; k++ {
			add(new(big.Int).Sub(pow(w), big.NewInt(int64(1+r.Intn(3)))))
		}
	case 1: // halves and thirds of the word, +-1: the sum straddles the word exactly
		m := 2 + r.Intn(3)
		for k := 0; k < m; k++ {
			b := new(big.Int).Div(pow(w), big.NewInt(int64(m)))
			add(b.Add(b, big.NewInt(int64(r.Intn(3))-1)))
		}
		if r.Intn(2) == 0 {
			add(big.NewInt(int64(1 + r.Intn(5))))
		}
	case 2: // token amounts in wei: 10, 12, 15 ... tokens = n * 10^18 (all below 2^64, sum above)
		e18 := new(big.Int).Exp(big.NewInt(10), big.NewInt(18), nil)
		for k, m := 0, 2+r.Intn(5); k < m; k++ {
			add(new(big.Int).Mul(e18, big.NewInt(int64(1+r.Intn(18)))))
		}
	case 3: // many medium stakes (20..120), each far below the word, total above it
		m := 20 + r.Intn(101)
		for k := 0; k < m; k++ {
			b := new(big.Int).Rand(r, pow(w-3))
			add(b.Add(b, pow(w-4)))
		}
	case 4: // around 2^63 and 2^64 exactly
		for k, m := 0, 2+r.Intn(3); k < m; k++ {
			b := pow(63 + uint(r.Intn(2)))
			add(b.Add(b, big.NewInt(int64(r.Intn(3))-1)))
		}
	case 5: // word-sized stakes mixed with slightly larger ones, none dominating
		for k, m := 0, 3+r.Intn(5); k < m; k++ {
			b := new(big.Int).Rand(r, pow(w))
			if k%2 == 0 {
				b.Add(b, pow(w))
			}
			add(b)
		}
	case 6: // one stake above the word plus many below it that together add another word
		add(new(big.Int).Add(pow(w), big.NewInt(int64(r.Intn(5)))))
		for k, m := 0, 4+r.Intn(30); k < m; k++ {
			b := new(big.Int).Div(pow(w), big.NewInt(int64(3+r.Intn(4))))
			add(b)
		}
	default: // totals straddling 2^32 / 2^64 / 2^128 with many equal parts
		m := 5 + r.Intn(60)
		for k := 0; k < m; k++ {
			b := new(big.Int).Div(pow(w), big.NewInt(int64(m)))
			add(b.Add(b, big.NewInt(int64(r.Intn(2)))))
		}
	}
	var pairs []string
	for i, b := range stakes {
		pairs = append(pairs, vu.U64(uint64(100+i)), b.String())
	}
	return pairs
}

// valid small set (total far below the limit) over a shared id pool, so that successive sets are
// disjoint, overlapping, subsets, supersets, equal or empty
func c12PoolSet(r *rand.Rand, pool []uint64, from, to int) []string {
	var out []string
	for _, id := range pool[from:to] {
		out = append(out, vu.U64(id), vu.U64(uint64(1+r.Intn(1000))))
	}
	return out
}

func c12GenReuse(r *rand.Rand, emit func(...string)) {
	pool := make([]uint64, 12)
	for i := range pool {
		pool[i] = uint64(1 + i*3)
		if r.Intn(6) == 0 {
			pool[i] = uint64(r.Uint32())
		}
	}
	k := 2 + r.Intn(3)
	var sets [][]string
	a, b := r.Intn(4), 4+r.Intn(5)
	sets = append(sets, c12PoolSet(r, pool, a, b))
	for len(sets) < k {
		switch r.Intn(7) {
		case 0: // disjoint
			sets = append(sets, c12PoolSet(r, pool, b, 12))
		case 1: // overlapping
			sets = append(sets, c12PoolSet(r, pool, (a+b)/2, 12))
		case 2: // subset
			sets = append(sets, c12PoolSet(r, pool, a, a+1+r.Intn(b-a)))
		case 3: // superset
			sets = append(sets, c12PoolSet(r, pool, 0, 12))
		case 4: // empty
			sets = append(sets, nil)
		case 5: // the same set again (same weights)
			sets = append(sets, sets[len(sets)-1])
		default: // same ids, other weights
			sets = append(sets, c12PoolSet(r, pool, a, b))
		}
	}
	probes := []string{"P"}
	for _, id := range pool {
		probes = append(probes, vu.U64(id))
	}
	probes = append(probes, "4000000001")
	mode := []string{"direct", "epoch", "stream"}[r.Intn(3)]
	in := []string{"S", mode}
	for _, s := range sets {
		in = append(append(in, ";", "T"), s...)
	}
	emit(append(append(in, ";"), probes...)...)
	if r.Intn(2) == 0 {
		in = []string{"U", ";", "T"}
		in = append(in, sets[0]...)
		in = append(append(in, ";", "T"), sets[1]...)
		emit(append(append(in, ";"), probes...)...)
	}
}

func init() {
	bmodes := []string{"set", "arr", "eq", "copy", "bld"}
	vu.Register("C12", &vu.Prop{
		Gen: func(r *rand.Rand, n int, tier string, emit func(...string)) {
			// small scope, exhaustive: every sequence of <= 3 Set calls over ids {1,2} x weights {0,1,2}
			alphabet := [][2]string{}
			for _, id := range []string{"1", "2"} {
				for _, w := range []string{"0", "1", "2"} {
					alphabet = append(alphabet, [2]string{id, w})
				}
			}
			var rec func(prefix []string, depth int)
			rec = func(prefix []string, depth int) {
				c12Emit(emit, []string{"B", "set"}, prefix)
				c12Emit(emit, []string{"D", "-"}, prefix)
				if depth == 0 {
					return
				}
				for _, a := range alphabet {
					rec(append(append([]string{}, prefix...), a[0], a[1]), depth-1)
				}
			}
			depth := 2
			if tier == "thorough" {
				depth = 4
			}
			rec(nil, depth)
			if tier == "thorough" { // RLP payload above 65535 bytes: 3-byte length prefix, 6100 validators
				var huge []string
				for k := 0; k < 6100; k++ {
					huge = append(huge, vu.U64(uint64(1000000+13*k)), vu.U64(uint64(100000+r.Intn(200000))))
				}
				in := append([]string{"R", "plain"}, huge...)
				emit(append(in, ";", "1000000", "1000013", "7")...)
				vu.Stat("huge_set_6100")
			}
			// second-use family: 2-4 successive decodes into one reused target; one builder used twice
			for i := 0; i < n/6+10; i++ {
				c12GenReuse(r, emit)
			}
			for i := 0; i < n; i++ {
				pairs := c12RandSmall(r)
				if r.Intn(14) == 0 { // sets of 20..129 (thorough ..600) validators, ids / weights at byte-width boundaries
					pairs = c12RandLarge(r, tier)
					vu.Stat("large_set_20_or_more")
				}
				switch r.Intn(5) {
				case 0, 1: // the same multiset inserted in several orders, through every constructor
					for k := 0; k < 3; k++ {
						c12Emit(emit, []string{"B", bmodes[r.Intn(len(bmodes))]}, pairs)
						pairs = c12Shuffle(r, pairs)
					}
				case 2:
					mode := "plain"
					if r.Intn(3) == 0 {
						mode = "epoch"
					}
					if r.Intn(12) == 0 { // a large set: RLP payload above 255 bytes (2-byte length)
						pairs = nil
						for k, m := 0, 30+r.Intn(60); k < m; k++ {
							pairs = append(pairs, vu.U64(uint64(r.Uint32())), vu.U64(uint64(1+r.Intn(20000000))))
						}
					}
					c12Emit(emit, []string{"R", mode}, pairs)
				case 3:
					c12Emit(emit, []string{"D", "-"}, pairs)
				default:
					if r.Intn(2) == 0 {
						wp := c12WordFamilies(r)
						c12Emit(emit, []string{"G"}, wp)
						if r.Intn(3) == 0 {
							c12Emit(emit, []string{"G"}, c12Shuffle(r, wp))
						}
					}
					bp := c12RandBig(r)
					c12Emit(emit, []string{"G"}, bp)
					c12Emit(emit, []string{"G"}, c12Shuffle(r, bp))
					switch r.Intn(6) {
					case 0: // a nil stake (deletes, like zero): inside the domain
						k := r.Intn(len(bp) / 2)
						nb := append(append([]string{}, bp...), bp[2*k], "nil")
						c12Emit(emit, []string{"G"}, nb)
					case 1: // a negative stake: outside the domain, the model must still mirror the code
						k := r.Intn(len(bp) / 2)
						nb := append([]string{}, bp...)
						if nb[2*k+1] != "0" {
							nb[2*k+1] = "-" + nb[2*k+1]
						} else {
							nb[2*k+1] = "-1"
						}
						c12Emit(emit, []string{"G"}, nb)
					}
				}
			}
		},
		Run: c12Run,
	})
}
