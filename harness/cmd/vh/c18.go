package main

import (
	"fmt"
	"math/rand"
	"runtime"
	"sort"
	"strconv"
	"strings"
	"sync"
	"time"

	"github.com/Fantom-foundation/lachesis-base/gossip/basestream/basestreamleecher"
	"github.com/Fantom-foundation/lachesis-base/gossip/basestream/basestreamleecher/basepeerleecher"

	"verifharness/vu"
)

// C18: leechers.
//
// Base leecher history:   B ; r <p> ; u <p> <choice> ; t <shouldTerm> <choice> ; x
//   r = RegisterPeer, u = UnregisterPeer, t = Mu.Lock();Routine();Mu.Unlock() (ticker), x = Terminate.
//   Peer p is the string "p<p>", peer 0 is the empty string (what OngoingSessionPeer returns
//   when no session is running).  The application is the simplest embedding: one session
//   variable, SelectSessionPeerCandidates = sorted d.Peers, StartSession picks
//   candidates[choice mod len].
//   Observation per op: callback tokens  S<p>:<cands,>  T<was|->  PANIC  then  .<PeersNum>
//
// Peer leecher history:   P <parallel> <nruns> (<done> <susp> <mask>)*nruns ; c <id> ; ...
//   the real loop (RecheckInterval 1h) is fed chunk notifications; callback answers are
//   scripted per routine run (run k uses the k-th triple; beyond the script Done()=true).
//   Observation: D<b> I<id>:<b> U<b> R<maxChunks>:<num>:<size> ... E
//
// Peer leecher with the real ticker:  T <parallel> <nruns> (<done> <susp> <mask>)* ; c <id> ; w ; x ; ...
//   x = Terminate() called by the harness goroutine; the token X is logged when it has returned.
//   A Done() that answers true takes 1.2ms, so that the ticker has fired when the loop comes
//   back to select: on a tree without the d.done guard in routine() the terminated leecher then
//   runs routine() again with probability 1/2; the history is repeated up to 6 times and the
//   first log with a callback after D1 is reported.
//   RecheckInterval = 500us, `w` sleeps 1.2ms so that ticker runs interleave with the chunk runs.
//   The interleaving is the runtime's, so this mode is TRACE VALIDATION: every chunk carries its
//   op number, IsProcessed logs it (I<id>#<op>:<b>), the driver reads the sequence of routine
//   runs off the log (a run that sweeps a chunk never seen before is that chunk's run, any other
//   run is a ticker run), replays the model on that event sequence and compares the logs.  A peer
//   may over-deliver: a notification arriving while 2*parallel chunks are unprocessed is dropped by
//   loop() (its chunk never shows up in a sweep); the driver checks with the model that the
//   buffer was indeed full at some moment in between.

var errC18Request = fmt.Errorf("request could not be sent")

func c18PeerName(p uint64) string {
	if p == 0 {
		return ""
	}
	return "p" + strconv.FormatUint(p, 10)
}

func c18PeerNum(s string) uint64 {
	if s == "" {
		return 0
	}
	n, _ := strconv.ParseUint(s[1:], 10, 64)
	return n
}

func c18RunBase(ops [][]string) []string {
	var obs []string
	var sess *string
	choice := 0
	shouldTerm := false
	var d *basestreamleecher.BaseLeecher
	d = basestreamleecher.New(time.Hour, basestreamleecher.Callbacks{
		SelectSessionPeerCandidates: func() []string {
			nums := make([]uint64, 0, len(d.Peers))
			for p := range d.Peers {
				nums = append(nums, c18PeerNum(p))
			}
			sort.Slice(nums, func(i, j int) bool { return nums[i] < nums[j] })
			res := make([]string, len(nums))
			for i, n := range nums {
				res[i] = c18PeerName(n)
			}
			return res
		},
		ShouldTerminateSession: func() bool { return shouldTerm },
		StartSession: func(c []string) {
			p := c[choice%len(c)]
			cs := make([]string, len(c))
			for i, x := range c {
				cs[i] = vu.U64(c18PeerNum(x))
			}
			obs = append(obs, "S"+vu.U64(c18PeerNum(p))+":"+strings.Join(cs, ","))
			sess = &p
			vu.Stat("base_start")
		},
		TerminateSession: func() {
			if sess == nil {
				obs = append(obs, "T-")
			} else {
				obs = append(obs, "T"+vu.U64(c18PeerNum(*sess)))
			}
			sess = nil
		},
		OngoingSession: func() bool { return sess != nil },
		OngoingSessionPeer: func() string {
			if sess == nil {
				return ""
			}
			return *sess
		},
	})
	for _, op := range ops {
		if len(op) == 0 {
			continue
		}
		func() {
			defer func() {
				if r := recover(); r != nil {
					obs = append(obs, "PANIC")
					// the deferred Mu.Unlock of the method has run
					vu.Stat("base_panic")
				}
			}()
			switch op[0] {
			case "r":
				p, _ := strconv.ParseUint(op[1], 10, 64)
				if _, ok := d.Peers[c18PeerName(p)]; ok {
					vu.Stat("base_register_twice")
				}
				if d.Terminated {
					vu.Stat("base_register_after_terminate")
				}
				_ = d.RegisterPeer(c18PeerName(p))
			case "u":
				p, _ := strconv.ParseUint(op[1], 10, 64)
				choice, _ = strconv.Atoi(op[2])
				if _, ok := d.Peers[c18PeerName(p)]; !ok {
					vu.Stat("base_unregister_unknown")
				}
				if sess != nil && *sess == c18PeerName(p) {
					vu.Stat("base_unreg_session_peer")
				}
				_ = d.UnregisterPeer(c18PeerName(p))
			case "t":
				shouldTerm = op[1] == "1"
				choice, _ = strconv.Atoi(op[2])
				if len(d.Peers) == 0 && sess == nil && !d.Terminated {
					vu.Stat("base_tick_no_candidates")
				}
				d.Mu.Lock()
				d.Routine()
				d.Mu.Unlock()
			case "x":
				d.Terminate()
			default:
				panic("bad op " + op[0])
			}
		}()
		vu.Stat("base_op_" + op[0])
		obs = append(obs, "."+strconv.Itoa(d.PeersNum()))
	}
	return obs
}

func c18RunPeer(header []string, ops [][]string) []string {
	par, _ := strconv.Atoi(header[1])
	nruns, _ := strconv.Atoi(header[2])
	type ans struct {
		done, susp bool
		mask       uint64
		reqerr     bool // RequestChunks returns an error in this run
	}
	script := make([]ans, nruns)
	for i := 0; i < nruns; i++ {
		m, _ := strconv.ParseUint(header[3+3*i+2], 10, 64)
		sv, _ := strconv.Atoi(header[3+3*i+1]) // bit 0: Suspend() answer, bit 1: RequestChunks fails
		script[i] = ans{header[3+3*i] == "1", sv&1 == 1, m, sv&2 != 0}
	}
	var mu sync.Mutex
	var obs []string
	run := -1
	cur := func() ans {
		if run >= 0 && run < len(script) {
			return script[run]
		}
		return ans{done: true}
	}
	var wg sync.WaitGroup
	d := basepeerleecher.New(&wg, basepeerleecher.EpochDownloaderConfig{
		RecheckInterval:        time.Hour,
		DefaultChunkItemsNum:   c18ChunkNum(par),
		DefaultChunkItemsSize:  c18ChunkSize(par),
		ParallelChunksDownload: par,
	}, basepeerleecher.EpochDownloaderCallbacks{
		Done: func() bool {
			mu.Lock()
			defer mu.Unlock()
			run++
			a := cur()
			obs = append(obs, "D"+vu.B(a.done))
			if a.done {
				vu.Stat("peer_done")
			}
			return a.done
		},
		IsProcessed: func(id interface{}) bool {
			mu.Lock()
			defer mu.Unlock()
			a := cur()
			b := id.(uint64) < 16 && a.mask&(1<<id.(uint64)) != 0
			obs = append(obs, "I"+vu.U64(id.(uint64))+":"+vu.B(b))
			return b
		},
		Suspend: func() bool {
			mu.Lock()
			defer mu.Unlock()
			a := cur()
			obs = append(obs, "U"+vu.B(a.susp))
			if a.susp {
				vu.Stat("peer_suspended_run")
			}
			return a.susp
		},
		RequestChunks: func(maxNum uint32, maxSize uint64, maxChunks uint32) error {
			mu.Lock()
			defer mu.Unlock()
			obs = append(obs, fmt.Sprintf("R%d:%d:%d", maxChunks, maxNum, maxSize))
			vu.Stat("peer_request")
			if cur().reqerr {
				vu.Stat("peer_request_returns_error")
				return errC18Request
			}
			return nil
		},
	})
	d.Start()
	for _, op := range ops {
		if len(op) == 0 {
			continue
		}
		if op[0] != "c" {
			panic("bad op " + op[0])
		}
		id, _ := strconv.ParseUint(op[1], 10, 64)
		_ = d.NotifyChunkReceived(id)
		vu.Stat("peer_op_c")
	}
	// End of the history.  There is no way to see from outside whether the loop is idle, so
	// 2*par+1 probe notifications (id 999) are pushed: the channel holds 2*par entries, hence
	// the last send returns only after the loop has taken the first probe, i.e. after every
	// real notification has been processed completely.  Stop() then races with the probes:
	// the loop processes some number j of them (each completely or not at all).  The driver
	// accepts exactly the logs model(history ++ 999^j), j = 0..2*par+1.
	for i := 0; i < 2*par+1; i++ {
		_ = d.NotifyChunkReceived(uint64(999))
	}
	d.Stop()
	mu.Lock()
	defer mu.Unlock()
	return append(obs, "E")
}

// the chunk-request parameters depend on the parallelism so that both 32-bit and 64-bit values
// travel through RequestChunks
func c18ChunkNum(par int) uint32  { return uint32(7 + par) }
func c18ChunkSize(par int) uint64 { return 11 + uint64(par)<<33 }

type c18Chunk struct {
	op int
	id uint64
}

func c18RunTickerOnce(header []string, ops [][]string) []string {
	interval := 500 * time.Microsecond
	for _, op := range ops {
		if len(op) == 2 && op[0] == "i" {
			us, _ := strconv.Atoi(op[1])
			interval = time.Duration(us) * time.Microsecond
		}
	}
	par, _ := strconv.Atoi(header[1])
	nruns, _ := strconv.Atoi(header[2])
	type ans struct {
		done, susp bool
		mask       uint64
		reqerr     bool // RequestChunks returns an error in this run
	}
	script := make([]ans, nruns)
	for i := 0; i < nruns; i++ {
		m, _ := strconv.ParseUint(header[3+3*i+2], 10, 64)
		sv, _ := strconv.Atoi(header[3+3*i+1]) // bit 0: Suspend() answer, bit 1: RequestChunks fails
		script[i] = ans{header[3+3*i] == "1", sv&1 == 1, m, sv&2 != 0}
	}
	var mu sync.Mutex
	var obs []string
	run := -1
	cur := func() ans {
		if run >= 0 && run < len(script) {
			return script[run]
		}
		return ans{done: true}
	}
	var wg sync.WaitGroup
	d := basepeerleecher.New(&wg, basepeerleecher.EpochDownloaderConfig{
		RecheckInterval:        interval,
		DefaultChunkItemsNum:   c18ChunkNum(par),
		DefaultChunkItemsSize:  c18ChunkSize(par),
		ParallelChunksDownload: par,
	}, basepeerleecher.EpochDownloaderCallbacks{
		Done: func() bool {
			mu.Lock()
			defer mu.Unlock()
			run++
			a := cur()
			obs = append(obs, "D"+vu.B(a.done))
			if a.done {
				mu.Unlock()
				time.Sleep(1200 * time.Microsecond)
				mu.Lock()
			}
			return a.done
		},
		IsProcessed: func(id interface{}) bool {
			mu.Lock()
			defer mu.Unlock()
			c := id.(c18Chunk)
			b := c.id < 16 && cur().mask&(1<<c.id) != 0
			obs = append(obs, fmt.Sprintf("I%d#%d:%s", c.id, c.op, vu.B(b)))
			return b
		},
		Suspend: func() bool {
			mu.Lock()
			defer mu.Unlock()
			a := cur()
			obs = append(obs, "U"+vu.B(a.susp))
			return a.susp
		},
		RequestChunks: func(maxNum uint32, maxSize uint64, maxChunks uint32) error {
			mu.Lock()
			defer mu.Unlock()
			obs = append(obs, fmt.Sprintf("R%d:%d:%d", maxChunks, maxNum, maxSize))
			if cur().reqerr {
				vu.Stat("ticker_request_returns_error")
				return errC18Request
			}
			return nil
		},
	})
	d.Start()
	nchunks := 0
	for _, op := range ops {
		if len(op) == 0 {
			continue
		}
		switch op[0] {
		case "c":
			id, _ := strconv.ParseUint(op[1], 10, 64)
			_ = d.NotifyChunkReceived(c18Chunk{nchunks, id})
			nchunks++
			vu.Stat("ticker_op_c")
		case "w":
			time.Sleep(1200 * time.Microsecond)
			vu.Stat("ticker_op_w")
		case "i":
			vu.Stat("ticker_interval_" + op[1] + "us")
		case "x":
			d.Terminate()
			mu.Lock()
			obs = append(obs, "X")
			mu.Unlock()
			vu.Stat("ticker_op_x")
		case "k": // second use: Stop() then Start() again - the new loop leaves at once through quit
			d.Stop()
			mu.Lock()
			obs = append(obs, "X")
			mu.Unlock()
			d.Start()
			vu.Stat("ticker_stop_then_start")
		default:
			panic("bad op " + op[0])
		}
	}
	time.Sleep(1500 * time.Microsecond)
	d.Stop()
	mu.Lock()
	defer mu.Unlock()
	vu.StatN("ticker_runs", run+1)
	seenOps := map[string]bool{}
	for _, t := range obs {
		if i := strings.IndexByte(t, '#'); i >= 0 && t[0] == 'I' {
			seenOps[t[i+1:strings.IndexByte(t, ':')]] = true
		}
	}
	if nchunks > len(seenOps) {
		vu.StatN("ticker_notifications_never_swept", nchunks-len(seenOps))
	}
	return append(obs, "E")
}


// c18AfterStop tells whether the log has a callback after the leecher was told to stop
func c18AfterStop(obs []string) bool {
	stopped := false
	for _, t := range obs {
		if t == "E" {
			break
		}
		if stopped && t != "X" {
			return true
		}
		if t == "D1" || t == "X" {
			stopped = true
		}
	}
	return false
}

func c18RunTicker(header []string, ops [][]string) []string {
	var obs []string
	for attempt := 0; attempt < 6; attempt++ {
		obs = c18RunTickerOnce(header, ops)
		if c18AfterStop(obs) {
			vu.Stat("ticker_callback_after_stop")
			break
		}
		stops := false
		for _, t := range obs {
			if t == "D1" || t == "X" {
				stops = true
			}
		}
		if !stops {
			break
		}
	}
	return obs
}

// ---------------------------------------------------------------------------------------------
// Base leecher with its real loop:  L <hmask> <cmask> ; r <p> ; u <p> ; x ; xb ; w
//   Start() is called with recheckInterval = 300us, so ticker Routines (under Mu) run concurrently
//   with the API calls of the harness.  ShouldTerminateSession answers bit i of hmask at its
//   i-th call, StartSession picks candidates[(cmask >> 2i) & 3 mod len] at its i-th call.
//   xb / ub <p> = Terminate() / UnregisterPeer(p) issued while a ticker Routine is inside SelectSessionPeerCandidates (the
//   callback blocks until Terminate() has had time to reach Mu): forces the interleaving
//   "Routine holds Mu, Terminate arrives".
//   Every callback is logged with the kind of goroutine that made it (t: = the loop goroutine,
//   a: = an API call), API calls log >op before and <s<session>n<PeersNum> after.  The driver
//   checks that the log is linearizable (callbacks of a Routine run are not interleaved with
//   callbacks of an API call; register calls float between their markers), replays the model
//   on the linearization and compares (trace validation).

func c18Gid() string {
	var buf [64]byte
	n := runtime.Stack(buf[:], false)
	f := strings.Fields(string(buf[:n]))
	if len(f) >= 2 {
		return f[1]
	}
	return "?"
}

func c18RunLoop(header []string, ops [][]string) []string {
	hmask, _ := strconv.ParseUint(header[1], 10, 64)
	cmask, _ := strconv.ParseUint(header[2], 10, 64)
	var mu sync.Mutex
	var obs []string
	api := map[string]bool{c18Gid(): true}
	var sess *string
	hcalls, scalls := 0, 0
	blockSelect := false
	entered := make(chan struct{}, 1)
	release := make(chan struct{})
	tag := func() string {
		if api[c18Gid()] {
			return "a:"
		}
		return "t:"
	}
	logf := func(t string) { obs = append(obs, t) }
	sessTok := func() string {
		if sess == nil {
			return "-"
		}
		return vu.U64(c18PeerNum(*sess))
	}
	var d *basestreamleecher.BaseLeecher
	interval := 300 * time.Microsecond
	for _, op := range ops {
		if len(op) == 2 && op[0] == "i" {
			us, _ := strconv.Atoi(op[1])
			interval = time.Duration(us) * time.Microsecond
		}
	}
	d = basestreamleecher.New(interval, basestreamleecher.Callbacks{
		SelectSessionPeerCandidates: func() []string {
			nums := make([]uint64, 0, len(d.Peers))
			for p := range d.Peers {
				nums = append(nums, c18PeerNum(p))
			}
			sort.Slice(nums, func(i, j int) bool { return nums[i] < nums[j] })
			res := make([]string, len(nums))
			for i, n := range nums {
				res[i] = c18PeerName(n)
			}
			mu.Lock()
			tg := tag()
			logf(tg + "C" + strconv.Itoa(len(res)))
			wait := blockSelect && tg == "t:" && len(res) > 0
			if wait {
				blockSelect = false
			}
			mu.Unlock()
			if wait {
				entered <- struct{}{}
				<-release
			}
			return res
		},
		ShouldTerminateSession: func() bool {
			mu.Lock()
			defer mu.Unlock()
			b := hcalls < 64 && hmask&(1<<uint(hcalls)) != 0
			hcalls++
			logf(tag() + "H" + vu.B(b))
			return b
		},
		StartSession: func(c []string) {
			mu.Lock()
			defer mu.Unlock()
			ch := 0
			if scalls < 32 {
				ch = int((cmask >> uint(2*scalls)) & 3)
			}
			scalls++
			p := c[ch%len(c)]
			cs := make([]string, len(c))
			for i, x := range c {
				cs[i] = vu.U64(c18PeerNum(x))
			}
			logf(tag() + "S" + vu.U64(c18PeerNum(p)) + ":" + strings.Join(cs, ","))
			sess = &p
			vu.Stat("loop_start")
		},
		TerminateSession: func() {
			mu.Lock()
			defer mu.Unlock()
			logf(tag() + "T" + sessTok())
			sess = nil
		},
		OngoingSession: func() bool {
			mu.Lock()
			defer mu.Unlock()
			logf(tag() + "O" + vu.B(sess != nil))
			return sess != nil
		},
		OngoingSessionPeer: func() string {
			mu.Lock()
			defer mu.Unlock()
			logf(tag() + "P")
			if sess == nil {
				return ""
			}
			return *sess
		},
	})
	d.Start()
	call := func(name string, f func()) {
		mu.Lock()
		logf(">" + name)
		mu.Unlock()
		func() {
			defer func() {
				if r := recover(); r != nil {
					mu.Lock()
					logf("PANIC")
					mu.Unlock()
				}
			}()
			f()
		}()
		n := d.PeersNum()
		mu.Lock()
		logf("<s" + sessTok() + "n" + strconv.Itoa(n))
		mu.Unlock()
	}
	terminated := false
	for _, op := range ops {
		if len(op) == 0 {
			continue
		}
		vu.Stat("loop_op_" + op[0])
		switch op[0] {
		case "r":
			p, _ := strconv.ParseUint(op[1], 10, 64)
			call("r"+op[1], func() { _ = d.RegisterPeer(c18PeerName(p)) })
		case "u":
			p, _ := strconv.ParseUint(op[1], 10, 64)
			call("u"+op[1], func() { _ = d.UnregisterPeer(c18PeerName(p)) })
		case "x":
			if terminated {
				continue // a second Terminate panics on the closed channel: covered by mode B
			}
			terminated = true
			call("x", func() { d.Terminate() })
		case "xb", "ub":
			// the API call is issued while a ticker Routine is blocked inside
			// SelectSessionPeerCandidates (holding Mu)
			name, f := "x", func() { d.Terminate() }
			if op[0] == "ub" {
				p, _ := strconv.ParseUint(op[1], 10, 64)
				name, f = "u"+op[1], func() { _ = d.UnregisterPeer(c18PeerName(p)) }
			} else {
				if terminated {
					continue
				}
				terminated = true
			}
			mu.Lock()
			blockSelect = true
			mu.Unlock()
			blocked := false
			select {
			case <-entered:
				blocked = true
			case <-time.After(4 * time.Millisecond):
				mu.Lock()
				blockSelect = false
				mu.Unlock()
				select { // the callback may have slipped in
				case <-entered:
					blocked = true
				default:
				}
			}
			if blocked {
				vu.Stat("loop_call_during_select")
			}
			done := make(chan struct{})
			go func() {
				mu.Lock()
				api[c18Gid()] = true
				mu.Unlock()
				call(name, f)
				close(done)
			}()
			if blocked {
				time.Sleep(400 * time.Microsecond) // let the call reach Mu (or, if it does not take Mu first, run ahead)
				release <- struct{}{}
			}
			<-done
		case "w":
			time.Sleep(700 * time.Microsecond)
		case "i":
			vu.Stat("loop_interval_" + op[1] + "us")
		case "s": // second use: Start() again after Terminate() - the new loop leaves through Quit
			if terminated {
				d.Start()
				vu.Stat("loop_start_after_terminate")
			}
		default:
			panic("bad op " + op[0])
		}
	}
	time.Sleep(400 * time.Microsecond)
	if !terminated {
		call("x", func() { d.Terminate() }) // every history ends with Terminate()
	}
	d.Wg.Wait()
	mu.Lock()
	defer mu.Unlock()
	return append(obs, "E")
}

func c18GenLoop(r *rand.Rand, emit func(...string)) {
	in := []string{"L", strconv.FormatUint(r.Uint64()&r.Uint64(), 10), strconv.FormatUint(r.Uint64(), 10)}
	if r.Intn(8) == 0 {
		in = append(in, ";", "i", "40") // a very short recheck interval
	}
	npeers := 1 + r.Intn(3)
	nops := 2 + r.Intn(9)
	for i := 0; i < nops; i++ {
		in = append(in, ";")
		switch x := r.Intn(20); {
		case x < 6:
			in = append(in, "r", strconv.Itoa(1+r.Intn(npeers)))
		case x < 10:
			in = append(in, "u", strconv.Itoa(1+r.Intn(npeers)))
		case x < 17:
			in = append(in, "w")
		case x < 18:
			in = append(in, "x")
			if r.Intn(2) == 0 {
				in = append(in, ";", "s", ";", "w")
			}
		case x < 19:
			in = append(in, "ub", strconv.Itoa(1+r.Intn(npeers)))
		default:
			in = append(in, "xb")
		}
	}
	emit(in...)
}

func c18Split(input []string) (header []string, ops [][]string) {
	var cur []string
	first := true
	for _, t := range input {
		if t == ";" {
			if first {
				header, first = cur, false
			} else {
				ops = append(ops, cur)
			}
			cur = nil
		} else {
			cur = append(cur, t)
		}
	}
	if first {
		header = cur
	} else {
		ops = append(ops, cur)
	}
	return
}

func c18Run(input []string) []string {
	header, ops := c18Split(input)
	if len(header) == 0 {
		panic("empty header")
	}
	switch header[0] {
	case "B":
		return c18RunBase(ops)
	case "P":
		return c18RunPeer(header, ops)
	case "T":
		return c18RunTicker(header, ops)
	case "L":
		return c18RunLoop(header, ops)
	}
	panic("bad header")
}

func c18GenBase(r *rand.Rand, emit func(...string)) {
	npeers := 1 + r.Intn(4)
	nops := 1 + r.Intn(14)
	in := []string{"B"}
	withZero := r.Intn(12) == 0
	peer := func() string {
		if withZero && r.Intn(3) == 0 {
			return "0"
		}
		return strconv.Itoa(1 + r.Intn(npeers))
	}
	for i := 0; i < nops; i++ {
		in = append(in, ";")
		switch x := r.Intn(20); {
		case x < 6:
			in = append(in, "r", peer())
		case x < 11:
			in = append(in, "u", peer(), strconv.Itoa(r.Intn(5)))
		case x < 19:
			in = append(in, "t", strconv.Itoa(r.Intn(3)/2), strconv.Itoa(r.Intn(5)))
		default:
			in = append(in, "x")
		}
	}
	emit(in...)
}

func c18GenPeer(r *rand.Rand, emit func(...string)) {
	par := r.Intn(5)
	if r.Intn(10) == 0 {
		par = 0
		vu.Stat("peer_parallel_0")
	}
	if r.Intn(40) == 0 {
		par = 40 // a wide window (the size passed to RequestChunks exceeds 32 bits for every par >= 1)
		vu.Stat("peer_parallel_40")
	}
	nops := 1 + r.Intn(16)
	nruns := nops
	if r.Intn(4) == 0 {
		nruns = r.Intn(nops + 1)
	}
	in := []string{"P", strconv.Itoa(par), strconv.Itoa(nruns)}
	for i := 0; i < nruns; i++ {
		done := 0
		if r.Intn(25) == 0 {
			done = 1
		}
		susp := 0
		if r.Intn(4) == 0 {
			susp = 1
		}
		if r.Intn(3) == 0 {
			susp += 2 // the RequestChunks callback of this run returns an error
		}
		var mask uint64
		switch r.Intn(4) {
		case 0:
			mask = 0
		case 1:
			mask = 0xff
		default:
			mask = uint64(r.Intn(256))
		}
		in = append(in, strconv.Itoa(done), strconv.Itoa(susp), strconv.FormatUint(mask, 10))
	}
	seenID := map[int]bool{}
	for i := 0; i < nops; i++ {
		id := r.Intn(8)
		if seenID[id] {
			vu.Stat("peer_chunk_id_notified_twice")
		}
		seenID[id] = true
		in = append(in, ";", "c", strconv.Itoa(id))
	}
	emit(in...)
}

func c18GenTicker(r *rand.Rand, emit func(...string)) {
	par := 1 + r.Intn(4)
	if r.Intn(12) == 0 {
		par = 0 // no chunk is ever accepted or requested
		vu.Stat("ticker_parallel_0")
	}
	nruns := 64
	// burst: the peer over-delivers while the application processes nothing, so that more than
	// 2*parallel chunks are unprocessed and notifications are dropped; later the application
	// catches up and ticker runs follow
	burst := r.Intn(3) == 0
	stall := 0
	if burst {
		stall = 2*par + 2 + r.Intn(6)
	}
	in := []string{"T", strconv.Itoa(par), strconv.Itoa(nruns)}
	for i := 0; i < nruns; i++ {
		done := 0 // Done() need not be monotone
		if r.Intn(20) == 0 && i >= stall+4 {
			done = 1
		}
		susp := 0
		if r.Intn(4) == 0 {
			susp = 1
		}
		if r.Intn(3) == 0 {
			susp += 2 // the RequestChunks callback of this run returns an error
		}
		var mask uint64
		switch r.Intn(3) {
		case 0:
			mask = 0
		case 1:
			mask = 0xff
		default:
			mask = uint64(r.Intn(256))
		}
		if i < stall && r.Intn(6) != 0 {
			mask = 0
		}
		in = append(in, strconv.Itoa(done), strconv.Itoa(susp), strconv.FormatUint(mask, 10))
	}
	if r.Intn(8) == 0 {
		in = append(in, ";", "i", "50") // a very short RecheckInterval
	}
	nc := 1 + r.Intn(2*par+1)
	if burst {
		nc = 2*par + 1 + r.Intn(2*par+3)
	}
	xat := -1
	if r.Intn(5) == 0 {
		xat = r.Intn(nc)
	}
	for i := 0; i < nc; i++ {
		in = append(in, ";", "c", strconv.Itoa(r.Intn(8)))
		if (!burst && r.Intn(2) == 0) || (burst && r.Intn(6) == 0) {
			in = append(in, ";", "w")
		}
		if i == xat {
			switch r.Intn(4) {
			case 0: // Terminate twice
				in = append(in, ";", "x", ";", "x", ";", "w")
			case 1: // Stop, then Start again
				in = append(in, ";", "k", ";", "w")
			default:
				in = append(in, ";", "x", ";", "w")
			}
		}
	}
	if burst {
		for i := 0; i < 3+r.Intn(4); i++ {
			in = append(in, ";", "w")
		}
	}
	emit(in...)
}

func c18Gen(r *rand.Rand, n int, tier string, emit func(...string)) {
	// the known failing history of the pinned tree first (register, tick, unregister)
	emit("B", ";", "r", "1", ";", "t", "0", "0", ";", "u", "1", "0")
	// ... and of the peer leecher without the d.done guard: done at the first run, not done later
	emit("T", "1", "4", "1", "0", "0", "0", "0", "0", "0", "0", "0", "0", "0", "0", ";", "c", "1", ";", "w", ";", "w")
	// the request of the first run fails; afterwards the application is suspended and ticks follow
	{
		in := []string{"T", "2", "12", "0", "2", "0"}
		for i := 1; i < 12; i++ {
			in = append(in, "0", "1", "0")
		}
		in = append(in, ";", "c", "1", ";", "w", ";", "w", ";", "w")
		emit(in...)
	}
	// an over-delivering peer: parallelism 2, six chunks while nothing is processed (the buffer
	// holds 4, two notifications are dropped), then everything is processed and ticks follow
	{
		in := []string{"T", "2", "40"}
		for i := 0; i < 40; i++ {
			m := "0"
			if i >= 8 {
				m = "255"
			}
			in = append(in, "0", "0", m)
		}
		for i := 0; i < 6; i++ {
			in = append(in, ";", "c", strconv.Itoa(i))
		}
		in = append(in, ";", "w", ";", "w", ";", "w", ";", "w", ";", "w", ";", "w")
		emit(in...)
	}
	for i := 0; i < n; i++ {
		if i%2 == 0 {
			c18GenBase(r, emit)
		} else {
			c18GenPeer(r, emit)
		}
	}
	nt := n / 10
	if nt > 600 {
		nt = 600
	}
	for i := 0; i < nt; i++ {
		c18GenTicker(r, emit)
	}
	// the forced interleaving "a ticker Routine holds Mu inside SelectSessionPeerCandidates,
	// Terminate() arrives" first, then random loop histories
	emit("L", "0", "0", ";", "r", "1", ";", "u", "1", ";", "r", "1", ";", "xb", ";", "w")
	emit("L", "0", "0", ";", "r", "1", ";", "r", "2", ";", "w", ";", "u", "1", ";", "ub", "2", ";", "w")
	for i := 0; i < nt; i++ {
		c18GenLoop(r, emit)
	}
	if tier == "thorough" {
		// exhaustive small scope, base leecher: every history of length <= 5 over two peers
		syms := [][]string{{"r", "1"}, {"r", "2"}, {"x"}}
		for _, p := range []string{"1", "2"} {
			for _, c := range []string{"0", "1"} {
				syms = append(syms, []string{"u", p, c})
			}
		}
		for _, st := range []string{"0", "1"} {
			for _, c := range []string{"0", "1"} {
				syms = append(syms, []string{"t", st, c})
			}
		}
		var rec func(prefix []string, depth int)
		rec = func(prefix []string, depth int) {
			if depth > 0 {
				emit(prefix...)
			}
			if depth == 5 {
				return
			}
			for _, sy := range syms {
				next := append(append(append([]string{}, prefix...), ";"), sy...)
				rec(next, depth+1)
			}
		}
		rec([]string{"B"}, 0)
	}
}

func init() {
	vu.Register("C18", &vu.Prop{Gen: c18Gen, Run: c18Run, Parallel: 8})
}
