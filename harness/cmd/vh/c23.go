package main

import (
	"math/rand"
	"strconv"
	"strings"

	"verifharness/kvh"
	"verifharness/vu"
)

// C23: every backend and every wrapper stacking behaves as one ordered byte-string map.
// Stackings of depth <= 3 over {memory, leveldb (temp dir), pebble (temp dir)} with layers
// table(prefix in {"",00,61,ff,ffff}) / flushable / synced (and, rarely, LazyFlushable); the op language of C22 addressed
// to every level of the stack.

var c23Prefixes = []string{"-", "00", "61", "ff", "ffff"}

func c23History(r *rand.Rand) []string {
	base := []string{"mem", "ldb", "pbl"}[r.Intn(3)]
	if base != "mem" && r.Intn(10) == 0 {
		base += "!" + strconv.Itoa(r.Intn(5)) // fresh engine, one of the constructor configurations
	} else if base == "mem" && r.Intn(8) == 0 {
		base = "mem!" // through memorydb.NewProducer with a shared namespace
	}
	header := []string{base}
	depth := r.Intn(4)
	var hints []string
	for i := 0; i < depth; i++ {
		x := r.Intn(3)
		if r.Intn(12) == 0 {
			x = 3
		}
		switch x {
		case 3:
			header = append(header, "z") // LazyFlushable
		case 0:
			p := c23Prefixes[r.Intn(len(c23Prefixes))]
			header = append(header, "t"+p)
			hints = append(hints, p)
		case 1:
			header = append(header, "f")
		default:
			header = append(header, "s")
		}
	}
	handles := []string{"0", "0", "0"}
	for d := 0; d <= depth; d++ {
		handles = append(handles, strconv.Itoa(d))
	}
	if r.Intn(4) == 0 {
		p := c23Prefixes[r.Intn(len(c23Prefixes))]
		handles = append(handles, "0/"+p)
		hints = append(hints, p)
	}
	if r.Intn(3) == 0 {
		// a tree of tables: 2-4 sibling sub-tables (NewTable) of one kept parent, nested 1-3 levels,
		// all used interleaved; each is the view of the store restricted to the concatenated prefix
		sub := []string{"61", "62", "00", "ff", "6161", "-"}
		parent := strconv.Itoa(r.Intn(depth + 1))
		for lvl := 1 + r.Intn(3); lvl > 0; lvl-- {
			parent += "/" + c23Prefixes[r.Intn(len(c23Prefixes))]
			k := 2 + r.Intn(3)
			first := r.Intn(len(sub))
			var sibs []string
			for j := 0; j < k; j++ {
				sibs = append(sibs, parent+"/"+sub[(first+j)%len(sub)])
			}
			handles = append(handles, sibs...)
			handles = append(handles, sibs...)
			parent = sibs[r.Intn(len(sibs))]
			parent = parent[:strings.LastIndex(parent, "/")] + "/" + sub[(first+r.Intn(k))%len(sub)]
		}
	}
	return kvh.Gen(r, kvh.GenCfg{Header: header, Handles: handles, NOps: 10 + r.Intn(50),
		BigValues: r.Intn(15) == 0, SweepPairs: 8, KeyHints: hints,
		Reopen: base[:3] != "mem" && r.Intn(3) == 0, Stat: r.Intn(3) == 0, ECompact: r.Intn(3) == 0, Live: r.Intn(8) == 0})
}

func c23Gen(r *rand.Rand, n int, tier string, emit func(input ...string)) {
	for i := 0; i < n; i++ {
		emit(c23History(r)...)
	}
}

func init() {
	vu.Register("C23", &vu.Prop{Gen: c23Gen, Run: func(in []string) []string { return kvh.RunCase(in, vu.Stat) },
		Teardown: kvh.Teardown})
}
