package main

import (
	"fmt"
	"math/rand"
	"os"
	"path/filepath"
	"regexp"
	"sort"
	"strconv"
	"strings"

	"github.com/Fantom-foundation/lachesis-base/utils/piecefunc"

	"verifharness/vu"
)

// C31: piecefunc.NewFunc on a dot list, then the returned function on several arguments.
//   F x1 y1 x2 y2 ... ; a1 a2 ...   ->  ERR <kind>  |  f(a1) f(a2) ...

const c31MaxVal = uint64(18446744073709551615)/1000000 - 1

const (
	c31KiB = 1024
	c31MiB = 1024 * 1024
)

// the production tables (kvdb/leveldb/leveldb.go and kvdb/pebble/pebble.go: adjustCache; unexported
// closures there, so the dot lists are replicated here)
var c31LevelDB = []piecefunc.Dot{
	{X: 0, Y: 16 * c31KiB}, {X: 12 * c31MiB, Y: 100 * c31KiB}, {X: 25 * c31MiB, Y: 1 * c31MiB},
	{X: 47 * c31MiB, Y: 10 * c31MiB}, {X: 62 * c31MiB, Y: 14 * c31MiB}, {X: 74 * c31MiB, Y: 18 * c31MiB},
	{X: 99 * c31MiB, Y: 25 * c31MiB}, {X: 153 * c31MiB, Y: 40 * c31MiB}, {X: 317 * c31MiB, Y: 100 * c31MiB},
	{X: 403 * c31MiB, Y: 129 * c31MiB}, {X: 715 * c31MiB, Y: 216 * c31MiB}, {X: 889 * c31MiB, Y: 300 * c31MiB},
	{X: 1100 * c31MiB, Y: 437 * c31MiB}, {X: 1530 * c31MiB, Y: 534 * c31MiB}, {X: 1900 * c31MiB, Y: 703 * c31MiB},
	{X: 2800 * c31MiB, Y: 1000 * c31MiB}, {X: 2800000 * c31MiB, Y: 1000000 * c31MiB},
}
var c31Pebble = []piecefunc.Dot{
	{X: 0, Y: 16 * c31KiB}, {X: 35 * c31MiB, Y: 100 * c31KiB}, {X: 44 * c31MiB, Y: 336 * c31KiB},
	{X: 53 * c31MiB, Y: 538 * c31KiB}, {X: 72 * c31MiB, Y: 808 * c31KiB}, {X: 140 * c31MiB, Y: 809 * c31KiB},
	{X: 151 * c31MiB, Y: 875 * c31KiB}, {X: 172 * c31MiB, Y: 1 * c31MiB}, {X: 177 * c31MiB, Y: 2955 * c31KiB},
	{X: 250 * c31MiB, Y: 5370 * c31KiB}, {X: 347 * c31MiB, Y: 8187 * c31KiB}, {X: 401 * c31MiB, Y: 10 * c31MiB},
	{X: 484 * c31MiB, Y: 13563 * c31KiB}, {X: 645 * c31MiB, Y: 18 * c31MiB}, {X: 765 * c31MiB, Y: 24128 * c31KiB},
	{X: 1000 * c31MiB, Y: 31478 * c31KiB}, {X: 1258 * c31MiB, Y: 40 * c31MiB}, {X: 1337 * c31MiB, Y: 100 * c31MiB},
	{X: 1685 * c31MiB, Y: 130 * c31MiB}, {X: 2159 * c31MiB, Y: 168 * c31MiB}, {X: 2647 * c31MiB, Y: 230 * c31MiB},
	{X: 3068 * c31MiB, Y: 300 * c31MiB}, {X: 3863 * c31MiB, Y: 362 * c31MiB}, {X: 5142 * c31MiB, Y: 550 * c31MiB},
	{X: 5671 * c31MiB, Y: 1000 * c31MiB}, {X: 5671000 * c31MiB, Y: 1000000 * c31MiB},
}

var c31DotRe = regexp.MustCompile(`X:\s*([^,{}]+),\s*Y:\s*([^,{}]+),`)

func c31Expr(e string) (uint64, bool) {
	v := uint64(1)
	for _, f := range strings.Split(e, "*") {
		f = strings.TrimSpace(f)
		switch f {
		case "opt.KiB":
			v *= c31KiB
		case "opt.MiB":
			v *= c31MiB
		case "opt.GiB":
			v *= 1024 * c31MiB
		default:
			n, err := strconv.ParseUint(f, 10, 64)
			if err != nil {
				return 0, false
			}
			v *= n
		}
	}
	return v, true
}

// c31SourceTable reads the adjustCache dot list out of the source file of the repo under test
// (VERIF_REPO), so that the production table that is checked is the one in the tree; falls
// back to the replica above (and says so in the stats) when the file cannot be parsed.
func c31SourceTable(rel string, fallback []piecefunc.Dot) []piecefunc.Dot {
	repo := os.Getenv("VERIF_REPO")
	if repo == "" {
		repo = "/repo"
	}
	raw, err := os.ReadFile(filepath.Join(repo, rel))
	if err == nil {
		src := string(raw)
		if i := strings.Index(src, "var adjustCache = piecefunc.NewFunc([]piecefunc.Dot{"); i >= 0 {
			src = src[i:]
			if j := strings.Index(src, "\n})"); j >= 0 {
				var dots []piecefunc.Dot
				ok := true
				for _, m := range c31DotRe.FindAllStringSubmatch(src[:j], -1) {
					x, okx := c31Expr(m[1])
					y, oky := c31Expr(m[2])
					ok = ok && okx && oky
					dots = append(dots, piecefunc.Dot{X: x, Y: y})
				}
				if ok && len(dots) > 0 {
					vu.Stat("prod_table_from_source")
					return dots
				}
			}
		}
	}
	vu.Stat("prod_table_fallback_replica")
	return fallback
}

func c31Coord(r *rand.Rand) uint64 {
	switch r.Intn(12) {
	case 0:
		return uint64(r.Intn(3))
	case 1:
		return 1000000 + uint64(r.Intn(3)) - 1
	case 2:
		return c31MaxVal - uint64(r.Intn(3))
	case 3:
		return uint64(r.Intn(2000))
	case 4:
		return uint64(r.Int63n(int64(c31MaxVal)))
	case 5:
		return uint64(1) << uint(r.Intn(44))
	case 6:
		return uint64(r.Int63n(1 << 32))
	case 7:
		return uint64(r.Intn(50)) * 1000000
	default:
		return uint64(r.Int63n(100000000))
	}
}

func c31Args(r *rand.Rand, dots []piecefunc.Dot) []string {
	var xs []uint64
	for i, d := range dots {
		xs = append(xs, d.X, d.X+1, d.X-1) // wrap-around at 0 / 2^64-1 intended
		if i+1 < len(dots) && dots[i+1].X > d.X {
			gap := dots[i+1].X - d.X
			xs = append(xs, d.X+gap/2, d.X+gap/3, d.X+uint64(r.Int63n(int64(gap%(1<<62))+1)))
		}
	}
	xs = append(xs, 0, ^uint64(0), ^uint64(0)-1, c31MaxVal, c31MaxVal+1, r.Uint64(), c31Coord(r))
	out := make([]string, len(xs))
	for i, x := range xs {
		out[i] = vu.U64(x)
	}
	return out
}

func c31Emit(emit func(...string), dots []piecefunc.Dot, args []string) {
	in := []string{"F"}
	for _, d := range dots {
		in = append(in, vu.U64(d.X), vu.U64(d.Y))
	}
	in = append(in, ";")
	emit(append(in, args...)...)
}

func c31GenDots(r *rand.Rand) []piecefunc.Dot {
	n := 2 + r.Intn(5)
	if k := r.Intn(60); k < 10 { // long lists: the search loop breaks late, arguments hit interior dots
		n = 10 + r.Intn(21)
		vu.Stat("dots_10_to_30")
	} else if k == 10 { // very long tables
		n = 100 + r.Intn(201)
		vu.Stat("dots_100_to_300")
	}
	xs := make([]uint64, 0, n)
	seen := map[uint64]bool{}
	cluster := r.Intn(3) == 0
	base := c31Coord(r)
	for len(xs) < n {
		x := c31Coord(r)
		if cluster { // neighbouring dots a few units apart: the rounding of ratio matters most
			x = base + uint64(r.Intn(40+3*n))
			if x > c31MaxVal {
				x = c31MaxVal - uint64(r.Intn(40+3*n))
			}
		}
		if !seen[x] {
			seen[x] = true
			xs = append(xs, x)
		}
	}
	sort.Slice(xs, func(i, j int) bool { return xs[i] < xs[j] })
	dots := make([]piecefunc.Dot, n)
	for i := range dots {
		dots[i] = piecefunc.Dot{X: xs[i], Y: c31Coord(r)}
	}
	return dots
}

func c31Malform(r *rand.Rand, dots []piecefunc.Dot) []piecefunc.Dot {
	d := append([]piecefunc.Dot{}, dots...)
	i := r.Intn(len(d))
	switch r.Intn(8) {
	case 0:
		return d[:r.Intn(2)] // too few
	case 1:
		if i > 0 {
			d[i].X = d[i-1].X // equal X
		} else {
			d[1].X = d[0].X
		}
	case 2:
		j := r.Intn(len(d))
		d[i], d[j] = d[j], d[i] // swapped (a no-op swap leaves a valid list: also fine)
	case 3:
		d[i].Y = c31MaxVal + 1 + uint64(r.Intn(2))
	case 4:
		d[len(d)-1].X = c31MaxVal + 1 + uint64(r.Intn(2))
	case 5:
		d[i].Y = ^uint64(0) - uint64(r.Intn(2))
	case 6:
		d[len(d)-1].X = ^uint64(0)
		d[i].Y = c31MaxVal + 1 // both too large: which panic comes first
	default:
		d[0].X = c31MaxVal + 5 // first X too large and the rest non-monotonic
	}
	return d
}

func init() {
	vu.Register("C31", &vu.Prop{
		Gen: func(r *rand.Rand, n int, tier string, emit func(...string)) {
			// the two production tables: all dot neighbourhoods + many arguments
			for _, tbl := range [][]piecefunc.Dot{
				c31SourceTable("kvdb/leveldb/leveldb.go", c31LevelDB),
				c31SourceTable("kvdb/pebble/pebble.go", c31Pebble)} {
				c31Emit(emit, tbl, c31Args(r, tbl))
				m := n / 10
				for i := 0; i < m; i++ {
					var args []string
					for k := 0; k < 50; k++ {
						var x uint64
						switch r.Intn(3) {
						case 0:
							x = uint64(r.Int63n(6000 * c31MiB))
						case 1:
							x = uint64(r.Int63n(int64(tbl[len(tbl)-1].X) + 1000))
						default:
							x = uint64(r.Int63n(256*c31MiB)) + uint64(r.Intn(64))*c31MiB
						}
						args = append(args, vu.U64(x))
					}
					c31Emit(emit, tbl, args)
				}
			}
			for i := 0; i < n; i++ {
				dots := c31GenDots(r)
				if r.Intn(5) == 0 {
					dots = c31Malform(r, dots)
				}
				c31Emit(emit, dots, c31Args(r, dots))
			}
		},
		Run: func(in []string) (obs []string) {
			var dots []piecefunc.Dot
			i := 1
			for ; i < len(in) && in[i] != ";"; i += 2 {
				x, _ := strconv.ParseUint(in[i], 10, 64)
				y, _ := strconv.ParseUint(in[i+1], 10, 64)
				dots = append(dots, piecefunc.Dot{X: x, Y: y})
			}
			args := in[i+1:]
			var f func(uint64) uint64
			func() {
				defer func() {
					if p := recover(); p != nil {
						msg := fmt.Sprint(p)
						kind := "other:" + strings.ReplaceAll(msg, " ", "_")
						switch msg {
						case "too few dots":
							kind = "toofew"
						case "non monotonic X":
							kind = "nonmono"
						case "too large Y":
							kind = "largeY"
						case "too large X":
							kind = "largeX"
						}
						vu.Stat("newfunc_" + kind)
						obs = []string{"ERR", kind}
					}
				}()
				f = piecefunc.NewFunc(dots)
			}()
			if f == nil {
				return obs
			}
			vu.Stat("newfunc_ok")
			for _, a := range args {
				x, _ := strconv.ParseUint(a, 10, 64)
				func() {
					defer func() {
						if p := recover(); p != nil {
							vu.Stat("get_panic")
							obs = append(obs, "PANIC")
						}
					}()
					y := f(x)
					switch {
					case x < dots[0].X:
						vu.Stat("get_before")
					case x > dots[len(dots)-1].X:
						vu.Stat("get_after")
					default:
						vu.Stat("get_inside")
						for i := 1; i+1 < len(dots); i++ {
							if dots[i].X == x {
								vu.Stat("get_at_interior_dot")
								if i >= 8 {
									vu.Stat("get_at_interior_dot_index_ge_8")
								}
							}
						}
					}
					obs = append(obs, vu.U64(y))
				}()
			}
			return obs
		},
	})
}
