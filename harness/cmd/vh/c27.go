package main

import (
	"errors"
	"fmt"
	"math/rand"
	"sort"
	"strconv"
	"strings"
	"sync"
	"time"

	"github.com/Fantom-foundation/lachesis-base/kvdb"
	"github.com/Fantom-foundation/lachesis-base/kvdb/cachedproducer"
	"github.com/Fantom-foundation/lachesis-base/kvdb/memorydb"

	"verifharness/vu"
)

// C27: caching producer.  Case: <ctor W|A> ; op ; op ; ...
//   W = cachedproducer.Wrap over a counting kvdb.DBProducer, A = WrapAll over a counting FullDBProducer
//   ops: O name | F name (underlying OpenDB fails this time) | C name | D name (newest handle of name)
//        CH uid | DH uid (handle that wraps underlying store uid, possibly stale)
//        PAR a x b y (two calls, b issued while a is inside its underlying Open/Close/Drop)
// Observation per op: "; <res> <underlying calls>", see coq/extract/C27/driver.ml.
// A panic inside OpenDB leaves the producer's mutex locked: the remaining ops are not run ("dead").

type c27prod struct {
	mu     sync.Mutex
	next   int
	fail   bool
	failClose bool // the next underlying Close returns an error
	events []string
	// gate: when armed, the next underlying call (OpenDB / Close / Drop) logs its event, reports
	// that it is inside the call and blocks until released.  Used by the PAR family to issue a
	// second call while the first one is inside the underlying database.
	armed   bool
	entered chan struct{}
	release chan struct{}
}

// enter logs the underlying call and blocks in it if the gate is armed.
func (p *c27prod) enter(ev string) {
	p.mu.Lock()
	p.events = append(p.events, ev)
	block := p.armed
	p.armed = false
	ent, rel := p.entered, p.release
	p.mu.Unlock()
	if block {
		ent <- struct{}{}
		<-rel
	}
}

type c27store struct {
	kvdb.Store
	uid int
	p   *c27prod
}

func (s *c27store) Close() error {
	s.p.enter("close:" + strconv.Itoa(s.uid))
	s.p.mu.Lock()
	f := s.p.failClose
	s.p.failClose = false
	s.p.mu.Unlock()
	if f {
		return errors.New("underlying close failed")
	}
	return nil
}

func (s *c27store) Drop() {
	s.p.enter("drop:" + strconv.Itoa(s.uid))
}

func (p *c27prod) OpenDB(name string) (kvdb.Store, error) {
	n := strings.TrimPrefix(name, "db")
	p.mu.Lock()
	fail := p.fail
	uid := p.next
	if !fail {
		p.next++
	}
	p.mu.Unlock()
	if fail {
		p.enter("openfail:" + n)
		return nil, errors.New("underlying open failed")
	}
	p.enter("open:" + n + ":" + strconv.Itoa(uid))
	return &c27store{Store: memorydb.New(), uid: uid, p: p}, nil
}

// the rest of kvdb.FullDBProducer (not used by openDB)
func (p *c27prod) Names() []string                                  { return nil }
func (p *c27prod) NotFlushedSizeEst() int                           { return 0 }
func (p *c27prod) Flush(id []byte) error                            { return nil }
func (p *c27prod) Initialize(n []string, id []byte) ([]byte, error) { return id, nil }
func (p *c27prod) Close() error                                     { return nil }

type c27call struct {
	res string
	h   kvdb.Store // handle returned by a successful OpenDB
	uid int
}

func c27Run(in []string) []string {
	var groups [][]string
	cur := []string{}
	for _, t := range in {
		if t == ";" {
			groups = append(groups, cur)
			cur = []string{}
		} else {
			cur = append(cur, t)
		}
	}
	groups = append(groups, cur)
	if len(groups[0]) != 1 {
		panic("bad header")
	}
	p := &c27prod{}
	var prod kvdb.DBProducer
	if strings.HasPrefix(groups[0][0], "A") {
		prod = cachedproducer.WrapAll(p)
	} else {
		prod = cachedproducer.Wrap(p)
	}
	byUID := map[int]kvdb.Store{} // handle (the *StoreWithFn) that wraps store uid
	newest := map[string]int{}    // name -> uid of the newest handle
	obs := []string{}
	dead := false

	// resolve the handle an op acts on (before the call is issued)
	resolve := func(o []string) (kvdb.Store, bool) {
		switch o[0] {
		case "C", "D", "CE":
			uid, ok := newest[o[1]]
			if !ok {
				return nil, false
			}
			return byUID[uid], true
		case "CH", "DH":
			uid, _ := strconv.Atoi(o[1])
			h, ok := byUID[uid]
			return h, ok
		}
		return nil, true
	}
	// issue one call (may run in its own goroutine)
	issue := func(o []string, h kvdb.Store, hok bool) (c c27call) {
		defer func() {
			if r := recover(); r != nil {
				c.res = "PANIC"
				vu.Stat("panic:" + strings.ReplaceAll(fmt.Sprint(r), " ", "_"))
			}
		}()
		switch o[0] {
		case "O", "F":
			if o[0] == "F" {
				p.mu.Lock()
				p.fail = true
				p.mu.Unlock()
			}
			st, err := prod.OpenDB("db" + o[1])
			p.mu.Lock()
			p.fail = false
			p.mu.Unlock()
			if err != nil {
				return c27call{res: "openerr"}
			}
			w, ok := st.(*cachedproducer.StoreWithFn)
			if !ok {
				return c27call{res: "h?notwrapped"}
			}
			uid := w.Store.(*c27store).uid
			return c27call{res: "h" + strconv.Itoa(uid), h: st, uid: uid}
		case "C", "CH", "CE":
			if !hok {
				return c27call{res: "nohandle"}
			}
			if o[0] == "CE" { // scripted: the underlying Close, if this call reaches it, fails
				p.mu.Lock()
				p.failClose = true
				p.mu.Unlock()
			}
			err := h.Close()
			p.mu.Lock()
			p.failClose = false
			p.mu.Unlock()
			if err != nil {
				if strings.Contains(err.Error(), "more times") {
					vu.Stat("overclose")
					return c27call{res: "overclose"}
				}
				vu.Stat("underlying_close_error")
				return c27call{res: "closeerr"}
			}
			return c27call{res: "ok"}
		case "D", "DH":
			if !hok {
				return c27call{res: "nohandle"}
			}
			h.Drop()
			return c27call{res: "ok"}
		}
		panic("bad op " + o[0])
	}
	// book-keeping after a call returned
	commit := func(o []string, c *c27call) {
		if c.h == nil {
			return
		}
		if prev, seen := byUID[c.uid]; seen && prev != c.h {
			c.res += "!otherpointer"
		} else if seen {
			vu.Stat("open_cached")
		}
		byUID[c.uid] = c.h
		newest[o[1]] = c.uid
	}

	for _, o := range groups[1:] {
		if len(o) == 0 {
			continue
		}
		if dead {
			obs = append(obs, ";", "dead", "-")
			continue
		}
		vu.Stat("op_" + o[0])
		p.mu.Lock()
		p.events = p.events[:0]
		p.mu.Unlock()
		if o[0] == "PAR" {
			// PAR a x b y: call a is issued first; the second call is issued while the first is
			// inside its underlying call (or after it returned, if it makes none); then the
			// first is released.  Handles are resolved before either call starts.
			if len(o) != 5 {
				panic("bad PAR")
			}
			a, b := o[1:3], o[3:5]
			ha, oka := resolve(a)
			hb, okb := resolve(b)
			p.mu.Lock()
			p.armed = true
			p.entered = make(chan struct{}, 1)
			p.release = make(chan struct{})
			ent, rel := p.entered, p.release
			p.mu.Unlock()
			done1 := make(chan c27call, 1)
			go func() { done1 <- issue(a, ha, oka) }()
			var c1, c2 c27call
			first := false
			select {
			case <-ent:
				vu.Stat("par_overlap_" + a[0] + b[0])
			case c1 = <-done1:
				first = true
				vu.Stat("par_no_underlying_call")
			case <-time.After(3 * time.Second):
				return append(obs, ";", "HANG")
			}
			p.mu.Lock()
			p.armed = false
			p.mu.Unlock()
			done2 := make(chan c27call, 1)
			go func() { done2 <- issue(b, hb, okb) }()
			select {
			case c2 = <-done2:
			case <-time.After(3 * time.Second):
				close(rel)
				return append(obs, ";", "HANG")
			}
			close(rel)
			if !first {
				select {
				case c1 = <-done1:
				case <-time.After(3 * time.Second):
					return append(obs, ";", "HANG")
				}
			}
			// "newest handle" = the one returned last: the blocked first call returns after the second
			if first {
				commit(a, &c1)
				commit(b, &c2)
			} else {
				commit(b, &c2)
				commit(a, &c1)
			}
			if c1.res == "PANIC" || c2.res == "PANIC" {
				dead = true
			}
			p.mu.Lock()
			evs := append([]string{}, p.events...)
			p.mu.Unlock()
			sort.Strings(evs)
			ev := "-"
			if len(evs) > 0 {
				ev = strings.Join(evs, ",")
			}
			obs = append(obs, ";", "par", c1.res, c2.res, ev)
			continue
		}
		h, hok := resolve(o)
		c := issue(o, h, hok)
		commit(o, &c)
		if c.res == "PANIC" {
			dead = true
		}
		ev := "-"
		if len(p.events) > 0 {
			ev = strings.Join(p.events, ",")
		}
		obs = append(obs, ";", c.res, ev)
	}
	return obs
}

func c27GenOps(r *rand.Rand, n int, names int, stale bool) []string {
	var out []string
	uids := 0
	for i := 0; i < n; i++ {
		name := strconv.Itoa(r.Intn(names))
		out = append(out, ";")
		x := r.Intn(100)
		switch {
		case x < 38:
			out = append(out, "O", name)
			uids++
		case x < 43:
			out = append(out, "F", name)
		case x < 78:
			out = append(out, "C", name)
		case x < 92 || !stale:
			out = append(out, "D", name)
		case x < 97:
			out = append(out, "CH", strconv.Itoa(r.Intn(uids+1)))
		default:
			out = append(out, "DH", strconv.Itoa(r.Intn(uids+1)))
		}
	}
	return out
}

func init() {
	vu.Register("C27", &vu.Prop{
		Gen: func(r *rand.Rand, n int, tier string, emit func(...string)) {
			for _, c := range []string{"W", "A"} {
				emit(c, ";", "O", "0")
				emit(c, ";", "O", "0", ";", "O", "0", ";", "C", "0", ";", "C", "0", ";", "C", "0")
				emit(c, ";", "O", "0", ";", "D", "0", ";", "D", "0", ";", "O", "0", ";", "D", "0")
				emit(c, ";", "C", "1", ";", "F", "1", ";", "O", "1", ";", "C", "1", ";", "O", "1", ";", "C", "1")
				// a failed and a cached OpenDB re-arm Drop (two OpenDB calls, two drops of one store)
				emit(c, ";", "O", "0", ";", "C", "0", ";", "D", "0", ";", "F", "0", ";", "D", "0", ";", "D", "0")
				emit(c, ";", "O", "0", ";", "D", "0", ";", "O", "0", ";", "D", "0", ";", "D", "0")
			}
			// exhaustive: all sequences of length <= depth over {O,C,D} x 2 names (+F on one name)
			depth := 4
			if tier == "thorough" {
				depth = 6
			}
			alpha := [][]string{{"O", "0"}, {"C", "0"}, {"D", "0"}, {"O", "1"}, {"C", "1"}, {"F", "0"}}
			var rec func(prefix []string, d int)
			rec = func(prefix []string, d int) {
				if d == 0 {
					return
				}
				for _, a := range alpha {
					q := append(append(append([]string{}, prefix...), ";"), a...)
					if d == 1 {
						emit(q...)
					}
					rec(q, d-1)
				}
			}
			for d := 1; d <= depth; d++ {
				rec([]string{"W"}, d)
				rec([]string{"A"}, d)
			}
			for i := 0; i < n; i++ {
				c := "W"
				if r.Intn(2) == 0 {
					c = "A"
				}
				in := []string{c}
				in = append(in, c27GenOps(r, 1+r.Intn(30), 1+r.Intn(3), r.Intn(5) == 0)...)
				emit(in...)
			}
			// overlapping calls on forced interleavings (PAR a x b y: b is issued while a is inside
			// its underlying call): every pair over {O0,C0,D0,O1,C1,D1} after every prefix and
			// before every suffix of a small set, for both constructors
			parOps := [][]string{{"O", "0"}, {"C", "0"}, {"D", "0"}, {"O", "1"}, {"C", "1"}, {"D", "1"}}
			prefixes := [][]string{{}, {"O", "0"}, {"O", "0", ";", "O", "0"}, {"O", "0", ";", "C", "0"}, {"O", "0", ";", "D", "0"},
				{"O", "0", ";", "O", "1"}, {"O", "0", ";", "C", "0", ";", "D", "0"}, {"O", "0", ";", "O", "0", ";", "D", "0", ";", "C", "0"}}
			suffixes := [][]string{{}, {"C", "0"}, {"D", "0"}, {"O", "0", ";", "D", "0"}, {"C", "0", ";", "C", "0", ";", "O", "0"}}
			for _, c := range []string{"W", "A"} {
				for _, pre := range prefixes {
					for _, a := range parOps {
						for _, b := range parOps {
							for si, suf := range suffixes {
								if tier != "thorough" && si > 2 && c == "A" {
									continue
								}
								in := []string{c}
								if len(pre) > 0 {
									in = append(in, ";")
									in = append(in, pre...)
								}
								in = append(in, ";", "PAR", a[0], a[1], b[0], b[1])
								if len(suf) > 0 {
									in = append(in, ";")
									in = append(in, suf...)
								}
								emit(in...)
							}
						}
					}
				}
			}
			// scripted underlying Close errors (CE): the wrapper releases the entry before calling the
			// underlying Close and returns its error; afterwards the name is closed
			ceAlpha := [][]string{{"O", "0"}, {"C", "0"}, {"CE", "0"}, {"D", "0"}, {"O", "1"}, {"CE", "1"}}
			var cerec func(prefix []string, d int)
			cerec = func(prefix []string, d int) {
				if d == 0 {
					return
				}
				for _, a := range ceAlpha {
					q := append(append(append([]string{}, prefix...), ";"), a...)
					hasCE := false
					for _, t := range q {
						if t == "CE" {
							hasCE = true
						}
					}
					if hasCE {
						emit(q...)
					}
					cerec(q, d-1)
				}
			}
			cerec([]string{"W"}, 4)
			cerec([]string{"A"}, 4)
			for i := 0; i < n/10; i++ {
				c := []string{"W", "A"}[r.Intn(2)]
				in := []string{c}
				for j := 0; j < 3+r.Intn(15); j++ {
					o := ceAlpha[r.Intn(len(ceAlpha))]
					in = append(in, ";", o[0], o[1])
				}
				emit(in...)
			}
			// random histories with several overlaps
			for i := 0; i < n/10; i++ {
				c := []string{"W", "A"}[r.Intn(2)]
				in := []string{c}
				for j := 0; j < 2+r.Intn(10); j++ {
					if r.Intn(3) == 0 {
						a, b := parOps[r.Intn(len(parOps))], parOps[r.Intn(len(parOps))]
						in = append(in, ";", "PAR", a[0], a[1], b[0], b[1])
					} else {
						o := parOps[r.Intn(len(parOps))]
						in = append(in, ";", o[0], o[1])
					}
				}
				emit(in...)
			}
		},
		Run: c27Run,
	})
}
