package main

import (
	"errors"
	"fmt"
	"math/rand"
	"strconv"
	"strings"

	"github.com/Fantom-foundation/lachesis-base/kvdb"
	"github.com/Fantom-foundation/lachesis-base/kvdb/cachedproducer"
	"github.com/Fantom-foundation/lachesis-base/kvdb/memorydb"

	"verifharness/vu"
)

// C27: caching producer.  Case: <ctor W|A> ; op ; op ; ...
//   W = cachedproducer.Wrap over a counting kvdb.DBProducer, A = WrapAll over a counting FullDBProducer
//   ops: O name | F name (underlying OpenDB fails this time) | C name | D name (newest handle of name)
//        CH uid | DH uid (handle that wraps underlying store uid, possibly stale)
// Observation per op: "; <res> <underlying calls>", see coq/extract/C27/driver.ml.
// A panic inside OpenDB leaves the producer's mutex locked: the remaining ops are not run ("dead").

type c27prod struct {
	next   int
	fail   bool
	events []string
}

type c27store struct {
	kvdb.Store
	uid int
	p   *c27prod
}

func (s *c27store) Close() error {
	s.p.events = append(s.p.events, "close:"+strconv.Itoa(s.uid))
	return nil
}

func (s *c27store) Drop() {
	s.p.events = append(s.p.events, "drop:"+strconv.Itoa(s.uid))
}

func (p *c27prod) OpenDB(name string) (kvdb.Store, error) {
	n := strings.TrimPrefix(name, "db")
	if p.fail {
		p.events = append(p.events, "openfail:"+n)
		return nil, errors.New("underlying open failed")
	}
	uid := p.next
	p.next++
	p.events = append(p.events, "open:"+n+":"+strconv.Itoa(uid))
	return &c27store{Store: memorydb.New(), uid: uid, p: p}, nil
}

// the rest of kvdb.FullDBProducer (not used by openDB)
func (p *c27prod) Names() []string                                { return nil }
func (p *c27prod) NotFlushedSizeEst() int                         { return 0 }
func (p *c27prod) Flush(id []byte) error                          { return nil }
func (p *c27prod) Initialize(n []string, id []byte) ([]byte, error) { return id, nil }
func (p *c27prod) Close() error                                   { return nil }

func c27Run(in []string) []string {
	var groups [][]string
	cur := []string{}
	for _, t := range in {
		if t == ";" {
			groups = append(groups, cur)
			cur = []string{}
		} else {
			cur = append(cur, t)
		}
	}
	groups = append(groups, cur)
	if len(groups[0]) != 1 {
		panic("bad header")
	}
	p := &c27prod{}
	var prod kvdb.DBProducer
	if groups[0][0] == "A" {
		prod = cachedproducer.WrapAll(p)
	} else {
		prod = cachedproducer.Wrap(p)
	}
	byUID := map[int]kvdb.Store{}   // handle (the *StoreWithFn) that wraps store uid
	newest := map[string]int{}      // name -> uid of the newest handle
	obs := []string{}
	dead := false
	for _, o := range groups[1:] {
		if len(o) == 0 {
			continue
		}
		if dead {
			obs = append(obs, ";", "dead", "-")
			continue
		}
		vu.Stat("op_" + o[0])
		p.events = p.events[:0]
		res := func() (res string) {
			defer func() {
				if r := recover(); r != nil {
					res = "PANIC"
					dead = true
					vu.Stat("panic:" + strings.ReplaceAll(fmt.Sprint(r), " ", "_"))
				}
			}()
			handleOf := func() (kvdb.Store, bool) {
				switch o[0] {
				case "C", "D":
					uid, ok := newest[o[1]]
					if !ok {
						return nil, false
					}
					return byUID[uid], true
				default:
					uid, _ := strconv.Atoi(o[1])
					h, ok := byUID[uid]
					return h, ok
				}
			}
			switch o[0] {
			case "O", "F":
				p.fail = o[0] == "F"
				h, err := prod.OpenDB("db" + o[1])
				p.fail = false
				if err != nil {
					return "openerr"
				}
				w, ok := h.(*cachedproducer.StoreWithFn)
				if !ok {
					return "h?notwrapped"
				}
				uid := w.Store.(*c27store).uid
				if prev, seen := byUID[uid]; seen && prev != h {
					return "h" + strconv.Itoa(uid) + "!otherpointer"
				} else if seen {
					vu.Stat("open_cached")
				}
				byUID[uid] = h
				newest[o[1]] = uid
				return "h" + strconv.Itoa(uid)
			case "C", "CH":
				h, ok := handleOf()
				if !ok {
					return "nohandle"
				}
				if err := h.Close(); err != nil {
					vu.Stat("overclose")
					return "overclose"
				}
				return "ok"
			case "D", "DH":
				h, ok := handleOf()
				if !ok {
					return "nohandle"
				}
				h.Drop()
				return "ok"
			}
			panic("bad op " + o[0])
		}()
		ev := "-"
		if len(p.events) > 0 {
			ev = strings.Join(p.events, ",")
		}
		obs = append(obs, ";", res, ev)
	}
	return obs
}

func c27GenOps(r *rand.Rand, n int, names int, stale bool) []string {
	var out []string
	uids := 0
	for i := 0; i < n; i++ {
		name := strconv.Itoa(r.Intn(names))
		out = append(out, ";")
		x := r.Intn(100)
		switch {
		case x < 38:
			out = append(out, "O", name)
			uids++
		case x < 43:
			out = append(out, "F", name)
		case x < 78:
			out = append(out, "C", name)
		case x < 92 || !stale:
			out = append(out, "D", name)
		case x < 97:
			out = append(out, "CH", strconv.Itoa(r.Intn(uids+1)))
		default:
			out = append(out, "DH", strconv.Itoa(r.Intn(uids+1)))
		}
	}
	return out
}

func init() {
	vu.Register("C27", &vu.Prop{
		Gen: func(r *rand.Rand, n int, tier string, emit func(...string)) {
			for _, c := range []string{"W", "A"} {
				emit(c, ";", "O", "0")
				emit(c, ";", "O", "0", ";", "O", "0", ";", "C", "0", ";", "C", "0", ";", "C", "0")
				emit(c, ";", "O", "0", ";", "D", "0", ";", "D", "0", ";", "O", "0", ";", "D", "0")
				emit(c, ";", "C", "1", ";", "F", "1", ";", "O", "1", ";", "C", "1", ";", "O", "1", ";", "C", "1")
				// a failed and a cached OpenDB re-arm Drop (two OpenDB calls, two drops of one store)
				emit(c, ";", "O", "0", ";", "C", "0", ";", "D", "0", ";", "F", "0", ";", "D", "0", ";", "D", "0")
				emit(c, ";", "O", "0", ";", "D", "0", ";", "O", "0", ";", "D", "0", ";", "D", "0")
			}
			// exhaustive: all sequences of length <= depth over {O,C,D} x 2 names (+F on one name)
			depth := 4
			if tier == "thorough" {
				depth = 6
			}
			alpha := [][]string{{"O", "0"}, {"C", "0"}, {"D", "0"}, {"O", "1"}, {"C", "1"}, {"F", "0"}}
			var rec func(prefix []string, d int)
			rec = func(prefix []string, d int) {
				if d == 0 {
					return
				}
				for _, a := range alpha {
					q := append(append(append([]string{}, prefix...), ";"), a...)
					if d == 1 {
						emit(q...)
					}
					rec(q, d-1)
				}
			}
			for d := 1; d <= depth; d++ {
				rec([]string{"W"}, d)
				rec([]string{"A"}, d)
			}
			for i := 0; i < n; i++ {
				c := "W"
				if r.Intn(2) == 0 {
					c = "A"
				}
				in := []string{c}
				in = append(in, c27GenOps(r, 1+r.Intn(30), 1+r.Intn(3), r.Intn(5) == 0)...)
				emit(in...)
			}
		},
		Run: c27Run,
	})
}
