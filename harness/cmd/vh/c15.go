package main

import (
	"errors"
	"fmt"
	"math/rand"
	"sort"
	"strconv"
	"strings"
	"sync"
	"sync/atomic"
	"time"

	"github.com/Fantom-foundation/lachesis-base/eventcheck"
	"github.com/Fantom-foundation/lachesis-base/gossip/dagprocessor"
	"github.com/Fantom-foundation/lachesis-base/hash"
	"github.com/Fantom-foundation/lachesis-base/inter/dag"
	"github.com/Fantom-foundation/lachesis-base/inter/idx"
	"github.com/Fantom-foundation/lachesis-base/utils/datasemaphore"

	"verifharness/gsev"
	"verifharness/vu"
)

// C15: the event processor.  Input / observation format: see coq/extract/C15/driver.ml.
// The REAL dagprocessor.Processor runs with its two worker goroutines; G goroutines call
// Enqueue concurrently; CheckParentless hands the `checked` closures to the harness, which fires
// them per batch in the scripted permutation.  All application callbacks are invoked by the single
// inserter goroutine (and by Stop), so the callback log is one sequence; what the scheduler
// decides — the order in which batches reach the inserter, which Enqueue calls time out — is
// read off the log (Z.b order, BZ.b) and handed to the model as the schedule.

var c15ErrParentless = errors.New("scripted parentless-check failure")
var c15DeadlineHits int32

func c15Peer(b *c15Batch) string {
	if b.noPeer {
		return ""
	}
	return "peer" + strconv.Itoa(b.id)
}

type c15Batch struct {
	id      int
	ordered bool
	gor     int
	hold    int
	evs     []*gsev.Ev
	perm    []int

	closures  []func()
	collected int
	ready     chan struct{}

	accepted, done bool
	noNotify, noDone, noPeer bool // Enqueue called with notifyAnnounces == nil / done == nil / peer ""
	handled, expect int // process() entries seen / expected when the batch is cut short
}

type c15Script struct {
	capN, capS, limN, limS uint64
	h0                     uint32
	g                      int
	fc, fp                 [][2]uint64
	batches                []*c15Batch
	stopAt                 int // >= 0: call Stop() as soon as the callback log has that many entries
	noReleased, noCheck    bool // "O <flags>": EventCallback.Released / CheckParents are nil
	maxTasks               int  // "M k": Config.MaxTasks (default 128)
	timeoutMs              int  // "T ms": Config.EventsSemaphoreTimeout (default 50)
	probes                 []int // "E kind": second-use probes after Stop
}

func c15Parse(in []string) *c15Script {
	g := c14Split(in)
	h := g[0]
	if len(h) < 8 || h[6] != "FC" {
		panic("bad header")
	}
	sc := &c15Script{capN: c14U(h[0]), capS: c14U(h[1]), limN: c14U(h[2]), limS: c14U(h[3]),
		h0: uint32(c14U(h[4])), g: int(c14U(h[5])), stopAt: -1, maxTasks: 128, timeoutMs: 50}
	k := int(c14U(h[7]))
	p := 8
	for i := 0; i < k; i++ {
		sc.fc = append(sc.fc, [2]uint64{c14U(h[p]), c14U(h[p+1])})
		p += 2
	}
	if h[p] != "FP" {
		panic("bad header")
	}
	k = int(c14U(h[p+1]))
	p += 2
	for i := 0; i < k; i++ {
		sc.fp = append(sc.fp, [2]uint64{c14U(h[p]), c14U(h[p+1])})
		p += 2
	}
	if p != len(h) || sc.g < 1 || sc.g > 16 {
		panic("bad header")
	}
	gctr := 0
	for _, t := range g[1:] {
		if len(t) == 2 && t[0] == "S" {
			sc.stopAt = int(c14U(t[1]))
			continue
		}
		if len(t) == 2 && t[0] == "M" {
			sc.maxTasks = int(c14U(t[1]))
			continue
		}
		if len(t) == 2 && t[0] == "T" {
			sc.timeoutMs = int(c14U(t[1]))
			continue
		}
		if len(t) == 2 && t[0] == "E" {
			sc.probes = append(sc.probes, int(c14U(t[1])))
			continue
		}
		if len(t) == 2 && t[0] == "O" {
			sc.noReleased = sc.noReleased || strings.Contains(t[1], "r")
			sc.noCheck = sc.noCheck || strings.Contains(t[1], "c")
			continue
		}
		if len(t) < 6 || t[0] != "B" {
			panic("bad batch")
		}
		fl := int(c14U(t[2])) // bit 0 ordered, 1 notifyAnnounces nil, 2 done nil, 3 empty peer id
		b := &c15Batch{id: int(c14U(t[1])), ordered: fl&1 != 0, gor: int(c14U(t[3])) % sc.g, hold: int(c14U(t[4])),
			noNotify: fl&2 != 0, noDone: fl&4 != 0, noPeer: fl&8 != 0}
		n := int(c14U(t[5]))
		q := 6
		for i := 0; i < n; i++ {
			eid, sz, lam, bad, np := c14U(t[q]), int(c14U(t[q+1])), uint32(c14U(t[q+2])), t[q+3] == "1", int(c14U(t[q+4]))
			q += 5
			ps := make([]uint64, np)
			for j := range ps {
				ps[j] = c14U(t[q])
				q++
			}
			e := gsev.New(gctr, eid, ps, sz, lam)
			e.Batch, e.Pos, e.Bad = len(sc.batches), i, bad
			gctr++
			b.evs = append(b.evs, e)
		}
		if t[q] != "PERM" || len(t) != q+1+n {
			panic("bad perm")
		}
		seen := map[int]bool{}
		for _, x := range t[q+1:] {
			v := int(c14U(x))
			if v >= n || seen[v] {
				panic("bad perm")
			}
			seen[v] = true
			b.perm = append(b.perm, v)
		}
		if b.hold > n {
			b.hold = n
		}
		fired := map[int]bool{}
		for _, p := range b.perm[:n-b.hold] {
			fired[p] = true
		}
		if b.ordered {
			for b.expect < n && fired[b.expect] {
				b.expect++
			}
		} else {
			b.expect = n - b.hold
		}
		b.closures = make([]func(), n)
		b.ready = make(chan struct{})
		if n == 0 {
			close(b.ready)
		}
		sc.batches = append(sc.batches, b)
	}
	for i, b := range sc.batches {
		// without done() a completion is only visible through a later batch's done(): one Enqueue
		// caller (queue order = script order), not the last batch, no stop point
		if sc.g != 1 || sc.stopAt >= 0 || i == len(sc.batches)-1 {
			b.noDone = false
		}
	}
	return sc
}

func c15Run(in []string) []string {
	sc := c15Parse(in)
	var mu sync.Mutex
	var log []string
	highest := sc.h0
	connected := map[uint64]dag.Event{}
	nCheck := map[uint64]uint64{}
	nProc := map[uint64]uint64{}
	expectHandle := false
	var warned, overCap int32
	doneCount, accepted, enqFinished, inEnqueue := 0, 0, 0, 0
	busy := map[int]bool{}
	quit := make(chan struct{})
	var stopping int32
	terminated := map[int]bool{}
	stopCh := make(chan struct{})
	triggered := false
	checkStop := func() { // mu held
		if sc.stopAt >= 0 && !triggered && len(log) >= sc.stopAt {
			triggered = true
			close(stopCh)
		}
	}

	sem := datasemaphore.New(dag.Metric{Num: idx.Event(sc.capN), Size: sc.capS},
		func(dag.Metric, dag.Metric, dag.Metric) { atomic.StoreInt32(&warned, 1) }) // called under the semaphore's lock
	sample := func() {
		p := sem.Processing()
		if uint64(p.Num) > sc.capN || p.Size > sc.capS {
			atomic.StoreInt32(&overCap, 1)
		}
	}
	b := func(ok bool) string {
		if ok {
			return "1"
		}
		return "0"
	}
	onLamport := func(e *gsev.Ev) {
		mu.Lock()
		if expectHandle {
			expectHandle = false
			log = append(log, fmt.Sprintf("A.%d", e.Cid))
			checkStop()
			sc.batches[e.Batch].handled++
		}
		mu.Unlock()
	}
	for _, bt := range sc.batches {
		for _, e := range bt.evs {
			e.OnLamport = onLamport
		}
	}
	cidOf := func(e dag.Event) int {
		if ev, ok := e.(*gsev.Ev); ok {
			return ev.Cid
		}
		return -1
	}
	cfg := dagprocessor.Config{
		EventsBufferLimit:      dag.Metric{Num: idx.Event(sc.limN), Size: sc.limS},
		EventsSemaphoreTimeout: time.Duration(sc.timeoutMs) * time.Millisecond,
		MaxTasks:               sc.maxTasks,
	}
	if sc.maxTasks != 128 {
		vu.Stat(fmt.Sprintf("config_maxtasks_%d", sc.maxTasks))
	}
	if sc.timeoutMs != 50 {
		vu.Stat(fmt.Sprintf("config_timeout_%dms", sc.timeoutMs))
	}
	switch {
	case sc.capN == 0 || sc.capS == 0:
		vu.Stat("config_cap_0")
	case sc.capN == 1:
		vu.Stat("config_cap_1")
	}
	switch sc.limN {
	case 0:
		vu.Stat("config_buflimit_0")
	case 1:
		vu.Stat("config_buflimit_1")
	case 3000:
		vu.Stat("config_buflimit_default")
	}
	if uint64(sc.h0)+1+sc.limN >= 1<<32 {
		vu.Stat("highest_lamport_wraps")
	}
	cbs := dagprocessor.Callback{
		Event: dagprocessor.EventCallback{
			Process: func(e dag.Event) error {
				sample()
				mu.Lock()
				defer mu.Unlock()
				id := gsev.Num(e.ID())
				nProc[id]++
				fail := c14Hit(sc.fp, id, nProc[id])
				log = append(log, fmt.Sprintf("P.%d.%d.%s", cidOf(e), id, b(!fail)))
				checkStop()
				if fail {
					vu.Stat("process_fail")
					return c14ErrProcess
				}
				connected[id] = e
				if l := uint32(e.(*gsev.Ev).MutableBaseEvent.Lamport()); l > highest {
					highest = l
				}
				return nil
			},
			Released: func(e dag.Event, peer string, err error) {
				sample()
				mu.Lock()
				defer mu.Unlock()
				code := c14ErrCode(err)
				if err == c15ErrParentless {
					code = "6"
					log = append(log, fmt.Sprintf("A.%d", cidOf(e))) // process() entered with a check error
					checkStop()
					if ev, ok := e.(*gsev.Ev); ok {
						sc.batches[ev.Batch].handled++
					}
				}
				if ev, ok := e.(*gsev.Ev); !ok || peer != c15Peer(sc.batches[ev.Batch]) {
					code = "8"
				}
				vu.Stat("released_" + code)
				log = append(log, fmt.Sprintf("R.%d.%d.%s", cidOf(e), gsev.Num(e.ID()), code))
				checkStop()
			},
			Get: func(id hash.Event) dag.Event {
				mu.Lock()
				defer mu.Unlock()
				if e, ok := connected[gsev.Num(id)]; ok {
					return e
				}
				return nil
			},
			Exists: func(id hash.Event) bool {
				mu.Lock()
				defer mu.Unlock()
				_, ok := connected[gsev.Num(id)]
				return ok
			},
			CheckParents: func(e dag.Event, parents dag.Events) error {
				mu.Lock()
				defer mu.Unlock()
				id := gsev.Num(e.ID())
				nCheck[id]++
				fail := c14Hit(sc.fc, id, nCheck[id])
				if len(parents) != len(e.Parents()) {
					fail = true
				}
				log = append(log, fmt.Sprintf("C.%d.%d.%s", cidOf(e), id, b(!fail)))
				checkStop()
				if fail {
					vu.Stat("check_fail")
					return c14ErrCheck
				}
				return nil
			},
			CheckParentless: func(e dag.Event, checked func(error)) {
				ev := e.(*gsev.Ev)
				bt := sc.batches[ev.Batch]
				mu.Lock()
				bt.closures[ev.Pos] = func() {
					if ev.Bad {
						checked(c15ErrParentless)
					} else {
						checked(nil)
					}
				}
				bt.collected++
				if bt.collected == len(bt.evs) {
					close(bt.ready)
				}
				mu.Unlock()
			},
		},
		HighestLamport: func() idx.Lamport {
			mu.Lock()
			defer mu.Unlock()
			log = append(log, "H")
			checkStop()
			expectHandle = true
			return idx.Lamport(highest)
		},
	}
	if sc.noReleased {
		cbs.Event.Released = nil // the semaphore wrapper of New must still release
		vu.Stat("config_no_released")
	}
	if sc.noCheck {
		cbs.Event.CheckParents = nil
		vu.Stat("config_no_check")
	}
	proc := dagprocessor.New(sem, cfg, cbs)
	proc.Start()

	var firers sync.WaitGroup
	fire := func(bt *c15Batch) {
		defer firers.Done()
		select {
		case <-bt.ready:
		case <-quit:
			return
		}
		todo := bt.perm[:len(bt.perm)-bt.hold]
		if bt.ordered && len(todo) > 1 {
			// order-insensitive: fire from two goroutines
			var wg sync.WaitGroup
			half := len(todo) / 2
			for _, part := range [][]int{todo[:half], todo[half:]} {
				wg.Add(1)
				go func(part []int) {
					defer wg.Done()
					for _, p := range part {
						bt.closures[p]()
					}
				}(part)
			}
			wg.Wait()
		} else {
			for _, p := range todo {
				bt.closures[p]()
			}
		}
	}
	var enq sync.WaitGroup
	for gi := 0; gi < sc.g; gi++ {
		enq.Add(1)
		go func(gi int) {
			defer enq.Done()
			for _, bt := range sc.batches {
				if bt.gor != gi {
					continue
				}
				if atomic.LoadInt32(&stopping) != 0 {
					mu.Lock()
					busy[bt.id] = true
					mu.Unlock()
					continue
				}
				bt := bt
				evs := make(dag.Events, len(bt.evs))
				for i, e := range bt.evs {
					evs[i] = e
				}
				mu.Lock()
				inEnqueue++
				mu.Unlock()
				notify := func(ids hash.Events) {
						mu.Lock()
						t := make([]string, len(ids))
						for i, id := range ids {
							t[i] = vu.U64(gsev.Num(id))
						}
						log = append(log, fmt.Sprintf("N.%d.%s", bt.id, strings.Join(t, "_")))
						checkStop()
						mu.Unlock()
					}
				doneF := func() {
						mu.Lock()
						log = append(log, fmt.Sprintf("Z.%d", bt.id))
						checkStop()
						doneCount++
						bt.done = true
						mu.Unlock()
					}
				if bt.noNotify {
					notify = nil
					vu.Stat("enqueue_notify_nil")
				}
				if bt.noDone {
					doneF = nil
					vu.Stat("enqueue_done_nil")
				}
				if bt.noPeer {
					vu.Stat("enqueue_peer_empty")
				}
				switch len(evs) {
				case 0:
					vu.Stat("batch_size_0")
				case 1:
					vu.Stat(fmt.Sprintf("batch_size_1_ordered_%v", bt.ordered))
				}
				err := proc.Enqueue(c15Peer(bt), evs, bt.ordered, notify, doneF)
				mu.Lock()
				inEnqueue--
				if err == dagprocessor.ErrBusy {
					busy[bt.id] = true
					vu.Stat("enqueue_busy")
				} else if err != nil {
					terminated[bt.id] = true // refused while stopping (errTerminated)
					vu.Stat("enqueue_terminated")
				} else {
					accepted++
					bt.accepted = true
					firers.Add(1)
					go fire(bt)
				}
				mu.Unlock()
			}
			mu.Lock()
			enqFinished++
			mu.Unlock()
		}(gi)
	}

	// wait for quiescence, by counting (no sleeps decide anything): every Enqueue call has returned
	// (a blocked Acquire returns after EventsSemaphoreTimeout), every accepted batch is done, and a
	// batch cut short by the script has entered process() for every result that can be consumed.
	// Batches queued behind a cut-short batch never run (single goroutine script order only).
	// a run that never becomes quiescent (a mutation that hangs the inserter, an Acquire without
	// C30's fix) is observed as it is after a deadline; after a few such runs the deadline shrinks
	wait := 2 * time.Second
	if atomic.LoadInt32(&c15DeadlineHits) >= 3 {
		wait = 100 * time.Millisecond
	}
	deadline := time.Now().Add(wait)
	if sc.stopAt == 0 {
		mu.Lock()
		checkStop()
		mu.Unlock()
	}
	for {
		mu.Lock()
		if triggered {
			mu.Unlock()
			vu.Stat("stopped_mid_run")
			break
		}
		pending := enqFinished != sc.g
		blocked := false
		for _, bt := range sc.batches {
			if !bt.accepted || blocked {
				continue
			}
			if bt.hold > 0 {
				if bt.handled < bt.expect {
					pending = true
				}
				blocked = sc.g == 1 // the inserter stays in this batch
			} else if bt.noDone {
				if bt.handled < len(bt.evs) {
					pending = true
				}
			} else if !bt.done {
				pending = true
			}
		}
		mu.Unlock()
		if !pending {
			break
		}
		if time.Now().After(deadline) {
			vu.Stat("quiescence_by_deadline")
			atomic.AddInt32(&c15DeadlineHits, 1)
			break
		}
		select {
		case <-stopCh:
		case <-time.After(200 * time.Microsecond):
		}
	}
	p := sem.Processing()
	if sc.stopAt < 0 {
		// quiescent: sample, and let no further Enqueue start
		tb := proc.TotalBuffered()
		mu.Lock()
		log = append(log, fmt.Sprintf("Q.%d.%d.%d.%d", p.Num, p.Size, tb.Num, tb.Size))
		mu.Unlock()
		atomic.StoreInt32(&stopping, 1)
	}
	// with a stop point in the script Stop() races the Enqueue callers, the closures and the workers
	proc.Stop()
	close(quit)
	enq.Wait()
	firers.Wait()
	mu.Lock()
	defer mu.Unlock()
	log = append(log, "Y")
	p = sem.Processing()
	log = append(log, fmt.Sprintf("S.%d.%d", p.Num, p.Size))
	if atomic.LoadInt32(&warned) != 0 {
		log = append(log, "W")
	}
	log = append(log, "M."+b(atomic.LoadInt32(&overCap) == 0))
	// second-use probes: the processor has been stopped
	if len(sc.probes) > 0 {
		mu.Unlock()
		for _, kind := range sc.probes {
			res := func() (res string) {
				defer func() {
					if recover() != nil {
						res = "panic"
					}
				}()
				pe := gsev.New(1000000+kind, 900000+uint64(kind), nil, 3, 1)
				evs := dag.Events{pe}
				switch kind {
				case 1: // Start again, then Enqueue
					proc.Start()
				case 2: // Stop a second time
					proc.Stop()
					return "ok"
				case 3: // an empty batch
					evs = dag.Events{}
				}
				err := proc.Enqueue("probe", evs, kind%2 == 0, nil, nil)
				switch err {
				case nil:
					return "ok"
				case dagprocessor.ErrBusy:
					return "busy"
				}
				return "term"
			}()
			vu.Stat(fmt.Sprintf("probe_%d_%s", kind, res))
			mu.Lock()
			log = append(log, fmt.Sprintf("PE.%d.%s", kind, res))
			mu.Unlock()
		}
		p = sem.Processing()
		mu.Lock()
		log = append(log, fmt.Sprintf("S2.%d.%d", p.Num, p.Size))
	}
	var bz []int
	for id := range busy {
		bz = append(bz, id)
	}
	sort.Ints(bz)
	for _, id := range bz {
		log = append(log, fmt.Sprintf("BZ.%d", id))
	}
	var bt []int
	for id := range terminated {
		bt = append(bt, id)
	}
	sort.Ints(bt)
	for _, id := range bt {
		log = append(log, fmt.Sprintf("BT.%d", id))
	}
	_ = eventcheck.ErrSpilledEvent
	return log
}

// ---- generator

func c15Gen(r *rand.Rand, emit func(...string)) {
	k := 2 + r.Intn(11)
	d := c14RandDag(r, k)
	var limN uint64 = c14Big
	var limS uint64 = c14Big
	total := 0
	for _, n := range d {
		total += n.size
	}
	switch r.Intn(4) {
	case 0:
		limN = uint64(r.Intn(5))
	case 1:
		limN, limS = uint64(1+r.Intn(k)), uint64(r.Intn(total+1))
	case 2:
		limN = uint64(k)
	}
	h0 := uint64(r.Intn(3))
	if r.Intn(12) == 0 {
		h0 = 4294967295 - uint64(r.Intn(4)) // highest + maxLamportDiff wraps
	}
	// lamport = 1 + max parent lamport, with jumps around the far-future threshold
	lam := make([]uint64, k)
	for i, n := range d {
		l := uint64(0)
		for _, p := range n.pars {
			if lam[p-1] > l {
				l = lam[p-1]
			}
		}
		lam[i] = (l + 1) % 4294967296
		if r.Intn(8) == 0 && limN < 1000 {
			lam[i] = (h0 + uint64(i)/2 + limN + uint64(r.Intn(4))) % 4294967296 // threshold is highest+1+limN
			vu.Stat("lamport_jump")
		}
	}
	// occurrences: every event once (a shuffled or reverse order), plus duplicates
	order := r.Perm(k)
	switch r.Intn(3) {
	case 0:
		for i := range order {
			order[i] = i
		}
	case 1:
		for i := range order {
			order[i] = k - 1 - i
		}
	}
	occ := append([]int{}, order...)
	for r.Intn(3) == 0 {
		occ = append(occ, r.Intn(k))
		vu.Stat("dup_event")
	}
	g := 1 + r.Intn(4)
	holdCase := false // batches cut short are produced by the stop-point streams (exact quiescence there)
	if holdCase {
		g = 1
	}
	var batches []string
	bmax, bmaxS, totN, totS := 0, 0, 0, 0
	bid := 0
	for len(occ) > 0 {
		n := 1 + r.Intn(4)
		if r.Intn(10) == 0 {
			n = 0
		}
		if n > len(occ) {
			n = len(occ)
		}
		part := occ[:n]
		occ = occ[n:]
		ordered := r.Intn(2) == 0
		if ordered && r.Intn(4) != 0 {
			sort.Ints(part) // parents first, as an ordered batch should be
		}
		hold := 0
		if holdCase && len(occ) == 0 && n > 0 { // only the last batch: nothing is queued behind it
			hold = 1 + r.Intn(n)
			vu.Stat("batch_held")
		}
		fl := 0
		if ordered {
			fl = 1
		}
		if r.Intn(8) == 0 {
			fl |= 2 << uint(r.Intn(3)) // notifyAnnounces nil / done nil / empty peer id
		}
		t := []string{"B", strconv.Itoa(bid), strconv.Itoa(fl), strconv.Itoa(r.Intn(g)), strconv.Itoa(hold), strconv.Itoa(n)}
		sz := 0
		for _, i := range part {
			bad := r.Intn(10) == 0
			t = append(t, vu.U64(d[i].id), strconv.Itoa(d[i].size), vu.U64(lam[i]), vu.B(bad), strconv.Itoa(len(d[i].pars)))
			for _, p := range d[i].pars {
				t = append(t, vu.U64(p))
			}
			sz += d[i].size
		}
		t = append(t, "PERM")
		perm := r.Perm(n)
		switch r.Intn(3) {
		case 0:
			for i := range perm {
				perm[i] = i
			}
		case 1:
			for i := range perm {
				perm[i] = n - 1 - i
			}
		}
		for _, p := range perm {
			t = append(t, strconv.Itoa(p))
		}
		batches = append(batches, strings.Join(t, " "))
		if n > bmax {
			bmax = n
		}
		if sz > bmaxS {
			bmaxS = sz
		}
		totN += n
		totS += sz
		bid++
		if ordered {
			vu.Stat("batch_ordered")
		} else {
			vu.Stat("batch_unordered")
		}
	}
	capN, capS := uint64(totN), uint64(totS)
	switch r.Intn(8) {
	case 0: // tight: Enqueue callers have to wait for releases
		capN = uint64(bmax)
		vu.Stat("cap_tight")
	case 1:
		capS = uint64(bmaxS)
		vu.Stat("cap_tight")
	case 2: // some batch can never be accepted
		if bmax > 1 {
			capN = uint64(bmax - 1)
			vu.Stat("cap_too_small")
		}
	case 3:
		capN, capS = c14Big, c14Big
	}
	var fc, fp [][2]uint64
	switch r.Intn(3) {
	case 0:
		fp = c14RandTable(r, k, 0.2)
	case 1:
		fc = c14RandTable(r, k, 0.1)
		fp = c14RandTable(r, k, 0.1)
	}
	h := []string{vu.U64(capN), vu.U64(capS), vu.U64(limN), vu.U64(limS), vu.U64(h0), strconv.Itoa(g), "FC", strconv.Itoa(len(fc))}
	for _, p := range fc {
		h = append(h, vu.U64(p[0]), vu.U64(p[1]))
	}
	h = append(h, "FP", strconv.Itoa(len(fp)))
	for _, p := range fp {
		h = append(h, vu.U64(p[0]), vu.U64(p[1]))
	}
	line := strings.Join(h, " ")
	for _, bt := range batches {
		line += " ; " + bt
	}
	if r.Intn(6) == 0 {
		line += " ; M " + strconv.Itoa([]int{0, 1, 2, 3}[r.Intn(4)])
	}
	if r.Intn(10) == 0 {
		line += " ; T " + strconv.Itoa(r.Intn(2))
	}
	if r.Intn(8) == 0 {
		line += " ; E " + strconv.Itoa(r.Intn(4))
	}
	emit(strings.Fields(line)...)
}

// configuration / size sweep for the processor: every config field at 0 / 1 / small / default, semaphore
// capacity 0 / 1 / exactly one batch, batches of 0 and 1 events (ordered and unordered), nil
// notifyAnnounces / done, empty peer id, all optional callbacks nil together, HighestLamport at the
// uint32 boundary (also limit.Num = MaxUint32: 1 + Num wraps to 0), second use after Stop
func c15Sweep(emit func(...string)) {
	type ev struct {
		id, size, lam uint64
		bad           bool
		pars          []uint64
	}
	batch := func(b, flags, gor int, evs []ev, perm []int) string {
		t := []string{"B", strconv.Itoa(b), strconv.Itoa(flags), strconv.Itoa(gor), "0", strconv.Itoa(len(evs))}
		for _, e := range evs {
			t = append(t, vu.U64(e.id), vu.U64(e.size), vu.U64(e.lam), vu.B(e.bad), strconv.Itoa(len(e.pars)))
			for _, p := range e.pars {
				t = append(t, vu.U64(p))
			}
		}
		t = append(t, "PERM")
		for _, p := range perm {
			t = append(t, strconv.Itoa(p))
		}
		return strings.Join(t, " ")
	}
	out := func(capN, capS, limN, limS, h0 uint64, g int, ops ...string) {
		line := strings.Join([]string{vu.U64(capN), vu.U64(capS), vu.U64(limN), vu.U64(limS), vu.U64(h0), strconv.Itoa(g), "FC", "0", "FP", "0"}, " ")
		for _, o := range ops {
			line += " ; " + o
		}
		vu.Stat("gen_sweep")
		emit(strings.Fields(line)...)
	}
	const big, maxN = uint64(c14Big), uint64(4294967295)
	// chain 1 <- 2 <- 3 <- 4 (+ 5 with an unknown parent), three batches; the second arrives before its parents
	mk := func(l1, l2, l3, l4 uint64) [][]ev {
		return [][]ev{
			{{3, 3, l3, false, []uint64{2}}, {4, 4, l4, false, []uint64{3}}},
			{{1, 1, l1, false, nil}, {2, 2, l2, false, []uint64{1}}},
			{{5, 5, l2, false, []uint64{77}}, {6, 6, l1, true, nil}},
		}
	}
	std := func(fl0, fl1, fl2 int, d [][]ev) []string {
		return []string{batch(0, fl0, 0, d[0], []int{1, 0}), batch(1, fl1, 0, d[1], []int{0, 1}), batch(2, fl2, 0, d[2], []int{1, 0})}
	}
	d := mk(1, 2, 3, 4)
	// buffer limits and semaphore capacities
	for _, lim := range [][2]uint64{{0, big}, {1, big}, {2, big}, {big, 0}, {big, 3}, {3000, 10 * 1024 * 1024}, {maxN, big}} {
		for _, cp := range [][2]uint64{{big, big}, {2, 7}, {2, big}, {big, 7}, {1, big}, {0, big}, {big, 0}, {6, 21}} {
			out(cp[0], cp[1], lim[0], lim[1], 0, 1, std(1, 0, 1, d)...)
		}
	}
	// worker pool sizes and semaphore timeout, one and several Enqueue callers, with and without a stop point
	for _, mt := range []string{"M 0", "M 1", "M 2", "M 128"} {
		for _, to := range []string{"T 0", "T 1", "T 50"} {
			out(big, big, 2, big, 0, 1, append(std(1, 0, 0, d), mt, to)...)
			out(2, big, 2, big, 0, 1, append(std(1, 0, 0, d), mt, to)...)
			ops := []string{batch(0, 1, 0, d[0], []int{0, 1}), batch(1, 0, 1, d[1], []int{1, 0}), batch(2, 0, 2, d[2], []int{0, 1}), mt, to}
			out(big, big, 2, big, 0, 3, ops...)
			out(big, big, 2, big, 0, 3, append(ops, "S 3")...)
		}
	}
	// batches of 0 and 1 events, ordered and unordered; nil notifyAnnounces / done; empty peer id
	one := []ev{{1, 1, 1, false, nil}}
	kid := []ev{{2, 2, 2, false, []uint64{1}}}
	for fl := 0; fl < 16; fl++ {
		out(big, big, 3, big, 0, 1, batch(0, fl, 0, nil, nil), batch(1, fl, 0, kid, []int{0}), batch(2, fl^1, 0, one, []int{0}), batch(3, 1, 0, nil, nil))
		out(big, big, 3, big, 0, 1, append(std(fl, fl^1, fl, d), "O rc")...)
		out(big, big, 3, big, 0, 2, batch(0, fl, 0, kid, []int{0}), batch(1, fl, 1, one, []int{0}), "S 2")
	}
	// HighestLamport at the uint32 boundary
	for _, c := range [][3]uint64{{maxN, 2, 0}, {maxN - 3, 2, 0}, {maxN - 2, 2, 0}, {maxN - 4, 2, 0}, {0, maxN, 0}, {5, maxN, 0}, {maxN, maxN, 0}, {maxN - 1, 0, 0}} {
		h0, limN := c[0], c[1]
		for _, base := range []uint64{1, maxN - 3, h0, (h0 + 1 + limN) % (1 << 32), (h0 + 2 + limN) % (1 << 32)} {
			l := func(k uint64) uint64 { return (base + k) % (1 << 32) }
			out(big, big, limN, big, h0, 1, std(1, 0, 0, mk(l(0), l(1), l(2), l(3)))...)
		}
	}
	// second use: Enqueue after Stop, Start again, Stop twice, an empty batch after Stop
	for _, pr := range [][]string{{"E 0"}, {"E 1"}, {"E 2"}, {"E 3"}, {"E 0", "E 1", "E 3", "E 2", "E 0"}} {
		out(big, big, 3, big, 0, 1, append(std(1, 0, 0, d), pr...)...)
		out(2, 7, 0, big, 0, 2, append(append(std(0, 1, 0, d), "S 2"), pr...)...)
		out(big, big, 3, big, 0, 1, append(append(std(1, 0, 0, d), "O rc"), pr...)...)
	}
}

// stop-point stream: the same scripts (no batch cut short by the script) with Stop() called as soon
// as the callback log has k entries, racing Enqueue callers, closures and workers
func c15GenStop(r *rand.Rand, emit func(...string)) {
	c15Gen(r, func(in ...string) {
		out := make([]string, 0, len(in)+3)
		evs := 0
		for i := 0; i < len(in); i++ {
			out = append(out, in[i])
			if in[i] == "B" && i+5 < len(in) {
				// B <b> <ord> <gor> <hold> <n>: no holds in this mode
				out = append(out, in[i+1], in[i+2], in[i+3], "0", in[i+5])
				n, _ := strconv.Atoi(in[i+5])
				evs += n
				i += 5
			}
		}
		out = append(out, ";", "S", strconv.Itoa(r.Intn(3*evs+2)))
		vu.Stat("gen_stop_point")
		emit(out...)
	})
}

// stop-while-enqueuing stream: many small batches from 4 goroutines and an early stop point, so
// that Enqueue calls are between Acquire and the worker queues when quit is closed
func c15GenStopRace(r *rand.Rand, emit func(...string)) {
	nb := 40 + r.Intn(60)
	h := []string{vu.U64(c14Big), vu.U64(c14Big), vu.U64(c14Big), vu.U64(c14Big), "0", "4", "FC", "0", "FP", "0"}
	line := strings.Join(h, " ")
	for b := 0; b < nb; b++ {
		line += fmt.Sprintf(" ; B %d %d %d 0 1 %d %d 1 0 0 PERM 0", b, r.Intn(2), r.Intn(4), b+1, 1+r.Intn(9))
	}
	line += " ; S " + strconv.Itoa(1+r.Intn(3*nb))
	vu.Stat("gen_stop_race")
	emit(strings.Fields(line)...)
}

func init() {
	vu.Register("C15", &vu.Prop{
		Gen: func(r *rand.Rand, n int, tier string, emit func(...string)) {
			c15Sweep(emit)
			for i := 0; i < n; i++ {
				if i%12 == 7 {
					fl := []string{"r", "c", "rc"}[r.Intn(3)]
					c15Gen(r, func(in ...string) { emit(append(append([]string{}, in...), ";", "O", fl)...) })
				} else if i%6 == 5 {
					c15GenStopRace(r, emit)
				} else if i%3 == 2 {
					c15GenStop(r, emit)
				} else {
					c15Gen(r, emit)
				}
			}
		},
		Run:      c15Run,
		Parallel: 4,
	})
}
