package main

import (
	"errors"
	"fmt"
	"math/rand"
	"sort"
	"strconv"
	"strings"
	"sync"
	"sync/atomic"
	"time"

	"github.com/Fantom-foundation/lachesis-base/eventcheck"
	"github.com/Fantom-foundation/lachesis-base/gossip/dagprocessor"
	"github.com/Fantom-foundation/lachesis-base/hash"
	"github.com/Fantom-foundation/lachesis-base/inter/dag"
	"github.com/Fantom-foundation/lachesis-base/inter/idx"
	"github.com/Fantom-foundation/lachesis-base/utils/datasemaphore"

	"verifharness/gsev"
	"verifharness/vu"
)

// C15: the event processor.  Input / observation format: see coq/extract/C15/driver.ml.
// The REAL dagprocessor.Processor runs with its two worker goroutines; G goroutines call
// Enqueue concurrently; CheckParentless hands the `checked` closures to the harness, which fires
// them per batch in the scripted permutation.  All application callbacks are invoked by the single
// inserter goroutine (and by Stop), so the callback log is one sequence; what the scheduler
// decides — the order in which batches reach the inserter, which Enqueue calls time out — is
// read off the log (Z.b order, BZ.b) and handed to the model as the schedule.

var c15ErrParentless = errors.New("scripted parentless-check failure")
var c15DeadlineHits int32

type c15Batch struct {
	id      int
	ordered bool
	gor     int
	hold    int
	evs     []*gsev.Ev
	perm    []int

	closures  []func()
	collected int
	ready     chan struct{}

	accepted, done bool
	handled, expect int // process() entries seen / expected when the batch is cut short
}

type c15Script struct {
	capN, capS, limN, limS uint64
	h0                     uint32
	g                      int
	fc, fp                 [][2]uint64
	batches                []*c15Batch
	stopAt                 int // >= 0: call Stop() as soon as the callback log has that many entries
	noReleased, noCheck    bool // "O <flags>": EventCallback.Released / CheckParents are nil
}

func c15Parse(in []string) *c15Script {
	g := c14Split(in)
	h := g[0]
	if len(h) < 8 || h[6] != "FC" {
		panic("bad header")
	}
	sc := &c15Script{capN: c14U(h[0]), capS: c14U(h[1]), limN: c14U(h[2]), limS: c14U(h[3]),
		h0: uint32(c14U(h[4])), g: int(c14U(h[5])), stopAt: -1}
	k := int(c14U(h[7]))
	p := 8
	for i := 0; i < k; i++ {
		sc.fc = append(sc.fc, [2]uint64{c14U(h[p]), c14U(h[p+1])})
		p += 2
	}
	if h[p] != "FP" {
		panic("bad header")
	}
	k = int(c14U(h[p+1]))
	p += 2
	for i := 0; i < k; i++ {
		sc.fp = append(sc.fp, [2]uint64{c14U(h[p]), c14U(h[p+1])})
		p += 2
	}
	if p != len(h) || sc.g < 1 || sc.g > 16 {
		panic("bad header")
	}
	gctr := 0
	for _, t := range g[1:] {
		if len(t) == 2 && t[0] == "S" {
			sc.stopAt = int(c14U(t[1]))
			continue
		}
		if len(t) == 2 && t[0] == "O" {
			sc.noReleased = sc.noReleased || strings.Contains(t[1], "r")
			sc.noCheck = sc.noCheck || strings.Contains(t[1], "c")
			continue
		}
		if len(t) < 6 || t[0] != "B" {
			panic("bad batch")
		}
		b := &c15Batch{id: int(c14U(t[1])), ordered: t[2] == "1", gor: int(c14U(t[3])) % sc.g, hold: int(c14U(t[4]))}
		n := int(c14U(t[5]))
		q := 6
		for i := 0; i < n; i++ {
			eid, sz, lam, bad, np := c14U(t[q]), int(c14U(t[q+1])), uint32(c14U(t[q+2])), t[q+3] == "1", int(c14U(t[q+4]))
			q += 5
			ps := make([]uint64, np)
			for j := range ps {
				ps[j] = c14U(t[q])
				q++
			}
			e := gsev.New(gctr, eid, ps, sz, lam)
			e.Batch, e.Pos, e.Bad = len(sc.batches), i, bad
			gctr++
			b.evs = append(b.evs, e)
		}
		if t[q] != "PERM" || len(t) != q+1+n {
			panic("bad perm")
		}
		seen := map[int]bool{}
		for _, x := range t[q+1:] {
			v := int(c14U(x))
			if v >= n || seen[v] {
				panic("bad perm")
			}
			seen[v] = true
			b.perm = append(b.perm, v)
		}
		if b.hold > n {
			b.hold = n
		}
		fired := map[int]bool{}
		for _, p := range b.perm[:n-b.hold] {
			fired[p] = true
		}
		if b.ordered {
			for b.expect < n && fired[b.expect] {
				b.expect++
			}
		} else {
			b.expect = n - b.hold
		}
		b.closures = make([]func(), n)
		b.ready = make(chan struct{})
		if n == 0 {
			close(b.ready)
		}
		sc.batches = append(sc.batches, b)
	}
	return sc
}

func c15Run(in []string) []string {
	sc := c15Parse(in)
	var mu sync.Mutex
	var log []string
	highest := sc.h0
	connected := map[uint64]dag.Event{}
	nCheck := map[uint64]uint64{}
	nProc := map[uint64]uint64{}
	expectHandle := false
	var warned, overCap int32
	doneCount, accepted, enqFinished, inEnqueue := 0, 0, 0, 0
	busy := map[int]bool{}
	quit := make(chan struct{})
	var stopping int32
	terminated := map[int]bool{}
	stopCh := make(chan struct{})
	triggered := false
	checkStop := func() { // mu held
		if sc.stopAt >= 0 && !triggered && len(log) >= sc.stopAt {
			triggered = true
			close(stopCh)
		}
	}

	sem := datasemaphore.New(dag.Metric{Num: idx.Event(sc.capN), Size: sc.capS},
		func(dag.Metric, dag.Metric, dag.Metric) { atomic.StoreInt32(&warned, 1) }) // called under the semaphore's lock
	sample := func() {
		p := sem.Processing()
		if uint64(p.Num) > sc.capN || p.Size > sc.capS {
			atomic.StoreInt32(&overCap, 1)
		}
	}
	b := func(ok bool) string {
		if ok {
			return "1"
		}
		return "0"
	}
	onLamport := func(e *gsev.Ev) {
		mu.Lock()
		if expectHandle {
			expectHandle = false
			log = append(log, fmt.Sprintf("A.%d", e.Cid))
			checkStop()
			sc.batches[e.Batch].handled++
		}
		mu.Unlock()
	}
	for _, bt := range sc.batches {
		for _, e := range bt.evs {
			e.OnLamport = onLamport
		}
	}
	cidOf := func(e dag.Event) int {
		if ev, ok := e.(*gsev.Ev); ok {
			return ev.Cid
		}
		return -1
	}
	cfg := dagprocessor.Config{
		EventsBufferLimit:      dag.Metric{Num: idx.Event(sc.limN), Size: sc.limS},
		EventsSemaphoreTimeout: 50 * time.Millisecond,
		MaxTasks:               128,
	}
	cbs := dagprocessor.Callback{
		Event: dagprocessor.EventCallback{
			Process: func(e dag.Event) error {
				sample()
				mu.Lock()
				defer mu.Unlock()
				id := gsev.Num(e.ID())
				nProc[id]++
				fail := c14Hit(sc.fp, id, nProc[id])
				log = append(log, fmt.Sprintf("P.%d.%d.%s", cidOf(e), id, b(!fail)))
				checkStop()
				if fail {
					vu.Stat("process_fail")
					return c14ErrProcess
				}
				connected[id] = e
				if l := uint32(e.(*gsev.Ev).MutableBaseEvent.Lamport()); l > highest {
					highest = l
				}
				return nil
			},
			Released: func(e dag.Event, peer string, err error) {
				sample()
				mu.Lock()
				defer mu.Unlock()
				code := c14ErrCode(err)
				if err == c15ErrParentless {
					code = "6"
					log = append(log, fmt.Sprintf("A.%d", cidOf(e))) // process() entered with a check error
					checkStop()
					if ev, ok := e.(*gsev.Ev); ok {
						sc.batches[ev.Batch].handled++
					}
				}
				if ev, ok := e.(*gsev.Ev); !ok || peer != "peer"+strconv.Itoa(sc.batches[ev.Batch].id) {
					code = "8"
				}
				vu.Stat("released_" + code)
				log = append(log, fmt.Sprintf("R.%d.%d.%s", cidOf(e), gsev.Num(e.ID()), code))
				checkStop()
			},
			Get: func(id hash.Event) dag.Event {
				mu.Lock()
				defer mu.Unlock()
				if e, ok := connected[gsev.Num(id)]; ok {
					return e
				}
				return nil
			},
			Exists: func(id hash.Event) bool {
				mu.Lock()
				defer mu.Unlock()
				_, ok := connected[gsev.Num(id)]
				return ok
			},
			CheckParents: func(e dag.Event, parents dag.Events) error {
				mu.Lock()
				defer mu.Unlock()
				id := gsev.Num(e.ID())
				nCheck[id]++
				fail := c14Hit(sc.fc, id, nCheck[id])
				if len(parents) != len(e.Parents()) {
					fail = true
				}
				log = append(log, fmt.Sprintf("C.%d.%d.%s", cidOf(e), id, b(!fail)))
				checkStop()
				if fail {
					vu.Stat("check_fail")
					return c14ErrCheck
				}
				return nil
			},
			CheckParentless: func(e dag.Event, checked func(error)) {
				ev := e.(*gsev.Ev)
				bt := sc.batches[ev.Batch]
				mu.Lock()
				bt.closures[ev.Pos] = func() {
					if ev.Bad {
						checked(c15ErrParentless)
					} else {
						checked(nil)
					}
				}
				bt.collected++
				if bt.collected == len(bt.evs) {
					close(bt.ready)
				}
				mu.Unlock()
			},
		},
		HighestLamport: func() idx.Lamport {
			mu.Lock()
			defer mu.Unlock()
			log = append(log, "H")
			checkStop()
			expectHandle = true
			return idx.Lamport(highest)
		},
	}
	if sc.noReleased {
		cbs.Event.Released = nil // the semaphore wrapper of New must still release
		vu.Stat("config_no_released")
	}
	if sc.noCheck {
		cbs.Event.CheckParents = nil
		vu.Stat("config_no_check")
	}
	proc := dagprocessor.New(sem, cfg, cbs)
	proc.Start()

	var firers sync.WaitGroup
	fire := func(bt *c15Batch) {
		defer firers.Done()
		select {
		case <-bt.ready:
		case <-quit:
			return
		}
		todo := bt.perm[:len(bt.perm)-bt.hold]
		if bt.ordered && len(todo) > 1 {
			// order-insensitive: fire from two goroutines
			var wg sync.WaitGroup
			half := len(todo) / 2
			for _, part := range [][]int{todo[:half], todo[half:]} {
				wg.Add(1)
				go func(part []int) {
					defer wg.Done()
					for _, p := range part {
						bt.closures[p]()
					}
				}(part)
			}
			wg.Wait()
		} else {
			for _, p := range todo {
				bt.closures[p]()
			}
		}
	}
	var enq sync.WaitGroup
	for gi := 0; gi < sc.g; gi++ {
		enq.Add(1)
		go func(gi int) {
			defer enq.Done()
			for _, bt := range sc.batches {
				if bt.gor != gi {
					continue
				}
				if atomic.LoadInt32(&stopping) != 0 {
					mu.Lock()
					busy[bt.id] = true
					mu.Unlock()
					continue
				}
				bt := bt
				evs := make(dag.Events, len(bt.evs))
				for i, e := range bt.evs {
					evs[i] = e
				}
				mu.Lock()
				inEnqueue++
				mu.Unlock()
				err := proc.Enqueue("peer"+strconv.Itoa(bt.id), evs, bt.ordered,
					func(ids hash.Events) {
						mu.Lock()
						t := make([]string, len(ids))
						for i, id := range ids {
							t[i] = vu.U64(gsev.Num(id))
						}
						log = append(log, fmt.Sprintf("N.%d.%s", bt.id, strings.Join(t, "_")))
						checkStop()
						mu.Unlock()
					},
					func() {
						mu.Lock()
						log = append(log, fmt.Sprintf("Z.%d", bt.id))
						checkStop()
						doneCount++
						bt.done = true
						mu.Unlock()
					})
				mu.Lock()
				inEnqueue--
				if err == dagprocessor.ErrBusy {
					busy[bt.id] = true
					vu.Stat("enqueue_busy")
				} else if err != nil {
					terminated[bt.id] = true // refused while stopping (errTerminated)
					vu.Stat("enqueue_terminated")
				} else {
					accepted++
					bt.accepted = true
					firers.Add(1)
					go fire(bt)
				}
				mu.Unlock()
			}
			mu.Lock()
			enqFinished++
			mu.Unlock()
		}(gi)
	}

	// wait for quiescence, by counting (no sleeps decide anything): every Enqueue call has returned
	// (a blocked Acquire returns after EventsSemaphoreTimeout), every accepted batch is done, and a
	// batch cut short by the script has entered process() for every result that can be consumed.
	// Batches queued behind a cut-short batch never run (single goroutine script order only).
	// a run that never becomes quiescent (a mutation that hangs the inserter, an Acquire without
	// C30's fix) is observed as it is after a deadline; after a few such runs the deadline shrinks
	wait := 2 * time.Second
	if atomic.LoadInt32(&c15DeadlineHits) >= 3 {
		wait = 100 * time.Millisecond
	}
	deadline := time.Now().Add(wait)
	if sc.stopAt == 0 {
		mu.Lock()
		checkStop()
		mu.Unlock()
	}
	for {
		mu.Lock()
		if triggered {
			mu.Unlock()
			vu.Stat("stopped_mid_run")
			break
		}
		pending := enqFinished != sc.g
		blocked := false
		for _, bt := range sc.batches {
			if !bt.accepted || blocked {
				continue
			}
			if bt.hold > 0 {
				if bt.handled < bt.expect {
					pending = true
				}
				blocked = sc.g == 1 // the inserter stays in this batch
			} else if !bt.done {
				pending = true
			}
		}
		mu.Unlock()
		if !pending {
			break
		}
		if time.Now().After(deadline) {
			vu.Stat("quiescence_by_deadline")
			atomic.AddInt32(&c15DeadlineHits, 1)
			break
		}
		select {
		case <-stopCh:
		case <-time.After(200 * time.Microsecond):
		}
	}
	p := sem.Processing()
	if sc.stopAt < 0 {
		// quiescent: sample, and let no further Enqueue start
		tb := proc.TotalBuffered()
		mu.Lock()
		log = append(log, fmt.Sprintf("Q.%d.%d.%d.%d", p.Num, p.Size, tb.Num, tb.Size))
		mu.Unlock()
		atomic.StoreInt32(&stopping, 1)
	}
	// with a stop point in the script Stop() races the Enqueue callers, the closures and the workers
	proc.Stop()
	close(quit)
	enq.Wait()
	firers.Wait()
	mu.Lock()
	defer mu.Unlock()
	log = append(log, "Y")
	p = sem.Processing()
	log = append(log, fmt.Sprintf("S.%d.%d", p.Num, p.Size))
	if atomic.LoadInt32(&warned) != 0 {
		log = append(log, "W")
	}
	log = append(log, "M."+b(atomic.LoadInt32(&overCap) == 0))
	var bz []int
	for id := range busy {
		bz = append(bz, id)
	}
	sort.Ints(bz)
	for _, id := range bz {
		log = append(log, fmt.Sprintf("BZ.%d", id))
	}
	var bt []int
	for id := range terminated {
		bt = append(bt, id)
	}
	sort.Ints(bt)
	for _, id := range bt {
		log = append(log, fmt.Sprintf("BT.%d", id))
	}
	_ = eventcheck.ErrSpilledEvent
	return log
}

// ---- generator

func c15Gen(r *rand.Rand, emit func(...string)) {
	k := 2 + r.Intn(11)
	d := c14RandDag(r, k)
	var limN uint64 = c14Big
	var limS uint64 = c14Big
	total := 0
	for _, n := range d {
		total += n.size
	}
	switch r.Intn(4) {
	case 0:
		limN = uint64(r.Intn(5))
	case 1:
		limN, limS = uint64(1+r.Intn(k)), uint64(r.Intn(total+1))
	case 2:
		limN = uint64(k)
	}
	h0 := uint64(r.Intn(3))
	if r.Intn(12) == 0 {
		h0 = 4294967295 - uint64(r.Intn(4)) // highest + maxLamportDiff wraps
	}
	// lamport = 1 + max parent lamport, with jumps around the far-future threshold
	lam := make([]uint64, k)
	for i, n := range d {
		l := uint64(0)
		for _, p := range n.pars {
			if lam[p-1] > l {
				l = lam[p-1]
			}
		}
		lam[i] = (l + 1) % 4294967296
		if r.Intn(8) == 0 && limN < 1000 {
			lam[i] = (h0 + uint64(i)/2 + limN + uint64(r.Intn(4))) % 4294967296 // threshold is highest+1+limN
			vu.Stat("lamport_jump")
		}
	}
	// occurrences: every event once (a shuffled or reverse order), plus duplicates
	order := r.Perm(k)
	switch r.Intn(3) {
	case 0:
		for i := range order {
			order[i] = i
		}
	case 1:
		for i := range order {
			order[i] = k - 1 - i
		}
	}
	occ := append([]int{}, order...)
	for r.Intn(3) == 0 {
		occ = append(occ, r.Intn(k))
		vu.Stat("dup_event")
	}
	g := 1 + r.Intn(4)
	holdCase := false // batches cut short are produced by the stop-point streams (exact quiescence there)
	if holdCase {
		g = 1
	}
	var batches []string
	bmax, bmaxS, totN, totS := 0, 0, 0, 0
	bid := 0
	for len(occ) > 0 {
		n := 1 + r.Intn(4)
		if r.Intn(10) == 0 {
			n = 0
		}
		if n > len(occ) {
			n = len(occ)
		}
		part := occ[:n]
		occ = occ[n:]
		ordered := r.Intn(2) == 0
		if ordered && r.Intn(4) != 0 {
			sort.Ints(part) // parents first, as an ordered batch should be
		}
		hold := 0
		if holdCase && len(occ) == 0 && n > 0 { // only the last batch: nothing is queued behind it
			hold = 1 + r.Intn(n)
			vu.Stat("batch_held")
		}
		t := []string{"B", strconv.Itoa(bid), vu.B(ordered), strconv.Itoa(r.Intn(g)), strconv.Itoa(hold), strconv.Itoa(n)}
		sz := 0
		for _, i := range part {
			bad := r.Intn(10) == 0
			t = append(t, vu.U64(d[i].id), strconv.Itoa(d[i].size), vu.U64(lam[i]), vu.B(bad), strconv.Itoa(len(d[i].pars)))
			for _, p := range d[i].pars {
				t = append(t, vu.U64(p))
			}
			sz += d[i].size
		}
		t = append(t, "PERM")
		perm := r.Perm(n)
		switch r.Intn(3) {
		case 0:
			for i := range perm {
				perm[i] = i
			}
		case 1:
			for i := range perm {
				perm[i] = n - 1 - i
			}
		}
		for _, p := range perm {
			t = append(t, strconv.Itoa(p))
		}
		batches = append(batches, strings.Join(t, " "))
		if n > bmax {
			bmax = n
		}
		if sz > bmaxS {
			bmaxS = sz
		}
		totN += n
		totS += sz
		bid++
		if ordered {
			vu.Stat("batch_ordered")
		} else {
			vu.Stat("batch_unordered")
		}
	}
	capN, capS := uint64(totN), uint64(totS)
	switch r.Intn(8) {
	case 0: // tight: Enqueue callers have to wait for releases
		capN = uint64(bmax)
		vu.Stat("cap_tight")
	case 1:
		capS = uint64(bmaxS)
		vu.Stat("cap_tight")
	case 2: // some batch can never be accepted
		if bmax > 1 {
			capN = uint64(bmax - 1)
			vu.Stat("cap_too_small")
		}
	case 3:
		capN, capS = c14Big, c14Big
	}
	var fc, fp [][2]uint64
	switch r.Intn(3) {
	case 0:
		fp = c14RandTable(r, k, 0.2)
	case 1:
		fc = c14RandTable(r, k, 0.1)
		fp = c14RandTable(r, k, 0.1)
	}
	h := []string{vu.U64(capN), vu.U64(capS), vu.U64(limN), vu.U64(limS), vu.U64(h0), strconv.Itoa(g), "FC", strconv.Itoa(len(fc))}
	for _, p := range fc {
		h = append(h, vu.U64(p[0]), vu.U64(p[1]))
	}
	h = append(h, "FP", strconv.Itoa(len(fp)))
	for _, p := range fp {
		h = append(h, vu.U64(p[0]), vu.U64(p[1]))
	}
	line := strings.Join(h, " ")
	for _, bt := range batches {
		line += " ; " + bt
	}
	emit(strings.Fields(line)...)
}

// stop-point stream: the same scripts (no batch cut short by the script) with Stop() called as soon
// as the callback log has k entries, racing Enqueue callers, closures and workers
func c15GenStop(r *rand.Rand, emit func(...string)) {
	c15Gen(r, func(in ...string) {
		out := make([]string, 0, len(in)+3)
		evs := 0
		for i := 0; i < len(in); i++ {
			out = append(out, in[i])
			if in[i] == "B" && i+5 < len(in) {
				// B <b> <ord> <gor> <hold> <n>: no holds in this mode
				out = append(out, in[i+1], in[i+2], in[i+3], "0", in[i+5])
				n, _ := strconv.Atoi(in[i+5])
				evs += n
				i += 5
			}
		}
		out = append(out, ";", "S", strconv.Itoa(r.Intn(3*evs+2)))
		vu.Stat("gen_stop_point")
		emit(out...)
	})
}

// stop-while-enqueuing stream: many small batches from 4 goroutines and an early stop point, so
// that Enqueue calls are between Acquire and the worker queues when quit is closed
func c15GenStopRace(r *rand.Rand, emit func(...string)) {
	nb := 40 + r.Intn(60)
	h := []string{vu.U64(c14Big), vu.U64(c14Big), vu.U64(c14Big), vu.U64(c14Big), "0", "4", "FC", "0", "FP", "0"}
	line := strings.Join(h, " ")
	for b := 0; b < nb; b++ {
		line += fmt.Sprintf(" ; B %d %d %d 0 1 %d %d 1 0 0 PERM 0", b, r.Intn(2), r.Intn(4), b+1, 1+r.Intn(9))
	}
	line += " ; S " + strconv.Itoa(1+r.Intn(3*nb))
	vu.Stat("gen_stop_race")
	emit(strings.Fields(line)...)
}

func init() {
	vu.Register("C15", &vu.Prop{
		Gen: func(r *rand.Rand, n int, tier string, emit func(...string)) {
			for i := 0; i < n; i++ {
				if i%12 == 7 {
					fl := []string{"r", "c", "rc"}[r.Intn(3)]
					c15Gen(r, func(in ...string) { emit(append(append([]string{}, in...), ";", "O", fl)...) })
				} else if i%6 == 5 {
					c15GenStopRace(r, emit)
				} else if i%3 == 2 {
					c15GenStop(r, emit)
				} else {
					c15Gen(r, emit)
				}
			}
		},
		Run:      c15Run,
		Parallel: 4,
	})
}
