package main

import (
	"fmt"
	"math/rand"
	"sort"
	"strconv"
	"strings"
	"sync/atomic"
	"time"

	"github.com/Fantom-foundation/lachesis-base/utils/simplewlru"
	"github.com/Fantom-foundation/lachesis-base/utils/wlru"

	"verifharness/vu"
)

// C29: weighted LRU.  Case: <impl> <maxWeight> <maxSize> ; op ; op ; ...
//   impl: S = simplewlru, W = wlru; suffix "n" = built by New (no eviction callback); suffix "big" = weights near 2^64 (model-vs-impl only: the
//   specification assumes the uint weight sum does not wrap)
//   ops: A k v w | G k | P k | C k | R k | RO | GO | K | L | WT | Z mw ms | PU | CA k v w | PA k v w
// Observation: NEW ok|ERR, then per op "; <res> <ev> <st>" (see coq/extract/C29/driver.ml).

type c29cache interface {
	Add(key, value interface{}, weight uint) int
	Get(key interface{}) (interface{}, bool)
	Contains(key interface{}) bool
	Peek(key interface{}) (interface{}, bool)
	Remove(key interface{}) bool
	RemoveOldest() (interface{}, interface{}, bool)
	GetOldest() (interface{}, interface{}, bool)
	Keys() []interface{}
	Len() int
	Weight() uint
	Resize(maxWeight uint, maxSize int) int
	Purge()
}

type c29kv struct {
	k uint64
	v string
}

func c29join(l []string) string {
	if len(l) == 0 {
		return "-"
	}
	return strings.Join(l, ",")
}

// values: numbers (uint64), "nil" (the nil interface: the cache used as a set), "es" (the empty
// string, a zero value that is NOT nil).  "v-" / "p-" = absent, "vnil" / "pnil" = present with value nil.
func c29vtok(v interface{}) string {
	switch x := v.(type) {
	case nil:
		return "nil"
	case uint64:
		return vu.U64(x)
	case string:
		if x == "" {
			return "es"
		}
	}
	panic(fmt.Sprintf("unexpected value %#v", v))
}

func c29pv(s string) interface{} {
	switch s {
	case "nil":
		return nil
	case "es":
		return ""
	}
	return c29u(s)
}

func c29val(v interface{}, ok bool) string {
	if !ok {
		return "-"
	}
	return c29vtok(v)
}

func c29u(s string) uint64 {
	u, err := strconv.ParseUint(s, 10, 64)
	if err != nil {
		panic("bad number " + s)
	}
	return u
}

// c29Guard runs f with a watchdog: a call that does not return within 3 s (a non-terminating
// normalize loop) is reported as the observation HANG.  After three hangs the remaining cases are
// not run (each abandoned goroutine keeps spinning until the process exits).
var c29Hangs int32

func c29Guard(f func() []string) []string {
	if atomic.LoadInt32(&c29Hangs) >= 3 {
		return []string{"HANG", "skipped"}
	}
	ch := make(chan []string, 1)
	go func() {
		defer func() {
			if r := recover(); r != nil {
				msg := strings.ReplaceAll(fmt.Sprint(r), " ", "_")
				if len(msg) > 60 {
					msg = msg[:60]
				}
				ch <- []string{"PANIC", msg}
			}
		}()
		ch <- f()
	}()
	select {
	case o := <-ch:
		return o
	case <-time.After(3 * time.Second):
		atomic.AddInt32(&c29Hangs, 1)
		vu.Stat("hang")
		return []string{"HANG"}
	}
}

func c29Run(in []string) []string {
	return c29Guard(func() []string { return c29RunRaw(in) })
}

func c29RunRaw(in []string) []string {
	// split into header + ops
	var groups [][]string
	cur := []string{}
	for _, t := range in {
		if t == ";" {
			groups = append(groups, cur)
			cur = []string{}
		} else {
			cur = append(cur, t)
		}
	}
	groups = append(groups, cur)
	hdr := groups[0]
	if len(hdr) != 3 {
		panic("bad header")
	}
	mw := c29u(hdr[1])
	ms, err := strconv.Atoi(hdr[2])
	if err != nil {
		panic("bad size")
	}
	var log []c29kv
	onEvict := func(k, v interface{}) { log = append(log, c29kv{k.(uint64), c29vtok(v)}) }
	var c c29cache
	var w *wlru.Cache
	// suffix "n": built by New (no eviction callback, onEvict == nil); the callback log is then
	// unobservable ("e~") but results, Len, Weight and Keys must be exactly the same
	nocb := strings.HasSuffix(hdr[0], "n")
	if strings.HasPrefix(hdr[0], "W") {
		if nocb {
			w, err = wlru.New(uint(mw), ms)
		} else {
			w, err = wlru.NewWithEvict(uint(mw), ms, onEvict)
		}
		c = w
	} else {
		var s *simplewlru.Cache
		if nocb {
			s, err = simplewlru.New(uint(mw), ms)
		} else {
			s, err = simplewlru.NewWithEvict(uint(mw), ms, onEvict)
		}
		c = s
	}
	if nocb {
		vu.Stat("no_callback_case")
	}
	if err != nil {
		vu.Stat("new_err")
		return []string{"NEW", "ERR"}
	}
	obs := []string{"NEW", "ok"}
	for _, o := range groups[1:] {
		if len(o) == 0 {
			continue
		}
		log = log[:0]
		var res string
		vu.Stat("op_" + o[0])
		switch o[0] {
		case "A":
			n := c.Add(c29u(o[1]), c29pv(o[2]), uint(c29u(o[3])))
			res = "n" + strconv.Itoa(n)
			if n > 0 {
				vu.Stat("evicting_add")
			}
		case "G":
			v, ok := c.Get(c29u(o[1]))
			res = "v" + c29val(v, ok)
			if ok {
				vu.Stat("get_hit")
			}
		case "P":
			v, ok := c.Peek(c29u(o[1]))
			res = "v" + c29val(v, ok)
		case "C":
			res = "b" + vu.B(c.Contains(c29u(o[1])))
		case "R":
			res = "b" + vu.B(c.Remove(c29u(o[1])))
		case "RO":
			k, v, ok := c.RemoveOldest()
			if ok {
				res = "kv" + vu.U64(k.(uint64)) + ":" + c29vtok(v)
			} else {
				res = "kv-"
			}
		case "GO":
			k, v, ok := c.GetOldest()
			if ok {
				res = "kv" + vu.U64(k.(uint64)) + ":" + c29vtok(v)
			} else {
				res = "kv-"
			}
		case "K":
			var ks []string
			for _, k := range c.Keys() {
				ks = append(ks, vu.U64(k.(uint64)))
			}
			res = "ks" + c29join(ks)
		case "L":
			res = "#" + strconv.Itoa(c.Len())
		case "WT":
			res = "#" + vu.U64(uint64(c.Weight()))
		case "Z":
			sz, err := strconv.Atoi(o[2])
			if err != nil {
				panic("bad size")
			}
			if sz < 0 {
				vu.Stat("resize_negative")
			}
			n := c.Resize(uint(c29u(o[1])), sz)
			res = "n" + strconv.Itoa(n)
			if n > 0 {
				vu.Stat("evicting_resize")
			}
		case "PU":
			c.Purge()
			res = "u"
			sort.Slice(log, func(i, j int) bool {
				if log[i].k != log[j].k {
					return log[i].k < log[j].k
				}
				return log[i].v < log[j].v
			})
		case "CA":
			if w == nil {
				panic("ContainsOrAdd exists in wlru only")
			}
			ok, n := w.ContainsOrAdd(c29u(o[1]), c29pv(o[2]), uint(c29u(o[3])))
			res = "f" + vu.B(ok) + ":" + strconv.Itoa(n)
		case "PA":
			if w == nil {
				panic("PeekOrAdd exists in wlru only")
			}
			p, ok, n := w.PeekOrAdd(c29u(o[1]), c29pv(o[2]), uint(c29u(o[3])))
			res = "p" + c29val(p, ok) + ":" + strconv.Itoa(n)
		default:
			panic("bad op " + o[0])
		}
		var ev []string
		for _, e := range log {
			ev = append(ev, vu.U64(e.k)+":"+e.v)
		}
		var ks []string
		for _, k := range c.Keys() {
			ks = append(ks, vu.U64(k.(uint64)))
		}
		if len(log) > 0 {
			vu.Stat("op_with_callback")
		}
		evTok := "e" + c29join(ev)
		if nocb {
			evTok = "e~"
		}
		obs = append(obs, ";", res, evTok,
			fmt.Sprintf("s%d:%d:%s", c.Len(), uint64(c.Weight()), c29join(ks)))
	}
	return obs
}

func c29GenOps(r *rand.Rand, impl string, nkeys int, maxw int, nops int, mw int, roomy bool) []string {
	var out []string
	val := 100
	wgt := func() string {
		if roomy && r.Intn(10) != 0 {
			return strconv.Itoa(r.Intn(maxw + 1))
		}
		switch r.Intn(8) {
		case 0:
			return "0"
		case 1: // heavier than the current bound
			return strconv.Itoa(mw + 1 + r.Intn(3))
		case 2:
			return strconv.Itoa(mw)
		}
		return strconv.Itoa(r.Intn(maxw + 1))
	}
	key := func() string { return strconv.Itoa(r.Intn(nkeys)) }
	for i := 0; i < nops; i++ {
		val++
		v := strconv.Itoa(val)
		switch r.Intn(12) { // the cache used as a set (nil values), and zero values that are not nil
		case 0, 1:
			v = "nil"
		case 2:
			v = "0"
		case 3:
			v = "es"
		}
		out = append(out, ";")
		x := r.Intn(100)
		switch {
		case x < 34:
			out = append(out, "A", key(), v, wgt())
		case x < 48:
			out = append(out, "G", key())
		case x < 54:
			out = append(out, "P", key())
		case x < 59:
			out = append(out, "C", key())
		case x < 66:
			out = append(out, "R", key())
		case x < 70:
			out = append(out, "RO")
		case x < 73:
			out = append(out, "GO")
		case x < 76:
			out = append(out, "K")
		case x < 78:
			out = append(out, "L")
		case x < 80:
			out = append(out, "WT")
		case x < 86:
			mw = r.Intn(8)
			sz := r.Intn(7)
			if roomy {
				mw, sz = 10+r.Intn(12), 3+r.Intn(4)
			} else if r.Intn(25) == 0 {
				sz = -1 - r.Intn(3) // below zero: read as 0 (the pinned tree's Resize never returned)
			}
			out = append(out, "Z", strconv.Itoa(mw), strconv.Itoa(sz))
		case x < 89:
			out = append(out, "PU")
		default:
			if impl == "W" {
				if r.Intn(2) == 0 {
					out = append(out, "CA", key(), v, wgt())
				} else {
					out = append(out, "PA", key(), v, wgt())
				}
			} else {
				out = append(out, "A", key(), v, wgt())
			}
		}
	}
	return out
}

// exhaustive small scope: every sequence of length <= depth over a small alphabet
func c29Enum(impl string, mw, ms int, depth int, emit func(...string)) {
	alpha := [][]string{
		{"A", "0", "1", "0"}, {"A", "0", "2", "1"}, {"A", "0", "3", "2"}, {"A", "1", "4", "1"}, {"A", "1", "5", "3"},
		{"A", "2", "6", "1"}, {"G", "0"}, {"G", "1"}, {"P", "0"}, {"R", "1"}, {"RO"}, {"Z", "1", "1"}, {"Z", "3", "2"}, {"PU"},
	}
	var rec func(prefix []string, d int)
	rec = func(prefix []string, d int) {
		if d == 0 {
			return
		}
		for _, a := range alpha {
			p := append(append([]string{}, prefix...), ";")
			p = append(p, a...)
			full := append(append([]string{}, p...), ";", "K")
			emit(full...)
			rec(p, d-1)
		}
	}
	rec([]string{impl, strconv.Itoa(mw), strconv.Itoa(ms)}, depth)
}

func init() {
	vu.Register("C29", &vu.Prop{
		Gen: func(r *rand.Rand, n int, tier string, emit func(...string)) {
			// constructor: negative size is rejected
			emit("S", "3", "-1")
			emit("W", "0", "-5")
			emit("S", "0", "0", ";", "A", "1", "1", "0", ";", "A", "2", "2", "1", ";", "K")
			emit("S", "3", "2", ";", "A", "1", "10", "1", ";", "A", "2", "20", "1", ";", "Z", "3", "-1", ";", "A", "3", "30", "0", ";", "L")
			emit("W", "3", "2", ";", "Z", "5", "-2", ";", "A", "1", "10", "1", ";", "K")
			depth := 2
			if tier == "thorough" {
				depth = 3
			}
			emit("Sn", "3", "-1")
			emit("Sn", "5", "3", ";", "A", "1", "10", "2", ";", "A", "2", "20", "1", ";", "PU", ";", "WT", ";", "A", "3", "30", "4", ";", "K", ";", "Z", "2", "3", ";", "L")
			emit("Wn", "5", "3", ";", "A", "1", "10", "2", ";", "PU", ";", "A", "2", "20", "5", ";", "A", "3", "30", "0", ";", "K", ";", "WT")
			for _, b := range [][2]int{{0, 0}, {0, 2}, {2, 0}, {1, 1}, {2, 2}, {3, 2}, {2, 3}, {100, 1}, {1, 100}} {
				c29Enum("S", b[0], b[1], depth, emit)
				c29Enum("Sn", b[0], b[1], 2, emit)
				if tier == "thorough" || b[0] == 3 {
					c29Enum("Wn", b[0], b[1], 2, emit)
				}
				if tier == "thorough" {
					c29Enum("W", b[0], b[1], 2, emit)
				}
			}
			// size class: ONE operation removes many (17..80) entries: Purge of a large cache, Resize far
			// down, one heavy Add / ContainsOrAdd / PeekOrAdd pushing out many light entries; every
			// removed entry must reach the callback exactly once, in order
			for _, impl := range []string{"W", "S", "Wn"} {
				for _, cnt := range []int{16, 17, 18, 33, 80} {
					for wi, wgt := range []string{"1", "0"} {
						enders := [][]string{{"PU"}, {"Z", "2", "3"}, {"Z", "100", "1"}, {"Z", "0", "0"}, {"A", "999", "7", "100"}, {"A", "999", "7", "99"}, {"A", "5", "8", "97"}}
						if impl != "S" {
							enders = append(enders, []string{"CA", "999", "7", "100"}, []string{"PA", "999", "7", "98"})
						}
						if wi == 1 {
							enders = [][]string{{"PU"}, {"Z", "100", "1"}, {"Z", "0", "0"}, {"Z", "100", "-1"}}
						}
						for _, e := range enders {
							in := []string{impl, "100", "100"}
							for k := 1; k <= cnt; k++ {
								in = append(in, ";", "A", strconv.Itoa(k), strconv.Itoa(1000+k), wgt)
							}
							in = append(in, ";", "G", "3", ";")
							in = append(in, e...)
							in = append(in, ";", "K", ";", "A", "1", "1", "1", ";", "PU")
							emit(in...)
						}
					}
				}
			}
			// values that are nil / zero: presence must be decided by the key, never by the value
			nilAlpha := [][]string{{"A", "0", "nil", "1"}, {"A", "0", "7", "1"}, {"A", "1", "nil", "0"}, {"A", "1", "0", "2"}, {"PA", "0", "9", "1"},
				{"PA", "0", "nil", "2"}, {"PA", "1", "es", "1"}, {"CA", "0", "8", "1"}, {"CA", "1", "nil", "1"}, {"P", "0"}, {"G", "0"}, {"R", "0"}}
			var nrec func(prefix []string, d int)
			nrec = func(prefix []string, d int) {
				if d == 0 {
					return
				}
				for _, a := range nilAlpha {
					q := append(append(append([]string{}, prefix...), ";"), a...)
					emit(append(append([]string{}, q...), ";", "K")...)
					nrec(q, d-1)
				}
			}
			nd := 2
			if tier == "thorough" {
				nd = 3
			}
			for _, h := range [][]string{{"W", "3", "2"}, {"Wn", "3", "2"}, {"W", "1", "1"}, {"W", "100", "100"}, {"Wn", "100", "100"}} {
				nrec(h, nd)
			}
			emit("S", "5", "3", ";", "A", "1", "nil", "1", ";", "G", "1", ";", "P", "1", ";", "C", "1", ";", "A", "2", "es", "1", ";", "A", "3", "0", "1", ";", "GO", ";", "RO", ";", "PU")
			emit("W", "5", "3", ";", "A", "1", "nil", "1", ";", "PA", "1", "5", "4", ";", "G", "1", ";", "CA", "1", "6", "4", ";", "K", ";", "WT")
			for i := 0; i < n; i++ {
				impl := "S"
				if r.Intn(2) == 0 {
					impl = "W"
				}
				mw, ms := r.Intn(7), r.Intn(7)
				switch r.Intn(10) {
				case 0:
					mw = 0
				case 1:
					ms = 0
				case 2:
					mw = 1000 // only the size bound binds
				case 3:
					ms = 1000 // only the weight bound binds
				}
				roomy := r.Intn(4) == 0 // roomy cache: hits, refreshes and removals dominate, evictions by size
				if roomy {
					mw, ms = 12+r.Intn(10), 3+r.Intn(3)
				}
				nkeys := 4
				if r.Intn(4) == 0 {
					nkeys = 7
				}
				nops := 1 + r.Intn(60)
				hdrImpl := impl
				if r.Intn(4) == 0 {
					hdrImpl = impl + "n" // constructor without eviction callback
				}
				in := []string{hdrImpl, strconv.Itoa(mw), strconv.Itoa(ms)}
				in = append(in, c29GenOps(r, impl, nkeys, 5, nops, mw, roomy)...)
				emit(in...)
			}
			// weights near 2^64: the uint arithmetic of the weight counter wraps (model vs impl only)
			big := []string{"18446744073709551615", "9223372036854775808", "9223372036854775807", "18446744073709551614", "1", "0", "2"}
			for i := 0; i < n/20+5; i++ {
				impl := []string{"Sbig", "Wbig"}[r.Intn(2)]
				in := []string{impl, big[r.Intn(3)], strconv.Itoa(1 + r.Intn(4))}
				val := 500
				for j := 0; j < 1+r.Intn(12); j++ {
					val++
					switch r.Intn(5) {
					case 0:
						in = append(in, ";", "G", strconv.Itoa(r.Intn(4)))
					case 1:
						in = append(in, ";", "R", strconv.Itoa(r.Intn(4)))
					default:
						in = append(in, ";", "A", strconv.Itoa(r.Intn(4)), strconv.Itoa(val), big[r.Intn(len(big))])
					}
				}
				emit(in...)
			}
		},
		Run: c29Run,
	})
}
