package main

import (
	"math/rand"
	"strconv"
	"strings"

	"verifharness/kvh"
	"verifharness/vu"
)

// C22: flushable store = underlying store overlaid with unflushed writes.
// Stacks: flushable.Wrap(memorydb), Wrap(Wrap(memorydb)), Wrap(leveldb), a few Wrap(pebble),
// flushable.NewLazy over memorydb / leveldb / Wrap(memorydb);
// ops are addressed to the flushable (depth 0) and to the stores below it (so that "flush makes
// the underlying store equal to the view" is observed directly).  Some histories keep iterators
// alive across writes (checked for order/prefix/no panic only) and some write ~50 KB values so
// that Flush crosses kvdb.IdealBatchSize and splits its batch.

func c22History(r *rand.Rand, tier string, i int) []string {
	var header, handles []string
	switch x := r.Intn(27); {
	case x == 24:
		header, handles = strings.Fields("ldb!"+strconv.Itoa(r.Intn(5))+" f"), []string{"0", "0", "0", "1"}
	case x == 25:
		header, handles = strings.Fields("pbl!"+strconv.Itoa(r.Intn(5))+" z"), []string{"0", "0", "0", "1"}
	case x == 26:
		header, handles = strings.Fields("mem! f"), []string{"0", "0", "0", "1"}
	case x < 9:
		header, handles = strings.Fields("mem f"), []string{"0", "0", "0", "1"}
	case x < 14:
		header, handles = strings.Fields("mem f f"), []string{"0", "0", "0", "1", "1", "2"}
	case x < 19:
		header, handles = strings.Fields("ldb f"), []string{"0", "0", "0", "1"}
	case x < 20:
		header, handles = strings.Fields("pbl f"), []string{"0", "0", "0", "1"}
	case x < 22: // LazyFlushable: the store below is installed by the first Flush
		header, handles = strings.Fields("mem z"), []string{"0", "0", "0", "1"}
	case x < 23:
		header, handles = strings.Fields("ldb z"), []string{"0", "0", "0", "1"}
	default:
		header, handles = strings.Fields("mem f z"), []string{"0", "0", "1", "2"}
	}
	c := kvh.GenCfg{Header: header, Handles: handles, NOps: 10 + r.Intn(50), Live: r.Intn(4) == 0,
		BigValues: r.Intn(6) == 0, SweepPairs: 10, Reopen: header[0][:3] != "mem" && r.Intn(4) == 0, Stat: r.Intn(6) == 0}
	out := kvh.Gen(r, c)
	if tier == "thorough" && i%20 == 0 {
		// every (prefix, start) over the alphabet up to length 2 (and nil), on the flushable
		all := kvh.AllOKeys(2)
		for _, p := range all {
			for _, s := range all {
				out = append(out, ";", "it", "0", p, s)
			}
		}
	} else if i%10 == 0 {
		all := kvh.AllOKeys(1)
		for _, p := range all {
			for _, s := range all {
				out = append(out, ";", "it", "0", p, s)
			}
		}
	}
	return out
}

func c22Gen(r *rand.Rand, n int, tier string, emit func(input ...string)) {
	for i := 0; i < n; i++ {
		emit(c22History(r, tier, i)...)
	}
}

func init() {
	vu.Register("C22", &vu.Prop{Gen: c22Gen, Run: func(in []string) []string { return kvh.RunCase(in, vu.Stat) },
		Teardown: kvh.Teardown})
}
