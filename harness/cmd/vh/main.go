package main

import "verifharness/vu"

func main() { vu.Main() }
