package main

import (
	"math/rand"
	"strconv"
	"strings"

	"github.com/Fantom-foundation/lachesis-base/hash"
	"github.com/Fantom-foundation/lachesis-base/inter/dag/tdag"

	"verifharness/refh"
	"verifharness/vu"
)

// C01: several fresh instances of the real IndexedLachesis process one event set in different
// parents-first orders.
// input : salt seal nv (id w)* k (kind:seed)*k ; e id cr seq frame parents... ; ...
// obs   : per instance  I <number of fed events whose Process failed> B... L epoch ldf
//         (blocks as in C10: B epoch frame atropos sealed ncheaters cheaters...)
func c01Gen(r *rand.Rand, n int, tier string, emit func(input ...string)) {
	maxEv := 200
	if tier == "thorough" {
		maxEv = 400
	}
	for i := 0; i < n; i++ {
		s, cfg, kind := refh.RandomScenario(r, maxEv, false)
		small := tier == "thorough" && i%8 == 7
		if small {
			// small scope, exhaustively: every parents-first order of a DAG of <= 7 events
			for len(s.VIDs) > 3 {
				s.VIDs, s.Ws = s.VIDs[:len(s.VIDs)-1], s.Ws[:len(s.Ws)-1]
			}
			nv := len(s.VIDs)
			cfg.Lag, cfg.Group, cfg.Cheat = cfg.Lag[:nv], cfg.Group[:nv], make([]bool, nv)
			cfg.Lag[0] = 4
			cfg.NEvents, cfg.MaxPar, cfg.PartUntil = 6+r.Intn(3), 1+r.Intn(2), 0
			kind = "exhaustive"
		}
		refh.Generate(r, s, cfg)
		if small {
			all := refh.LinearExtensions(s, 5041)
			vu.Stat("scn_" + kind)
			vu.StatN("linear_extensions", len(all))
			for from := 0; from < len(all) && from < 720; from += 60 {
				extra := []string{}
				for j := from; j < from+60 && j < len(all); j++ {
					extra = append(extra, "7:"+strconv.Itoa(j))
				}
				emit(s.Tokens(append([]string{strconv.Itoa(len(extra))}, extra...))...)
			}
			continue
		}
		vu.Stat("scn_" + kind)
		vu.Stat("nv_" + strconv.Itoa(len(s.VIDs)))
		// three independently shuffled orders + two adversarial ones
		extra := []string{"5"}
		for k := 0; k < 3; k++ {
			extra = append(extra, "0:"+strconv.FormatInt(r.Int63(), 10))
		}
		adv := r.Perm(6)
		for k := 0; k < 2; k++ {
			extra = append(extra, strconv.Itoa(1+adv[k])+":"+strconv.FormatInt(r.Int63(), 10))
		}
		emit(s.Tokens(extra)...)
	}
}

func c01Run(in []string) []string {
	s, extra, err := refh.Parse(in)
	if err != nil || len(extra) < 1 {
		return []string{"BADCASE"}
	}
	k, _ := strconv.Atoi(extra[0])
	if k > len(extra)-1 {
		k = len(extra) - 1
	}
	var obs []string
	for i := 0; i < k; i++ {
		ks := strings.SplitN(extra[1+i], ":", 2)
		kind, _ := strconv.Atoi(ks[0])
		seed := int64(0)
		if len(ks) > 1 {
			seed, _ = strconv.ParseInt(ks[1], 10, 64)
		}
		vu.Stat("order_kind_" + strconv.Itoa(kind%8))
		order := refh.Order(s, kind, seed)
		inst := refh.NewInst(s)
		ids := map[int]*tdag.TestEvent{}
		name := map[hash.Event]int{}
		codes := make([]byte, 0, len(order))
		for _, j := range order {
			ev := s.Evs[j]
			if ev.Ep != inst.Epoch() {
				// the epoch of this event is over (sealed by an earlier event of this order) or not
				// yet open: the application does not feed it
				vu.Stat("not_fed_after_seal")
				continue
			}
			e := refh.EventOf(s, ev, ids, ev.Ep)
			if e == nil {
				codes = append(codes, '2')
				continue
			}
			code := inst.Process(e)
			codes = append(codes, byte('0'+code))
			if code == 0 {
				ids[ev.ID] = e
				name[e.ID()] = ev.ID
			}
			if code == 9 {
				break
			}
		}
		rej := 0
		for _, c := range codes {
			if c != '0' {
				rej++
			}
		}
		obs = append(obs, "I", strconv.Itoa(rej))
		obs = append(obs, inst.BlockTokens(name)...)
		if i == 0 {
			vu.StatN("blocks", len(inst.Blocks))
			vu.StatN("events", len(s.Evs))
			for _, b := range inst.Blocks {
				if len(b.Cheaters) > 0 {
					vu.Stat("block_with_cheaters")
				}
			}
		}
	}
	return obs
}

func init() {
	vu.Register("C01", &vu.Prop{Gen: c01Gen, Run: c01Run})
}
