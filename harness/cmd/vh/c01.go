package main

import (
	"math/rand"
	"strconv"
	"strings"

	"github.com/Fantom-foundation/lachesis-base/hash"
	"github.com/Fantom-foundation/lachesis-base/inter/dag/tdag"

	"verifharness/refh"
	"verifharness/vu"
)

// C01: several fresh instances of the real IndexedLachesis process one event set in different
// parents-first orders; one more instance is fed an ancestor-closed strict subset.
// input : salt sealcode nv (id w)* k (kind:seed | 8:m:seed)*k ; e id cr seq frame parents... ; n ; ...
//         kind 0..7 see refh.Order; "8:m:seed" = the first m events of the case (creation order is
//         parents-first, so this is an ancestor-closed subset) in a shuffled parents-first order
// obs   : per instance  I|S <number of fed events whose Process failed> B... L epoch ldf
//         (blocks as in C10: B epoch frame atropos sealed ncheaters cheaters...)
func c01Gen(r *rand.Rand, n int, tier string, emit func(input ...string)) {
	maxEv := 200
	if tier == "thorough" {
		maxEv = 400
	}
	for i := 0; i < n; i++ {
		s, cfg, kind := refh.RandomScenario(r, maxEv, false)
		small := tier == "thorough" && i%8 == 7
		if small {
			// small scope, exhaustively: every parents-first order of a small DAG, forks included
			for len(s.VIDs) > 4 {
				s.VIDs, s.Ws = s.VIDs[:len(s.VIDs)-1], s.Ws[:len(s.Ws)-1]
			}
			nv := len(s.VIDs)
			s.Seal, s.Pol = 0, 0
			cfg.Lag, cfg.Group = cfg.Lag[:nv], cfg.Group[:nv]
			cfg.Cheat = refh.PickCheaters(r, s.Ws, 1)
			cfg.ForkP = 0.4
			cfg.Lag[0] = 4
			cfg.NEvents, cfg.MaxPar, cfg.PartUntil = 6+r.Intn(3), 1+r.Intn(2), 0
			kind = "exhaustive"
		}
		refh.Generate(r, s, cfg)
		vu.Stat("scn_" + kind)
		if small {
			all := refh.LinearExtensions(s, 5041)
			vu.StatN("linear_extensions", len(all))
			if refh.Truncated || len(all) > 720 {
				vu.Stat("linear_extensions_truncated")
			}
			for from := 0; from < len(all) && from < 720; from += 60 {
				extra := []string{}
				for j := from; j < from+60 && j < len(all); j++ {
					extra = append(extra, "7:"+strconv.Itoa(j))
				}
				emit(s.Tokens(append([]string{strconv.Itoa(len(extra))}, extra...))...)
			}
			continue
		}
		vu.Stat("nv_" + strconv.Itoa(len(s.VIDs)))
		// three independently shuffled orders, latest-ready-first (deterministic: the driver replays it on
		// the extracted abft model), one more adversarial order, and a strict ancestor-closed subset
		extra := []string{"6"}
		for k := 0; k < 3; k++ {
			extra = append(extra, "0:"+strconv.FormatInt(r.Int63(), 10))
		}
		extra = append(extra, "1:0")
		extra = append(extra, strconv.Itoa(2+r.Intn(5))+":"+strconv.FormatInt(r.Int63(), 10))
		m := 0
		if len(s.Evs) > 1 {
			m = len(s.Evs)/3 + r.Intn(len(s.Evs)-len(s.Evs)/3)
			if m >= len(s.Evs) {
				m = len(s.Evs) - 1
			}
		}
		extra = append(extra, "8:"+strconv.Itoa(m)+":"+strconv.FormatInt(r.Int63(), 10))
		emit(s.Tokens(extra)...)
	}
}

func c01Run(in []string) []string {
	s, extra, err := refh.Parse(in)
	if err != nil || len(extra) < 1 {
		return []string{"BADCASE"}
	}
	k, _ := strconv.Atoi(extra[0])
	if k > len(extra)-1 {
		k = len(extra) - 1
	}
	var obs []string
	for i := 0; i < k; i++ {
		ks := strings.Split(extra[1+i], ":")
		kind, _ := strconv.Atoi(ks[0])
		seed := int64(0)
		tag := "I"
		sc := s
		if kind == 8 && len(ks) == 3 {
			// ancestor-closed subset: the first m events, shuffled parents-first
			m, _ := strconv.Atoi(ks[1])
			seed, _ = strconv.ParseInt(ks[2], 10, 64)
			if m > len(s.Evs) {
				m = len(s.Evs)
			}
			sub := *s
			sub.Evs = s.Evs[:m]
			sc = &sub
			kind = 0
			tag = "S"
			vu.Stat("order_subset")
			vu.StatN("subset_events_left_out", len(s.Evs)-m)
		} else {
			if len(ks) > 1 {
				seed, _ = strconv.ParseInt(ks[1], 10, 64)
			}
			vu.Stat("order_kind_" + strconv.Itoa(kind%8))
		}
		order := refh.Order(sc, kind, seed)
		// every instance of the case gets its own cache configuration (store roots cache / index caches):
		// the scenario's, then tiny3, zero, tiny2, default, tiny4, one, tiny1, ... so that roots caches
		// smaller than one frame's roots meet different arrival orders within one agreement case
		ic := *sc
		ic.CfgV = []int{sc.CfgV, 6, 1, 5, 3, 7, 2, 4, 8, 0}[i%10]
		vu.Stat("inst_caches_" + strconv.Itoa(ic.CfgV))
		inst := refh.NewInst(&ic)
		ids := map[int]*tdag.TestEvent{}
		name := map[hash.Event]int{}
		rej := 0
		for _, j := range order {
			ev := sc.Evs[j]
			if ev.Ep != inst.Epoch() {
				// the epoch of this event is over (sealed by an earlier event of this order) or not
				// yet open: the application does not feed it
				vu.Stat("not_fed_after_seal")
				continue
			}
			e := refh.EventOf(sc, ev, ids, ev.Ep)
			if e == nil {
				rej++
				continue
			}
			code := inst.Process(e)
			if code == 0 {
				ids[ev.ID] = e
				name[e.ID()] = ev.ID
			} else {
				rej++
			}
			if code == 9 {
				break
			}
		}
		obs = append(obs, tag, strconv.Itoa(rej))
		obs = append(obs, inst.BlockTokens(name)...)
		if i == 0 {
			vu.StatN("blocks", len(inst.Blocks))
			vu.StatN("events", len(s.Evs))
			for _, b := range inst.Blocks {
				if len(b.Cheaters) > 0 {
					vu.Stat("block_with_cheaters")
				}
			}
		}
	}
	return obs
}

func init() {
	refh.Stat = vu.Stat
	vu.Register("C01", &vu.Prop{Gen: c01Gen, Run: c01Run})
}
