package main

import (
	"bytes"
	"fmt"
	"math/rand"
	"sort"
	"strconv"
	"strings"

	"github.com/Fantom-foundation/lachesis-base/kvdb"
	"github.com/Fantom-foundation/lachesis-base/kvdb/flaggedproducer"
	"github.com/Fantom-foundation/lachesis-base/kvdb/flushable"
	"github.com/Fantom-foundation/lachesis-base/kvdb/memorydb"

	"verifharness/vu"
)

// C25: crash consistency of multi-database flushes.
//
//   pool|flag <flushIDKey hex> <batch size scale> [v]      (v: leveldb-like Batch.ValueSize, flag mode)
//     ; O n            producer.OpenDB(db<n>)
//     ; U n            SyncedPool.GetUnderlying(db<n>)          (flag: = O)
//     ; P n k v        OpenDB(db<n>).Put(k, v)
//     ; D n k          OpenDB(db<n>).Delete(k)
//     ; B n k=v,k=~    OpenDB(db<n>).NewBatch(); Put/Delete...; Write()     (~ = delete)
//     ; X n            s := OpenDB(db<n>); s.Close(); s.Drop()
//     ; K n            OpenDB(db<n>).Close()   (closes the handle only)
//     ; BB n ws1 ws2   one batch: fill ws1, Write, Write again, Reset, fill ws2, Write
//     ; F id           producer.Flush(id)
//     ; R              crash here (at this operation boundary): the producer is abandoned, a NEW SyncedPool /
//                      flaggedproducer is created over the same databases and Initialize(names, nil)d; when that
//                      fails (log marker Rerr) the application does not start and the rest of the history is skipped
//
// The producer under test (flushable.SyncedPool / flaggedproducer.Producer) runs over a
// RECORDING kvdb.DBProducer (memorydb stores) that logs every durable operation:
//   o:<n> (OpenDB)  x:<n> (Drop)  p:<n>:<k>:<v>  d:<n>:<k>  b:<n>:<k>=<v>,<k>=~,...
// with markers F / f around each Flush call.  For EVERY prefix of the durable log fresh
// databases are rebuilt from the prefix and a new SyncedPool / flaggedproducer is
// Initialize()d over the surviving names: verdict N (ok, nil id), O:<mark>, E:d|s|n|o.
// After every completed flush the logical contents (read through the producer's stores)
// of every database are dumped: S:<n>=<k>:<v>,...;<n>=...
//
// Before every flush the same dump is taken (without the flush-ID key): Q:<n>=...;...
// For every prefix Initialize is also run with an EXPECTED flush ID (the mark of flush k mod (#flushes+1), or 00eeee): X section.
// Observation:  LOG <log tokens> ; V <verdict per prefix 0..L> ; S <snapshot per flush> ; Q <pre-flush dump per flush> ; X <verdict with expected ID per prefix> ; R<0|1>
// (R1: the live databases at the end equal the replay of the whole log.)

type c25World struct {
	dbs   map[string]kvdb.Store
	log   []string
	quiet bool
	scale int
	acctV bool // Batch.ValueSize like leveldb/pebble: len(value) per put, 1 per delete (flag mode only)
}

func c25Name(n string) string   { return "db" + n }
func c25Num(name string) string { return strings.TrimPrefix(name, "db") }

func (w *c25World) add(t string) {
	if !w.quiet {
		w.log = append(w.log, t)
	}
}

func (w *c25World) OpenDB(name string) (kvdb.Store, error) {
	w.add("o:" + c25Num(name))
	db, ok := w.dbs[name]
	if !ok {
		db = memorydb.New()
		w.dbs[name] = db
	}
	return &c25Store{Store: db, w: w, name: name}, nil
}

func (w *c25World) Names() []string {
	var r []string
	for n := range w.dbs {
		r = append(r, n)
	}
	sort.Strings(r)
	return r
}

type c25Store struct {
	kvdb.Store
	w    *c25World
	name string
}

func (s *c25Store) Put(k, v []byte) error {
	s.w.add("p:" + c25Num(s.name) + ":" + vu.Hex(k) + ":" + vu.Hex(v))
	return s.Store.Put(k, v)
}
func (s *c25Store) Delete(k []byte) error {
	s.w.add("d:" + c25Num(s.name) + ":" + vu.Hex(k))
	return s.Store.Delete(k)
}
func (s *c25Store) Close() error { return nil } // closing a handle is not a durable operation
func (s *c25Store) Drop() {
	s.w.add("x:" + c25Num(s.name))
	delete(s.w.dbs, s.name)
}
func (s *c25Store) NewBatch() kvdb.Batch {
	return &c25Batch{Batch: s.Store.NewBatch(), s: s}
}

type c25Batch struct {
	kvdb.Batch
	s      *c25Store
	writes []string
	sizeV  int
}

func (b *c25Batch) Put(k, v []byte) error {
	b.writes = append(b.writes, vu.Hex(k)+"="+vu.Hex(v))
	b.sizeV += len(v)
	return b.Batch.Put(k, v)
}
func (b *c25Batch) Delete(k []byte) error {
	b.writes = append(b.writes, vu.Hex(k)+"=~")
	b.sizeV++
	return b.Batch.Delete(k)
}

// ValueSize is scaled so that the IdealBatchSize split of Flushable.flush is reachable with small
// values.  With acctV it counts like the leveldb/pebble batches (a batch of empty values has size 0).
func (b *c25Batch) ValueSize() int {
	v := b.Batch.ValueSize() * b.s.w.scale
	if b.s.w.acctV {
		v = b.sizeV * b.s.w.scale
	}
	if !b.s.w.quiet {
		switch {
		case v == kvdb.IdealBatchSize:
			vu.Stat("sweep_batch_size_eq_ideal")
		case v > kvdb.IdealBatchSize:
			vu.Stat("sweep_batch_size_gt_ideal")
		}
	}
	return v
}
func (b *c25Batch) Write() error {
	ws := strings.Join(b.writes, ",")
	if ws == "" {
		ws = "."
	}
	b.s.w.add("b:" + c25Num(b.s.name) + ":" + ws)
	return b.Batch.Write()
}
func (b *c25Batch) Reset() { b.writes = nil; b.sizeV = 0; b.Batch.Reset() }

func c25Dump(db kvdb.Store) string { return c25DumpExcept(db, nil) }

// c25DumpExcept dumps all pairs but the one stored under key skip (nil: nothing skipped)
func c25DumpExcept(db kvdb.Store, skip []byte) string {
	var parts []string
	it := db.NewIterator(nil, nil)
	defer it.Release()
	for it.Next() {
		if skip != nil && bytes.Equal(it.Key(), skip) {
			continue
		}
		parts = append(parts, vu.Hex(it.Key())+":"+vu.Hex(it.Value()))
	}
	return strings.Join(parts, ",")
}

// apply one logged durable operation to a world (used to rebuild the databases of a crash prefix)
func c25Apply(w *c25World, t string) {
	f := strings.Split(t, ":")
	name := c25Name(f[1])
	switch f[0] {
	case "o":
		if _, ok := w.dbs[name]; !ok {
			w.dbs[name] = memorydb.New()
		}
	case "x":
		delete(w.dbs, name)
	case "p":
		if db, ok := w.dbs[name]; ok {
			_ = db.Put(vu.UnHex(f[2]), vu.UnHex(f[3]))
		}
	case "d":
		if db, ok := w.dbs[name]; ok {
			_ = db.Delete(vu.UnHex(f[2]))
		}
	case "b":
		if db, ok := w.dbs[name]; ok && f[2] != "." {
			for _, kv := range strings.Split(f[2], ",") {
				e := strings.Split(kv, "=")
				if e[1] == "~" {
					_ = db.Delete(vu.UnHex(e[0]))
				} else {
					_ = db.Put(vu.UnHex(e[0]), vu.UnHex(e[1]))
				}
			}
		}
	}
}

func c25Recover(mode string, w *c25World, fk []byte, expected []byte, names []string) string {
	var id []byte
	var err error
	if names == nil {
		names = w.Names()
	}
	if mode == "pool" {
		id, err = flushable.NewSyncedPool(w, fk).Initialize(names, expected)
	} else {
		id, err = flaggedproducer.Wrap(w, fk).Initialize(names, expected)
	}
	if err != nil {
		m := err.Error()
		switch {
		case strings.HasPrefix(m, "dirty state"):
			return "E:d"
		case strings.HasPrefix(m, "not synced"):
			return "E:s"
		case strings.HasPrefix(m, "non-initialized"):
			return "E:n"
		}
		return "E:o"
	}
	if id == nil {
		return "N"
	}
	return "O:" + vu.Hex(id)
}

func c25Run(in []string) []string {
	header, ops := c26SplitOps(in)
	if len(header) < 3 || (header[0] != "pool" && header[0] != "flag") {
		return []string{"BAD"}
	}
	mode := header[0]
	fk := vu.UnHex(header[1])
	scale, _ := strconv.Atoi(header[2])
	if scale < 1 {
		scale = 1
	}
	w := &c25World{dbs: map[string]kvdb.Store{}, scale: scale}
	if len(header) > 3 && header[3] == "v" && mode == "flag" {
		w.acctV = true
		vu.Stat("flag_leveldb_like_batch_size")
	}
	var prod kvdb.FlushableDBProducer
	var pool *flushable.SyncedPool
	if mode == "pool" {
		pool = flushable.NewSyncedPool(w, fk)
		prod = pool
	} else {
		prod = flaggedproducer.Wrap(w, fk)
	}
	var snaps, pres []string
	openNames := func() []string {
		var names []string
		if pool != nil {
			names = pool.Names()
		} else {
			names = w.Names()
		}
		sort.Slice(names, func(i, j int) bool {
			a, _ := strconv.Atoi(c25Num(names[i]))
			b, _ := strconv.Atoi(c25Num(names[j]))
			return a < b
		})
		return names
	}
	dead := false
	for _, o := range ops {
		if len(o) == 0 || dead {
			continue
		}
		vu.Stat(mode + "_" + o[0])
		switch o[0] {
		case "R":
			before := len(w.log)
			var err error
			if mode == "pool" {
				pool = flushable.NewSyncedPool(w, fk)
				prod = pool
				_, err = pool.Initialize(w.Names(), nil)
			} else {
				fp := flaggedproducer.Wrap(w, fk)
				prod = fp
				_, err = fp.Initialize(w.Names(), nil)
			}
			if err != nil {
				// the opens of the failed Initialize change nothing; the history ends here
				w.log = append(w.log[:before], "Rerr")
				dead = true
				vu.Stat(mode + "_restart_refused")
			} else {
				w.log = append(append(append([]string{}, w.log[:before]...), "R"), w.log[before:]...)
				vu.Stat(mode + "_restart_ok")
			}
		case "O":
			_, _ = prod.OpenDB(c25Name(o[1]))
		case "U":
			if pool != nil {
				_, _ = pool.GetUnderlying(c25Name(o[1]))
			} else {
				_, _ = prod.OpenDB(c25Name(o[1]))
			}
		case "P":
			s, _ := prod.OpenDB(c25Name(o[1]))
			_ = s.Put(vu.UnHex(o[2]), vu.UnHex(o[3]))
		case "D":
			s, _ := prod.OpenDB(c25Name(o[1]))
			_ = s.Delete(vu.UnHex(o[2]))
		case "B":
			s, _ := prod.OpenDB(c25Name(o[1]))
			b := s.NewBatch()
			if o[2] != "." {
				for _, kv := range strings.Split(o[2], ",") {
					e := strings.Split(kv, "=")
					if e[1] == "~" {
						_ = b.Delete(vu.UnHex(e[0]))
					} else {
						_ = b.Put(vu.UnHex(e[0]), vu.UnHex(e[1]))
					}
				}
			}
			_ = b.Write()
		case "K": // close the handle only; the store stays usable
			s, _ := prod.OpenDB(c25Name(o[1]))
			_ = s.Close()
		case "BB": // one batch object used three times: Write, Write again without Reset, Reset + new content + Write
			s, _ := prod.OpenDB(c25Name(o[1]))
			b := s.NewBatch()
			fill := func(ws string) {
				if ws == "." {
					return
				}
				for _, kv := range strings.Split(ws, ",") {
					e := strings.Split(kv, "=")
					if e[1] == "~" {
						_ = b.Delete(vu.UnHex(e[0]))
					} else {
						_ = b.Put(vu.UnHex(e[0]), vu.UnHex(e[1]))
					}
				}
			}
			fill(o[2])
			_ = b.Write()
			_ = b.Write()
			b.Reset()
			fill(o[3])
			_ = b.Write()
		case "X":
			s, _ := prod.OpenDB(c25Name(o[1]))
			_ = s.Close()
			s.Drop()
		case "F":
			// the user-visible contents of every open database BEFORE the flush, read through the
			// producer (for the pool: the cache over the underlying database), flush-ID key left out
			w.quiet = true
			var pre []string
			for _, n := range openNames() {
				s, _ := prod.OpenDB(n)
				pre = append(pre, c25Num(n)+"="+c25DumpExcept(s, fk))
			}
			w.quiet = false
			pres = append(pres, "Q:"+strings.Join(pre, ";"))
			w.log = append(w.log, "F")
			if err := prod.Flush(vu.UnHex(o[1])); err != nil {
				w.log = append(w.log, "ferr")
			}
			w.log = append(w.log, "f")
			// logical contents of every open database, read through the producer
			w.quiet = true
			var parts []string
			for _, n := range openNames() {
				s, _ := prod.OpenDB(n)
				parts = append(parts, c25Num(n)+"="+c25Dump(s))
			}
			w.quiet = false
			snaps = append(snaps, "S:"+strings.Join(parts, ";"))
		}
	}
	// ---- crash at every prefix of the durable log
	var durable []string
	for _, t := range w.log {
		if t != "F" && t != "f" && t != "ferr" && t != "R" && t != "Rerr" {
			durable = append(durable, t)
		}
	}
	var flushIDs [][]byte // of the flushes that were executed (none after a refused restart)
	for _, o := range ops {
		if len(o) == 2 && o[0] == "F" && len(flushIDs) < len(snaps) {
			flushIDs = append(flushIDs, vu.UnHex(o[1]))
		}
	}
	var xverd, yverd, zverd []string
	obs := []string{"LOG"}
	obs = append(obs, w.log...)
	obs = append(obs, ";", "V")
	okSeen, errSeen := false, false
	for k := 0; k <= len(durable); k++ {
		cw := &c25World{dbs: map[string]kvdb.Store{}, quiet: true, scale: 1}
		for _, t := range durable[:k] {
			c25Apply(cw, t)
		}
		v := c25Recover(mode, cw, fk, nil, nil)
		obs = append(obs, v)
		// the same with an expected flush ID: the mark of flush (k mod (#flushes+1)), or a bogus one
		exp := []byte{0x00, 0xee, 0xee}
		if j := k % (len(flushIDs) + 1); j < len(flushIDs) {
			exp = append([]byte{0x00}, flushIDs[j]...)
		}
		xv := c25Recover(mode, cw, fk, exp, nil)
		xverd = append(xverd, xv)
		// Initialize over a SUBSET of the surviving names (all but the first) ...
		all := cw.Names()
		if len(all) > 0 {
			zverd = append(zverd, c25Recover(mode, cw, fk, nil, all[1:]))
		} else {
			zverd = append(zverd, c25Recover(mode, cw, fk, nil, []string{}))
		}
		// ... and over the surviving names plus one that does not exist (it is created, empty); last, it mutates cw
		yverd = append(yverd, c25Recover(mode, cw, fk, nil, append(append([]string{}, all...), "dbnew")))
		delete(cw.dbs, "dbnew")
		vu.Stat("expected_verdict_" + xv[:1])
		if v[0] == 'E' {
			vu.Stat("verdict_" + v)
		} else {
			vu.Stat("verdict_" + v[:1])
		}
		if v[0] == 'O' {
			okSeen = true
		}
		if v[0] == 'E' {
			errSeen = true
		}
		if k == len(durable) {
			// recorder consistency: the live databases equal the replay of the whole log
			same := len(cw.dbs) == len(w.dbs)
			for n, db := range w.dbs {
				o, ok := cw.dbs[n]
				if !ok || c25Dump(o) != c25Dump(db) {
					same = false
				}
			}
			obs = append(obs, ";", "S")
			obs = append(obs, snaps...)
			obs = append(obs, ";", "Q")
			obs = append(obs, pres...)
			obs = append(obs, ";", "X")
			obs = append(obs, xverd...)
			obs = append(obs, ";", "Y")
			obs = append(obs, yverd...)
			obs = append(obs, ";", "Z")
			obs = append(obs, zverd...)
			obs = append(obs, ";", "R"+vu.B(same))
		}
	}
	if okSeen && errSeen {
		vu.Stat("history_with_ok_and_error_crash_points")
	}
	vu.StatN("crash_points", len(durable)+1)
	return obs
}

// ---------------------------------------------------------------- generator

var c25Keys = []string{"61", "62", "63", "6161", "6162", "7a", "-"}

func c25Val(r *rand.Rand) string {
	switch r.Intn(5) {
	case 0:
		return "-"
	case 1:
		return "31"
	case 2:
		return "3232"
	}
	b := make([]byte, 1+r.Intn(4))
	r.Read(b)
	return vu.Hex(b)
}

// exhaustive small scope (thorough tier): every history of up to 4 operations over the alphabet
// {put db0, put db1, delete db0, drop db0, drop db1, GetUnderlying db1, flush, restart}, closed by a flush, in both modes
func c25Exhaustive(emit func(...string)) {
	alpha := [][]string{{"P", "0", "61", "31"}, {"P", "1", "61", "32"}, {"D", "0", "61"}, {"X", "0"}, {"X", "1"}, {"U", "1"}, {"F"}, {"R"}}
	var rec func(mode string, depth int, cur [][]string)
	rec = func(mode string, depth int, cur [][]string) {
		if len(cur) > 0 {
			in := []string{mode, "ff", "1"}
			fl := 0
			for _, o := range cur {
				in = append(in, ";")
				if o[0] == "F" {
					fl++
					in = append(in, "F", fmt.Sprintf("%02x", fl))
				} else {
					in = append(in, o...)
				}
			}
			in = append(in, ";", "F", fmt.Sprintf("%02x", fl+1))
			emit(in...)
		}
		if depth == 0 {
			return
		}
		for _, o := range alpha {
			rec(mode, depth-1, append(append([][]string{}, cur...), o))
		}
	}
	rec("pool", 4, nil)
	rec("flag", 4, nil)
}

func c25Gen(r *rand.Rand, n int, tier string, emit func(...string)) {
	if tier == "thorough" {
		c25Exhaustive(emit)
	}
	for i := 0; i < n; i++ {
		mode := "pool"
		if r.Intn(5) < 2 {
			mode = "flag"
		}
		if r.Intn(12) == 0 {
			// name reuse across a COMPLETED drop: open X, write, flush, drop X, flush, X again, write, flush, restart
			vu.Stat("sweep_name_reuse_after_completed_drop")
			x := strconv.Itoa(r.Intn(3))
			y := strconv.Itoa(3 + r.Intn(2))
			in := []string{mode, "ff666c", "1", ";", "P", x, "61", "31", ";", "P", y, "62", "32", ";", "F", "01",
				";", "X", x, ";", "F", "02"}
			if r.Intn(2) == 0 {
				in = append(in, ";", "O", x)
			}
			in = append(in, ";", "P", x, c25Keys[r.Intn(3)], c25Val(r), ";", "F", "03")
			if r.Intn(2) == 0 {
				in = append(in, ";", "R", ";", "P", x, "63", "33", ";", "F", "04")
			}
			emit(in...)
			continue
		}
		fk := []string{"ff666c", "00", "6b", "-"}[r.Intn(4)] // "-": the empty flush-ID key
		// scales: 1 (never split), mid, and the exact boundaries n*scale == IdealBatchSize for n = 1, 2, 4, 5, 8
		scale := []int{1, 1, 15000, 30000, 110000, 102400, 51200, 25600, 20480, 12800}[r.Intn(10)]
		keys := c25Keys
		if fk == "-" {
			keys = c25Keys[:len(c25Keys)-1] // user keys differ from the flush-ID key
			vu.Stat("sweep_empty_flush_id_key")
		}
		in := []string{mode, fk, strconv.Itoa(scale)}
		if mode == "flag" && r.Intn(2) == 0 {
			in = append(in, "v")
		}
		ndb := 2 + r.Intn(3)
		switch r.Intn(12) {
		case 0:
			ndb = 1
			vu.Stat("sweep_single_db")
		case 1:
			ndb = 8 + r.Intn(5) // many databases
			vu.Stat("sweep_many_dbs")
		}
		nops := 5 + r.Intn(21)
		if ndb > 4 {
			nops += 15
		}
		dropped := map[string]bool{}
		if tier == "thorough" {
			nops += r.Intn(30)
		}
		flushes := 0
		var ids []string
		for j := 0; j < nops; j++ {
			in = append(in, ";")
			db := strconv.Itoa(r.Intn(ndb))
			switch x := r.Intn(24); {
			case x < 2:
				in = append(in, "O", db)
			case x < 3:
				in = append(in, "U", db)
			case x < 10:
				if dropped[db] {
					vu.Stat("sweep_drop_then_recreate")
					dropped[db] = false
				}
				in = append(in, "P", db, keys[r.Intn(len(keys))], c25Val(r))
			case x < 12:
				in = append(in, "D", db, keys[r.Intn(len(keys))])
			case x < 13:
				if r.Intn(2) == 0 {
					in = append(in, "K", db)
				} else {
					mk := func() string {
						var ws []string
						for q := r.Intn(3); q >= 0; q-- {
							if r.Intn(4) == 0 {
								ws = append(ws, keys[r.Intn(len(keys))]+"=~")
							} else {
								ws = append(ws, keys[r.Intn(len(keys))]+"="+c25Val(r))
							}
						}
						return strings.Join(ws, ",")
					}
					in = append(in, "BB", db, mk(), mk())
					vu.Stat("sweep_batch_reuse")
				}
			case x < 16:
				var ws []string
				flavour := r.Intn(6) // 0: empty values only, 1: the empty key with an empty value
				for q := r.Intn(5); q >= 0; q-- {
					if flavour == 0 {
						ws = append(ws, keys[r.Intn(len(keys))]+"=-")
					} else if flavour == 1 && fk != "-" {
						ws = append(ws, "-=-")
					} else if r.Intn(4) == 0 {
						ws = append(ws, keys[r.Intn(len(keys))]+"=~")
					} else {
						ws = append(ws, keys[r.Intn(len(keys))]+"="+c25Val(r))
					}
				}
				if r.Intn(12) == 0 {
					ws = nil
				}
				if len(ws) == 0 {
					in = append(in, "B", db, ".")
				} else {
					in = append(in, "B", db, strings.Join(ws, ","))
				}
			case x < 18:
				if r.Intn(3) == 0 {
					in = append(in, "R")
				} else {
					in = append(in, "X", db)
					dropped[db] = true
				}
			default:
				flushes++
				id := fmt.Sprintf("%02x", flushes)
				switch r.Intn(14) {
				case 12:
					id = id[:2] // a one-byte ID
				case 13:
					id = strings.Repeat("ab", 40) + id // a long ID
					vu.Stat("sweep_long_flush_id")
				case 0:
					id = "-" // empty flush ID
					vu.Stat("sweep_empty_flush_id")
				case 1:
					id = "de" + id // an ID that starts with the dirty prefix byte
				case 2:
					if len(ids) > 1 { // re-use of an older (not the previous) ID
						id = ids[r.Intn(len(ids)-1)]
					}
				}
				if len(ids) > 0 && ids[len(ids)-1] == id && r.Intn(3) != 0 {
					id = id + "00"
				}
				if len(ids) > 0 && r.Intn(15) == 0 {
					id = ids[len(ids)-1] // the same ID twice in a row (pool: the strong statement still holds)
				}
				if len(ids) > 0 && ids[len(ids)-1] == id {
					vu.Stat(mode + "_same_consecutive_id")
				}
				if len(in) >= 3 && in[len(in)-3] == "F" { // two flushes in a row: the second has nothing to flush
					vu.Stat("sweep_flush_with_nothing_to_flush")
				}
				if id == "-00" {
					id = "00"
				}
				ids = append(ids, id)
				in = append(in, "F", id)
			}
		}
		if flushes == 0 || r.Intn(3) == 0 {
			flushes++
			id := fmt.Sprintf("%02x", flushes)
			if len(ids) > 0 && ids[len(ids)-1] == id {
				id += "01"
			}
			in = append(in, ";", "F", id)
		}
		emit(in...)
	}
}

func init() {
	vu.Register("C25", &vu.Prop{Gen: c25Gen, Run: c25Run})
}
