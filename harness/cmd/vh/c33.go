package main

import (
	"fmt"
	"math/rand"
	"strconv"
	"strings"

	"github.com/Fantom-foundation/lachesis-base/abft"
	"github.com/Fantom-foundation/lachesis-base/abft/election"
	"github.com/Fantom-foundation/lachesis-base/hash"
	"github.com/Fantom-foundation/lachesis-base/inter/dag"
	"github.com/Fantom-foundation/lachesis-base/inter/idx"
	"github.com/Fantom-foundation/lachesis-base/inter/pos"
	"github.com/Fantom-foundation/lachesis-base/kvdb"
	"github.com/Fantom-foundation/lachesis-base/kvdb/memorydb"

	"verifharness/vu"
)

// C33: root registry of abft.Store.  Case: <RootsNum> <RootsFrames> ; op ; op ; ...
//   A spf frame creator idhex : Store.AddRoot(spf, event{Frame, Creator, ID})
//   G f                       : Store.GetFrameRoots(f)
//   R | RS | RL               : Orderer.Reset(epoch+1 | same epoch | epoch-1, validators) = dropEpochDB + openEpochDB
//   B                         : restart = new Store + Orderer over the same main/epoch DBs, Bootstrap
// The store is set up as a node does: NewStore, ApplyGenesis, NewOrderer(...).Bootstrap (which opens
// the epoch DB and reads frame 1 once).  Observation per op: "; ok" or "; g<frame:validator:idhex,...>".

type c33event struct {
	dag.MutableBaseEvent
	id hash.Event
}

func (e *c33event) ID() hash.Event { return e.id }

// a handle on a persistent, name-keyed database: Close leaves the data where it is, Drop erases it
type c33persistent struct {
	kvdb.Store
	drop func()
}

func (d *c33persistent) Close() error { return nil }
func (d *c33persistent) Drop()        { d.drop() }

type c33source struct{}

func (c33source) HasEvent(hash.Event) bool      { return false }
func (c33source) GetEvent(hash.Event) dag.Event { return nil }

type c33index struct{}

func (c33index) ForklessCause(a, b hash.Event) bool { return false }

func c33Run(in []string) []string {
	return c29Guard(func() []string { return c33RunRaw(in) })
}

func c33RunRaw(in []string) (obs []string) {
	var groups [][]string
	cur := []string{}
	for _, t := range in {
		if t == ";" {
			groups = append(groups, cur)
			cur = []string{}
		} else {
			cur = append(cur, t)
		}
	}
	groups = append(groups, cur)
	if len(groups[0]) != 2 && len(groups[0]) != 3 {
		panic("bad header")
	}
	// third header token "P": the epoch DB producer hands out PERSISTENT databases keyed by the
	// epoch number (like an on-disk "epoch-N"): Close keeps the data, only Drop erases it
	persistent := len(groups[0]) == 3 && groups[0][2] == "P"
	num, _ := strconv.ParseUint(groups[0][0], 10, 64)
	frames, _ := strconv.Atoi(groups[0][1])

	critCalled := false
	crit := func(err error) {
		critCalled = true
		panic("crit: " + err.Error())
	}
	defer func() {
		if r := recover(); r != nil {
			if critCalled {
				vu.Stat("crit")
				obs = []string{"CRIT"}
				return
			}
			panic(r)
		}
	}()
	// the node's databases outlive a Store: the main DB and one DB per epoch
	mainDB := memorydb.New()
	epochDBs := map[idx.Epoch]kvdb.Store{}
	producer := func(e idx.Epoch) kvdb.Store {
		if persistent {
			vu.Stat("persistent_producer_open")
			db, ok := epochDBs[e]
			if !ok {
				db = memorydb.New()
				epochDBs[e] = db
			}
			return &c33persistent{Store: db, drop: func() { delete(epochDBs, e) }}
		}
		if db, ok := epochDBs[e]; ok {
			return db
		}
		db := memorydb.New()
		epochDBs[e] = db
		return db
	}
	cfg := abft.StoreConfig{Cache: abft.StoreCacheConfig{RootsNum: uint(num), RootsFrames: frames}}
	store := abft.NewStore(mainDB, producer, crit, cfg)
	vb := pos.NewBuilder()
	for v := 1; v <= 4; v++ {
		vb.Set(idx.ValidatorID(v), 1)
	}
	vals := vb.Build()
	epoch := idx.Epoch(1)
	if err := store.ApplyGenesis(&abft.Genesis{Epoch: epoch, Validators: vals}); err != nil {
		panic(err)
	}
	orderer := abft.NewOrderer(store, c33source{}, c33index{}, crit, abft.LiteConfig())
	if err := orderer.Bootstrap(abft.OrdererCallbacks{}); err != nil {
		panic(err)
	}
	// every slice GetFrameRoots returned, with a private copy: a later AddRoot appends to the cached
	// slice (store_roots.go: rr = append(rr, r)), possibly into the same backing array; what a caller
	// already holds must not change
	type held struct {
		got, copy []election.RootAndSlot
		f        uint64
	}
	var holds []held
	checkHeld := func() {
		for _, h := range holds {
			for i := range h.copy {
				if h.got[i] != h.copy[i] {
					vu.Stat("returned_slice_changed")
					obs = append(obs, ";", "ALIASED", strconv.FormatUint(h.f, 10))
					return
				}
			}
		}
	}
	for _, o := range groups[1:] {
		if len(o) == 0 {
			continue
		}
		vu.Stat("op_" + o[0])
		checkHeld()
		switch o[0] {
		case "A":
			spf, _ := strconv.ParseUint(o[1], 10, 32)
			fr, _ := strconv.ParseUint(o[2], 10, 32)
			cr, _ := strconv.ParseUint(o[3], 10, 32)
			e := &c33event{}
			e.SetEpoch(epoch)
			e.SetFrame(idx.Frame(fr))
			e.SetCreator(idx.ValidatorID(cr))
			e.id = hash.BytesToEvent(vu.UnHex(o[4]))
			store.AddRoot(idx.Frame(spf), e)
			if fr > spf+1 {
				vu.Stat("multi_frame_root")
			}
			obs = append(obs, ";", "ok")
		case "G":
			f, _ := strconv.ParseUint(o[1], 10, 32)
			rr := store.GetFrameRoots(idx.Frame(f))
			holds = append(holds, held{got: rr, copy: append([]election.RootAndSlot{}, rr...), f: f})
			var toks []string
			for _, r := range rr {
				toks = append(toks, fmt.Sprintf("%d:%d:%x", uint32(r.Slot.Frame), uint32(r.Slot.Validator), r.ID.Bytes()))
			}
			if len(toks) == 0 {
				obs = append(obs, ";", "g-")
			} else {
				vu.Stat("get_nonempty")
				if len(toks) > 100 {
					vu.Stat("get_more_than_100_roots")
				}
				if len(toks) > 1 {
					vu.Stat("get_several")
				}
				obs = append(obs, ";", "g"+strings.Join(toks, ","))
			}
		case "B":
			// restart: a new Store (fresh cache) and Orderer over the same databases.  With roots
			// in frames 1..3 the bootstrap's election replay ends with the quorum sanity error
			// (no root forkless-causes another under the stub index); the Store stays usable.
			store = abft.NewStore(mainDB, producer, crit, cfg)
			orderer = abft.NewOrderer(store, c33source{}, c33index{}, crit, abft.LiteConfig())
			if err := orderer.Bootstrap(abft.OrdererCallbacks{}); err != nil {
				vu.Stat("restart_bootstrap_err")
			}
			obs = append(obs, ";", "ok")
		case "R", "RS", "RL":
			// Reset drops the current epoch DB (dropEpochDB) and opens the DB of the target epoch:
			// the next number (R), the SAME number again (RS) or a lower one (RL).  A dropped
			// database is gone: the producer makes a new, empty one when that number is opened again.
			if !persistent {
				delete(epochDBs, epoch)
			}
			switch o[0] {
			case "R":
				epoch++
			case "RL":
				if epoch > 1 {
					epoch--
				}
			}
			if err := orderer.Reset(epoch, vals); err != nil {
				panic(err)
			}
			obs = append(obs, ";", "ok")
		default:
			panic("bad op " + o[0])
		}
	}
	checkHeld()
	return obs
}

var c33ids = []string{
	"0000000000000000000000000000000000000000000000000000000000000000",
	"0000000000000000000000000000000000000000000000000000000000000001",
	"00000001000000020000000000000000000000000000000000000000000000ff",
	"00000001000000030100000000000000000000000000000000000000000000aa",
	"7fffffffffffffffffffffffffffffffffffffffffffffffffffffffffffffff",
	"8000000000000000000000000000000000000000000000000000000000000000",
	"ff00000000000000000000000000000000000000000000000000000000000000",
	"ffffffffffffffffffffffffffffffffffffffffffffffffffffffffffffffff",
}

func c33Frame(r *rand.Rand) int {
	switch r.Intn(12) {
	case 0:
		return []int{255, 256, 257, 65536, 65537, 16777216}[r.Intn(6)]
	case 1:
		return 0
	}
	return 1 + r.Intn(6)
}

func c33GenOps(r *rand.Rand, n int) []string {
	var out []string
	for i := 0; i < n; i++ {
		out = append(out, ";")
		x := r.Intn(100)
		switch {
		case x < 50:
			fr := c33Frame(r)
			spf := fr - 1
			switch r.Intn(6) {
			case 0: // frame jump: registers every skipped frame
				spf = fr - 1 - r.Intn(4)
			case 1: // nothing to register
				spf = fr + r.Intn(2)
			}
			if spf < 0 {
				spf = 0
			}
			id := c33ids[r.Intn(len(c33ids))]
			if r.Intn(3) == 0 {
				b := make([]byte, 32)
				r.Read(b)
				id = fmt.Sprintf("%x", b)
			}
			out = append(out, "A", strconv.Itoa(spf), strconv.Itoa(fr), strconv.Itoa(1+r.Intn(4)), id)
		case x < 91:
			out = append(out, "G", strconv.Itoa(c33Frame(r)))
		case x < 95:
			out = append(out, "B")
		default:
			// epoch switch: to the next, the same or a lower epoch number, sometimes twice in a
			// row, and queried right away (frames that were cached must come back empty)
			kinds := []string{"R", "R", "RS", "RS", "RL"}
			out = append(out, kinds[r.Intn(len(kinds))])
			if r.Intn(3) == 0 {
				out = append(out, ";", kinds[r.Intn(len(kinds))])
			}
			for _, f := range []int{1, 2, 3} {
				if r.Intn(2) == 0 {
					out = append(out, ";", "G", strconv.Itoa(f))
				}
			}
		}
	}
	// final sweep over the small frames and the boundary ones
	for _, f := range []int{0, 1, 2, 3, 4, 5, 6, 7, 255, 256, 257, 65536, 65537, 16777216} {
		out = append(out, ";", "G", strconv.Itoa(f))
	}
	return out
}

func init() {
	nums := []int{0, 1, 2, 5, 50}
	frs := []int{0, 1, 2, 5}
	vu.Register("C33", &vu.Prop{
		Gen: func(r *rand.Rand, n int, tier string, emit func(...string)) {
			emit("5", "-1") // negative RootsFrames: makeCache reports through crit
			for _, a := range nums {
				for _, b := range frs {
					// fork roots in one slot, duplicate registration, multi-frame root, then epoch switch
					emit(strconv.Itoa(a), strconv.Itoa(b), ";", "G", "1", ";", "A", "0", "1", "1", c33ids[1], ";", "A", "0", "1", "1", c33ids[7],
						";", "A", "0", "1", "1", c33ids[1], ";", "G", "1", ";", "A", "0", "3", "2", c33ids[4], ";", "G", "2", ";", "G", "3", ";", "G", "1",
						";", "A", "1", "2", "3", c33ids[5], ";", "G", "2", ";", "B", ";", "G", "3", ";", "G", "1", ";", "G", "2", ";", "R", ";", "G", "1", ";", "G", "2", ";", "A", "0", "1", "4", c33ids[2], ";", "G", "1")
				}
			}
			// epoch switch to the same / a lower epoch number while frames with roots are cached;
			// with a fresh-DB-per-open producer and with a persistent name-keyed producer ("P")
			for _, a := range nums {
				for _, b := range frs {
					for _, k := range [][]string{{"RS"}, {"RL"}, {"R", ";", "RL"}, {"RS", ";", "RS"}, {"R", ";", "R", ";", "RL", ";", "RL"}} {
						in := []string{strconv.Itoa(a), strconv.Itoa(b), "P", ";", "A", "0", "2", "1", c33ids[1], ";", "A", "1", "2", "2", c33ids[6], ";"}
						if (a+b)%2 == 0 {
							in = append(in, "G", "1", ";", "G", "2", ";")
						}
						in = append(in, k...)
						in = append(in, ";", "G", "1", ";", "G", "2", ";", "A", "0", "1", "3", c33ids[3], ";", "G", "1", ";", "B", ";", "G", "1", ";", "G", "2")
						emit(in...)
					}
					for _, k := range [][]string{{"RS"}, {"RL"}, {"RS", ";", "RS"}, {"R", ";", "RL"}, {"R", ";", "RS"}, {"RL", ";", "R"}} {
						in := []string{strconv.Itoa(a), strconv.Itoa(b), ";", "A", "0", "2", "1", c33ids[1], ";", "A", "1", "2", "2", c33ids[6],
							";", "G", "1", ";", "G", "2", ";"}
						in = append(in, k...)
						in = append(in, ";", "G", "1", ";", "G", "2", ";", "A", "0", "1", "3", c33ids[3], ";", "G", "1", ";", "G", "2", ";", "B", ";", "G", "1")
						emit(in...)
					}
				}
			}
			// size class: one frame with 101..300 roots (many creators, fork roots in one slot), queried
			// before and after crossing 100 / 128 / 256 (slice capacities 100, 128, 256), on the
			// cache-hit path (frame queried first, then appended to), the miss path (cache 0/0, or
			// first query after all adds) and after a restart (DB scan only)
			bigCfgs := [][2]int{{0, 0}, {1, 1}, {50, 5}, {1000, 100}, {120, 2}}
			marks := map[int]bool{99: true, 100: true, 101: true, 127: true, 128: true, 129: true, 199: true, 255: true, 256: true, 257: true}
			variants := 3
			if tier == "thorough" {
				variants = 8
			}
			for ci, cfg := range bigCfgs {
				for v := 0; v < variants; v++ {
					total := []int{101, 130, 258, 300, 150, 257, 200, 129}[(v+ci)%8]
					frame := 1 + (v % 2)
					in := []string{strconv.Itoa(cfg[0]), strconv.Itoa(cfg[1])}
					hit := v%3 != 1 // query first so that later AddRoots append to the cached slice
					if hit {
						in = append(in, ";", "G", strconv.Itoa(frame))
					}
					for k := 1; k <= total; k++ {
						creator := 1 + (k*7)%97
						if v%3 == 2 && k%5 == 0 {
							creator = 3 // fork roots: many ids in one slot
						}
						id := fmt.Sprintf("%02x%062x", (k*37)%256, k)
						in = append(in, ";", "A", strconv.Itoa(frame-1), strconv.Itoa(frame), strconv.Itoa(creator), id)
						if marks[k] && (hit || k > 200) {
							in = append(in, ";", "G", strconv.Itoa(frame))
						}
					}
					in = append(in, ";", "G", strconv.Itoa(frame), ";", "G", strconv.Itoa(3-frame), ";", "G", strconv.Itoa(frame))
					if v%2 == 0 {
						in = append(in, ";", "B", ";", "G", strconv.Itoa(frame), ";", "A", strconv.Itoa(frame-1), strconv.Itoa(frame), "2", c33ids[7], ";", "G", strconv.Itoa(frame))
					} else {
						in = append(in, ";", "RS", ";", "G", strconv.Itoa(frame))
					}
					emit(in...)
				}
			}
			for i := 0; i < n; i++ {
				a, b := nums[r.Intn(len(nums))], frs[r.Intn(len(frs))]
				in := []string{strconv.Itoa(a), strconv.Itoa(b)}
				if r.Intn(3) == 0 {
					in = append(in, "P")
				}
				in = append(in, c33GenOps(r, 1+r.Intn(40))...)
				emit(in...)
			}
		},
		Run: c33Run,
	})
}
