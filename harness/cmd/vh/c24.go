package main

import (
	"fmt"
	"math/rand"
	"reflect"
	"sort"
	"strconv"
	"strings"

	"github.com/Fantom-foundation/lachesis-base/kvdb"
	"github.com/Fantom-foundation/lachesis-base/kvdb/memorydb"
	"github.com/Fantom-foundation/lachesis-base/kvdb/table"

	"verifharness/kvh"
	"verifharness/vu"
)

// C24: prefix tables.  Histories interleave sibling tables, nested tables and raw access to
// the underlying store (memory, leveldb, flushable over memory); a recording base captures
// Compact ranges.  Plus single-op cases "compact 0/<prefix> ~ ~" that expose incPrefix.

var c24Prefixes = []string{"-", "00", "00ff", "61", "6100", "fe", "ff", "ffff", "ff00"}

func c24RandPrefix(r *rand.Rand) string { return c24Prefixes[r.Intn(len(c24Prefixes))] }

func c24History(r *rand.Rand, nops int) []string {
	base := []string{"mem", "mem", "ldb", "mem f", "pbl", "mem!", "ldb!1", "pbl!3"}[r.Intn(8)]
	if len(base) >= 3 && base[:3] == "pbl" && r.Intn(3) > 0 {
		base = "mem"
	}
	header := strings.Fields(base)
	p, q, n := c24RandPrefix(r), c24RandPrefix(r), c24RandPrefix(r)
	m := c24RandPrefix(r) // a sibling of n under the same parent table
	for m == n {
		m = c24RandPrefix(r)
	}
	var handles []string
	hints := []string{p, q, p, q}
	if r.Intn(3) == 0 {
		// the table is a layer of the stack; siblings and raw access one level down
		header = append(header, "t"+p)
		handles = []string{"0", "0", "1", "1/" + q, "0/" + n, "0/" + m, "1/" + p}
		if r.Intn(2) == 0 { // siblings whose parent was itself made by NewTable
			handles = append(handles, "0/"+n+"/"+q, "0/"+n+"/"+m)
		}
	} else {
		handles = []string{"0", "0/" + p, "0/" + q, "0/" + p + "/" + n, "0/" + p + "/" + m}
		switch r.Intn(4) {
		case 0:
			handles = append(handles, "0/"+q+"/"+n+"/"+p)
		case 1: // siblings whose parent was itself made by NewTable
			handles = append(handles, "0/"+p+"/"+n+"/"+q, "0/"+p+"/"+n+"/"+m)
		}
	}
	hints = append(hints, kvhCat(p, m))
	hints = append(hints, kvhCat(p, n))
	return kvh.Gen(r, kvh.GenCfg{Header: header, Handles: handles, NOps: nops, Compact: true,
		SweepPairs: 6, KeyHints: hints, ECompact: r.Intn(4) == 0, Reopen: header[0] != "mem" && r.Intn(4) == 0})
}

func kvhCat(a, b string) string {
	a, b = strings.Trim(a, "-"), strings.Trim(b, "-")
	if a+b == "" {
		return "-"
	}
	return a + b
}

func c24IncCase(prefix []byte) []string {
	return []string{"mem", ";", "compact", "0/" + kvh.Tok(prefix), "~", "~"}
}

func c24Gen(r *rand.Rand, n int, tier string, emit func(input ...string)) {
	// incPrefix: all prefixes of length <= 1 (quick) / <= 2 (thorough), then random longer ones
	emit(c24IncCase([]byte{})...)
	for a := 0; a < 256; a++ {
		emit(c24IncCase([]byte{byte(a)})...)
	}
	if tier == "thorough" {
		for a := 0; a < 256; a++ {
			for b := 0; b < 256; b++ {
				emit(c24IncCase([]byte{byte(a), byte(b)})...)
			}
		}
	} else {
		for _, a := range []int{0, 1, 0x61, 0xfe, 0xff} {
			for b := 0; b < 256; b += 5 {
				emit(c24IncCase([]byte{byte(a), byte(b)})...)
			}
			emit(c24IncCase([]byte{byte(a), 0xff})...)
		}
	}
	// reflect.go: call sequences over struct types that print identically but carry different tags
	for _, seq := range [][]int{{0, 1}, {1, 0}, {0, 1, 0}, {2, 3}, {3, 2}, {0, 2, 1, 3}, {4, 0, 4}, {1}, {3, 3}} {
		emit(c24MigCase(seq)...)
	}
	for i := 0; i < n/40; i++ {
		var seq []int
		for j := 1 + r.Intn(4); j > 0; j-- {
			seq = append(seq, r.Intn(len(c24Types)))
		}
		emit(c24MigCase(seq)...)
	}
	// reflect.go: tag lists for OpenTables / MigrateTables (uniqKeys)
	tagPool := []string{"-", "2d", "61", "6162", "6163", "62", "00", "00ff", "ff", "ffff", "6100", "c3a9"}
	for i := 0; i < n/10; i++ {
		k := 1 + r.Intn(4)
		tags := []string{"UNIQ"}
		for j := 0; j < k; j++ {
			tags = append(tags, tagPool[r.Intn(len(tagPool))])
		}
		emit(tags...)
	}
	nInc := n / 4
	for i := 0; i < nInc; i++ {
		l := 2 + r.Intn(7)
		p := make([]byte, l)
		for j := range p {
			switch r.Intn(4) {
			case 0:
				p[j] = 0xff
			case 1:
				p[j] = byte(r.Intn(3)) * 0x7f
			default:
				p[j] = byte(r.Intn(256))
			}
		}
		if r.Intn(3) == 0 { // trailing ff run
			for j := l - 1 - r.Intn(l); j < l; j++ {
				p[j] = 0xff
			}
		}
		emit(c24IncCase(p)...)
	}
	for i := 0; i < n-nInc; i++ {
		emit(c24History(r, 10+r.Intn(40))...)
	}
}

// c24Uniq runs reflect.go on a struct type built at run time: one kvdb.Store field per tag.
// OpenTables reports uniqKeys.Check(); MigrateTables creates the tables, through which value <i>
// is written at key 6b; the raw content of the store is the observation.
func c24Uniq(tags []string) []string {
	storeT := reflect.TypeOf((*kvdb.Store)(nil)).Elem()
	var fields []reflect.StructField
	for i, t := range tags {
		fields = append(fields, reflect.StructField{
			Name: "F" + strconv.Itoa(i), Type: storeT,
			Tag: reflect.StructTag("table:" + strconv.Quote(string(kvh.Bytes(t)))),
		})
	}
	st := reflect.StructOf(fields)
	obs := []string{"U"}
	opened := reflect.New(st)
	if err := table.OpenTables(opened.Interface(), memorydb.NewProducer(""), "base"); err != nil {
		obs = append(obs, "err")
		vu.Stat("uniq_err")
	} else {
		obs = append(obs, "ok")
		vu.Stat("uniq_ok")
	}
	// MigrateTables(s, nil) zeroes the tagged fields; CloseTables closes what OpenTables opened
	zero := reflect.New(st)
	table.MigrateTables(zero.Interface(), memorydb.New())
	table.MigrateTables(zero.Interface(), nil)
	for i := range tags {
		if !zero.Elem().Field(i).IsNil() {
			panic("MigrateTables(nil) left a table in place")
		}
	}
	if err := table.CloseTables(opened.Interface()); err != nil && obs[len(obs)-1] == "ok" {
		panic("CloseTables: " + err.Error())
	}
	vu.Stat("uniq_migrate_nil_close_tables")
	db := memorydb.New()
	mig := reflect.New(st)
	table.MigrateTables(mig.Interface(), db)
	n := 0
	for i := range tags {
		f := mig.Elem().Field(i)
		if f.IsNil() {
			continue
		}
		n++
		if err := f.Interface().(kvdb.Store).Put([]byte{0x6b}, []byte{byte(n)}); err != nil {
			obs = append(obs, "ERR:put")
		}
	}
	it := db.NewIterator(nil, nil)
	var kv []string
	cnt := 0
	for it.Next() {
		kv = append(kv, kvh.Tok(append([]byte{}, it.Key()...)), kvh.Tok(append([]byte{}, it.Value()...)))
		cnt++
	}
	it.Release()
	obs = append(obs, "I", strconv.Itoa(cnt))
	return append(obs, kv...)
}

// ---- MIG: several MigrateTables / OpenTables calls in ONE process on DIFFERENT struct types that
// print identically (reflect.Type.String() == "main.tables": same-named types declared in different
// function scopes).  Each call must bind every field to the prefix of ITS OWN tag.

func c24TypesA() interface{} {
	type tables struct {
		A kvdb.Store `table:"a"`
		E kvdb.Store `table:"e"`
		N kvdb.Store
	}
	return &tables{}
}
func c24TypesB() interface{} {
	type tables struct {
		A kvdb.Store `table:"A"`
		E kvdb.Store `table:"E"`
		N kvdb.Store
	}
	return &tables{}
}
func c24TypesC() interface{} { // other field count, a skipped and an untagged field first
	type tables struct {
		S kvdb.Store `table:"-"`
		N kvdb.Store
		X kvdb.Store `table:"x"`
	}
	return &tables{}
}
func c24TypesD() interface{} {
	type tables struct {
		S kvdb.Store `table:"s"`
		N kvdb.Store `table:"n"`
		X kvdb.Store `table:"xy"`
	}
	return &tables{}
}

type c24TablesE struct { // a package-level type for comparison (prints "main.c24TablesE")
	A kvdb.Store `table:"e1"`
}

var c24Types = []func() interface{}{c24TypesA, c24TypesB, c24TypesC, c24TypesD, func() interface{} { return &c24TablesE{} }}

// c24TagsOf lists the table tags of a struct in field order ("" for an untagged field).
func c24TagsOf(v interface{}) []string {
	t := reflect.TypeOf(v).Elem()
	var out []string
	for i := 0; i < t.NumField(); i++ {
		out = append(out, t.Field(i).Tag.Get("table"))
	}
	return out
}

// c24MigCase renders "MIG <typeIndex>:<tag>,<tag>,… …" for a sequence of calls.
func c24MigCase(seq []int) []string {
	in := []string{"MIG"}
	for _, k := range seq {
		var tags []string
		for _, t := range c24TagsOf(c24Types[k]()) {
			tags = append(tags, kvh.Tok([]byte(t)))
		}
		in = append(in, strconv.Itoa(k)+":"+strings.Join(tags, ","))
	}
	return in
}

// c24Mig: for every call, MigrateTables over a fresh memorydb, a probe write (key 6b, value = field
// number) through every bound field, then the raw content of that store; then OpenTables over a
// fresh memory producer and the names it opened.
func c24Mig(calls []string) []string {
	var obs []string
	for _, c := range calls {
		k, _ := strconv.Atoi(strings.SplitN(c, ":", 2)[0])
		s := c24Types[k]()
		vu.Stat("mig_type_" + reflect.TypeOf(s).Elem().String())
		db := memorydb.New()
		table.MigrateTables(s, db)
		v := reflect.ValueOf(s).Elem()
		n := 0
		for i := 0; i < v.NumField(); i++ {
			f := v.Field(i)
			if f.IsNil() {
				continue
			}
			n++
			if err := f.Interface().(kvdb.Store).Put([]byte{0x6b}, []byte{byte(n)}); err != nil {
				obs = append(obs, "ERR:put")
			}
		}
		it := db.NewIterator(nil, nil)
		var kv []string
		cnt := 0
		for it.Next() {
			kv = append(kv, kvh.Tok(append([]byte{}, it.Key()...)), kvh.Tok(append([]byte{}, it.Value()...)))
			cnt++
		}
		it.Release()
		obs = append(obs, "I", strconv.Itoa(cnt))
		obs = append(obs, kv...)
		// OpenTables on a second instance of the same type
		s2 := c24Types[k]()
		p := memorydb.NewProducer("")
		if err := table.OpenTables(s2, p, "b"); err != nil {
			obs = append(obs, "O", "err")
		} else {
			names := p.Names()
			sort.Strings(names)
			obs = append(obs, "O", strconv.Itoa(len(names)))
			for _, nm := range names {
				obs = append(obs, kvh.Tok([]byte(nm)))
			}
		}
	}
	return obs
}

func c24Run(input []string) []string {
	if len(input) > 0 && input[0] == "MIG" {
		return c24Mig(input[1:])
	}
	if len(input) > 0 && input[0] == "UNIQ" {
		return c24Uniq(input[1:])
	}
	return kvh.RunCase(input, vu.Stat)
}

func init() {
	vu.Register("C24", &vu.Prop{Gen: c24Gen, Run: c24Run, Teardown: kvh.Teardown})
	_ = fmt.Sprint
}
