package main

import (
	"fmt"
	"math/rand"
	"reflect"
	"strconv"
	"strings"

	"github.com/Fantom-foundation/lachesis-base/kvdb"
	"github.com/Fantom-foundation/lachesis-base/kvdb/memorydb"
	"github.com/Fantom-foundation/lachesis-base/kvdb/table"

	"verifharness/kvh"
	"verifharness/vu"
)

// C24: prefix tables.  Histories interleave sibling tables, nested tables and raw access to
// the underlying store (memory, leveldb, flushable over memory); a recording base captures
// Compact ranges.  Plus single-op cases "compact 0/<prefix> ~ ~" that expose incPrefix.

var c24Prefixes = []string{"-", "00", "00ff", "61", "6100", "fe", "ff", "ffff", "ff00"}

func c24RandPrefix(r *rand.Rand) string { return c24Prefixes[r.Intn(len(c24Prefixes))] }

func c24History(r *rand.Rand, nops int) []string {
	base := []string{"mem", "mem", "ldb", "mem f", "pbl", "mem!", "ldb!1", "pbl!3"}[r.Intn(8)]
	if len(base) >= 3 && base[:3] == "pbl" && r.Intn(3) > 0 {
		base = "mem"
	}
	header := strings.Fields(base)
	p, q, n := c24RandPrefix(r), c24RandPrefix(r), c24RandPrefix(r)
	m := c24RandPrefix(r) // a sibling of n under the same parent table
	for m == n {
		m = c24RandPrefix(r)
	}
	var handles []string
	hints := []string{p, q, p, q}
	if r.Intn(3) == 0 {
		// the table is a layer of the stack; siblings and raw access one level down
		header = append(header, "t"+p)
		handles = []string{"0", "0", "1", "1/" + q, "0/" + n, "0/" + m, "1/" + p}
		if r.Intn(2) == 0 { // siblings whose parent was itself made by NewTable
			handles = append(handles, "0/"+n+"/"+q, "0/"+n+"/"+m)
		}
	} else {
		handles = []string{"0", "0/" + p, "0/" + q, "0/" + p + "/" + n, "0/" + p + "/" + m}
		switch r.Intn(4) {
		case 0:
			handles = append(handles, "0/"+q+"/"+n+"/"+p)
		case 1: // siblings whose parent was itself made by NewTable
			handles = append(handles, "0/"+p+"/"+n+"/"+q, "0/"+p+"/"+n+"/"+m)
		}
	}
	hints = append(hints, kvhCat(p, m))
	hints = append(hints, kvhCat(p, n))
	return kvh.Gen(r, kvh.GenCfg{Header: header, Handles: handles, NOps: nops, Compact: true,
		SweepPairs: 6, KeyHints: hints, ECompact: r.Intn(4) == 0, Reopen: header[0] != "mem" && r.Intn(4) == 0})
}

func kvhCat(a, b string) string {
	a, b = strings.Trim(a, "-"), strings.Trim(b, "-")
	if a+b == "" {
		return "-"
	}
	return a + b
}

func c24IncCase(prefix []byte) []string {
	return []string{"mem", ";", "compact", "0/" + kvh.Tok(prefix), "~", "~"}
}

func c24Gen(r *rand.Rand, n int, tier string, emit func(input ...string)) {
	// incPrefix: all prefixes of length <= 1 (quick) / <= 2 (thorough), then random longer ones
	emit(c24IncCase([]byte{})...)
	for a := 0; a < 256; a++ {
		emit(c24IncCase([]byte{byte(a)})...)
	}
	if tier == "thorough" {
		for a := 0; a < 256; a++ {
			for b := 0; b < 256; b++ {
				emit(c24IncCase([]byte{byte(a), byte(b)})...)
			}
		}
	} else {
		for _, a := range []int{0, 1, 0x61, 0xfe, 0xff} {
			for b := 0; b < 256; b += 5 {
				emit(c24IncCase([]byte{byte(a), byte(b)})...)
			}
			emit(c24IncCase([]byte{byte(a), 0xff})...)
		}
	}
	// reflect.go: tag lists for OpenTables / MigrateTables (uniqKeys)
	tagPool := []string{"-", "2d", "61", "6162", "6163", "62", "00", "00ff", "ff", "ffff", "6100", "c3a9"}
	for i := 0; i < n/10; i++ {
		k := 1 + r.Intn(4)
		tags := []string{"UNIQ"}
		for j := 0; j < k; j++ {
			tags = append(tags, tagPool[r.Intn(len(tagPool))])
		}
		emit(tags...)
	}
	nInc := n / 4
	for i := 0; i < nInc; i++ {
		l := 2 + r.Intn(7)
		p := make([]byte, l)
		for j := range p {
			switch r.Intn(4) {
			case 0:
				p[j] = 0xff
			case 1:
				p[j] = byte(r.Intn(3)) * 0x7f
			default:
				p[j] = byte(r.Intn(256))
			}
		}
		if r.Intn(3) == 0 { // trailing ff run
			for j := l - 1 - r.Intn(l); j < l; j++ {
				p[j] = 0xff
			}
		}
		emit(c24IncCase(p)...)
	}
	for i := 0; i < n-nInc; i++ {
		emit(c24History(r, 10+r.Intn(40))...)
	}
}

// c24Uniq runs reflect.go on a struct type built at run time: one kvdb.Store field per tag.
// OpenTables reports uniqKeys.Check(); MigrateTables creates the tables, through which value <i>
// is written at key 6b; the raw content of the store is the observation.
func c24Uniq(tags []string) []string {
	storeT := reflect.TypeOf((*kvdb.Store)(nil)).Elem()
	var fields []reflect.StructField
	for i, t := range tags {
		fields = append(fields, reflect.StructField{
			Name: "F" + strconv.Itoa(i), Type: storeT,
			Tag: reflect.StructTag("table:" + strconv.Quote(string(kvh.Bytes(t)))),
		})
	}
	st := reflect.StructOf(fields)
	obs := []string{"U"}
	opened := reflect.New(st)
	if err := table.OpenTables(opened.Interface(), memorydb.NewProducer(""), "base"); err != nil {
		obs = append(obs, "err")
		vu.Stat("uniq_err")
	} else {
		obs = append(obs, "ok")
		vu.Stat("uniq_ok")
	}
	// MigrateTables(s, nil) zeroes the tagged fields; CloseTables closes what OpenTables opened
	zero := reflect.New(st)
	table.MigrateTables(zero.Interface(), memorydb.New())
	table.MigrateTables(zero.Interface(), nil)
	for i := range tags {
		if !zero.Elem().Field(i).IsNil() {
			panic("MigrateTables(nil) left a table in place")
		}
	}
	if err := table.CloseTables(opened.Interface()); err != nil && obs[len(obs)-1] == "ok" {
		panic("CloseTables: " + err.Error())
	}
	vu.Stat("uniq_migrate_nil_close_tables")
	db := memorydb.New()
	mig := reflect.New(st)
	table.MigrateTables(mig.Interface(), db)
	n := 0
	for i := range tags {
		f := mig.Elem().Field(i)
		if f.IsNil() {
			continue
		}
		n++
		if err := f.Interface().(kvdb.Store).Put([]byte{0x6b}, []byte{byte(n)}); err != nil {
			obs = append(obs, "ERR:put")
		}
	}
	it := db.NewIterator(nil, nil)
	var kv []string
	cnt := 0
	for it.Next() {
		kv = append(kv, kvh.Tok(append([]byte{}, it.Key()...)), kvh.Tok(append([]byte{}, it.Value()...)))
		cnt++
	}
	it.Release()
	obs = append(obs, "I", strconv.Itoa(cnt))
	return append(obs, kv...)
}

func c24Run(input []string) []string {
	if len(input) > 0 && input[0] == "UNIQ" {
		return c24Uniq(input[1:])
	}
	return kvh.RunCase(input, vu.Stat)
}

func init() {
	vu.Register("C24", &vu.Prop{Gen: c24Gen, Run: c24Run, Teardown: kvh.Teardown})
	_ = fmt.Sprint
}
