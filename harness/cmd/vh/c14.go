package main

import (
	"errors"
	"fmt"
	"math/rand"
	"strconv"
	"strings"

	"github.com/Fantom-foundation/lachesis-base/eventcheck"
	"github.com/Fantom-foundation/lachesis-base/gossip/dagordering"
	"github.com/Fantom-foundation/lachesis-base/hash"
	"github.com/Fantom-foundation/lachesis-base/inter/dag"
	"github.com/Fantom-foundation/lachesis-base/inter/idx"

	"verifharness/gsev"
	"verifharness/vu"
)

// C14: the ordering buffer.  One case = one history
//   <limN> <limS> FC <k> (<eid> <nth>)*k FP <k> (<eid> <nth>)*k ; op ; op ...
//   op ::= P <eid> <size> <npar> <parents...> | K | X <eid>
// Observation = the complete callback log of the REAL dagordering.EventsBuffer (see driver.ml).

var (
	c14ErrCheck   = errors.New("scripted check failure")
	c14ErrProcess = errors.New("scripted process failure")
)

const c14Big = 4000000000 // "no limit" (fits idx.Event)

type c14Hist struct {
	limN, limS uint64
	fc, fp     [][2]uint64
	ops        [][]string
}

func c14Split(in []string) [][]string {
	var groups [][]string
	cur := []string{}
	for _, t := range in {
		if t == ";" {
			groups = append(groups, cur)
			cur = []string{}
		} else {
			cur = append(cur, t)
		}
	}
	return append(groups, cur)
}

func c14U(s string) uint64 {
	v, err := strconv.ParseUint(s, 10, 64)
	if err != nil {
		panic("bad number " + s)
	}
	return v
}

func c14Parse(in []string) *c14Hist {
	g := c14Split(in)
	h := g[0]
	hist := &c14Hist{ops: g[1:]}
	if len(h) < 4 || h[2] != "FC" {
		panic("bad header")
	}
	hist.limN, hist.limS = c14U(h[0]), c14U(h[1])
	k := int(c14U(h[3]))
	p := 4
	for i := 0; i < k; i++ {
		hist.fc = append(hist.fc, [2]uint64{c14U(h[p]), c14U(h[p+1])})
		p += 2
	}
	if h[p] != "FP" {
		panic("bad header")
	}
	k = int(c14U(h[p+1]))
	p += 2
	for i := 0; i < k; i++ {
		hist.fp = append(hist.fp, [2]uint64{c14U(h[p]), c14U(h[p+1])})
		p += 2
	}
	if p != len(h) {
		panic("bad header")
	}
	return hist
}

func c14Hit(tbl [][2]uint64, e uint64, nth uint64) bool {
	for _, p := range tbl {
		if p[0] == e && (p[1] == 0 || p[1] == nth) {
			return true
		}
	}
	return false
}

func c14ErrCode(err error) string {
	switch err {
	case nil:
		return "0"
	case eventcheck.ErrAlreadyConnectedEvent:
		return "1"
	case c14ErrCheck:
		return "2"
	case c14ErrProcess:
		return "3"
	case eventcheck.ErrSpilledEvent:
		return "4"
	case eventcheck.ErrDuplicateEvent:
		return "5"
	}
	return "9"
}

func c14Run(in []string) []string {
	hist := c14Parse(in)
	var log []string
	connected := map[uint64]dag.Event{}
	nCheck := map[uint64]uint64{}
	nProc := map[uint64]uint64{}
	b := func(ok bool) string {
		if ok {
			return "1"
		}
		return "0"
	}
	cidOf := func(e dag.Event) int {
		if ev, ok := e.(*gsev.Ev); ok {
			return ev.Cid
		}
		return -1
	}
	buf := dagordering.New(dag.Metric{Num: idx.Event(hist.limN), Size: hist.limS}, dagordering.Callback{
		Process: func(e dag.Event) error {
			id := gsev.Num(e.ID())
			nProc[id]++
			fail := c14Hit(hist.fp, id, nProc[id])
			log = append(log, fmt.Sprintf("P.%d.%d.%s", cidOf(e), id, b(!fail)))
			if fail {
				vu.Stat("process_fail")
				return c14ErrProcess
			}
			connected[id] = e
			return nil
		},
		Released: func(e dag.Event, peer string, err error) {
			code := c14ErrCode(err)
			if peer != "peer"+strconv.Itoa(cidOf(e)) {
				code = "8" // released with another copy's peer
			}
			vu.Stat("released_" + code)
			log = append(log, fmt.Sprintf("R.%d.%d.%s", cidOf(e), gsev.Num(e.ID()), code))
		},
		Get: func(id hash.Event) dag.Event {
			if e, ok := connected[gsev.Num(id)]; ok {
				return e
			}
			return nil
		},
		Exists: func(id hash.Event) bool {
			_, ok := connected[gsev.Num(id)]
			return ok
		},
		Check: func(e dag.Event, parents dag.Events) error {
			id := gsev.Num(e.ID())
			nCheck[id]++
			fail := c14Hit(hist.fc, id, nCheck[id])
			// the parents handed over must be the connected parents, in order
			if len(parents) != len(e.Parents()) {
				fail = true
			} else {
				for i, p := range e.Parents() {
					if parents[i] == nil || parents[i].ID() != p {
						fail = true
					}
				}
			}
			log = append(log, fmt.Sprintf("C.%d.%d.%s", cidOf(e), id, b(!fail)))
			if fail {
				vu.Stat("check_fail")
				return c14ErrCheck
			}
			return nil
		},
	})
	cid := 0
	for _, op := range hist.ops {
		if len(op) == 0 {
			panic("empty op")
		}
		switch op[0] {
		case "P":
			if len(op) < 4 || len(op) != 4+int(c14U(op[3])) {
				panic("bad push")
			}
			ps := make([]uint64, 0, len(op)-4)
			for _, t := range op[4:] {
				ps = append(ps, c14U(t))
			}
			e := gsev.New(cid, c14U(op[1]), ps, int(c14U(op[2])), 1)
			complete := buf.PushEvent(e, "peer"+strconv.Itoa(cid))
			tot := buf.Total()
			log = append(log, fmt.Sprintf("D.%d.%s.%d.%d", cid, b(complete), tot.Num, tot.Size))
			cid++
			vu.Stat("op_push")
		case "K":
			buf.Clear()
			tot := buf.Total()
			log = append(log, fmt.Sprintf("K.%d.%d", tot.Num, tot.Size))
			vu.Stat("op_clear")
		case "X":
			id := c14U(op[1])
			connected[id] = gsev.New(-1, id, nil, 1, 1)
			log = append(log, fmt.Sprintf("X.%d", id))
			vu.Stat("op_connect")
		default:
			panic("bad op")
		}
	}
	return log
}

// ---- generators

type c14Node struct {
	id   uint64
	pars []uint64
	size int
}

func c14PushTok(n c14Node) string {
	t := []string{"P", vu.U64(n.id), strconv.Itoa(n.size), strconv.Itoa(len(n.pars))}
	for _, p := range n.pars {
		t = append(t, vu.U64(p))
	}
	return strings.Join(t, " ")
}

func c14Emit(emit func(...string), limN, limS uint64, fc, fp [][2]uint64, ops []string) {
	h := []string{vu.U64(limN), vu.U64(limS), "FC", strconv.Itoa(len(fc))}
	for _, p := range fc {
		h = append(h, vu.U64(p[0]), vu.U64(p[1]))
	}
	h = append(h, "FP", strconv.Itoa(len(fp)))
	for _, p := range fp {
		h = append(h, vu.U64(p[0]), vu.U64(p[1]))
	}
	line := strings.Join(h, " ")
	for _, o := range ops {
		line += " ; " + o
	}
	emit(strings.Fields(line)...)
}

// all DAGs on k nodes (ids 1..k, node i chooses a subset of at most 3 earlier nodes)
func c14AllDags(k int) [][]c14Node {
	res := [][]c14Node{{}}
	for i := 1; i <= k; i++ {
		var next [][]c14Node
		for _, d := range res {
			for mask := 0; mask < 1<<uint(i-1); mask++ {
				var ps []uint64
				for j := 0; j < i-1; j++ {
					if mask&(1<<uint(j)) != 0 {
						ps = append(ps, uint64(j+1))
					}
				}
				if len(ps) > 3 {
					continue
				}
				nd := append(append([]c14Node{}, d...), c14Node{id: uint64(i), pars: ps, size: i})
				next = append(next, nd)
			}
		}
		res = next
	}
	return res
}

func c14Perms(n int) [][]int {
	if n == 0 {
		return [][]int{{}}
	}
	var res [][]int
	for _, p := range c14Perms(n - 1) {
		for i := 0; i <= len(p); i++ {
			q := append(append(append([]int{}, p[:i]...), n-1), p[i:]...)
			res = append(res, q)
		}
	}
	return res
}

// exhaustive small scope: every DAG of k events x every push order x every single failing
// event (check or process, or none) x limits {0,1,2,none}; a final Clear closes each history.
func c14Exhaustive(k int, emit func(...string)) {
	lims := [][2]uint64{{0, 0}, {1, c14Big}, {2, c14Big}, {c14Big, 3}, {c14Big, c14Big}}
	for _, d := range c14AllDags(k) {
		for _, perm := range c14Perms(k) {
			ops := make([]string, 0, k+1)
			for _, i := range perm {
				ops = append(ops, c14PushTok(d[i]))
			}
			ops = append(ops, "K")
			for f := 0; f <= 2*k; f++ {
				var fc, fp [][2]uint64
				if f >= 1 && f <= k {
					fc = [][2]uint64{{uint64(f), 0}}
				} else if f > k {
					fp = [][2]uint64{{uint64(f - k), 0}}
				}
				for _, l := range lims {
					c14Emit(emit, l[0], l[1], fc, fp, ops)
				}
			}
		}
	}
}

func c14RandDag(r *rand.Rand, k int) []c14Node {
	d := make([]c14Node, k)
	for i := range d {
		d[i] = c14Node{id: uint64(i + 1), size: 1 + r.Intn(9)}
		np := r.Intn(4)
		if np > i {
			np = i
		}
		seen := map[int]bool{}
		for len(d[i].pars) < np {
			// prefer recent parents (chains and diamonds), sometimes any
			j := i - 1 - r.Intn(1+r.Intn(i))
			if !seen[j] {
				seen[j] = true
				d[i].pars = append(d[i].pars, uint64(j+1))
			}
		}
	}
	return d
}

func c14RandTable(r *rand.Rand, k int, p float64) [][2]uint64 {
	var t [][2]uint64
	for i := 1; i <= k; i++ {
		if r.Float64() < p {
			t = append(t, [2]uint64{uint64(i), uint64(r.Intn(3))})
		}
	}
	return t
}

func c14Random(r *rand.Rand, emit func(...string)) {
	k := 2 + r.Intn(11)
	d := c14RandDag(r, k)
	total := 0
	for _, n := range d {
		total += n.size
	}
	// push order: biased towards children first (the buffer has to wait and recurse)
	order := r.Perm(k)
	switch r.Intn(4) {
	case 0: // reverse topological
		for i := range order {
			order[i] = k - 1 - i
		}
	case 1: // reverse with a few swaps
		for i := range order {
			order[i] = k - 1 - i
		}
		for s := 0; s < 2; s++ {
			a, b := r.Intn(k), r.Intn(k)
			order[a], order[b] = order[b], order[a]
		}
	}
	var ops []string
	dupP, clrP, conP, badP := 0.0, 0.0, 0.0, 0.0
	if r.Intn(2) == 0 {
		dupP = 0.25
	}
	if r.Intn(4) == 0 {
		clrP = 0.05
	}
	if r.Intn(4) == 0 {
		conP = 0.08
	}
	if r.Intn(6) == 0 {
		badP = 0.1
	}
	for _, i := range order {
		n := d[i]
		if r.Float64() < badP {
			switch r.Intn(3) {
			case 0: // its own parent
				n.pars = append(append([]uint64{}, n.pars...), n.id)
			case 1: // a parent nobody ever pushes
				n.pars = append(append([]uint64{}, n.pars...), uint64(100+r.Intn(3)))
			default: // another copy of the event with different parents / size
				n.pars = nil
				n.size = 0
			}
			vu.Stat("malformed_push")
		}
		ops = append(ops, c14PushTok(n))
		for r.Float64() < dupP {
			j := order[r.Intn(len(order))]
			ops = append(ops, c14PushTok(d[j]))
			vu.Stat("dup_push")
		}
		if r.Float64() < clrP {
			ops = append(ops, "K")
		}
		if r.Float64() < conP {
			ops = append(ops, "X "+vu.U64(uint64(1+r.Intn(k))))
		}
	}
	if r.Intn(3) != 0 {
		ops = append(ops, "K")
	}
	var limN, limS uint64 = c14Big, c14Big
	switch r.Intn(5) {
	case 0:
		limN = uint64(r.Intn(4))
	case 1:
		limS = uint64(r.Intn(total + 1))
	case 2:
		limN, limS = uint64(r.Intn(k+1)), uint64(r.Intn(total+1))
	case 3:
		limN, limS = uint64(k), uint64(total) // exactly sufficient
	}
	var fc, fp [][2]uint64
	switch r.Intn(3) {
	case 0:
		fp = c14RandTable(r, k, 0.25)
	case 1:
		fc = c14RandTable(r, k, 0.15)
		fp = c14RandTable(r, k, 0.15)
	}
	c14Emit(emit, limN, limS, fc, fp, ops)
}

func init() {
	vu.Register("C14", &vu.Prop{
		Gen: func(r *rand.Rand, n int, tier string, emit func(...string)) {
			c14Exhaustive(1, emit)
			c14Exhaustive(2, emit)
			c14Exhaustive(3, emit)
			if tier == "thorough" {
				c14Exhaustive(4, emit)
			}
			for i := 0; i < n; i++ {
				c14Random(r, emit)
			}
		},
		Run: c14Run,
	})
}
