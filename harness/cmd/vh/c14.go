package main

import (
	"errors"
	"fmt"
	"math/rand"
	"runtime"
	"strconv"
	"strings"
	"sync"

	"github.com/Fantom-foundation/lachesis-base/eventcheck"
	"github.com/Fantom-foundation/lachesis-base/gossip/dagordering"
	"github.com/Fantom-foundation/lachesis-base/hash"
	"github.com/Fantom-foundation/lachesis-base/inter/dag"
	"github.com/Fantom-foundation/lachesis-base/inter/idx"

	"verifharness/gsev"
	"verifharness/vu"
)

// C14: the ordering buffer.  One case = one history
//   <limN> <limS> FC <k> (<eid> <nth>)*k FP <k> (<eid> <nth>)*k ; op ; op ...
//   op ::= P <eid> <size> <npar> <parents...> | K | X <eid>
// Observation = the complete callback log of the REAL dagordering.EventsBuffer (see driver.ml).

var (
	c14ErrCheck   = errors.New("scripted check failure")
	c14ErrProcess = errors.New("scripted process failure")
)

const c14Big = 4000000000 // "no limit" (fits idx.Event)

type c14Hist struct {
	limN, limS uint64
	fc, fp     [][2]uint64
	ops        [][]string
}

func c14Split(in []string) [][]string {
	var groups [][]string
	cur := []string{}
	for _, t := range in {
		if t == ";" {
			groups = append(groups, cur)
			cur = []string{}
		} else {
			cur = append(cur, t)
		}
	}
	return append(groups, cur)
}

func c14U(s string) uint64 {
	v, err := strconv.ParseUint(s, 10, 64)
	if err != nil {
		panic("bad number " + s)
	}
	return v
}

func c14Parse(in []string) *c14Hist {
	g := c14Split(in)
	h := g[0]
	hist := &c14Hist{ops: g[1:]}
	if len(h) < 4 || h[2] != "FC" {
		panic("bad header")
	}
	hist.limN, hist.limS = c14U(h[0]), c14U(h[1])
	k := int(c14U(h[3]))
	p := 4
	for i := 0; i < k; i++ {
		hist.fc = append(hist.fc, [2]uint64{c14U(h[p]), c14U(h[p+1])})
		p += 2
	}
	if h[p] != "FP" {
		panic("bad header")
	}
	k = int(c14U(h[p+1]))
	p += 2
	for i := 0; i < k; i++ {
		hist.fp = append(hist.fp, [2]uint64{c14U(h[p]), c14U(h[p+1])})
		p += 2
	}
	if p != len(h) {
		panic("bad header")
	}
	return hist
}

func c14Hit(tbl [][2]uint64, e uint64, nth uint64) bool {
	for _, p := range tbl {
		if p[0] == e && (p[1] == 0 || p[1] == nth) {
			return true
		}
	}
	return false
}

func c14ErrCode(err error) string {
	switch err {
	case nil:
		return "0"
	case eventcheck.ErrAlreadyConnectedEvent:
		return "1"
	case c14ErrCheck:
		return "2"
	case c14ErrProcess:
		return "3"
	case eventcheck.ErrSpilledEvent:
		return "4"
	case eventcheck.ErrDuplicateEvent:
		return "5"
	}
	return "9"
}

// c14T5Premise: the history is pushes (optionally a final Clear) of distinct events forming a
// parents-closed DAG, the limits cannot bind and no callback failed (statistics only; the
// verdict is computed by the extracted t5_check).
func c14T5Premise(hist *c14Hist, log []string) bool {
	type ev struct {
		pars []uint64
		size uint64
	}
	evs := map[uint64]ev{}
	var total uint64
	n := 0
	for i, op := range hist.ops {
		switch op[0] {
		case "P":
			id := c14U(op[1])
			if _, dup := evs[id]; dup {
				return false
			}
			var ps []uint64
			for _, t := range op[4:] {
				ps = append(ps, c14U(t))
			}
			evs[id] = ev{ps, c14U(op[2])}
			total += c14U(op[2])
			n++
		case "K":
			if i != len(hist.ops)-1 {
				return false
			}
		case "O":
			return false // statistics only: configurations without callbacks are not counted
		default:
			return false
		}
	}
	if uint64(n) > hist.limN || total > hist.limS {
		return false
	}
	for _, t := range log {
		if (t[0] == 'C' || t[0] == 'P') && strings.HasSuffix(t, ".0") {
			return false
		}
	}
	res := map[uint64]bool{}
	for round := 0; round <= n; round++ {
		for id, e := range evs {
			ok := true
			for _, p := range e.pars {
				if !res[p] {
					ok = false
				}
			}
			if ok {
				res[id] = true
			}
		}
	}
	return len(res) == n
}

// c14Optional: an op "O <flags>" builds the buffer WITHOUT its optional callbacks:
// r = Callback.Released is nil, c = Callback.Check is nil.
func c14Optional(hist *c14Hist) (noReleased, noCheck bool) {
	for _, op := range hist.ops {
		if len(op) == 2 && op[0] == "O" {
			noReleased = noReleased || strings.Contains(op[1], "r")
			noCheck = noCheck || strings.Contains(op[1], "c")
		}
	}
	return
}

func c14Run(in []string) []string {
	hist := c14Parse(in)
	noReleased, noCheck := c14Optional(hist)
	for _, op := range hist.ops {
		if len(op) == 2 && op[0] == "G" {
			return c14RunConcurrent(hist, int(c14U(op[1])))
		}
	}
	var log []string
	connected := map[uint64]dag.Event{}
	nCheck := map[uint64]uint64{}
	nProc := map[uint64]uint64{}
	b := func(ok bool) string {
		if ok {
			return "1"
		}
		return "0"
	}
	// the same Go object may be pushed several times ("R k"): the buffer wraps every push in its own
	// copy; at most one copy per event id is alive in the buffer (a second one is refused as a
	// duplicate), so Check/Process on an object concern its latest non-duplicate push; Released
	// identifies the copy by the peer string
	live := map[*gsev.Ev]int{}
	prevLive := map[*gsev.Ev]int{}
	cidOf := func(e dag.Event) int {
		if ev, ok := e.(*gsev.Ev); ok {
			if c, ok := live[ev]; ok {
				return c
			}
			return ev.Cid
		}
		return -1
	}
	cbs := dagordering.Callback{
		Process: func(e dag.Event) error {
			id := gsev.Num(e.ID())
			nProc[id]++
			fail := c14Hit(hist.fp, id, nProc[id])
			log = append(log, fmt.Sprintf("P.%d.%d.%s", cidOf(e), id, b(!fail)))
			if fail {
				vu.Stat("process_fail")
				return c14ErrProcess
			}
			connected[id] = e
			return nil
		},
		Released: func(e dag.Event, peer string, err error) {
			code := c14ErrCode(err)
			c := cidOf(e)
			if err == eventcheck.ErrDuplicateEvent {
				// the push being made right now was refused: the object's live copy is the older one
				if ev, ok := e.(*gsev.Ev); ok {
					if old, ok := prevLive[ev]; ok {
						live[ev] = old
					}
				}
			}
			if peer != "peer"+strconv.Itoa(c) {
				code = "8" // released with another copy's peer
			}
			vu.Stat("released_" + code)
			log = append(log, fmt.Sprintf("R.%d.%d.%s", c, gsev.Num(e.ID()), code))
		},
		Get: func(id hash.Event) dag.Event {
			if e, ok := connected[gsev.Num(id)]; ok {
				return e
			}
			return nil
		},
		Exists: func(id hash.Event) bool {
			_, ok := connected[gsev.Num(id)]
			return ok
		},
		Check: func(e dag.Event, parents dag.Events) error {
			id := gsev.Num(e.ID())
			nCheck[id]++
			fail := c14Hit(hist.fc, id, nCheck[id])
			// the parents handed over must be the connected parents, in order
			if len(parents) != len(e.Parents()) {
				fail = true
			} else {
				for i, p := range e.Parents() {
					if parents[i] == nil || parents[i].ID() != p {
						fail = true
					}
				}
			}
			log = append(log, fmt.Sprintf("C.%d.%d.%s", cidOf(e), id, b(!fail)))
			if fail {
				vu.Stat("check_fail")
				return c14ErrCheck
			}
			return nil
		},
	}
	if noReleased {
		cbs.Released = nil
		vu.Stat("config_no_released")
	}
	if noCheck {
		cbs.Check = nil
		vu.Stat("config_no_check")
	}
	switch {
	case hist.limN == 0:
		vu.Stat("limit_num_0")
	case hist.limN == 1:
		vu.Stat("limit_num_1")
	case hist.limN == 4294967295:
		vu.Stat("limit_num_maxuint32")
	case hist.limN == 3000:
		vu.Stat("limit_default")
	}
	switch {
	case hist.limS == 0:
		vu.Stat("limit_size_0")
	case hist.limS == 1:
		vu.Stat("limit_size_1")
	case hist.limS == 18446744073709551615:
		vu.Stat("limit_size_maxuint64")
	}
	buf := dagordering.New(dag.Metric{Num: idx.Event(hist.limN), Size: hist.limS}, cbs)
	cid := 0
	var objs []*gsev.Ev
	afterClear, lastClear := false, false
	for _, op := range hist.ops {
		if len(op) == 0 {
			panic("empty op")
		}
		if op[0] != "K" {
			lastClear = false
		}
		switch op[0] {
		case "P":
			if len(op) < 4 || len(op) != 4+int(c14U(op[3])) {
				panic("bad push")
			}
			ps := make([]uint64, 0, len(op)-4)
			for _, t := range op[4:] {
				ps = append(ps, c14U(t))
			}
			e := gsev.New(cid, c14U(op[1]), ps, int(c14U(op[2])), 1)
			objs = append(objs, e)
			live[e] = cid
			complete := buf.PushEvent(e, "peer"+strconv.Itoa(cid))
			tot := buf.Total()
			log = append(log, fmt.Sprintf("D.%d.%s.%d.%d", cid, b(complete), tot.Num, tot.Size))
			cid++
			vu.Stat("op_push")
			if afterClear {
				vu.Stat("push_after_clear")
			}
			if len(ps) > 3 {
				vu.Stat("push_many_parents")
			}
			if c14U(op[2]) == 0 {
				vu.Stat("push_size_0")
			} else if c14U(op[2]) >= 1<<31 {
				vu.Stat("push_size_huge")
			}
		case "R": // push the SAME object as the k-th push again
			k := int(c14U(op[1]))
			if k >= len(objs) {
				panic("bad re-push")
			}
			e := objs[k]
			objs = append(objs, e)
			if c, ok := live[e]; ok {
				prevLive[e] = c
			}
			live[e] = cid
			complete := buf.PushEvent(e, "peer"+strconv.Itoa(cid))
			tot := buf.Total()
			log = append(log, fmt.Sprintf("D.%d.%s.%d.%d", cid, b(complete), tot.Num, tot.Size))
			cid++
			vu.Stat("op_push_same_object")
		case "K":
			buf.Clear()
			tot := buf.Total()
			log = append(log, fmt.Sprintf("K.%d.%d", tot.Num, tot.Size))
			vu.Stat("op_clear")
			if lastClear {
				vu.Stat("clear_twice")
			}
			afterClear, lastClear = true, true
		case "X":
			id := c14U(op[1])
			connected[id] = gsev.New(-1, id, nil, 1, 1)
			log = append(log, fmt.Sprintf("X.%d", id))
			vu.Stat("op_connect")
			if id >= 100 {
				vu.Stat("connect_never_pushed_id")
			}
		case "O":
		default:
			panic("bad op")
		}
	}
	if c14T5Premise(hist, log) {
		vu.Stat("t5_premise_true")
	}
	return log
}

// c14RunConcurrent: the pushes between two non-push ops are issued by g goroutines concurrently
// (events are assigned to goroutines by id, so all copies of an event come from one goroutine, in
// script order).  PushEvent holds the buffer's mutex for its whole duration and every callback
// runs under it, so the pushes are linearised; the linearisation point of a push is observed as
// the first ID() read of the pushed copy (PushEvent does it first thing under the lock).  The
// observation starts with L.<script push indices in linearised order>; copies are numbered in
// that order (as the model numbers them).  Total() after a push cannot be read atomically from
// outside: the D tokens carry "?" instead.
func c14RunConcurrent(hist *c14Hist, g int) []string {
	if g < 2 || g > 8 {
		panic("bad goroutine count")
	}
	type rec struct {
		start *gsev.Ev // a push begins
		tok   string   // or: callback token with %c standing for the copy
		ev    *gsev.Ev
	}
	var mu sync.Mutex
	var recs []rec
	connected := map[uint64]dag.Event{}
	nCheck := map[uint64]uint64{}
	nProc := map[uint64]uint64{}
	complete := map[*gsev.Ev]bool{}
	b := func(ok bool) string {
		if ok {
			return "1"
		}
		return "0"
	}
	noReleased, noCheck := c14Optional(hist)
	cbs := dagordering.Callback{
		Process: func(e dag.Event) error {
			mu.Lock()
			defer mu.Unlock()
			id := gsev.Num(e.ID())
			nProc[id]++
			fail := c14Hit(hist.fp, id, nProc[id])
			recs = append(recs, rec{tok: fmt.Sprintf("P.%%c.%d.%s", id, b(!fail)), ev: e.(*gsev.Ev)})
			if fail {
				return c14ErrProcess
			}
			connected[id] = e
			return nil
		},
		Released: func(e dag.Event, peer string, err error) {
			mu.Lock()
			defer mu.Unlock()
			code := c14ErrCode(err)
			if peer != "peer"+strconv.Itoa(e.(*gsev.Ev).Cid) {
				code = "8"
			}
			recs = append(recs, rec{tok: fmt.Sprintf("R.%%c.%d.%s", gsev.Num(e.ID()), code), ev: e.(*gsev.Ev)})
		},
		Get: func(id hash.Event) dag.Event {
			mu.Lock()
			defer mu.Unlock()
			if e, ok := connected[gsev.Num(id)]; ok {
				return e
			}
			return nil
		},
		Exists: func(id hash.Event) bool {
			mu.Lock()
			defer mu.Unlock()
			_, ok := connected[gsev.Num(id)]
			return ok
		},
		Check: func(e dag.Event, parents dag.Events) error {
			mu.Lock()
			defer mu.Unlock()
			id := gsev.Num(e.ID())
			nCheck[id]++
			fail := c14Hit(hist.fc, id, nCheck[id]) || len(parents) != len(e.Parents())
			recs = append(recs, rec{tok: fmt.Sprintf("C.%%c.%d.%s", id, b(!fail)), ev: e.(*gsev.Ev)})
			if fail {
				return c14ErrCheck
			}
			return nil
		},
	}
	if noReleased {
		cbs.Released = nil
	}
	if noCheck {
		cbs.Check = nil
	}
	buf := dagordering.New(dag.Metric{Num: idx.Event(hist.limN), Size: hist.limS}, cbs)
	onFirstID := func(e *gsev.Ev) {
		mu.Lock()
		recs = append(recs, rec{start: e})
		mu.Unlock()
	}
	var segment []*gsev.Ev
	scriptIdx := 0
	flush := func() {
		var wg sync.WaitGroup
		gate := make(chan struct{})
		for gi := 0; gi < g; gi++ {
			wg.Add(1)
			go func(gi int) {
				defer wg.Done()
				<-gate
				for _, e := range segment {
					if int(e.Eid%uint64(g)) != gi {
						continue
					}
					c := buf.PushEvent(e, "peer"+strconv.Itoa(e.Cid))
					mu.Lock()
					complete[e] = c
					mu.Unlock()
					runtime.Gosched()
				}
			}(gi)
		}
		close(gate)
		wg.Wait()
		segment = nil
		mu.Lock()
		recs = append(recs, rec{}) // barrier: the last push of the segment has returned
		mu.Unlock()
	}
	for _, op := range hist.ops {
		switch op[0] {
		case "G", "O":
		case "P":
			if len(op) < 4 || len(op) != 4+int(c14U(op[3])) {
				panic("bad push")
			}
			ps := make([]uint64, 0, len(op)-4)
			for _, t := range op[4:] {
				ps = append(ps, c14U(t))
			}
			e := gsev.New(scriptIdx, c14U(op[1]), ps, int(c14U(op[2])), 1)
			e.OnFirstID = onFirstID
			scriptIdx++
			segment = append(segment, e)
			vu.Stat("op_push_concurrent")
		case "K":
			flush()
			buf.Clear()
			tot := buf.Total()
			mu.Lock()
			recs = append(recs, rec{tok: fmt.Sprintf("K.%d.%d", tot.Num, tot.Size)})
			mu.Unlock()
		case "X":
			flush()
			id := c14U(op[1])
			mu.Lock()
			connected[id] = gsev.New(-1, id, nil, 1, 1)
			recs = append(recs, rec{tok: fmt.Sprintf("X.%d", id)})
			mu.Unlock()
		default:
			panic("bad op")
		}
	}
	flush()
	// renumber the copies in linearised order and close every push with its D token
	num := map[*gsev.Ev]int{}
	var order []string
	var out []string
	var cur *gsev.Ev
	closePush := func() {
		if cur != nil {
			out = append(out, fmt.Sprintf("D.%d.%s.?.?", num[cur], b(complete[cur])))
			cur = nil
		}
	}
	for _, r := range recs {
		if r.start != nil {
			num[r.start] = len(num)
			order = append(order, strconv.Itoa(r.start.Cid))
		}
	}
	for _, r := range recs {
		switch {
		case r.start != nil:
			closePush()
			cur = r.start
		case r.ev != nil:
			n, ok := num[r.ev]
			if !ok {
				n = -1
			}
			out = append(out, strings.Replace(r.tok, "%c", strconv.Itoa(n), 1))
		default:
			closePush()
			if r.tok != "" {
				out = append(out, r.tok)
			}
		}
	}
	closePush()
	vu.Stat("concurrent_history")
	sw := 0
	for i := 1; i < len(order); i++ {
		a, _ := strconv.Atoi(order[i-1])
		c, _ := strconv.Atoi(order[i])
		if c < a {
			sw++ // the linearisation departs from script order here
		}
	}
	vu.StatN("concurrent_order_inversions", sw)
	return append([]string{"L." + strings.Join(order, "_")}, out...)
}

// ---- generators

type c14Node struct {
	id   uint64
	pars []uint64
	size int
}

func c14PushTok(n c14Node) string {
	t := []string{"P", vu.U64(n.id), strconv.Itoa(n.size), strconv.Itoa(len(n.pars))}
	for _, p := range n.pars {
		t = append(t, vu.U64(p))
	}
	return strings.Join(t, " ")
}

func c14Emit(emit func(...string), limN, limS uint64, fc, fp [][2]uint64, ops []string) {
	h := []string{vu.U64(limN), vu.U64(limS), "FC", strconv.Itoa(len(fc))}
	for _, p := range fc {
		h = append(h, vu.U64(p[0]), vu.U64(p[1]))
	}
	h = append(h, "FP", strconv.Itoa(len(fp)))
	for _, p := range fp {
		h = append(h, vu.U64(p[0]), vu.U64(p[1]))
	}
	line := strings.Join(h, " ")
	for _, o := range ops {
		line += " ; " + o
	}
	emit(strings.Fields(line)...)
}

// all DAGs on k nodes (ids 1..k, node i chooses a subset of at most 3 earlier nodes)
func c14AllDags(k int) [][]c14Node {
	res := [][]c14Node{{}}
	for i := 1; i <= k; i++ {
		var next [][]c14Node
		for _, d := range res {
			for mask := 0; mask < 1<<uint(i-1); mask++ {
				var ps []uint64
				for j := 0; j < i-1; j++ {
					if mask&(1<<uint(j)) != 0 {
						ps = append(ps, uint64(j+1))
					}
				}
				if len(ps) > 3 {
					continue
				}
				nd := append(append([]c14Node{}, d...), c14Node{id: uint64(i), pars: ps, size: i})
				next = append(next, nd)
			}
		}
		res = next
	}
	return res
}

func c14Perms(n int) [][]int {
	if n == 0 {
		return [][]int{{}}
	}
	var res [][]int
	for _, p := range c14Perms(n - 1) {
		for i := 0; i <= len(p); i++ {
			q := append(append(append([]int{}, p[:i]...), n-1), p[i:]...)
			res = append(res, q)
		}
	}
	return res
}

// exhaustive small scope: every DAG of k events x every push order x every single failing
// event (check or process, or none) x limits {0,1,2,none}; a final Clear closes each history.
func c14Exhaustive(k int, emit func(...string)) {
	lims := [][2]uint64{{0, 0}, {1, c14Big}, {2, c14Big}, {c14Big, 3}, {c14Big, c14Big}}
	for _, d := range c14AllDags(k) {
		for _, perm := range c14Perms(k) {
			ops := make([]string, 0, k)
			for _, i := range perm {
				ops = append(ops, c14PushTok(d[i]))
			}
			for f := 0; f <= 2*k; f++ {
				var fc, fp [][2]uint64
				if f >= 1 && f <= k {
					fc = [][2]uint64{{uint64(f), 0}}
				} else if f > k {
					fp = [][2]uint64{{uint64(f - k), 0}}
				}
				for _, l := range lims {
					c14Emit(emit, l[0], l[1], fc, fp, ops)
					c14Emit(emit, l[0], l[1], fc, fp, append(append([]string{}, ops...), "K"))
				}
				// the buffer's optional callbacks absent: Released == nil, Check == nil
				for _, fl := range []string{"r", "c", "rc"} {
					c14Emit(emit, c14Big, c14Big, fc, fp, append(append([]string{}, ops...), "K", "O "+fl))
				}
				if f > k { // a Process that fails only on its first call (the copy may be tried again)
					once := [][2]uint64{{uint64(f - k), 1}}
					c14Emit(emit, c14Big, c14Big, nil, once, append(append([]string{}, ops...), "K", "O r"))
				}
			}
		}
	}
}

func c14RandDag(r *rand.Rand, k int) []c14Node {
	d := make([]c14Node, k)
	for i := range d {
		d[i] = c14Node{id: uint64(i + 1), size: 1 + r.Intn(9)}
		np := r.Intn(4)
		if np > i {
			np = i
		}
		seen := map[int]bool{}
		for len(d[i].pars) < np {
			// prefer recent parents (chains and diamonds), sometimes any
			j := i - 1 - r.Intn(1+r.Intn(i))
			if !seen[j] {
				seen[j] = true
				d[i].pars = append(d[i].pars, uint64(j+1))
			}
		}
	}
	return d
}

func c14RandTable(r *rand.Rand, k int, p float64) [][2]uint64 {
	var t [][2]uint64
	for i := 1; i <= k; i++ {
		if r.Float64() < p {
			t = append(t, [2]uint64{uint64(i), uint64(r.Intn(3))})
		}
	}
	return t
}

func c14Random(r *rand.Rand, emit func(...string)) {
	k := 2 + r.Intn(11)
	d := c14RandDag(r, k)
	total := 0
	for _, n := range d {
		total += n.size
	}
	// push order: biased towards children first (the buffer has to wait and recurse)
	order := r.Perm(k)
	switch r.Intn(4) {
	case 0: // reverse topological
		for i := range order {
			order[i] = k - 1 - i
		}
	case 1: // reverse with a few swaps
		for i := range order {
			order[i] = k - 1 - i
		}
		for s := 0; s < 2; s++ {
			a, b := r.Intn(k), r.Intn(k)
			order[a], order[b] = order[b], order[a]
		}
	}
	var ops []string
	dupP, clrP, conP, badP := 0.0, 0.0, 0.0, 0.0
	if r.Intn(2) == 0 {
		dupP = 0.25
	}
	if r.Intn(4) == 0 {
		clrP = 0.05
	}
	if r.Intn(4) == 0 {
		conP = 0.08
	}
	if r.Intn(6) == 0 {
		badP = 0.1
	}
	for _, i := range order {
		n := d[i]
		if r.Float64() < badP {
			switch r.Intn(3) {
			case 0: // its own parent
				n.pars = append(append([]uint64{}, n.pars...), n.id)
			case 1: // a parent nobody ever pushes
				n.pars = append(append([]uint64{}, n.pars...), uint64(100+r.Intn(3)))
			default: // another copy of the event with different parents / size
				n.pars = nil
				n.size = 0
			}
			vu.Stat("malformed_push")
		}
		ops = append(ops, c14PushTok(n))
		for r.Float64() < dupP {
			j := order[r.Intn(len(order))]
			ops = append(ops, c14PushTok(d[j]))
			vu.Stat("dup_push")
		}
		if r.Float64() < clrP {
			ops = append(ops, "K")
		}
		if r.Float64() < conP {
			if r.Intn(4) == 0 {
				ops = append(ops, "X "+vu.U64(uint64(100+r.Intn(3))))
			} else {
				ops = append(ops, "X "+vu.U64(uint64(1+r.Intn(k))))
			}
		}
	}
	if r.Intn(3) != 0 {
		ops = append(ops, "K")
	}
	var limN, limS uint64 = c14Big, c14Big
	switch r.Intn(5) {
	case 0:
		limN = uint64(r.Intn(4))
	case 1:
		limS = uint64(r.Intn(total + 1))
	case 2:
		limN, limS = uint64(r.Intn(k+1)), uint64(r.Intn(total+1))
	case 3:
		limN, limS = uint64(k), uint64(total) // exactly sufficient
	}
	var fc, fp [][2]uint64
	switch r.Intn(3) {
	case 0:
		fp = c14RandTable(r, k, 0.25)
	case 1:
		fc = c14RandTable(r, k, 0.15)
		fp = c14RandTable(r, k, 0.15)
	}
	c14Emit(emit, limN, limS, fc, fp, ops)
}

// configuration / size sweep: one representative of every limit value (0, 1, exact fit, one below,
// MaxUint32 / MaxUint64, the default 3000 / 10 MiB), event sizes 0 and huge, events connected for ids
// never pushed, the same object pushed again, Clear twice, pushes after Clear, many parents, and a
// long children-first chain (recursion depth = chain length)
func c14Sweep(tier string, emit func(...string)) {
	const maxN, maxS = uint64(4294967295), uint64(18446744073709551615)
	// diamond 1 <- 2,3 <- 4 and a tail 5 <- 4, sizes 1..5, pushed children first
	dag5 := []c14Node{{5, []uint64{4}, 5}, {4, []uint64{2, 3}, 4}, {3, []uint64{1}, 3}, {2, []uint64{1}, 2}, {1, nil, 1}}
	push := func(ns []c14Node) []string {
		var o []string
		for _, n := range ns {
			o = append(o, c14PushTok(n))
		}
		return o
	}
	base := push(dag5)
	lims := [][2]uint64{{0, maxS}, {maxN, 0}, {1, 1}, {1, maxS}, {maxN, 1}, {4, 14}, {3, maxS}, {maxN, 13}, {5, 15},
		{maxN, maxS}, {3000, 10 * 1024 * 1024}}
	for _, l := range lims {
		for _, fl := range []string{"", "O r", "O c", "O rc"} {
			ops := append(append([]string{}, base...), "K")
			if fl != "" {
				ops = append(ops, fl)
			}
			c14Emit(emit, l[0], l[1], nil, nil, ops)
			c14Emit(emit, l[0], l[1], nil, [][2]uint64{{4, 1}}, ops)
		}
	}
	// sizes 0 and huge
	zero := []c14Node{{3, []uint64{2}, 0}, {2, []uint64{1}, 0}, {1, nil, 0}}
	for _, l := range [][2]uint64{{maxN, 0}, {0, 0}, {1, 0}, {maxN, maxS}} {
		c14Emit(emit, l[0], l[1], nil, nil, append(push(zero), "K"))
	}
	huge := []c14Node{{4, []uint64{3}, 1 << 31}, {3, []uint64{2}, 1 << 40}, {2, []uint64{1}, 1 << 62}, {1, nil, (1 << 31) - 1}}
	for _, l := range [][2]uint64{{maxN, maxS}, {maxN, 1 << 62}, {maxN, 1<<62 + 1<<40}, {2, maxS}, {maxN, 1<<31 - 1}} {
		c14Emit(emit, l[0], l[1], nil, nil, append(push(huge), "K"))
		c14Emit(emit, l[0], l[1], nil, nil, append(push(huge[:3]), "K")) // the root never arrives
	}
	// Exists/Get answer for ids that were never pushed
	ghost := []c14Node{{3, []uint64{2, 101}, 3}, {2, []uint64{100}, 2}}
	c14Emit(emit, maxN, maxS, nil, nil, append(append(push(ghost), "X 100", c14PushTok(c14Node{6, []uint64{2}, 1}), "X 101", c14PushTok(c14Node{7, []uint64{3, 100}, 1})), "K"))
	c14Emit(emit, maxN, maxS, nil, nil, append([]string{"X 100", "X 101"}, append(push(ghost), "K")...))
	c14Emit(emit, maxN, maxS, nil, nil, []string{c14PushTok(ghost[1]), "X 2", c14PushTok(ghost[1]), c14PushTok(c14Node{8, []uint64{2}, 1}), "K"}) // buffered, then connected from outside
	// the same object pushed again: while buffered (duplicate), after processing, after a failure, after a spill, after Clear
	c14Emit(emit, maxN, maxS, nil, nil, []string{c14PushTok(dag5[3]), "R 0", c14PushTok(dag5[4]), "R 0", "R 2", "K"})
	c14Emit(emit, maxN, maxS, nil, [][2]uint64{{2, 1}}, []string{c14PushTok(dag5[3]), c14PushTok(dag5[4]), "R 0", "R 0", "K"})
	c14Emit(emit, 1, maxS, nil, nil, []string{c14PushTok(dag5[3]), c14PushTok(dag5[2]), "R 0", "K", "R 0", "R 1", "K", "K"})
	// Clear twice, pushes after Clear, Clear on an empty buffer
	c14Emit(emit, maxN, maxS, nil, nil, append(append([]string{"K", "K"}, base...), "K", "K"))
	c14Emit(emit, maxN, maxS, nil, nil, append(append(append([]string{}, base[:3]...), "K"), append(base, "K", "K")...))
	c14Emit(emit, 2, maxS, nil, nil, append(append(append([]string{}, base[:4]...), "K"), append(base, "K")...))
	// many parents
	wide := []c14Node{{9, []uint64{1, 2, 3, 4, 5, 6, 7, 8}, 9}}
	for i := 8; i >= 1; i-- {
		wide = append(wide, c14Node{uint64(i), nil, i})
	}
	c14Emit(emit, maxN, maxS, nil, nil, append(push(wide), "K"))
	c14Emit(emit, maxN, maxS, nil, [][2]uint64{{5, 0}}, append(push(wide), "K"))
	// long chain, children first: the whole chain is processed by one recursion
	n := 300
	if tier == "thorough" {
		n = 1000
	}
	var chain []c14Node
	for i := n; i >= 1; i-- {
		var ps []uint64
		if i > 1 {
			ps = []uint64{uint64(i - 1)}
		}
		chain = append(chain, c14Node{uint64(i), ps, 1 + i%7})
	}
	vu.Stat("sweep_long_chain")
	c14Emit(emit, 3000, 10*1024*1024, nil, nil, append(push(chain), "K"))
	c14Emit(emit, uint64(n/2), maxS, nil, [][2]uint64{{uint64(n / 3), 0}}, append(push(chain), "K"))
}

// completeness stream: distinct events of a parents-closed DAG in a random (mostly children-first)
// order, no failures, limits exactly sufficient or absent, with or without a final Clear
func c14Complete(r *rand.Rand, emit func(...string)) {
	k := 2 + r.Intn(11)
	d := c14RandDag(r, k)
	total := 0
	for _, n := range d {
		total += n.size
	}
	order := r.Perm(k)
	if r.Intn(2) == 0 {
		for i := range order {
			order[i] = k - 1 - i
		}
		for s := 0; s < r.Intn(3); s++ {
			a, b := r.Intn(k), r.Intn(k)
			order[a], order[b] = order[b], order[a]
		}
	}
	var ops []string
	for _, i := range order {
		ops = append(ops, c14PushTok(d[i]))
	}
	if r.Intn(2) == 0 {
		ops = append(ops, "K")
	}
	var limN, limS uint64 = c14Big, c14Big
	if r.Intn(2) == 0 {
		limN, limS = uint64(k), uint64(total)
	}
	vu.Stat("gen_complete")
	c14Emit(emit, limN, limS, nil, nil, ops)
}

// concurrent stream: the same kind of histories as c14Random, pushed by 2-3 goroutines
func c14Concurrent(r *rand.Rand, emit func(...string)) {
	c14Random(r, func(in ...string) {
		out := append(append([]string{}, in...), ";", "G", strconv.Itoa(2+r.Intn(2)))
		emit(out...)
	})
}

func init() {
	vu.Register("C14", &vu.Prop{
		Gen: func(r *rand.Rand, n int, tier string, emit func(...string)) {
			c14Exhaustive(1, emit)
			c14Exhaustive(2, emit)
			c14Exhaustive(3, emit)
			if tier == "thorough" {
				c14Exhaustive(4, emit)
			}
			c14Sweep(tier, emit)
			for i := 0; i < n; i++ {
				switch {
				case i%5 == 3:
					c14Complete(r, emit)
				case i%5 == 4:
					c14Concurrent(r, emit)
				case i%10 == 2:
					fl := []string{"r", "c", "rc"}[r.Intn(3)]
					c14Random(r, func(in ...string) { emit(append(append([]string{}, in...), ";", "O", fl)...) })
				default:
					c14Random(r, emit)
				}
			}
		},
		Run: c14Run,
	})
}
