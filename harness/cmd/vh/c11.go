package main

import (
	"math/rand"
	"strconv"

	"github.com/ethereum/go-ethereum/rlp"

	"github.com/Fantom-foundation/lachesis-base/inter/idx"
	"github.com/Fantom-foundation/lachesis-base/inter/pos"

	"verifharness/vu"
)

// C11: quorum arithmetic and the weight counter on real pos.Validators.
//   Q id1 w1 id2 w2 ...                    -> "<total> <quorum>" | PANIC
//   K id1 w1 ... ; I i ; C id ; H ; S ...  -> "OK r..." (a panic inside a call ends the list with PANIC) | PANIC
// ids and weights are uint32 values.

func c11Build(toks []string) (vs *pos.Validators, panicked bool) {
	defer func() {
		if r := recover(); r != nil {
			vs, panicked = nil, true
		}
	}()
	b := pos.NewBuilder()
	for i := 0; i+1 < len(toks); i += 2 {
		id, _ := strconv.ParseUint(toks[i], 10, 32)
		w, _ := strconv.ParseUint(toks[i+1], 10, 32)
		b.Set(idx.ValidatorID(id), pos.Weight(w))
	}
	return b.Build(), false
}

func c11Split(in []string) [][]string {
	var groups [][]string
	cur := []string{}
	for _, t := range in {
		if t == ";" {
			groups = append(groups, cur)
			cur = []string{}
		} else {
			cur = append(cur, t)
		}
	}
	return append(groups, cur)
}

// one counter call; ok=false when the call panicked
func c11Call(c *pos.WeightCounter, op []string) (res string, ok bool) {
	defer func() {
		if r := recover(); r != nil {
			res, ok = "PANIC", false
		}
	}()
	switch op[0] {
	case "I":
		i, _ := strconv.ParseUint(op[1], 10, 32)
		return vu.B(c.CountByIdx(idx.Validator(i))), true
	case "C":
		id, _ := strconv.ParseUint(op[1], 10, 32)
		return vu.B(c.Count(idx.ValidatorID(id))), true
	case "H":
		return vu.B(c.HasQuorum()), true
	case "S":
		return vu.U64(uint64(c.Sum())), true
	}
	return "BAD", false
}

// totals at which 2W/3+1, the guard or uint32 arithmetic change behaviour
func c11Boundaries() []uint64 {
	var out []uint64
	add := func(c uint64) {
		for d := int64(-4); d <= 4; d++ {
			v := int64(c) + d
			if v >= 1 && v <= 0xFFFFFFFF {
				out = append(out, uint64(v))
			}
		}
	}
	for k := uint(0); k <= 32; k++ {
		add(uint64(1) << k)
		add(3 * (uint64(1) << k))
		add((uint64(1) << k) / 3)
		add((uint64(1) << k) * 2 / 3)
	}
	third := uint64(0x7FFFFFFF) / 3
	for j := uint64(1); j <= 6; j++ {
		add(third * j)
	}
	add(0xFFFFFFFF / 2)
	add(0xFFFFFFFF / 3)
	add(0xFFFFFFFF / 3 * 2)
	return out
}

// split total w into n positive uint32 parts (n <= w)
func c11SplitTotal(r *rand.Rand, w uint64, n int) []uint64 {
	parts := make([]uint64, n)
	rest := w
	for i := 0; i < n-1; i++ {
		max := rest - uint64(n-1-i)
		var p uint64
		switch r.Intn(3) {
		case 0:
			p = 1
		case 1:
			p = max/uint64(n-i) + 1
			if p > max {
				p = max
			}
		default:
			p = 1 + uint64(r.Int63n(int64(max)))
		}
		if p > 0xFFFFFFFF {
			p = 0xFFFFFFFF
		}
		parts[i] = p
		rest -= p
	}
	parts[n-1] = rest
	return parts
}

func c11GenCounter(r *rand.Rand, emit func(...string)) {
	n := 1 + r.Intn(9)
	in := []string{"K"}
	ws := make([]uint64, n)
	ids := make([]uint64, n)
	mode := r.Intn(5)
	for i := 0; i < n; i++ {
		switch mode {
		case 0: // equal weights: the quorum boundary is hit exactly
			ws[i] = 1 + uint64(n%3)
		case 1:
			ws[i] = 1 + uint64(r.Intn(4))
		case 2: // total close to 2^31-1
			ws[i] = uint64(0x7FFFFFFF) / uint64(n)
		case 3: // one dominant
			ws[i] = 1
			if i == 0 {
				ws[i] = uint64(2*n - 1 + r.Intn(3))
			}
		default:
			ws[i] = 1 + uint64(r.Intn(1000))
		}
		ids[i] = uint64(1 + r.Intn(5) + 5*i)
		if r.Intn(20) == 0 {
			ids[i] = uint64(r.Uint32())
		}
		in = append(in, vu.U64(ids[i]), vu.U64(ws[i]))
	}
	if mode == 2 && r.Intn(4) == 0 { // push the total over the guard: Build must panic
		in = append(in, "4000000000", vu.U64(uint64(0x7FFFFFFF)%uint64(n)+1+uint64(r.Intn(2))))
	}
	nops := 1 + r.Intn(4*n+4)
	for j := 0; j < nops; j++ {
		in = append(in, ";")
		switch k := r.Intn(20); {
		case k < 7:
			in = append(in, "I", strconv.Itoa(r.Intn(n)))
		case k < 13:
			in = append(in, "C", vu.U64(ids[r.Intn(n)]))
		case k < 16:
			in = append(in, "H")
		case k < 18:
			in = append(in, "S")
		case k == 18:
			if r.Intn(4) == 0 {
				in = append(in, "I", strconv.Itoa(n+r.Intn(3))) // out of range: panics
			} else {
				in = append(in, "H")
			}
		default:
			if r.Intn(3) == 0 {
				in = append(in, "C", vu.U64(uint64(r.Uint32()))) // unknown id
			} else {
				in = append(in, "S")
			}
		}
	}
	emit(in...)
}

// large validator sets: more members than a machine word has bits (32, 64, 128 ...), with
// repeated counts at every index class.  sweep = count every index twice, in order.
func c11GenCounterLarge(r *rand.Rand, n int, sweep bool, emit func(...string)) {
	in := []string{"K"}
	ids := make([]uint64, n)
	mode := r.Intn(3)
	perm := r.Perm(n)
	for i := 0; i < n; i++ {
		var w uint64
		switch mode {
		case 0: // equal weights: sorted index = rank of the id
			w = 1
		case 1:
			w = 1 + uint64(r.Intn(5))
		default: // total close to 2^31-1, sums above 2^16 and 2^24
			w = uint64(0x7FFFFFFF)/uint64(n) - uint64(r.Intn(2))
		}
		ids[i] = uint64(1000 + 7*perm[i])
		in = append(in, vu.U64(ids[i]), vu.U64(w))
	}
	op := func(t ...string) { in = append(append(in, ";"), t...) }
	if sweep {
		for i := 0; i < n; i++ {
			op("I", strconv.Itoa(i))
			op("I", strconv.Itoa(i))
			if i%16 == 15 {
				op("S")
				op("H")
			}
		}
		op("S")
		op("H")
		emit(in...)
		return
	}
	// index classes 0..31, 32..63, 64..127, 128.. : pick members of each, count them repeatedly
	classes := [][2]int{{0, 32}, {32, 64}, {64, 128}, {128, 256}, {256, 1 << 20}}
	for _, c := range classes {
		if c[0] >= n {
			break
		}
		hi := c[1]
		if hi > n {
			hi = n
		}
		for k := 0; k < 3; k++ {
			i := c[0] + r.Intn(hi-c[0])
			switch r.Intn(3) {
			case 0:
				op("I", strconv.Itoa(i))
				op("I", strconv.Itoa(i))
			case 1:
				id := ids[r.Intn(n)]
				op("C", vu.U64(id))
				op("C", vu.U64(id))
			default:
				op("I", strconv.Itoa(i))
				op("S")
				op("I", strconv.Itoa(i))
			}
			op("S")
			if r.Intn(2) == 0 {
				op("H")
			}
		}
	}
	// then a random tail with many repeats, until a quorum is likely
	for j, m := 0, n+r.Intn(n); j < m; j++ {
		switch r.Intn(6) {
		case 0:
			op("S")
		case 1:
			op("H")
		case 2:
			op("C", vu.U64(ids[r.Intn(n)]))
		default:
			op("I", strconv.Itoa(r.Intn(n)))
		}
	}
	op("S")
	op("H")
	if r.Intn(4) == 0 {
		op("I", strconv.Itoa(n)) // first index out of range
	}
	emit(in...)
}

func c11LargeSizes(tier string) []int {
	sizes := []int{31, 32, 33, 63, 64, 65, 96, 127, 128, 129, 200}
	if tier == "thorough" {
		sizes = append(sizes, 255, 256, 257, 400, 1000)
	}
	return sizes
}

func init() {
	vu.Register("C11", &vu.Prop{
		Gen: func(r *rand.Rand, n int, tier string, emit func(...string)) {
			small := uint64(3000)
			top := uint64(2000)
			if tier == "thorough" {
				small, top = 20000, 10000
			}
			// every small total, as a one-validator set (its cached total is W)
			for w := uint64(0); w <= small; w++ {
				emit("Q", "1", vu.U64(w))
			}
			for _, w := range c11Boundaries() {
				emit("Q", vu.U64(1+w%7), vu.U64(w))
			}
			for d := uint64(0); d < top; d++ { // the top of the allowed range and just above it
				emit("Q", "7", vu.U64(0x7FFFFFFF-d))
				if d < 50 {
					emit("Q", "7", vu.U64(0x80000000+d))
					emit("Q", "7", vu.U64(0xFFFFFFFF-d))
				}
			}
			// multi-validator splits of interesting totals (incl. totals that wrap uint32 in the loop)
			bs := c11Boundaries()
			for i := 0; i < n; i++ {
				var w uint64
				switch r.Intn(4) {
				case 0:
					w = bs[r.Intn(len(bs))]
				case 1:
					w = uint64(0x7FFFFFFF) - uint64(r.Intn(3)) + uint64(r.Intn(3))
				case 2:
					w = 1 + uint64(r.Int63n(0x7FFFFFFF))
				default:
					w = uint64(0x80000000) + uint64(r.Int63n(0x380000000))
				}
				k := 1 + r.Intn(8)
				if uint64(k) > w {
					k = int(w)
				}
				for uint64(k)*0xFFFFFFFF < w {
					k++
				}
				parts := c11SplitTotal(r, w, k)
				in := []string{"Q"}
				okParts := true
				for j, p := range parts {
					if p > 0xFFFFFFFF || p == 0 {
						okParts = false
					}
					in = append(in, vu.U64(uint64(10+j)), vu.U64(p))
				}
				if !okParts {
					continue
				}
				if r.Intn(6) == 0 { // an overwritten and a deleted entry: only the last write counts
					in = append([]string{"Q", "10", "123", "99", "5"}, in[1:]...)
					in = append(in, "99", "0")
				}
				emit(in...)
			}
			for i := 0; i < n; i++ {
				c11GenCounter(r, emit)
			}
			// sets larger than 32 / 64 / 128 members, around powers of two
			sizes := c11LargeSizes(tier)
			for _, sz := range sizes {
				if sz <= 257 { // the set-based specification is quadratic in the number of counts
					c11GenCounterLarge(r, sz, true, emit)
				}
				c11GenCounterLarge(r, sz, false, emit)
			}
			nl := n/16 + 4
			if nl > 400 {
				nl = 400
			}
			for i := 0; i < nl; i++ {
				c11GenCounterLarge(r, 33+r.Intn(168), false, emit)
			}
			// many validators through Build: Q cases with 33..300 members
			for i := 0; i < n/40+3; i++ {
				m := 33 + r.Intn(268)
				in := []string{"Q"}
				for j := 0; j < m; j++ {
					in = append(in, vu.U64(uint64(5000+j)), vu.U64(uint64(0x7FFFFFFF)/uint64(m)+uint64(r.Intn(3))-1))
				}
				emit(in...)
			}
			// every constructor, id slices with repeats and zero weights (last write wins, 0 removes)
			qmModes := []string{"set", "arr", "eq", "copy", "bld", "dec"}
			emit("QM", "arr", "1", "4", "2", "9", "2", "1", "3", "1")
			emit("QM", "eq", "1", "5", "2", "5", "2", "5", "3", "5")
			for i := 0; i < n/3+30; i++ {
				m := 1 + r.Intn(7)
				mode := qmModes[r.Intn(len(qmModes))]
				eqw := uint64(r.Intn(4)) // EqualWeightValidators needs one weight (0 = everything removed)
				var ids, ws []uint64
				for j := 0; j < m; j++ {
					ids = append(ids, uint64(1+r.Intn(5)))
					w := uint64(r.Intn(12))
					if r.Intn(5) == 0 {
						w = uint64(0x7FFFFFFF) / uint64(m)
					}
					ws = append(ws, w)
				}
				switch r.Intn(5) {
				case 0: // repeat the first id at the end
					ids, ws = append(ids, ids[0]), append(ws, uint64(1+r.Intn(9)))
				case 1: // repeat the last id with weight 0: removed
					ids, ws = append(ids, ids[len(ids)-1]), append(ws, 0)
				case 2: // remove, then add again
					ids, ws = append(ids, ids[0], ids[0]), append(ws, 0, uint64(1+r.Intn(9)))
				}
				in := []string{"QM", mode}
				for j := range ids {
					w := ws[j]
					if mode == "eq" {
						w = eqw
					}
					in = append(in, vu.U64(ids[j]), vu.U64(w))
				}
				emit(in...)
			}
			emit("K", ";", "H", ";", "S", ";", "I", "0") // the empty set
		},
		Run: func(in []string) []string {
			switch in[0] {
			case "Q":
				vs, p := c11Build(in[1:])
				if p {
					vu.Stat("q_build_panic")
					return []string{"PANIC"}
				}
				vu.Stat("q_ok")
				if vs.Len() > 1 {
					vu.Stat("q_multi")
				}
				return []string{vu.U64(uint64(vs.TotalWeight())), vu.U64(uint64(vs.Quorum()))}
			case "QM":
				var vs *pos.Validators
				var p bool
				func() {
					defer func() {
						if r := recover(); r != nil {
							p = true
						}
					}()
					if in[1] == "dec" {
						raw, err := rlp.EncodeToBytes(c12Construct("arr", in[2:]))
						if err != nil {
							panic(err)
						}
						vs = &pos.Validators{}
						if err = rlp.DecodeBytes(raw, vs); err != nil {
							panic(err)
						}
					} else {
						vs = c12Construct(in[1], in[2:])
					}
				}()
				vu.Stat("qm_" + in[1])
				if p {
					vu.Stat("qm_panic")
					return []string{"PANIC"}
				}
				c := vs.NewCounter()
				for i := 0; i < int(vs.Len()); i++ {
					c.CountByIdx(idx.Validator(i))
				}
				return []string{vu.U64(uint64(vs.TotalWeight())), vu.U64(uint64(vs.Quorum())),
					strconv.Itoa(int(vs.Len())), vu.B(c.HasQuorum())}
			case "K":
				g := c11Split(in[1:])
				vs, p := c11Build(g[0])
				if p {
					vu.Stat("k_build_panic")
					return []string{"PANIC"}
				}
				c := vs.NewCounter()
				switch l := int(vs.Len()); {
				case l > 128:
					vu.Stat("k_set_over_128")
				case l > 64:
					vu.Stat("k_set_65_to_128")
				case l > 32:
					vu.Stat("k_set_33_to_64")
				}
				out := []string{"OK"}
				for _, op := range g[1:] {
					res, ok := c11Call(c, op)
					out = append(out, res)
					vu.Stat("k_op_" + op[0])
					if !ok {
						vu.Stat("k_call_panic")
						break
					}
					if op[0] == "H" && res == "1" {
						vu.Stat("k_quorum_reached")
					}
					if (op[0] == "I" || op[0] == "C") && res == "0" {
						vu.Stat("k_repeat_count")
						if op[0] == "I" {
							if i, _ := strconv.Atoi(op[1]); i >= 64 {
								vu.Stat("k_repeat_count_idx_ge_64")
							} else if i >= 32 {
								vu.Stat("k_repeat_count_idx_32_63")
							}
						}
					}
				}
				return out
			}
			return []string{"BAD"}
		},
	})
}
