package main

import (
	"bytes"
	"errors"
	"fmt"
	"math/rand"
	"strconv"
	"strings"

	"github.com/Fantom-foundation/lachesis-base/kvdb"
	"github.com/Fantom-foundation/lachesis-base/kvdb/batched"
	"github.com/Fantom-foundation/lachesis-base/kvdb/cachedproducer"
	"github.com/Fantom-foundation/lachesis-base/kvdb/devnulldb"
	"github.com/Fantom-foundation/lachesis-base/kvdb/fallible"
	"github.com/Fantom-foundation/lachesis-base/kvdb/memorydb"
	"github.com/Fantom-foundation/lachesis-base/kvdb/nokeyiserr"
	"github.com/Fantom-foundation/lachesis-base/kvdb/readonlystore"
	"github.com/Fantom-foundation/lachesis-base/kvdb/skiperrors"
	"github.com/Fantom-foundation/lachesis-base/kvdb/skipkeys"

	"verifharness/vu"
)

// C23x (extension of C23): the kvdb wrappers outside the C22-C24 models — batched, skipkeys,
// nokeyiserr, readonlystore, skiperrors, fallible, devnulldb, cachedproducer's StoreWithFn —
// stacked over one base store.
//
//   kw <batch size scale> <layers, top first, comma separated> ; op ; op ...
// layers:  B batched | S:<prefix hex> skipkeys | N nokeyiserr | R readonlystore |
//          E:<codes, dot separated> skiperrors listing these error codes | F:<n> fallible with
//          SetWriteCount(n) | C cachedproducer store | X:<prefix hex>:<code> test double: Has/Get/Put/
//          Delete on keys with the prefix fail with error <code> | base: M (memorydb double: Close is a no-op,
//          Drop empties), m (the REAL memorydb: Close empties and closes, Drop needs a closed store) or Z (devnulldb)
// error codes: 1 kvdb.ErrUnsupportedOp, 2 "not found" (nokeyiserr), 3 and 4 injected, 5 cachedproducer
// "called Close more times than OpenDB", 6 "database closed", 9 anything else
// ops (all at the top of the stack unless a depth d is given):
//   P k v | D k | G k | H k | I prefix start | BN b | BP b k v | BD b k | BW b | BR b |
//   SN i | SG i k | SH i k | SI i prefix start | FL d | MF d | SC d n | CL | DR |
//   LW d / LR d / LP d (batched.Store.Write / Reset / Replay of the layer at depth d) | GC d (fallible.GetWriteCount) |
//   RO d (OpenDB of the same name again on the cachedproducer of the layer at depth d)
// nothing is terminal: after Close / Drop the history goes on (use after close, second Close, ...)
// observation per op: ok | e<code> | panic ; v:<hex> | nil ; 1 | 0 ; [k:v,...] ; - (no such slot / after
// the end) ; CL/DR: end:<result>:<contents of the base store> ; LP: {k=v,k=~} ; GC: n:<count>

var (
	c23xErr3 = errors.New("injected error three")
	c23xErr4 = errors.New("injected error four")
)

func c23xErrOf(code string) error {
	switch code {
	case "1":
		return kvdb.ErrUnsupportedOp
	case "2":
		return errors.New("not found")
	case "3":
		return c23xErr3
	}
	return c23xErr4
}

func c23xCode(err error) string {
	switch {
	case err == nil:
		return "ok"
	case err == kvdb.ErrUnsupportedOp:
		return "e1"
	case err.Error() == "not found":
		return "e2"
	case err == c23xErr3:
		return "e3"
	case err == c23xErr4:
		return "e4"
	case err.Error() == "called Close more times than OpenDB":
		return "e5"
	case err.Error() == "database closed":
		return "e6"
	}
	return "e9"
}

// base store: memorydb whose Close keeps the data (a handle is closed, the data stay) and whose
// batches report a scaled ValueSize
type c23xBase struct {
	kvdb.Store
	scale   int
	dropped bool
}

func (b *c23xBase) Close() error { return nil }
func (b *c23xBase) Drop() { // empties the same instance (batches created earlier keep pointing to it)
	it := b.Store.NewIterator(nil, nil)
	var keys [][]byte
	for it.Next() {
		keys = append(keys, append([]byte{}, it.Key()...))
	}
	it.Release()
	for _, k := range keys {
		_ = b.Store.Delete(k)
	}
	b.dropped = true
}
func (b *c23xBase) NewBatch() kvdb.Batch {
	return &c23xScaled{Batch: b.Store.NewBatch(), scale: b.scale}
}

// the real memorydb, only its batches report a scaled ValueSize
type c23xRealMem struct {
	kvdb.Store
	scale int
}

func (b *c23xRealMem) NewBatch() kvdb.Batch {
	return &c23xScaled{Batch: b.Store.NewBatch(), scale: b.scale}
}

type c23xRecorder struct{ ops []string }

func (r *c23xRecorder) Put(k, v []byte) error {
	r.ops = append(r.ops, vu.Hex(k)+"="+vu.Hex(v))
	return nil
}
func (r *c23xRecorder) Delete(k []byte) error {
	r.ops = append(r.ops, vu.Hex(k)+"=~")
	return nil
}

type c23xScaled struct {
	kvdb.Batch
	scale int
}

func (b *c23xScaled) ValueSize() int {
	v := b.Batch.ValueSize() * b.scale
	switch { // what batched.MayFlush compares with IdealBatchSize
	case v == kvdb.IdealBatchSize:
		vu.Stat("sweep_valuesize_eq_ideal")
	case v > kvdb.IdealBatchSize:
		vu.Stat("sweep_valuesize_gt_ideal")
	}
	return v
}

// test double: fails on keys with a prefix
type c23xErrStore struct {
	kvdb.Store
	bad []byte
	err error
}

func (s *c23xErrStore) Has(k []byte) (bool, error) {
	if bytes.HasPrefix(k, s.bad) {
		return false, s.err
	}
	return s.Store.Has(k)
}
func (s *c23xErrStore) Get(k []byte) ([]byte, error) {
	if bytes.HasPrefix(k, s.bad) {
		return nil, s.err
	}
	return s.Store.Get(k)
}
func (s *c23xErrStore) Put(k, v []byte) error {
	if bytes.HasPrefix(k, s.bad) {
		return s.err
	}
	return s.Store.Put(k, v)
}
func (s *c23xErrStore) Delete(k []byte) error {
	if bytes.HasPrefix(k, s.bad) {
		return s.err
	}
	return s.Store.Delete(k)
}
func (s *c23xErrStore) GetSnapshot() (kvdb.Snapshot, error) {
	sn, err := s.Store.GetSnapshot()
	if err != nil {
		return nil, err
	}
	return &c23xErrSnap{Snapshot: sn, bad: s.bad, err: s.err}, nil
}

type c23xErrSnap struct {
	kvdb.Snapshot
	bad []byte
	err error
}

func (s *c23xErrSnap) Has(k []byte) (bool, error) {
	if bytes.HasPrefix(k, s.bad) {
		return false, s.err
	}
	return s.Snapshot.Has(k)
}
func (s *c23xErrSnap) Get(k []byte) ([]byte, error) {
	if bytes.HasPrefix(k, s.bad) {
		return nil, s.err
	}
	return s.Snapshot.Get(k)
}

type c23xOneProducer struct{ s kvdb.Store }

func (p c23xOneProducer) OpenDB(string) (kvdb.Store, error) { return p.s, nil }

func c23xDrain(it kvdb.Iterator) string {
	var parts []string
	for it.Next() {
		parts = append(parts, vu.Hex(it.Key())+":"+vu.Hex(it.Value()))
	}
	it.Release()
	return "[" + strings.Join(parts, ",") + "]"
}

func c23xRun(in []string) []string {
	header, ops := c26SplitOps(in)
	if len(header) < 3 || header[0] != "kw" {
		return []string{"BAD"}
	}
	scale, _ := strconv.Atoi(header[1])
	if scale < 1 {
		scale = 1
	}
	layers := strings.Split(header[2], ",")
	// build bottom-up
	var base *c23xBase
	var realBase kvdb.Store
	var cur kvdb.Store
	objs := make([]interface{}, len(layers)) // by depth
	for i := len(layers) - 1; i >= 0; i-- {
		f := strings.Split(layers[i], ":")
		vu.Stat("layer_" + f[0])
		switch f[0] {
		case "M":
			base = &c23xBase{Store: memorydb.New(), scale: scale}
			cur = base
		case "m":
			realBase = memorydb.New()
			cur = &c23xRealMem{Store: realBase, scale: scale}
		case "Z":
			cur = devnulldb.New()
		case "B":
			b := batched.Wrap(cur)
			objs[i], cur = b, b
		case "S":
			if f[1] == "-" {
				vu.Stat("sweep_skipkeys_empty_prefix")
			}
			if i%2 == 0 {
				cur = skipkeys.Wrap(cur, vu.UnHex(f[1]))
			} else { // through the producer wrapper
				cur, _ = skipkeys.WrapProducer(c23xOneProducer{cur}, vu.UnHex(f[1])).OpenDB("x")
			}
		case "N":
			cur = nokeyiserr.Wrap(cur)
		case "R":
			cur = readonlystore.Wrap(cur)
		case "E":
			var errs []error
			for _, c := range strings.Split(f[1], ".") {
				if c != "" {
					errs = append(errs, c23xErrOf(c))
				}
			}
			cur = skiperrors.Wrap(cur, errs...)
		case "F":
			fl := fallible.Wrap(cur)
			n, _ := strconv.Atoi(f[1])
			if n <= 0 {
				vu.Stat("sweep_fallible_counter_le_0")
			}
			fl.SetWriteCount(n)
			objs[i], cur = fl, fl
		case "C":
			cp := cachedproducer.Wrap(c23xOneProducer{cur})
			s, _ := cp.OpenDB("x")
			objs[i], cur = cp, s
		case "X":
			cur = &c23xErrStore{Store: cur, bad: vu.UnHex(f[1]), err: c23xErrOf(f[2])}
		}
	}
	top := cur
	batches := map[string]kvdb.Batch{}
	snaps := map[string]kvdb.Snapshot{}
	var obs []string
	one := func(o []string) (res string) {
		defer func() {
			if r := recover(); r != nil {
				res = "panic"
				vu.Stat("panic")
			}
		}()
		switch o[0] {
		case "P":
			return c23xCode(top.Put(vu.UnHex(o[1]), vu.UnHex(o[2])))
		case "D":
			return c23xCode(top.Delete(vu.UnHex(o[1])))
		case "G", "SG":
			var v []byte
			var err error
			if o[0] == "G" {
				v, err = top.Get(vu.UnHex(o[1]))
			} else {
				sn, ok := snaps[o[1]]
				if !ok {
					return "-"
				}
				v, err = sn.Get(vu.UnHex(o[2]))
			}
			if err != nil {
				return c23xCode(err)
			}
			if v == nil {
				return "nil"
			}
			vu.Stat("get_hit")
			return "v:" + vu.Hex(v)
		case "H", "SH":
			var h bool
			var err error
			if o[0] == "H" {
				h, err = top.Has(vu.UnHex(o[1]))
			} else {
				sn, ok := snaps[o[1]]
				if !ok {
					return "-"
				}
				h, err = sn.Has(vu.UnHex(o[2]))
			}
			if err != nil {
				return c23xCode(err)
			}
			return vu.B(h)
		case "I":
			return c23xDrain(top.NewIterator(vu.UnHex(o[1]), vu.UnHex(o[2])))
		case "SI":
			sn, ok := snaps[o[1]]
			if !ok {
				return "-"
			}
			return c23xDrain(sn.NewIterator(vu.UnHex(o[2]), vu.UnHex(o[3])))
		case "BN":
			batches[o[1]] = top.NewBatch()
			return "ok"
		case "BP", "BD", "BW", "BR":
			b, ok := batches[o[1]]
			if !ok {
				return "-"
			}
			switch o[0] {
			case "BP":
				return c23xCode(b.Put(vu.UnHex(o[2]), vu.UnHex(o[3])))
			case "BD":
				return c23xCode(b.Delete(vu.UnHex(o[2])))
			case "BW":
				return c23xCode(b.Write())
			}
			b.Reset()
			return "ok"
		case "SN":
			sn, err := top.GetSnapshot()
			if err != nil {
				return c23xCode(err)
			}
			snaps[o[1]] = sn
			return "ok"
		case "FL", "MF":
			d, _ := strconv.Atoi(o[1])
			if d < len(objs) {
				if b, ok := objs[d].(*batched.Store); ok {
					if o[0] == "FL" {
						_ = b.Flush()
					} else {
						_, _ = b.MayFlush()
					}
				}
			}
			return "ok"
		case "LW", "LR", "LP":
			d, _ := strconv.Atoi(o[1])
			if d < len(objs) {
				if b, ok := objs[d].(*batched.Store); ok {
					switch o[0] {
					case "LW":
						return c23xCode(b.Write())
					case "LR":
						b.Reset()
						return "ok"
					}
					rec := &c23xRecorder{}
					_ = b.Replay(rec)
					return "{" + strings.Join(rec.ops, ",") + "}"
				}
			}
			if o[0] == "LR" {
				return "ok"
			}
			return "-"
		case "GC":
			d, _ := strconv.Atoi(o[1])
			if d < len(objs) {
				if f, ok := objs[d].(*fallible.Fallible); ok {
					return "n:" + strconv.Itoa(f.GetWriteCount())
				}
			}
			return "-"
		case "RO":
			d, _ := strconv.Atoi(o[1])
			if d < len(objs) {
				if cp, ok := objs[d].(*cachedproducer.DBProducer); ok {
					_, _ = cp.OpenDB("x")
				}
			}
			return "ok"
		case "SC":
			d, _ := strconv.Atoi(o[1])
			n, _ := strconv.Atoi(o[2])
			if d < len(objs) {
				if f, ok := objs[d].(*fallible.Fallible); ok {
					f.SetWriteCount(n)
				}
			}
			return "ok"
		}
		return "-"
	}
	for _, o := range ops {
		if len(o) == 0 {
			obs = append(obs, "-")
			continue
		}
		vu.Stat("op_" + o[0])
		if o[0] == "CL" || o[0] == "DR" {
			res := func() (res string) {
				defer func() {
					if r := recover(); r != nil {
						res = "panic"
					}
				}()
				if o[0] == "CL" {
					return c23xCode(top.Close())
				}
				top.Drop()
				return "ok"
			}()
			dump := ""
			if base != nil {
				dump = c25Dump(base.Store)
			} else if realBase != nil {
				dump = c25Dump(realBase)
			}
			obs = append(obs, "end:"+res+":"+dump)
			continue
		}
		obs = append(obs, one(o))
	}
	return obs
}

// ---------------------------------------------------------------- generator

var c23xKeys = []string{"61", "6161", "62", "ee", "ee01", "6b", "6b62", "-", "7a"}
var c23xVals = []string{"-", "31", "3232", "333333", "00ff"}

func c23xGen(r *rand.Rand, n int, tier string, emit func(...string)) {
	pick := func(l []string) string { return l[r.Intn(len(l))] }
	for i := 0; i < n; i++ {
		// 1: never flushes by size; mid values; exact boundaries n*scale == IdealBatchSize for n = 1, 2, 4, 5, 8
		scale := []int{1, 15000, 30000, 60000, 102400, 51200, 25600, 20480, 12800}[r.Intn(9)]
		depth := 1 + r.Intn(4)
		// 40% of the cases stay inside the domain of the write theorems (batched / skipkeys / nokeyiserr /
		// cached / readonly over the memorydb double, no batch writes, Drop, layer Write/Reset, re-open):
		// there the driver checks every read against the ordered-map specification
		domain := r.Intn(5) < 2
		if domain {
			vu.Stat("theorem_domain_case")
		}
		var layers []string
		nB, nF := 0, 0
		for j := 0; j < depth; j++ {
			kind := r.Intn(9)
			if domain {
				kind = []int{0, 0, 1, 2, 2, 3, 8, 8, 4}[r.Intn(9)]
				if kind == 4 && r.Intn(3) != 0 {
					kind = 0
				}
			}
			switch kind {
			case 0, 1:
				layers = append(layers, "B")
				nB++
			case 2:
				layers = append(layers, "S:"+pick([]string{"6b", "61", "ee", "-"}))
			case 3:
				layers = append(layers, "N")
			case 4:
				if domain || r.Intn(2) == 0 {
					layers = append(layers, "R")
				} else {
					layers = append(layers, "C")
				}
			case 5:
				layers = append(layers, "E:"+pick([]string{"1", "2", "3", "1.3", "2.3", "4", "1.2.3.4"}))
			case 6:
				layers = append(layers, "F:"+strconv.Itoa(r.Intn(8)-2)) // counters -2 .. 5
				nF++
			case 7:
				layers = append(layers, "X:"+pick([]string{"ee", "62", "6b"})+":"+pick([]string{"3", "4"}))
			default:
				layers = append(layers, "C")
			}
		}
		switch x := r.Intn(10); {
		case domain:
			layers = append(layers, "M")
		case x == 0:
			layers = append(layers, "Z")
		case x < 4:
			layers = append(layers, "m")
		default:
			layers = append(layers, "M")
		}
		in := []string{"kw", strconv.Itoa(scale), strings.Join(layers, ",")}
		nops := 5 + r.Intn(22)
		if tier == "thorough" {
			nops += r.Intn(25)
		}
		for j := 0; j < nops; j++ {
			in = append(in, ";")
			k := pick(c23xKeys)
			x := r.Intn(40)
			if domain && (x == 29 || x >= 36) { // no BW, layer Write/Reset, Drop, re-open: reads, flushes, close instead
				x = []int{12, 18, 21, 36, 36, 40}[r.Intn(6)]
			}
			switch {
			case x == 40:
				in = append(in, "CL")
			case domain && x == 36:
				in = append(in, pick([]string{"FL", "MF"}), strconv.Itoa(r.Intn(depth)))
			case x < 9:
				in = append(in, "P", k, pick(c23xVals))
			case x < 12:
				in = append(in, "D", k)
			case x < 18:
				in = append(in, "G", k)
			case x < 21:
				in = append(in, "H", k)
			case x < 25:
				in = append(in, "I", pick([]string{"-", "-", "61", "6b", "ee"}), pick([]string{"-", "-", "61", "01"}))
			case x < 26:
				in = append(in, "BN", strconv.Itoa(r.Intn(2)))
			case x < 28:
				in = append(in, "BP", strconv.Itoa(r.Intn(2)), k, pick(c23xVals))
			case x < 29:
				in = append(in, "BD", strconv.Itoa(r.Intn(2)), k)
			case x < 30:
				in = append(in, "BW", strconv.Itoa(r.Intn(2)))
			case x < 31:
				in = append(in, "BR", strconv.Itoa(r.Intn(2)))
			case x < 32:
				in = append(in, "SN", strconv.Itoa(r.Intn(2)))
			case x < 34:
				in = append(in, "SG", strconv.Itoa(r.Intn(2)), k)
			case x < 35:
				in = append(in, "SH", strconv.Itoa(r.Intn(2)), k)
			case x < 36:
				in = append(in, "SI", strconv.Itoa(r.Intn(2)), pick([]string{"-", "6b", "61"}), "-")
			case x < 38:
				in = append(in, pick([]string{"FL", "FL", "MF", "MF", "LW", "LR", "LP"}), strconv.Itoa(r.Intn(depth)))
			default:
				switch r.Intn(8) {
				case 0, 1:
					in = append(in, "CL")
				case 2:
					in = append(in, "DR")
				case 3, 4:
					in = append(in, "RO", strconv.Itoa(r.Intn(depth)))
				case 5:
					in = append(in, "GC", strconv.Itoa(r.Intn(depth)))
				default:
					in = append(in, "SC", strconv.Itoa(r.Intn(depth)), strconv.Itoa(r.Intn(7)-2))
				}
			}
		}
		if domain {
			in = append(in, ";", "CL", ";", "I", "-", "-")
		} else if r.Intn(3) != 0 { // the end of a store's life, and what happens after it
			for q := 1 + r.Intn(4); q > 0; q-- {
				in = append(in, ";", pick([]string{"CL", "CL", "CL", "DR", "DR"}))
				switch r.Intn(5) {
				case 0:
					in = append(in, ";", "G", pick(c23xKeys))
				case 1:
					in = append(in, ";", "P", pick(c23xKeys), "31")
				case 2:
					in = append(in, ";", "I", "-", "-")
				case 3:
					in = append(in, ";", pick([]string{"H", "D"}), pick(c23xKeys))
				default:
					in = append(in, ";", pick([]string{"SN", "BN"}), "0", ";", "BW", "0")
				}
			}
		}
		_ = fmt.Sprint
		emit(in...)
	}
}

func init() {
	vu.Register("C23x", &vu.Prop{Gen: c23xGen, Run: c23xRun})
}
