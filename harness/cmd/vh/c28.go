package main

import (
	"bufio"
	"fmt"
	"io"
	"math/rand"
	"os"
	"os/exec"
	"path/filepath"
	"reflect"
	"regexp"
	"sort"
	"strings"
	"sync"
	"time"

	"github.com/Fantom-foundation/lachesis-base/gossip/dagordering"
	"github.com/Fantom-foundation/lachesis-base/inter/dag"
	"github.com/Fantom-foundation/lachesis-base/kvdb"
	"github.com/Fantom-foundation/lachesis-base/kvdb/flushable"
	"github.com/Fantom-foundation/lachesis-base/kvdb/memorydb"
	"github.com/Fantom-foundation/lachesis-base/utils/datasemaphore"
	"github.com/Fantom-foundation/lachesis-base/utils/wlru"

	"verifharness/vu"
)

// C28: thread-safe components are race free and linearizable.
//
// Inputs (one case each):
//
//	TABLE  <Type>                               exported method set of the real type (reflection) — compared by the driver
//	                                            with the rows of the lock table regenerated from the source
//	LIN    <component> <seed> <threads> <ops>   short concurrent history, checked for linearizability
//	STRESS <component> <seed> <threads> <ops>   long concurrent workload, race detection only
//	EBMID                                       deterministic EventsBuffer scenario (Process callback blocks mid-push)
//	EBTORN <seed>                               EventsBuffer with equal-size events: every Total() pair must satisfy Size == Num*size
//	POOLMID                                     deterministic SyncedPool.Flush vs writes through store handles (three stores, the second flush blocks)
//	SNAPMID                                     deterministic Flushable.GetSnapshot vs Flush scenario (the parent's GetSnapshot blocks)
//
// LIN/STRESS/EBMID are executed by build/C28/c28stress, a separate binary built WITH THE RACE DETECTOR
// (bin/c28_lockscan); this function only starts it and turns its output and the race reports into observation
// tokens:  race=<0|1> [at=<frames>] [crash=1|hang=1] <tokens printed by c28stress>

var c28Components = []string{"flushable", "lazy", "pool", "wlru", "sem", "buffer", "snap"}

func c28Gen(r *rand.Rand, n int, tier string, emit func(input ...string)) {
	for _, t := range c28Types() {
		emit("TABLE", t.name)
	}
	emit("EBMID")
	emit("SNAPMID")
	emit("POOLMID")
	emit("POOLRD")
	emit("EBTORN", fmt.Sprint(1+r.Int63n(1<<30)))
	emit("EBTORN", fmt.Sprint(1+r.Int63n(1<<30)))
	for i := 0; i < n; i++ {
		comp := c28Components[i%len(c28Components)]
		seed := fmt.Sprint(r.Int63n(1 << 40))
		if r.Intn(5) < 3 {
			threads := 2 + r.Intn(3)
			if r.Intn(4) == 0 {
				threads = 5 + r.Intn(4) // up to 8 goroutines with 2 operations each
			}
			ops := 2
			if 20/threads > 2 {
				ops = 2 + r.Intn(20/threads-1)
			}
			emit("LIN", comp, seed, fmt.Sprint(threads), fmt.Sprint(ops))
		} else {
			threads := 2 + r.Intn(7)
			ops := 100 + r.Intn(300)
			if tier == "thorough" {
				ops *= 4
			}
			emit("STRESS", comp, seed, fmt.Sprint(threads), fmt.Sprint(ops))
		}
	}
}

type c28Type struct {
	name string
	typ  reflect.Type
}

func c28Types() []c28Type {
	lazy := flushable.NewLazy(func() (kvdb.Store, error) { return memorydb.New(), nil }, nil)
	pool := flushable.NewSyncedPool(memorydb.NewProducer(""), []byte("f"))
	wrapped, _ := pool.OpenDB("x")
	fl := flushable.Wrap(memorydb.New())
	snap, _ := fl.GetSnapshot()
	cache, _ := wlru.New(1, 1)
	return []c28Type{
		{"Flushable", reflect.TypeOf(fl)},
		{"LazyFlushable", reflect.TypeOf(lazy)},
		{"closeDropWrapped", reflect.TypeOf(wrapped)},
		{"Snapshot", reflect.TypeOf(snap)},
		{"flushableIterator", reflect.TypeOf(fl.NewIterator(nil, nil))},
		{"SyncedPool", reflect.TypeOf(pool)},
		{"Cache", reflect.TypeOf(cache)},
		{"DataSemaphore", reflect.TypeOf(datasemaphore.New(dag.Metric{}, nil))},
		{"EventsBuffer", reflect.TypeOf(dagordering.New(dag.Metric{}, dagordering.Callback{}))},
	}
}

func c28Table(name string) []string {
	for _, t := range c28Types() {
		if t.name != name {
			continue
		}
		var ms []string
		for i := 0; i < t.typ.NumMethod(); i++ {
			m := t.typ.Method(i).Name
			if name == "SyncedPool" && (m == "Lock" || m == "Unlock" || m == "TryLock") {
				continue // promoted from the embedded sync.Mutex: the mutex itself, not an operation of the pool
			}
			ms = append(ms, m)
		}
		sort.Strings(ms)
		return ms
	}
	return []string{"unknown-type"}
}

var c28Frame = regexp.MustCompile(`^\s+github\.com/Fantom-foundation/lachesis-base/([^\s]+)\(\)`)

// c28RaceAt summarises the first race report: the top two lachesis-base frames of both stacks
func c28RaceAt(stderr string) string {
	i := strings.Index(stderr, "WARNING: DATA RACE")
	if i < 0 {
		return ""
	}
	rep := stderr[i:]
	if j := strings.Index(rep, "=================="); j > 0 {
		rep = rep[:j]
	}
	var stacks [][]string
	var cur []string
	for _, line := range strings.Split(rep, "\n") {
		switch {
		case strings.HasPrefix(line, "Write at") || strings.HasPrefix(line, "Read at") ||
			strings.HasPrefix(line, "Previous write at") || strings.HasPrefix(line, "Previous read at"):
			if cur != nil {
				stacks = append(stacks, cur)
			}
			cur = []string{}
		case strings.HasPrefix(line, "Goroutine "):
			if cur != nil {
				stacks = append(stacks, cur)
			}
			cur = nil
		default:
			if m := c28Frame.FindStringSubmatch(line); m != nil && cur != nil && len(cur) < 2 {
				f := m[1]
				if k := strings.LastIndex(f, "/"); k >= 0 {
					f = f[k+1:]
				}
				f = strings.NewReplacer("(*", "", ")", "", "(", "").Replace(f)
				cur = append(cur, f)
			}
		}
	}
	if cur != nil {
		stacks = append(stacks, cur)
	}
	var parts []string
	for _, s := range stacks {
		if len(s) > 0 {
			parts = append(parts, strings.Join(s, "<"))
		}
	}
	if len(parts) > 2 {
		parts = parts[:2]
	}
	return strings.Join(parts, "~")
}

// the race-built child process, kept alive across cases (its start-up cost is ~1 s under load)
type c28Server struct {
	cmd    *exec.Cmd
	stdin  io.WriteCloser
	lines  chan string // stdout lines
	mu     sync.Mutex
	errBuf strings.Builder
	marker chan struct{}
	dead   chan struct{}
}

var c28Srv *c28Server
var c28Failures = map[string]int{}

func c28Start() *c28Server {
	exe, _ := os.Executable()
	bin := os.Getenv("C28_STRESS_BIN")
	if bin == "" {
		bin = filepath.Join(filepath.Dir(exe), "..", "C28", "c28stress")
	}
	s := &c28Server{lines: make(chan string, 4), marker: make(chan struct{}, 4), dead: make(chan struct{})}
	s.cmd = exec.Command(bin, "SERVE")
	s.cmd.Env = append(os.Environ(), "GORACE=halt_on_error=0 exitcode=0 history_size=3")
	s.stdin, _ = s.cmd.StdinPipe()
	so, _ := s.cmd.StdoutPipe()
	se, _ := s.cmd.StderrPipe()
	if err := s.cmd.Start(); err != nil {
		fmt.Fprintln(os.Stderr, "C28: cannot start", bin, err)
		os.Exit(2)
	}
	go func() {
		sc := bufio.NewScanner(so)
		sc.Buffer(make([]byte, 1<<20), 1<<26)
		for sc.Scan() {
			s.lines <- sc.Text()
		}
		close(s.lines)
	}()
	go func() {
		sc := bufio.NewScanner(se)
		sc.Buffer(make([]byte, 1<<20), 1<<26)
		for sc.Scan() {
			if sc.Text() == "CASE-END" {
				s.marker <- struct{}{}
				continue
			}
			s.mu.Lock()
			s.errBuf.WriteString(sc.Text() + "\n")
			s.mu.Unlock()
		}
		close(s.dead)
	}()
	return s
}

func (s *c28Server) stop() {
	s.stdin.Close()
	s.cmd.Process.Kill()
	s.cmd.Wait()
}

func (s *c28Server) takeErr() string {
	s.mu.Lock()
	defer s.mu.Unlock()
	e := s.errBuf.String()
	s.errBuf.Reset()
	return e
}

// runCase returns the child's result line, its stderr for this case, and whether the child is gone
func (s *c28Server) runCase(in []string) (out, se string, gone, hung bool) {
	fmt.Fprintln(s.stdin, strings.Join(in, " "))
	select {
	case l, ok := <-s.lines:
		if !ok {
			<-s.dead
			return "", s.takeErr(), true, false
		}
		out = l
		if strings.Contains(l, "hang=1") { // the child's own watchdog fired; it has exited
			<-s.dead
			return out, s.takeErr(), true, true
		}
		select {
		case <-s.marker:
		case <-s.dead:
			gone = true
		case <-time.After(10 * time.Second):
		}
		return out, s.takeErr(), gone, false
	case <-time.After(60 * time.Second):
		return "", s.takeErr(), true, true
	}
}

func c28Run(in []string) []string {
	if len(in) == 0 {
		return []string{"bad-input"}
	}
	if in[0] == "TABLE" && len(in) == 2 {
		vu.Stat("table")
		return c28Table(in[1])
	}
	comp := ""
	if len(in) > 1 {
		comp = in[1]
	}
	if c28Failures[comp] >= 3 {
		// the component already hung / crashed three times in this run (each costs up to 20 s): the remaining
		// cases of it are not run; the driver treats them as indeterminate, the earlier ones are the violation
		vu.Stat("skipped_after_failures")
		return []string{"skipped=1"}
	}
	if c28Srv == nil {
		c28Srv = c28Start()
	}
	line, se, gone, hung := c28Srv.runCase(in)
	obs := []string{}
	races := strings.Count(se, "WARNING: DATA RACE")
	vu.Stat(strings.ToLower(in[0]))
	if len(in) > 1 {
		vu.Stat("component_" + in[1])
	}
	if races > 0 {
		obs = append(obs, "race=1", "at="+c28RaceAt(se))
		vu.Stat("race")
	} else {
		obs = append(obs, "race=0")
	}
	var out []string
	for _, t := range strings.Fields(line) {
		if t != "RESULT" {
			out = append(out, t)
		}
	}
	switch {
	case hung:
		if len(out) == 0 {
			out = []string{"hang=1"}
		}
		vu.Stat("hang")
	case gone:
		msg := "child-exited"
		for _, l := range strings.Split(se, "\n") {
			if strings.HasPrefix(l, "panic:") || strings.HasPrefix(l, "fatal error:") {
				msg = strings.ReplaceAll(l, " ", "_")
				break
			}
		}
		if len(msg) > 80 {
			msg = msg[:80]
		}
		obs = append(obs, "crash=1", msg)
		vu.Stat("crash")
	}
	if gone || hung {
		c28Failures[comp]++
		c28Srv.stop()
		c28Srv = nil
	}
	// note: the race runtime reports each pair of stacks once per process, so within one run a given race is
	// attributed to the first case that exhibits it; a replay starts a fresh process
	for _, t := range out {
		if t == "lin=0" {
			vu.Stat("nonlinearizable")
		}
		if strings.HasPrefix(t, "cfg=") { // the configuration variant the child derived from the seed
			vu.Stat("cfg_" + comp + "_" + t[4:])
		}
		if strings.HasSuffix(t, ":panic") {
			vu.Stat("op_panicked_after_close")
		}
		for _, k := range []string{"MidFlush", "Close", "AcquireZ", "AcquireH", "AcquireB", "POpen", "PInit", "Clear", "Terminate", "Purge", "SRelease"} {
			if strings.Contains(t, ":"+k) && strings.HasPrefix(t, "i") {
				vu.Stat("op_" + k)
			}
		}
	}
	if len(in) >= 4 && (in[0] == "LIN" || in[0] == "STRESS") {
		vu.Stat("threads_" + in[3])
		var sd int64
		fmt.Sscan(in[2], &sd)
		if sd%8 == 0 {
			vu.Stat("gomaxprocs_1")
		} else {
			vu.Stat("gomaxprocs_many")
		}
	}
	return append(obs, out...)
}

func c28Teardown() {
	if c28Srv != nil {
		c28Srv.stop()
		c28Srv = nil
	}
}

func init() {
	vu.Register("C28", &vu.Prop{Gen: c28Gen, Run: c28Run, Teardown: c28Teardown})
}
