package main

import (
	"math/rand"
	"strconv"

	"github.com/Fantom-foundation/lachesis-base/hash"
	"github.com/Fantom-foundation/lachesis-base/inter/dag/tdag"

	"verifharness/refh"
	"verifharness/vu"
)

// C10: the real IndexedLachesis against the extracted naive reference.
// input : salt seal nv (id w)* ; e id cr seq frame parents... ; ...
// obs   : per event  b<frame assigned by Build>:p<Process code>   then   B epoch frame atropos sealed k cheaters... ; L epoch ldf
func c10Gen(r *rand.Rand, n int, tier string, emit func(input ...string)) {
	maxEv := 200
	if tier == "thorough" {
		maxEv = 400
	}
	for i := 0; i < n; i++ {
		s, cfg, kind := refh.RandomScenario(r, maxEv, true)
		refh.Generate(r, s, cfg)
		vu.Stat("scn_" + kind)
		vu.Stat("nv_" + strconv.Itoa(len(s.VIDs)))
		emit(s.Tokens(nil)...)
	}
}

func c10Run(in []string) []string {
	s, _, err := refh.Parse(in)
	if err != nil {
		return []string{"BADCASE"}
	}
	inst := refh.NewInst(s)
	ids := map[int]*tdag.TestEvent{}
	name := map[hash.Event]int{}
	var obs []string
	forks := map[[2]uint32]int{}
	for _, ev := range s.Evs {
		if ev.Ep != inst.Epoch() {
			// not an event of the current epoch (does not happen in creation order)
			obs = append(obs, "skip")
			continue
		}
		e := refh.EventOf(s, ev, ids, ev.Ep)
		if e == nil || ev.Cr >= len(s.VIDs) {
			obs = append(obs, "b0:p2")
			continue
		}
		b := inst.BuildFrame(e)
		bt := strconv.Itoa(int(b))
		if (s.Salt+uint64(ev.ID))%5 == 0 {
			// Build called twice for the same event: same frame (only the temporary id differs)
			vu.Stat("build_twice")
			if b2 := inst.BuildFrame(e); b2 != b {
				bt += "/" + strconv.Itoa(int(b2))
			}
		}
		code := inst.Process(e)
		obs = append(obs, "b"+bt+":p"+strconv.Itoa(code))
		if code == 0 && (s.Salt+uint64(ev.ID))%7 == 0 {
			// an already processed event offered again: the application's duplicate guard (the event
			// is in its store) keeps it away from Process, as AbftRun.guard does in the model. Calling
			// Process twice returns nil and damages the instance (design-notes/C10.md, Sweep).
			if inst.Input.HasEvent(e.ID()) {
				vu.Stat("duplicate_guarded")
			}
		}
		if ev.Frame >= 256 {
			vu.Stat("event_frame_ge_256")
		} else if ev.Frame >= 100 {
			vu.Stat("event_frame_ge_100")
		}
		if code == 0 {
			ids[ev.ID] = e
			name[e.ID()] = ev.ID
			forks[[2]uint32{uint32(ev.Cr), ev.Seq}]++
		} else {
			vu.Stat("rejected_" + strconv.Itoa(code))
		}
		if code == 9 {
			obs = append(obs, "CRIT")
			break
		}
	}
	for _, c := range forks {
		if c > 1 {
			vu.Stat("fork_seq")
		}
	}
	vu.StatN("events", len(s.Evs))
	vu.StatN("blocks", len(inst.Blocks))
	vu.StatN("epochs_sealed", int(inst.Epoch())-1)
	for _, b := range inst.Blocks {
		if len(b.Cheaters) > 0 {
			vu.Stat("block_with_cheaters")
		}
		if b.Sealed {
			vu.Stat("sealed_at_frame_" + strconv.Itoa(int(b.Frame)))
		}
		if !b.Applied {
			vu.Stat("block_without_applyevent")
		} else {
			vu.Stat("block_with_applyevent")
		}
	}
	if len(inst.Blocks) >= 100 {
		vu.Stat("run_with_100_or_more_blocks")
	}
	return append(obs, inst.BlockTokens(name)...)
}

func init() {
	refh.Stat = vu.Stat
	vu.Register("C10", &vu.Prop{Gen: c10Gen, Run: c10Run})
}
