package main

// C06 (merged vector clock = highest observed seq or fork).  Same scenario machinery as C05
// (c05.go); the ops concentrate on GetMergedHighestBefore of EVERY indexed event x validator,
// directly and through adapters.VectorToDagIndexer, re-read as the DAG grows.

import (
	"math/rand"
	"strconv"

	"verifharness/vu"
)

func init() {
	vu.Register("C06", &vu.Prop{
		Gen: func(r *rand.Rand, n int, tier string, emit func(...string)) {
			nextMany := 3
			for i := 0; i < n; {
				if i >= nextMany { // size class many-branches: 3 per quick run
					emit(c05ManyBranches(r)...)
					i++
					nextMany += 20
					if tier == "thorough" {
						nextMany -= 10
					}
					continue
				}
				if r.Intn(5) == 0 { // one Index for two epochs with different validator sets
					emit(c05TwoEpochs(r, tier)...)
					i++
					continue
				}
				d := c05PickDag(r, tier, i+1) // i+1: forks in (almost) every DAG
				for mode := 0; mode < 3 && i < n; mode++ {
					order := c05Order(r, d, mode)
					in := c05Header(d, c05FcSizes[r.Intn(len(c05FcSizes))], c05VcSizes[r.Intn(len(c05VcSizes))], 0, 0)
					every := 1 + r.Intn(4)
					for j, e := range order {
						in = append(in, c05EvOp(e)...)
						if j%every == 0 {
							in = append(in, ";", "M", strconv.Itoa(1+r.Intn(4)))
						}
						if j%9 == 8 {
							in = append(in, ";", "M", "0")
						}
					}
					in = append(in, ";", "V", "0", ";", "M", "0")
					emit(in...)
					i++
				}
			}
		},
		Run: c05Run,
	})
}
