package main

import (
	"fmt"
	"math/rand"
	"sort"
	"strconv"
	"strings"
	"sync"
	"time"

	"github.com/Fantom-foundation/lachesis-base/inter/dag"
	"github.com/Fantom-foundation/lachesis-base/inter/idx"
	"github.com/Fantom-foundation/lachesis-base/utils/datasemaphore"

	"verifharness/vu"
)

// C30: the real DataSemaphore driven by a timed script.
//
// Time is counted in quarter units q (10 ms; 25 ms in the last attempt of a case whose earlier
// runs were disturbed); one unit = 4q.  Scripted calls
// happen at multiples of 4q (one call per instant), Acquire timeouts are 4k+2 q, so every
// deadline lies in the middle of a unit, 2q = 20 ms away from any scripted call.
//
// input : capNum capSize ; A t id wn ws timeout ; T t wn ws ; R t wn ws ; X t ; P t ; ...
//         (A = Acquire in its own goroutine, T = TryAcquire, R = Release, X = Terminate,
//          P = Processing(); t and timeout in q)
// obs   : one token per op, in script order:
//         A -> r<0|1>@<q of return>  or  never      T -> t<0|1>     R -> - or w<hn>/<hs>/<wn>/<ws>
//         X -> x                                     P -> p<num>/<size>
//         A run in which a scripted call started more than 1q late, or a return happened at a
//         moment that is not within [tau, tau+1q] of any instant tau (scripted call or deadline),
//         is repeated (up to 3 attempts).  If the harness is still late the token LATE is put in
//         front and the driver records the case as indeterminate (never agreement, never
//         disagreement); odd return times are reported as observed.
const c30QDefault = 10 * time.Millisecond

// c30Noise measures how late the Go scheduler / the machine wakes a sleeping goroutine while a
// timed script runs.  A run during which a 2 ms sleep overslept by more than the limit is not
// trusted (CPU contention from other processes): it is repeated, and finally flagged LATE.
type c30Noise struct {
	stop chan struct{}
	done chan struct{}
	max  time.Duration
}

func c30StartNoise() *c30Noise {
	n := &c30Noise{stop: make(chan struct{}), done: make(chan struct{})}
	go func() {
		defer close(n.done)
		for {
			select {
			case <-n.stop:
				return
			default:
			}
			t0 := time.Now()
			time.Sleep(2 * time.Millisecond)
			if d := time.Since(t0) - 2*time.Millisecond; d > n.max {
				n.max = d
			}
		}
	}()
	return n
}

func (n *c30Noise) Stop() time.Duration {
	close(n.stop)
	<-n.done
	return n.max
}

type c30Op struct {
	kind    byte
	t       int64
	id      int
	w       dag.Metric
	timeout int64
}

func c30Parse(in []string) (dag.Metric, []c30Op) {
	u := func(s string) uint64 { v, _ := strconv.ParseUint(s, 10, 64); return v }
	i64 := func(s string) int64 { v, _ := strconv.ParseInt(s, 10, 64); return v }
	capM := dag.Metric{Num: idx.Event(u(in[0])), Size: u(in[1])}
	var ops []c30Op
	i := 2
	for i < len(in) {
		if in[i] == ";" {
			i++
			continue
		}
		switch in[i] {
		case "A":
			ops = append(ops, c30Op{kind: 'A', t: i64(in[i+1]), id: int(i64(in[i+2])), w: dag.Metric{Num: idx.Event(u(in[i+3])), Size: u(in[i+4])}, timeout: i64(in[i+5])})
			i += 6
		case "T", "R":
			ops = append(ops, c30Op{kind: in[i][0], t: i64(in[i+1]), w: dag.Metric{Num: idx.Event(u(in[i+2])), Size: u(in[i+3])}})
			i += 4
		case "X", "P":
			ops = append(ops, c30Op{kind: in[i][0], t: i64(in[i+1])})
			i += 2
		default:
			panic("bad op " + in[i])
		}
	}
	return capM, ops
}

func c30RunOnce(capM dag.Metric, ops []c30Op, c30Q time.Duration) (obs []string, late bool, odd bool) {
	var mu sync.Mutex
	finished := false
	var warns []string
	sem := datasemaphore.New(capM, func(received dag.Metric, processing dag.Metric, releasing dag.Metric) {
		mu.Lock()
		defer mu.Unlock()
		if finished {
			return
		}
		s := fmt.Sprintf("w%d/%d/%d/%d", processing.Num, processing.Size, releasing.Num, releasing.Size)
		if received != processing {
			s += "!recv"
		}
		warns = append(warns, s)
	})
	obs = make([]string, len(ops))
	type ret struct {
		done bool
		ok   bool
		q    int64
	}
	rets := make([]ret, len(ops))
	var wg sync.WaitGroup
	// instants: scripted calls and deadlines
	var instants []int64
	last := int64(0)
	for _, o := range ops {
		instants = append(instants, o.t)
		if o.t > last {
			last = o.t
		}
		if o.kind == 'A' {
			instants = append(instants, o.t+o.timeout)
			if o.t+o.timeout > last {
				last = o.t + o.timeout
			}
		}
	}
	noise := c30StartNoise()
	start := time.Now().Add(2 * c30Q)
	since := func() int64 { return int64(time.Since(start)) }
	for i := range ops {
		o := ops[i]
		target := start.Add(time.Duration(o.t) * c30Q)
		if d := time.Until(target); d > 0 {
			time.Sleep(d)
		}
		if time.Since(target) > c30Q {
			late = true
		}
		switch o.kind {
		case 'A':
			wg.Add(1)
			go func(i int, o c30Op) {
				defer wg.Done()
				ok := sem.Acquire(o.w, time.Duration(o.timeout)*c30Q)
				at := since()
				mu.Lock()
				if !finished {
					rets[i] = ret{true, ok, at / int64(c30Q)}
				}
				mu.Unlock()
			}(i, o)
			obs[i] = "never"
		case 'T':
			obs[i] = "t" + vu.B(sem.TryAcquire(o.w))
		case 'R':
			mu.Lock()
			n0 := len(warns)
			mu.Unlock()
			sem.Release(o.w)
			mu.Lock()
			if len(warns) > n0 {
				obs[i] = strings.Join(warns[n0:], "+")
			} else {
				obs[i] = "-"
			}
			mu.Unlock()
		case 'X':
			sem.Terminate()
			obs[i] = "x"
		case 'P':
			p := sem.Processing()
			obs[i] = fmt.Sprintf("p%d/%d", p.Num, p.Size)
		}
	}
	// wait for the Acquires: until all returned, or 12q after the last instant
	allDone := make(chan struct{})
	go func() { wg.Wait(); close(allDone) }()
	end := start.Add(time.Duration(last+12) * c30Q)
	select {
	case <-allDone:
	case <-time.After(time.Until(end)):
	}
	if noise.Stop() > c30Q*3/2 {
		late = true
	}
	mu.Lock()
	finished = true
	for i, o := range ops {
		if o.kind != 'A' || !rets[i].done {
			continue
		}
		obs[i] = fmt.Sprintf("r%s@%d", vu.B(rets[i].ok), rets[i].q)
		near := false
		for _, tau := range instants {
			if rets[i].q == tau || rets[i].q == tau+1 {
				near = true
			}
		}
		if !near {
			odd = true
		}
	}
	mu.Unlock()
	// clean up whoever is still blocked (unrepaired code): terminate and empty the semaphore
	sem.Terminate()
	sem.Release(dag.Metric{Num: ^idx.Event(0), Size: ^uint64(0)})
	sem.Release(dag.Metric{Num: ^idx.Event(0), Size: ^uint64(0)})
	select {
	case <-allDone:
	case <-time.After(2 * time.Second):
		// zero-weight Acquires blocked after Terminate cannot happen once held = 0
	}
	return obs, late, odd
}

func c30Run(in []string) []string {
	capM, ops := c30Parse(in)
	sort.SliceStable(ops, func(i, j int) bool { return ops[i].t < ops[j].t })
	var obs []string
	var late bool
	for attempt := 0; attempt < 3; attempt++ {
		var odd bool
		q := c30QDefault
		if attempt == 2 { // last attempt: slower clock, proportionally larger tolerances
			q = c30QDefault * 5 / 2
		}
		obs, late, odd = c30RunOnce(capM, ops, q)
		if !late && !odd {
			vu.Stat("attempts_" + strconv.Itoa(attempt+1))
			return obs
		}
	}
	if late { // the harness itself was late: nothing can be concluded from this run
		vu.Stat("late")
		return append([]string{"LATE"}, obs...)
	}
	vu.Stat("odd_return_time") // reported as observed; the driver decides
	return obs
}

func c30Weight(r *rand.Rand, capM dag.Metric) dag.Metric {
	var w dag.Metric
	switch r.Intn(12) {
	case 0: // empty
	case 1: // over capacity in num
		w = dag.Metric{Num: capM.Num + 1 + idx.Event(r.Intn(2)), Size: uint64(r.Intn(int(capM.Size) + 1))}
	case 2: // over capacity in size
		w = dag.Metric{Num: idx.Event(r.Intn(int(capM.Num) + 1)), Size: capM.Size + 1 + uint64(r.Intn(3))}
	case 3: // wraps uint32 / uint64 when added to a small held amount
		if r.Intn(2) == 0 {
			w = dag.Metric{Num: ^idx.Event(0) - idx.Event(r.Intn(2)), Size: uint64(r.Intn(3))}
		} else {
			w = dag.Metric{Num: idx.Event(r.Intn(2)), Size: ^uint64(0) - uint64(r.Intn(3))}
		}
	case 4: // exactly the capacity
		w = capM
	default:
		w = dag.Metric{Num: idx.Event(1 + r.Intn(int(capM.Num))), Size: uint64(1 + r.Intn(int(capM.Size)))}
		if r.Intn(3) == 0 {
			w.Num = 1
		}
		if r.Intn(3) == 0 {
			w.Size = uint64(1 + r.Intn(int(capM.Size)/2+1))
		}
	}
	return w
}

func c30Gen(r *rand.Rand, n int, tier string, emit func(...string)) {
	mtok := func(m dag.Metric) []string { return []string{vu.U64(uint64(m.Num)), vu.U64(m.Size)} }
	// fixed witnesses first: the timeout defect and the wrap-around defect of the pinned tree
	emit("1", "100", ";", "A", "4", "1", "1", "1", "10", ";", "A", "8", "2", "1", "1", "6")
	emit("10", "1000", ";", "T", "4", "1", "1", ";", "T", "8", "4294967295", "0", ";", "P", "12")
	emit("10", "1000", ";", "T", "4", "1", "1", ";", "T", "8", "0", "18446744073709551615", ";", "P", "12")
	for c := 3; c < n; c++ {
		if r.Intn(7) == 0 {
			// several callers blocked behind a full semaphore, then one release that fits some or all
			k := 2 + r.Intn(3)
			capM := dag.Metric{Num: idx.Event(k), Size: uint64(10 * k)}
			toks := mtok(capM)
			toks = append(toks, ";", "T", "4")
			toks = append(toks, mtok(capM)...)
			t := int64(4)
			for j := 1; j <= k; j++ {
				t += 4
				w := dag.Metric{Num: 1, Size: uint64(1 + r.Intn(10))}
				if r.Intn(4) == 0 {
					w.Num = 2
				}
				toks = append(toks, ";", "A", strconv.FormatInt(t, 10), strconv.Itoa(j))
				toks = append(toks, mtok(w)...)
				toks = append(toks, strconv.FormatInt(int64(4*(6+r.Intn(4))+2), 10))
			}
			t += 4
			rel := capM
			if r.Intn(2) == 0 {
				rel = dag.Metric{Num: idx.Event(1 + r.Intn(k)), Size: uint64(10 * (1 + r.Intn(k)))}
			}
			toks = append(toks, ";", "R", strconv.FormatInt(t, 10))
			toks = append(toks, mtok(rel)...)
			if r.Intn(3) == 0 {
				t += 4
				toks = append(toks, ";", "X", strconv.FormatInt(t, 10))
			}
			toks = append(toks, ";", "P", strconv.FormatInt(t+4, 10))
			vu.Stat("family_multi_waiter")
			emit(toks...)
			continue
		}
		capM := dag.Metric{Num: idx.Event(1 + r.Intn(4)), Size: uint64(10 * (1 + r.Intn(4)))}
		if r.Intn(10) == 0 {
			capM.Num = ^idx.Event(0) - idx.Event(r.Intn(2))
		}
		toks := mtok(capM)
		nops := 4 + r.Intn(8)
		t := int64(0)
		id := 0
		terminated := false
		var grantedGuess []dag.Metric // weights that were probably granted (to aim releases)
		for k := 0; k < nops; k++ {
			t += 4
			if r.Intn(4) == 0 {
				t += 4
			}
			toks = append(toks, ";")
			ts := strconv.FormatInt(t, 10)
			x := r.Intn(20)
			switch {
			case x < 8 && id < 6: // Acquire
				id++
				w := c30Weight(r, capM)
				var to int64
				switch r.Intn(8) {
				case 0:
					to = 0
				case 1:
					to = -2
				default:
					to = int64(4*r.Intn(7) + 2)
				}
				toks = append(toks, "A", ts, strconv.Itoa(id))
				toks = append(toks, mtok(w)...)
				toks = append(toks, strconv.FormatInt(to, 10))
				grantedGuess = append(grantedGuess, w)
				vu.Stat("op_acquire")
			case x < 10:
				w := c30Weight(r, capM)
				toks = append(toks, "T", ts)
				toks = append(toks, mtok(w)...)
				grantedGuess = append(grantedGuess, w)
				vu.Stat("op_try")
			case x < 16: // Release: mostly something that was acquired, sometimes too much
				var w dag.Metric
				if len(grantedGuess) > 0 && r.Intn(5) != 0 {
					j := r.Intn(len(grantedGuess))
					w = grantedGuess[j]
					grantedGuess = append(grantedGuess[:j], grantedGuess[j+1:]...)
				} else {
					w = c30Weight(r, capM)
				}
				toks = append(toks, "R", ts)
				toks = append(toks, mtok(w)...)
				vu.Stat("op_release")
			case x < 17 && !terminated && k > 1:
				terminated = true
				toks = append(toks, "X", ts)
				vu.Stat("op_terminate")
			default:
				toks = append(toks, "P", ts)
				vu.Stat("op_processing")
			}
		}
		t += 4
		toks = append(toks, ";", "P", strconv.FormatInt(t, 10))
		emit(toks...)
	}
}

func init() {
	vu.Register("C30", &vu.Prop{Gen: c30Gen, Run: c30Run, Parallel: 48})
}
