package main

import (
	"fmt"
	"math/rand"
	"strconv"
	"strings"
	"sync"
	"time"

	"github.com/Fantom-foundation/lachesis-base/gossip/itemsfetcher"
	"github.com/Fantom-foundation/lachesis-base/utils/workers"

	"verifharness/vu"
)

// C16: the real items fetcher driven by a timed script; the observation is the log of
// everything the fetcher loop did, in the order it did it, with times in ms.
//
// One unit = 40 ms (100 ms in the last attempt of a case whose earlier runs were disturbed;
// times are always reported in nominal ms, 40 per unit).  ArriveTimeout = 8 units, GatherSlack = 1.5 units, ForgetTimeout = 40.5
// units (the half units keep the loop's time comparisons half a unit away from their
// thresholds when the script runs on whole units).
//
// input : hashLimit [idsPerBatch [MaxParallelRequests MaxQueuedBatches]] ; N t peer off id,id.. ; R t id,id.. ; I t id b ; S t b ; E t
//         N = NotifyAnnounces(peer, ids, now - off units)   R = NotifyReceived(ids)
//         I = OnlyInterested answers b for id from now on    S = Suspend() answers b from now on
//         E = end of the script (the fetcher is stopped).  t in units.
// obs   : a:<t>:<k>:<atime>        op k (index in the script) announces with this announce time
//         n:<t>:<k>:<ids>:<s>      the loop processes notification k: OnlyInterested answered ids,
//                                  Suspend() answered s (- = not asked)
//         p:<t>:<all>:<ids>        timer pass: OnlyInterested(all) answered ids
//         rs:<t>:<k>  r:<t>:<k>    op k's received report starts being handed over (NotifyReceived splits it
//                                  into batches of MaxBatch ids) / the loop has taken its last batch
//         q:<t>:<peer>:<ids>       a request function was called
//         i:<t>:<id>:<b> s:<t>:<b> the script changed an oracle answer
//         e:<t>                    end
// N ops with the same t are sent by concurrent callers.  idsPerBatch (default 99) sets MaxBatch =
// idsPerBatch+1 so that an announcement is split into batches.
// Every batch of notification k carries one extra id 1000+16k+j that is never interesting, which tells the
// harness which OnlyInterested call belongs to which notification (a timer pass has none).
// A received batch is delivered with a gate closed in front of OnlyInterested, so that the
// log order "pass before/after received" is the order in which the loop really took them
// (hook VerifQueued = channel lengths).
const c16UnitDefault = 40 * time.Millisecond

type c16Op struct {
	kind byte
	t    int64
	peer int
	off  int64
	ids  []int
	id   int
	b    bool
}

func c16Ids(s string) []int {
	if s == "-" || s == "" {
		return nil
	}
	var out []int
	for _, x := range strings.Split(s, ",") {
		v, _ := strconv.Atoi(x)
		out = append(out, v)
	}
	return out
}

func c16IdsTok(ids []int) string {
	if len(ids) == 0 {
		return "-"
	}
	s := make([]string, len(ids))
	for i, x := range ids {
		s[i] = strconv.Itoa(x)
	}
	return strings.Join(s, ",")
}

// c16Mpr / c16Mqb: MaxParallelRequests and MaxQueuedBatches of the case being parsed (defaults 4, 4)
func c16Parse(in []string) (int, int, []c16Op, int, int) {
	hl, _ := strconv.Atoi(in[0])
	mb, mpr, mqb := 99, 4, 4
	var ops []c16Op
	i := 1
	if len(in) > 1 && in[1] != ";" { // optional: real ids per batch (MaxBatch - 1)
		mb, _ = strconv.Atoi(in[1])
		i = 2
		if len(in) > 3 && in[2] != ";" && in[3] != ";" { // optional: MaxParallelRequests, MaxQueuedBatches
			mpr, _ = strconv.Atoi(in[2])
			mqb, _ = strconv.Atoi(in[3])
			i = 4
		}
	}
	i64 := func(s string) int64 { v, _ := strconv.ParseInt(s, 10, 64); return v }
	for i < len(in) {
		switch in[i] {
		case ";":
			i++
		case "N":
			p, _ := strconv.Atoi(in[i+2])
			ops = append(ops, c16Op{kind: 'N', t: i64(in[i+1]), peer: p, off: i64(in[i+3]), ids: c16Ids(in[i+4])})
			i += 5
		case "R":
			ops = append(ops, c16Op{kind: 'R', t: i64(in[i+1]), ids: c16Ids(in[i+2])})
			i += 3
		case "I":
			id, _ := strconv.Atoi(in[i+2])
			ops = append(ops, c16Op{kind: 'I', t: i64(in[i+1]), id: id, b: in[i+3] == "1"})
			i += 4
		case "S":
			ops = append(ops, c16Op{kind: 'S', t: i64(in[i+1]), b: in[i+2] == "1"})
			i += 3
		case "E":
			ops = append(ops, c16Op{kind: 'E', t: i64(in[i+1])})
			i += 2
		default:
			panic("bad op " + in[i])
		}
	}
	return hl, mb, ops, mpr, mqb
}

type c16Run struct {
	mu         sync.Mutex
	cond       *sync.Cond
	start      time.Time
	log        []string
	notInt     map[int]bool
	suspended  bool
	lastN      int // index in log of the last n: entry (its Suspend answer is patched in)
	seenN      map[int]int
	gateClosed bool
	waiting    int
	letOne     int
	passed     int
	late       bool
	unit       time.Duration
}

// time since start in nominal ms (one unit = 40 nominal ms whatever the real unit is)
func (c *c16Run) ms() int64 { return int64(time.Since(c.start)) * 40 / int64(c.unit) }

func (c *c16Run) onlyInterested(ids []interface{}) []interface{} {
	c.mu.Lock()
	defer c.mu.Unlock()
	// gate
	c.waiting++
	c.cond.Broadcast()
	for c.gateClosed && c.letOne == 0 {
		c.cond.Wait()
	}
	if c.gateClosed {
		c.letOne--
	}
	c.waiting--
	k := -1
	var plain []int
	for _, x := range ids {
		v := x.(int)
		if v >= 1000 {
			k = (v - 1000) / 16
		} else {
			plain = append(plain, v)
		}
	}
	var ans []interface{}
	var ansI []int
	for _, v := range plain {
		if !c.notInt[v] {
			ans = append(ans, v)
			ansI = append(ansI, v)
		}
	}
	if k >= 0 {
		c.log = append(c.log, fmt.Sprintf("n:%d:%d:%s:-", c.ms(), k, c16IdsTok(ansI)))
		c.lastN = len(c.log) - 1
		c.seenN[k]++
	} else {
		c.log = append(c.log, fmt.Sprintf("p:%d:%s:%s", c.ms(), c16IdsTok(plain), c16IdsTok(ansI)))
	}
	c.passed++
	c.cond.Broadcast()
	return ans
}

func (c *c16Run) suspend() bool {
	c.mu.Lock()
	defer c.mu.Unlock()
	if c.lastN >= 0 && strings.HasSuffix(c.log[c.lastN], ":-") {
		c.log[c.lastN] = c.log[c.lastN][:len(c.log[c.lastN])-1] + vu.B(c.suspended)
	}
	return c.suspended
}

func c16RunOnce(hashLimit int, mb int, mpr int, mqb int, ops []c16Op, c16Unit time.Duration) (obs []string, late bool) {
	c := &c16Run{notInt: map[int]bool{}, seenN: map[int]int{}, lastN: -1, unit: c16Unit}
	c.cond = sync.NewCond(&c.mu)
	cfg := itemsfetcher.Config{
		ForgetTimeout:       c16Unit*40 + c16Unit/2,
		ArriveTimeout:       c16Unit * 8,
		GatherSlack:         c16Unit + c16Unit/2,
		HashLimit:           hashLimit,
		MaxBatch:            mb + 1,
		MaxParallelRequests: mpr,
		MaxQueuedBatches:    mqb,
	}
	f := itemsfetcher.New(cfg, itemsfetcher.Callback{OnlyInterested: c.onlyInterested, Suspend: c.suspend})
	reqFn := func(peer int) itemsfetcher.ItemsRequesterFn {
		return func(ids []interface{}) error {
			var l []int
			for _, x := range ids {
				l = append(l, x.(int))
			}
			c.mu.Lock()
			c.log = append(c.log, fmt.Sprintf("q:%d:%d:%s", c.ms(), peer, c16IdsTok(l)))
			c.mu.Unlock()
			return nil
		}
	}
	noise := c30StartNoise()
	c.start = time.Now()
	f.Start()
	for k, o := range ops {
		target := c.start.Add(time.Duration(o.t) * c16Unit)
		if d := time.Until(target); d > 0 {
			time.Sleep(d)
		}
		if time.Since(target) > c16Unit/4 {
			late = true
			vu.Stat("late_op_" + string(o.kind))
		}
		switch o.kind {
		case 'N':
			if k > 0 && ops[k-1].kind == 'N' && ops[k-1].t == o.t {
				break // already sent together with the previous op (concurrent callers)
			}
			var wgN sync.WaitGroup
			for k2 := k; k2 < len(ops) && ops[k2].kind == 'N' && ops[k2].t == o.t; k2++ {
				wgN.Add(1)
				go func(k int, o c16Op) {
					defer wgN.Done()
					// every batch of mb real ids carries its own marker id 1000 + 16k + j
					ids := make([]interface{}, 0, len(o.ids)+4)
					chunks := 0
					for j := 0; j < len(o.ids); j += mb {
						e := j + mb
						if e > len(o.ids) {
							e = len(o.ids)
						}
						for _, x := range o.ids[j:e] {
							ids = append(ids, x)
						}
						ids = append(ids, 1000+16*k+chunks)
						chunks++
					}
					at := time.Now().Add(-time.Duration(o.off) * c16Unit)
					c.mu.Lock()
					c.log = append(c.log, fmt.Sprintf("a:%d:%d:%d", c.ms(), k, int64(at.Sub(c.start))*40/int64(c16Unit)))
					c.mu.Unlock()
					_ = f.NotifyAnnounces(strconv.Itoa(o.peer), ids, at, reqFn(o.peer))
					// wait until the loop has started to process every batch of it
					c.mu.Lock()
					deadline := time.Now().Add(2 * time.Second)
					for c.seenN[k] < chunks && time.Now().Before(deadline) {
						c.mu.Unlock()
						time.Sleep(100 * time.Microsecond)
						c.mu.Lock()
					}
					c.mu.Unlock()
				}(k2, ops[k2])
			}
			wgN.Wait()
			time.Sleep(300 * time.Microsecond)
		case 'R':
			ids := make([]interface{}, 0, len(o.ids))
			for _, x := range o.ids {
				ids = append(ids, x)
			}
			c.mu.Lock()
			c.gateClosed = true
			c.log = append(c.log, fmt.Sprintf("rs:%d:%d", c.ms(), k)) // the report is being handed over (it may be split)
			c.mu.Unlock()
			sent := make(chan struct{})
			go func() { _ = f.NotifyReceived(ids); close(sent) }()
			deadline := time.Now().Add(2 * time.Second)
			for time.Now().Before(deadline) {
				allSent := false
				select {
				case <-sent:
					allSent = true
				default:
				}
				_, nr := f.VerifQueued()
				c.mu.Lock()
				if allSent && nr == 0 {
					c.log = append(c.log, fmt.Sprintf("r:%d:%d", c.ms(), k))
					c.mu.Unlock()
					break
				}
				if c.waiting > 0 && c.letOne == 0 {
					// the loop is already inside a timer pass: that pass comes first
					c.letOne++
					c.cond.Broadcast()
				}
				c.mu.Unlock()
				time.Sleep(50 * time.Microsecond)
			}
			c.mu.Lock()
			c.gateClosed = false
			c.letOne = 0
			c.cond.Broadcast()
			c.mu.Unlock()
			time.Sleep(300 * time.Microsecond) // let the loop finish forgetting
		case 'I':
			c.mu.Lock()
			c.notInt[o.id] = !o.b
			c.log = append(c.log, fmt.Sprintf("i:%d:%d:%s", c.ms(), o.id, vu.B(o.b)))
			c.mu.Unlock()
		case 'S':
			c.mu.Lock()
			c.suspended = o.b
			c.log = append(c.log, fmt.Sprintf("s:%d:%s", c.ms(), vu.B(o.b)))
			c.mu.Unlock()
		case 'E':
			c.mu.Lock()
			c.log = append(c.log, fmt.Sprintf("e:%d", c.ms()))
			if obs == nil { // the observation ends here: nothing after the end marker is reported
				obs = append([]string{}, c.log...)
			}
			c.mu.Unlock()
		}
	}
	if noise.Stop() > c16Unit*2/5 {
		late = true
		vu.Stat("noisy")
	}
	c.mu.Lock()
	if obs == nil {
		obs = append([]string{}, c.log...)
	}
	// open everything so that Stop() cannot hang on a callback
	c.gateClosed = false
	c.cond.Broadcast()
	c.mu.Unlock()
	f.Stop()
	return obs, late
}

// Worker-pool cases (utils/workers, the pool the fetcher hands its request closures to):
// input : W nWorkers cap ; E id ; ... ; Q (close quit) ; D (Drain) ; S (wg.Wait) ; E id ...
// obs   : e<id>:<Enqueue returned nil>:<called after close(quit)>:<times the closure ran> per E op, then
//         late<0|1> = a closure ran after wg.Wait() had returned.
func c16wRun(in []string) []string {
	nw, _ := strconv.Atoi(in[1])
	capQ, _ := strconv.Atoi(in[2])
	wg := &sync.WaitGroup{}
	quit := make(chan struct{})
	w := workers.New(wg, quit, capQ)
	w.Start(nw)
	var mu sync.Mutex
	counts := map[int]int{}
	stopped, late, closed, waited := false, false, false, false
	type enq struct {
		id     int
		ok     bool
		afterq bool
	}
	var enqs []enq
	for i := 3; i < len(in); i++ {
		switch in[i] {
		case "E":
			id, _ := strconv.Atoi(in[i+1])
			i++
			err := w.Enqueue(func() {
				mu.Lock()
				counts[id]++
				if stopped {
					late = true
				}
				mu.Unlock()
				time.Sleep(100 * time.Microsecond)
			})
			enqs = append(enqs, enq{id, err == nil, closed})
		case "Q":
			if !closed {
				close(quit)
				closed = true
			}
		case "D":
			w.Drain()
		case "S":
			if closed && !waited {
				wg.Wait()
				waited = true
				mu.Lock()
				stopped = true
				mu.Unlock()
			}
		case "Y": // give the workers time
			time.Sleep(2 * time.Millisecond)
		}
	}
	if !closed {
		close(quit)
	}
	w.Drain()
	if !waited {
		wg.Wait()
		mu.Lock()
		stopped = true
		mu.Unlock()
	}
	time.Sleep(3 * time.Millisecond)
	mu.Lock()
	defer mu.Unlock()
	var obs []string
	for _, e := range enqs {
		obs = append(obs, fmt.Sprintf("e%d:%s:%s:%d", e.id, vu.B(e.ok), vu.B(e.afterq), counts[e.id]))
		if e.afterq && e.ok {
			vu.Stat("w_enqueue_after_quit_accepted")
		}
		if e.afterq && !e.ok {
			vu.Stat("w_enqueue_after_quit_refused")
		}
	}
	obs = append(obs, "late"+vu.B(late))
	return obs
}

func c16wGen(r *rand.Rand, emit func(...string)) {
	nw := 1 + r.Intn(3)
	n := 3 + r.Intn(8)
	capQ := n + 2
	if r.Intn(3) == 0 {
		capQ = 2 + r.Intn(3) // small buffer: Enqueue after quit hits a full queue
	} else if r.Intn(4) == 0 {
		capQ = r.Intn(2) // unbuffered (rendezvous with a parked worker) or one slot: Enqueue waits for the workers
		vu.Stat("w_tiny_buffer")
	}
	toks := []string{"W", strconv.Itoa(nw), strconv.Itoa(capQ)}
	id := 0
	before := r.Intn(n)
	if before > capQ && capQ >= 2 {
		before = capQ
	}
	for k := 0; k < before; k++ {
		id++
		toks = append(toks, ";", "E", strconv.Itoa(id))
		if r.Intn(4) == 0 {
			toks = append(toks, ";", "Y")
		}
	}
	toks = append(toks, ";", "Q")
	order := r.Intn(3)
	if order == 0 {
		toks = append(toks, ";", "D", ";", "S")
	} else if order == 1 {
		toks = append(toks, ";", "D")
	}
	for k := before; k < n; k++ {
		id++
		toks = append(toks, ";", "E", strconv.Itoa(id))
	}
	if order == 1 {
		toks = append(toks, ";", "S")
	}
	vu.Stat("family_workers")
	emit(toks...)
}

func c16RunCase(in []string) []string {
	if len(in) > 0 && in[0] == "W" {
		return c16wRun(in)
	}
	hl, mb, ops, mpr, mqb := c16Parse(in)
	var obs []string
	var late bool
	for attempt := 0; attempt < 3; attempt++ {
		unit := c16UnitDefault
		if attempt == 2 { // last attempt: slower clock, proportionally larger tolerances
			unit = c16UnitDefault * 5 / 2
		}
		obs, late = c16RunOnce(hl, mb, mpr, mqb, ops, unit)
		if !late {
			vu.Stat("attempts_" + strconv.Itoa(attempt+1))
			return obs
		}
	}
	vu.Stat("late")
	return append([]string{"LATE"}, obs...)
}

func c16Gen(r *rand.Rand, n int, tier string, emit func(...string)) {
	// witness of the pinned tree's defect: announced while suspended after the initial timer died
	emit("256", ";", "S", "1", "1", ";", "N", "2", "1", "0", "1", ";", "S", "3", "0", ";", "E", "30")
	emit("256", ";", "S", "1", "1", ";", "N", "2", "1", "0", "1,2", ";", "S", "4", "0", ";", "N", "30", "2", "0", "3", ";", "E", "44")
	for c := 2; c < n; c++ {
		if c%5 == 4 {
			c16wGen(r, emit)
			continue
		}
		hl := 256
		small := r.Intn(5) == 0
		if small {
			hl = 3 + r.Intn(6)
		}
		toks := []string{strconv.Itoa(hl)}
		smallBatch := 0
		if r.Intn(3) == 0 { // MaxBatch splitting: 1 or 2 real ids per batch (MaxBatch = 2 or 3)
			smallBatch = 1 + r.Intn(2)
			toks = append(toks, strconv.Itoa(smallBatch))
			vu.Stat("family_maxbatch")
			if r.Intn(2) == 0 { // one worker / one queued batch: every queue of the fetcher at its smallest
				toks = append(toks, strconv.Itoa(1+r.Intn(2)), strconv.Itoa(1+r.Intn(2)))
				vu.Stat("family_small_queues")
			}
		}
		t := int64(0)
		lastWasN := false
		nops := 3 + r.Intn(8)
		suspended := false
		var announced []int
		for k := 0; k < nops; k++ {
			x := r.Intn(20)
			isN := x < 10 || len(announced) == 0
			if isN && lastWasN && r.Intn(4) == 0 {
				vu.Stat("concurrent_notify") // same instant as the previous announcement: concurrent callers
			} else {
				t += int64(1 + r.Intn(5))
			}
			lastWasN = isN
			ts := strconv.FormatInt(t, 10)
			toks = append(toks, ";")
			switch {
			case x < 10 || len(announced) == 0:
				peer := 1 + r.Intn(3)
				cnt := 1 + r.Intn(3)
				var ids []int
				for j := 0; j < cnt; j++ {
					id := 1 + r.Intn(6)
					dup := false
					for _, y := range ids {
						if y == id {
							dup = true
						}
					}
					if !dup {
						ids = append(ids, id)
						announced = append(announced, id)
					}
				}
				off := int64(0)
				switch r.Intn(8) {
				case 0:
					off = 30 + int64(r.Intn(9)) // close to the forget timeout
				case 1:
					off = 41 + int64(r.Intn(5)) // already too old
				case 2:
					off = -3 // announce time in the future
				}
				toks = append(toks, "N", ts, strconv.Itoa(peer), strconv.FormatInt(off, 10), c16IdsTok(ids))
				vu.Stat("op_notify")
			case x < 13:
				cnt := 1 + r.Intn(2)
				var ids []int
				if smallBatch > 0 && r.Intn(4) != 0 {
					// a report of exactly MaxBatch, MaxBatch+1 or 2*MaxBatch distinct items: NotifyReceived splits it
					mbReal := smallBatch + 1
					want := []int{mbReal, mbReal + 1, 2 * mbReal}[r.Intn(3)]
					seen := map[int]bool{}
					for _, y := range announced {
						if !seen[y] && len(ids) < want {
							seen[y] = true
							ids = append(ids, y)
						}
					}
					for y := 1; y <= 6 && len(ids) < want; y++ {
						if !seen[y] {
							seen[y] = true
							ids = append(ids, y)
						}
					}
					r.Shuffle(len(ids), func(a, b int) { ids[a], ids[b] = ids[b], ids[a] })
					vu.Stat("received_split")
					cnt = 0
				}
				for j := 0; j < cnt; j++ {
					ids = append(ids, announced[r.Intn(len(announced))])
				}
				toks = append(toks, "R", ts, c16IdsTok(ids))
				vu.Stat("op_received")
			case x < 16:
				id := announced[r.Intn(len(announced))]
				toks = append(toks, "I", ts, strconv.Itoa(id), vu.B(r.Intn(3) == 0))
				vu.Stat("op_interest")
			default:
				suspended = !suspended
				toks = append(toks, "S", ts, vu.B(suspended))
				vu.Stat("op_suspend")
			}
		}
		t += int64(18 + r.Intn(8))
		toks = append(toks, ";", "E", strconv.FormatInt(t, 10))
		emit(toks...)
	}
}

func init() {
	vu.Register("C16", &vu.Prop{Gen: c16Gen, Run: c16RunCase, Parallel: 40})
}
