package main

// C20 (QuorumIndexer medians / metrics).  Same scenario machinery as C05 (c05.go): a real
// ancestor.QuorumIndexer over the real vector index (through adapters.VectorToDagIndexer) on fork
// DAGs; ops P (ProcessEvent with self / non-self flag), G (GetGlobalMedianSeqs + matrix +
// self-parent seqs), T (GetMetricOf) with diff functions from c05Diff (one overflowing uint64).

import (
	"math/rand"
	"strconv"

	"verifharness/vu"
)

// c20ManyValidators: size class "many-validators": 63..130 validators (boundaries of a 64-bit word: 63, 64, 65,
// 127, 128, 129), equal weights.  Every validator creates a first event on top of the previous ones (a chain, so the
// later ones observe the earlier ones), then about 3/4 of the validators (a quorum) create a second event observing
// everything.  Every event is processed; medians + matrix are read while the rows fill up and at the end (every
// validator's median, high indexes included, is then >= 1), metrics of a few events.
func c20ManyValidators(r *rand.Rand) []string {
	nv := []int{63, 64, 65, 127, 128, 129, 66 + r.Intn(64), 65, 129}[r.Intn(9)]
	d := &c05Dag{nv: nv, ws: make([]uint32, nv)}
	for i := range d.ws {
		d.ws[i] = 1
	}
	in := c05Header(d, 200, 4000000, r.Intn(5), 0)
	self := r.Intn(nv)
	id := 0
	first := make([]int, nv)
	for v := 0; v < nv; v++ {
		id++
		var ps []int
		if id > 1 {
			ps = append(ps, id-1)
		}
		if id > 2 && r.Intn(2) == 0 {
			ps = append(ps, 1+r.Intn(id-2))
		}
		in = append(in, c05EvOp(c05Ev{id: id, cr: v, seq: 1, parents: ps})...)
		first[v] = id
		in = append(in, ";", "P", strconv.Itoa(id), vu.B(v == self))
		if v == 62 || v == 63 || v == 64 || v == nv-1 {
			in = append(in, ";", "G")
		}
	}
	top := id
	perm := r.Perm(nv)
	k := nv*3/4 + 1
	for j, v := range perm[:k] {
		id++
		in = append(in, c05EvOp(c05Ev{id: id, cr: v, seq: 2, parents: []int{first[v], top}})...)
		in = append(in, ";", "P", strconv.Itoa(id), vu.B(v == self))
		if j%16 == 15 || j == k-1 || j == nv*2/3 || j == nv*2/3+1 {
			in = append(in, ";", "G", ";", "T", strconv.Itoa(id))
		}
	}
	in = append(in, ";", "T", strconv.Itoa(first[nv-1]), ";", "T", strconv.Itoa(first[0]), ";", "G")
	vu.Stat("scenario_many_validators")
	if nv > 64 {
		vu.Stat("more_than_64_validators")
	}
	return in
}

func init() {
	vu.Register("C20", &vu.Prop{
		Gen: func(r *rand.Rand, n int, tier string, emit func(...string)) {
			nextMany := 5
			for i := 0; i < n; {
				if i >= nextMany { // size class many-validators: 2 per quick run
					emit(c20ManyValidators(r)...)
					i++
					nextMany += 30
					if tier == "thorough" {
						nextMany -= 20
					}
					continue
				}
				d := c05PickDag(r, tier, i+1)
				for mode := 0; mode < 2 && i < n; mode++ {
					order := c05Order(r, d, mode)
					in := c05Header(d, 200, 1638, r.Intn(5), 0)
					self := r.Intn(d.nv)
					pProc := 0.6 + 0.4*r.Float64()
					var seen []int
					foreignAt := -1 // 1 in 8 scenarios: late ProcessEvent by a non-validator (impl vs model from there)
					if r.Intn(8) == 0 {
						foreignAt = len(order)*2/3 + r.Intn(len(order)/3+1)
					}
					for j, e := range order {
						if j == foreignAt && len(seen) > 0 {
							in = append(in, ";", "PX", strconv.Itoa(seen[r.Intn(len(seen))]), vu.B(r.Intn(2) == 0), ";", "G")
						}
						in = append(in, c05EvOp(e)...)
						seen = append(seen, e.id)
						if r.Float64() < pProc {
							flag := e.cr == self
							if r.Intn(12) == 0 {
								flag = !flag
							}
							in = append(in, ";", "P", strconv.Itoa(e.id), vu.B(flag))
						}
						switch r.Intn(4) {
						case 0:
							in = append(in, ";", "G")
						case 1: // metrics of a few candidate parents (recent and old), medians possibly still dirty
							for k := 0; k < 1+r.Intn(3); k++ {
								w := len(seen)
								if w > 6 {
									w = 6
								}
								c := seen[len(seen)-1-r.Intn(w)]
								if r.Intn(5) == 0 {
									c = seen[r.Intn(len(seen))]
								}
								in = append(in, ";", "T", strconv.Itoa(c))
							}
						case 2:
							in = append(in, ";", "T", strconv.Itoa(e.id), ";", "G")
						}
					}
					in = append(in, ";", "G", ";", "T", strconv.Itoa(seen[len(seen)-1]))
					emit(in...)
					i++
				}
			}
		},
		Run: c05Run,
	})
}
