package main

// C20 (QuorumIndexer medians / metrics).  Same scenario machinery as C05 (c05.go): a real
// ancestor.QuorumIndexer over the real vector index (through adapters.VectorToDagIndexer) on fork
// DAGs; ops P (ProcessEvent with self / non-self flag), G (GetGlobalMedianSeqs + matrix +
// self-parent seqs), T (GetMetricOf) with diff functions from c05Diff (one overflowing uint64).

import (
	"math/rand"
	"strconv"

	"verifharness/vu"
)

func init() {
	vu.Register("C20", &vu.Prop{
		Gen: func(r *rand.Rand, n int, tier string, emit func(...string)) {
			for i := 0; i < n; {
				d := c05PickDag(r, tier, i+1)
				for mode := 0; mode < 2 && i < n; mode++ {
					order := c05Order(r, d, mode)
					in := c05Header(d, 200, 1638, r.Intn(5), 0)
					self := r.Intn(d.nv)
					pProc := 0.6 + 0.4*r.Float64()
					var seen []int
					foreignAt := -1 // 1 in 8 scenarios: late ProcessEvent by a non-validator (impl vs model from there)
					if r.Intn(8) == 0 {
						foreignAt = len(order)*2/3 + r.Intn(len(order)/3+1)
					}
					for j, e := range order {
						if j == foreignAt && len(seen) > 0 {
							in = append(in, ";", "PX", strconv.Itoa(seen[r.Intn(len(seen))]), vu.B(r.Intn(2) == 0), ";", "G")
						}
						in = append(in, c05EvOp(e)...)
						seen = append(seen, e.id)
						if r.Float64() < pProc {
							flag := e.cr == self
							if r.Intn(12) == 0 {
								flag = !flag
							}
							in = append(in, ";", "P", strconv.Itoa(e.id), vu.B(flag))
						}
						switch r.Intn(4) {
						case 0:
							in = append(in, ";", "G")
						case 1: // metrics of a few candidate parents (recent and old), medians possibly still dirty
							for k := 0; k < 1+r.Intn(3); k++ {
								w := len(seen)
								if w > 6 {
									w = 6
								}
								c := seen[len(seen)-1-r.Intn(w)]
								if r.Intn(5) == 0 {
									c = seen[r.Intn(len(seen))]
								}
								in = append(in, ";", "T", strconv.Itoa(c))
							}
						case 2:
							in = append(in, ";", "T", strconv.Itoa(e.id), ";", "G")
						}
					}
					in = append(in, ";", "G", ";", "T", strconv.Itoa(seen[len(seen)-1]))
					emit(in...)
					i++
				}
			}
		},
		Run: c05Run,
	})
}
