package main

import (
	"bytes"
	"encoding/binary"
	"fmt"
	"math"
	"math/rand"
	"strconv"
	"strings"

	"github.com/Fantom-foundation/lachesis-base/emitter/ancestor"
	"github.com/Fantom-foundation/lachesis-base/hash"
	"github.com/Fantom-foundation/lachesis-base/inter/dag"
	"github.com/Fantom-foundation/lachesis-base/inter/idx"
	"github.com/Fantom-foundation/lachesis-base/inter/pos"
	"github.com/Fantom-foundation/lachesis-base/kvdb/memorydb"
	"github.com/Fantom-foundation/lachesis-base/utils/adapters"
	"github.com/Fantom-foundation/lachesis-base/vecfc"

	"verifharness/vu"
)

// C19: ChooseParents + MetricStrategy.
//   CP <ne> <existing ids> <no> <option ids> <ns> <strategy>*ns <nm> (<id> <metric>)*nm
//   strategy:  M          the real ancestor.MetricStrategy over the metric table (ids not listed: 0)
//              R<seed>    the real ancestor.RandomStrategy with a seeded PRNG
//              I<k>       scripted: answers k mod len(options)
//              X<k>       scripted: answers k as it is (may be out of range: index panic)
//   every strategy is wrapped by a recorder.
// Observation:  ( r <np> <parents shown> <n> <options shown> <index> )*  res ok|panic <n> <result ids>
// ids are small numbers, mapped to 32-byte hashes.

func c19Hash(k uint64) (h hash.Event) {
	binary.BigEndian.PutUint64(h[0:8], k*0x9E3779B97F4A7C15)
	binary.BigEndian.PutUint64(h[24:32], k)
	return
}

func c19ID(h hash.Event) uint64 { return binary.BigEndian.Uint64(h[24:32]) }

type c19Round struct {
	parents, opts []uint64
	idx           int
}

type c19Rec struct {
	inner ancestor.SearchStrategy
	log   *[]c19Round
}

func (s *c19Rec) Choose(existing hash.Events, options hash.Events) int {
	k := s.inner.Choose(existing, options)
	r := c19Round{idx: k}
	for _, h := range existing {
		r.parents = append(r.parents, c19ID(h))
	}
	for _, h := range options {
		r.opts = append(r.opts, c19ID(h))
	}
	*s.log = append(*s.log, r)
	return k
}

type c19Script struct {
	k   int
	raw bool
}

func (s *c19Script) Choose(_ hash.Events, options hash.Events) int {
	if s.raw {
		return s.k
	}
	return s.k % len(options)
}

// MC <n> <option ids (duplicates allowed, may be empty)> <nm> (<id> <metric>)*nm
//
//	-> calls ancestor.NewMetricStrategy(fn).Choose(nil, options) directly; observation: the index.
func c19RunMC(in []string) []string {
	p := 1
	num := func() uint64 {
		v, err := strconv.ParseUint(in[p], 10, 64)
		p++
		if err != nil {
			panic("c19: bad number")
		}
		return v
	}
	n := int(num())
	opts := make(hash.Events, 0, n)
	for i := 0; i < n; i++ {
		opts = append(opts, c19Hash(num()))
	}
	nm := int(num())
	table := map[hash.Event]ancestor.Metric{}
	for i := 0; i < nm; i++ {
		id := num()
		table[c19Hash(id)] = ancestor.Metric(num())
	}
	calls := 0
	st := ancestor.NewMetricStrategy(func(h hash.Event) ancestor.Metric { calls++; return table[h] })
	k := st.Choose(nil, opts)
	vu.Stat("mc.len=" + vu.Itoa(n))
	if calls != n {
		return []string{vu.Itoa(k), "calls=" + vu.Itoa(calls)}
	}
	return []string{vu.Itoa(k)}
}

// MS <mode> ; T nm (id metric).. ; H n opts.. ; ...
//
//	ONE MetricStrategy object used for every H while the metric function (a table) is replaced by the T
//	steps in between.  mode p: NewMetricStrategy(fn);  mode c: NewMetricStrategy(NewMetricFnCache(fn,128).GetMetricOf)
//	Observation: one index per H.
func c19RunMS(in []string) []string {
	table := map[hash.Event]ancestor.Metric{}
	fn := func(h hash.Event) ancestor.Metric { return table[h] }
	var st *ancestor.MetricStrategy
	gen := 0 // mode g<size>: a NEW MetricFnCache(fn, size) + MetricStrategy per generation (= per T step), as
	// QuorumIndexer.recacheState does; within a generation the function does not change
	if in[1][0] == 'g' {
		gen, _ = strconv.Atoi(in[1][1:])
		st = ancestor.NewMetricStrategy(ancestor.NewMetricFnCache(fn, gen).GetMetricOf)
	} else if in[1] == "c" {
		st = ancestor.NewMetricStrategy(ancestor.NewMetricFnCache(fn, 128).GetMetricOf)
	} else {
		st = ancestor.NewMetricStrategy(fn)
	}
	distinct := map[hash.Event]bool{}
	var obs []string
	var step []string
	do := func() {
		if len(step) == 0 {
			return
		}
		pu := func(s string) uint64 { v, _ := strconv.ParseUint(s, 10, 64); return v }
		switch step[0] {
		case "T":
			table = map[hash.Event]ancestor.Metric{}
			nm := int(pu(step[1]))
			for i := 0; i < nm; i++ {
				table[c19Hash(pu(step[2+2*i]))] = ancestor.Metric(pu(step[3+2*i]))
			}
			vu.Stat("ms.table_changed")
			if gen > 0 {
				st = ancestor.NewMetricStrategy(ancestor.NewMetricFnCache(fn, gen).GetMetricOf)
				distinct = map[hash.Event]bool{}
			}
		case "H":
			n := int(pu(step[1]))
			opts := make(hash.Events, 0, n)
			for i := 0; i < n; i++ {
				opts = append(opts, c19Hash(pu(step[2+i])))
			}
			if gen > 0 {
				over := len(distinct) > gen
				for _, h := range opts {
					distinct[h] = true
				}
				if over {
					vu.Stat("ms.gen.requery_after_more_ids_than_capacity")
				}
				vu.Stat("ms.gen.size=" + vu.Itoa(gen))
			}
			obs = append(obs, vu.Itoa(st.Choose(nil, opts)))
			vu.Stat("ms.choose." + in[1][:1])
		}
		step = nil
	}
	for _, t := range in[2:] {
		if t == ";" {
			do()
		} else {
			step = append(step, t)
		}
	}
	do()
	return obs
}

// QI <nv> <weight>*nv <diffk> <self> ; E id creator seq lamport np parents.. ; P id self ; C ne existing.. no options.. ns ; ...
//
//	a real ancestor.QuorumIndexer over a real vecfc.Index (adapters.VectorToDagIndexer) on a small DAG.
//	E adds an event to the vector index, P = qi.ProcessEvent(event, self),
//	C = ChooseParents(existing, options, ns x qi.SearchStrategy()) with the strategy obtained at that moment
//	(as an emitter does) and wrapped by a recorder which, at choose time, also asks qi.GetMetricOf for
//	every option it was shown.
//	Observation per C:  c ( r np parents.. n options.. idx metric*n )* res ok|.. n result..
type c19QIRec struct {
	inner ancestor.SearchStrategy
	qi    *ancestor.QuorumIndexer
	num   map[hash.Event]int
	out   *[]string
}

func (s *c19QIRec) Choose(existing hash.Events, options hash.Events) int {
	k := s.inner.Choose(existing, options)
	o := []string{"r", vu.Itoa(len(existing))}
	for _, h := range existing {
		o = append(o, vu.Itoa(s.num[h]))
	}
	o = append(o, vu.Itoa(len(options)))
	for _, h := range options {
		o = append(o, vu.Itoa(s.num[h]))
	}
	o = append(o, vu.Itoa(k))
	for _, h := range options {
		o = append(o, vu.U64(uint64(s.qi.GetMetricOf(h)))) // the metric NOW
	}
	*s.out = append(*s.out, o...)
	return k
}

func c19Diff(k int) ancestor.DiffMetricFn {
	if k == 1 { // progress towards the global median only
		return func(median, current, update idx.Event, _ idx.Validator) ancestor.Metric {
			if update <= current || current >= median {
				return 0
			}
			if update > median {
				update = median
			}
			return ancestor.Metric(update - current)
		}
	}
	return func(median, current, update idx.Event, _ idx.Validator) ancestor.Metric { // events not yet observed
		if update <= current {
			return 0
		}
		return ancestor.Metric(update - current)
	}
}

func c19RunQI(in []string) []string {
	at := func(s string) int { v, _ := strconv.Atoi(s); return v }
	nv := at(in[1])
	b := pos.NewBuilder()
	for i := 0; i < nv; i++ {
		b.Set(idx.ValidatorID(i+1), pos.Weight(at(in[2+i])))
	}
	vals := b.Build()
	diffk := at(in[2+nv])
	crit := func(err error) { panic(err) }
	index := vecfc.NewIndex(crit, vecfc.LiteConfig())
	events := map[hash.Event]dag.Event{}
	byNum := map[int]dag.Event{}
	num := map[hash.Event]int{}
	index.Reset(vals, memorydb.New(), func(id hash.Event) dag.Event {
		if e, ok := events[id]; ok {
			return e
		}
		return nil
	})
	qi := ancestor.NewQuorumIndexer(vals, &adapters.VectorToDagIndexer{Index: index}, c19Diff(diffk))
	var obs []string
	var step []string
	selfSinceChoose := false
	do := func() {
		if len(step) == 0 {
			return
		}
		switch step[0] {
		case "E":
			me := &dag.MutableBaseEvent{}
			me.SetEpoch(1)
			me.SetFrame(1)
			me.SetCreator(idx.ValidatorID(at(step[2])))
			me.SetSeq(idx.Event(at(step[3])))
			me.SetLamport(idx.Lamport(at(step[4])))
			var ps hash.Events
			for i := 0; i < at(step[5]); i++ {
				ps = append(ps, byNum[at(step[6+i])].ID())
			}
			me.SetParents(ps)
			var tail [24]byte
			binary.BigEndian.PutUint64(tail[16:], uint64(at(step[1])))
			e := me.Build(tail)
			events[e.ID()], byNum[at(step[1])], num[e.ID()] = e, e, at(step[1])
			if err := index.Add(e); err != nil {
				panic(err)
			}
			index.Flush()
		case "P":
			qi.ProcessEvent(byNum[at(step[1])], step[2] == "1")
			if step[2] == "1" {
				selfSinceChoose = true
			}
			vu.Stat("qi.process.self=" + step[2])
		case "C":
			p := 1
			ids := func() hash.Events {
				n := at(step[p])
				p++
				hh := make(hash.Events, 0, n)
				for i := 0; i < n; i++ {
					hh = append(hh, byNum[at(step[p])].ID())
					p++
				}
				return hh
			}
			existing, options := ids(), ids()
			ns := at(step[p])
			medBefore := append([]idx.Event{}, qi.GetGlobalMedianSeqs()...)
			st := qi.SearchStrategy()
			strategies := make([]ancestor.SearchStrategy, ns)
			for i := range strategies {
				strategies[i] = &c19QIRec{inner: st, qi: qi, num: num, out: &obs}
			}
			obs = append(obs, "c")
			res := ancestor.ChooseParents(existing, options, strategies)
			obs = append(obs, "res", "ok", vu.Itoa(len(res)))
			for _, h := range res {
				obs = append(obs, vu.Itoa(num[h]))
			}
			vu.Stat("qi.choose")
			if selfSinceChoose {
				vu.Stat("qi.choose_after_self_event")
			}
			selfSinceChoose = false
			_ = medBefore
		}
		step = nil
	}
	for _, t := range in[3+nv+1:] {
		if t == ";" {
			do()
		} else {
			step = append(step, t)
		}
	}
	do()
	_ = bytes.Compare
	return obs
}

func c19Run(in []string) []string {
	switch in[0] {
	case "MC":
		return c19RunMC(in)
	case "MS":
		return c19RunMS(in)
	case "QI":
		return c19RunQI(in)
	}
	p := 1
	next := func() string { s := in[p]; p++; return s }
	num := func() uint64 {
		v, err := strconv.ParseUint(next(), 10, 64)
		if err != nil {
			panic("c19: bad number")
		}
		return v
	}
	nilArgs := in[0] == "CPN" // empty lists / no strategies are passed as nil slices
	ids := func() hash.Events {
		n := int(num())
		if n == 0 && nilArgs {
			return nil
		}
		hh := make(hash.Events, 0, n) // non-nil even when empty
		for i := 0; i < n; i++ {
			hh = append(hh, c19Hash(num()))
		}
		return hh
	}
	existing := ids()
	options := ids()
	ns := int(num())
	specs := make([]string, ns)
	for i := range specs {
		specs[i] = next()
	}
	nm := int(num())
	table := map[hash.Event]ancestor.Metric{}
	for i := 0; i < nm; i++ {
		id := num()
		table[c19Hash(id)] = ancestor.Metric(num())
	}
	var log []c19Round
	strategies := make([]ancestor.SearchStrategy, ns)
	if ns == 0 && nilArgs {
		strategies = nil
	}
	shared := map[string]ancestor.SearchStrategy{} // Q<seed>: ONE RandomStrategy object used at several positions
	for i, sp := range specs {
		var inner ancestor.SearchStrategy
		switch sp[0] {
		case 'M':
			inner = ancestor.NewMetricStrategy(func(h hash.Event) ancestor.Metric { return table[h] })
		case 'R':
			seed, _ := strconv.ParseInt(sp[1:], 10, 64)
			inner = ancestor.NewRandomStrategy(rand.New(rand.NewSource(seed)))
		case 'N': // NewRandomStrategy(nil): seeds itself from the clock
			inner = ancestor.NewRandomStrategy(nil)
		case 'Q':
			if shared[sp] == nil {
				seed, _ := strconv.ParseInt(sp[1:], 10, 64)
				shared[sp] = ancestor.NewRandomStrategy(rand.New(rand.NewSource(seed)))
			}
			inner = shared[sp]
		case 'I', 'X':
			k, _ := strconv.Atoi(sp[1:])
			inner = &c19Script{k: k, raw: sp[0] == 'X'}
		default:
			panic("c19: bad strategy")
		}
		vu.Stat("strategy=" + sp[:1])
		strategies[i] = &c19Rec{inner: inner, log: &log}
	}
	// aliasing mode: how the caller allocated the two argument slices
	//   CP / CPN  independent arrays, len == cap
	//   CPA1      existing = heads[:k], options = heads  (needs options to start with existing)
	//   CPA2      existing has spare capacity (separate array), the spare part holds sentinels
	//   CPA3      heads = existing ++ options in ONE array: existing = heads[:k] (cap reaches over options),
	//             options = heads[k:]
	var spare hash.Events // the part of existing's backing array beyond its length, as the caller sees it
	sentinel := c19Hash(0xfffffffffffffff0)
	switch in[0] {
	case "CPA1":
		ok := len(options) >= len(existing)
		for i := 0; ok && i < len(existing); i++ {
			ok = options[i] == existing[i]
		}
		if ok {
			heads := append(hash.Events{}, options...)
			existing, options = heads[:len(existing)], heads
			vu.Stat("alias.existing_prefix_of_options_array")
		}
	case "CPA2":
		arr := make(hash.Events, len(existing)+6)
		copy(arr, existing)
		for i := len(existing); i < len(arr); i++ {
			arr[i] = sentinel
		}
		existing, spare = arr[:len(existing)], arr[len(existing):]
		vu.Stat("alias.existing_spare_capacity")
	case "CPA3":
		heads := append(append(hash.Events{}, existing...), options...)
		existing, options = heads[:len(existing)], heads[len(existing):]
		vu.Stat("alias.existing_and_options_adjacent")
	}
	var res hash.Events
	status := "ok"
	func() {
		defer func() {
			if r := recover(); r != nil {
				if strings.Contains(fmt.Sprint(r), "index out of range") {
					status = "panic"
				} else {
					status = "otherpanic"
				}
				res = nil
			}
		}()
		exCopy := append(hash.Events{}, existing...)
		opCopy := append(hash.Events{}, options...)
		res = ancestor.ChooseParents(existing, options, strategies)
		// the arguments must not be modified
		for i := range exCopy {
			if exCopy[i] != existing[i] {
				status = "mutated-existing"
			}
		}
		for i := range opCopy {
			if opCopy[i] != options[i] {
				status = "mutated-options"
			}
		}
		for _, h := range spare {
			if h != sentinel {
				status = "mutated-existing-spare"
			}
		}
	}()
	var obs []string
	for _, r := range log {
		obs = append(obs, "r", vu.Itoa(len(r.parents)))
		for _, x := range r.parents {
			obs = append(obs, vu.U64(x))
		}
		obs = append(obs, vu.Itoa(len(r.opts)))
		for _, x := range r.opts {
			obs = append(obs, vu.U64(x))
		}
		obs = append(obs, vu.Itoa(r.idx))
	}
	obs = append(obs, "res", status, vu.Itoa(len(res)))
	for _, h := range res {
		obs = append(obs, vu.U64(c19ID(h)))
	}
	// the caller's slices AFTER the call (ChooseParents is a pure function of the values)
	obs = append(obs, "ex", vu.Itoa(len(existing)))
	for _, h := range existing {
		obs = append(obs, vu.U64(c19ID(h)))
	}
	obs = append(obs, "op", vu.Itoa(len(options)))
	for _, h := range options {
		obs = append(obs, vu.U64(c19ID(h)))
	}
	vu.Stat("rounds=" + vu.Itoa(len(log)))
	vu.Stat("res=" + status)
	// sweep counters
	if nilArgs {
		vu.Stat("sweep.nil_args")
	}
	if ns == 0 {
		vu.Stat("sweep.nstrat=0")
	}
	if len(options) == 0 {
		vu.Stat("sweep.nopt=0")
	}
	if len(options) > 255 {
		vu.Stat("sweep.nopt>255")
	}
	if len(options) > 65535 {
		vu.Stat("sweep.nopt>65535")
	}
	if len(existing) > ns && ns > 0 {
		vu.Stat("sweep.existing>nstrat")
	}
	if len(existing) == 0 {
		vu.Stat("sweep.nexisting=0")
	}
	for i, r := range log {
		if len(r.opts) == 1 && i < len(specs) && (specs[i][0] == 'R' || specs[i][0] == 'N' || specs[i][0] == 'Q') {
			vu.Stat("sweep.random_with_1_option")
		}
		if len(r.opts) > 255 {
			vu.Stat("sweep.choose_shown>255")
		}
	}
	for _, m := range table {
		switch {
		case m == 0:
			vu.Stat("sweep.metric=0")
		case m == 1<<63:
			vu.Stat("sweep.metric=2^63")
		case m == math.MaxUint64:
			vu.Stat("sweep.metric=maxuint64")
		}
	}
	if len(log) < ns && status == "ok" {
		vu.Stat("stopped_early")
	}
	return obs
}

func c19Emit(emit func(...string), existing, options []uint64, specs []string, table [][2]uint64) {
	c19EmitOp(emit, "CP", existing, options, specs, table)
}

func c19EmitOp(emit func(...string), op string, existing, options []uint64, specs []string, table [][2]uint64) {
	t := []string{op, vu.Itoa(len(existing))}
	for _, x := range existing {
		t = append(t, vu.U64(x))
	}
	t = append(t, vu.Itoa(len(options)))
	for _, x := range options {
		t = append(t, vu.U64(x))
	}
	t = append(t, vu.Itoa(len(specs)))
	t = append(t, specs...)
	t = append(t, vu.Itoa(len(table)))
	for _, kv := range table {
		t = append(t, vu.U64(kv[0]), vu.U64(kv[1]))
	}
	emit(t...)
}

func c19Metric(r *rand.Rand) uint64 {
	switch r.Intn(8) {
	case 0, 1:
		return 0
	case 2:
		return 1
	case 3:
		return 5
	case 4:
		return math.MaxUint64
	case 5:
		return math.MaxUint64 - 1
	case 6:
		return 1 << 63
	}
	return uint64(r.Intn(4))
}

func c19GenQI(r *rand.Rand) []string {
	nv := 2 + r.Intn(4)
	t := []string{"QI", vu.Itoa(nv)}
	equal := r.Intn(2) == 0
	for i := 0; i < nv; i++ {
		w := 1
		if !equal {
			w = 1 + r.Intn(5)
		}
		t = append(t, vu.Itoa(w))
	}
	self := 1 + r.Intn(nv)
	t = append(t, vu.Itoa(r.Intn(2)), vu.Itoa(self))
	last := make([]int, nv+1) // last event id of each validator (0 = none)
	seq := make([]int, nv+1)
	lam := map[int]int{}
	var all []int
	nextID := 1
	heads := func(except int) []int {
		var h []int
		for c := 1; c <= nv; c++ {
			if c != except && last[c] != 0 {
				h = append(h, last[c])
			}
		}
		return h
	}
	choose := func(existing []int) {
		opts := heads(self)
		if r.Intn(4) == 0 && len(all) > 0 { // an older event as well, a duplicate
			opts = append(opts, all[r.Intn(len(all))])
		}
		if r.Intn(6) == 0 && len(opts) > 0 {
			opts = append(opts, opts[0])
		}
		t = append(t, ";", "C", vu.Itoa(len(existing)))
		for _, x := range existing {
			t = append(t, vu.Itoa(x))
		}
		t = append(t, vu.Itoa(len(opts)))
		for _, x := range opts {
			t = append(t, vu.Itoa(x))
		}
		t = append(t, vu.Itoa(1+r.Intn(3)))
	}
	for step, n := 0, 8+r.Intn(18); step < n; step++ {
		c := 1 + r.Intn(nv)
		if r.Intn(3) == 0 {
			c = self
		}
		var ps []int
		if last[c] != 0 {
			ps = append(ps, last[c])
		}
		for o := 1; o <= nv; o++ {
			if o != c && last[o] != 0 && r.Intn(5) < 3 {
				ps = append(ps, last[o])
			}
		}
		l := 0
		for _, p := range ps {
			if lam[p] > l {
				l = lam[p]
			}
		}
		id := nextID
		nextID++
		seq[c]++
		lam[id] = l + 1
		t = append(t, ";", "E", vu.Itoa(id), vu.Itoa(c), vu.Itoa(seq[c]), vu.Itoa(l+1), vu.Itoa(len(ps)))
		for _, p := range ps {
			t = append(t, vu.Itoa(p))
		}
		last[c] = id
		all = append(all, id)
		if r.Intn(10) != 0 {
			flag := c == self
			if r.Intn(20) == 0 {
				flag = !flag
			}
			t = append(t, ";", "P", vu.Itoa(id), vu.B(flag))
		}
		if c == self || r.Intn(4) == 0 {
			var ex []int
			if last[self] != 0 && r.Intn(5) != 0 {
				ex = []int{last[self]}
			}
			choose(ex)
		}
	}
	return t
}

func init() {
	vu.Register("C19", &vu.Prop{
		Gen: func(r *rand.Rand, n int, tier string, emit func(...string)) {
			if tier == "thorough" { // small scope: every existing/options list over a tiny id pool
				lists := func(pool, maxLen int) [][]uint64 {
					out := [][]uint64{{}}
					level := [][]uint64{{}}
					for l := 0; l < maxLen; l++ {
						var nxt [][]uint64
						for _, b := range level {
							for x := 0; x < pool; x++ {
								nxt = append(nxt, append(append([]uint64{}, b...), uint64(x)))
							}
						}
						out = append(out, nxt...)
						level = nxt
					}
					return out
				}
				kinds := []string{"I0", "I1", "M"}
				var strs [][]string
				strs = append(strs, []string{})
				for _, a := range kinds {
					strs = append(strs, []string{a})
					for _, b := range kinds {
						strs = append(strs, []string{a, b})
						for _, c := range kinds {
							strs = append(strs, []string{a, b, c})
						}
					}
				}
				table := [][2]uint64{{0, 0}, {1, 3}, {2, 3}, {3, 0}}
				for _, ex := range lists(3, 2) {
					for _, op := range lists(4, 3) {
						for _, st := range strs {
							c19Emit(emit, ex, op, st, table)
						}
					}
				}
			}
			// aliasing between the two argument slices (a harness dimension: the model is a function of values)
			for i := 0; i < 150+n/20; i++ {
				pool := 3 + r.Intn(10)
				perm := r.Perm(pool)
				k := r.Intn(3)
				var existing, options []uint64
				for _, x := range perm[:k] {
					existing = append(existing, uint64(x))
				}
				op := []string{"CPA1", "CPA2", "CPA3"}[r.Intn(3)]
				if op == "CPA1" {
					options = append(options, existing...)
				}
				for _, x := range perm[k : k+1+r.Intn(pool-k)] {
					options = append(options, uint64(x))
				}
				if r.Intn(4) == 0 {
					options = append(options, options[r.Intn(len(options))])
				}
				ns := 2 + r.Intn(4)
				specs := make([]string, ns)
				for j := range specs {
					switch r.Intn(4) {
					case 0:
						specs[j] = "M"
					case 1:
						specs[j] = "R" + strconv.Itoa(r.Intn(1000))
					default:
						specs[j] = "I" + strconv.Itoa(r.Intn(20))
					}
				}
				var table [][2]uint64
				for id := 0; id < pool; id++ {
					table = append(table, [2]uint64{uint64(id), uint64(r.Intn(9))})
				}
				c19EmitOp(emit, op, existing, options, specs, table)
			}
			// configuration / size sweep (always)
			{
				seqIDs := func(from, n int) []uint64 {
					l := make([]uint64, n)
					for i := range l {
						l[i] = uint64(from + i)
					}
					return l
				}
				big := [][2]uint64{{3, 1 << 63}, {4, math.MaxUint64}, {5, 1<<63 - 1}, {6, 0}, {7, 1}, {8, math.MaxUint64}, {299, 1 << 63}}
				for _, op := range []string{"CP", "CPN"} {
					c19EmitOp(emit, op, nil, nil, nil, nil)                                    // nothing at all
					c19EmitOp(emit, op, []uint64{1, 2}, nil, []string{"M", "R1"}, big)         // 0 options
					c19EmitOp(emit, op, []uint64{1, 2}, seqIDs(0, 9), nil, big)                // 0 strategies
					c19EmitOp(emit, op, nil, seqIDs(0, 9), []string{"M", "M", "R3", "N"}, big) // 0 existing
					c19EmitOp(emit, op, seqIDs(0, 9), seqIDs(0, 9), []string{"M", "I1"}, big)  // every option is an existing parent
				}
				c19Emit(emit, seqIDs(100, 6), seqIDs(0, 9), []string{"M"}, big) // existing longer than strategies
				c19Emit(emit, seqIDs(100, 12), seqIDs(0, 9), []string{"M", "R2"}, big)
				c19Emit(emit, []uint64{1}, []uint64{5}, []string{"R7", "R8"}, big) // RandomStrategy with 1 option
				c19Emit(emit, nil, []uint64{5, 5, 5}, []string{"N"}, big)
				c19Emit(emit, nil, []uint64{4, 6}, []string{"Q1", "Q1", "Q1"}, big) // one strategy object at three positions
				c19Emit(emit, nil, seqIDs(0, 20), []string{"Q9", "M", "Q9", "M", "Q9"}, big)
				for _, no := range []int{255, 256, 257, 300} { // more than 255 options
					c19Emit(emit, []uint64{1, 2, 3}, seqIDs(0, no), []string{"M", "I254", "I255", "R5", "M"}, big)
				}
				if tier == "thorough" { // more than 65535 options (model side is quadratic: one case)
					c19Emit(emit, []uint64{1}, seqIDs(0, 66000), []string{"M"}, big)
				}
				// MetricStrategy directly, metrics at the uint64 / int64 sign boundary
				for _, l := range [][]uint64{{3, 5}, {5, 3}, {4, 3}, {3, 4}, {3, 6}, {6, 3}, {4, 8}, {8, 4, 3}, {3, 3}, {6, 6}, {7, 3, 4}, {5, 6, 7}} {
					t := []string{"MC", vu.Itoa(len(l))}
					for _, x := range l {
						t = append(t, vu.U64(x))
					}
					t = append(t, vu.Itoa(len(big)))
					for _, kv := range big {
						t = append(t, vu.U64(kv[0]), vu.U64(kv[1]))
					}
					emit(t...)
				}
			}
			// ONE MetricStrategy object reused while the metric function changes between calls
			for i := 0; i < 40+n/40; i++ {
				pool := 2 + r.Intn(6)
				t := []string{"MS", []string{"p", "c"}[r.Intn(2)]}
				for j, k := 0, 2+r.Intn(4); j < k; j++ {
					t = append(t, ";", "T")
					var tb []string
					for id := 0; id < pool; id++ {
						if r.Intn(5) != 0 {
							tb = append(tb, vu.Itoa(id), vu.U64(c19Metric(r)))
						}
					}
					t = append(t, vu.Itoa(len(tb)/2))
					t = append(t, tb...)
					for h, hk := 0, 1+r.Intn(2); h < hk; h++ {
						ln := 1 + r.Intn(6)
						t = append(t, ";", "H", vu.Itoa(ln))
						for x := 0; x < ln; x++ {
							t = append(t, vu.Itoa(r.Intn(pool)))
						}
					}
				}
				emit(t...)
			}
			// the cache as a memoiser: a fresh NewMetricFnCache(fn, size) per generation, tiny and default sizes,
			// more distinct ids than the capacity, re-queries of evicted ids within the generation
			for i := 0; i < 90+n/40; i++ {
				size := []int{1, 2, 3, 4, 7, 16, 128}[r.Intn(7)]
				if i%15 == 14 {
					size = 128
				}
				pool := size + 1 + r.Intn(6)
				t := []string{"MS", "g" + vu.Itoa(size)}
				for g, gk := 0, 1+r.Intn(3); g < gk; g++ {
					t = append(t, ";", "T")
					var tb []string
					for id := 0; id < pool; id++ {
						if r.Intn(8) != 0 {
							tb = append(tb, vu.Itoa(id), vu.U64(uint64(1+r.Intn(50))))
						}
					}
					t = append(t, vu.Itoa(len(tb)/2))
					t = append(t, tb...)
					for h, hk := 0, 3+r.Intn(4); h < hk; h++ {
						ln := 1 + r.Intn(pool+2)
						if h == 0 { // walk through all ids once: the first ones are evicted
							ln = pool
						}
						t = append(t, ";", "H", vu.Itoa(ln))
						for x := 0; x < ln; x++ {
							if h == 0 {
								t = append(t, vu.Itoa(x))
							} else {
								t = append(t, vu.Itoa(r.Intn(pool)))
							}
						}
					}
				}
				emit(t...)
			}
			// the strategy handed out by a real QuorumIndexer (real vecfc index, small DAG), used before and
			// after own events
			for i := 0; i < 60+n/30; i++ {
				emit(c19GenQI(r)...)
			}
			// MetricStrategy.Choose called directly: duplicates, the empty list, all-zero and tied metrics
			for i := 0; i < n/4+20; i++ {
				pool := 1 + r.Intn(6)
				ln := r.Intn(9)
				if i < 3 {
					ln = 0
				}
				t := []string{"MC", vu.Itoa(ln)}
				for j := 0; j < ln; j++ {
					t = append(t, vu.Itoa(r.Intn(pool)))
				}
				var table [][2]uint64
				allZero := r.Intn(5) == 0
				for id := 0; id < pool; id++ {
					if r.Intn(4) == 0 {
						continue
					}
					v := c19Metric(r)
					if allZero {
						v = 0
					}
					table = append(table, [2]uint64{uint64(id), v})
				}
				t = append(t, vu.Itoa(len(table)))
				for _, kv := range table {
					t = append(t, vu.U64(kv[0]), vu.U64(kv[1]))
				}
				emit(t...)
			}
			for i := 0; i < n; i++ {
				pool := 2 + r.Intn(18)
				var existing, options []uint64
				for j, k := 0, r.Intn(4); j < k; j++ {
					existing = append(existing, uint64(r.Intn(pool)))
				}
				if r.Intn(4) != 0 { // mostly duplicate-free existing parents
					seen := map[uint64]bool{}
					var e2 []uint64
					for _, x := range existing {
						if !seen[x] {
							seen[x] = true
							e2 = append(e2, x)
						}
					}
					existing = e2
				}
				for j, k := 0, r.Intn(15); j < k; j++ {
					switch r.Intn(6) {
					case 0:
						if len(existing) > 0 { // overlap with existing
							options = append(options, existing[r.Intn(len(existing))])
							continue
						}
						fallthrough
					case 1:
						if len(options) > 0 { // duplicate
							options = append(options, options[r.Intn(len(options))])
							continue
						}
						fallthrough
					default:
						options = append(options, uint64(r.Intn(pool)))
					}
				}
				ns := r.Intn(7)
				if r.Intn(5) == 0 {
					ns = len(options) + r.Intn(3) // around the number of options
				}
				specs := make([]string, ns)
				allMetric := r.Intn(3) == 0
				for j := range specs {
					switch k := r.Intn(10); {
					case allMetric || k < 4:
						specs[j] = "M"
					case k < 6:
						specs[j] = "R" + strconv.Itoa(r.Intn(1000))
					case k < 9 || r.Intn(4) != 0:
						specs[j] = "I" + strconv.Itoa(r.Intn(20))
					default:
						specs[j] = "X" + strconv.Itoa(r.Intn(12))
					}
				}
				var table [][2]uint64
				tieAll := r.Intn(6) == 0
				tv := c19Metric(r)
				for id := 0; id < pool; id++ {
					if r.Intn(5) == 0 && !tieAll {
						continue // not listed: metric 0
					}
					v := c19Metric(r)
					if tieAll {
						v = tv
					}
					table = append(table, [2]uint64{uint64(id), v})
				}
				c19Emit(emit, existing, options, specs, table)
			}
		},
		Run: c19Run,
	})
}
