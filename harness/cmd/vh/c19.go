package main

import (
	"encoding/binary"
	"fmt"
	"math"
	"math/rand"
	"strconv"
	"strings"

	"github.com/Fantom-foundation/lachesis-base/emitter/ancestor"
	"github.com/Fantom-foundation/lachesis-base/hash"

	"verifharness/vu"
)

// C19: ChooseParents + MetricStrategy.
//   CP <ne> <existing ids> <no> <option ids> <ns> <strategy>*ns <nm> (<id> <metric>)*nm
//   strategy:  M          the real ancestor.MetricStrategy over the metric table (ids not listed: 0)
//              R<seed>    the real ancestor.RandomStrategy with a seeded PRNG
//              I<k>       scripted: answers k mod len(options)
//              X<k>       scripted: answers k as it is (may be out of range: index panic)
//   every strategy is wrapped by a recorder.
// Observation:  ( r <np> <parents shown> <n> <options shown> <index> )*  res ok|panic <n> <result ids>
// ids are small numbers, mapped to 32-byte hashes.

func c19Hash(k uint64) (h hash.Event) {
	binary.BigEndian.PutUint64(h[0:8], k*0x9E3779B97F4A7C15)
	binary.BigEndian.PutUint64(h[24:32], k)
	return
}

func c19ID(h hash.Event) uint64 { return binary.BigEndian.Uint64(h[24:32]) }

type c19Round struct {
	parents, opts []uint64
	idx           int
}

type c19Rec struct {
	inner ancestor.SearchStrategy
	log   *[]c19Round
}

func (s *c19Rec) Choose(existing hash.Events, options hash.Events) int {
	k := s.inner.Choose(existing, options)
	r := c19Round{idx: k}
	for _, h := range existing {
		r.parents = append(r.parents, c19ID(h))
	}
	for _, h := range options {
		r.opts = append(r.opts, c19ID(h))
	}
	*s.log = append(*s.log, r)
	return k
}

type c19Script struct {
	k   int
	raw bool
}

func (s *c19Script) Choose(_ hash.Events, options hash.Events) int {
	if s.raw {
		return s.k
	}
	return s.k % len(options)
}

// MC <n> <option ids (duplicates allowed, may be empty)> <nm> (<id> <metric>)*nm
//
//	-> calls ancestor.NewMetricStrategy(fn).Choose(nil, options) directly; observation: the index.
func c19RunMC(in []string) []string {
	p := 1
	num := func() uint64 {
		v, err := strconv.ParseUint(in[p], 10, 64)
		p++
		if err != nil {
			panic("c19: bad number")
		}
		return v
	}
	n := int(num())
	opts := make(hash.Events, 0, n)
	for i := 0; i < n; i++ {
		opts = append(opts, c19Hash(num()))
	}
	nm := int(num())
	table := map[hash.Event]ancestor.Metric{}
	for i := 0; i < nm; i++ {
		id := num()
		table[c19Hash(id)] = ancestor.Metric(num())
	}
	calls := 0
	st := ancestor.NewMetricStrategy(func(h hash.Event) ancestor.Metric { calls++; return table[h] })
	k := st.Choose(nil, opts)
	vu.Stat("mc.len=" + vu.Itoa(n))
	if calls != n {
		return []string{vu.Itoa(k), "calls=" + vu.Itoa(calls)}
	}
	return []string{vu.Itoa(k)}
}

func c19Run(in []string) []string {
	if in[0] == "MC" {
		return c19RunMC(in)
	}
	p := 1
	next := func() string { s := in[p]; p++; return s }
	num := func() uint64 {
		v, err := strconv.ParseUint(next(), 10, 64)
		if err != nil {
			panic("c19: bad number")
		}
		return v
	}
	nilArgs := in[0] == "CPN" // empty lists / no strategies are passed as nil slices
	ids := func() hash.Events {
		n := int(num())
		if n == 0 && nilArgs {
			return nil
		}
		hh := make(hash.Events, 0, n) // non-nil even when empty
		for i := 0; i < n; i++ {
			hh = append(hh, c19Hash(num()))
		}
		return hh
	}
	existing := ids()
	options := ids()
	ns := int(num())
	specs := make([]string, ns)
	for i := range specs {
		specs[i] = next()
	}
	nm := int(num())
	table := map[hash.Event]ancestor.Metric{}
	for i := 0; i < nm; i++ {
		id := num()
		table[c19Hash(id)] = ancestor.Metric(num())
	}
	var log []c19Round
	strategies := make([]ancestor.SearchStrategy, ns)
	if ns == 0 && nilArgs {
		strategies = nil
	}
	shared := map[string]ancestor.SearchStrategy{} // Q<seed>: ONE RandomStrategy object used at several positions
	for i, sp := range specs {
		var inner ancestor.SearchStrategy
		switch sp[0] {
		case 'M':
			inner = ancestor.NewMetricStrategy(func(h hash.Event) ancestor.Metric { return table[h] })
		case 'R':
			seed, _ := strconv.ParseInt(sp[1:], 10, 64)
			inner = ancestor.NewRandomStrategy(rand.New(rand.NewSource(seed)))
		case 'N': // NewRandomStrategy(nil): seeds itself from the clock
			inner = ancestor.NewRandomStrategy(nil)
		case 'Q':
			if shared[sp] == nil {
				seed, _ := strconv.ParseInt(sp[1:], 10, 64)
				shared[sp] = ancestor.NewRandomStrategy(rand.New(rand.NewSource(seed)))
			}
			inner = shared[sp]
		case 'I', 'X':
			k, _ := strconv.Atoi(sp[1:])
			inner = &c19Script{k: k, raw: sp[0] == 'X'}
		default:
			panic("c19: bad strategy")
		}
		vu.Stat("strategy=" + sp[:1])
		strategies[i] = &c19Rec{inner: inner, log: &log}
	}
	var res hash.Events
	status := "ok"
	func() {
		defer func() {
			if r := recover(); r != nil {
				if strings.Contains(fmt.Sprint(r), "index out of range") {
					status = "panic"
				} else {
					status = "otherpanic"
				}
				res = nil
			}
		}()
		exCopy := append(hash.Events{}, existing...)
		opCopy := append(hash.Events{}, options...)
		res = ancestor.ChooseParents(existing, options, strategies)
		// the arguments must not be modified
		for i := range exCopy {
			if exCopy[i] != existing[i] {
				status = "mutated-existing"
			}
		}
		for i := range opCopy {
			if opCopy[i] != options[i] {
				status = "mutated-options"
			}
		}
	}()
	var obs []string
	for _, r := range log {
		obs = append(obs, "r", vu.Itoa(len(r.parents)))
		for _, x := range r.parents {
			obs = append(obs, vu.U64(x))
		}
		obs = append(obs, vu.Itoa(len(r.opts)))
		for _, x := range r.opts {
			obs = append(obs, vu.U64(x))
		}
		obs = append(obs, vu.Itoa(r.idx))
	}
	obs = append(obs, "res", status, vu.Itoa(len(res)))
	for _, h := range res {
		obs = append(obs, vu.U64(c19ID(h)))
	}
	vu.Stat("rounds=" + vu.Itoa(len(log)))
	vu.Stat("res=" + status)
	// sweep counters
	if nilArgs {
		vu.Stat("sweep.nil_args")
	}
	if ns == 0 {
		vu.Stat("sweep.nstrat=0")
	}
	if len(options) == 0 {
		vu.Stat("sweep.nopt=0")
	}
	if len(options) > 255 {
		vu.Stat("sweep.nopt>255")
	}
	if len(options) > 65535 {
		vu.Stat("sweep.nopt>65535")
	}
	if len(existing) > ns && ns > 0 {
		vu.Stat("sweep.existing>nstrat")
	}
	if len(existing) == 0 {
		vu.Stat("sweep.nexisting=0")
	}
	for i, r := range log {
		if len(r.opts) == 1 && i < len(specs) && (specs[i][0] == 'R' || specs[i][0] == 'N' || specs[i][0] == 'Q') {
			vu.Stat("sweep.random_with_1_option")
		}
		if len(r.opts) > 255 {
			vu.Stat("sweep.choose_shown>255")
		}
	}
	for _, m := range table {
		switch {
		case m == 0:
			vu.Stat("sweep.metric=0")
		case m == 1<<63:
			vu.Stat("sweep.metric=2^63")
		case m == math.MaxUint64:
			vu.Stat("sweep.metric=maxuint64")
		}
	}
	if len(log) < ns && status == "ok" {
		vu.Stat("stopped_early")
	}
	return obs
}

func c19Emit(emit func(...string), existing, options []uint64, specs []string, table [][2]uint64) {
	c19EmitOp(emit, "CP", existing, options, specs, table)
}

func c19EmitOp(emit func(...string), op string, existing, options []uint64, specs []string, table [][2]uint64) {
	t := []string{op, vu.Itoa(len(existing))}
	for _, x := range existing {
		t = append(t, vu.U64(x))
	}
	t = append(t, vu.Itoa(len(options)))
	for _, x := range options {
		t = append(t, vu.U64(x))
	}
	t = append(t, vu.Itoa(len(specs)))
	t = append(t, specs...)
	t = append(t, vu.Itoa(len(table)))
	for _, kv := range table {
		t = append(t, vu.U64(kv[0]), vu.U64(kv[1]))
	}
	emit(t...)
}

func c19Metric(r *rand.Rand) uint64 {
	switch r.Intn(8) {
	case 0, 1:
		return 0
	case 2:
		return 1
	case 3:
		return 5
	case 4:
		return math.MaxUint64
	case 5:
		return math.MaxUint64 - 1
	case 6:
		return 1 << 63
	}
	return uint64(r.Intn(4))
}

func init() {
	vu.Register("C19", &vu.Prop{
		Gen: func(r *rand.Rand, n int, tier string, emit func(...string)) {
			if tier == "thorough" { // small scope: every existing/options list over a tiny id pool
				lists := func(pool, maxLen int) [][]uint64 {
					out := [][]uint64{{}}
					level := [][]uint64{{}}
					for l := 0; l < maxLen; l++ {
						var nxt [][]uint64
						for _, b := range level {
							for x := 0; x < pool; x++ {
								nxt = append(nxt, append(append([]uint64{}, b...), uint64(x)))
							}
						}
						out = append(out, nxt...)
						level = nxt
					}
					return out
				}
				kinds := []string{"I0", "I1", "M"}
				var strs [][]string
				strs = append(strs, []string{})
				for _, a := range kinds {
					strs = append(strs, []string{a})
					for _, b := range kinds {
						strs = append(strs, []string{a, b})
						for _, c := range kinds {
							strs = append(strs, []string{a, b, c})
						}
					}
				}
				table := [][2]uint64{{0, 0}, {1, 3}, {2, 3}, {3, 0}}
				for _, ex := range lists(3, 2) {
					for _, op := range lists(4, 3) {
						for _, st := range strs {
							c19Emit(emit, ex, op, st, table)
						}
					}
				}
			}
			// configuration / size sweep (always)
			{
				seqIDs := func(from, n int) []uint64 {
					l := make([]uint64, n)
					for i := range l {
						l[i] = uint64(from + i)
					}
					return l
				}
				big := [][2]uint64{{3, 1 << 63}, {4, math.MaxUint64}, {5, 1<<63 - 1}, {6, 0}, {7, 1}, {8, math.MaxUint64}, {299, 1 << 63}}
				for _, op := range []string{"CP", "CPN"} {
					c19EmitOp(emit, op, nil, nil, nil, nil)                                    // nothing at all
					c19EmitOp(emit, op, []uint64{1, 2}, nil, []string{"M", "R1"}, big)         // 0 options
					c19EmitOp(emit, op, []uint64{1, 2}, seqIDs(0, 9), nil, big)                // 0 strategies
					c19EmitOp(emit, op, nil, seqIDs(0, 9), []string{"M", "M", "R3", "N"}, big) // 0 existing
					c19EmitOp(emit, op, seqIDs(0, 9), seqIDs(0, 9), []string{"M", "I1"}, big)  // every option is an existing parent
				}
				c19Emit(emit, seqIDs(100, 6), seqIDs(0, 9), []string{"M"}, big) // existing longer than strategies
				c19Emit(emit, seqIDs(100, 12), seqIDs(0, 9), []string{"M", "R2"}, big)
				c19Emit(emit, []uint64{1}, []uint64{5}, []string{"R7", "R8"}, big) // RandomStrategy with 1 option
				c19Emit(emit, nil, []uint64{5, 5, 5}, []string{"N"}, big)
				c19Emit(emit, nil, []uint64{4, 6}, []string{"Q1", "Q1", "Q1"}, big) // one strategy object at three positions
				c19Emit(emit, nil, seqIDs(0, 20), []string{"Q9", "M", "Q9", "M", "Q9"}, big)
				for _, no := range []int{255, 256, 257, 300} { // more than 255 options
					c19Emit(emit, []uint64{1, 2, 3}, seqIDs(0, no), []string{"M", "I254", "I255", "R5", "M"}, big)
				}
				if tier == "thorough" { // more than 65535 options (model side is quadratic: one case)
					c19Emit(emit, []uint64{1}, seqIDs(0, 66000), []string{"M"}, big)
				}
				// MetricStrategy directly, metrics at the uint64 / int64 sign boundary
				for _, l := range [][]uint64{{3, 5}, {5, 3}, {4, 3}, {3, 4}, {3, 6}, {6, 3}, {4, 8}, {8, 4, 3}, {3, 3}, {6, 6}, {7, 3, 4}, {5, 6, 7}} {
					t := []string{"MC", vu.Itoa(len(l))}
					for _, x := range l {
						t = append(t, vu.U64(x))
					}
					t = append(t, vu.Itoa(len(big)))
					for _, kv := range big {
						t = append(t, vu.U64(kv[0]), vu.U64(kv[1]))
					}
					emit(t...)
				}
			}
			// MetricStrategy.Choose called directly: duplicates, the empty list, all-zero and tied metrics
			for i := 0; i < n/4+20; i++ {
				pool := 1 + r.Intn(6)
				ln := r.Intn(9)
				if i < 3 {
					ln = 0
				}
				t := []string{"MC", vu.Itoa(ln)}
				for j := 0; j < ln; j++ {
					t = append(t, vu.Itoa(r.Intn(pool)))
				}
				var table [][2]uint64
				allZero := r.Intn(5) == 0
				for id := 0; id < pool; id++ {
					if r.Intn(4) == 0 {
						continue
					}
					v := c19Metric(r)
					if allZero {
						v = 0
					}
					table = append(table, [2]uint64{uint64(id), v})
				}
				t = append(t, vu.Itoa(len(table)))
				for _, kv := range table {
					t = append(t, vu.U64(kv[0]), vu.U64(kv[1]))
				}
				emit(t...)
			}
			for i := 0; i < n; i++ {
				pool := 2 + r.Intn(18)
				var existing, options []uint64
				for j, k := 0, r.Intn(4); j < k; j++ {
					existing = append(existing, uint64(r.Intn(pool)))
				}
				if r.Intn(4) != 0 { // mostly duplicate-free existing parents
					seen := map[uint64]bool{}
					var e2 []uint64
					for _, x := range existing {
						if !seen[x] {
							seen[x] = true
							e2 = append(e2, x)
						}
					}
					existing = e2
				}
				for j, k := 0, r.Intn(15); j < k; j++ {
					switch r.Intn(6) {
					case 0:
						if len(existing) > 0 { // overlap with existing
							options = append(options, existing[r.Intn(len(existing))])
							continue
						}
						fallthrough
					case 1:
						if len(options) > 0 { // duplicate
							options = append(options, options[r.Intn(len(options))])
							continue
						}
						fallthrough
					default:
						options = append(options, uint64(r.Intn(pool)))
					}
				}
				ns := r.Intn(7)
				if r.Intn(5) == 0 {
					ns = len(options) + r.Intn(3) // around the number of options
				}
				specs := make([]string, ns)
				allMetric := r.Intn(3) == 0
				for j := range specs {
					switch k := r.Intn(10); {
					case allMetric || k < 4:
						specs[j] = "M"
					case k < 6:
						specs[j] = "R" + strconv.Itoa(r.Intn(1000))
					case k < 9 || r.Intn(4) != 0:
						specs[j] = "I" + strconv.Itoa(r.Intn(20))
					default:
						specs[j] = "X" + strconv.Itoa(r.Intn(12))
					}
				}
				var table [][2]uint64
				tieAll := r.Intn(6) == 0
				tv := c19Metric(r)
				for id := 0; id < pool; id++ {
					if r.Intn(5) == 0 && !tieAll {
						continue // not listed: metric 0
					}
					v := c19Metric(r)
					if tieAll {
						v = tv
					}
					table = append(table, [2]uint64{uint64(id), v})
				}
				c19Emit(emit, existing, options, specs, table)
			}
		},
		Run: c19Run,
	})
}
