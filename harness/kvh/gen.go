package kvh

import (
	"math/rand"
	"strconv"
	"strings"
)

// Alphabet of colliding key bytes (DESIGN §5 C22): 00 01 61 fe ff.
var Alphabet = []string{"00", "01", "61", "fe", "ff"}

// RandKey returns a key token of length 0..maxLen over the alphabet.
func RandKey(r *rand.Rand, maxLen int) string {
	n := r.Intn(maxLen + 1)
	if n == 0 {
		return "-"
	}
	var sb strings.Builder
	for i := 0; i < n; i++ {
		sb.WriteString(Alphabet[r.Intn(len(Alphabet))])
	}
	return sb.String()
}

func cat(a, b string) string {
	if a == "-" || a == "~" {
		a = ""
	}
	if b == "-" || b == "~" {
		b = ""
	}
	if a+b == "" {
		return "-"
	}
	return a + b
}

var values = []string{"-", "-", "00", "61", "ff", "6162", "00ff", "ff00ff", "01"}

// GenCfg describes one family of histories.
type GenCfg struct {
	Header     []string // base + layers (bottom-up)
	Handles    []string // handle tokens used for reads and writes
	NOps       int
	Live       bool   // also keep iterators alive across writes (C22 scope note)
	Compact    bool   // emit compact ops (C24)
	BigValues  bool   // occasionally write ~60 KB values so that Flush splits its batch
	SweepPairs int    // number of (prefix,start) iterations appended at the end
	KeyHints   []string // byte strings (hex) that keys at lower levels should often start with
	Reopen     bool     // engine bases: occasionally close and reopen the engine mid-history
	ECompact   bool     // occasionally forward a Compact to the engine (observing nil / error)
	Stat       bool     // occasionally ask for a Stat property (observing nil / error)
}

// lazyDepths returns the depths of the "z" (LazyFlushable) layers of a header.
func lazyDepths(header []string) []int {
	var out []int
	n := len(header)
	for i, l := range header {
		if i > 0 && l == "z" {
			out = append(out, n-1-i)
		}
	}
	return out
}

// flushDepths returns the depths (0 = top) of the "f" layers of a header.
func flushDepths(header []string) []int {
	var out []int
	n := len(header) // levels = n (base + layers); top depth 0 = last layer
	for i, l := range header {
		if i > 0 && (l == "f" || l == "z") {
			out = append(out, n-1-i)
		}
	}
	return out
}

// Gen emits one history as an input token list.
func Gen(r *rand.Rand, c GenCfg) []string {
	out := append([]string{}, c.Header...)
	emit := func(t ...string) {
		out = append(out, ";")
		out = append(out, t...)
	}
	// key pool: small, so that keys collide
	pool := make([]string, 0, 10)
	for i := 0; i < 4+r.Intn(6); i++ {
		k := RandKey(r, 3)
		if len(c.KeyHints) > 0 && r.Intn(3) == 0 {
			k = cat(c.KeyHints[r.Intn(len(c.KeyHints))], RandKey(r, 2))
		}
		pool = append(pool, k)
	}
	key := func() string {
		if r.Intn(8) == 0 {
			return RandKey(r, 3)
		}
		return pool[r.Intn(len(pool))]
	}
	val := func() string {
		if c.BigValues && r.Intn(4) == 0 {
			return "*" + strconv.Itoa(40000+r.Intn(30000)) + "*" + Alphabet[r.Intn(len(Alphabet))]
		}
		return values[r.Intn(len(values))]
	}
	okey := func(maxLen int) string {
		switch r.Intn(6) {
		case 0:
			return "~"
		case 1:
			return "-"
		case 2:
			k := key()
			if len(k) > 2*maxLen {
				k = k[:2*maxLen]
			}
			return k
		}
		return RandKey(r, maxLen)
	}
	handle := func() string { return c.Handles[r.Intn(len(c.Handles))] }
	fds := flushDepths(c.Header)
	lds := lazyDepths(c.Header)
	if len(lds) > 0 {
		// the produced store is usually NOT empty (a database re-opened after a restart): populate
		// the level below the lazy layer before anything else, then InitUnderlyingDb at an arbitrary point
		below := strconv.Itoa(lds[0] + 1)
		for j := r.Intn(5); j > 0; j-- {
			emit("put", below, key(), val())
		}
	}
	type bstate struct{ bound, written bool }
	bs := [2]bstate{}
	nsnap := 0
	nlive := 0
	for i := 0; i < c.NOps; i++ {
		if len(lds) > 0 && r.Intn(12) == 0 {
			emit("init", strconv.Itoa(lds[r.Intn(len(lds))]))
			continue
		}
		if c.Reopen && nsnap == 0 && nlive == 0 && r.Intn(40) == 0 {
			emit("reopen")
			continue
		}
		if c.Stat && r.Intn(40) == 0 {
			emit("stat", handle(), strconv.Itoa(r.Intn(7)))
			continue
		}
		if c.ECompact && r.Intn(60) == 0 {
			if r.Intn(2) == 0 {
				emit("ecompact", handle(), "~", "~")
			} else {
				emit("ecompact", handle(), okey(2), okey(2))
			}
			continue
		}
		if c.Live && r.Intn(20) == 0 {
			// an iterator created now and drained after reads / flushes / drops only
			id := strconv.Itoa(2 + r.Intn(2))
			emit("lit", id, handle(), okey(1), okey(1))
			if r.Intn(2) == 0 {
				emit("lnext", id, strconv.Itoa(1+r.Intn(2)))
			}
			for j := r.Intn(3); j >= 0; j-- {
				switch y := r.Intn(4); {
				case y == 0 && len(fds) > 0:
					emit("flush", strconv.Itoa(fds[r.Intn(len(fds))]))
				case y == 1 && len(fds) > 0:
					emit("drop", strconv.Itoa(fds[r.Intn(len(fds))]))
				case y == 2:
					emit("it", handle(), okey(2), okey(2))
				default:
					emit("get", handle(), key())
				}
			}
			emit("lnext", id, "100")
			emit("lrel", id)
			continue
		}
		x := r.Intn(100)
		switch {
		case x < 22:
			emit("put", handle(), key(), val())
		case x < 30:
			emit("del", handle(), key())
		case x < 40:
			emit("get", handle(), key())
		case x < 45:
			emit("has", handle(), key())
		case x < 57:
			emit("it", handle(), okey(2), okey(2))
		case x < 72: // batch activity
			b := r.Intn(2)
			bt := strconv.Itoa(b)
			if !bs[b].bound || r.Intn(25) == 0 {
				emit("bnew", bt, handle())
				bs[b] = bstate{bound: true}
				break
			}
			if bs[b].written {
				if r.Intn(3) == 0 {
					emit("brep", bt)
				} else {
					emit("breset", bt)
					bs[b].written = false
				}
				break
			}
			if o := 1 - b; bs[o].bound && !bs[o].written && r.Intn(3) == 0 {
				// Replay into the OTHER batch (same table, unrelated table, a table whose prefix extends or
				// is a prefix of this one's, a plain store's batch), then usually write the destination
				emit("brepto", bt, strconv.Itoa(o))
				if r.Intn(2) == 0 {
					emit("bwrite", strconv.Itoa(o))
					bs[o].written = true
				}
				break
			}
			switch y := r.Intn(20); {
			case y < 10:
				emit("bput", bt, key(), val())
			case y < 14:
				emit("bdel", bt, key())
			case y < 17:
				emit("bwrite", bt)
				bs[b].written = true
			case y < 19:
				emit("brep", bt)
			default:
				emit("breset", bt)
			}
		case x < 80:
			if len(fds) > 0 {
				d := strconv.Itoa(fds[r.Intn(len(fds))])
				switch y := r.Intn(10); {
				case y < 5:
					emit("flush", d)
				case y < 7:
					emit("drop", d)
				default:
					emit("nfp", d)
				}
			} else {
				emit("get", handle(), key())
			}
		case x < 84:
			if nsnap < 3 {
				emit("snap", handle())
				nsnap++
			} else {
				emit("sit", strconv.Itoa(r.Intn(nsnap)), okey(2), okey(2))
			}
		case x < 92:
			if nsnap > 0 {
				i := strconv.Itoa(r.Intn(nsnap))
				switch r.Intn(3) {
				case 0:
					emit("sget", i, key())
				case 1:
					emit("shas", i, key())
				default:
					emit("sit", i, okey(2), okey(2))
				}
			} else {
				emit("has", handle(), key())
			}
		case x < 96:
			if c.Compact {
				if r.Intn(3) > 0 {
					emit("compact", handle(), "~", "~")
				} else {
					emit("compact", handle(), okey(2), okey(2))
				}
			} else {
				emit("get", handle(), key())
			}
		default:
			if c.Live {
				id := strconv.Itoa(r.Intn(2))
				switch r.Intn(4) {
				case 0:
					emit("lit", id, handle(), okey(1), okey(1))
					nlive++
				case 3:
					emit("lrel", id)
				default:
					emit("lnext", id, strconv.Itoa(1+r.Intn(3)))
				}
			} else {
				emit("it", handle(), okey(2), okey(2))
			}
		}
	}
	// final sweep: reads of every pool key and a sample of (prefix,start) pairs on every handle
	for _, h := range c.Handles {
		for _, k := range pool {
			emit("get", h, k)
		}
	}
	for i := 0; i < c.SweepPairs; i++ {
		emit("it", handle(), okey(2), okey(2))
	}
	for i := 0; i < nsnap; i++ {
		emit("sit", strconv.Itoa(i), "~", "~")
	}
	for _, d := range fds {
		emit("nfp", strconv.Itoa(d))
	}
	return out
}

// AllOKeys lists every prefix/start token over the alphabet up to length maxLen, plus nil.
func AllOKeys(maxLen int) []string {
	out := []string{"~", "-"}
	cur := []string{""}
	for l := 1; l <= maxLen; l++ {
		var next []string
		for _, p := range cur {
			for _, a := range Alphabet {
				next = append(next, p+a)
			}
		}
		out = append(out, next...)
		cur = next
	}
	return out
}
