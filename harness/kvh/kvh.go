// Package kvh interprets the KV operation language of coq/spec/KvOps.v on the REAL kvdb
// stores of lachesis-base (shared by the C22, C23 and C24 harnesses).
//
// A case is   <base> <layer>* ; op ; op ; ...
//   base:   mem | ldb | pbl            (memorydb, leveldb in a temp dir, pebble in a temp dir;
//           ldb! / pbl! = a fresh instance opened for this history only and removed afterwards,
//           ldb / pbl = an instance kept open, wiped and verified empty before the history)
//   layer:  t<hex> (table.New(x, prefix); "t-" = empty prefix) | f (flushable.Wrap) | s (synced.WrapStore)
//           | z (flushable.NewLazy whose producer returns the store below)
//           layers are listed bottom-up; depth 0 is the top of the stack.
//   handle: <depth>[/<hex>]*           (extra table wrappers created on the fly: table.New(level, p1).NewTable(p2)...)
//   ops:    put h k v | del h k | get h k | has h k | it h prefix start
//           bnew b h | bput b k v | bdel b k | bwrite b | breset b | brep b
//           flush d | drop d | nfp d | snap h | sget i k | shas i k | sit i prefix start
//           compact h start limit
//           lit id h prefix start | lnext id n | lrel id      (iterator kept alive across later ops)
//   bytes:  hex, "-" = empty non-nil, "~" = nil (prefix/start/limit only), "*<n>*<hh>" = n copies of byte hh
// Observations (flat token list): G <val|~> | H 0/1 | I n (k v)* | R n (P k v | D k)* | N n | C lo hi | X
//   | L n (k v)* for lnext | ERR:<op> when the implementation returned an error.
package kvh

import (
	"fmt"
	"os"
	"strconv"
	"strings"
	"sync"

	"github.com/Fantom-foundation/lachesis-base/kvdb"
	"github.com/Fantom-foundation/lachesis-base/kvdb/flushable"
	"github.com/Fantom-foundation/lachesis-base/kvdb/leveldb"
	"github.com/Fantom-foundation/lachesis-base/kvdb/memorydb"
	"github.com/Fantom-foundation/lachesis-base/kvdb/pebble"
	"github.com/Fantom-foundation/lachesis-base/kvdb/synced"
	"github.com/Fantom-foundation/lachesis-base/kvdb/table"
)

// ---------- tokens ----------

// Bytes parses a byte-string token; nil for "~".
func Bytes(s string) []byte {
	if s == "~" {
		return nil
	}
	if s == "-" {
		return []byte{}
	}
	if strings.HasPrefix(s, "*") {
		parts := strings.Split(s[1:], "*")
		n, _ := strconv.Atoi(parts[0])
		var b byte
		fmt.Sscanf(parts[1], "%02x", &b)
		out := make([]byte, n)
		for i := range out {
			out[i] = b
		}
		return out
	}
	b := make([]byte, len(s)/2)
	for i := range b {
		v, _ := strconv.ParseUint(s[2*i:2*i+2], 16, 8)
		b[i] = byte(v)
	}
	return b
}

// Tok renders a non-nil byte string (long uniform strings compactly).
func Tok(b []byte) string {
	if len(b) == 0 {
		return "-"
	}
	if len(b) > 32 {
		same := true
		for _, x := range b {
			if x != b[0] {
				same = false
				break
			}
		}
		if same {
			return fmt.Sprintf("*%d*%02x", len(b), b[0])
		}
	}
	return fmt.Sprintf("%x", b)
}

// OTok renders a possibly-nil byte string.
func OTok(b []byte) string {
	if b == nil {
		return "~"
	}
	return Tok(b)
}

// ---------- recording base (captures Compact ranges; everything else is forwarded) ----------

type recStore struct {
	kvdb.Store
	lo, hi []byte
}

func (r *recStore) Compact(start []byte, limit []byte) error {
	r.lo, r.hi = start, limit
	return nil
}

// ---------- persistent engines are reused across histories (opening pebble dominates) ----------

type engine struct {
	db  kvdb.Store
	dir string
}

var (
	engMu   sync.Mutex
	engines = map[string]*engine{}
)

func tmpRoot() string {
	d := os.Getenv("TMPDIR")
	if d == "" {
		d = os.TempDir()
	}
	return d
}

func openEngine(kind string) *engine {
	dir, err := os.MkdirTemp(tmpRoot(), "vh-kv-"+kind+"-")
	if err != nil {
		panic(err)
	}
	var db kvdb.Store
	switch kind {
	case "ldb":
		db, err = leveldb.New(dir, 64*1024*1024, 0, nil, nil)
	case "pbl":
		db, err = pebble.New(dir, 64*1024*1024, 0, nil, nil)
	}
	if err != nil {
		os.RemoveAll(dir)
		panic(err)
	}
	return &engine{db: db, dir: dir}
}

func (e *engine) close() {
	_ = e.db.Close()
	os.RemoveAll(e.dir)
}

// wipe deletes every key; returns false if the store is not empty afterwards.
func (e *engine) wipe() bool {
	it := e.db.NewIterator(nil, nil)
	var keys [][]byte
	for it.Next() {
		keys = append(keys, append([]byte{}, it.Key()...))
	}
	it.Release()
	for _, k := range keys {
		if e.db.Delete(k) != nil {
			return false
		}
	}
	it = e.db.NewIterator(nil, nil)
	empty := !it.Next()
	it.Release()
	return empty
}

// Reuse controls whether leveldb/pebble instances are kept open and wiped between histories
// (sound: a history starts from a store verified to be empty) or re-created per history.
var Reuse = true

func acquire(kind string) *engine {
	if !Reuse {
		return openEngine(kind)
	}
	engMu.Lock()
	defer engMu.Unlock()
	e := engines[kind]
	if e != nil {
		if e.wipe() {
			return e
		}
		e.close()
	}
	e = openEngine(kind)
	engines[kind] = e
	return e
}

func release(e *engine) {
	if !Reuse {
		e.close()
	}
}

// Teardown closes and removes every engine kept for reuse.
func Teardown() {
	engMu.Lock()
	defer engMu.Unlock()
	for k, e := range engines {
		e.close()
		delete(engines, k)
	}
}

// ---------- the stack ----------

type flusher interface {
	Flush() error
	DropNotFlushed()
	NotFlushedPairs() int
	NotFlushedSizeEst() int
}

type Stack struct {
	levels []kvdb.Store // index 0 = top
	flus   map[int]flusher
	rec    *recStore
	eng    *engine
	fresh  bool
}

func Build(header []string) *Stack {
	s := &Stack{flus: map[int]flusher{}}
	var base kvdb.Store
	switch header[0] {
	case "mem":
		base = memorydb.New()
	case "ldb", "pbl":
		s.eng = acquire(header[0])
		base = s.eng.db
	case "ldb!", "pbl!": // a fresh instance in its own temp dir, closed and removed after this history
		s.eng = openEngine(header[0][:3])
		s.fresh = true
		base = s.eng.db
	default:
		panic("bad base " + header[0])
	}
	s.rec = &recStore{Store: base}
	bottomUp := []kvdb.Store{s.rec}
	var flus []flusher
	flus = append(flus, nil)
	cur := kvdb.Store(s.rec)
	for _, l := range header[1:] {
		switch {
		case l == "f":
			f := flushable.Wrap(cur)
			cur = f
			flus = append(flus, f)
		case l == "z":
			below := cur
			f := flushable.NewLazy(func() (kvdb.Store, error) { return below, nil }, nil)
			cur = f
			flus = append(flus, f)
		case l == "s":
			cur = synced.WrapStore(cur, new(sync.RWMutex)) // one mutex per synced layer (sharing one would self-deadlock)
			flus = append(flus, nil)
		case strings.HasPrefix(l, "t"):
			cur = table.New(cur, Bytes(l[1:]))
			flus = append(flus, nil)
		default:
			panic("bad layer " + l)
		}
		bottomUp = append(bottomUp, cur)
	}
	n := len(bottomUp)
	s.levels = make([]kvdb.Store, n)
	for i, x := range bottomUp {
		s.levels[n-1-i] = x
		if flus[i] != nil {
			s.flus[n-1-i] = flus[i]
		}
	}
	return s
}

func (s *Stack) Close() {
	if s.eng != nil {
		if s.fresh {
			s.eng.close()
		} else {
			release(s.eng)
		}
	}
}

func (s *Stack) handle(tok string) kvdb.Store {
	parts := strings.Split(tok, "/")
	d, err := strconv.Atoi(parts[0])
	if err != nil || d < 0 || d >= len(s.levels) {
		panic("bad handle " + tok)
	}
	cur := s.levels[d]
	for i, p := range parts[1:] {
		if i == 0 {
			cur = table.New(cur, Bytes(p))
		} else {
			cur = cur.(*table.Table).NewTable(Bytes(p))
		}
	}
	return cur
}

type recorder struct{ out []string }

func (r *recorder) Put(k, v []byte) error {
	r.out = append(r.out, "P", Tok(k), Tok(v))
	return nil
}
func (r *recorder) Delete(k []byte) error {
	r.out = append(r.out, "D", Tok(k))
	return nil
}

func drain(it kvdb.Iterator, max int) (out []string, n int, err error) {
	for (max < 0 || n < max) && it.Next() {
		out = append(out, Tok(append([]byte{}, it.Key()...)), Tok(append([]byte{}, it.Value()...)))
		n++
	}
	return out, n, it.Error()
}

// Run executes the ops and returns the observation tokens.  stat is called with op kinds and
// a few behaviour markers.
func (s *Stack) Run(ops [][]string, stat func(string)) (obs []string) {
	// A batch slot remembers its handle and its operations so that the harness stays total on
	// arbitrary (e.g. shrunk) histories: an unbound slot behaves as a batch on handle "0", and a
	// batch touched again after Write without Reset is rebuilt from its recorded operations
	// (pebble panics with "batch already applied" otherwise; generated histories always Reset).
	type bslot struct {
		b       kvdb.Batch
		h       string
		ops     [][]string
		written bool
	}
	slots := map[string]*bslot{}
	slot := func(id string, forWrite bool) *bslot {
		sl := slots[id]
		if sl == nil {
			sl = &bslot{h: "0"}
			sl.b = s.handle(sl.h).NewBatch()
			slots[id] = sl
		}
		if forWrite && sl.written {
			stat("batch_rebuilt")
			sl.b = s.handle(sl.h).NewBatch()
			for _, o := range sl.ops {
				if o[0] == "P" {
					_ = sl.b.Put(Bytes(o[1]), Bytes(o[2]))
				} else {
					_ = sl.b.Delete(Bytes(o[1]))
				}
			}
			sl.written = false
		}
		return sl
	}
	var snaps []kvdb.Snapshot
	live := map[string]kvdb.Iterator{}
	defer func() {
		for _, it := range live {
			it.Release()
		}
		for _, sn := range snaps {
			sn.Release()
		}
	}()
	fail := func(op string, err error) {
		if err != nil {
			obs = append(obs, "ERR:"+op)
			stat("error")
		}
	}
	for _, o := range ops {
		if len(o) == 0 {
			continue
		}
		stat("op_" + o[0])
		switch o[0] {
		case "put":
			if len(o[3]) > 0 && o[3][0] == '*' {
				stat("put_big_value")
			}
			fail("put", s.handle(o[1]).Put(Bytes(o[2]), Bytes(o[3])))
		case "del":
			fail("del", s.handle(o[1]).Delete(Bytes(o[2])))
		case "get":
			v, err := s.handle(o[1]).Get(Bytes(o[2]))
			fail("get", err)
			obs = append(obs, "G", OTok(v))
			if v != nil {
				stat("get_found")
				if len(v) == 0 {
					stat("get_empty_value")
				}
			}
		case "has":
			b, err := s.handle(o[1]).Has(Bytes(o[2]))
			fail("has", err)
			if b {
				obs = append(obs, "H", "1")
			} else {
				obs = append(obs, "H", "0")
			}
		case "it":
			it := s.handle(o[1]).NewIterator(Bytes(o[2]), Bytes(o[3]))
			kv, n, err := drain(it, -1)
			it.Release()
			fail("it", err)
			obs = append(obs, "I", strconv.Itoa(n))
			obs = append(obs, kv...)
			if n > 0 {
				stat("it_nonempty")
			}
		case "bnew":
			slots[o[1]] = &bslot{b: s.handle(o[2]).NewBatch(), h: o[2]}
		case "bput":
			sl := slot(o[1], true)
			fail("bput", sl.b.Put(Bytes(o[2]), Bytes(o[3])))
			sl.ops = append(sl.ops, []string{"P", o[2], o[3]})
		case "bdel":
			sl := slot(o[1], true)
			fail("bdel", sl.b.Delete(Bytes(o[2])))
			sl.ops = append(sl.ops, []string{"D", o[2]})
		case "bwrite":
			sl := slot(o[1], true)
			fail("bwrite", sl.b.Write())
			sl.written = true
		case "breset":
			sl := slot(o[1], false)
			sl.b.Reset()
			sl.ops, sl.written = nil, false
		case "brep":
			r := &recorder{}
			fail("brep", slot(o[1], false).b.Replay(r))
			n := 0
			for _, t := range r.out {
				if t == "P" || t == "D" {
					n++
				}
			}
			// count ops, not tokens: P/D markers can also be... no: keys are hex, never "P"/"D"
			obs = append(obs, "R", strconv.Itoa(n))
			obs = append(obs, r.out...)
		case "flush":
			d, _ := strconv.Atoi(o[1])
			if f := s.flus[d]; f != nil {
				if f.NotFlushedPairs() > 0 {
					stat("flush_nonempty")
				}
				if f.NotFlushedSizeEst() > kvdb.IdealBatchSize {
					stat("flush_splits_batch")
				}
				fail("flush", f.Flush())
			}
		case "drop":
			d, _ := strconv.Atoi(o[1])
			if f := s.flus[d]; f != nil {
				f.DropNotFlushed()
			}
		case "nfp":
			d, _ := strconv.Atoi(o[1])
			if f := s.flus[d]; f != nil {
				obs = append(obs, "N", strconv.Itoa(f.NotFlushedPairs()))
			} else {
				obs = append(obs, "X")
			}
		case "snap":
			sn, err := s.handle(o[1]).GetSnapshot()
			fail("snap", err)
			snaps = append(snaps, sn)
		case "sget", "shas", "sit":
			i, _ := strconv.Atoi(o[1])
			if i < 0 || i >= len(snaps) {
				obs = append(obs, "X")
				break
			}
			sn := snaps[i]
			switch o[0] {
			case "sget":
				v, err := sn.Get(Bytes(o[2]))
				fail("sget", err)
				obs = append(obs, "G", OTok(v))
			case "shas":
				b, err := sn.Has(Bytes(o[2]))
				fail("shas", err)
				if b {
					obs = append(obs, "H", "1")
				} else {
					obs = append(obs, "H", "0")
				}
			case "sit":
				it := sn.NewIterator(Bytes(o[2]), Bytes(o[3]))
				kv, n, err := drain(it, -1)
				it.Release()
				fail("sit", err)
				obs = append(obs, "I", strconv.Itoa(n))
				obs = append(obs, kv...)
			}
		case "compact":
			s.rec.lo, s.rec.hi = []byte("unset"), []byte("unset")
			fail("compact", s.handle(o[1]).Compact(Bytes(o[2]), Bytes(o[3])))
			if string(s.rec.lo) == "unset" && string(s.rec.hi) == "unset" {
				obs = append(obs, "C", "!", "!") // the request never reached the base
			} else {
				obs = append(obs, "C", OTok(s.rec.lo), OTok(s.rec.hi))
			}
		case "lit":
			if old := live[o[1]]; old != nil {
				old.Release()
			}
			live[o[1]] = s.handle(o[2]).NewIterator(Bytes(o[3]), Bytes(o[4]))
		case "lnext":
			it := live[o[1]]
			if it == nil {
				obs = append(obs, "X")
				break
			}
			max, _ := strconv.Atoi(o[2])
			kv, n, err := drain(it, max)
			fail("lnext", err)
			obs = append(obs, "L", strconv.Itoa(n))
			obs = append(obs, kv...)
		case "lrel":
			if it := live[o[1]]; it != nil {
				it.Release()
				delete(live, o[1])
			}
		default:
			panic("bad op " + o[0])
		}
	}
	return obs
}

// Split cuts an input token list at ";" into header and ops.
func Split(input []string) (header []string, ops [][]string) {
	var cur []string
	first := true
	for _, t := range input {
		if t == ";" {
			if first {
				header, first = cur, false
			} else {
				ops = append(ops, cur)
			}
			cur = nil
		} else {
			cur = append(cur, t)
		}
	}
	if first {
		header = cur
	} else if len(cur) > 0 {
		ops = append(ops, cur)
	}
	return
}

// RunCase = Split + Build + Run + Close.
func RunCase(input []string, stat func(string)) []string {
	header, ops := Split(input)
	s := Build(header)
	defer s.Close()
	stat("base_" + header[0])
	return s.Run(ops, stat)
}
