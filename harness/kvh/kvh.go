// Package kvh interprets the KV operation language of coq/spec/KvOps.v on the REAL kvdb
// stores of lachesis-base (shared by the C22, C23 and C24 harnesses).
//
// A case is   <base> <layer>* ; op ; op ; ...
//   base:   mem | ldb | pbl            (memorydb, leveldb in a temp dir, pebble in a temp dir;
//           ldb! / pbl! = a fresh instance opened for this history only and removed afterwards,
//           ldb / pbl = an instance kept open, wiped and verified empty before the history;
//           ldb!<v> / pbl!<v> choose constructor options, see freshEngine; mem! = memorydb through
//           memorydb.NewProducer with a shared namespace)
//   layer:  t<hex> (table.New(x, prefix); "t-" = empty prefix) | f (flushable.Wrap) | s (synced.WrapStore)
//           | z (flushable.NewLazy whose producer returns the store below)
//           layers are listed bottom-up; depth 0 is the top of the stack.
//   handle: <depth>[/<hex>]*           (extra table wrappers created on the fly: table.New(level, p1).NewTable(p2)...)
//   ops:    put h k v | del h k | get h k | has h k | it h prefix start
//           bnew b h | bput b k v | bdel b k | bwrite b | breset b | brep b | brepto b1 b2 (b1.Replay(b2))
//           init d (LazyFlushable.InitUnderlyingDb) | flush d | drop d | nfp d | snap h | sget i k | shas i k | sit i prefix start
//           compact h start limit      (range recorded at the base, not forwarded)
//           ecompact h start limit     (forwarded to the engine: observation E ok|err)
//           stat h <n>                 (Stat(property n): observation S ok|err)
//           reopen                     (engine bases: Close, reopen the same directory; skipped while
//                                       snapshots or live iterators of this history are outstanding)
//           lit id h prefix start | lnext id n | lrel id      (iterator kept alive across later ops)
//   bytes:  hex, "-" = empty non-nil, "~" = nil (prefix/start/limit only), "*<n>*<hh>" = n copies of byte hh
// Observations (flat token list): G <val|~> | H 0/1 | I n (k v)* | R n (P k v | D k)* | N n | C lo hi | X
//   | L n (k v)* for lnext | ERR:<op> when the implementation returned an error
//   | ALIAS:<op> when an operation wrote into (or around) a byte slice passed to it.
// Every key / value / prefix / start / bound is handed to the store as a sub-slice of a larger
// buffer (spare capacity filled with 0xEE); after the call the buffer must be unchanged, and it is
// then overwritten, so a store that kept a reference to its argument is exposed as well.
// Handles are created once per history and reused (sibling sub-tables of one parent coexist).
package kvh

import (
	"fmt"
	"os"
	"strconv"
	"strings"
	"sync"

	"github.com/Fantom-foundation/lachesis-base/kvdb"
	"github.com/Fantom-foundation/lachesis-base/kvdb/flushable"
	"github.com/Fantom-foundation/lachesis-base/kvdb/leveldb"
	"github.com/Fantom-foundation/lachesis-base/kvdb/memorydb"
	"github.com/Fantom-foundation/lachesis-base/kvdb/pebble"
	"github.com/Fantom-foundation/lachesis-base/kvdb/synced"
	"github.com/Fantom-foundation/lachesis-base/kvdb/table"
)

// ---------- tokens ----------

// Bytes parses a byte-string token; nil for "~".
func Bytes(s string) []byte {
	if s == "~" {
		return nil
	}
	if s == "-" {
		return []byte{}
	}
	if strings.HasPrefix(s, "*") {
		parts := strings.Split(s[1:], "*")
		n, _ := strconv.Atoi(parts[0])
		var b byte
		fmt.Sscanf(parts[1], "%02x", &b)
		out := make([]byte, n)
		for i := range out {
			out[i] = b
		}
		return out
	}
	b := make([]byte, len(s)/2)
	for i := range b {
		v, _ := strconv.ParseUint(s[2*i:2*i+2], 16, 8)
		b[i] = byte(v)
	}
	return b
}

// Tok renders a non-nil byte string (long uniform strings compactly).
func Tok(b []byte) string {
	if len(b) == 0 {
		return "-"
	}
	if len(b) > 32 {
		same := true
		for _, x := range b {
			if x != b[0] {
				same = false
				break
			}
		}
		if same {
			return fmt.Sprintf("*%d*%02x", len(b), b[0])
		}
	}
	return fmt.Sprintf("%x", b)
}

// OTok renders a possibly-nil byte string.
func OTok(b []byte) string {
	if b == nil {
		return "~"
	}
	return Tok(b)
}

// ---------- recording base (captures Compact ranges; everything else is forwarded) ----------

type recStore struct {
	kvdb.Store
	lo, hi  []byte
	forward bool
}

func (r *recStore) Compact(start []byte, limit []byte) error {
	if r.forward {
		return r.Store.Compact(start, limit)
	}
	r.lo, r.hi = append([]byte(nil), start...), append([]byte(nil), limit...)
	if start == nil {
		r.lo = nil
	} else if len(start) == 0 {
		r.lo = []byte{}
	}
	if limit == nil {
		r.hi = nil
	} else if len(limit) == 0 {
		r.hi = []byte{}
	}
	return nil
}

// ---------- persistent engines are reused across histories (opening pebble dominates) ----------

type engine struct {
	db   kvdb.Store
	dir  string
	dead bool // could not be reopened / closed cleanly: never reused
}

var nsCounter int

var (
	engMu   sync.Mutex
	engines = map[string]*engine{}
)

func tmpRoot() string {
	d := os.Getenv("TMPDIR")
	if d == "" {
		d = os.TempDir()
	}
	return d
}

func openEngine(kind string) *engine {
	dir, err := os.MkdirTemp(tmpRoot(), "vh-kv-"+kind+"-")
	if err != nil {
		panic(err)
	}
	var db kvdb.Store
	switch kind {
	case "ldb":
		db, err = leveldb.New(dir, 64*1024*1024, 0, nil, nil)
	case "pbl":
		db, err = pebble.New(dir, 64*1024*1024, 0, nil, nil)
	}
	if err != nil {
		os.RemoveAll(dir)
		panic(err)
	}
	return &engine{db: db, dir: dir}
}

// freshEngine opens an engine for one history with one of several constructor configurations:
//   0: through <pkg>.NewProducer(datadir, getCacheFdLimit).OpenDB, cache 0 / fds 0 (minimums)
//   1: through the producer, cache 12 MiB + 1 (a joint of adjustCache), fds 1
//   2: New(path, 1 GiB, 1000, close, drop) with both callbacks set
//   3: New(path, 1, 16, nil, nil)
//   4: New(path, 153 MiB, 15, close, nil)
// and remembers what must hold when it is closed and dropped (checked in finish).
type freshInfo struct {
	variant     int
	names       func() []string
	closeCalls  int
	dropCalls   int
	hasCloseFn  bool
	hasDropFn   bool
	viaProducer bool
}

func freshEngine(kind string, variant int, stat func(string)) (*engine, *freshInfo) {
	root, err := os.MkdirTemp(tmpRoot(), "vh-kv-"+kind+"-")
	if err != nil {
		panic(err)
	}
	fi := &freshInfo{variant: variant}
	stat(fmt.Sprintf("engine_%s_variant_%d", kind, variant))
	var db kvdb.Store
	path := root + "/db"
	closeFn := func() error { fi.closeCalls++; return nil }
	dropFn := func() { fi.dropCalls++ }
	open := func(cache, fds int, cf func() error, df func()) (kvdb.Store, error) {
		if err := os.MkdirAll(path, 0700); err != nil {
			return nil, err
		}
		fi.hasCloseFn, fi.hasDropFn = cf != nil, df != nil
		if kind == "ldb" {
			return leveldb.New(path, cache, fds, cf, df)
		}
		return pebble.New(path, cache, fds, cf, df)
	}
	switch variant {
	case 0, 1:
		cache, fds := 0, 0
		if variant == 1 {
			cache, fds = 12*1024*1024+1, 1
		}
		limits := func(string) (int, int) { return cache, fds }
		var p kvdb.IterableDBProducer
		if kind == "ldb" {
			p = leveldb.NewProducer(root, limits)
		} else {
			p = pebble.NewProducer(root, limits)
		}
		fi.viaProducer, fi.names = true, p.Names
		db, err = p.OpenDB("db")
	case 2:
		db, err = open(1<<30, 1000, closeFn, dropFn)
	case 3:
		db, err = open(1, 16, nil, nil)
	default:
		db, err = open(153*1024*1024, 15, closeFn, nil)
	}
	if err != nil {
		os.RemoveAll(root)
		panic(err)
	}
	return &engine{db: db, dir: root}, fi
}

func mustPanic(what string, f func()) {
	defer func() {
		if recover() == nil {
			panic("expected a panic: " + what)
		}
	}()
	f()
}

// finish closes and drops a fresh engine, checking the second-use contracts of leveldb.go/pebble.go:
// Drop before Close panics, Close runs the close callback once, a second Close panics, Drop runs the
// drop callback once / removes the producer's directory.
func (fi *freshInfo) finish(e *engine, stat func(string)) {
	type dropper interface{ Drop() }
	if e.dead {
		os.RemoveAll(e.dir)
		return
	}
	if fi.viaProducer {
		found := false
		for _, n := range fi.names() {
			found = found || n == "db"
		}
		if !found {
			panic("producer.Names() does not list the open database")
		}
	}
	mustPanic("Drop before Close", func() { e.db.(dropper).Drop() })
	if err := e.db.Close(); err != nil {
		panic("Close: " + err.Error())
	}
	if fi.hasCloseFn && fi.closeCalls != 1 {
		panic("close callback calls = " + strconv.Itoa(fi.closeCalls))
	}
	mustPanic("second Close", func() { _ = e.db.Close() })
	e.db.(dropper).Drop()
	if fi.hasDropFn && fi.dropCalls != 1 {
		panic("drop callback calls = " + strconv.Itoa(fi.dropCalls))
	}
	if fi.viaProducer {
		if _, err := os.Stat(e.dir + "/db"); err == nil {
			panic("producer drop left the directory")
		}
		for _, n := range fi.names() {
			if n == "db" {
				panic("producer.Names() lists a dropped database")
			}
		}
	}
	stat("engine_close_drop_checked")
	os.RemoveAll(e.dir)
}

func openAt(kind, dir string) (kvdb.Store, error) {
	switch kind {
	case "ldb":
		return leveldb.New(dir, 64*1024*1024, 0, nil, nil)
	case "pbl":
		return pebble.New(dir, 64*1024*1024, 0, nil, nil)
	}
	return nil, fmt.Errorf("bad engine kind %s", kind)
}

func (e *engine) reopenPath() string {
	if _, err := os.Stat(e.dir + "/db"); err == nil {
		return e.dir + "/db"
	}
	return e.dir
}

func (e *engine) reopen(kind string) (err error) {
	defer func() {
		if r := recover(); r != nil {
			e.dead = true
			err = fmt.Errorf("%v", r)
		}
	}()
	if err = e.db.Close(); err != nil {
		e.dead = true
		return err
	}
	db, err := openAt(kind, e.reopenPath())
	if err != nil {
		e.dead = true
		return err
	}
	e.db = db
	return nil
}

func (e *engine) close() {
	func() {
		defer func() { _ = recover() }()
		if !e.dead {
			_ = e.db.Close()
		}
	}()
	os.RemoveAll(e.dir)
}

// wipe deletes every key; returns false if the store is not empty afterwards.
func (e *engine) wipe() (ok bool) {
	defer func() {
		if r := recover(); r != nil {
			ok = false
		}
	}()
	if e.dead {
		return false
	}
	it := e.db.NewIterator(nil, nil)
	var keys [][]byte
	for it.Next() {
		keys = append(keys, append([]byte{}, it.Key()...))
	}
	it.Release()
	for _, k := range keys {
		if e.db.Delete(k) != nil {
			return false
		}
	}
	it = e.db.NewIterator(nil, nil)
	empty := !it.Next()
	it.Release()
	return empty
}

// Reuse controls whether leveldb/pebble instances are kept open and wiped between histories
// (sound: a history starts from a store verified to be empty) or re-created per history.
var Reuse = true

func acquire(kind string) *engine {
	if !Reuse {
		return openEngine(kind)
	}
	engMu.Lock()
	defer engMu.Unlock()
	e := engines[kind]
	if e != nil {
		if e.wipe() {
			return e
		}
		e.close()
	}
	e = openEngine(kind)
	engines[kind] = e
	return e
}

func release(e *engine) {
	if !Reuse {
		e.close()
	}
}

// Teardown closes and removes every engine kept for reuse.
func Teardown() {
	engMu.Lock()
	defer engMu.Unlock()
	for k, e := range engines {
		e.close()
		delete(engines, k)
	}
}

// ---------- the stack ----------

type flusher interface {
	Flush() error
	DropNotFlushed()
	NotFlushedPairs() int
	NotFlushedSizeEst() int
}

type initer interface {
	InitUnderlyingDb() (kvdb.Store, error)
}

type Stack struct {
	levels []kvdb.Store // index 0 = top
	flus   map[int]flusher
	rec    *recStore
	eng    *engine
	kind   string
	fresh  bool
	finfo  *freshInfo
	hcache map[string]kvdb.Store
	shared sync.RWMutex // one mutex shared by every extra synced wrapper of the history
	stat   func(string)
	memNS  *memNS
}

// memory base through memorydb.NewProducer: two producers of one namespace share the fake FS
type memNS struct {
	ns     string
	p1, p2 kvdb.IterableDBProducer
}

func Build(header []string, stat func(string)) *Stack {
	s := &Stack{flus: map[int]flusher{}, hcache: map[string]kvdb.Store{}, stat: stat}
	var base kvdb.Store
	switch header[0] {
	case "mem":
		base = memorydb.New()
	case "ldb", "pbl":
		s.eng = acquire(header[0])
		s.kind = header[0]
		base = s.eng.db
	case "mem!":
		nsCounter++
		ns := "vh-ns-" + strconv.Itoa(nsCounter)
		m := &memNS{ns: ns, p1: memorydb.NewProducer(ns), p2: memorydb.NewProducer(ns)}
		db1, _ := m.p1.OpenDB("a")
		db2, _ := m.p2.OpenDB("a")
		db3, _ := memorydb.NewProducer("").OpenDB("a")
		if db1 != db2 {
			panic("two producers of one namespace opened different stores")
		}
		if db1 == db3 {
			panic("a producer with an empty namespace shares its store")
		}
		if n := m.p2.Names(); len(n) != 1 || n[0] != "a" {
			panic("memorydb producer Names()")
		}
		s.memNS = m
		base = db1
		stat("mem_producer_namespace")
	default:
		if len(header[0]) == 5 && header[0][3] == '!' && (header[0][:3] == "ldb" || header[0][:3] == "pbl") {
			s.kind = header[0][:3]
			s.eng, s.finfo = freshEngine(s.kind, int(header[0][4]-'0'), stat)
			s.fresh = true
			base = s.eng.db
			break
		}
		panic("bad base " + header[0])
	}
	s.rec = &recStore{Store: base}
	bottomUp := []kvdb.Store{s.rec}
	var flus []flusher
	flus = append(flus, nil)
	cur := kvdb.Store(s.rec)
	for _, l := range header[1:] {
		switch {
		case l == "f":
			f := flushable.Wrap(cur)
			cur = f
			flus = append(flus, f)
		case l == "z":
			below := cur
			f := flushable.NewLazy(func() (kvdb.Store, error) { return below, nil }, nil)
			cur = f
			flus = append(flus, f)
		case l == "s":
			cur = synced.WrapStore(cur, new(sync.RWMutex)) // one mutex per synced layer (sharing one would self-deadlock)
			flus = append(flus, nil)
		case strings.HasPrefix(l, "t"):
			prefixVariant++
			cur = table.New(cur, prefixSlice(Bytes(l[1:]), prefixVariant))
			flus = append(flus, nil)
		default:
			panic("bad layer " + l)
		}
		bottomUp = append(bottomUp, cur)
	}
	n := len(bottomUp)
	s.levels = make([]kvdb.Store, n)
	for i, x := range bottomUp {
		s.levels[n-1-i] = x
		if flus[i] != nil {
			s.flus[n-1-i] = flus[i]
		}
	}
	return s
}

func (s *Stack) Close() {
	if s.eng != nil {
		if s.fresh {
			s.finfo.finish(s.eng, s.stat)
		} else {
			release(s.eng)
		}
	}
	if s.memNS != nil {
		// second use of the memory producer: Close then Drop removes the store from the namespace
		type closeDropper interface {
			Close() error
			Drop()
		}
		db, _ := s.memNS.p1.OpenDB("a")
		if err := db.(closeDropper).Close(); err != nil {
			panic("memorydb Close: " + err.Error())
		}
		db.(closeDropper).Drop()
		if n := s.memNS.p2.Names(); len(n) != 0 {
			panic("memorydb producer lists a dropped store")
		}
		s.stat("mem_producer_close_drop")
	}
}

// spare returns b as a slice with unused capacity behind it (an append on it writes in place).
func spare(b []byte) []byte {
	return prefixSlice(b, 1)
}

var prefixVariant int

// prefixSlice builds a table prefix the way callers do: 0 literal (exact capacity), 1 make+append with
// spare capacity, 2 a sub-slice of a larger buffer (followed by other bytes), 3 a string conversion.
// table.New keeps the slice it is given (no copy), so the harness never modifies it afterwards.
func prefixSlice(b []byte, variant int) []byte {
	if b == nil {
		return nil
	}
	switch variant % 4 {
	case 0:
		return append([]byte{}, b...)[:len(b):len(b)]
	case 1:
		buf := make([]byte, 0, len(b)+1+prefixVariant%16)
		return append(buf, b...)
	case 2:
		buf := make([]byte, len(b)+8)
		copy(buf, b)
		for i := len(b); i < len(buf); i++ {
			buf[i] = 0xEE
		}
		return buf[:len(b)]
	default:
		return []byte(string(b))
	}
}

// handle resolves a handle token; the store object is created on first use and kept for the rest
// of the history, a nested table is derived from its (kept) parent with NewTable.
func (s *Stack) handle(tok string) kvdb.Store {
	if h, ok := s.hcache[tok]; ok {
		return h
	}
	i := strings.LastIndex(tok, "/")
	var h kvdb.Store
	if i < 0 {
		d, err := strconv.Atoi(tok)
		if err != nil || d < 0 || d >= len(s.levels) {
			panic("bad handle " + tok)
		}
		h = s.levels[d]
	} else {
		parent := s.handle(tok[:i])
		prefixVariant++
		prefix := prefixSlice(Bytes(tok[i+1:]), prefixVariant)
		s.stat("table_prefix_variant_" + strconv.Itoa(prefixVariant%4))
		if t, ok := parent.(*table.Table); ok {
			// a sub-table of a kept parent table: siblings are derived from the SAME parent object
			h = t.NewTable(prefix)
			s.stat("newtable_sibling")
		} else {
			h = table.New(parent, prefix)
		}
	}
	s.hcache[tok] = h
	return h
}

// guard hands out byte-string arguments as sub-slices of larger buffers and checks afterwards that
// the callee left them alone.
type guard struct {
	buf  []byte
	orig []byte
}

type guards struct{ gs []guard }

func (g *guards) arg(tok string) []byte {
	b := Bytes(tok)
	if b == nil {
		return nil
	}
	buf := make([]byte, len(b)+8)
	copy(buf, b)
	for i := len(b); i < len(buf); i++ {
		buf[i] = 0xEE
	}
	g.gs = append(g.gs, guard{buf: buf, orig: append([]byte{}, b...)})
	return buf[:len(b)]
}

// intact reports whether every buffer is unchanged.
func (g *guards) intact() bool {
	for _, x := range g.gs {
		n := len(x.orig)
		if string(x.buf[:n]) != string(x.orig) {
			return false
		}
		for _, c := range x.buf[n:] {
			if c != 0xEE {
				return false
			}
		}
	}
	return true
}

// scribble overwrites the buffers (the callee must not depend on them any more) and forgets them.
func (g *guards) scribble() {
	for _, x := range g.gs {
		for i := range x.buf {
			x.buf[i] = 0xEE
		}
	}
	g.gs = nil
}

type recorder struct{ out []string }

func (r *recorder) Put(k, v []byte) error {
	r.out = append(r.out, "P", Tok(k), Tok(v))
	return nil
}
func (r *recorder) Delete(k []byte) error {
	r.out = append(r.out, "D", Tok(k))
	return nil
}

func drain(it kvdb.Iterator, max int) (out []string, n int, err error) {
	for (max < 0 || n < max) && it.Next() {
		out = append(out, Tok(append([]byte{}, it.Key()...)), Tok(append([]byte{}, it.Value()...)))
		n++
	}
	return out, n, it.Error()
}

// Run executes the ops and returns the observation tokens.  stat is called with op kinds and
// a few behaviour markers.
func (s *Stack) Run(ops [][]string, stat func(string)) (obs []string) {
	// A batch slot remembers its handle and its operations so that the harness stays total on
	// arbitrary (e.g. shrunk) histories: an unbound slot behaves as a batch on handle "0", and a
	// batch touched again after Write without Reset (or after an engine reopen) is rebuilt from
	// its recorded operations (pebble panics with "batch already applied" otherwise; generated
	// histories always Reset).
	type bslot struct {
		b       kvdb.Batch
		h       string
		ops     [][]string
		written bool
		stale   bool // the engine below was reopened: the batch object belongs to the closed instance
	}
	type liveIt struct {
		it kvdb.Iterator
		g  *guards
	}
	slots := map[string]*bslot{}
	var snaps []kvdb.Snapshot
	live := map[string]*liveIt{}
	defer func() {
		for _, l := range live {
			l.it.Release()
		}
		for _, sn := range snaps {
			sn.Release()
		}
	}()
	var g guards
	slot := func(id string, forWrite bool) *bslot {
		sl := slots[id]
		if sl == nil {
			sl = &bslot{h: "0"}
			sl.b = s.handle(sl.h).NewBatch()
			slots[id] = sl
		}
		if (forWrite && sl.written) || sl.stale {
			stat("batch_rebuilt")
			sl.b = s.handle(sl.h).NewBatch()
			for _, o := range sl.ops {
				if o[0] == "P" {
					_ = sl.b.Put(Bytes(o[1]), Bytes(o[2]))
				} else {
					_ = sl.b.Delete(Bytes(o[1]))
				}
			}
			sl.written, sl.stale = false, false
		}
		return sl
	}
	fail := func(op string, err error) {
		if err != nil {
			obs = append(obs, "ERR:"+op)
			stat("error")
		}
	}
	// done checks the argument buffers of the operation just executed, then overwrites them
	done := func(op string) {
		if !g.intact() {
			obs = append(obs, "ALIAS:"+op)
			stat("alias")
		}
		g.scribble()
	}
	// ethdb.Iterator: "Release ... can be called multiple times without causing error": every iterator
	// is released twice; a panic on the second call is counted, not judged (outside the properties)
	release2 := func(it kvdb.Iterator, where string) {
		it.Release()
		func() {
			defer func() {
				if recover() != nil {
					stat("double_release_panics_" + where)
				}
			}()
			it.Release()
			stat("double_release_ok")
		}()
	}
	_ = release2
	opno := 0
	// every third read goes through an extra synced.WrapIteratedReader sharing one mutex with all
	// other extra synced wrappers of the history (identity on values)
	reader := func(tok string) kvdb.IteratedReader {
		opno++
		h := s.handle(tok)
		if opno%3 == 0 {
			stat("synced_iterated_reader")
			return synced.WrapIteratedReader(h, &s.shared)
		}
		return h
	}
	tableTok := func(tok string) bool {
		if strings.Contains(tok, "/") {
			return true
		}
		d, _ := strconv.Atoi(tok)
		if d >= 0 && d < len(s.levels) {
			_, ok := s.levels[d].(*table.Table)
			return ok
		}
		return false
	}
	hasB := func(b bool) string {
		if b {
			return "1"
		}
		return "0"
	}
	for _, o := range ops {
		if len(o) == 0 {
			continue
		}
		stat("op_" + o[0])
		switch o[0] {
		case "put":
			if len(o[3]) > 0 && o[3][0] == '*' {
				stat("put_big_value")
			}
			if o[2] == "-" && tableTok(o[1]) {
				stat("table_empty_key_put")
			}
			fail("put", s.handle(o[1]).Put(g.arg(o[2]), g.arg(o[3])))
			done("put")
		case "del":
			fail("del", s.handle(o[1]).Delete(g.arg(o[2])))
			done("del")
		case "get":
			v, err := reader(o[1]).Get(g.arg(o[2]))
			fail("get", err)
			obs = append(obs, "G", OTok(v))
			done("get")
			if v != nil {
				stat("get_found")
				if len(v) == 0 {
					stat("get_empty_value")
				}
			}
		case "has":
			b, err := reader(o[1]).Has(g.arg(o[2]))
			fail("has", err)
			obs = append(obs, "H", hasB(b))
			done("has")
		case "it":
			var kv []string
			var n int
			var err error
			func() {
				it := reader(o[1]).NewIterator(g.arg(o[2]), g.arg(o[3]))
				defer release2(it, "it") // also when draining panics: a leaked iterator blocks engine Close
				kv, n, err = drain(it, -1)
			}()
			if n > 0 && kv[0] == "-" && tableTok(o[1]) {
				stat("table_iter_empty_key")
			}
			fail("it", err)
			obs = append(obs, "I", strconv.Itoa(n))
			obs = append(obs, kv...)
			done("it")
			if n > 0 {
				stat("it_nonempty")
			}
		case "bnew":
			slots[o[1]] = &bslot{b: s.handle(o[2]).NewBatch(), h: o[2]}
		case "bput":
			sl := slot(o[1], true)
			fail("bput", sl.b.Put(g.arg(o[2]), g.arg(o[3])))
			done("bput")
			sl.ops = append(sl.ops, []string{"P", o[2], o[3]})
		case "bdel":
			sl := slot(o[1], true)
			fail("bdel", sl.b.Delete(g.arg(o[2])))
			done("bdel")
			sl.ops = append(sl.ops, []string{"D", o[2]})
		case "bwrite":
			sl := slot(o[1], true)
			fail("bwrite", sl.b.Write())
			sl.written = true
		case "breset":
			sl := slot(o[1], false)
			sl.b.Reset()
			sl.ops, sl.written = nil, false
		case "brepto":
			src := slot(o[1], true)
			dst := slot(o[2], true)
			if src == dst {
				stat("brepto_self_skipped") // replaying a batch into itself mutates it while it is read
				break
			}
			fail("brepto", src.b.Replay(dst.b))
			dst.ops = append(dst.ops, src.ops...)
			stat("brepto")
		case "brep":
			r := &recorder{}
			fail("brep", slot(o[1], true).b.Replay(r))
			n := 0
			for _, t := range r.out {
				if t == "P" || t == "D" { // keys and values are hex: never "P" / "D"
					n++
				}
			}
			obs = append(obs, "R", strconv.Itoa(n))
			obs = append(obs, r.out...)
			for i, t := range r.out {
				if (t == "P" || t == "D") && r.out[i+1] == "-" && tableTok(slot(o[1], false).h) {
					stat("table_replay_empty_key")
				}
			}
		case "flush":
			d, _ := strconv.Atoi(o[1])
			if f := s.flus[d]; f != nil {
				if f.NotFlushedPairs() > 0 {
					stat("flush_nonempty")
				}
				if f.NotFlushedSizeEst() > kvdb.IdealBatchSize {
					stat("flush_over_ideal_batch_size")
				}
				fail("flush", f.Flush())
			}
		case "init":
			d, _ := strconv.Atoi(o[1])
			if l, ok := s.flus[d].(initer); ok {
				_, err := l.InitUnderlyingDb()
				fail("init", err)
				stat("lazy_init")
			}
		case "drop":
			d, _ := strconv.Atoi(o[1])
			if f := s.flus[d]; f != nil {
				f.DropNotFlushed()
			}
		case "nfp":
			d, _ := strconv.Atoi(o[1])
			if f := s.flus[d]; f != nil {
				obs = append(obs, "N", strconv.Itoa(f.NotFlushedPairs()))
			} else {
				obs = append(obs, "X")
			}
		case "snap":
			sn, err := s.handle(o[1]).GetSnapshot()
			fail("snap", err)
			if len(snaps)%2 == 1 && err == nil {
				sn = synced.WrapSnapshot(sn, &s.shared)
				stat("synced_wrap_snapshot")
			}
			snaps = append(snaps, sn)
		case "sget", "shas", "sit":
			i, _ := strconv.Atoi(o[1])
			if i < 0 || i >= len(snaps) {
				obs = append(obs, "X")
				break
			}
			sn := snaps[i]
			switch o[0] {
			case "sget":
				v, err := sn.Get(g.arg(o[2]))
				fail("sget", err)
				obs = append(obs, "G", OTok(v))
			case "shas":
				b, err := sn.Has(g.arg(o[2]))
				fail("shas", err)
				obs = append(obs, "H", hasB(b))
			case "sit":
				var kv []string
				var n int
				var err error
				func() {
					it := sn.NewIterator(g.arg(o[2]), g.arg(o[3]))
					defer release2(it, "sit")
					kv, n, err = drain(it, -1)
				}()
				fail("sit", err)
				obs = append(obs, "I", strconv.Itoa(n))
				obs = append(obs, kv...)
			}
			done(o[0])
		case "compact":
			s.rec.lo, s.rec.hi = []byte("unset"), []byte("unset")
			fail("compact", s.handle(o[1]).Compact(g.arg(o[2]), g.arg(o[3])))
			if string(s.rec.lo) == "unset" && string(s.rec.hi) == "unset" {
				obs = append(obs, "C", "!", "!") // the request never reached the base
			} else {
				obs = append(obs, "C", OTok(s.rec.lo), OTok(s.rec.hi))
			}
			done("compact")
		case "ecompact":
			s.rec.forward = true
			err := s.handle(o[1]).Compact(g.arg(o[2]), g.arg(o[3]))
			s.rec.forward = false
			if err != nil {
				obs = append(obs, "E", "err")
				stat("ecompact_err")
			} else {
				obs = append(obs, "E", "ok")
			}
			done("ecompact")
		case "stat":
			props := []string{"disk.size", "stats", "iostats", "async_flush", "sync_flush", "alivesnaps"}
			n, _ := strconv.Atoi(o[2])
			prop := "no-such-property"
			if n < len(props) {
				prop = props[n]
			}
			if _, err := s.handle(o[1]).Stat(prop); err != nil {
				obs = append(obs, "S", "err")
			} else {
				obs = append(obs, "S", "ok")
			}
		case "reopen":
			if s.eng == nil || len(snaps) > 0 || len(live) > 0 {
				stat("reopen_skipped")
				break
			}
			if err := s.eng.reopen(s.kind); err != nil {
				panic("reopen: " + err.Error())
			}
			s.rec.Store = s.eng.db
			if s.finfo != nil { // the reopened instance has no callbacks and was not opened by the producer
				s.finfo.hasCloseFn, s.finfo.hasDropFn, s.finfo.viaProducer = false, false, false
			}
			for _, sl := range slots { // engine batches of the closed instance are dead: rebuild lazily
				sl.stale = true
			}
			stat("reopened")
		case "lit":
			if old := live[o[1]]; old != nil {
				old.it.Release()
				old.g.scribble()
			}
			lg := &guards{}
			it := s.handle(o[2]).NewIterator(lg.arg(o[3]), lg.arg(o[4]))
			if !lg.intact() {
				obs = append(obs, "ALIAS:lit")
				stat("alias")
			}
			live[o[1]] = &liveIt{it: it, g: lg}
		case "lnext":
			l := live[o[1]]
			if l == nil {
				obs = append(obs, "X")
				break
			}
			max, _ := strconv.Atoi(o[2])
			kv, n, err := drain(l.it, max)
			fail("lnext", err)
			obs = append(obs, "L", strconv.Itoa(n))
			obs = append(obs, kv...)
		case "lrel":
			if l := live[o[1]]; l != nil {
				l.it.Release()
				if !l.g.intact() {
					obs = append(obs, "ALIAS:lrel")
					stat("alias")
				}
				l.g.scribble()
				delete(live, o[1])
			}
		default:
			panic("bad op " + o[0])
		}
	}
	return obs
}

// Split cuts an input token list at ";" into header and ops.
func Split(input []string) (header []string, ops [][]string) {
	var cur []string
	first := true
	for _, t := range input {
		if t == ";" {
			if first {
				header, first = cur, false
			} else {
				ops = append(ops, cur)
			}
			cur = nil
		} else {
			cur = append(cur, t)
		}
	}
	if first {
		header = cur
	} else if len(cur) > 0 {
		ops = append(ops, cur)
	}
	return
}

// RunCase = Split + Build + Run + Close.
func RunCase(input []string, stat func(string)) []string {
	header, ops := Split(input)
	s := Build(header, stat)
	defer s.Close()
	stat("base_" + header[0])
	return s.Run(ops, stat)
}
