package abfth

import (
	"encoding/binary"
	"fmt"
	"strconv"
	"strings"

	"github.com/Fantom-foundation/lachesis-base/hash"
	"github.com/Fantom-foundation/lachesis-base/inter/dag/tdag"
	"github.com/Fantom-foundation/lachesis-base/inter/idx"
	"github.com/Fantom-foundation/lachesis-base/inter/pos"
)

// Case format (one line, groups separated by ";"):
//   <mix> <fccap> <rootsNum> <rootsFrames> <epoch0>
//   ; V id w id w ...                      genesis validators (Builder.Set calls)
//   ; S epoch block id w ...               sealing rule
//   ; E i epoch creator seq lamport frame p1 p2 ...   event definition (parents = event numbers, self-parent first)
//   ; P i | X i f | B ep cr seq lam p.. | b ep cr seq lam p.. | R | RESET ep id w .. | M i | G f
//   ; r                                    restart that re-uses the application's vecfc index object (R creates a fresh one)
//   ; L mode n [flags]                     (header group) ApplyEvent listener policy: 0 every block, 1 from block n on, 2 odd blocks,
//                                          3 no BeginBlock callback at all; flags 1: nil EndBlock on non-sealing blocks, 2: one-byte vector caches,
//                                          4: index over a custom vecengine.Engine with Callbacks.OnDropNotFlushed nil (vector caches off),
//                                          8: production-size vector caches, 16: name-keyed persistent epoch DB producer
//   ; W                                    Store.GetValidators (ids and weights in canonical order)
//   ; Q i j                                ForklessCause(event i, event j) asked of the instance's index
//   ; Y n ep cr seq lam frame p..          Process of an inline "ghost" event (id tail n) that is defined nowhere else
//   ; ALTFROM ep id w ..                   (C09 only; no-op marker) the reference instance starts here
// The second (reference) instance of the differential properties is DERIVED from the op list:
//   C07: the ops without the injected ones (b, X);  C08: without R;
//   C09: RESET <args of ALTFROM> followed by the ops after the marker.
// Observation: one group per operation, "||" between the two instances.

// EvDef is an event definition of the case file.
type EvDef struct {
	N                                    int
	Epoch, Creator, Seq, Lamport, Frame uint32
	Parents                              []int
}

// Tail is the 24-byte id tail of event number n: 0x80 00.. <n as 8 bytes BE>.
func Tail(n int) (t [24]byte) {
	t[0] = 0x80
	binary.BigEndian.PutUint64(t[16:], uint64(n))
	return t
}

// Scenario is a parsed case.
type Scenario struct {
	Mix    string
	Cfg    Cfg
	Epoch0 uint32
	Vals   []VW
	Policy []SealRule
	ListenMode, ListenN int // "L mode n": which blocks get an ApplyEvent listener (see inst.go Listens)
	Flags               int // "L mode n flags": 1 = nil EndBlock on non-sealing blocks, 2 = one-byte vector caches
	Groups [][]string // everything after the header, in order (E definitions and ops, "ALT")
}

func pu(s string) uint32 { v, _ := strconv.ParseUint(s, 10, 32); return uint32(v) }

func parseVW(t []string) []VW {
	var out []VW
	for i := 0; i+1 < len(t); i += 2 {
		out = append(out, VW{pu(t[i]), pu(t[i+1])})
	}
	return out
}

// Parse splits the input tokens of a case.
func Parse(in []string) *Scenario {
	var groups [][]string
	cur := []string{}
	for _, t := range in {
		if t == ";" {
			groups = append(groups, cur)
			cur = []string{}
		} else {
			cur = append(cur, t)
		}
	}
	groups = append(groups, cur)
	sc := &Scenario{Epoch0: 1}
	h := groups[0]
	if len(h) >= 5 {
		sc.Mix = h[0]
		sc.Cfg = Cfg{FcCap: int(pu(h[1])), RootsNum: uint(pu(h[2])), RootsFrames: int(pu(h[3]))}
		sc.Epoch0 = pu(h[4])
	}
	for _, g := range groups[1:] {
		if len(g) == 0 {
			continue
		}
		switch g[0] {
		case "V":
			sc.Vals = parseVW(g[1:])
		case "L":
			if len(g) >= 3 {
				sc.ListenMode, sc.ListenN = int(pu(g[1])), int(pu(g[2]))
				if len(g) >= 4 {
					sc.Flags = int(pu(g[3]))
				}
			}
		case "S":
			if len(g) >= 3 {
				sc.Policy = append(sc.Policy, SealRule{Epoch: pu(g[1]), Block: int(pu(g[2])), Vals: parseVW(g[3:])})
			}
		default:
			sc.Groups = append(sc.Groups, g)
		}
	}
	return sc
}

type runner struct {
	sc   *Scenario
	defs map[int]*EvDef
	ids  map[int]hash.Event
	num  map[hash.Event]int
}

func (r *runner) define(g []string) {
	if len(g) < 7 {
		return
	}
	d := &EvDef{N: int(pu(g[1])), Epoch: pu(g[2]), Creator: pu(g[3]), Seq: pu(g[4]), Lamport: pu(g[5]), Frame: pu(g[6])}
	for _, p := range g[7:] {
		pn := int(pu(p))
		if _, ok := r.defs[pn]; !ok {
			return // a parent is undefined: the event is undefined
		}
		d.Parents = append(d.Parents, pn)
	}
	if _, dup := r.defs[d.N]; dup {
		return
	}
	r.defs[d.N] = d
	e := r.mk(d, d.Frame)
	r.ids[d.N] = e.ID()
	r.num[e.ID()] = d.N
}

func (r *runner) mk(d *EvDef, frame uint32) *tdag.TestEvent {
	e := &tdag.TestEvent{}
	e.SetEpoch(idx.Epoch(d.Epoch))
	e.SetCreator(idx.ValidatorID(d.Creator))
	e.SetSeq(idx.Event(d.Seq))
	e.SetLamport(idx.Lamport(d.Lamport))
	e.SetFrame(idx.Frame(frame))
	ps := hash.Events{}
	for _, p := range d.Parents {
		ps = append(ps, r.ids[p])
	}
	e.SetParents(ps)
	e.SetID(Tail(d.N))
	return e
}

func (r *runner) evname(h hash.Event) string {
	if n, ok := r.num[h]; ok {
		return strconv.Itoa(n)
	}
	return "?" + h.String()
}

func (r *runner) blocksTok(bl []BlockObs) []string {
	var out []string
	for _, b := range bl {
		var ch, dl []string
		for _, c := range b.Cheaters {
			ch = append(ch, fmt.Sprint(uint32(c)))
		}
		for _, d := range b.Delivered {
			dl = append(dl, r.evname(d))
		}
		seal := "-"
		if b.Seal != nil {
			var vs []string
			for i, id := range b.Seal.SortedIDs() {
				vs = append(vs, fmt.Sprintf("%d:%d", uint32(id), uint32(b.Seal.GetWeightByIdx(idx.Validator(i)))))
			}
			seal = "S" + strings.Join(vs, ",")
		}
		dtok := "d" + strings.Join(dl, ",")
		if !b.Listened {
			dtok = "dX" // no ApplyEvent listener for this block: nothing observed
		}
		out = append(out, "A"+r.evname(b.Atropos), "c"+strings.Join(ch, ","), dtok, seal)
	}
	return out
}

// AltGroups derives the op list of the reference instance (nil = none).
func AltGroups(mix string, groups [][]string) [][]string {
	var out [][]string
	switch mix {
	case "C07":
		for _, g := range groups {
			if g[0] != "b" && g[0] != "X" && g[0] != "Y" {
				out = append(out, g)
			}
		}
	case "C08":
		for _, g := range groups {
			if g[0] != "R" && g[0] != "r" {
				out = append(out, g)
			}
		}
	case "C09":
		k := -1
		for i, g := range groups {
			if g[0] == "ALTFROM" {
				k = i
				break
			}
		}
		if k < 0 {
			return nil
		}
		for _, g := range groups[:k] {
			if g[0] == "E" {
				out = append(out, g)
			}
		}
		out = append(out, append([]string{"RESET"}, groups[k][1:]...))
		out = append(out, groups[k+1:]...)
	default:
		return nil
	}
	return out
}

// Exec runs the op list (and the derived reference op list) on the real code and returns the
// observation tokens.
func Exec(sc *Scenario, stat func(string)) []string {
	if BuildVals(sc.Vals).Len() == 0 { // no genesis validators: not a scenario (only met while shrinking)
		return []string{"invalid"}
	}
	out := execOne(sc, sc.Groups, stat)
	if len(out) == 1 && out[0] == "invalid" {
		return out
	}
	if alt := AltGroups(sc.Mix, sc.Groups); alt != nil {
		out = append(out, "||")
		out = append(out, execOne(sc, alt, func(string) {})...)
	}
	return out
}

func sameVals(a, b *pos.Validators) bool {
	if a.Len() != b.Len() {
		return false
	}
	ia, ib := a.SortedIDs(), b.SortedIDs()
	for i := range ia {
		if ia[i] != ib[i] || a.Get(ia[i]) != b.Get(ib[i]) {
			return false
		}
	}
	return true
}

func execOne(sc *Scenario, groups [][]string, stat func(string)) []string {
	r := &runner{sc: sc, defs: map[int]*EvDef{}, ids: map[int]hash.Event{}, num: map[hash.Event]int{}}
	inst := NewInstOpts(sc.Cfg, sc.Epoch0, sc.Vals, sc.Policy, sc.ListenMode, sc.ListenN, sc.Flags)
	var out []string
	first := true
	emit := func(toks ...string) {
		if !first {
			out = append(out, ";")
		}
		first = false
		out = append(out, toks...)
	}
	lastKind, lastBlocks := "", 0
	markerSeen := false
	for gi, g := range groups {
		switch g[0] {
		case "E":
			r.define(g)
			continue
		case "ALTFROM":
			// the marker claims: "the instance has just switched to this epoch with these validators" (by a seal), or
			// the next op is the very Reset the reference instance starts with.  A case where neither holds (only met
			// while shrinking: the sealing rule or the switching op was removed) is not a C09 scenario.
			if !markerSeen {
				markerSeen = true
				nextIsReset := false
				for _, ng := range groups[gi+1:] {
					if ng[0] == "E" {
						continue
					}
					nextIsReset = ng[0] == "RESET" && strings.Join(ng[1:], " ") == strings.Join(g[1:], " ")
					break
				}
				ok := !inst.Dead && len(g) >= 2
				if ok && !nextIsReset {
					inst.guarded(func() string {
						ok = inst.Epoch() == pu(g[1]) && inst.Ldf() == 0 && len(inst.proc) == 0 &&
							sameVals(inst.Validators(), BuildVals(parseVW(g[2:])))
						return ""
					})
				}
				if !ok {
					return []string{"invalid"}
				}
			}
			continue
		}
		curBlocks := 0
		if inst.Dead {
			continue
		}
		tail := func() []string { return []string{fmt.Sprintf("l%d", inst.Ldf()), fmt.Sprintf("e%d", inst.Epoch())} }
		switch g[0] {
		case "P", "X":
			if len(g) < 2 {
				emit("nodef")
				break
			}
			d, ok := r.defs[int(pu(g[1]))]
			if !ok {
				emit("nodef")
				break
			}
			frame := d.Frame
			if g[0] == "X" && len(g) >= 3 {
				frame = pu(g[2])
			}
			res, bl := inst.Process(r.mk(d, frame))
			curBlocks = len(bl)
			stat("op_" + g[0] + "_" + strings.SplitN(res, ":", 2)[0])
			if strings.HasPrefix(res, "s") {
				emit(res)
				break
			}
			if len(bl) > 0 {
				stat("blocks")
			}
			if len(bl) >= 2 {
				stat("multi_block_call")
			}
			spfr := uint32(0)
			if d.Seq > 1 && len(d.Parents) > 0 {
				if pd, okp := r.defs[d.Parents[0]]; okp {
					spfr = pd.Frame
				}
			}
			if res == "ok" && frame >= spfr+2 {
				stat("multiframe_root")
			}
			for k, b := range bl {
				if b.Seal != nil && k >= 1 {
					stat("seal_in_cascade")
				}
				if b.Seal != nil && frame >= spfr+2 {
					stat("seal_by_multiframe_root")
				}
			}
			for _, b := range bl {
				if len(b.Cheaters) > 0 {
					stat("block_with_cheaters")
				}
				if b.Seal != nil {
					stat("seal")
				}
			}
			toks := append([]string{res}, r.blocksTok(bl)...)
			if !inst.Dead {
				toks = append(toks, tail()...)
			}
			emit(toks...)
		case "Y":
			if len(g) < 7 {
				emit("nodef")
				break
			}
			d := &EvDef{N: int(pu(g[1])), Epoch: pu(g[2]), Creator: pu(g[3]), Seq: pu(g[4]), Lamport: pu(g[5])}
			okp := true
			for _, p := range g[7:] {
				pn := int(pu(p))
				if _, def := r.defs[pn]; !def {
					okp = false
				}
				d.Parents = append(d.Parents, pn)
			}
			if _, clash := r.defs[d.N]; clash || !okp {
				emit("nodef")
				break
			}
			ge := r.mk(d, pu(g[6]))
			if _, known := r.num[ge.ID()]; !known {
				r.num[ge.ID()] = d.N
			}
			res, bl := inst.Process(ge)
			stat("op_Y_" + strings.SplitN(res, ":", 2)[0])
			if strings.HasPrefix(res, "s") {
				emit(res)
				break
			}
			toks := append([]string{res}, r.blocksTok(bl)...)
			if !inst.Dead {
				toks = append(toks, tail()...)
			}
			emit(toks...)
		case "B", "b":
			if len(g) < 5 {
				emit("nodef")
				break
			}
			d := &EvDef{N: -1, Epoch: pu(g[1]), Creator: pu(g[2]), Seq: pu(g[3]), Lamport: pu(g[4])}
			ok := true
			for _, p := range g[5:] {
				pn := int(pu(p))
				if _, def := r.defs[pn]; !def {
					ok = false
				}
				d.Parents = append(d.Parents, pn)
			}
			if !ok {
				emit("nodef")
				break
			}
			res := inst.Build(r.mk(d, 0))
			if len(d.Parents) == 0 {
				stat("op_build_cheap")
			} else {
				stat("op_build_" + res[:1])
			}
			emit(res)
		case "R", "r":
			var res string
			var bl []BlockObs
			if g[0] == "r" { // in-process restart: the application keeps its DagIndexer object
				res, bl = inst.RestartKeepIndex()
				stat("op_r_keep_index")
			} else {
				res, bl = inst.Restart()
			}
			stat("op_R")
			if lastKind == "X" || lastKind == "Y" || lastKind == "b" {
				stat("R_after_injected")
			}
			if lastBlocks >= 2 {
				stat("R_after_multi_block_call")
			}
			toks := append([]string{"r" + res}, r.blocksTok(bl)...)
			if !inst.Dead {
				toks = append(toks, tail()...)
			}
			emit(toks...)
		case "RESET":
			if len(g) < 2 {
				emit("nodef")
				break
			}
			res := inst.Reset(pu(g[1]), parseVW(g[2:]))
			stat("op_RESET")
			toks := []string{"z" + res}
			if !inst.Dead {
				toks = append(toks, tail()...)
			}
			emit(toks...)
		case "M":
			if len(g) < 2 {
				emit("nodef")
				break
			}
			h, ok := r.ids[int(pu(g[1]))]
			if !ok {
				emit("nodef")
				break
			}
			if !inst.Processed(h) {
				emit("s3")
				break
			}
			stat("op_M")
			emit(append([]string{"m"}, inst.Merged(h)...)...)
		case "W":
			stat("op_W")
			toks := []string{"v"}
			vv := inst.Validators()
			for k, id := range vv.SortedIDs() {
				toks = append(toks, fmt.Sprintf("%d:%d", uint32(id), uint32(vv.GetWeightByIdx(idx.Validator(k)))))
			}
			emit(toks...)
		case "Q":
			if len(g) < 3 {
				emit("nodef")
				break
			}
			ha, oka := r.ids[int(pu(g[1]))]
			hb, okb := r.ids[int(pu(g[2]))]
			if !oka || !okb {
				emit("nodef")
				break
			}
			if !inst.Processed(ha) || !inst.Processed(hb) {
				emit("s3")
				break
			}
			stat("op_Q")
			emit(inst.FC(ha, hb))
		case "G":
			if len(g) < 2 {
				emit("nodef")
				break
			}
			stat("op_G")
			toks := []string{"g"}
			for _, ro := range inst.FrameRoots(pu(g[1])) {
				toks = append(toks, fmt.Sprintf("%d:%s", ro.Val, r.evname(ro.ID)))
			}
			emit(toks...)
		default:
			emit("nodef")
		}
		lastKind, lastBlocks = g[0], curBlocks
	}
	return out
}
