package abfth

import (
	"fmt"
	"math/rand"
	"strings"

	"github.com/Fantom-foundation/lachesis-base/hash"
)

// "laggard" family (C04, C07): the SIZE classes the random generator never reaches.
// Four validators of equal weight; B, C, D emit `rounds` rounds (each event: self-parent + the other heads) and
// decide a frame every round or two, A is silent.  Then
//   - a FAT speculative first event of A on top of the whole DAG is only built (b/B) and/or offered to Process with a
//     wrong frame (X): one dropped event that newly observes every event of the DAG (C07: must leave no trace, also in
//     production-size vector caches, flag 8);
//   - A's real first event has no parents; B, C, D go on for `tail` rounds on top of it;
//   - A's second event references all heads: its self-parent is more than 100 frames below the roots that forkless-cause
//     it.  Build caps the frame at selfParentFrame+100; Process accepts every allowed claimed frame, also above the cap
//     (C04): claimed in {cap, cap+1, the calculated frame}.
func genLaggard(r *rand.Rand, o GenOpts, rounds, tail int) []string {
	cfg := Cfg{FcCap: []int{200, 20000}[r.Intn(2)], RootsNum: 1000, RootsFrames: 100}
	if r.Intn(3) == 0 {
		cfg.RootsNum, cfg.RootsFrames = 50, 5
	}
	epoch := uint32(1 + r.Intn(3))
	w := uint32([]int{1, 1, 3, 1000}[r.Intn(4)])
	perm := r.Perm(40)[:4]
	A, B, C, D := uint32(perm[0]+1), uint32(perm[1]+1), uint32(perm[2]+1), uint32(perm[3]+1)
	vals := []VW{{A, w}, {B, w}, {C, w}, {D, w}}
	flags := 0
	if o.Mix == "C07" || r.Intn(2) == 0 {
		flags |= 8
	}
	ref := NewInst(cfg, epoch, vals, nil)
	rr := &runner{defs: map[int]*EvDef{}, ids: map[int]hash.Event{}, num: map[hash.Event]int{}}
	var toks []string
	add := func(g ...interface{}) {
		toks = append(toks, ";")
		for _, x := range g {
			toks = append(toks, fmt.Sprint(x))
		}
	}
	toks = append(toks, o.Mix, fmt.Sprint(cfg.FcCap), fmt.Sprint(cfg.RootsNum), fmt.Sprint(cfg.RootsFrames), fmt.Sprint(epoch))
	add("V", A, w, B, w, C, w, D, w)
	if flags != 0 {
		add("L", 0, 0, flags)
	}
	var ops [][]interface{}
	op := func(g ...interface{}) { ops = append(ops, g) }
	heads := map[uint32]*EvDef{}
	next := 0
	// mkDef: a new event of creator on top of its head (and the other heads)
	mkDef := func(creator uint32, others bool) *EvDef {
		d := &EvDef{N: next, Epoch: epoch, Creator: creator, Seq: 1, Lamport: 1}
		next++
		if sp := heads[creator]; sp != nil {
			d.Seq, d.Lamport = sp.Seq+1, sp.Lamport+1
			d.Parents = append(d.Parents, sp.N)
		}
		if others {
			for _, v := range []uint32{D, C, B, A} {
				if p := heads[v]; v != creator && p != nil {
					d.Parents = append(d.Parents, p.N)
					if d.Lamport <= p.Lamport {
						d.Lamport = p.Lamport + 1
					}
				}
			}
		}
		return d
	}
	defTok := func(d *EvDef) {
		g := []interface{}{"E", d.N, d.Epoch, d.Creator, d.Seq, d.Lamport, d.Frame}
		for _, p := range d.Parents {
			g = append(g, p)
		}
		add(g...)
	}
	register := func(d *EvDef) {
		rr.defs[d.N] = d
		e := rr.mk(d, d.Frame)
		rr.ids[d.N] = e.ID()
		rr.num[e.ID()] = d.N
	}
	// emit: frame by Build on the reference, then Process there
	emit := func(creator uint32, others bool) *EvDef {
		d := mkDef(creator, others)
		rr.defs[d.N] = d
		te := rr.mk(d, 0)
		if res := ref.Build(te); !strings.HasPrefix(res, "f") {
			panic("laggard: build " + res)
		}
		d.Frame = uint32(te.Frame())
		register(d)
		if res, _ := ref.Process(rr.mk(d, d.Frame)); res != "ok" {
			panic("laggard: process " + res)
		}
		heads[creator] = d
		defTok(d)
		op("P", d.N)
		return d
	}
	buildTok := func(kind string, d *EvDef) {
		g := []interface{}{kind, d.Epoch, d.Creator, d.Seq, d.Lamport}
		for _, p := range d.Parents {
			g = append(g, p)
		}
		op(g...)
	}
	for i := 0; i < rounds; i++ {
		emit(B, true)
		emit(C, true)
		emit(D, true)
	}
	// the fat speculative first event of A: built only and / or rejected for its frame
	fat := mkDef(A, true)
	fat.Frame = 1000000
	register(fat)
	defTok(fat)
	injB := "B"
	if o.Mix == "C07" {
		injB = "b"
	}
	switch r.Intn(3) {
	case 0:
		buildTok(injB, fat)
	case 1:
		op("X", fat.N, 1000000)
	default:
		buildTok(injB, fat)
		op("X", fat.N, 1000000)
	}
	emit(A, false) // the real first event: no parents
	// the tail: every event is first asked of Build (a trace of the dropped event shows as a HIGHER frame, which the
	// frame check of Process alone would not notice) and offered with frame+1 (must be rejected)
	probed := func(creator uint32) {
		if o.Mix != "C07" { // the graph specification of C04 is evaluated per probe: keep the deep case affordable
			emit(creator, true)
			return
		}
		buildTok("B", mkDef(creator, true))
		next--
		d := emit(creator, true)
		ops = ops[:len(ops)-1]
		if r.Intn(2) == 0 {
			op("X", d.N, d.Frame+1)
		}
		op("P", d.N)
	}
	for i := 0; i < tail; i++ {
		probed(B)
		probed(C)
		probed(D)
	}
	// A's second event over all heads: self-parent at frame 1
	a2 := mkDef(A, true)
	rr.defs[a2.N] = a2
	te := rr.mk(a2, 0)
	if res := ref.Build(te); !strings.HasPrefix(res, "f") {
		panic("laggard: build a2 " + res)
	}
	built := uint32(te.Frame())
	hi := uint32(0)
	for _, h := range heads {
		if h.Frame > hi {
			hi = h.Frame
		}
	}
	buildTok("B", a2)
	claimed := built
	switch r.Intn(3) {
	case 1:
		claimed = built + 1
	case 2:
		claimed = hi + 1
	}
	// the reference decides which claimed frames are allowed: walk down to the first accepted one
	for ; claimed >= 1; claimed-- {
		a2.Frame = claimed
		register(a2)
		res, _ := ref.Process(rr.mk(a2, claimed))
		if res == "ok" {
			break
		}
		if claimed <= built || res != "wf" {
			panic("laggard: a2 " + res)
		}
	}
	defTok(a2)
	if o.Mix == "C07" {
		op("X", a2.N, hi+2) // above every allowed frame: rejected, no trace
		if r.Intn(2) == 0 {
			buildTok(injB, a2)
		}
	}
	op("P", a2.N)
	heads[A] = a2
	for i := 0; i < 3; i++ {
		emit(B, true)
		emit(A, true)
		emit(C, true)
		emit(D, true)
	}
	for _, g := range ops {
		add(g...)
	}
	return toks
}
