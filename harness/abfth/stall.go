package abfth

import (
	"fmt"
	"math/rand"
	"strings"

	"github.com/Fantom-foundation/lachesis-base/hash"
)

// "long stall" family (C02): one heavy validator (40 % of the weight) is silent while n light ones (6 % each,
// together below the quorum) emit `rounds` rounds, every event on top of all the other heads: no frame advances,
// nothing is decided.  Then the heavy validator joins, frames advance, and ONE block has to deliver several
// hundred events; its depth-first walk keeps (parents-1) x rounds > 300 pending ids on the stack (more than the
// pre-sized capacity of the traversal stack in abft/traversal.go).
func genStall(r *rand.Rand, o GenOpts, lights, rounds int) []string {
	cfg := Cfg{FcCap: []int{200, 20000}[r.Intn(2)], RootsNum: 1000, RootsFrames: 100}
	epoch := uint32(1 + r.Intn(3))
	perm := r.Perm(60)[: lights+1]
	H := uint32(perm[0] + 1)
	var L []uint32
	for _, p := range perm[1:] {
		L = append(L, uint32(p+1))
	}
	// heavy: 40 %, lights: the rest in equal parts (below 2/3 together)
	lw := uint32(6)
	hw := uint32(lights) * lw * 2 / 3
	vals := []VW{{H, hw}}
	for _, v := range L {
		vals = append(vals, VW{v, lw})
	}
	ref := NewInst(cfg, epoch, vals, nil)
	rr := &runner{defs: map[int]*EvDef{}, ids: map[int]hash.Event{}, num: map[hash.Event]int{}}
	var toks []string
	add := func(g ...interface{}) {
		toks = append(toks, ";")
		for _, x := range g {
			toks = append(toks, fmt.Sprint(x))
		}
	}
	toks = append(toks, o.Mix, fmt.Sprint(cfg.FcCap), fmt.Sprint(cfg.RootsNum), fmt.Sprint(cfg.RootsFrames), fmt.Sprint(epoch))
	vg := []interface{}{"V"}
	for _, v := range vals {
		vg = append(vg, v.ID, v.W)
	}
	add(vg...)
	var ops [][]interface{}
	heads := map[uint32]*EvDef{}
	next := 0
	blocks := 0
	emit := func(creator uint32, all []uint32) {
		d := &EvDef{N: next, Epoch: epoch, Creator: creator, Seq: 1, Lamport: 1}
		next++
		if sp := heads[creator]; sp != nil {
			d.Seq, d.Lamport = sp.Seq+1, sp.Lamport+1
			d.Parents = append(d.Parents, sp.N)
		}
		for _, v := range all {
			if p := heads[v]; v != creator && p != nil {
				d.Parents = append(d.Parents, p.N)
				if d.Lamport <= p.Lamport {
					d.Lamport = p.Lamport + 1
				}
			}
		}
		rr.defs[d.N] = d
		te := rr.mk(d, 0)
		if res := ref.Build(te); !strings.HasPrefix(res, "f") {
			panic("stall: build " + res)
		}
		d.Frame = uint32(te.Frame())
		e := rr.mk(d, d.Frame)
		rr.ids[d.N] = e.ID()
		rr.num[e.ID()] = d.N
		res, bl := ref.Process(e)
		if res != "ok" {
			panic("stall: process " + res)
		}
		blocks += len(bl)
		heads[creator] = d
		g := []interface{}{"E", d.N, d.Epoch, d.Creator, d.Seq, d.Lamport, d.Frame}
		for _, p := range d.Parents {
			g = append(g, p)
		}
		add(g...)
		ops = append(ops, []interface{}{"P", d.N})
	}
	for i := 0; i < rounds; i++ {
		for _, v := range L {
			emit(v, L)
		}
	}
	all := append([]uint32{H}, L...)
	for i := 0; i < 12 && blocks < 3; i++ {
		emit(H, all)
		for _, v := range L {
			emit(v, all)
		}
	}
	for _, g := range ops {
		add(g...)
	}
	return toks
}
