package abfth

import (
	"math/rand"
	"strings"

	"github.com/Fantom-foundation/lachesis-base/hash"
)

// cascadePrefix searches for a DAG prefix whose LAST event decides at least two frames in one Process call
// ("chained" decisions: onFrameDecided, then bootstrapElection decides the next frame right away).
// Many validators with mixed weights and about n/2 parents per event make quorum-completing roots arrive late
// often enough.  Returns the validators, the events (frames set by the real Build), the number of blocks the
// reference emitted before the last call and the number of blocks of the last call.
func cascadePrefix(r *rand.Rand, cfg Cfg, epoch0 uint32, maxEv int) (vals []VW, defs []*EvDef, spfs []uint32, blocksBefore, blocksLast int, ok bool) {
	return searchPrefix(r, cfg, epoch0, maxEv, false)
}

// jumpPrefix searches for a prefix whose last event takes a decision at a NON-LAST root slot: it decides frame d
// while occupying at least two slots at frames >= d+2 (four validators of almost equal weight, one lagging
// deeply: the other three hold a quorum only together, so their roots often cannot decide).
func jumpPrefix(r *rand.Rand, cfg Cfg, epoch0 uint32, maxEv int) (vals []VW, defs []*EvDef, spfs []uint32, blocksBefore, blocksLast int, ok bool) {
	return searchPrefix(r, cfg, epoch0, maxEv, true)
}

func searchPrefix(r *rand.Rand, cfg Cfg, epoch0 uint32, maxEv int, jump bool) (vals []VW, defs []*EvDef, spfs []uint32, blocksBefore, blocksLast int, ok bool) {
	n := 6 + r.Intn(5)
	perm := r.Perm(40)
	if jump {
		n = 4
		w := uint32(3 + r.Intn(5))
		for i := 0; i < n; i++ {
			vals = append(vals, VW{uint32(perm[i] + 1), w + uint32(r.Intn(2))})
		}
	}
	for i := 0; i < n && !jump; i++ {
		vals = append(vals, VW{uint32(perm[i] + 1), uint32(1 + r.Intn(2+r.Intn(2)))})
	}
	ref := NewInst(cfg, epoch0, vals, nil)
	ids := make([]uint32, n)
	for i, v := range vals {
		ids[i] = v.ID
	}
	own := map[uint32][]int{}
	k := 1 + n/2 + r.Intn(2)
	slow := map[uint32]bool{} // validators that create rarely: their roots complete quorums late
	for _, id := range ids {
		if r.Intn(4) == 0 && !jump {
			slow[id] = true
		}
	}
	deep := uint32(0)
	if jump {
		deep = ids[r.Intn(n)]
		k = 2 + r.Intn(3)
	}
	total := 0
	for len(defs) < maxEv {
		cr := ids[r.Intn(n)]
		if slow[cr] && r.Intn(4) != 0 {
			continue
		}
		if cr == deep && r.Intn(10) != 0 {
			continue
		}
		d := &EvDef{N: len(defs), Epoch: epoch0, Creator: cr, Seq: 1}
		lam, spf := uint32(0), uint32(0)
		if o := own[cr]; len(o) > 0 {
			sp := o[len(o)-1]
			d.Parents = append(d.Parents, sp)
			d.Seq = defs[sp].Seq + 1
			lam = defs[sp].Lamport
			spf = defs[sp].Frame
		}
		cnt := 0
		for _, j := range r.Perm(n) {
			v := ids[j]
			if v == cr || len(own[v]) == 0 || (cnt >= k-1 && cr != deep) {
				continue
			}
			p := own[v][len(own[v])-1]
			d.Parents = append(d.Parents, p)
			cnt++
			if defs[p].Lamport > lam {
				lam = defs[p].Lamport
			}
		}
		d.Lamport = lam + 1
		rr := &runner{defs: map[int]*EvDef{}, ids: map[int]hash.Event{}}
		for _, p := range d.Parents {
			rr.ids[p] = idOf(defs[p])
		}
		te := rr.mk(d, 0)
		if res := ref.Build(te); !strings.HasPrefix(res, "f") {
			return nil, nil, nil, 0, 0, false
		}
		d.Frame = uint32(te.Frame())
		pres, bl := ref.Process(rr.mk(d, d.Frame))
		if pres != "ok" {
			return nil, nil, nil, 0, 0, false
		}
		defs = append(defs, d)
		spfs = append(spfs, spf)
		own[cr] = append(own[cr], d.N)
		if !jump && len(bl) >= 2 {
			return vals, defs, spfs, total, len(bl), true
		}
		if jump && len(bl) >= 1 {
			dfr := uint32(total + 1) // the frame decided first by this call
			lo := spf + 1
			if dfr+2 > lo {
				lo = dfr + 2
			}
			if d.Frame >= lo+1 {
				return vals, defs, spfs, total, len(bl), true
			}
		}
		total += len(bl)
	}
	return nil, nil, nil, 0, 0, false
}

// CascadeRate is a diagnostic: how many of `tries` searches succeed and the mean prefix length.
func CascadeRate(r *rand.Rand, tries, maxEv int) (hits int, meanLen float64) {
	sum := 0
	for i := 0; i < tries; i++ {
		_, defs, _, _, _, ok := jumpPrefix(r, Cfg{FcCap: 200, RootsNum: 50, RootsFrames: 5}, 1, maxEv)
		if ok {
			hits++
			sum += len(defs)
		}
	}
	if hits > 0 {
		meanLen = float64(sum) / float64(hits)
	}
	return
}
