package abfth

import (
	"fmt"
	"math/rand"
)

// "late fork root + restart" family (C08, C04).  Store.GetFrameRoots returns a frame's roots in cache arrival
// order in a running instance and in key order (validator, event id) after a restart or with the roots cache off.
// The frame rule must not depend on that order.  Scenario (four validators of equal weight, quorum 3 of 4):
//
//	frame 1: a1x b1 c1 d1 (first events), b2 {b1 a1x c1}, c2 {c1 a1x b2}
//	frame 2: d2 {d1 b2 c2}   - its frame check caches the root list of frame 1
//	late   : a1y, a fork sibling of a1x that nobody observes (a second root of the cheater in frame 1)
//	then   : restart; c3 {c2 d2} claims frame 2: forkless caused by a1x b1 c1 only, the cheater is pivotal
//
// The event id is epoch|lamport|tail(event number), so the id order of the two siblings is the order of their
// event numbers: both orders are generated.
func genLateFork(r *rand.Rand, o GenOpts) []string {
	cfg := [][3]int{{200, 1000, 100}, {200, 50, 5}, {200, 0, 0}, {20000, 50, 5}, {200, 2, 1}}[r.Intn(5)]
	epoch := uint32(1 + r.Intn(3))
	if r.Intn(8) == 0 {
		epoch = uint32(1 + r.Intn(1000000))
	}
	w := []int{1, 1, 2, 5, 1000}[r.Intn(5)]
	ids := r.Perm(40)[:4]
	for i := range ids {
		ids[i]++
	}
	A, B, C, D := ids[0], ids[1], ids[2], ids[3]
	// event numbers: 0..9 shuffled among the first events, so that the sibling id order (and the order relative to
	// the other roots) varies
	num := r.Perm(5)
	a1x, a1y, b1, c1, d1 := num[0], num[1], num[2], num[3], num[4]
	if r.Intn(3) != 0 && a1y > a1x { // two cases in three: the late sibling has the SMALLER id (first in key order)
		a1x, a1y = a1y, a1x
	}
	b2, c2, d2, c3, b3, a2 := 5, 6, 7, 8, 9, 10
	ep := fmt.Sprint(epoch)
	var toks []string
	add := func(g ...interface{}) {
		toks = append(toks, ";")
		for _, x := range g {
			toks = append(toks, fmt.Sprint(x))
		}
	}
	toks = append(toks, o.Mix, fmt.Sprint(cfg[0]), fmt.Sprint(cfg[1]), fmt.Sprint(cfg[2]), ep)
	add("V", A, w, B, w, C, w, D, w)
	flags := 0
	if r.Intn(4) == 0 {
		flags |= 4
	}
	if r.Intn(4) == 0 {
		flags |= 2
	}
	if flags != 0 {
		add("L", 0, 0, flags)
	}
	// E i epoch creator seq lamport frame parents..
	add("E", a1x, ep, A, 1, 1, 1)
	add("E", a1y, ep, A, 1, 1, 1)
	add("E", b1, ep, B, 1, 1, 1)
	add("E", c1, ep, C, 1, 1, 1)
	add("E", d1, ep, D, 1, 1, 1)
	add("E", b2, ep, B, 2, 2, 1, b1, a1x, c1)
	add("E", c2, ep, C, 2, 3, 1, c1, a1x, b2)
	add("E", d2, ep, D, 2, 4, 2, d1, b2, c2)
	add("E", c3, ep, C, 3, 5, 2, c2, d2)
	add("E", b3, ep, B, 3, 6, 2, b2, c3, d2)
	restart := func(p int) {
		if r.Intn(p) == 0 {
			if r.Intn(3) == 0 {
				add("r")
			} else {
				add("R")
			}
		}
	}
	every := 6
	if o.Mix == "C08" && r.Intn(3) == 0 {
		every = 1
	}
	firsts := []int{a1x, b1, c1, d1}
	r.Shuffle(len(firsts), func(i, j int) { firsts[i], firsts[j] = firsts[j], firsts[i] })
	late := 3 // position of the late sibling: 0 right after the first events .. 3 after d2 (the interesting one)
	if r.Intn(4) == 0 {
		late = r.Intn(4)
	}
	for _, e := range firsts {
		add("P", e)
		restart(every)
	}
	step := func(k int, e int) {
		if late == k {
			add("P", a1y)
			if k == 3 && (o.Mix == "C08" || r.Intn(2) == 0) {
				restart(1)
			} else {
				restart(every)
			}
		}
		if e >= 0 {
			add("P", e)
			restart(every)
		}
	}
	step(0, b2)
	step(1, c2)
	step(2, d2)
	step(3, -1)
	if r.Intn(2) == 0 {
		add("G", 1)
	}
	if r.Intn(2) == 0 { // ask Build for the frame of c3's content first
		add("B", ep, C, 3, 5, c2, d2)
	}
	add("P", c3)
	restart(every)
	add("B", ep, A, 2, 6, a1x, c3)
	add("P", b3)
	restart(every)
	add("B", ep, A, 2, 7, a1x, b3, c3)
	_ = a2
	add("G", 1)
	add("G", 2)
	return toks
}
