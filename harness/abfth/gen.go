package abfth

import (
	"os"
	"fmt"
	"math/rand"
	"strconv"
	"strings"

	"github.com/Fantom-foundation/lachesis-base/hash"
	"github.com/Fantom-foundation/lachesis-base/inter/dag/tdag"
	"github.com/Fantom-foundation/lachesis-base/inter/idx"
)

// GenOpts selects the op mix of a generated scenario.
type GenOpts struct {
	Mix      string // "C02" "C03" "C04" "C07" "C08" "C09"
	Tier     string
	MaxEv    int
	BigBurst bool // allow a 65535-build burst (thorough)
}

type genEv struct {
	def    *EvDef
	spf    uint32 // frame of the self-parent (0 if none)
	blocks int    // blocks the reference emitted while processing it
	sealed bool
}

// item of the base script: an event to process or a RESET
type item struct {
	ev    int // event number, or -1
	reset []string
	x     bool   // re-feed of event ev after a RESET to the same epoch: Process with the claimed frame xf
	xf    uint32
}

func vwTok(v []VW) []string {
	var out []string
	for _, x := range v {
		out = append(out, fmt.Sprint(x.ID), fmt.Sprint(x.W))
	}
	return out
}

func genWeights(r *rand.Rand, n int) []uint32 {
	w := make([]uint32, n)
	switch r.Intn(6) {
	case 0: // equal
		x := uint32(1 + r.Intn(5))
		for i := range w {
			w[i] = x
		}
	case 1: // one >= 1/3
		for i := range w {
			w[i] = uint32(1 + r.Intn(3))
		}
		sum := uint32(0)
		for _, x := range w[1:] {
			sum += x
		}
		w[0] = sum/2 + uint32(r.Intn(3))
		if w[0] == 0 {
			w[0] = 1
		}
	case 2: // one just under 1/3
		for i := range w {
			w[i] = uint32(2 + r.Intn(4))
		}
		sum := uint32(0)
		for _, x := range w[1:] {
			sum += x
		}
		if sum/2 > 1 {
			w[0] = sum/2 - 1
		}
	case 3: // total 2^31-1
		rest := uint32(1<<31 - 1)
		for i := 0; i < n-1; i++ {
			x := rest / uint32(n-i)
			if x > 2 {
				x -= uint32(r.Intn(2))
			}
			w[i] = x
			rest -= x
		}
		w[n-1] = rest
	case 4: // many tiny, one larger
		for i := range w {
			w[i] = 1
		}
		w[r.Intn(n)] = uint32(1 + r.Intn(n))
	default:
		for i := range w {
			w[i] = uint32(1 + r.Intn(20))
		}
	}
	return w
}

func genVals(r *rand.Rand) []VW {
	n := []int{1, 2, 3, 3, 3, 3, 4, 4, 4, 4, 4, 5, 5, 5, 6, 6, 7, 7, 8, 9}[r.Intn(20)]
	ws := genWeights(r, n)
	perm := r.Perm(40)
	var out []VW
	for i := 0; i < n; i++ {
		out = append(out, VW{uint32(perm[i] + 1), ws[i]})
	}
	return out
}

func mutateVals(r *rand.Rand, v []VW) []VW {
	out := append([]VW{}, v...)
	switch r.Intn(4) {
	case 0: // unchanged
	case 1: // weights mutated
		for i := range out {
			if r.Intn(2) == 0 {
				out[i].W = uint32(1 + r.Intn(9))
			}
		}
	case 2: // one removed
		if len(out) > 1 {
			k := r.Intn(len(out))
			out = append(out[:k], out[k+1:]...)
		}
	default: // one added
		used := map[uint32]bool{}
		for _, x := range out {
			used[x.ID] = true
		}
		for id := uint32(1); id < 60; id++ {
			if !used[id] && r.Intn(4) == 0 {
				out = append(out, VW{id, uint32(1 + r.Intn(5))})
				break
			}
		}
	}
	var tot uint64
	for _, x := range out {
		tot += uint64(x.W)
	}
	if tot > 1<<31-1 || len(out) == 0 {
		return append([]VW{}, v...)
	}
	return out
}

// Gen builds one scenario: the DAG is built online with the real Build on a reference instance.
func Gen(r *rand.Rand, o GenOpts) []string {
	// "laggard" family (laggard.go): deep DAG, one big dropped event, a laggard beyond the Build cap.
	// ABFTH_LAGGARD=<rounds> forces it (measurements, corpus generation).
	if v := os.Getenv("ABFTH_LAGGARD"); v != "" && (o.Mix == "C04" || o.Mix == "C07") {
		n, _ := strconv.Atoi(v)
		return genLaggard(r, o, n, 6+r.Intn(10))
	}
	// "long stall" family (stall.go): one block delivering several hundred events.  ABFTH_STALL=<rounds> forces it.
	if v := os.Getenv("ABFTH_STALL"); v != "" && o.Mix == "C02" {
		n, _ := strconv.Atoi(v)
		return genStall(r, o, 7+r.Intn(4), n)
	}
	if o.Mix == "C02" {
		rate := 250
		if o.Tier == "thorough" {
			rate = 80
		}
		if r.Intn(rate) == 0 {
			return genStall(r, o, 7+r.Intn(4), 52+r.Intn(16))
		}
	}
	if o.Mix == "C04" || o.Mix == "C07" {
		rate := map[string]int{"C04": 200, "C07": 400}[o.Mix] // the corpus holds one such case per property
		if o.Tier == "thorough" {
			rate = 80
		}
		if r.Intn(rate) == 0 {
			// B, C, D decide three frames in four rounds: 138..150 rounds put the heads at frames 104..113
			rounds := 138 + r.Intn(13)
			if o.Mix == "C07" {
				// more than 1024 events (the seeded tracker cap of C07-g), and 4k+1 rounds: then the newest head is a
				// fresh root whose forkless-cause quorum for the next event hinges on the silent validator's branch
				rounds = 353 + 4*r.Intn(12)
			}
			return genLaggard(r, o, rounds, 6+r.Intn(10))
		}
	}
	// "late fork root + restart" family (latefork.go)
	if (o.Mix == "C08" && r.Intn(8) == 0) || (o.Mix == "C04" && r.Intn(10) == 0) {
		return genLateFork(r, o)
	}
	cfg := Cfg{FcCap: []int{200, 200, 200, 20000, 1, 0}[r.Intn(6)],
		RootsNum: []uint{50, 50, 0, 1, 2, 1000}[r.Intn(6)], RootsFrames: []int{5, 5, 0, 1, 2, 100}[r.Intn(6)]}
	if o.Mix == "C04" || o.Mix == "C07" {
		cfg.FcCap = []int{200, 200, 200, 20000}[r.Intn(4)]
	}
	// C03: one scenario in five has a cheater set of weight >= 1/3 (up to < 1/2); the roots cache is then
	// disabled so that GetFrameRoots returns key order, which is the order the model uses
	heavyCheat := o.Mix == "C03" && r.Intn(5) == 0
	if heavyCheat {
		cfg.RootsNum, cfg.RootsFrames = 0, 0
	}
	epoch0 := uint32(1 + r.Intn(3))
	if r.Intn(10) == 0 {
		epoch0 = uint32(1 + r.Intn(1000000))
	}
	vals := genVals(r)
	// sealing policy
	var policy []SealRule
	pv := vals
	nseal := r.Intn(3)
	if o.Mix == "C09" {
		nseal = 1 + r.Intn(3)
	}
	// C09 "jump" family: every decision seals (block 1 of many consecutive epochs) and one light validator lags
	// far behind and then references all heads, so that its event occupies several root slots at once
	jump := o.Mix == "C09" && r.Intn(3) == 0
	if jump {
		nseal = 10
		if r.Intn(3) != 0 {
			// "bare quorum" variant: four validators of (almost) equal weight -- the three non-lagging ones hold
			// a quorum only together, so their roots often cannot decide and the laggard's multi-slot event
			// takes the decision at one of its LOWER slots (the situation of mutation c09-continue-after-seal)
			w := uint32(3 + r.Intn(5))
			perm := r.Perm(40)
			vals = nil
			for i := 0; i < 4; i++ {
				vals = append(vals, VW{uint32(perm[i] + 1), w + uint32(r.Intn(2))})
			}
			pv = vals
		}
		cfg.RootsNum, cfg.RootsFrames = []uint{50, 1000}[r.Intn(2)], []int{5, 100}[r.Intn(2)]
	} else if o.Mix == "C09" && r.Intn(2) == 0 {
		cfg.RootsNum, cfg.RootsFrames = []uint{50, 1000}[r.Intn(2)], []int{5, 100}[r.Intn(2)]
	}
	for k := 0; k < nseal; k++ {
		blk := []int{1, 1, 2, 2, 3, 5}[r.Intn(6)]
		if o.Mix == "C09" {
			blk = []int{1, 1, 2, 3}[r.Intn(4)]
		}
		if jump {
			blk = 1
		}
		if !jump || r.Intn(4) == 0 {
			pv = mutateVals(r, pv)
		}
		_ = pv
		policy = append(policy, SealRule{Epoch: epoch0 + uint32(k), Block: blk, Vals: pv})
	}
	// "cascade" family (C02 C08 C09): the DAG starts with a prefix whose last event decides two or more frames
	// in ONE Process call, and the application seals on the second (or last) block of that call
	var casDefs []*EvDef
	var casSpf []uint32
	if (o.Mix == "C08" || o.Mix == "C09" || o.Mix == "C02") && !jump && r.Intn(6) == 0 {
		for try := 0; try < 4 && casDefs == nil; try++ {
			cv, defs, spfs, before, last, ok := cascadePrefix(r, cfg, epoch0, 200)
			if !ok {
				continue
			}
			vals, casDefs, casSpf = cv, defs, spfs
			blk := before + 2
			if last >= 3 && r.Intn(2) == 0 {
				blk = before + last
			}
			if o.Mix != "C08" && r.Intn(3) == 0 {
				blk = before + 1 // seal on the FIRST block of the chained call: the root still has slots / decisions left
			}
			policy = []SealRule{{Epoch: epoch0, Block: blk, Vals: mutateVals(r, vals)}}
			if r.Intn(2) == 0 {
				policy = append(policy, SealRule{Epoch: epoch0 + 1, Block: 1 + r.Intn(2), Vals: mutateVals(r, policy[0].Vals)})
			}
		}
	}
	// "jump prefix" family (C09, C02): the last event of the prefix decides a frame at a NON-LAST root slot and
	// the application seals on exactly that block (mutation c09-continue-after-seal: the election loop must stop)
	if (o.Mix == "C09" || o.Mix == "C02") && !jump && casDefs == nil && r.Intn(4) == 0 {
		for try := 0; try < 25 && casDefs == nil; try++ {
			cv, defs, spfs, before, _, ok := jumpPrefix(r, cfg, epoch0, 150)
			if !ok {
				continue
			}
			vals, casDefs, casSpf = cv, defs, spfs
			policy = []SealRule{{Epoch: epoch0, Block: before + 1, Vals: mutateVals(r, vals)}}
		}
	}
	ref := NewInst(cfg, epoch0, vals, policy)
	forkRate := 4
	if o.Mix == "C03" {
		forkRate = 3
	}

	nEv := 20 + r.Intn(o.MaxEv-19)
	var evs []*genEv
	refr := map[int]uint32{} // frames of events re-fed after a same-epoch RESET
	frameOf := func(j int) uint32 {
		if f, ok := refr[j]; ok {
			return f
		}
		return evs[j].def.Frame
	}
	var script []item
	firstSwitch := -1 // index in script of the first item processed in a later epoch
	var firstSwitchReset []string

	// per-epoch generation state
	type epochState struct {
		ids      []uint32 // validators (sorted order)
		w        map[uint32]uint32
		total    uint64
		cheater  map[uint32]bool
		lag      map[uint32]bool
		own      map[uint32][]int // events by creator
		all      []int
		side     map[uint32]int // partition side
		parted   bool
		pParent  float64
		deep     uint32 // deeply lagging validator (0 = none)
	}
	newEpochState := func() *epochState {
		v := ref.Validators()
		es := &epochState{w: map[uint32]uint32{}, cheater: map[uint32]bool{}, lag: map[uint32]bool{}, own: map[uint32][]int{}, side: map[uint32]int{}}
		for i, id := range v.SortedIDs() {
			es.ids = append(es.ids, uint32(id))
			es.w[uint32(id)] = uint32(v.GetWeightByIdx(idx.Validator(i)))
			es.total += uint64(v.GetWeightByIdx(idx.Validator(i)))
		}
		// cheaters: weight strictly below one third
		if r.Intn(3) != 0 || o.Mix == "C03" {
			var cw uint64
			for _, k := range r.Perm(len(es.ids)) {
				id := es.ids[k]
				if ((cw+uint64(es.w[id]))*3 < es.total || (heavyCheat && (cw+uint64(es.w[id]))*2 < es.total)) && r.Intn(2) == 0 {
					es.cheater[id] = true
					cw += uint64(es.w[id])
				}
			}
		}
		for _, id := range es.ids {
			if r.Intn(5) == 0 {
				es.lag[id] = true
			}
			es.side[id] = r.Intn(2)
		}
		es.pParent = 0.5 + 0.5*r.Float64()
		if jump {
			for id := range es.lag {
				delete(es.lag, id)
			}
			// the lightest validator lags deeply if the others keep a quorum without it
			lightest := es.ids[len(es.ids)-1]
			if uint64(es.w[lightest])*3 < es.total && len(es.ids) >= 3 {
				es.deep = lightest
				if len(es.ids) == 4 { // bare-quorum variant: any of the four may be the laggard
					cand := es.ids[r.Intn(4)]
					if uint64(es.w[cand])*3 < es.total {
						es.deep = cand
					}
				}
			}
			es.pParent = 0.4 + 0.6*r.Float64()
		}
		if o.Mix == "C03" { // more decisions, so that forks end up below an Atropos
			es.pParent = 0.75 + 0.25*r.Float64()
			for id := range es.lag {
				delete(es.lag, id)
			}
		}
		return es
	}
	es := newEpochState()
	// replay the cascade prefix on the reference instance (frames are known); its last event seals
	for k, d := range casDefs {
		rr := &runner{defs: map[int]*EvDef{}, ids: map[int]hash.Event{}}
		for _, p := range d.Parents {
			rr.ids[p] = idOf(casDefs[p])
		}
		epochBefore := ref.Epoch()
		pres, bl := ref.Process(rr.mk(d, d.Frame))
		ge := &genEv{def: d, spf: casSpf[k], blocks: len(bl)}
		evs = append(evs, ge)
		script = append(script, item{ev: d.N})
		if pres != "ok" {
			break
		}
		es.own[d.Creator] = append(es.own[d.Creator], d.N)
		es.all = append(es.all, d.N)
		if ref.Epoch() != epochBefore {
			ge.sealed = true
			if firstSwitch < 0 {
				firstSwitch = len(script)
				var nv []VW
				v := ref.Validators()
				for i, id := range v.SortedIDs() {
					nv = append(nv, VW{uint32(id), uint32(v.GetWeightByIdx(idx.Validator(i)))})
				}
				firstSwitchReset = append([]string{"RESET", fmt.Sprint(ref.Epoch())}, vwTok(nv)...)
			}
			es = newEpochState()
		}
	}
	if casDefs != nil {
		nEv = len(evs) + 15 + r.Intn(25)
	}

	for len(evs) < nEv {
		// arbitrary RESET (generation-time, so that later events belong to the new epoch)
		resetRate := map[string]int{"C09": 60, "C03": 40, "C04": 120, "C02": 150, "C08": 100}[o.Mix]
		if resetRate > 0 && r.Intn(resetRate) == 0 {
			ne := ref.Epoch() + uint32(r.Intn(3))
			if r.Intn(5) == 0 {
				ne = uint32(1 + r.Intn(50))
			}
			var curVals []VW
			for _, id := range es.ids {
				curVals = append(curVals, VW{id, es.w[id]})
			}
			nv := mutateVals(r, curVals)
			if o.Mix == "C03" || r.Intn(3) == 0 {
				// re-ordered validators: the same ids with the weights dealt out anew (canonical order changes)
				nv = append([]VW{}, curVals...)
				perm := r.Perm(len(nv))
				bump := es.total+uint64(len(nv)) <= 1<<31-1
				for k := range nv {
					nv[k].W = curVals[perm[k]].W
					if bump {
						nv[k].W += uint32(r.Intn(2))
					}
				}
			}
			oldAll := append([]int{}, es.all...)
			sameEpoch := ne == ref.Epoch()
			ref.Reset(ne, nv)
			tok := append([]string{"RESET", fmt.Sprint(ne)}, vwTok(nv)...)
			if firstSwitch < 0 {
				firstSwitch = len(script)
				firstSwitchReset = nil // the RESET itself is part of the script
			}
			script = append(script, item{ev: -1, reset: tok})
			es = newEpochState()
			if sameEpoch {
				// RESET to the CURRENT epoch: the same events (same ids) are connected again, with the frames the
				// re-weighted validator set gives them (op X = Process with a claimed frame)
				refed := map[int]bool{}
				for k, j := range oldAll {
					if k >= 40 {
						break
					}
					d := evs[j].def
					okp := es.w[d.Creator] != 0
					for _, p := range d.Parents {
						if !refed[p] {
							okp = false
						}
					}
					if !okp {
						continue
					}
					rr := &runner{defs: map[int]*EvDef{}, ids: map[int]hash.Event{}}
					for _, p := range d.Parents {
						rr.ids[p] = idOf(evs[p].def)
					}
					te := rr.mk(d, 0)
					if res := ref.Build(te); !strings.HasPrefix(res, "f") {
						break
					}
					nf := uint32(te.Frame())
					if pres, _ := ref.Process(rr.mk(d, nf)); pres != "ok" {
						break
					}
					refed[j] = true
					refr[j] = nf
					script = append(script, item{ev: j, x: true, xf: nf})
					es.own[d.Creator] = append(es.own[d.Creator], j)
					es.all = append(es.all, j)
				}
			}
			continue
		}
		if r.Intn(25) == 0 {
			es.parted = !es.parted
		}
		// creator
		var cr uint32
		for tries := 0; ; tries++ {
			cr = es.ids[r.Intn(len(es.ids))]
			if es.lag[cr] && r.Intn(6) != 0 && tries < 20 {
				continue
			}
			if es.deep != 0 && cr == es.deep && r.Intn(12) != 0 && tries < 20 {
				continue
			}
			break
		}
		d := &EvDef{N: len(evs), Epoch: ref.Epoch(), Creator: cr}
		// self-parent
		sp := -1
		if own := es.own[cr]; len(own) > 0 {
			sp = own[len(own)-1]
			if es.cheater[cr] && r.Intn(forkRate) == 0 {
				// fork: an older own event, or none at all (second "first" event)
				k := r.Intn(len(own) + 1)
				if k == len(own) {
					sp = -1
				} else {
					sp = own[k]
				}
			}
		}
		lam := uint32(0)
		spf := uint32(0)
		if sp >= 0 {
			d.Parents = append(d.Parents, sp)
			d.Seq = evs[sp].def.Seq + 1
			lam = evs[sp].def.Lamport
			spf = frameOf(sp)
		} else {
			d.Seq = 1
		}
		// "wild" parents (1 event in 6): a subset of ALL accepted events of the epoch, chosen independently of
		// heads and creators (several parents of one creator, old events); the event is built and processed
		// on the reference like any other, so arbitrary parent subsets are exercised for ACCEPTED events too
		wild := r.Intn(6) == 0 && len(es.all) > 0
		if wild {
			seenP := map[int]bool{}
			for _, p := range d.Parents {
				seenP[p] = true
			}
			for k := r.Intn(6); k > 0; k-- {
				p := es.all[r.Intn(len(es.all))]
				if seenP[p] || evs[p].def.Creator == cr {
					continue
				}
				seenP[p] = true
				d.Parents = append(d.Parents, p)
				if evs[p].def.Lamport > lam {
					lam = evs[p].def.Lamport
				}
			}
		}
		// other parents: one event per other validator
		for _, k := range r.Perm(len(es.ids)) {
			if wild {
				break
			}
			v := es.ids[k]
			if v == cr || len(es.own[v]) == 0 || (r.Float64() > es.pParent && cr != es.deep) {
				continue
			}
			if es.parted && es.side[v] != es.side[cr] && cr != es.deep {
				continue
			}
			own := es.own[v]
			p := own[len(own)-1]
			if r.Intn(8) == 0 {
				p = own[r.Intn(len(own))]
			}
			d.Parents = append(d.Parents, p)
			if evs[p].def.Lamport > lam {
				lam = evs[p].def.Lamport
			}
		}
		d.Lamport = lam + 1
		// frame by the real Build on the reference instance
		rr := &runner{defs: map[int]*EvDef{}, ids: map[int]hash.Event{}}
		for _, p := range d.Parents {
			rr.ids[p] = idOf(evs[p].def)
		}
		te := rr.mk(d, 0)
		res := ref.Build(te)
		if !strings.HasPrefix(res, "f") {
			break
		}
		d.Frame = uint32(te.Frame())
		te = rr.mk(d, d.Frame)
		epochBefore := ref.Epoch()
		pres, bl := ref.Process(te)
		ge := &genEv{def: d, spf: spf, blocks: len(bl)}
		evs = append(evs, ge)
		script = append(script, item{ev: d.N})
		if pres != "ok" {
			break
		}
		es.own[cr] = append(es.own[cr], d.N)
		es.all = append(es.all, d.N)
		if ref.Epoch() != epochBefore {
			ge.sealed = true
			if firstSwitch < 0 {
				firstSwitch = len(script)
				var nv []VW
				v := ref.Validators()
				for i, id := range v.SortedIDs() {
					nv = append(nv, VW{uint32(id), uint32(v.GetWeightByIdx(idx.Validator(i)))})
				}
				firstSwitchReset = append([]string{"RESET", fmt.Sprint(ref.Epoch())}, vwTok(nv)...)
			}
			es = newEpochState()
		}
	}

	// ---------- tokens ----------
	var toks []string
	add := func(g ...string) { toks = append(toks, ";"); toks = append(toks, g...) }
	toks = append(toks, o.Mix, fmt.Sprint(cfg.FcCap), fmt.Sprint(cfg.RootsNum), fmt.Sprint(cfg.RootsFrames), fmt.Sprint(epoch0))
	add(append([]string{"V"}, vwTok(vals)...)...)
	for _, p := range policy {
		add(append([]string{"S", fmt.Sprint(p.Epoch), fmt.Sprint(p.Block)}, vwTok(p.Vals)...)...)
	}
	// application-side options: "L mode n flags"
	//   mode: ApplyEvent listener policy (not for C09: its reference instance starts mid-run);
	//         3 = the application installs no BeginBlock at all (no blocks, no sealing)
	//   flags: 1 = EndBlock is nil on the blocks that do not seal; 2 = one-byte vector caches in the index;
	//          4 = index built over a custom vecengine.Engine without the optional OnDropNotFlushed callback
	lmode, ln, lflags := 0, 0, 0
	if o.Mix != "C09" && ((o.Mix == "C02" && r.Intn(3) == 0) || r.Intn(8) == 0) {
		if r.Intn(2) == 0 {
			lmode, ln = 1, 2+r.Intn(4)
		} else {
			lmode = 2
		}
	} else if o.Mix != "C09" && r.Intn(40) == 0 {
		lmode = 3
	}
	if r.Intn(4) == 0 {
		lflags |= 1
	}
	if r.Intn(4) == 0 {
		lflags |= 2
	}
	// flag 4: DAG index over a custom vecengine (no OnDropNotFlushed callback, vector caches off)
	f4rate := map[string]int{"C07": 3, "C04": 4, "C08": 4}[o.Mix]
	if f4rate == 0 {
		f4rate = 10
	}
	if r.Intn(f4rate) == 0 {
		lflags |= 4
	}
	// flag 16: the epoch DB producer hands out ONE persistent database per epoch name (Close keeps the data, Drop
	// erases it) instead of a fresh anonymous one per call: matters for a Reset to the CURRENT epoch
	if r.Intn(map[string]int{"C09": 2, "C08": 2}[o.Mix]+2) < 2 && (o.Mix == "C09" || o.Mix == "C08" || r.Intn(2) == 0) {
		lflags |= 16
	}
	if lmode != 0 || lflags != 0 {
		add("L", fmt.Sprint(lmode), fmt.Sprint(ln), fmt.Sprint(lflags))
	}
	for _, e := range evs {
		g := []string{"E", fmt.Sprint(e.def.N), fmt.Sprint(e.def.Epoch), fmt.Sprint(e.def.Creator), fmt.Sprint(e.def.Seq),
			fmt.Sprint(e.def.Lamport), fmt.Sprint(e.def.Frame)}
		for _, p := range e.def.Parents {
			g = append(g, fmt.Sprint(p))
		}
		add(g...)
	}

	// ---------- op lists ----------
	order := script
	if (o.Mix == "C02" || o.Mix == "C03" || o.Mix == "C04") && r.Intn(2) == 0 {
		order = shuffleScript(r, script, evs)
	}
	var main, alt [][]string
	// per-epoch bookkeeping of what the main instance has accepted so far (assuming generation order)
	type seen struct {
		epoch uint32
		own   map[uint32][]int
		all   []int
		ids   []uint32
	}
	cur := &seen{epoch: epoch0, own: map[uint32][]int{}}
	for _, v := range vals {
		cur.ids = append(cur.ids, v.ID)
	}
	builds := 0 // builds executed by the main instance since its last restart
	burstDone := false
	rburstDone := false
	arbBuild := func(kind string) []string {
		// a speculative event with an arbitrary parent subset among the accepted events of this epoch
		if len(cur.ids) == 0 {
			return nil
		}
		cr := cur.ids[r.Intn(len(cur.ids))]
		g := []string{kind, fmt.Sprint(cur.epoch), fmt.Sprint(cr)}
		var ps []int
		seq := uint32(1)
		lam := uint32(0)
		if own := cur.own[cr]; len(own) > 0 && r.Intn(8) != 0 {
			sp := own[len(own)-1]
			if r.Intn(6) == 0 {
				sp = own[r.Intn(len(own))]
			}
			ps = append(ps, sp)
			seq = evs[sp].def.Seq + 1
			lam = evs[sp].def.Lamport
		}
		for _, v := range cur.ids {
			if v == cr || len(cur.own[v]) == 0 || r.Intn(3) == 0 {
				continue
			}
			own := cur.own[v]
			p := own[len(own)-1]
			if r.Intn(5) == 0 {
				p = own[r.Intn(len(own))]
			}
			ps = append(ps, p)
			if evs[p].def.Lamport > lam {
				lam = evs[p].def.Lamport
			}
		}
		if r.Intn(6) == 0 && len(cur.all) > 0 { // an extra arbitrary parent
			ps = append(ps, cur.all[r.Intn(len(cur.all))])
		}
		// no duplicate parents
		seenP := map[int]bool{}
		var ps2 []int
		for _, p := range ps {
			if !seenP[p] {
				seenP[p] = true
				ps2 = append(ps2, p)
			}
		}
		g = append(g, fmt.Sprint(seq), fmt.Sprint(lam+1))
		for _, p := range ps2 {
			g = append(g, fmt.Sprint(p))
		}
		return g
	}
	cheap := func(kind string) []string {
		cr := cur.ids[r.Intn(len(cur.ids))]
		return []string{kind, fmt.Sprint(cur.epoch), fmt.Sprint(cr), "1", "1"}
	}
	// collision burst aimed at temporary-id reuse: build #c with parents S1, cheap builds up to
	// #(256c - 1), then build #256c with the same epoch and lamport and a superset S2 of the parents.
	burst := func(inj string, e *genEv) (pre [][]string, probe []string) {
		c := builds + 1
		if c > 8 || e.def.Seq <= 1 || len(e.def.Parents) < 2 || e.def.Frame <= e.spf {
			return nil, nil
		}
		// candidate = the event that is processed next: S1 = {self-parent}, S2 = its real parents
		mk := func(kind string, ps []int) []string {
			g := []string{kind, fmt.Sprint(e.def.Epoch), fmt.Sprint(e.def.Creator), fmt.Sprint(e.def.Seq), fmt.Sprint(e.def.Lamport)}
			for _, p := range ps {
				g = append(g, fmt.Sprint(p))
			}
			return g
		}
		pre = append(pre, mk(inj, e.def.Parents[:1]))
		for k := c + 1; k < 256*c; k++ {
			pre = append(pre, cheap(inj))
		}
		return pre, mk("B", e.def.Parents)
	}
	wrongFrame := func(e *genEv) (uint32, bool) {
		F, spf := e.def.Frame, e.spf
		lo := spf
		if lo < 1 {
			lo = 1
		}
		var c []uint32
		c = append(c, F+1, F+2, F+101, 0)
		if spf >= 1 {
			c = append(c, spf-1)
		}
		if F >= 1 && F-1 < lo {
			c = append(c, F-1)
		}
		f := c[r.Intn(len(c))]
		if f >= lo && f <= F {
			return 0, false
		}
		return f, true
	}

	rrate := []int{3, 10, 30, 100}[r.Intn(4)] // C08: restart probability per boundary (percent)
	ghostN := 1000000
	ghost := func() []string {
		// a never-valid event (own id, frame 0 or far too high) offered to Process
		g := arbBuild("Y")
		if g == nil {
			return nil
		}
		ghostN++
		fr := []string{"0", "1000000", "0"}[r.Intn(3)]
		out := []string{"Y", fmt.Sprint(ghostN), g[1], g[2], g[3], g[4], fr}
		return append(out, g[5:]...)
	}
	var probeTargets []int // parents of recent ghost / speculative events: targets of FC probes
	pushBoth := func(g []string) { main = append(main, g); alt = append(alt, g) }
	altStarted := o.Mix != "C09"
	for si, it := range order {
		if o.Mix == "C09" && si == firstSwitch && !altStarted {
			altStarted = true
			mark := firstSwitchReset
			if mark == nil {
				mark = it.reset
			}
			main = append(main, append([]string{"ALTFROM"}, mark[1:]...))
		}
		push := func(g []string) {
			main = append(main, g)
			if o.Mix == "C09" {
				if altStarted {
					alt = append(alt, g)
				}
			} else {
				alt = append(alt, g)
			}
		}
		if it.ev < 0 {
			push(it.reset)
			push([]string{"W"})
			ne, _ := strconv.Atoi(it.reset[1])
			cur = &seen{epoch: uint32(ne), own: map[uint32][]int{}}
			for _, v := range BuildVals(parseVW(it.reset[2:])).SortedIDs() {
				cur.ids = append(cur.ids, uint32(v))
			}
			continue
		}
		if it.x {
			push([]string{"X", fmt.Sprint(it.ev), fmt.Sprint(it.xf)})
			cur.own[evs[it.ev].def.Creator] = append(cur.own[evs[it.ev].def.Creator], it.ev)
			cur.all = append(cur.all, it.ev)
			continue
		}
		e := evs[it.ev]
		if e.def.Epoch != cur.epoch { // first event of an epoch reached by sealing
			cur = &seen{epoch: e.def.Epoch, own: map[uint32][]int{}}
			cur.ids = nil
			// validators of that epoch: genesis or the policy entry that sealed the previous one
			vv := vals
			for _, p := range policy {
				if p.Epoch+1 == e.def.Epoch {
					vv = p.Vals
				}
			}
			for _, v := range BuildVals(vv).SortedIDs() {
				cur.ids = append(cur.ids, uint32(v))
			}
		}
		skipP := false
		switch o.Mix {
		case "C02", "C03":
			if r.Intn(12) == 0 && len(cur.all) > 1 {
				push([]string{"Q", fmt.Sprint(cur.all[len(cur.all)-1-r.Intn(min(4, len(cur.all)))]), fmt.Sprint(cur.all[r.Intn(len(cur.all))])})
			}
			if r.Intn(10) == 0 && len(cur.all) > 0 {
				push([]string{"M", fmt.Sprint(cur.all[r.Intn(len(cur.all))])})
			}
			if r.Intn(15) == 0 {
				push([]string{"G", fmt.Sprint(1 + r.Intn(int(e.def.Frame)+1))})
			}
		case "C04":
			if r.Intn(5) == 0 && len(cur.all) > 1 {
				main = append(main, []string{"Q", fmt.Sprint(cur.all[len(cur.all)-1-r.Intn(min(4, len(cur.all)))]), fmt.Sprint(cur.all[r.Intn(len(cur.all))])})
			}
			if r.Intn(6) == 0 {
				if g := ghost(); g != nil {
					main = append(main, g)
				}
			}
			if r.Intn(3) == 0 {
				if f, ok := wrongFrame(e); ok {
					main = append(main, []string{"X", fmt.Sprint(e.def.N), fmt.Sprint(f)})
				}
			}
			if r.Intn(60) == 0 && e.def.Frame > e.spf && e.spf >= 1 {
				// an allowed but not highest frame, processed INSTEAD of the event
				f := e.spf + uint32(r.Intn(int(e.def.Frame-e.spf)))
				main = append(main, []string{"X", fmt.Sprint(e.def.N), fmt.Sprint(f)})
				skipP = true
			}
			if r.Intn(3) == 0 {
				if g := arbBuild("B"); g != nil {
					main = append(main, g)
					builds++
				}
			}
			if !burstDone && len(cur.all) > 3 && r.Intn(2) == 0 {
				if pre, probe := burst("b", e); probe != nil {
					main = append(main, pre...)
					main = append(main, probe)
					builds += len(pre) + 1
					burstDone = true
				}
			}
			if !rburstDone && e.def.Seq > 1 && len(e.def.Parents) >= 2 && e.def.Frame > e.spf && r.Intn(3) == 0 {
				// in-process restarts that keep the index object: the build counter restarts at 1, so build #1 before
				// and build #1 after the restart get the same temporary id (same epoch and Lamport time)
				mk := func(kind string, ps []int) []string {
					g := []string{kind, fmt.Sprint(e.def.Epoch), fmt.Sprint(e.def.Creator), fmt.Sprint(e.def.Seq), fmt.Sprint(e.def.Lamport)}
					for _, p := range ps {
						g = append(g, fmt.Sprint(p))
					}
					return g
				}
				main = append(main, []string{"r"}, mk("b", e.def.Parents[:1]), []string{"r"}, mk("B", e.def.Parents))
				builds = 1
				rburstDone = true
			}
		case "C07":
			if r.Intn(4) == 0 {
				if g := ghost(); g != nil {
					main = append(main, g)
					for _, p := range g[7:] {
						pn, _ := strconv.Atoi(p)
						probeTargets = append(probeTargets, pn)
					}
					if len(probeTargets) > 12 {
						probeTargets = probeTargets[len(probeTargets)-12:]
					}
				}
			}
			if len(cur.all) > 0 && len(probeTargets) > 0 && r.Intn(2) == 0 {
				// forkless-cause probes of recent events against the parents of dropped events
				a := cur.all[len(cur.all)-1-r.Intn(min(3, len(cur.all)))]
				for k := 0; k < 3; k++ {
					b := probeTargets[r.Intn(len(probeTargets))]
					if evs[b].def.Epoch == cur.epoch {
						pushBoth([]string{"Q", fmt.Sprint(a), fmt.Sprint(b)})
					}
				}
			}
			if r.Intn(3) == 0 {
				if f, ok := wrongFrame(e); ok {
					main = append(main, []string{"X", fmt.Sprint(e.def.N), fmt.Sprint(f)})
				}
			}
			if r.Intn(3) == 0 {
				if g := arbBuild("b"); g != nil {
					main = append(main, g)
					builds++
				}
			}
			if r.Intn(6) == 0 {
				if g := arbBuild("B"); g != nil {
					pushBoth(g)
					builds++
				}
			}
			if !burstDone && len(cur.all) > 3 && r.Intn(2) == 0 {
				if pre, probe := burst("b", e); probe != nil {
					main = append(main, pre...)
					pushBoth(probe)
					builds += len(pre) + 1
					burstDone = true
				}
			}
			if r.Intn(12) == 0 && len(cur.all) > 0 {
				pushBoth([]string{"M", fmt.Sprint(cur.all[r.Intn(len(cur.all))])})
			}
			if r.Intn(12) == 0 {
				pushBoth([]string{"G", fmt.Sprint(1 + r.Intn(int(e.def.Frame)+1))})
			}
		case "C08", "C09":
			if r.Intn(8) == 0 {
				if g := arbBuild("B"); g != nil {
					pushBoth2(&main, &alt, g, o.Mix != "C09" || altStarted)
				}
			}
			if o.Mix == "C08" {
				// rejected / ghost events and speculative builds (kept in the never-restarted run too),
				// often followed directly by a restart
				var inj []string
				switch r.Intn(8) {
				case 0:
					if f, ok := wrongFrame(e); ok {
						inj = []string{"X", fmt.Sprint(e.def.N), fmt.Sprint(f)}
					}
				case 1:
					inj = ghost()
				case 2:
					inj = arbBuild("b")
				}
				if inj != nil {
					pushBoth(inj)
					if r.Intn(2) == 0 {
						main = append(main, []string{[]string{"R", "R", "r"}[r.Intn(3)]})
					}
				}
			}
		}
		if o.Mix == "C07" && r.Intn(10) == 0 {
			pushBoth([]string{[]string{"R", "r"}[r.Intn(2)]}) // a restart after injected operations, in both runs
			builds = 0
		}
		if !skipP {
			push([]string{"P", fmt.Sprint(e.def.N)})
			if e.sealed || r.Intn(25) == 0 {
				push([]string{"W"})
			}
		}
		cur.own[e.def.Creator] = append(cur.own[e.def.Creator], e.def.N)
		cur.all = append(cur.all, e.def.N)
		if o.Mix == "C08" {
			// restart boundaries: always right after a decision / seal, otherwise by the scenario's rate
			if e.blocks > 0 || e.sealed || r.Intn(100) < rrate {
				main = append(main, []string{[]string{"R", "R", "r"}[r.Intn(3)]})
				builds = 0
			}
		}
	}
	if o.Mix == "C08" && (r.Intn(4) == 0 || casDefs != nil) {
		// restart at EVERY boundary
		main = nil
		pcount := 0
		for _, g := range alt {
			main = append(main, g)
			if g[0] == "P" {
				pcount++
			}
			if casDefs != nil && pcount < len(casDefs)-8 {
				continue // long cascade prefix: restarts start shortly before the chained decisions
			}
			if g[0] == "P" || g[0] == "X" || g[0] == "Y" || g[0] == "b" {
				main = append(main, []string{[]string{"R", "R", "r"}[r.Intn(3)]})
			}
		}
	}
	for _, g := range main {
		add(g...)
	}
	return toks
}

func pushBoth2(main, alt *[][]string, g []string, toAlt bool) {
	*main = append(*main, g)
	if toAlt {
		*alt = append(*alt, g)
	}
}

func idOf(d *EvDef) hash.Event {
	e := &tdag.TestEvent{}
	e.SetEpoch(idx.Epoch(d.Epoch))
	e.SetLamport(idx.Lamport(d.Lamport))
	e.SetID(Tail(d.N))
	return e.ID()
}

// shuffleScript returns a random parents-first order of each epoch segment of the script.
func shuffleScript(r *rand.Rand, script []item, evs []*genEv) []item {
	var out []item
	// adversarial variant: the events of one validator are delivered as late as parents-first allows
	// (decisions pile up and are taken in one call when they finally arrive)
	delayMode := r.Intn(4) == 0
	flush := func(seg []item) {
		delayed := uint32(0)
		if delayMode && len(seg) > 0 {
			delayed = evs[seg[r.Intn(len(seg))].ev].def.Creator
		}
		done := map[int]bool{}
		inSeg := map[int]bool{}
		for _, it := range seg {
			inSeg[it.ev] = true
		}
		rest := append([]item{}, seg...)
		for len(rest) > 0 {
			var ready []int
			for k, it := range rest {
				ok := true
				for _, p := range evs[it.ev].def.Parents {
					if inSeg[p] && !done[p] {
						ok = false
					}
				}
				if ok && delayed != 0 && evs[it.ev].def.Creator == delayed {
					ok = false // only when nothing else is ready (second pass below)
				}
				if ok {
					ready = append(ready, k)
				}
				if len(ready) >= 6 && delayed == 0 { // keep the shuffle local
					break
				}
			}
			if len(ready) == 0 { // only delayed events are ready
				for k, it := range rest {
					ok := true
					for _, p := range evs[it.ev].def.Parents {
						if inSeg[p] && !done[p] {
							ok = false
						}
					}
					if ok {
						ready = append(ready, k)
						break
					}
				}
			}
			k := ready[r.Intn(len(ready))]
			out = append(out, rest[k])
			done[rest[k].ev] = true
			rest = append(rest[:k], rest[k+1:]...)
		}
	}
	var seg []item
	for _, it := range script {
		if it.ev < 0 {
			flush(seg)
			seg = nil
			out = append(out, it)
			continue
		}
		if len(seg) > 0 && evs[seg[0].ev].def.Epoch != evs[it.ev].def.Epoch {
			flush(seg)
			seg = nil
		}
		seg = append(seg, it)
	}
	flush(seg)
	return out
}

func min(a, b int) int {
	if a < b {
		return a
	}
	return b
}
