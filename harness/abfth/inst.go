// Package abfth drives the REAL abft.IndexedLachesis for the consensus properties
// C02 C03 C04 C07 C08 C09: one instance = own event store, abft.Store over memory DBs that
// survive a restart, vecfc index behind the adapter, application callbacks with a sealing
// policy given as data.  It re-implements what the repo keeps in _test.go files.
package abfth

import (
	"errors"
	"fmt"
	"sort"
	"strings"

	"github.com/Fantom-foundation/lachesis-base/abft"
	"github.com/Fantom-foundation/lachesis-base/hash"
	"github.com/Fantom-foundation/lachesis-base/inter/dag"
	"github.com/Fantom-foundation/lachesis-base/inter/dag/tdag"
	"github.com/Fantom-foundation/lachesis-base/inter/idx"
	"github.com/Fantom-foundation/lachesis-base/inter/pos"
	"github.com/Fantom-foundation/lachesis-base/kvdb"
	"github.com/Fantom-foundation/lachesis-base/kvdb/memorydb"
	"github.com/Fantom-foundation/lachesis-base/lachesis"
	"github.com/Fantom-foundation/lachesis-base/utils/adapters"
	"github.com/Fantom-foundation/lachesis-base/utils/cachescale"
	"github.com/Fantom-foundation/lachesis-base/vecengine"
	"github.com/Fantom-foundation/lachesis-base/vecfc"
)

// Cfg holds the cache configuration of one scenario.
type Cfg struct {
	FcCap       int  // vecfc IndexCacheConfig.ForklessCausePairs
	RootsNum    uint // abft StoreCacheConfig.RootsNum
	RootsFrames int  // abft StoreCacheConfig.RootsFrames
}

// VW is one (validator id, weight) pair of a ValidatorsBuilder.Set call.
type VW struct{ ID, W uint32 }

// SealRule: EndBlock of the Block-th block of epoch Epoch returns Vals.
type SealRule struct {
	Epoch uint32
	Block int
	Vals  []VW
}

// BlockObs is what the application saw for one block.
type BlockObs struct {
	Listened  bool // the application installed an ApplyEvent listener for this block
	Atropos   hash.Event
	Cheaters  []idx.ValidatorID
	Delivered []hash.Event
	Seal      *pos.Validators
}

type critPanic struct{ err error }

type evStore struct{ m map[hash.Event]dag.Event }

func (s *evStore) HasEvent(h hash.Event) bool { _, ok := s.m[h]; return ok }
func (s *evStore) GetEvent(h hash.Event) dag.Event {
	e, ok := s.m[h]
	if !ok {
		return nil
	}
	return e
}

// Inst is one consensus instance together with its application.
type Inst struct {
	cfg    Cfg
	policy []SealRule

	mainDB   kvdb.Store
	epochDB  map[idx.Epoch]kvdb.Store // the live epoch DB per epoch number
	reopen   bool                     // next getEpochDB call re-opens the kept DB (restart)
	store    *abft.Store
	Lch      *abft.IndexedLachesis
	dagIdx   *adapters.VectorToDagIndexer
	events   *evStore
	proc     map[hash.Event]bool // accepted in the current epoch
	nblocks  int                 // blocks seen in the current epoch (application state)
	blocks   []BlockObs          // collected during the current call
	Dead     bool
	NBuilds  int
	// listener policy of the application: mode 0 = ApplyEvent for every block, 1 = from the ListenN-th block of
	// the instance's life on, 2 = for every other block (odd ones)
	ListenMode, ListenN int
	Flags               int // 1: nil EndBlock on non-sealing blocks; 2: one-byte HighestBefore/LowestAfter caches; 4: custom engine, no OnDropNotFlushed, no vector caches; 8: vecfc.DefaultConfig (production-size) caches; 16: name-keyed persistent epoch DB producer
	totalBlocks         int
	lastCrit string
	keepIndex bool // the next mkLachesis reuses the application's DagIndexer object
}

func BuildVals(vw []VW) *pos.Validators {
	b := pos.NewBuilder()
	for _, x := range vw {
		b.Set(idx.ValidatorID(x.ID), pos.Weight(x.W))
	}
	return b.Build()
}

func (in *Inst) crit(err error) { panic(critPanic{err}) }

// nameDB is a handle on a persistent, name-keyed database (memorydb.NewProducer / on-disk style): Close makes
// the HANDLE unusable and leaves the data, Drop erases the data; opening the same name again gives a new handle
// on the same data.
type nameDB struct {
	kvdb.Store
	closed bool
	drop   func()
}

var errClosed = errors.New("database closed")

func (d *nameDB) Close() error { d.closed = true; return nil }
func (d *nameDB) Drop()        { d.drop() }
func (d *nameDB) Get(k []byte) ([]byte, error) {
	if d.closed {
		return nil, errClosed
	}
	return d.Store.Get(k)
}
func (d *nameDB) Has(k []byte) (bool, error) {
	if d.closed {
		return false, errClosed
	}
	return d.Store.Has(k)
}
func (d *nameDB) Put(k, v []byte) error {
	if d.closed {
		return errClosed
	}
	return d.Store.Put(k, v)
}
func (d *nameDB) Delete(k []byte) error {
	if d.closed {
		return errClosed
	}
	return d.Store.Delete(k)
}

func (in *Inst) getEpochDB(e idx.Epoch) kvdb.Store {
	if in.Flags&16 != 0 { // ONE database per epoch name: an open of a name that exists returns its data
		db, ok := in.epochDB[e]
		if !ok {
			db = memorydb.New()
			in.epochDB[e] = db
		}
		return &nameDB{Store: db, drop: func() { delete(in.epochDB, e) }}
	}
	if in.reopen {
		in.reopen = false
		if db, ok := in.epochDB[e]; ok {
			return db
		}
	}
	db := memorydb.New()
	in.epochDB[e] = db
	return db
}

func (in *Inst) storeCfg() abft.StoreConfig {
	return abft.StoreConfig{Cache: abft.StoreCacheConfig{RootsNum: in.cfg.RootsNum, RootsFrames: in.cfg.RootsFrames}}
}

func (in *Inst) idxCfg() vecfc.IndexConfig {
	c := vecfc.LiteConfig()
	if in.Flags&8 != 0 { // production-size vector caches
		c = vecfc.DefaultConfig(cachescale.Identity)
	}
	c.Caches.ForklessCausePairs = in.cfg.FcCap
	if in.Flags&2 != 0 { // every vector is evicted at once: all reads go to the epoch DB
		c.Caches.HighestBeforeSeqSize = 1
		c.Caches.LowestAfterSeqSize = 1
	}
	return c
}

func (in *Inst) callbacks() lachesis.ConsensusCallbacks {
	if in.ListenMode == 3 { // an application that installs no BeginBlock: frames are decided, nothing is reported
		return lachesis.ConsensusCallbacks{}
	}
	return lachesis.ConsensusCallbacks{
		BeginBlock: func(b *lachesis.Block) lachesis.BlockCallbacks {
			in.totalBlocks++
			listen := Listens(in.ListenMode, in.ListenN, in.totalBlocks)
			bo := BlockObs{Listened: listen, Atropos: b.Atropos, Cheaters: append([]idx.ValidatorID{}, b.Cheaters...)}
			in.blocks = append(in.blocks, bo)
			cur := len(in.blocks) - 1
			var apply lachesis.ApplyEventFn
			if listen {
				apply = func(e dag.Event) {
					in.blocks[cur].Delivered = append(in.blocks[cur].Delivered, e.ID())
				}
			}
			if in.Flags&1 != 0 {
				// EndBlock is optional: leave it out on the blocks the sealing policy does not seal
				seals := false
				ep := uint32(in.store.GetEpoch())
				for _, r := range in.policy {
					if r.Epoch == ep && r.Block == in.nblocks+1 {
						seals = true
					}
				}
				if !seals {
					in.nblocks++
					return lachesis.BlockCallbacks{ApplyEvent: apply}
				}
			}
			return lachesis.BlockCallbacks{
				ApplyEvent: apply,
				EndBlock: func() *pos.Validators {
					in.nblocks++
					ep := uint32(in.store.GetEpoch())
					for _, r := range in.policy {
						if r.Epoch == ep && r.Block == in.nblocks {
							v := BuildVals(r.Vals)
							in.blocks[cur].Seal = v
							in.nblocks = 0
							in.proc = map[hash.Event]bool{}
							return v
						}
					}
					return nil
				},
			}
		},
	}
}

// Listens tells whether the application installs ApplyEvent for its k-th block (k from 1).
func Listens(mode, n, k int) bool {
	switch mode {
	case 1:
		return k >= n
	case 2:
		return k%2 == 1
	}
	return true
}

func (in *Inst) open() error {
	in.store = abft.NewStore(in.mainDB, in.getEpochDB, in.crit, in.storeCfg())
	return nil
}

// newIndex builds the application's DAG index.  Flags&4: an index over an externally constructed
// vecengine.Engine (vecfc.NewIndexWithEngine) with the vector caches disabled, so that the OPTIONAL
// Callbacks.OnDropNotFlushed (whose only job is to purge those caches) is legitimately left nil.
func (in *Inst) newIndex() *vecfc.Index {
	if in.Flags&4 == 0 {
		return vecfc.NewIndex(in.crit, in.idxCfg())
	}
	var fc *vecfc.Index
	engine := vecengine.NewIndex(in.crit, vecengine.Callbacks{
		GetHighestBefore: func(id hash.Event) vecengine.HighestBeforeI { return fc.GetHighestBefore(id) },
		GetLowestAfter:   func(id hash.Event) vecengine.LowestAfterI { return fc.GetLowestAfter(id) },
		SetHighestBefore: func(id hash.Event, b vecengine.HighestBeforeI) {
			fc.SetHighestBefore(id, b.(*vecfc.HighestBeforeSeq))
		},
		SetLowestAfter: func(id hash.Event, b vecengine.LowestAfterI) {
			fc.SetLowestAfter(id, b.(*vecfc.LowestAfterSeq))
		},
		NewHighestBefore: func(size idx.Validator) vecengine.HighestBeforeI { return vecfc.NewHighestBeforeSeq(size) },
		NewLowestAfter:   func(size idx.Validator) vecengine.LowestAfterI { return vecfc.NewLowestAfterSeq(size) },
		OnDbReset:        func(db kvdb.Store) { fc.GetEngineCallbacks().OnDbReset(db) },
		// OnDropNotFlushed: nil
	})
	c := in.idxCfg()
	c.Caches.HighestBeforeSeqSize = 0
	c.Caches.LowestAfterSeqSize = 0
	fc = vecfc.NewIndexWithEngine(in.crit, c, engine)
	return fc
}

func (in *Inst) mkLachesis() {
	if !in.keepIndex || in.dagIdx == nil {
		in.dagIdx = &adapters.VectorToDagIndexer{Index: in.newIndex()}
	}
	in.Lch = abft.NewIndexedLachesis(in.store, in.events, in.dagIdx, in.crit, abft.LiteConfig())
}

// NewInst applies the genesis and bootstraps.
func NewInst(cfg Cfg, epoch uint32, vals []VW, policy []SealRule) *Inst {
	return NewInstOpts(cfg, epoch, vals, policy, 0, 0, 0)
}

// NewInstOpts is NewInst with the application-side options of the "L" header group.
func NewInstOpts(cfg Cfg, epoch uint32, vals []VW, policy []SealRule, listenMode, listenN, flags int) *Inst {
	in := &Inst{ListenMode: listenMode, ListenN: listenN, Flags: flags, cfg: cfg, policy: policy, mainDB: memorydb.New(), epochDB: map[idx.Epoch]kvdb.Store{},
		events: &evStore{m: map[hash.Event]dag.Event{}}, proc: map[hash.Event]bool{}}
	in.open()
	if err := in.store.ApplyGenesis(&abft.Genesis{Epoch: idx.Epoch(epoch), Validators: BuildVals(vals)}); err != nil {
		panic(err)
	}
	in.mkLachesis()
	if err := in.Lch.Bootstrap(in.callbacks()); err != nil {
		panic(err)
	}
	return in
}

func (in *Inst) Epoch() uint32            { return uint32(in.store.GetEpoch()) }
func (in *Inst) Ldf() uint32              { return uint32(in.store.GetLastDecidedFrame()) }
func (in *Inst) Validators() *pos.Validators { return in.store.GetValidators() }
func (in *Inst) Processed(h hash.Event) bool { return in.proc[h] }

func classify(msg string) string {
	switch {
	case strings.Contains(msg, "forkless caused by 2 fork roots") && strings.Contains(msg, "!="):
		return "fork2yes"
	case strings.Contains(msg, "forkless caused by 2 fork roots"):
		return "fork2cnt"
	case strings.Contains(msg, "every root must vote"):
		return "votemissing"
	case strings.Contains(msg, "root must be forkless caused by at least"):
		return "noquorumprev"
	case strings.Contains(msg, "all the roots are decided as 'no'"):
		return "allno"
	}
	return "crit"
}

// guarded runs f; a crit or a Go panic kills the instance and is reported as a token.
func (in *Inst) guarded(f func() string) (res string) {
	defer func() {
		if r := recover(); r != nil {
			in.Dead = true
			if cp, ok := r.(critPanic); ok {
				in.lastCrit = cp.err.Error()
				res = "crit:" + classify(cp.err.Error())
			} else {
				in.lastCrit = fmt.Sprint(r)
				res = "crit:panic"
			}
		}
	}()
	return f()
}

// guard is the application's check in front of Process/Build:
// 1 already processed, 2 other epoch, 3 a parent is not processed (in this epoch), 4 unknown creator
func (in *Inst) guard(e dag.Event, dup bool) int {
	if dup && in.proc[e.ID()] {
		return 1
	}
	if e.Epoch() != in.store.GetEpoch() {
		return 2
	}
	for _, p := range e.Parents() {
		if !in.proc[p] {
			return 3
		}
	}
	if !in.store.GetValidators().Exists(e.Creator()) {
		return 4
	}
	return 0
}

// Process: guard, insert into the event store, real Process, remove on error.
func (in *Inst) Process(e dag.Event) (res string, blocks []BlockObs) {
	if g := in.guard(e, true); g != 0 {
		return fmt.Sprintf("s%d", g), nil
	}
	in.blocks = nil
	in.events.m[e.ID()] = e
	res = in.guarded(func() string {
		err := in.Lch.Process(e)
		if err == nil {
			return "ok"
		}
		if err == abft.ErrWrongFrame {
			return "wf"
		}
		in.Dead = true
		return "crit:" + classify(err.Error())
	})
	if res != "ok" {
		delete(in.events.m, e.ID())
	} else {
		sealed := false
		for _, b := range in.blocks {
			if b.Seal != nil {
				sealed = true
			}
		}
		if !sealed {
			in.proc[e.ID()] = true
		}
	}
	return res, in.blocks
}

// Build: guard, real Build; returns "f<frame>" or an error token.
func (in *Inst) Build(e *tdag.TestEvent) string {
	if g := in.guard(e, false); g != 0 {
		return fmt.Sprintf("s%d", g)
	}
	in.NBuilds++
	return in.guarded(func() string {
		err := in.Lch.Build(e)
		if err != nil {
			in.Dead = true
			return "crit:" + classify(err.Error())
		}
		return fmt.Sprintf("f%d", e.Frame())
	})
}

// RestartKeepIndex is Restart with the application keeping its DagIndexer object (in-process restart).
func (in *Inst) RestartKeepIndex() (res string, blocks []BlockObs) {
	in.keepIndex = true
	defer func() { in.keepIndex = false }()
	return in.Restart()
}

// Restart: a new Store over the same databases, a fresh index, Bootstrap.
func (in *Inst) Restart() (res string, blocks []BlockObs) {
	in.blocks = nil
	in.reopen = true
	res = in.guarded(func() string {
		in.open()
		in.mkLachesis()
		if err := in.Lch.Bootstrap(in.callbacks()); err != nil {
			in.Dead = true
			return "crit:" + classify(err.Error())
		}
		return "ok"
	})
	in.reopen = false
	return res, in.blocks
}

// Reset switches to a new empty epoch.
func (in *Inst) Reset(epoch uint32, vals []VW) string {
	return in.guarded(func() string {
		if err := in.Lch.Reset(idx.Epoch(epoch), BuildVals(vals)); err != nil {
			in.Dead = true
			return "crit:" + classify(err.Error())
		}
		in.nblocks = 0
		in.proc = map[hash.Event]bool{}
		return "ok"
	})
}

// Merged returns the merged highest-before clock of a processed event: "F" or the seq per validator.
func (in *Inst) Merged(h hash.Event) []string {
	var out []string
	in.guarded(func() string {
		clock := in.dagIdx.GetMergedHighestBefore(h)
		n := int(in.store.GetValidators().Len())
		for i := 0; i < n; i++ {
			s := clock.Get(idx.Validator(i))
			if s.IsForkDetected() {
				out = append(out, "F")
			} else {
				out = append(out, fmt.Sprint(uint32(s.Seq())))
			}
		}
		return ""
	})
	return out
}

// FC asks the instance's index for ForklessCause(a, b).
func (in *Inst) FC(a, b hash.Event) string {
	return in.guarded(func() string {
		if in.dagIdx.ForklessCause(a, b) {
			return "q1"
		}
		return "q0"
	})
}

// RootOb is one registered root of a frame.
type RootOb struct {
	Val uint32
	ID  hash.Event
}

// FrameRoots returns Store.GetFrameRoots(f) in canonical (validator, id) order.
func (in *Inst) FrameRoots(f uint32) []RootOb {
	var out []RootOb
	in.guarded(func() string {
		for _, r := range in.store.GetFrameRoots(idx.Frame(f)) {
			if uint32(r.Slot.Frame) != f {
				out = append(out, RootOb{Val: 0xffffffff, ID: r.ID})
				continue
			}
			out = append(out, RootOb{Val: uint32(r.Slot.Validator), ID: r.ID})
		}
		return ""
	})
	sort.Slice(out, func(i, j int) bool {
		if out[i].Val != out[j].Val {
			return out[i].Val < out[j].Val
		}
		return string(out[i].ID.Bytes()) < string(out[j].ID.Bytes())
	})
	return out
}

// LastCrit returns the text of the last crit / panic (diagnostics only).
func (in *Inst) LastCrit() string { return in.lastCrit }
