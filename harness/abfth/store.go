package abfth

import (
	"fmt"
	"math/big"
	"math/rand"
	"sort"
	"strconv"
	"strings"

	"github.com/Fantom-foundation/lachesis-base/abft"
	"github.com/Fantom-foundation/lachesis-base/hash"
	"github.com/Fantom-foundation/lachesis-base/inter/dag/tdag"
	"github.com/Fantom-foundation/lachesis-base/inter/idx"
)

// STORE glue cases: the small abft.Store codecs are driven DIRECTLY (no consensus run), so that every
// persisted number can be exercised at the boundaries of its declared width.  Model: coq/model/AbftStore.v.
//
//   <mix> STORE rootsNum rootsFrames
//   ; CF e f            SetEventConfirmedOn(id e, frame f)
//   ; GC e              GetEventConfirmedOn(id e)                          -> f<n>
//   ; LD f              SetLastDecidedState{LastDecidedFrame f}
//   ; GL                GetLastDecidedFrame: live store, fresh Store over the same main DB -> l<n> l<n>
//   ; ES ep id w ..     SetEpochState{ep, validators}
//   ; GE                GetEpochState: live, fresh                         -> e<ep> id:w .. / e<ep> id:w ..
//   ; AR spf f v e      AddRoot(spf, event{frame f, creator v, id e})
//   ; GR f              GetFrameRoots(f)                                   -> g v:id ..
// e is a decimal number below 2^256 (the 32 id bytes, big endian); all other numbers are uint32.

// IsStore tells a STORE case from a consensus scenario.
func IsStore(in []string) bool { return len(in) >= 2 && in[1] == "STORE" }

func p32(s string) (uint32, bool) {
	v, err := strconv.ParseUint(s, 10, 32)
	return uint32(v), err == nil
}

func pid(s string) (hash.Event, bool) {
	z, ok := new(big.Int).SetString(s, 10)
	if !ok || z.Sign() < 0 || z.BitLen() > 256 {
		return hash.Event{}, false
	}
	var h hash.Event
	z.FillBytes(h[:])
	return h, true
}

func idTok(h hash.Event) string { return new(big.Int).SetBytes(h[:]).String() }

type rootKey struct {
	f, v uint32
	id   hash.Event
}

// ExecStore runs one STORE case on the real abft.Store.
func ExecStore(in []string, stat func(string)) []string {
	var groups [][]string
	cur := []string{}
	for _, t := range in {
		if t == ";" {
			groups = append(groups, cur)
			cur = []string{}
		} else {
			cur = append(cur, t)
		}
	}
	groups = append(groups, cur)
	h := groups[0]
	cfg := abft.StoreConfig{Cache: abft.StoreCacheConfig{RootsNum: 50, RootsFrames: 5}}
	if len(h) >= 4 {
		a, _ := p32(h[2])
		b, _ := p32(h[3])
		cfg.Cache.RootsNum, cfg.Cache.RootsFrames = uint(a), int(b)
	}
	// genesis {epoch 1, validators {1: 1}} and a Bootstrap, which is what opens the epoch tables
	inst := NewInst(Cfg{FcCap: 10, RootsNum: cfg.Cache.RootsNum, RootsFrames: cfg.Cache.RootsFrames}, 1, []VW{{1, 1}}, nil)
	st := inst.store
	crit := func(err error) { panic(critPanic{err}) }
	fresh := func() *abft.Store { return abft.NewStore(inst.mainDB, inst.getEpochDB, crit, cfg) }
	have := map[rootKey]bool{}

	guarded := func(f func() []string) (out []string) {
		defer func() {
			if r := recover(); r != nil {
				msg := fmt.Sprint(r)
				if cp, ok := r.(critPanic); ok {
					msg = cp.err.Error()
				}
				out = []string{"crit:" + strings.ReplaceAll(msg, " ", "_")}
			}
		}()
		return f()
	}
	var out []string
	first := true
	emit := func(toks []string) {
		if !first {
			out = append(out, ";")
		}
		first = false
		out = append(out, toks...)
	}
	for _, g := range groups[1:] {
		if len(g) == 0 {
			continue
		}
		res := guarded(func() []string {
			switch {
			case g[0] == "CF" && len(g) == 3:
				e, ok1 := pid(g[1])
				f, ok2 := p32(g[2])
				if !ok1 || !ok2 {
					return []string{"nodef"}
				}
				st.SetEventConfirmedOn(e, idx.Frame(f))
				stat("store_CF")
				return []string{"ok"}
			case g[0] == "GC" && len(g) == 2:
				e, ok1 := pid(g[1])
				if !ok1 {
					return []string{"nodef"}
				}
				stat("store_GC")
				return []string{fmt.Sprintf("f%d", uint32(st.GetEventConfirmedOn(e)))}
			case g[0] == "LD" && len(g) == 2:
				f, ok := p32(g[1])
				if !ok {
					return []string{"nodef"}
				}
				st.SetLastDecidedState(&abft.LastDecidedState{LastDecidedFrame: idx.Frame(f)})
				stat("store_LD")
				return []string{"ok"}
			case g[0] == "GL" && len(g) == 1:
				stat("store_GL")
				return []string{fmt.Sprintf("l%d", uint32(st.GetLastDecidedFrame())), fmt.Sprintf("l%d", uint32(fresh().GetLastDecidedFrame()))}
			case g[0] == "ES" && len(g) >= 2 && len(g)%2 == 0:
				ep, ok := p32(g[1])
				var vw []VW
				var sum uint64
				for i := 2; i+1 < len(g); i += 2 {
					id, ok1 := p32(g[i])
					w, ok2 := p32(g[i+1])
					ok = ok && ok1 && ok2
					vw = append(vw, VW{id, w})
					sum += uint64(w)
				}
				if !ok {
					return []string{"nodef"}
				}
				if sum > 1<<31-1 { // the builder rejects it (every Set weight counts, as in the model's guard)
					return []string{"skip"}
				}
				vals := BuildVals(vw)
				if vals.Len() == 0 {
					return []string{"skip"}
				}
				st.SetEpochState(&abft.EpochState{Epoch: idx.Epoch(ep), Validators: vals})
				stat("store_ES")
				return []string{"ok"}
			case g[0] == "GE" && len(g) == 1:
				stat("store_GE")
				pr := func(s *abft.Store) []string {
					es := s.GetEpochState()
					t := []string{fmt.Sprintf("e%d", uint32(es.Epoch))}
					for _, id := range es.Validators.SortedIDs() {
						t = append(t, fmt.Sprintf("%d:%d", uint32(id), uint32(es.Validators.Get(id))))
					}
					return t
				}
				t := pr(st)
				t = append(t, "/")
				return append(t, pr(fresh())...)
			case g[0] == "AR" && len(g) == 5:
				spf, ok1 := p32(g[1])
				f, ok2 := p32(g[2])
				v, ok3 := p32(g[3])
				e, ok4 := pid(g[4])
				if !ok1 || !ok2 || !ok3 || !ok4 {
					return []string{"nodef"}
				}
				if !(spf < f) || f-spf > 16 || f > 1<<32-2 {
					return []string{"skip"}
				}
				for x := spf + 1; x <= f; x++ {
					if have[rootKey{x, v, e}] {
						return []string{"skip"}
					}
				}
				ev := &tdag.TestEvent{}
				ev.SetEpoch(idx.Epoch(uint32(e[0])<<24 | uint32(e[1])<<16 | uint32(e[2])<<8 | uint32(e[3])))
				ev.SetLamport(idx.Lamport(uint32(e[4])<<24 | uint32(e[5])<<16 | uint32(e[6])<<8 | uint32(e[7])))
				ev.SetCreator(idx.ValidatorID(v))
				ev.SetFrame(idx.Frame(f))
				var tail [24]byte
				copy(tail[:], e[8:])
				ev.SetID(tail)
				if ev.ID() != e {
					panic("harness: event id not as requested")
				}
				st.AddRoot(idx.Frame(spf), ev)
				for x := spf + 1; x <= f; x++ {
					have[rootKey{x, v, e}] = true
				}
				stat("store_AR")
				return []string{"ok"}
			case g[0] == "GR" && len(g) == 2:
				f, ok := p32(g[1])
				if !ok {
					return []string{"nodef"}
				}
				stat("store_GR")
				type ro struct {
					v  uint32
					id hash.Event
				}
				var rs []ro
				for _, r := range st.GetFrameRoots(idx.Frame(f)) {
					if uint32(r.Slot.Frame) != f {
						return []string{fmt.Sprintf("badframe%d", uint32(r.Slot.Frame))}
					}
					rs = append(rs, ro{uint32(r.Slot.Validator), r.ID})
				}
				sort.Slice(rs, func(i, j int) bool {
					if rs[i].v != rs[j].v {
						return rs[i].v < rs[j].v
					}
					return string(rs[i].id[:]) < string(rs[j].id[:])
				})
				t := []string{"g"}
				for _, r := range rs {
					t = append(t, fmt.Sprintf("%d:%s", r.v, idTok(r.id)))
				}
				return t
			}
			return []string{"nodef"}
		})
		emit(res)
	}
	return out
}

// boundary values of a uint32 field
var u32Edges = []uint32{0, 1, 255, 256, 257, 1<<16 - 1, 1 << 16, 1<<16 + 1, 1<<24 - 1, 1 << 24, 1<<24 + 1, 1<<31 - 1, 1 << 31, 1<<31 + 1, 1<<32 - 2, 1<<32 - 1}

func edge32(r *rand.Rand) uint32 {
	switch r.Intn(4) {
	case 0:
		return uint32(r.Intn(6))
	case 1:
		return r.Uint32()
	default:
		return u32Edges[r.Intn(len(u32Edges))]
	}
}

func edgeID(r *rand.Rand) string {
	var b [32]byte
	switch r.Intn(3) {
	case 0:
		b[31] = byte(r.Intn(4))
	case 1:
		r.Read(b[:])
	default: // same low bytes as another id, differing high bytes
		b[31] = byte(r.Intn(4))
		b[r.Intn(8)] = byte(1 + r.Intn(255))
	}
	return new(big.Int).SetBytes(b[:]).String()
}

// GenStore generates one STORE case.
func GenStore(r *rand.Rand, mix string) []string {
	out := []string{mix, "STORE", strconv.Itoa([]int{0, 1, 3, 50}[r.Intn(4)]), strconv.Itoa([]int{1, 2, 5}[r.Intn(3)])}
	u := func(x uint32) string { return strconv.FormatUint(uint64(x), 10) }
	var ids []string
	for i := 0; i < 3; i++ {
		ids = append(ids, edgeID(r))
	}
	var frames []uint32
	n := 6 + r.Intn(14)
	for i := 0; i < n; i++ {
		out = append(out, ";")
		switch r.Intn(8) {
		case 0:
			out = append(out, "CF", ids[r.Intn(len(ids))], u(edge32(r)))
		case 1:
			out = append(out, "GC", ids[r.Intn(len(ids))])
		case 2:
			out = append(out, "LD", u(edge32(r)))
		case 3:
			out = append(out, "GL")
		case 4:
			out = append(out, "ES", u(edge32(r)))
			k := 1 + r.Intn(3)
			budget := uint64(1<<31 - 1)
			if r.Intn(8) == 0 {
				budget = 1 << 32 // sometimes over the builder's limit: both sides skip
			}
			for j := 0; j < k; j++ {
				w := uint64(edge32(r))
				if w == 0 {
					w = 1
				}
				if w > budget {
					w = budget
				}
				if w == 0 {
					break
				}
				budget -= w
				out = append(out, u(edge32(r)), u(uint32(w)))
			}
		case 5:
			out = append(out, "GE")
		case 6:
			f := edge32(r)
			if f == 0 {
				f = 1
			}
			span := uint32(1 + r.Intn(3))
			if span > f {
				span = f
			}
			frames = append(frames, f, f-span+1)
			out = append(out, "AR", u(f-span), u(f), u(edge32(r)), ids[r.Intn(len(ids))])
		case 7:
			f := edge32(r)
			if len(frames) > 0 && r.Intn(4) != 0 {
				f = frames[r.Intn(len(frames))]
			}
			out = append(out, "GR", u(f))
		}
	}
	return out
}
