// Package gsev provides the scripted dag.Event used by the C14/C15 harnesses: an event whose
// id, parents, size and Lamport time are chosen by the script, plus a copy id identifying the
// pushed object (the same event may be pushed several times as different copies).
package gsev

import (
	"encoding/binary"
	"sync/atomic"

	"github.com/Fantom-foundation/lachesis-base/hash"
	"github.com/Fantom-foundation/lachesis-base/inter/dag"
	"github.com/Fantom-foundation/lachesis-base/inter/idx"
)

// Ev is one pushed copy.
type Ev struct {
	dag.MutableBaseEvent
	Cid int    // copy id (-1: not a pushed copy)
	Eid uint64 // event id as a number
	Sz  int
	// C15: position in the script and a hook observing Lamport() reads
	Batch, Pos int
	Bad        bool
	OnLamport  func(*Ev)
	// C14 concurrent mode: called on the first ID() read of this copy (PushEvent reads it first thing
	// under the buffer's mutex: the linearisation point of the push)
	OnFirstID func(*Ev)
	idRead    int32
}

// ID maps an event number to a 32-byte id: epoch 1, lamport in the usual place, the number in
// the last 8 bytes.
func ID(eid uint64) hash.Event {
	var h hash.Event
	h[3] = 1
	binary.BigEndian.PutUint64(h[24:], eid)
	return h
}

// Num is the inverse of ID.
func Num(h hash.Event) uint64 { return binary.BigEndian.Uint64(h[24:]) }

func New(cid int, eid uint64, parents []uint64, size int, lamport uint32) *Ev {
	e := &Ev{Cid: cid, Eid: eid, Sz: size}
	ps := make(hash.Events, len(parents))
	for i, p := range parents {
		ps[i] = ID(p)
	}
	e.SetParents(ps)
	e.SetEpoch(1)
	e.SetLamport(idx.Lamport(lamport))
	return e
}

func (e *Ev) ID() hash.Event {
	if e.OnFirstID != nil && atomic.CompareAndSwapInt32(&e.idRead, 0, 1) {
		e.OnFirstID(e)
	}
	return ID(e.Eid)
}
func (e *Ev) Size() int      { return e.Sz }
func (e *Ev) String() string { return "ev" }
func (e *Ev) Lamport() idx.Lamport {
	if e.OnLamport != nil {
		e.OnLamport(e)
	}
	return e.MutableBaseEvent.Lamport()
}

var _ dag.Event = (*Ev)(nil)
