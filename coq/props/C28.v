(* C28 — thread-safe components are race free and linearizable (first stage: the regenerated table). *)
From Coq Require Import String List NArith Bool.
From LV Require Import model.LockDiscipline gen.LockTable.
Import ListNotations.
Local Open Scope string_scope.

Definition known_unlocked : list (string * string) :=
  [("EventsBuffer", "IsBuffered"); ("EventsBuffer", "Total")].

Theorem C28_lock_table_ok :
  forallb method_ok (filter (fun r => negb (row_in known_unlocked r)) lock_table) = true.
Proof. vm_compute. reflexivity. Qed.

Print Assumptions C28_lock_table_ok.
