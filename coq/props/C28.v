(* C28 — Thread-safe components are race free and linearizable.

   Part 1 (generic, proved once, all objects / all traces): an object whose operations run their body
   inside one critical section of its mutex — exclusive for mutators, shared only for read-only
   operations, no lock only for operations that do not touch the guarded state — refines the atomic
   object; every history is linearizable (Herlihy–Wing) and no data race is reachable.  The mutex
   semantics (sync.Mutex / sync.RWMutex) is the well-formedness condition of traces, not proved.
   Part 2 (regenerated from the Go source on every run): gen/LockTable.v, produced by
   harness/cmd/lockscan; the two [vm_compute] theorems below are statements about THAT table, and
   [C28_components_linearizable] instantiates the premise of part 1 with it. *)
From Coq Require Import String List NArith Bool.
From LV Require Import model.LockDiscipline model.Lin proofs.LinSim proofs.LinHW proofs.LinHB proofs.Lin proofs.LinTable
  model.Wlru model.Semaphore model.LinObjects model.CrashBase model.LinMulti proofs.LinMulti proofs.LinInstances proofs.LinBuffer proofs.LinRefute proofs.LinFlushMS gen.LockTable.
Import ListNotations.
Local Open Scope string_scope.

(* ------------------------------------------------------------------ part 1: generic theorems *)
(* General form, with sync.Cond.Wait: [waits]/[wstep] describe where a body waits; [resumable] is the
   invariant of the locals with which a thread (re-)enters its critical section (model/Lin.v). *)
Theorem C28_locked_refines_atomic :
  forall (state op ret local : Type) (linit : op -> local) (mstep : op -> local -> state -> local * state)
         (fin : op -> local -> option ret) (waits : op -> local -> bool) (wstep : op -> local -> local)
         (kind : op -> lkind) (s0 : state),
    shared_readonly state op local mstep kind -> none_stateless state op local mstep kind ->
    wait_excl op local waits kind ->
    forall resumable, resumable_inv state op ret local linit mstep fin waits wstep resumable ->
    forall tr c, exec state op ret local linit mstep fin waits wstep kind s0 tr c ->
    exists atr a, aexec state op ret local linit mstep fin waits wstep s0 atr a /\ ahist op ret atr = hist op ret tr.
Proof. exact locked_refines_atomic_w. Qed.

Theorem C28_locked_atomic_linearizable :
  forall (state op ret local : Type) (linit : op -> local) (mstep : op -> local -> state -> local * state)
         (fin : op -> local -> option ret) (waits : op -> local -> bool) (wstep : op -> local -> local)
         (kind : op -> lkind) (s0 : state),
    shared_readonly state op local mstep kind -> none_stateless state op local mstep kind ->
    wait_excl op local waits kind ->
    forall resumable, resumable_inv state op ret local linit mstep fin waits wstep resumable ->
    forall tr c, exec state op ret local linit mstep fin waits wstep kind s0 tr c ->
    linearizable state op ret local linit mstep fin waits wstep s0 (hist op ret tr).
Proof. exact locked_atomic_linearizable_w. Qed.

(* bodies that never wait: no further premise *)
Theorem C28_locked_atomic_linearizable_nowait :
  forall (state op ret local : Type) (linit : op -> local) (mstep : op -> local -> state -> local * state)
         (fin : op -> local -> option ret) (kind : op -> lkind) (s0 : state),
    shared_readonly state op local mstep kind -> none_stateless state op local mstep kind ->
    forall tr c, exec state op ret local linit mstep fin nowait nowstep kind s0 tr c ->
    linearizable state op ret local linit mstep fin nowait nowstep s0 (hist op ret tr).
Proof. exact locked_atomic_linearizable. Qed.

(* NOTE on what this says: mutual exclusion is the SEMANTICS of the mutex in this machine (precondition of
   [Acq]); the theorem states that under the lock discipline no configuration with two conflicting enabled
   accesses is reachable.  It is a statement about the discipline, not about the Go code: that the Go code
   follows the discipline rests on the translator (trusted) and on the race detector runs. *)
Theorem C28_locked_race_free :
  forall (state op ret local : Type) (linit : op -> local) (mstep : op -> local -> state -> local * state)
         (fin : op -> local -> option ret) (waits : op -> local -> bool) (wstep : op -> local -> local)
         (kind : op -> lkind) (s0 : state),
    shared_readonly state op local mstep kind -> none_stateless state op local mstep kind ->
    wait_excl op local waits kind ->
    forall resumable, resumable_inv state op ret local linit mstep fin waits wstep resumable ->
    forall tr c, exec state op ret local linit mstep fin waits wstep kind s0 tr c ->
    ~ race state op ret local fin waits kind c.
Proof. exact locked_race_free_w. Qed.

(* conflicting accesses are ordered by the lock: between an access of t inside its critical section and a
   later access of t' inside its own, one of the two sections being exclusive, t gives the mutex up (Unlock,
   or Cond.Wait) and afterwards t' acquires it (program order ; release/acquire ; program order) *)
Theorem C28_conflicting_accesses_ordered :
  forall (state op ret local : Type) (linit : op -> local) (mstep : op -> local -> state -> local * state)
         (fin : op -> local -> option ret) (waits : op -> local -> bool) (wstep : op -> local -> local)
         (kind : op -> lkind) (s0 : state),
    shared_readonly state op local mstep kind -> none_stateless state op local mstep kind ->
    wait_excl op local waits kind ->
    forall resumable, resumable_inv state op ret local linit mstep fin waits wstep resumable ->
    forall pre c0 c1 mid c2 t t' o l o' l',
      exec state op ret local linit mstep fin waits wstep kind s0 pre c0 ->
      th _ _ _ _ c0 t = InCS _ _ _ o l ->
      model.Lin.step state op ret local linit mstep fin waits wstep kind c0 (Body op ret t) c1 ->
      model.Lin.run state op ret local linit mstep fin waits wstep kind c1 mid c2 -> th _ _ _ _ c2 t' = InCS _ _ _ o' l' ->
      t <> t' -> kind o = KExcl \/ kind o' = KExcl ->
      exists m1 x m2 m3, mid = (m1 ++ x :: m2 ++ Acq op ret t' :: m3)%list /\ (x = Rel op ret t \/ x = Wait op ret t).
Proof. exact conflicts_ordered. Qed.

(* every trace of the atomic object is linearizable (the second half of the argument, on its own) *)
Theorem C28_atomic_linearizable :
  forall (state op ret local : Type) (linit : op -> local) (mstep : op -> local -> state -> local * state)
         (fin : op -> local -> option ret) (waits : op -> local -> bool) (wstep : op -> local -> local)
         (s0 : state) atr a,
    aexec state op ret local linit mstep fin waits wstep s0 atr a ->
    linearizable state op ret local linit mstep fin waits wstep s0 (ahist op ret atr).
Proof. exact atomic_linearizable. Qed.

(* the premise cannot be dropped: a reader that takes no lock, between the two steps of a writer *)
Theorem C28_unlocked_read_not_linearizable :
  (exists c, exec nat Counter.cop nat (nat * nat) Counter.clinit Counter.cmstep Counter.cfin nowait nowstep
                  Counter.kind_bad 0 Counter.bad_trace c) /\
  ~ linearizable nat Counter.cop nat (nat * nat) Counter.clinit Counter.cmstep Counter.cfin nowait nowstep 0
      Counter.bad_history.
Proof. split; [exact Counter.bad_trace_exec | exact Counter.unlocked_read_not_linearizable]. Qed.

(* non-vacuity of part 1: the premises hold for a concrete object and readers really overlap *)
Example C28_premises_satisfiable :
  shared_readonly nat Counter.cop (nat * nat) Counter.cmstep Counter.kind_ok /\
  none_stateless nat Counter.cop (nat * nat) Counter.cmstep Counter.kind_ok /\
  exists tr c, exec nat Counter.cop nat (nat * nat) Counter.clinit Counter.cmstep Counter.cfin nowait nowstep
                    Counter.kind_ok 0 tr c /\
    (exists o l, th _ _ _ _ c 1 = InCS _ _ _ o l) /\ (exists o l, th _ _ _ _ c 2 = InCS _ _ _ o l).
Proof. split; [exact Counter.ok_shared | split; [exact Counter.ok_none | exact Counter.readers_overlap]]. Qed.

(* ------------------------------------------------------------------ part 2: the regenerated table *)
(* recorded finding (checks/C28.findings.json, status "known"): EventsBuffer.IsBuffered / Total *)
Definition known_unlocked : list (string * string) :=
  [("EventsBuffer", "IsBuffered"); ("EventsBuffer", "Total")].

Definition checked_table : list lock_row :=
  filter (fun r => negb (row_in known_unlocked r)) lock_table.

(* every row of the table regenerated from the source satisfies the lock discipline *)
Theorem C28_lock_table_ok : forallb method_ok checked_table = true.
Proof. vm_compute. reflexivity. Qed.

(* ... and the rows that do not are exactly the two recorded accessors: they read the guarded LRU of the
   buffer without the buffer's mutex (the model of the code as it is violates the discipline there) *)
Theorem C28_eventsbuffer_unlocked_reads_refuted :
  map row_key (filter (fun r => negb (method_ok r)) lock_table) = known_unlocked.
Proof. vm_compute. reflexivity. Qed.

(* ---- the table instantiated with the ACTUAL sequential models (proofs/LinInstances.v) ---- *)
(* wlru.Cache: every method has an ok row; the rows that take the shared lock are methods whose step in
   model/Wlru.v (C29) returns the cache unchanged (Peek / Contains do not refresh; Keys, Len, Weight, Total,
   GetOldest read).  A row reporting RLock for Add/Get/Remove/... makes this false. *)
Theorem C28_wlru_table_check : tk_check wkeys wk_readonly checked_table = true.
Proof. vm_compute. reflexivity. Qed.

Theorem C28_wlru_cache_linearizable :
  forall (K V : Type) (keqb : K -> K -> bool) (c0 : Wlru.cache K V) tr c,
    exec (Wlru.cache K V) wop wret (option wret) (os_linit wop wret) (os_mstep _ _ _ (wstep keqb)) (os_fin wop wret)
         nowait nowstep (wkind checked_table) c0 tr c ->
    linearizable (Wlru.cache K V) wop wret (option wret) (os_linit wop wret) (os_mstep _ _ _ (wstep keqb))
         (os_fin wop wret) nowait nowstep c0 (hist wop wret tr).
Proof. exact (fun K V keqb => wlru_linearizable keqb checked_table C28_wlru_table_check). Qed.

Theorem C28_wlru_cache_race_free :
  forall (K V : Type) (keqb : K -> K -> bool) (c0 : Wlru.cache K V) tr c,
    exec (Wlru.cache K V) wop wret (option wret) (os_linit wop wret) (os_mstep _ _ _ (wstep keqb)) (os_fin wop wret)
         nowait nowstep (wkind checked_table) c0 tr c ->
    ~ race (Wlru.cache K V) wop wret (option wret) (os_fin wop wret) nowait (wkind checked_table) c.
Proof. exact (fun K V keqb => wlru_race_free keqb checked_table C28_wlru_table_check). Qed.

(* "linearizable w.r.t. Wlru.v": the sequential specification of that object is Wlru.step (plus Total) *)
Theorem C28_wlru_sequential_spec_is_the_model :
  forall (K V : Type) (keqb : K -> K -> bool) o (s s' : Wlru.cache K V) r,
    seq_exec (Wlru.cache K V) wop wret (option wret) (os_linit wop wret) (os_mstep _ _ _ (wstep keqb))
             (os_fin wop wret) nowait nowstep o s s' r <-> wstep keqb s o = (s', r).
Proof. exact (fun K V keqb => os_seq_exec (Wlru.cache K V) wop wret (wstep keqb)). Qed.

(* Flushable (and LazyFlushable, whose parent is produced lazily) over model/Flushable.v (C22), assembled in
   model/LinObjects.fl_step: Put/Delete/Get/Has/Flush/DropNotFlushed/NotFlushedPairs/NotFlushedSizeEst/
   GetSnapshot (content through the merged iterator)/batch Write/Stat.  Rows: Flushable.*, flushableReader.Get/Has,
   cacheBatch.Write (the batch locks the store it writes to). *)
Theorem C28_flushable_table_check : tk_check fkeys fk_readonly checked_table = true.
Proof. vm_compute. reflexivity. Qed.

Theorem C28_flushable_linearizable :
  forall (s0 : fstate) tr c,
    exec fstate fop fres (option fres) (os_linit fop fres) (os_mstep _ _ _ fl_step) (os_fin fop fres)
         nowait nowstep (fkind checked_table) s0 tr c ->
    linearizable fstate fop fres (option fres) (os_linit fop fres) (os_mstep _ _ _ fl_step) (os_fin fop fres)
         nowait nowstep s0 (hist fop fres tr).
Proof. exact (flushable_linearizable checked_table C28_flushable_table_check). Qed.

Theorem C28_flushable_race_free :
  forall (s0 : fstate) tr c,
    exec fstate fop fres (option fres) (os_linit fop fres) (os_mstep _ _ _ fl_step) (os_fin fop fres)
         nowait nowstep (fkind checked_table) s0 tr c ->
    ~ race fstate fop fres (option fres) (os_fin fop fres) nowait (fkind checked_table) c.
Proof. exact (flushable_race_free checked_table C28_flushable_table_check). Qed.

(* EventsBuffer, the MUTATORS PushEvent / Clear, over model/Buffer.v (C14, repaired version); the callbacks run
   inside the critical section and are part of the operation's effect in the model (oracles [fc], [fp] for the
   application's Check / Process).  Total / IsBuffered are not operations of this object (recorded finding). *)
Theorem C28_buffer_table_check : tk_check bkeys bk_readonly checked_table = true.
Proof. vm_compute. reflexivity. Qed.

Theorem C28_buffer_mutators_linearizable :
  forall (fc fp : list Buffer.out -> Buffer.entry -> bool) (limN limS : N) (s0 : Buffer.st) tr c,
    exec Buffer.st bop (option Buffer.out) (option (option Buffer.out)) (os_linit bop (option Buffer.out))
         (os_mstep _ _ _ (bstep fc fp limN limS)) (os_fin bop (option Buffer.out)) nowait nowstep
         (bkind checked_table) s0 tr c ->
    linearizable Buffer.st bop (option Buffer.out) (option (option Buffer.out)) (os_linit bop (option Buffer.out))
         (os_mstep _ _ _ (bstep fc fp limN limS)) (os_fin bop (option Buffer.out)) nowait nowstep s0
         (hist bop (option Buffer.out) tr).
Proof. exact (fun fc fp limN limS => buffer_mutators_linearizable fc fp limN limS checked_table C28_buffer_table_check). Qed.

(* ---- a genuinely multi-step instance (proofs/LinFlushMS.v): Flushable with FIELD-LEVEL bodies (Put = tree insert,
   then size-estimate update; batch; Flush = write parent, clear overlay, reset estimate) — here the mutex is what
   makes the histories linearizable — and the number of critical sections of every method's row is a hypothesis:
   a row with two sections is modelled as unlock/lock after the first access ([ms_waits]). *)
Theorem C28_flushable_multistep_table_check : ms_check checked_table = true.
Proof. vm_compute. reflexivity. Qed.

Theorem C28_flushable_multistep_linearizable :
  forall (s0 : fstate) tr c,
    exec fstate fop fres mloc ms_linit ms_mstep ms_fin (ms_waits (row_sections checked_table)) ms_wstep
         (tk_kind fop fkey checked_table) s0 tr c ->
    linearizable fstate fop fres mloc ms_linit ms_mstep ms_fin (ms_waits (row_sections checked_table)) ms_wstep s0
         (hist fop fres tr).
Proof. exact (flushable_multistep_linearizable checked_table C28_flushable_multistep_table_check). Qed.

(* its sequential specification (the field-level steps run alone) is the step of C22's model *)
Theorem C28_flushable_multistep_sequential_spec :
  forall sections o s s' r,
    seq_exec fstate fop fres mloc ms_linit ms_mstep ms_fin (ms_waits sections) ms_wstep o s s' r ->
    fl_step s o = (s', r).
Proof. exact ms_seq_exec_step. Qed.

(* ---- concrete NON-linearizable histories (proofs/LinRefute.v, LinFlushMS.v) ---- *)
(* the "one critical section" hypothesis is necessary: same object, a table reporting two sections for the batch
   write: NotFlushedPairs = 1 between the two inserts of one batch (0 before it, 2 after it) *)
Theorem C28_split_section_not_linearizable :
  (exists c, exec fstate fop fres mloc ms_linit ms_mstep ms_fin (ms_waits sb_sections) ms_wstep sb_kind f_init
               split_batch_trace c) /\
  ~ linearizable fstate fop fres mloc ms_linit ms_mstep ms_fin (ms_waits sb_sections) ms_wstep f_init
      (hist fop fres split_batch_trace).
Proof. split; [exact split_batch_trace_exec | exact split_batch_not_linearizable]. Qed.

(* the EventsBuffer finding, as a history: PushEvent releases the buffered children one by one under the mutex,
   Total reads without it and returns 1 (2 before the push, 0 after it) *)
Theorem C28_buffer_unlocked_total_not_linearizable :
  (exists c, exec (list nat) MiniBuffer.bop nat (option nat) MiniBuffer.blinit MiniBuffer.bmstep MiniBuffer.bfin
               nowait nowstep MiniBuffer.bkind [1; 2] MiniBuffer.mid_push_trace c) /\
  ~ linearizable (list nat) MiniBuffer.bop nat (option nat) MiniBuffer.blinit MiniBuffer.bmstep MiniBuffer.bfin
      nowait nowstep [1; 2] (hist MiniBuffer.bop nat MiniBuffer.mid_push_trace).
Proof. split; [exact MiniBuffer.mid_push_trace_exec | exact MiniBuffer.unlocked_total_not_linearizable]. Qed.

(* the pool finding, as a history: an operation that visits two stores in two critical sections (NotFlushedSizeEst;
   Flush has the same shape), two writes through the handles in between: it returns 5, the legal answers are 0, 3, 8 *)
Theorem C28_pool_two_section_op_not_linearizable :
  (exists c, exec (nat * nat) MiniPool.pop nat MiniPool.ploc MiniPool.plinit MiniPool.pmstep MiniPool.pfin
               MiniPool.pwaits MiniPool.pwstep MiniPool.pkind (0, 0) MiniPool.split_size_trace c) /\
  ~ linearizable (nat * nat) MiniPool.pop nat MiniPool.ploc MiniPool.plinit MiniPool.pmstep MiniPool.pfin
      MiniPool.pwaits MiniPool.pwstep (0, 0) (hist MiniPool.pop nat MiniPool.split_size_trace).
Proof. split; [exact MiniPool.split_size_trace_exec | exact MiniPool.split_size_not_linearizable]. Qed.

(* ---- several mutexes: lock order, deadlock freedom, the pool ---- *)
(* generic: a machine in which a thread asks for a lock only above the ranks of the locks it holds never
   reaches a configuration with a cycle of waiting threads *)
Theorem C28_ordered_locks_no_deadlock :
  forall (lock : Type) (rank : lock -> nat) (c : lconfig lock),
    lreach lock rank c -> ~ deadlocked lock c.
Proof. exact ordered_locks_no_deadlock. Qed.

(* the (held, acquired) pairs that lockscan saw in the code.  Two kinds:
   - different classes: they increase along [lock_rank];
   - the SAME class one wrapping level deeper, written "c@underlying": Flushable.flush holds w.lock and calls
     w.underlying.NewBatch() ... Write(); when the parent is itself a Flushable (memorydb over devnull, vecengine's
     wrapper over that, the stores of a SyncedPool over a wrapped parent) cacheBatch.Write takes the PARENT's lock
     inside.  So two locks of one class CAN be held together, always wrapper first, parent second.
   ASSUMPTION (not checked: it is a property of how the application stacks its stores): wrapping is acyclic and at
   most D deep.  Then rank (class, depth) = class * D + depth increases along both kinds of pairs
   (C28_instance_rank_increases), which is the premise of C28_ordered_locks_no_deadlock for lock INSTANCES.
   Two DIFFERENT stores of a pool (neither wraps the other) are never locked together: there is no pair (c, c).
   Locks taken by external callbacks (EventsBuffer's Process etc., cb_external in callback_table) are outside this
   check: the deadlock statement assumes they take none of the locks ranked here. *)
Definition lock_rank (m : string) : N :=
  if String.eqb m "syncedpool.Mutex" then 1 else if String.eqb m "syncedpool.flushing" then 2
  else if String.eqb m "syncedpool.queuedDropsMu" then 3 else if String.eqb m "flushable.lock" then 4
  else if String.eqb m "eventsbuffer.mu" then 5 else if String.eqb m "wlru.lock" then 6
  else if String.eqb m "datasemaphore.mu" then 7 else 0.
Definition edge_ok (e : string * string) : bool :=
  N.ltb 0 (lock_rank (fst e)) &&
  (N.ltb (lock_rank (fst e)) (lock_rank (snd e)) || String.eqb (snd e) (fst e ++ "@underlying")).
Theorem C28_lock_order_ranked : forallb edge_ok lock_order = true.
Proof. vm_compute. reflexivity. Qed.

Theorem C28_instance_rank_increases :
  (forall D ca cb da db, ca < cb -> da < D -> inst_rank D ca da < inst_rank D cb db) /\
  (forall D c d, inst_rank D c d < inst_rank D c (S d)).
Proof. split; [exact inst_rank_class | exact inst_rank_depth]. Qed.

(* non-vacuity with contention: a thread holding a wrapper's lock waits for the parent's lock held by another *)
Example C28_stacked_stores_contention :
  lreach (nat * nat) sf_rank sf_c5 /\
  lwants _ sf_c5 0 = Some ((4, 1), MExcl) /\ In ((4, 1), MExcl) (lheld _ sf_c5 1) /\
  In ((4, 0), MExcl) (lheld _ sf_c5 0) /\ ~ deadlocked (nat * nat) sf_c5.
Proof. exact stacked_flushables_contention. Qed.

(* SyncedPool's own operations (Flush, NotFlushedSizeEst, Names, OpenDB, GetUnderlying, Initialize) hold the pool
   mutex from beginning to end: one-mutex object over model/SyncedPool.v (LinObjects.pl_step).  A Flush that
   released the pool mutex between the dirty marks and the data would have two sections and break the check. *)
Theorem C28_pool_table_check : tk_check lkeys lk_readonly checked_table = true.
Proof. vm_compute. reflexivity. Qed.

Theorem C28_pool_operations_linearizable :
  forall (fk : CrashBase.bytes) (s0 : pstate) tr c,
    exec pstate lop pres (option pres) (os_linit lop pres) (os_mstep _ _ _ (lstep_pool fk)) (os_fin lop pres)
         nowait nowstep (poolkind checked_table) s0 tr c ->
    linearizable pstate lop pres (option pres) (os_linit lop pres) (os_mstep _ _ _ (lstep_pool fk)) (os_fin lop pres)
         nowait nowstep s0 (hist lop pres tr).
Proof. exact (fun fk => pool_ops_linearizable fk checked_table C28_pool_table_check). Qed.

(* ... but together with writes through the store handles (which take only the store's lock) the pool is NOT
   linearizable: exactly these pool operations visit the stores in SEVERAL separate critical sections of the
   stores' locks (not two-phase), so a handle write can fall between two of them.  Recorded finding
   C28-pool-multi-store-not-atomic; demonstrated on the real code by the POOLMID case, and as a non-linearizable
   history of the machine in C28_pool_two_section_op_not_linearizable. *)
Theorem C28_pool_multi_store_ops_refuted :
  map row_key (filter (fun r => r_exported r && negb (is_self r) && negb (r_quiescent r) && N.ltb 1 (r_sections r)) lock_table)
  = [("SyncedPool", "Flush"); ("SyncedPool", "Initialize"); ("SyncedPool", "NotFlushedSizeEst")].
Proof. vm_compute. reflexivity. Qed.

(* re-entrancy: no callback written as a function literal at a construction site of one of the objects calls back
   into the object it is given to (regenerated by lockscan over the whole repository; callbacks supplied from
   elsewhere — cb_external — are covered only by the hypothesis of the instances) *)
Theorem C28_callbacks_not_reentrant : forallb cb_ok callback_table = true.
Proof. vm_compute. reflexivity. Qed.

Example C28_callback_sites_found :
  existsb (fun r => String.eqb (cb_object r) "EventsBuffer" && N.ltb 0 (cb_literals r)) callback_table = true /\
  existsb (fun r => String.eqb (cb_object r) "Cache" && N.ltb 0 (cb_literals r)) callback_table = true.
Proof. vm_compute. split; reflexivity. Qed.

(* DataSemaphore, including the blocking Acquire (Cond.Wait loop), over model/Semaphore.v (C30) *)
Theorem C28_semaphore_table_check : tk_check skeys sk_readonly checked_table = true.
Proof. vm_compute. reflexivity. Qed.

Theorem C28_semaphore_linearizable :
  forall (st0 : sstate) tr c,
    exec sstate sop sret sloc sem_linit sem_mstep sem_fin sem_waits sem_wstep (skind checked_table) st0 tr c ->
    linearizable sstate sop sret sloc sem_linit sem_mstep sem_fin sem_waits sem_wstep st0 (hist sop sret tr).
Proof. exact (sem_linearizable checked_table C28_semaphore_table_check). Qed.

Theorem C28_semaphore_race_free :
  forall (st0 : sstate) tr c,
    exec sstate sop sret sloc sem_linit sem_mstep sem_fin sem_waits sem_wstep (skind checked_table) st0 tr c ->
    ~ race sstate sop sret sloc sem_fin sem_waits (skind checked_table) c.
Proof. exact (sem_race_free checked_table C28_semaphore_table_check). Qed.

(* sequentially every operation of that object, Acquire included, has the result and effect of Semaphore.v's
   arithmetic (try_acquire / release) *)
Theorem C28_semaphore_sequential_spec_is_the_model :
  forall o st st' r,
    seq_exec sstate sop sret sloc sem_linit sem_mstep sem_fin sem_waits sem_wstep o st st' r ->
    sem_step st o = (st', r).
Proof. exact sem_seq_exec_step. Qed.

(* non-vacuity of the semaphore instance, Wait included: with the kinds of the real table, a blocked
   Acquire waits on the condition variable, another goroutine releases, the waiter re-acquires and succeeds *)
Example C28_semaphore_blocking_acquire_trace :
  skind checked_table (SAcquire m11 1) = KExcl /\ skind checked_table SProcessing = KExcl /\
  exists c, exec sstate sop sret sloc sem_linit sem_mstep sem_fin sem_waits sem_wstep (skind checked_table)
                 (mzero, mkM 1 10) sem_blocking_trace c.
Proof.
  split; [vm_compute; reflexivity|]. split; [vm_compute; reflexivity|].
  apply sem_blocking_trace_exec. intros []; vm_compute; reflexivity.
Qed.

Example C28_wlru_kinds_from_table :
  wkind checked_table (WBase (OGet 1%N) : @wop N N) = KExcl /\
  wkind checked_table (WBase (OPeek 1%N) : @wop N N) = KShared /\
  wkind checked_table (WTotal : @wop N N) = KShared /\
  wkind checked_table (WBase (OAdd 1%N 1%N 1%N) : @wop N N) = KExcl.
Proof. vm_compute. repeat split; reflexivity. Qed.

(* the generic instance: any object whose operations are methods with a row in the checked table
   (hypotheses 3-5 are the trusted part: the translator's report is true of the code) *)
Theorem C28_components_linearizable :
  forall (state op ret local : Type) (linit : op -> local) (mstep : op -> local -> state -> local * state)
         (fin : op -> local -> option ret) (waits : op -> local -> bool) (wstep : op -> local -> local)
         (s0 : state) (row_of : op -> lock_row),
    (forall o, In (row_of o) checked_table) ->
    (forall o, r_quiescent (row_of o) = false) ->
    (forall o, r_writes (row_of o) = 0%N -> forall l s, snd (mstep o l s) = s) ->
    (forall o, accesses (row_of o) = 0%N -> forall l s s', mstep o l s = (fst (mstep o l s'), s)) ->
    (forall o l, waits o l = true -> r_condwait (row_of o) = true) ->
    forall resumable, resumable_inv state op ret local linit mstep fin waits wstep resumable ->
    forall tr c, exec state op ret local linit mstep fin waits wstep (kind_of_op op row_of) s0 tr c ->
    linearizable state op ret local linit mstep fin waits wstep s0 (hist op ret tr).
Proof.
  exact (fun st op rt lc li ms fi wa ws s0 ro =>
           table_linearizable st op rt lc li ms fi wa ws s0 checked_table ro C28_lock_table_ok).
Qed.

Theorem C28_components_race_free :
  forall (state op ret local : Type) (linit : op -> local) (mstep : op -> local -> state -> local * state)
         (fin : op -> local -> option ret) (waits : op -> local -> bool) (wstep : op -> local -> local)
         (s0 : state) (row_of : op -> lock_row),
    (forall o, In (row_of o) checked_table) ->
    (forall o, r_quiescent (row_of o) = false) ->
    (forall o, r_writes (row_of o) = 0%N -> forall l s, snd (mstep o l s) = s) ->
    (forall o, accesses (row_of o) = 0%N -> forall l s s', mstep o l s = (fst (mstep o l s'), s)) ->
    (forall o l, waits o l = true -> r_condwait (row_of o) = true) ->
    forall resumable, resumable_inv state op ret local linit mstep fin waits wstep resumable ->
    forall tr c, exec state op ret local linit mstep fin waits wstep (kind_of_op op row_of) s0 tr c ->
    ~ race state op ret local fin waits (kind_of_op op row_of) c.
Proof.
  exact (fun st op rt lc li ms fi wa ws s0 ro =>
           table_race_free st op rt lc li ms fi wa ws s0 checked_table ro C28_lock_table_ok).
Qed.

(* non-vacuity of the instance: the counter object with Incr2 := the row of wlru.Cache.Add and
   Read := the row of wlru.Cache.Len satisfies every hypothesis, with the kinds the code really uses *)
Definition dummy_row : lock_row := mk_row "" "" false "" "" LNone 0 0 0 0 0 0 false false true.
Definition row_or (t m : string) : lock_row :=
  match find_row checked_table t m with Some r => r | None => dummy_row end.
Definition counter_row (o : Counter.cop) : lock_row :=
  match o with Counter.OIncr2 => row_or "Cache" "Add" | Counter.ORead => row_or "Cache" "Len" end.

Example C28_instance_nonvacuous :
  (forall o, In (counter_row o) checked_table) /\
  (forall o, r_quiescent (counter_row o) = false) /\
  (forall o, r_writes (counter_row o) = 0%N -> forall l s, snd (Counter.cmstep o l s) = s) /\
  (forall o, accesses (counter_row o) = 0%N ->
     forall l s s', Counter.cmstep o l s = (fst (Counter.cmstep o l s'), s)) /\
  kind_of_op Counter.cop counter_row Counter.OIncr2 = KExcl /\
  kind_of_op Counter.cop counter_row Counter.ORead = KShared.
Proof.
  split; [|split; [|split; [|split; [|split]]]].
  - intros []; [apply (find_row_in checked_table "Cache" "Add") | apply (find_row_in checked_table "Cache" "Len")];
      vm_compute; reflexivity.
  - intros []; vm_compute; reflexivity.
  - intros [] H l s; [vm_compute in H; discriminate | reflexivity].
  - intros [] H; vm_compute in H; discriminate.
  - vm_compute; reflexivity.
  - vm_compute; reflexivity.
Qed.

(* the table covers the public operations of the five components (a method that disappears from the table,
   e.g. because the translator no longer finds the file, breaks this) *)
Definition expected_methods : list (string * string) :=
  [ ("Flushable","Put"); ("Flushable","Delete"); ("Flushable","DropNotFlushed"); ("Flushable","Close");
    ("Flushable","Drop"); ("Flushable","Flush"); ("Flushable","NotFlushedPairs"); ("Flushable","NotFlushedSizeEst");
    ("Flushable","Stat"); ("Flushable","Compact"); ("Flushable","GetSnapshot"); ("Flushable","NewBatch");
    ("flushableReader","Has"); ("flushableReader","Get"); ("flushableReader","NewIterator");
    ("LazyFlushable","InitUnderlyingDb"); ("LazyFlushable","Flush"); ("Snapshot","Release");
    ("flushableIterator","Next"); ("flushableIterator","Key"); ("flushableIterator","Value"); ("flushableIterator","Release");
    ("SyncedPool","Initialize"); ("SyncedPool","OpenDB"); ("SyncedPool","GetUnderlying"); ("SyncedPool","Flush");
    ("SyncedPool","NotFlushedSizeEst"); ("SyncedPool","Names"); ("SyncedPool","Close");
    ("Cache","Purge"); ("Cache","Add"); ("Cache","Get"); ("Cache","Contains"); ("Cache","Peek");
    ("Cache","ContainsOrAdd"); ("Cache","PeekOrAdd"); ("Cache","Remove"); ("Cache","Resize");
    ("Cache","RemoveOldest"); ("Cache","GetOldest"); ("Cache","Keys"); ("Cache","Len"); ("Cache","Weight"); ("Cache","Total");
    ("DataSemaphore","Acquire"); ("DataSemaphore","TryAcquire"); ("DataSemaphore","Release");
    ("DataSemaphore","Terminate"); ("DataSemaphore","Processing"); ("DataSemaphore","Available");
    ("EventsBuffer","PushEvent"); ("EventsBuffer","Clear"); ("EventsBuffer","IsBuffered"); ("EventsBuffer","Total") ].

Example C28_table_covers_api :
  forallb (fun k => existsb (fun r => key_eqb (row_key r) k && r_exported r && is_self r) lock_table)
          expected_methods = true.
Proof. vm_compute. reflexivity. Qed.

(* spot checks of what the translator reports for the repaired code *)
Example C28_table_spot_checks :
  option_map (fun r => (r_mode r, N.ltb 0 (r_writes r))) (find_row lock_table "Flushable" "Put") = Some (LExcl, true) /\
  option_map (fun r => (r_mode r, r_writes r)) (find_row lock_table "flushableReader" "Get") = Some (LShared, 0%N) /\
  option_map (fun r => (r_mode r, r_writes r, r_unlocked_reads r)) (find_row lock_table "Flushable" "NotFlushedPairs")
    = Some (LShared, 0%N, 0%N) /\
  option_map (fun r => (r_mode r, N.ltb 0 (r_writes r))) (find_row lock_table "Cache" "Get") = Some (LExcl, true) /\
  option_map (fun r => (r_mode r, r_condwait r)) (find_row lock_table "DataSemaphore" "Acquire") = Some (LExcl, true) /\
  option_map (fun r => (r_mode r, r_unlocked_reads r)) (find_row lock_table "EventsBuffer" "Total") = Some (LNone, 1%N) /\
  option_map (fun r => (r_mode r, N.ltb 0 (r_reads r), r_writes r)) (find_row lock_table "flushableIterator" "Next")
    = Some (LShared, true, 0%N).
Proof. vm_compute. repeat split; reflexivity. Qed.

Print Assumptions C28_locked_refines_atomic.
Print Assumptions C28_locked_atomic_linearizable.
Print Assumptions C28_locked_atomic_linearizable_nowait.
Print Assumptions C28_locked_race_free.
Print Assumptions C28_conflicting_accesses_ordered.
Print Assumptions C28_atomic_linearizable.
Print Assumptions C28_unlocked_read_not_linearizable.
Print Assumptions C28_lock_table_ok.
Print Assumptions C28_eventsbuffer_unlocked_reads_refuted.
Print Assumptions C28_wlru_table_check.
Print Assumptions C28_wlru_cache_linearizable.
Print Assumptions C28_wlru_cache_race_free.
Print Assumptions C28_wlru_sequential_spec_is_the_model.
Print Assumptions C28_flushable_table_check.
Print Assumptions C28_flushable_linearizable.
Print Assumptions C28_flushable_race_free.
Print Assumptions C28_buffer_table_check.
Print Assumptions C28_buffer_mutators_linearizable.
Print Assumptions C28_flushable_multistep_table_check.
Print Assumptions C28_flushable_multistep_linearizable.
Print Assumptions C28_flushable_multistep_sequential_spec.
Print Assumptions C28_split_section_not_linearizable.
Print Assumptions C28_buffer_unlocked_total_not_linearizable.
Print Assumptions C28_pool_two_section_op_not_linearizable.
Print Assumptions C28_instance_rank_increases.
Print Assumptions C28_ordered_locks_no_deadlock.
Print Assumptions C28_lock_order_ranked.
Print Assumptions C28_pool_table_check.
Print Assumptions C28_pool_operations_linearizable.
Print Assumptions C28_pool_multi_store_ops_refuted.
Print Assumptions C28_callbacks_not_reentrant.
Print Assumptions C28_semaphore_table_check.
Print Assumptions C28_semaphore_linearizable.
Print Assumptions C28_semaphore_race_free.
Print Assumptions C28_semaphore_sequential_spec_is_the_model.
Print Assumptions C28_components_linearizable.
Print Assumptions C28_components_race_free.
