(* C18 — Leechers respect flow control and peer removal.
   Only theorem statements, each closed by [exact <lemma>], non-vacuity examples, and
   Print Assumptions.  Model: model/Leecher.v (repaired UnregisterPeer, fixes/C18.patch);
   specification: spec/LeecherSpec.v (log monitors) and the declarative readings
   [base_safe] / [peer_safe] in proofs/LeecherProofs.v. *)
From Coq Require Import NArith List Bool.
From LV Require Import model.Leecher spec.LeecherSpec proofs.LeecherProofs.
Import ListNotations.
Local Open Scope N_scope.

(* Base leecher, every history of RegisterPeer / UnregisterPeer / ticker Routine / Terminate
   with every scripted ShouldTerminateSession answer and candidate choice: the callback log is
   accepted by the monitor. *)
Theorem C18_base_monitor : forall ops, base_spec_ok (brun b_init ops) = true.
Proof. exact base_monitor_ok. Qed.

(* ... which means: at every StartSession no session is running, the chosen peer is registered
   (an UnregisterPeer takes effect at its call) and Terminate has not been called; when
   UnregisterPeer(p) returns no session with p is running. *)
Theorem C18_base_safe : forall ops, base_safe (brun b_init ops).
Proof. exact base_safe_all. Qed.

(* the reading holds for any log the monitor accepts (used for the implementation's logs) *)
Theorem C18_base_monitor_sound : forall log, base_spec_ok log = true -> base_safe log.
Proof. exact base_spec_ok_safe. Qed.

(* Peer leecher (repaired routine(), fixes/C18b.patch): every parallelism limit, EVERY oracle
   (Done / Suspend / IsProcessed answers per routine run; Done() need not be monotone) and every
   sequence of chunk arrivals, ticks (enabled in every state: the ticker branch of loop() does
   not look at d.done) and external Terminate() calls. *)
Theorem C18_peer_monitor : forall par oracle ops,
  peer_spec_ok par (snd (prun par oracle p_init ops)) = true.
Proof. exact peer_monitor_ok. Qed.

(* ... which means: once Done() has answered true, or - from the next routine run on - once an
   external Terminate() has returned, no callback is made any more (no Done, IsProcessed,
   Suspend, RequestChunks; PTerminate is atomic between routine runs in the model, in Go a
   routine() that already passed the d.done guard still finishes); every RequestChunks
   keeps requested <= processed + parallel and is not issued in a suspended run. *)
Theorem C18_peer_safe : forall par oracle ops, peer_safe par (snd (prun par oracle p_init ops)).
Proof. exact peer_safe_all. Qed.

Theorem C18_peer_monitor_sound : forall par log, peer_spec_ok par log = true -> peer_safe par log.
Proof. exact peer_spec_ok_safe. Qed.

(* state invariant behind it, and tightness: an unsuspended, not-done run fills the window *)
Theorem C18_peer_window : forall par oracle ops,
  let s := fst (prun par oracle p_init ops) in p_req s <= p_proc s + par.
Proof. exact peer_window_inv. Qed.

Theorem C18_peer_window_full : forall par oracle ops o,
  let s := fst (prun par oracle p_init ops) in
  p_done s = false ->
  a_done (oracle (p_run s)) = false -> a_susp (oracle (p_run s)) = false ->
  (o = PTick \/ exists id, o = PChunk id /\ N.of_nat (length (p_chunks s)) < par * 2) ->
  let s' := fst (pstep par oracle s o) in p_req s' = p_proc s' + par.
Proof. exact peer_window_full. Qed.

(* non-vacuity: a base history that starts, replaces and terminates sessions; a peer history
   that requests, is suspended, sweeps and finishes *)
Example C18_base_nontrivial :
  brun b_init [BReg 1; BReg 2; BTick false 0; BUnreg 1 0; BTick true 1; BTerminate; BTick false 0] =
  [(BReg 1, []); (BReg 2, []); (BTick false 0, [EStart 1 [1; 2]]);
   (BUnreg 1 0, [ETerm (Some 1); EStart 2 [2]]);
   (BTick true 1, [ETerm (Some 2); EStart 2 [2]]);
   (BTerminate, [ETerm (Some 2)]); (BTick false 0, [])].
Proof. vm_compute. reflexivity. Qed.

Example C18_peer_nontrivial :
  snd (prun 2 (script_oracle [(false, false, []); (false, true, [5]); (false, false, [6]); (true, false, [])])
            p_init [PChunk 5; PChunk 6; PTick; PChunk 7; PChunk 8]) =
  [PDone false; PIsProc 5 false; PSusp false; PReq 2;
   PDone false; PIsProc 5 true; PIsProc 6 false; PSusp true;
   PDone false; PIsProc 6 true; PSusp false; PReq 2;
   PDone true].
Proof. vm_compute. reflexivity. Qed.

(* an external Terminate() and a Done() that goes back to false: nothing is called afterwards *)
Example C18_peer_stops :
  snd (prun 1 (script_oracle [(true, false, []); (false, false, [])]) p_init [PTick; PTick; PChunk 3]) = [PDone true] /\
  snd (prun 1 (script_oracle [(false, false, [])]) p_init [PTerminate; PTick; PChunk 3]) = [PTerminated].
Proof. exact peer_witness_repaired. Qed.

(* the window hypothesis of C18_peer_window_full is satisfiable *)
Example C18_peer_window_full_nonvacuous :
  let s := fst (prun 2 (script_oracle [(false, true, []); (false, false, [])]) p_init [PChunk 5]) in
  p_done s = false /\ p_req s = 0 /\
  p_req (fst (pstep 2 (script_oracle [(false, true, []); (false, false, [])]) s PTick)) = 2.
Proof. vm_compute. auto. Qed.

Print Assumptions C18_base_monitor.
Print Assumptions C18_base_safe.
Print Assumptions C18_base_monitor_sound.
Print Assumptions C18_peer_monitor.
Print Assumptions C18_peer_safe.
Print Assumptions C18_peer_monitor_sound.
Print Assumptions C18_peer_window.
Print Assumptions C18_peer_window_full.
