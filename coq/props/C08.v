(* C08 -- Restart at any event boundary is invisible.   PARTIAL.
   Proved: what Bootstrap over the persisted databases is in the model (forget the forkless-cause cache,
   the build counter and the election's votes; re-vote all stored roots), that it keeps every persisted
   field when it emits no block, and that whatever it emits obeys the frame numbering.
   NOT proved: [C08_full] below -- the re-voted election is observationally equal to the incrementally
   built one.  That is lemma L1 of C01/C10 (votes are a function of the processed set; worker bft).
   The full statement is evaluated on every generated case by the correspondence (restarted vs
   never-restarted real instance vs model) and below on two concrete runs. *)
From Coq Require Import NArith List.
From LV Require Import model.VecIndex model.Abft model.AbftRun
  proofs.AbftSeal proofs.AbftProcess proofs.AbftRestart proofs.AbftSealWitness proofs.AbftForkWitness.
Import ListNotations.
Local Open Scope N_scope.

Theorem C08_restart_is_revote_partial : forall cap end_block es st,
  bootstrap cap end_block es (persist st) =
  bootstrap_election cap end_block (roots_fuel (restarted st)) es (restarted st) [].
Proof. exact bootstrap_is_revote. Qed.

Theorem C08_restart_keeps_databases_partial : forall cap end_block es st r st',
  bootstrap cap end_block es (persist st) = (r, [], st') ->
  l_epoch st' = l_epoch st /\ l_vals st' = l_vals st /\ l_ldf st' = l_ldf st /\ l_roots st' = l_roots st /\
  l_conf st' = l_conf st /\ l_idx st' = l_idx st /\ elinv st'.
Proof. exact restart_keeps_databases. Qed.

(* the restarted instance is the old one up to the forkless-cause cache, the build counter and the votes /
   decisions of the election (same frame to decide, same validators): what remains for C08_full is that
   the re-voted maps agree with the incremental ones (L1') *)
Theorem C08_restart_state_shape_partial : forall cap end_block es st r st',
  bootstrap cap end_block es (persist st) = (r, [], st') ->
  exists c n el, st' = set_el (set_fcc (set_ctr st n) c) el /\
                 el_frame el = l_ldf st + 1 /\ el_vals el = l_vals st.
Proof. exact restart_state_shape. Qed.

Theorem C08_bootstrap_blocks_partial : forall cap end_block es p r bl st',
  bootstrap cap end_block es p = (r, bl, st') ->
  frames_ok (p_ldf p) bl /\ elinv st' /\
  if sealed_last bl then l_ldf st' = 0 /\ l_epoch st' = p_epoch p + 1
  else l_ldf st' = p_ldf p + N.of_nat (length bl) /\ l_epoch st' = p_epoch p /\ l_vals st' = p_vals p.
Proof. exact bootstrap_frames. Qed.

(* the full statement (kept visible; not a theorem) *)
Definition C08_full : Prop := proofs.AbftRestart.C08_full.

(* the full statement's instance on two concrete runs, restart after EVERY operation (a sealing run and a
   fork run with two blocks) *)
Example C08_restart_everywhere :
  keep_non_restart (combine (with_restarts s_ops) (run 200 s_pol sample (start 1 s_vals) (with_restarts s_ops))) = s_run /\
  keep_non_restart (combine (with_restarts f_ops) (run 200 [] sample (start 2 f_vals) (with_restarts f_ops))) = f_run.
Proof. exact restart_everywhere_witness. Qed.

Print Assumptions C08_restart_is_revote_partial.
Print Assumptions C08_restart_keeps_databases_partial.
Print Assumptions C08_restart_state_shape_partial.
Print Assumptions C08_bootstrap_blocks_partial.

(* ---- appended by the coordinator from worker `link`'s development (proofs/LinkRawRestart.v) ----
   Restarts (Bootstrap from the persisted fields) inserted before arbitrary events of a valid
   single-epoch run are invisible: the rendered observations (accept/reject codes, built frames,
   blocks with Atropos and cheaters) equal those of the never-restarted run and of the reference,
   and every restart itself reports no error, emits no block and keeps the epoch.
   [rs] says before which events a restart happens (any subset of the event boundaries). *)
From LV Require proofs.LinkDefs proofs.LinkRaw proofs.LinkRestart proofs.LinkRawRestart.
Theorem C08_restart_invisible_on_valid_runs :
  forall cap lam (rs : list bool) vals D, length rs = length D ->
  proofs.LinkRaw.link_side_raw vals D -> proofs.BftProps.valid_run vals D ->
  proofs.LinkRestart.abft_run_r cap lam rs vals D = spec.ElectionSpec.reference vals D /\
  proofs.LinkRestart.abft_run_r cap lam rs vals D = proofs.LinkDefs.abft_run cap lam vals D /\
  Forall proofs.LinkRestart.clean_restart
    (model.AbftRun.run cap [] model.Abft.sample (model.AbftRun.start 1 vals) (proofs.LinkRestart.abft_ops_r lam vals rs D)).
Proof. exact proofs.LinkRawRestart.link_restart_raw. Qed.
Print Assumptions C08_restart_invisible_on_valid_runs.
