(* C08 -- Restart at any event boundary is invisible.
   Theorems of record (proofs by worker link, composed over this model): C08_restart_invisible_on_valid_runs,
   C08_restart_invisible_at_any_boundary (restarts anywhere among the noise of a valid single-epoch run:
   after rejected events, between a Build and its Process, after speculative Builds and probes; any cache
   capacity), C08_restart_after_seal_invisible (restart of the instance a seal / genesis / Reset leaves, then
   the multi-epoch run equals the reference).
   The four *_partial theorems below are the structural facts about Bootstrap they build on.
   Still NOT proved: [C08_full] in its literal generality (arbitrary operation lists: events that are not
   part of a valid run, forkers >= 1/3, Reset operations, restarts in the MIDDLE of a later epoch of a
   multi-epoch run with noise); these are covered by the correspondence only. *)
From Coq Require Import NArith List.
From LV Require Import model.VecIndex model.Abft model.AbftRun
  proofs.AbftSeal proofs.AbftProcess proofs.AbftRestart proofs.AbftSealWitness proofs.AbftForkWitness.
Import ListNotations.
Local Open Scope N_scope.

Theorem C08_restart_is_revote_partial : forall cap end_block es st,
  bootstrap cap end_block es (persist st) =
  bootstrap_election cap end_block (roots_fuel (restarted st)) es (restarted st) [].
Proof. exact bootstrap_is_revote. Qed.

Theorem C08_restart_keeps_databases_partial : forall cap end_block es st r st',
  bootstrap cap end_block es (persist st) = (r, [], st') ->
  l_epoch st' = l_epoch st /\ l_vals st' = l_vals st /\ l_ldf st' = l_ldf st /\ l_roots st' = l_roots st /\
  l_conf st' = l_conf st /\ l_idx st' = l_idx st /\ elinv st'.
Proof. exact restart_keeps_databases. Qed.

(* the restarted instance is the old one up to the forkless-cause cache, the build counter and the votes /
   decisions of the election (same frame to decide, same validators): what remains for C08_full is that
   the re-voted maps agree with the incremental ones (L1') *)
Theorem C08_restart_state_shape_partial : forall cap end_block es st r st',
  bootstrap cap end_block es (persist st) = (r, [], st') ->
  exists c n el, st' = set_el (set_fcc (set_ctr st n) c) el /\
                 el_frame el = l_ldf st + 1 /\ el_vals el = l_vals st.
Proof. exact restart_state_shape. Qed.

Theorem C08_bootstrap_blocks_partial : forall cap end_block es p r bl st',
  bootstrap cap end_block es p = (r, bl, st') ->
  frames_ok (p_ldf p) bl /\ elinv st' /\
  if sealed_last bl then l_ldf st' = 0 /\ l_epoch st' = p_epoch p + 1
  else l_ldf st' = p_ldf p + N.of_nat (length bl) /\ l_epoch st' = p_epoch p /\ l_vals st' = p_vals p.
Proof. exact bootstrap_frames. Qed.

(* the full statement (kept visible; not a theorem) *)
Definition C08_full : Prop := proofs.AbftRestart.C08_full.

(* the full statement's instance on two concrete runs, restart after EVERY operation (a sealing run and a
   fork run with two blocks) *)
Example C08_restart_everywhere :
  keep_non_restart (combine (with_restarts s_ops) (run 200 s_pol sample (start 1 s_vals) (with_restarts s_ops))) = s_run /\
  keep_non_restart (combine (with_restarts f_ops) (run 200 [] sample (start 2 f_vals) (with_restarts f_ops))) = f_run.
Proof. exact restart_everywhere_witness. Qed.

Print Assumptions C08_restart_is_revote_partial.
Print Assumptions C08_restart_keeps_databases_partial.
Print Assumptions C08_restart_state_shape_partial.
Print Assumptions C08_bootstrap_blocks_partial.

(* ---- appended by the coordinator from worker `link`'s development (proofs/LinkRawRestart.v) ----
   Restarts (Bootstrap from the persisted fields) inserted before arbitrary events of a valid
   single-epoch run are invisible: the rendered observations (accept/reject codes, built frames,
   blocks with Atropos and cheaters) equal those of the never-restarted run and of the reference,
   and every restart itself reports no error, emits no block and keeps the epoch.
   [rs] says before which events a restart happens (any subset of the event boundaries). *)
From LV Require proofs.LinkDefs proofs.LinkRaw proofs.LinkRestart proofs.LinkRawRestart.
Theorem C08_restart_invisible_on_valid_runs :
  forall cap lam (rs : list bool) vals D, length rs = length D ->
  proofs.LinkRaw.link_side_raw vals D -> proofs.BftProps.valid_run vals D ->
  proofs.LinkRestart.abft_run_r cap lam rs vals D = spec.ElectionSpec.reference vals D /\
  proofs.LinkRestart.abft_run_r cap lam rs vals D = proofs.LinkDefs.abft_run cap lam vals D /\
  Forall proofs.LinkRestart.clean_restart
    (model.AbftRun.run cap [] model.Abft.sample (model.AbftRun.start 1 vals) (proofs.LinkRestart.abft_ops_r lam vals rs D)).
Proof. exact proofs.LinkRawRestart.link_restart_raw. Qed.
Print Assumptions C08_restart_invisible_on_valid_runs.

(* ---- appended by worker link: restarts at ANY operation boundary of a valid single-epoch run ----
   Stronger than C08_restart_invisible_on_valid_runs: the restarts (OpR among the noise of the schedule)
   may also come right after a rejected Process (ErrWrongFrame), between the Build and the Process of
   the same event, after speculative Builds of arbitrary events and after probes; any forkless-cause
   cache capacity, validators in any order.  The observations of the valid events equal those of the
   never-restarted, noise-free run and the reference.  (proofs/LinkNoise.v: restart_step inside
   noise_step; same statement as C07_no_trace_any_cache.) *)
From LV Require proofs.LinkNoise proofs.LinkNoiseRaw proofs.LinkPerm proofs.LinkNoiseExample proofs.LinkExample.
Theorem C08_restart_invisible_at_any_boundary :
  forall (cap : nat) lam vals (sc : list proofs.LinkNoise.slot) (tl : list model.AbftRun.op) J K,
  let D := map proofs.LinkNoise.s_ev sc in
  let ops := proofs.LinkNoise.sched_ops lam vals sc tl in let mask := proofs.LinkNoise.sched_mask sc tl in
  proofs.LinkPerm.raw_ok vals -> (model.Abft.v_total vals < 2 ^ 31)%N -> proofs.LinkNoise.noise_side D J K ops ->
  proofs.BftProps.valid_run vals D ->
  proofs.LinkNoise.ok_from cap J (model.AbftRun.start 1 vals) ops mask ->
  proofs.LinkDefs.render (proofs.LinkNoise.pick mask (model.AbftRun.run cap [] model.Abft.sample (model.AbftRun.start 1 vals) ops))
    = spec.ElectionSpec.reference vals D /\
  proofs.LinkDefs.render (proofs.LinkNoise.pick mask (model.AbftRun.run cap [] model.Abft.sample (model.AbftRun.start 1 vals) ops))
    = proofs.LinkDefs.abft_run cap lam vals D.
Proof. exact proofs.LinkNoiseRaw.link_noise_raw. Qed.

(* non-vacuity: four restarts, one right after a rejected Process, one between a Build and its Process,
   one after a rejected Process between a Build and its Process, one at the end; each reports no error and no block *)
Example C08_restart_at_any_boundary_example :
  map proofs.LinkNoise.s_ev proofs.LinkNoiseExample.rx_sc = proofs.LinkExample.ex3_D /\
  proofs.LinkNoise.noise_side proofs.LinkExample.ex3_D proofs.LinkNoiseExample.nx_J 100 proofs.LinkNoiseExample.rx_ops /\
  proofs.LinkNoise.ok_from 200 proofs.LinkNoiseExample.nx_J (model.AbftRun.start 1 proofs.BftProps.ex_vals)
    proofs.LinkNoiseExample.rx_ops proofs.LinkNoiseExample.rx_mask /\
  (length (filter (fun o => match o with model.AbftRun.ObsR None [] _ _ => true | _ => false end)
      (model.AbftRun.run 200 [] model.Abft.sample (model.AbftRun.start 1 proofs.BftProps.ex_vals) proofs.LinkNoiseExample.rx_ops)) = 4%nat /\
   proofs.LinkDefs.render (proofs.LinkNoise.pick proofs.LinkNoiseExample.rx_mask
      (model.AbftRun.run 200 [] model.Abft.sample (model.AbftRun.start 1 proofs.BftProps.ex_vals) proofs.LinkNoiseExample.rx_ops))
    = spec.ElectionSpec.reference proofs.BftProps.ex_vals proofs.LinkExample.ex3_D).
Proof.
  exact (conj proofs.LinkNoiseExample.rx_D (conj proofs.LinkNoiseExample.rx_side
        (conj proofs.LinkNoiseExample.rx_ok proofs.LinkNoiseExample.rx_restarts))).
Qed.
Print Assumptions C08_restart_invisible_at_any_boundary.

(* ---- appended by worker link: a restart right after a seal (or right after genesis / Reset) ----
   fresh_inst = the instance an epoch starts with (what a sealing block leaves behind: C09_epoch_matches_...).
   Restarting it reports no error and no block, and the run over the following epochs still equals the
   reference (multi-epoch L1, proofs/LinkEpochsCor.v). *)
From LV Require proofs.LinkEpoch proofs.LinkSeal proofs.LinkEpochs proofs.LinkEpochsCor.
Theorem C08_restart_after_seal_invisible :
  forall cap lam pol seal polr K ep vals Ds conf c es, (K < 2 ^ 192)%N ->
  proofs.LinkEpochs.epochs_ok seal polr vals ep Ds -> proofs.LinkEpochs.pol_ok pol seal polr vals ep (length Ds) ->
  (forall D e, In D Ds -> In e D -> proofs.LinkDefs.id_fresh K (model.VecIndex.eid (spec.ElectionSpec.fe e))) ->
  (N.of_nat (proofs.LinkEpochs.total_events Ds) <= K)%N ->
  let i0 := proofs.LinkEpochs.fresh_inst ep (model.Abft.mk_vals vals) conf c es in
  fst (fst (model.AbftRun.step cap pol model.Abft.sample i0 model.AbftRun.OpR)) = model.AbftRun.ObsR None [] 0 ep /\
  proofs.LinkEpochs.model_epochs cap lam pol polr (snd (fst (model.AbftRun.step cap pol model.Abft.sample i0 model.AbftRun.OpR))) vals ep Ds
    = spec.ElectionSpec.reference_epochs seal polr vals ep Ds.
Proof. exact proofs.LinkEpochsCor.link_restart_after_seal. Qed.
Print Assumptions C08_restart_after_seal_invisible.

(* ================= Round 3 (worker link): restarts at every boundary of multi-epoch runs =================
   (proofs/LinkEpochX.v nl_x: restart_step under an arbitrary policy; LinkEpochsX.link_x; LinkXCor.v)
   C08_restart_invisible_across_epochs: restarts (OpR) anywhere in the noise of a run over several epochs
   under an arbitrary sealing policy -- before a Build, between a Build and its Process, after a rejected
   Process, in the middle of epoch 2 or later, in epoch 1 of a run that seals later, after the sealing block
   (then in the next epoch's empty instance) -- are invisible: with the restart entries removed the run equals
   the run of the same schedules without noise (verdicts, Build frames, decided frames and epoch after every
   Process, blocks, cheaters, seals, validator sets).
   C08_restart_reports_the_decided_state: every restart itself is observed (rendered with code 8) and reports
   no error, no block, and exactly the decided frame and the epoch of the reference at that point
   (LinkX.ref_x: restarts (st_of T) ..., st_of T = (number of blocks of the table, epoch); after the sealing
   block: (0, epoch + 1)) -- this is part of the equation of link_x.  Hypotheses: on the input only. *)
From LV Require proofs.LinkReject proofs.LinkX proofs.LinkEpochsX proofs.LinkXCheck proofs.LinkXCor proofs.LinkXExample proofs.LinkXCorExample.

Theorem C08_restart_invisible_across_epochs : forall cap lam pol vals Ss K,
  vals <> [] -> proofs.LinkEpochsX.epochs_ok_x pol K vals 1 Ss -> (N.of_nat (proofs.LinkEpochsX.total_builds Ss) <= K)%N -> (K < 2 ^ 192)%N ->
  map proofs.LinkXCor.strip8 (proofs.LinkEpochsX.model_epochs_x cap lam pol (model.AbftRun.start 1 vals) vals 1 Ss) =
  proofs.LinkEpochsX.model_epochs_x cap lam pol (model.AbftRun.start 1 vals) vals 1 (map proofs.LinkXCor.clean_S Ss).
Proof. exact proofs.LinkXCor.link_x_noise_invisible. Qed.

Theorem C08_restart_reports_the_decided_state : forall cap lam pol vals Ss K,
  vals <> [] -> proofs.LinkEpochsX.epochs_ok_x pol K vals 1 Ss -> (N.of_nat (proofs.LinkEpochsX.total_builds Ss) <= K)%N -> (K < 2 ^ 192)%N ->
  proofs.LinkEpochsX.model_epochs_x cap lam pol (model.AbftRun.start 1 vals) vals 1 Ss =
  map (fun r => (fst (fst r), snd (fst r), option_map model.Abft.mk_vals (snd r))) (proofs.LinkEpochsX.ref_epochs_x pol vals 1 Ss).
Proof. exact proofs.LinkEpochsX.link_x. Qed.

(* the three-epoch run: 11 restarts; those of epoch 1 report decided frame 0, 0, 0, 1 in epoch 1 and, after the
   sealing block, decided frame 0 in epoch 2 *)
Example C08_restarts_across_epochs_example :
  proofs.LinkXCheck.epochs_ok_xb proofs.LinkXExample.xx_pol 400 proofs.BftProps.ex_vals 1 proofs.LinkXExample.xx_Ss = true /\
  map (fun e : proofs.LinkX.ev_x => snd e)
      (filter (fun e : proofs.LinkX.ev_x => (fst (fst e) =? 8)%N)
         (fst (fst (nth 0 (proofs.LinkEpochsX.ref_epochs_x proofs.LinkXExample.xx_pol proofs.BftProps.ex_vals 1 proofs.LinkXExample.xx_Ss) ([], [], None))))) =
    [Some (0, 1); Some (0, 1); Some (0, 1); Some (1, 1); Some (0, 2); Some (0, 2); Some (0, 2)]%N /\
  proofs.LinkEpochsX.model_epochs_x 3 proofs.LinkXExample.xx_lam proofs.LinkXExample.xx_pol (model.AbftRun.start 1 proofs.BftProps.ex_vals) proofs.BftProps.ex_vals 1 proofs.LinkXExample.xx_Ss =
  map (fun r => (fst (fst r), snd (fst r), option_map model.Abft.mk_vals (snd r)))
      (proofs.LinkEpochsX.ref_epochs_x proofs.LinkXExample.xx_pol proofs.BftProps.ex_vals 1 proofs.LinkXExample.xx_Ss) /\
  map proofs.LinkXCor.strip8 (proofs.LinkEpochsX.model_epochs_x 3 proofs.LinkXExample.xx_lam proofs.LinkXExample.xx_pol (model.AbftRun.start 1 proofs.BftProps.ex_vals) proofs.BftProps.ex_vals 1 proofs.LinkXExample.xx_Ss) =
  proofs.LinkEpochsX.model_epochs_x 3 proofs.LinkXExample.xx_lam proofs.LinkXExample.xx_pol (model.AbftRun.start 1 proofs.BftProps.ex_vals) proofs.BftProps.ex_vals 1 (map proofs.LinkXCor.clean_S proofs.LinkXExample.xx_Ss).
Proof.
  exact (conj proofs.LinkXExample.xx_input_ok (conj proofs.LinkXExample.xx_restarts_epoch1
        (conj proofs.LinkXExample.xx_refines_by_evaluation proofs.LinkXCorExample.xx_noise_invisible))).
Qed.

(* an instance of C08_restart_after_seal_invisible (round 2): the instance that the sealing block of epoch 1 of
   the two-epoch run leaves behind is restarted before the events of epoch 2 *)
Example C08_restart_after_seal_example :
  proofs.LinkXCorExample.me_used = proofs.LinkEpochs.fresh_inst 2 (model.Abft.mk_vals proofs.BftProps.ex_vals) [] 23 (model.AbftRun.i_es proofs.LinkXCorExample.me_used) /\
  (let i0 := proofs.LinkEpochs.fresh_inst 2 (model.Abft.mk_vals proofs.BftProps.ex_vals) [] 23 (model.AbftRun.i_es proofs.LinkXCorExample.me_used) in
   fst (fst (model.AbftRun.step 200 proofs.LinkXCorExample.me_pol model.Abft.sample i0 model.AbftRun.OpR)) = model.AbftRun.ObsR None [] 0 2 /\
   proofs.LinkEpochs.model_epochs 200 (fun _ => 0%N) proofs.LinkXCorExample.me_pol 0
     (snd (fst (model.AbftRun.step 200 proofs.LinkXCorExample.me_pol model.Abft.sample i0 model.AbftRun.OpR))) proofs.BftProps.ex_vals 2 [proofs.LinkEpochsExample.me_D2]
   = spec.ElectionSpec.reference_epochs 1 0 proofs.BftProps.ex_vals 2 [proofs.LinkEpochsExample.me_D2]).
Proof. exact (conj proofs.LinkXCorExample.me_used_is_that_instance proofs.LinkXCorExample.me_restart_after_seal). Qed.

Print Assumptions C08_restart_invisible_across_epochs.
Print Assumptions C08_restart_reports_the_decided_state.

(* ---- root-list order (proofs/AbftRootOrder.v) ----
   A running instance reads a frame's roots in cache arrival order, a restarted one in key order (validator,
   event id).  The frame computed by Build / checked by Process is the same for any permutation of the root table
   (the quorum test counts a validator iff ANY of its roots of the frame forkless-causes the event), so the order
   cannot make a restart visible.  The seeded "first root per validator only" variant breaks this statement. *)
From LV Require proofs.AbftRootOrder proofs.AbftFrame.
Theorem C08_frame_decision_ignores_root_order : forall v, NoDup (v_ids v) -> forall es s roots roots' e co,
  (forall r, In r roots -> v_exists v (r_val r) = true) ->
  Permutation.Permutation roots roots' ->
  proofs.AbftFrame.frame_pure es v s roots e co = proofs.AbftFrame.frame_pure es v s roots' e co.
Proof. exact proofs.AbftRootOrder.frame_pure_perm. Qed.
Print Assumptions C08_frame_decision_ignores_root_order.
