(* C19 — Parent selection is well-formed; the metric strategy picks a maximal option.
   Model: model/Ancestor.v (emitter/ancestor/search.go ChooseParents, weighted.go MetricStrategy).
   The strategies and the map-iteration order of optionsSet.Slice() are ORACLES; the theorems hold
   for all of them that are [valid]: a shuffle returns a permutation of the set it is given, a
   strategy answers an index below the number of options it is shown.
   Specification: spec/AncestorSpec.v ([wf_result] = the property's sentence). *)
From Coq Require Import NArith PeanoNat List Permutation.
From LV Require Import model.Ancestor spec.AncestorSpec proofs.AncestorProofs proofs.AncestorTrace.
Import ListNotations.
Local Open Scope N_scope.

(* the result is  existing ++ added  with: at most one added option per strategy, added options
   distinct, each one offered (an option that is not an existing parent), and fewer added options than
   strategies only when every offered option was added. *)
Theorem C19_choose_parents_wf : forall existing options strats,
  Forall valid strats ->
  exists result, choose_parents existing options strats = Done result /\
                 wf_result existing options (length strats) result.
Proof. exact choose_parents_wf. Qed.

(* never repeats a parent *)
Theorem C19_choose_parents_nodup : forall existing options strats result,
  Forall valid strats -> NoDup existing ->
  choose_parents existing options strats = Done result -> NoDup result.
Proof. exact choose_parents_nodup. Qed.

(* every strategy call is shown the parents chosen so far and exactly the options still offered (any
   order, no duplicates); the option it points at is the one appended: the recorded calls of a run
   pass the trace verdict of the driver *)
Theorem C19_choose_parents_trace : forall existing options strats log result,
  Forall valid strats ->
  choose_parents_log existing options strats = (log, Done result) ->
  trace_ok existing options log result = true.
Proof. exact choose_parents_trace. Qed.

(* with in-range answers the index expression never panics *)
Theorem C19_choose_parents_no_panic : forall existing options strats ps,
  Forall valid strats -> choose_parents existing options strats <> PanicIndex ps.
Proof. exact choose_parents_no_panic. Qed.

(* MetricStrategy.Choose: in range and of maximal metric, for every metric function and option list *)
Theorem C19_metric_choose_maximal : forall metric opts, opts <> [] ->
  maximal metric opts (metric_choose metric opts).
Proof. exact metric_choose_maximal. Qed.
Theorem C19_metric_strategy_valid : forall sh metric,
  (forall s, Permutation (sh s) s) -> valid (metric_strategy sh metric).
Proof. exact metric_strategy_valid. Qed.

(* MetricCache (metric_cache.go) memoises the metric function behind QuorumIndexer's strategy: over a
   function that does not change (one recacheState generation), for ANY capacity and ANY eviction
   policy that only drops entries, every sequence of look-ups through one cache (started empty or
   sound) returns exactly the function's values - so a MetricStrategy behind the cache chooses as
   the plain one (C19_metric_choose_maximal applies unchanged). *)
Theorem C19_memo_run_is_f : forall f evict ids c, mc_sound f c -> drops_only evict ->
  fst (memo_run f evict c ids) = map f ids /\ mc_sound f (snd (memo_run f evict c ids)).
Proof. exact memo_run_is_f. Qed.
Example C19_ex_memo : mc_sound (fun x => x * x) [] /\ drops_only (fun c => firstn 1 c) /\
  fst (memo_run (fun x => x * x) (fun c => firstn 1 c) [] [3; 4; 5; 3; 4]) = [9; 16; 25; 9; 16].
Proof.
  split; [intros id m []|]. split; [intros c p H; destruct c as [|a c]; [exact H|]; destruct H as [H|[]]; left; exact H|].
  vm_compute. reflexivity.
Qed.

(* the executable verdicts used by the correspondence driver are the Props *)
Theorem C19_wf_result_b_spec : forall existing options nstrat result,
  wf_result_b existing options nstrat result = true <-> wf_result existing options nstrat result.
Proof. exact wf_result_b_spec. Qed.
Theorem C19_maximal_b_spec : forall metric opts i,
  maximal_b metric opts i = true <-> maximal metric opts i.
Proof. exact maximal_b_spec. Qed.

(* ---- non-vacuity: valid oracles exist (reverse the set, pick the last / the metric maximum), and a
   concrete run: existing [7;8], options [8;1;2;1;3], three strategies -> two are used up ... *)
Definition ex_last : strategy := {| shuf := @rev N; choose := fun _ cur => pred (length cur) |}.
Example C19_ex_valid : valid ex_last /\ valid (metric_strategy (fun s => s) (fun x => x mod 3)).
Proof.
  split.
  - split.
    + intros s. apply Permutation_sym, Permutation_rev.
    + intros ps cur H. cbn. destruct cur; [congruence | cbn; apply Nat.lt_succ_diag_r].
  - apply metric_strategy_valid. intros s. apply Permutation_refl.
Qed.
Example C19_ex_run :
  choose_parents [7; 8] [8; 1; 2; 1; 3] [ex_last; metric_strategy (fun s => s) (fun x => x mod 3)]
  = Done [7; 8; 2; 1].
Proof. vm_compute. reflexivity. Qed.
Example C19_ex_exhausted :
  choose_parents [7] [7; 5] [ex_last; ex_last; ex_last] = Done [7; 5].
Proof. vm_compute. reflexivity. Qed.
(* an out-of-range answer is the index panic *)
Example C19_ex_panic :
  choose_parents [7] [5; 6] [{| shuf := fun s => s; choose := fun _ _ => 2%nat |}] = PanicIndex [7].
Proof. vm_compute. reflexivity. Qed.
(* all metrics zero: the last option is returned (still maximal); ties: the first maximum *)
Example C19_ex_metric : metric_choose (fun _ => 0) [4; 5; 6] = 2%nat /\
                        metric_choose (fun x => x mod 2) [4; 5; 7; 6] = 1%nat.
Proof. split; vm_compute; reflexivity. Qed.

Print Assumptions C19_choose_parents_wf.
Print Assumptions C19_choose_parents_nodup.
Print Assumptions C19_choose_parents_trace.
Print Assumptions C19_choose_parents_no_panic.
Print Assumptions C19_metric_choose_maximal.
Print Assumptions C19_metric_strategy_valid.
Print Assumptions C19_memo_run_is_f.
Print Assumptions C19_wf_result_b_spec.
Print Assumptions C19_maximal_b_spec.
