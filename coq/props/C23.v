(* C23 — Storage backends and wrappers share one key-value semantics.
   Proved: every stack of wrappers (table, flushable, synced; memorydb = flushable over devnull)
   over base stores that are ordered maps is observationally equal to the ordered-map
   specification for ALL operation sequences (composition by induction over the stack), and the
   backend glue of leveldb.go / pebble.go (bytesPrefixRange, iterator protocols) is exact.
   NOT proved, by nature: goleveldb and pebble themselves.  In the model an engine IS the ordered
   map ([Eng e m]); that assumption is tested differentially by the harness, never proved.
   Only statements, each closed by [exact]; Print Assumptions at the end. *)
From Coq Require Import NArith List Bool.
From LV Require Import lib.Bytes lib.Lex lib.SortedMap spec.KvSpec spec.KvOps spec.KvStackSpec
  model.PrefixRange model.Table model.Flushable model.KvStack
  proofs.PrefixRangeProofs proofs.KvStackReads proofs.KvStackWrites proofs.KvStackViews proofs.KvStackRefine.
Import ListNotations.
Local Open Scope N_scope.

(* the main theorem: model run = specification run, every stack, every history *)
Theorem C23_refines : forall lsafe ideal s0 ss0 ops, R s0 ss0 -> Forall op_wf ops ->
  map erase (run lsafe ideal s0 ops) = spec_run lsafe ss0 ops.
Proof. exact run_refines. Qed.

(* composition: each wrapper refines the specification when its parent does; empty bases do *)
Theorem C23_base_engine : forall e, R (Eng e []) (SEng []).
Proof. intros e; cbn; repeat split; constructor. Qed.
Theorem C23_base_memory : R (Mem []) (SEng []).
Proof. cbn; repeat split; constructor. Qed.
Theorem C23_wrap_table : forall p u su, wf_bytes p = true -> R u su -> R (Tab p u) (STab p su).
Proof. intros p u su W H; cbn; repeat split; assumption. Qed.
Theorem C23_wrap_flushable : forall u su, R u su -> R (Flu [] u) (SFlu [] su).
Proof. intros u su H; cbn; repeat split; try constructor; assumption. Qed.
Theorem C23_wrap_synced : forall u su, R u su -> R (Syn u) (SSyn su).
Proof. intros u su H; exact H. Qed.

(* every stack reads its abstract map *)
Theorem C23_get : forall s k, wf_st s -> st_get s k = kv_get (view s) k.
Proof. exact st_get_view. Qed.
Theorem C23_has : forall s k, wf_st s -> st_has s k = kv_has (view s) k.
Proof. exact st_has_view. Qed.
Theorem C23_iterate : forall s P S, wf_st s -> wf_bytes (ob P) = true ->
  st_iter s P S = kv_iterate (view s) (ob P) (ob S).
Proof. exact st_iter_view. Qed.
Theorem C23_write : forall s ops, wf_st s -> Forall wop_wf ops ->
  view (st_write s ops) = kv_write (view s) ops /\ wf_st (st_write s ops).
Proof. exact view_write. Qed.

(* backend glue *)
Theorem C23_bytes_prefix_limit : forall p, bytes_prefix_limit p = prefix_succ p.
Proof. exact bytes_prefix_limit_succ. Qed.
Theorem C23_ldb_range : forall P S k, wf_bytes (ob P) = true -> wf_bytes k = true ->
  in_bounds (fst (ldb_range P S)) (snd (ldb_range P S)) k = in_iter (ob P) (ob S) k.
Proof. exact ldb_range_spec. Qed.
Theorem C23_pbl_range : forall P S k, wf_bytes (ob P) = true -> wf_bytes k = true ->
  match pbl_range P S with
  | Some r => in_bounds (fst r) (snd r) k
  | None => in_bounds None None k
  end = in_iter (ob P) (ob S) k.
Proof. exact pbl_range_spec. Qed.
Theorem C23_ldb_next_loop : forall items, ldb_drain (S (length items)) (cur_new items) = items.
Proof. exact ldb_drain_all. Qed.
Theorem C23_pbl_first_then_next : forall items, pbl_drain (S (length items)) (false, cur_new items) = items.
Proof. exact pbl_drain_all. Qed.
Theorem C23_engine_iterate : forall e (m : kvmap) P S, keys_wf m -> wf_bytes (ob P) = true ->
  eng_iter e m P S = kv_iterate m (ob P) (ob S).
Proof. exact eng_iter_spec. Qed.

(* Go slices over a memory of arrays: the repaired range glue (copy, then append) leaves every array
   the caller can see untouched and yields prefix ++ start; the pinned tree's in-place append is
   refuted on the witness in proofs/PrefixRangeProofs.v (range_old_refuted) *)
Theorem C23_range_keeps_caller_memory : forall m prefix start,
  (g_arr prefix < length m)%nat -> (g_len prefix <= length (nth (g_arr prefix) m []))%nat ->
  let '(m', r) := range_start m prefix start in
  (forall i, (i < length m)%nat -> nth i m' [] = nth i m []) /\
  slice_bytes m' r = slice_bytes m prefix ++ start.
Proof. exact range_keeps_caller_memory. Qed.

(* batch replay order = insertion order, in the caller's own keys, through any wrappers *)
Theorem C23_replay_order : forall s l, st_breplay s (map (st_bop s) l) = l.
Proof. exact st_breplay_bop. Qed.

(* non-vacuity *)
Example C23_ex_stack :
  R (Syn (Tab [255] (Flu [] (Eng EPbl [])))) (SSyn (STab [255] (SFlu [] (SEng [])))) /\
  run false 10 (Syn (Tab [255] (Flu [] (Mem []))))
      [OPut h0 [1] []; OPut {| h_d := 2; h_path := [] |} [255; 2] [7]; OFlush 2;
       OIter h0 None None; OGet h0 [1]; OGet h0 [3]; OGet {| h_d := 3; h_path := [] |} [255; 1]]
  = [BIter [([1], []); ([2], [7])]; BGet (Some []); BGet None; BGet (Some [])].
Proof. split; [cbn; repeat split; constructor | vm_compute; reflexivity]. Qed.
Example C23_ex_ranges :
  ldb_range (Some [255; 255]) (Some [1]) = (Some [255; 255; 1], None) /\
  ldb_range None None = (None, None) /\ ldb_range (Some []) None = (None, None) /\
  pbl_range None None = None /\ pbl_range None (Some [1]) = Some (Some [1], None) /\
  pbl_range (Some [0; 255]) None = Some (Some [0; 255], Some [1]).
Proof. repeat split. Qed.

Print Assumptions C23_refines.
Print Assumptions C23_base_engine.
Print Assumptions C23_base_memory.
Print Assumptions C23_wrap_table.
Print Assumptions C23_wrap_flushable.
Print Assumptions C23_wrap_synced.
Print Assumptions C23_get.
Print Assumptions C23_has.
Print Assumptions C23_iterate.
Print Assumptions C23_write.
Print Assumptions C23_bytes_prefix_limit.
Print Assumptions C23_ldb_range.
Print Assumptions C23_pbl_range.
Print Assumptions C23_ldb_next_loop.
Print Assumptions C23_pbl_first_then_next.
Print Assumptions C23_engine_iterate.
Print Assumptions C23_range_keeps_caller_memory.
Print Assumptions C23_replay_order.
