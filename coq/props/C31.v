(* C31 — Piecewise-linear functions interpolate within rounding. (theorems added below as proved) *)
From Coq Require Import NArith List.
From LV Require Import lib.WordArith model.PieceFunc spec.PieceFuncSpec.
Local Open Scope N_scope.
