(* C31 — Piecewise-linear functions interpolate within rounding.
   Only theorem statements, each closed by [exact <lemma>], Examples, and Print Assumptions.
   Model: model/PieceFunc.v (uint64 operations wrapped mod 2^64 explicitly; None = panic).
   Specification: spec/PieceFuncSpec.v (valid_dots; get_ok = ends + exact at dots + neighbour
   bounds, unbounded arithmetic).  All theorems hold for EVERY argument x (in particular every
   uint64) and every dot list. *)
From Coq Require Import NArith List.
From LV Require Import lib.WordArith model.PieceFunc spec.PieceFuncSpec proofs.PieceFuncProofs.
Import ListNotations.
Local Open Scope N_scope.

(* NewFunc panics exactly on the invalid lists (fewer than two dots, X not strictly
   increasing, a coordinate above maxVal) *)
Theorem C31_newfunc_accepts_iff_valid : forall dots, new_func dots = None <-> valid_dots dots = true.
Proof. exact new_func_valid. Qed.
Theorem C31_invalid_rejected : forall dots, valid_dots dots = false -> exists e, new_func dots = Some e.
Proof. exact new_func_total. Qed.

(* on a valid list Get never panics and its result satisfies the whole specification *)
Theorem C31_get_meets_spec : forall dots x, valid_dots dots = true ->
  exists y, get dots x = Some y /\ get_ok dots x y = true.
Proof. exact get_spec. Qed.

(* the clauses of the specification, spelled out *)
Theorem C31_before_first : forall dots x fx fy rest, valid_dots dots = true ->
  dots = (fx, fy) :: rest -> x < fx -> get dots x = Some fy.
Proof. exact get_before. Qed.
Theorem C31_after_last : forall dots x d lx ly, valid_dots dots = true ->
  last dots d = (lx, ly) -> lx < x -> get dots x = Some ly.
Proof. exact get_after. Qed.
Theorem C31_exact_at_dots : forall dots X Y, valid_dots dots = true -> In (X, Y) dots -> get dots X = Some Y.
Proof. exact get_at_dot. Qed.
(* between two neighbouring dots: result < 2^64 (no overflow), <= the larger Y, >= the smaller Y - 1,
   and | y - exact | <= |dY|/10^6 + 2 where exact = (y0 (dx - a) + y1 a)/dx, a = x - x0, dx = x1 - x0
   (the inequality is multiplied by dx * 10^6 to stay in integers) *)
Theorem C31_between_neighbours : forall dots pre x0 y0 x1 y1 post x, valid_dots dots = true ->
  dots = pre ++ (x0, y0) :: (x1, y1) :: post -> x0 <= x -> x <= x1 ->
  exists y, get dots x = Some y /\ y < two64n /\
    N.min y0 y1 <= y + 1 /\ y <= N.max y0 y1 /\
    absdiff (y * (x1 - x0) * unit6) ((y0 * ((x1 - x0) - (x - x0)) + y1 * (x - x0)) * unit6)
      <= (absdiff y1 y0 + 2 * unit6) * (x1 - x0).
Proof. exact get_between. Qed.
(* no intermediate uint64 operation wraps: inside a piece every wrapped operation of the code
   equals the unbounded one, and the value is the unbounded formula *)
Theorem C31_no_intermediate_wrap : forall x0 y0 x1 y1 x,
  x0 <= x -> x <= x1 -> x0 < x1 -> x1 <= max_val -> y0 <= max_val -> y1 <= max_val ->
  let r := ratio_of x0 x1 x in
  sub64 x x0 = x - x0 /\ sub64 x1 x0 = x1 - x0 /\ mul64 (x - x0) decimal_unit = (x - x0) * 1000000 /\
  r <= 1000000 /\ sub64 decimal_unit r = 1000000 - r /\
  mul64 y0 (1000000 - r) = y0 * (1000000 - r) /\ mul64 y1 r = y1 * r /\
  interp (x0, y0) (x1, y1) x = Some (y0 * (1000000 - r) / 1000000 + y1 * r / 1000000).
Proof. exact piece_no_wrap. Qed.

(* --- non-vacuity: a valid list with non-round Ys, extreme coordinates, rounding visible --- *)
Definition ex_dots : list (N * N) := [(0, 7); (3, 1000001); (10, 5); (18446744073708, 18446744073708)].
Example C31_ex_valid : valid_dots ex_dots = true /\ new_func ex_dots = None.
Proof. split; vm_compute; reflexivity. Qed.
Example C31_ex_values :
  get ex_dots 1 = Some 333337 /\ get ex_dots 2 = Some 666668 /\ get ex_dots 3 = Some 1000001 /\
  get ex_dots 4 = Some 857143 /\ get ex_dots 10 = Some 5 /\
  get ex_dots 18446744073709551615 = Some 18446744073708 /\ get ex_dots 18446744073707 = Some 18446725626963.
Proof. repeat split; vm_compute; reflexivity. Qed.
Example C31_ex_invalid :
  new_func [(0, 1)] = Some TooFewDots /\ new_func [(1, 1); (1, 2)] = Some NonMonotonicX /\
  new_func [(0, 18446744073709); (1, 1)] = Some TooLargeY /\ new_func [(0, 1); (18446744073709, 1)] = Some TooLargeX /\
  valid_dots [(0, 1); (18446744073709, 1)] = false.
Proof. repeat split; vm_compute; reflexivity. Qed.
(* maxVal is tight for the no-wrap claim: one more and Y * 10^6 no longer fits *)
Example C31_ex_maxval_tight : (max_val + 1) * 1000000 + 1000000 > max_u64 /\ max_val * 1000000 + 1000000 <= max_u64.
Proof. split; vm_compute; [reflexivity|discriminate]. Qed.

Print Assumptions C31_newfunc_accepts_iff_valid.
Print Assumptions C31_invalid_rejected.
Print Assumptions C31_get_meets_spec.
Print Assumptions C31_before_first.
Print Assumptions C31_after_last.
Print Assumptions C31_exact_at_dots.
Print Assumptions C31_between_neighbours.
Print Assumptions C31_no_intermediate_wrap.
