(* C24 — Tables isolate their key spaces.
   A table [Tab p u] over ANY stack of stores u (memory, engines, flushables, synced, other
   tables) is the translation of kvdb/table onto its parent; [view] is the abstract ordered map
   of a stack and [kv_table_view p m] = "the keys of m that start with p, with p removed".
   Only statements, each closed by [exact]; Print Assumptions at the end. *)
From Coq Require Import NArith List Bool.
From LV Require Import lib.Bytes lib.Lex lib.SortedMap spec.KvSpec spec.KvOps spec.KvStackSpec
  model.PrefixRange model.Table model.Flushable model.KvStack
  proofs.TableView proofs.TableCompact proofs.KvStackReads proofs.KvStackWrites proofs.KvStackViews
  proofs.KvStackRefine proofs.KvIsolation.
Import ListNotations.
Local Open Scope N_scope.

(* noPrefix undoes prefixed; Replay through the replayer returns the caller's own operations *)
Theorem C24_no_prefix_prefixed : forall k p, no_prefix (prefixed k p) p = k.
Proof. exact no_prefix_prefixed. Qed.
Theorem C24_replay_roundtrip : forall s l, st_breplay s (map (st_bop s) l) = l.
Proof. exact st_breplay_bop. Qed.

(* Replay into ANOTHER batch (of any table or store): the destination receives the source's operations
   under the DESTINATION's own key translation, whatever the source's prefix *)
Theorem C24_replay_into_batch : forall xs xd (ls stored_d : list wop),
  fold_left (st_badd xd) (st_breplay xs (map (st_bop xs) ls)) stored_d = stored_d ++ map (st_bop xd) ls.
Proof. exact replay_into_batch. Qed.

(* reads and iteration through a table = the prefix view of the parent *)
Theorem C24_table_get : forall p u k, wf_st (Tab p u) ->
  st_get (Tab p u) k = kv_get (kv_table_view p (view u)) k.
Proof. exact (fun p u k W => st_get_view (Tab p u) k W). Qed.
Theorem C24_table_has : forall p u k, wf_st (Tab p u) ->
  st_has (Tab p u) k = kv_has (kv_table_view p (view u)) k.
Proof. exact (fun p u k W => st_has_view (Tab p u) k W). Qed.
Theorem C24_table_iterate : forall p u P S, wf_st (Tab p u) -> wf_bytes (ob P) = true ->
  st_iter (Tab p u) P S = kv_iterate (kv_table_view p (view u)) (ob P) (ob S).
Proof. exact (fun p u P S W WP => st_iter_view (Tab p u) P S W WP). Qed.

(* writes (puts, deletes, batches) through a table act on that view ... *)
Theorem C24_table_write : forall p u ops, wf_st (Tab p u) -> Forall wop_wf ops ->
  view (st_write (Tab p u) ops) = kv_write (kv_table_view p (view u)) ops /\ wf_st (st_write (Tab p u) ops).
Proof. exact (fun p u ops W F => view_write (Tab p u) ops W F). Qed.
(* ... and change only parent keys that carry the prefix *)
Theorem C24_table_write_outside : forall p u ops k, wf_st (Tab p u) -> Forall wop_wf ops ->
  has_prefix p k = false ->
  exists u', st_write (Tab p u) ops = Tab p u' /\ kv_get (view u') k = kv_get (view u) k.
Proof. exact table_write_outside. Qed.

(* tables whose prefixes are not prefixes of one another never observe each other's writes *)
Theorem C24_isolation : forall p q u ops, wf_st (Tab q u) -> Forall wop_wf ops ->
  has_prefix p q = false -> has_prefix q p = false ->
  exists u', st_write (Tab q u) ops = Tab q u' /\ kv_table_view p (view u') = kv_table_view p (view u).
Proof. exact table_isolation. Qed.

(* nested tables compose *)
Theorem C24_nested : forall p q u, wf_st u -> view (Tab q (Tab p u)) = kv_table_view (p ++ q) (view u).
Proof. exact view_nested. Qed.

(* reflect.go: prefixes accepted by uniqKeys.Check (OpenTables) are pairwise incomparable, hence the
   isolation theorem applies to the tables they create *)
Theorem C24_uniq_check_sound : forall keys, uniq_check keys = true -> pairwise_incomparable keys.
Proof. exact uniq_check_sound. Qed.

(* reflect.go over call histories: the k-th MigrateTables/OpenTables call binds its fields to the tags
   of the k-th struct type, whatever was called before (immediate for the pinned code, which keeps no
   state between calls; a cache keyed by the type's printed name is refuted in
   proofs/TableView.v: migrate_cached_by_name_refuted) *)
Theorem C24_migrate_history_independent : forall calls k,
  nth k (migrate_history calls) [] = migrate_tables (nth k calls []).
Proof. exact migrate_history_independent. Qed.

(* incPrefix (through math/big as coded): nil exactly for empty / all-0xff prefixes, never out
   of fuel, and [p, incPrefix p) contains every key with prefix p *)
Theorem C24_inc_prefix : forall p, wf_bytes p = true ->
  match inc_prefix p with
  | IncNil => prefix_succ p = None
  | IncSome u => exists u0, prefix_succ p = Some u0 /\ u = pad_succ p u0
  | IncOutOfFuel => False
  end.
Proof. exact inc_prefix_spec. Qed.
Theorem C24_inc_prefix_nil : forall p, wf_bytes p = true ->
  (inc_prefix_okey p = None <-> Forall (fun b => b = 255) p).
Proof. exact inc_prefix_nil_iff. Qed.
Theorem C24_compact_covers : forall p k, wf_bytes p = true -> wf_bytes k = true -> has_prefix p k = true ->
  lex_le p k /\ (forall u, inc_prefix_okey p = Some u -> lex_lt k u).
Proof. exact inc_prefix_covers. Qed.
(* also through any nesting of tables / wrappers: the range reaching the base covers the full prefix *)
Theorem C24_compact_covers_nested : forall s, prefixes_wf s ->
  covers_opt (bpre s) (st_compact s None None) = true.
Proof. exact st_compact_whole. Qed.
Theorem C24_compact_covers_meaning : forall P lo hi k, wf_bytes P = true -> wf_bytes k = true ->
  compact_covers P lo hi = true -> has_prefix P k = true ->
  lex_le (ob lo) k /\ (forall h, hi = Some h -> lex_lt k h).
Proof. exact compact_covers_sound. Qed.

(* all histories (sibling / nested tables as handles, raw access, batches, snapshots): the model
   run equals the specification run, in which a table is literally the prefix view *)
Theorem C24_histories : forall lsafe ideal s0 ss0 ops, R s0 ss0 -> Forall op_wf ops ->
  map erase (run lsafe ideal s0 ops) = spec_run lsafe ss0 ops.
Proof. exact run_refines. Qed.

(* isolation over whole histories: inserting, anywhere, writes through handles inside the key space
   of Q changes no observation of a history (p_hist) whose reads, iterations and snapshots go through
   handles (one level d of the stack) with full prefix incomparable with Q and whose direct writes
   and batches (bound in the history) go anywhere on level d.  Flush, drop, init, NotFlushedPairs,
   Compact, Stat, live iterators and handles on other levels are NOT covered (p_hist is False). *)
Theorem C24_history_isolation_spec : forall d Q lsafe ss0 l1 l2, swf ss0 -> inserted d Q l1 l2 ->
  p_hist d Q [] l1 -> spec_run lsafe ss0 l2 = spec_run lsafe ss0 l1.
Proof. exact spec_isolation. Qed.
Theorem C24_history_isolation : forall d Q lsafe ideal s0 ss0 l1 l2, R s0 ss0 ->
  inserted d Q l1 l2 -> p_hist d Q [] l1 -> Forall op_wf l1 -> Forall op_wf l2 ->
  map erase (run lsafe ideal s0 l2) = map erase (run lsafe ideal s0 l1).
Proof. exact model_isolation. Qed.

(* non-vacuity *)
Example C24_ex_isolation :
  let hp := {| h_d := 0; h_path := [[97]] |} in
  let hq := {| h_d := 0; h_path := [[98]; [0]] |} in
  let l1 := [OPut hp [1] []; OBNew 0 hp; OBPut 0 [2] [3]; OSnap hp; OBWrite 0; OGet hp [1]; OSIter 0 None None] in
  inserted 0 [98] l1 (OPut hq [1] [2] :: OPut hp [1] [] :: OBNew 0 hp :: ODel hq [] :: skipn 2 l1)
  /\ p_hist 0 [98] [] l1.
Proof. exact isolation_nonvacuous. Qed.
Example C24_ex_state :
  let u := Eng ELdb [([97; 1], [5]); ([97; 255], []); ([98], [6])] in
  wf_st (Tab [97] u) /\ R (Tab [97] u) (STab [97] (SEng [([97; 1], [5]); ([97; 255], []); ([98], [6])])) /\
  view (Tab [97] u) = [([1], [5]); ([255], [])] /\
  st_iter (Tab [97] u) (Some [255]) None = [([255], [])].
Proof. cbn. repeat split; repeat constructor. Qed.
Example C24_ex_incomparable : has_prefix [0; 255] [0] = false /\ has_prefix [0] [0; 255] = true /\
  has_prefix [97] [255] = false /\ has_prefix [255] [97] = false.
Proof. repeat split. Qed.
Example C24_ex_uniq : uniq_check [[97]; [98; 0]; [99]] = true /\ uniq_check [[97]; [97; 0]] = false.
Proof. split; reflexivity. Qed.
Example C24_ex_inc : inc_prefix [0; 255] = IncSome [1; 0] /\ inc_prefix [255; 255] = IncNil /\
  inc_prefix [] = IncNil /\ inc_prefix [97; 0] = IncSome [97; 1] /\ prefix_succ [0; 255] = Some [1].
Proof. repeat split; vm_compute; reflexivity. Qed.
Example C24_ex_compact :
  st_compact (Tab [255] (Tab [97] (Eng ELdb []))) None None = Some (Some [97; 255], Some [98]).
Proof. vm_compute. reflexivity. Qed.

Print Assumptions C24_no_prefix_prefixed.
Print Assumptions C24_replay_roundtrip.
Print Assumptions C24_replay_into_batch.
Print Assumptions C24_table_get.
Print Assumptions C24_table_has.
Print Assumptions C24_table_iterate.
Print Assumptions C24_table_write.
Print Assumptions C24_table_write_outside.
Print Assumptions C24_isolation.
Print Assumptions C24_nested.
Print Assumptions C24_uniq_check_sound.
Print Assumptions C24_migrate_history_independent.
Print Assumptions C24_inc_prefix.
Print Assumptions C24_inc_prefix_nil.
Print Assumptions C24_compact_covers.
Print Assumptions C24_compact_covers_nested.
Print Assumptions C24_compact_covers_meaning.
Print Assumptions C24_histories.
Print Assumptions C24_history_isolation_spec.
Print Assumptions C24_history_isolation.
