(* C27 — Caching producer reference-counts opens (after the repair fixes/C27.patch).
   Only theorem statements, each closed by [exact <lemma>], Examples, Print Assumptions.
   Model: model/CachedProducer.v ([wrap] = Wrap, [wrap_all] = WrapAll: two different initial
   states, each built from its constructor's own composite literal, over the shared openDB); specification: spec/CachedProducerSpec.v (a predicate on observable traces).
   A trace item is (operation, result, underlying producer/store calls).  [balance name pre] =
   successful opens - successful closes of name in the prefix, [cur name pre] = the store
   created by the latest underlying OpenDB(name).  Histories are by-name: Close/Drop go to the
   handle most recently returned for the name. *)
From Coq Require Import NArith List Bool.
From LV Require Import model.CachedProducer spec.CachedProducerSpec proofs.CachedProducerProofs proofs.CachedProducerOnce proofs.CachedProducerDrop.
Import ListNotations.
Local Open Scope N_scope.

(* every open/close/drop history of either constructor satisfies the whole specification *)
Theorem C27_trace_spec_all_histories :
  forall s0 ops, s0 = wrap \/ s0 = wrap_all -> forallb by_name_op ops = true ->
  trace_ok (snd (crun s0 ops)) = true.
Proof. exact trace_ok_all. Qed.

(* ... and its four sentences, spelled out.  1: same store while open, producer untouched *)
Theorem C27_open_while_open_returns_same_store :
  forall s0, s0 = wrap \/ s0 = wrap_all -> forall ops, forallb by_name_op ops = true ->
  forall pre post r ev name f,
  snd (crun s0 ops) = pre ++ (COpen name f, r, ev) :: post -> 0 < balance name pre ->
  exists u, cur name pre = Some u /\ r = RHandle u /\ ev = [].
Proof. exact open_while_open. Qed.

Theorem C27_open_when_closed_opens_underlying_once :
  forall s0, s0 = wrap \/ s0 = wrap_all -> forall ops, forallb by_name_op ops = true ->
  forall pre post r ev name f,
  snd (crun s0 ops) = pre ++ (COpen name f, r, ev) :: post -> balance name pre = 0 ->
  if f then r = ROpenErr /\ ev = [UOpenFail name]
  else exists u, r = RHandle u /\ ev = [UOpen name u] /\ used_uid u pre = false.
Proof. exact open_when_closed. Qed.

(* 2 + 3: underlying Close exactly when the count goes 1 -> 0; over-closing is an error *)
Theorem C27_close_underlying_exactly_at_last_close :
  forall s0, s0 = wrap \/ s0 = wrap_all -> forall ops, forallb by_name_op ops = true ->
  forall pre post r ev name,
  snd (crun s0 ops) = pre ++ (CClose name, r, ev) :: post ->
  match cur name pre with
  | None => r = RNoHandle /\ ev = []
  | Some u => (balance name pre = 0 -> r = ROverClose /\ ev = []) /\
              (balance name pre = 1 -> r = ROk /\ ev = [UClose u]) /\
              (1 < balance name pre -> r = ROk /\ ev = [])
  end.
Proof. exact close_cases. Qed.

(* ... and no underlying store is ever closed twice ([closes] = the store ids of all underlying
   Close calls of the trace, in order); store ids are produced by one underlying open each, and
   only opened stores are closed.  With the theorem above: closed exactly once, at the last close. *)
Theorem C27_each_store_closed_at_most_once :
  forall s0 ops, s0 = wrap \/ s0 = wrap_all -> forallb by_name_op ops = true ->
  NoDup (closes (snd (crun s0 ops))) /\ NoDup (map snd (uopens (snd (crun s0 ops)))) /\
  (forall u, In u (closes (snd (crun s0 ops))) -> exists n, In (n, u) (uopens (snd (crun s0 ops)))).
Proof. exact closes_once_all_histories. Qed.

Theorem C27_over_close_touches_nothing :
  forall s u name, count_of name s = 0 -> close_h u name s = (s, ROverClose, []).
Proof. exact over_close_touches_nothing. Qed.

(* 4: the underlying Drop runs at most once per OpenDB call *)
Theorem C27_drop_reaches_underlying_iff_droppable :
  forall s0, s0 = wrap \/ s0 = wrap_all -> forall ops, forallb by_name_op ops = true ->
  forall pre post r ev name,
  snd (crun s0 ops) = pre ++ (CDrop name, r, ev) :: post ->
  match cur name pre with
  | None => r = RNoHandle /\ ev = []
  | Some u => r = ROk /\ ev = (if droppable name pre then [UDrop u] else [])
  end.
Proof. exact drop_cases. Qed.

Theorem C27_not_droppable_again_before_next_open :
  forall name (pre mid : list titem) ev,
  forallb (no_open_of name) mid = true ->
  droppable name (pre ++ (CDrop name, ROk, ev) :: mid) = false.
Proof. exact droppable_after_drop. Qed.

(* the same sentence per underlying store: the number of underlying Drop calls on a store u is
   at most the number of OpenDB(name) calls (fresh, cached or failed) made while u is the store
   behind name; stores never opened are never dropped.  "Per open" therefore means per OpenDB
   CALL: a cached or failed OpenDB re-arms Drop, exactly as `c.notDropped[name] = true` at the
   top of openDB does (Example drop_rearmed_by_failed_and_cached_open in proofs). *)
Theorem C27_drops_per_store_at_most_open_calls :
  forall s0 ops, s0 = wrap \/ s0 = wrap_all -> forallb by_name_op ops = true ->
  (forall n u, In (n, u) (uopens (snd (crun s0 ops))) ->
     (ndrops u (snd (crun s0 ops)) <= opens_while n u (snd (crun s0 ops)))%nat) /\
  (forall u, (forall n, ~ In (n, u) (uopens (snd (crun s0 ops)))) -> ndrops u (snd (crun s0 ops)) = 0%nat).
Proof. exact drops_per_open_all_histories. Qed.

(* no history at all (stale handles included) panics or blocks after the repair *)
Theorem C27_never_panics :
  forall ops s s' tr, alive s -> crun s ops = (s', tr) ->
  forall o r ev, In (o, r, ev) tr -> r <> RPanic /\ r <> RDead.
Proof. exact never_panics. Qed.

(* the two constructors are two different initial states (each built from its own composite
   literal, [construct kind maps]); both initialise all three maps *)
Theorem C27_both_constructors_initialise_all_maps : alive wrap /\ alive wrap_all /\ wrap <> wrap_all.
Proof. exact ctors_alive. Qed.

(* an error returned by the underlying Close (scripted per call): the wrapper has already released
   the entry, so the state change and the underlying call are those of a successful close; only
   the result is the underlying error.  Hence after a failing last close the name is closed: a
   further Close is an over-close, a further OpenDB opens a fresh store (all earlier theorems apply
   to the rest of the history). *)
Theorem C27_failing_underlying_close_releases_the_entry :
  forall s name,
  cstep s (CCloseE name) =
  (let '(s', r, ev) := cstep s (CClose name) in
   (s', match ev with [] => r | _ => if dead s then r else RCloseErr end, ev)).
Proof. exact close_error_like_close. Qed.

(* ---- concurrency.  All theorems above are about SEQUENTIAL histories.  For overlapping calls
   only the code as it is is modelled for one case, and it refutes the property there: openDB
   releases the mutex around the underlying OpenDB, so two OpenDB(name) calls on a closed name,
   the second issued while the first is inside the underlying open, both open the underlying
   database: two different stores are returned and the counting clauses (conc_ok: at most one
   live store per name) fail; the store of the second call is never closed by the two matching
   closes.  Known finding C27-concurrent-first-open (not repaired: a fix has to decide what to do
   with the duplicate underlying store).  Other overlaps are tested on forced interleavings only. *)
Theorem C27_overlapping_first_opens_refuted :
  forall s0, s0 = wrap \/ s0 = wrap_all ->
  let '(s, r1, r2, ev) := open_overlap 0 s0 in
  r1 = RHandle 0 /\ r2 = RHandle 1 /\ ev = [UOpen 0 0; UOpen 0 1] /\
  conc_ok [([KOpen 0 r1; KOpen 0 r2], ev)] = false /\
  snd (crun s [CClose 0; CClose 0]) = [(CClose 0, ROk, []); (CClose 0, ROk, [UClose 0])].
Proof. exact overlapping_first_opens. Qed.

(* non-vacuity: a history with a cached open, a counted-down close, the real close, an
   over-close, a guarded second drop and a re-open with a fresh store *)
Example C27_ex_history :
  snd (crun wrap [COpen 0 false; COpen 0 false; CClose 0; CDrop 0; CDrop 0; CClose 0; CClose 0; COpen 0 false]) =
  [(COpen 0 false, RHandle 0, [UOpen 0 0]); (COpen 0 false, RHandle 0, []); (CClose 0, ROk, []);
   (CDrop 0, ROk, [UDrop 0]); (CDrop 0, ROk, []); (CClose 0, ROk, [UClose 0]); (CClose 0, ROverClose, []);
   (COpen 0 false, RHandle 1, [UOpen 0 1])] /\
  kind wrap = KWrap /\ kind wrap_all = KWrapAll.
Proof. vm_compute. repeat split; reflexivity. Qed.

Print Assumptions C27_trace_spec_all_histories.
Print Assumptions C27_open_while_open_returns_same_store.
Print Assumptions C27_open_when_closed_opens_underlying_once.
Print Assumptions C27_close_underlying_exactly_at_last_close.
Print Assumptions C27_each_store_closed_at_most_once.
Print Assumptions C27_over_close_touches_nothing.
Print Assumptions C27_drop_reaches_underlying_iff_droppable.
Print Assumptions C27_not_droppable_again_before_next_open.
Print Assumptions C27_drops_per_store_at_most_open_calls.
Print Assumptions C27_never_panics.
Print Assumptions C27_failing_underlying_close_releases_the_entry.
Print Assumptions C27_overlapping_first_opens_refuted.
Print Assumptions C27_both_constructors_initialise_all_maps.
