(* C27 — placeholder until the theorems are in (pipeline first). *)
From Coq Require Import NArith List.
From LV Require Import model.CachedProducer spec.CachedProducerSpec.
