(* C14 — Ordering buffer delivers parents first, once, and releases every push.
   Model: model/Buffer.v (repaired pushEvent; the code as found is [run_old], refuted in
   proofs/BufferOld.v).  [hist ops] = all callbacks, oldest first, of the history [ops]
   (pushes with duplicates, Clear, events connected from outside) under limits limN/limS and
   arbitrary Check/Process failure oracles fc/fp (which may depend on the whole log so far). *)
From Coq Require Import NArith List.
From LV Require Import model.Buffer spec.BufferSpec proofs.BufferInv proofs.BufferTheorems proofs.BufferOld
  proofs.BufferComplete2 proofs.BufferSpecProofs proofs.BufferTop proofs.BufferT5Check.
Import ListNotations.
Local Open Scope N_scope.

Theorem C14_T1_parents_first : forall fc fp limN limS ops pre c e ok post,
  hist fc fp limN limS ops = pre ++ OProcess c e ok :: post ->
  exists x, lookup (copies_of ops) c = Some x /\ eid x = e /\
            forall p, In p (pars x) -> connected_by pre p.
Proof. exact T1_parents_first. Qed.

Theorem C14_T2_process_once : forall fc fp limN limS ops, NoDup (proc_cids (hist fc fp limN limS ops)).
Proof. exact T2_process_once. Qed.
Theorem C14_T2_not_after_released : forall fc fp limN limS ops pre c e ok post,
  hist fc fp limN limS ops = pre ++ OProcess c e ok :: post -> ~ released_in pre c.
Proof. exact T2_not_after_released. Qed.

Theorem C14_T3_released_at_most_once : forall fc fp limN limS ops, NoDup (rel_cids (hist fc fp limN limS ops)).
Proof. exact T3_released_at_most_once. Qed.
Theorem C14_T3_only_pushed_released : forall fc fp limN limS ops c,
  released_in (hist fc fp limN limS ops) c -> exists x, In x (copies_of ops) /\ cid x = c.
Proof. exact T3_only_pushed_released. Qed.
Theorem C14_T3_buffered_or_released : forall fc fp limN limS ops x, In x (copies_of ops) ->
  In x (inc (final fc fp limN limS ops)) \/ released_in (hist fc fp limN limS ops) (cid x).
Proof. exact T3_buffered_or_released. Qed.
Theorem C14_T3_cleared_exactly_once : forall fc fp limN limS ops x,
  In x (copies_of (ops ++ [OpClear])) ->
  count_occ N.eq_dec (rel_cids (hist fc fp limN limS (ops ++ [OpClear]))) (cid x) = 1%nat
  /\ inc (final fc fp limN limS (ops ++ [OpClear])) = [].
Proof. exact T3_cleared_exactly_once. Qed.

Theorem C14_T4_within_limits : forall fc fp limN limS ops,
  total_num (inc (final fc fp limN limS ops)) <= limN /\
  total_size (inc (final fc fp limN limS ops)) <= limS.
Proof. exact T4_within_limits. Qed.
Theorem C14_T4_push_reports_total : forall fc fp limN limS ops e ps sz,
  exists c ok n z rest,
    log (final fc fp limN limS (ops ++ [OpPush e ps sz])) = OPushed c ok n z :: rest
    /\ n = total_num (inc (final fc fp limN limS (ops ++ [OpPush e ps sz])))
    /\ z = total_size (inc (final fc fp limN limS (ops ++ [OpPush e ps sz])))
    /\ n <= limN /\ z <= limS.
Proof. exact T4_push_reports_total. Qed.

Theorem C14_fuel_suffices : forall fc fp limN limS ops, oof (final fc fp limN limS ops) = false.
Proof. exact fuel_suffices. Qed.

(* the executable checkers the driver evaluates on the implementation's log accept every
   history of the model (T1 and T2 clauses) *)
Theorem C14_model_passes_checkers_T1_T2 : forall fc fp limN limS ops,
  t1_walk (copies_of ops) [] (hist fc fp limN limS ops) = true
  /\ t2_walk [] [] (hist fc fp limN limS ops) = true.
Proof. exact model_passes_t1_t2. Qed.

Theorem C14_model_passes_checkers_T3_T4 : forall fc fp limN limS ops,
  t3_walk (copies_of ops) [] [] (hist fc fp limN limS ops) = true
  /\ t4_walk limN limS (hist fc fp limN limS ops) = true.
Proof. exact model_passes_t3_t4. Qed.

(* the WHOLE executable specification (all five clauses, T5 included) accepts every history of
   the model, for every oracle: for T5 this uses that a run in whose log nothing failed is the run
   with never-failing oracles, and that the checker's peeling of the DAG yields a rank *)
Theorem C14_model_passes_c14_check : forall fc fp limN limS ops,
  c14_check limN limS ops (hist fc fp limN limS ops) = true.
Proof. exact model_passes_c14_check. Qed.

(* the checker's DAG test (iterative peeling) is EXACTLY the rank hypothesis of T5: it succeeds on
   every parents-closed DAG (so t5_check is not vacuous there) and, with distinct ids, only there *)
Theorem C14_closed_dag_complete : forall (rank : N -> nat) cs,
  (forall x, In x cs -> forall p, In p (pars x) ->
     (exists y, In y cs /\ eid y = p) /\ (rank p < rank (eid x))%nat) ->
  closed_dag cs = true.
Proof. exact closed_dag_complete. Qed.
Theorem C14_closed_dag_sound : forall cs, NoDup (map eid cs) -> closed_dag cs = true ->
  exists rank : N -> nat, forall x, In x cs -> forall p, In p (pars x) ->
    (exists y, In y cs /\ eid y = p) /\ (rank p < rank (eid x))%nat.
Proof. exact closed_dag_rank. Qed.

(* SOUNDNESS of the checkers that the driver runs on the IMPLEMENTATION's log: on an arbitrary
   log l (oldest first) and copies table cs, checker = true implies the statement *)
Theorem C14_checker_T1_sound : forall cs l, t1_walk cs [] l = true ->
  forall pre c e ok post, l = pre ++ OProcess c e ok :: post ->
    exists x, lookup cs c = Some x /\ eid x = e /\ forall p, In p (pars x) -> connected_by pre p.
Proof. exact t1_sound. Qed.
Theorem C14_checker_T2_sound : forall l, t2_walk [] [] l = true ->
  forall pre c e ok post, l = pre ++ OProcess c e ok :: post ->
    ~ processed_in pre c /\ ~ released_in pre c.
Proof. exact t2_sound. Qed.
Theorem C14_checker_T3_sound : forall cs l, t3_walk cs [] [] l = true ->
  (forall pre c e err post, l = pre ++ OReleased c e err :: post ->
     ~ released_in pre c /\ exists x, lookup cs c = Some x /\ eid x = e)
  /\ (forall pre n z post, l = pre ++ OCleared n z :: post ->
        n = 0 /\ z = 0 /\ forall c, In c (pushed_cids pre) -> released_in pre c)
  /\ (forall pre c ok n z post, l = pre ++ OPushed c ok n z :: post ->
        n = N.of_nat (S (length (pushed_cids pre))) - N.of_nat (length (rel_cids pre))).
Proof. exact t3_sound. Qed.

(* T5 completeness: the limits cannot bind, Check/Process never fail, the pushed events are
   distinct and form a parents-closed DAG (a rank decreasing along parent edges exists).  Then for
   EVERY push order every event is processed and the buffer ends empty. *)
Theorem C14_T5_complete : forall fc fp, (forall l x, fc l x = false /\ fp l x = false) ->
  forall limN limS pushes (rank : N -> nat),
    let ops := push_ops pushes in
    let cs := copies_of ops in
    NoDup (map eid cs) -> total_num cs <= limN -> total_size cs <= limS ->
    (forall x, In x cs -> forall p, In p (pars x) ->
               (exists y, In y cs /\ eid y = p) /\ (rank p < rank (eid x))%nat) ->
    (forall x, In x cs -> exists c, In (OProcess c (eid x) true) (hist fc fp limN limS ops))
    /\ inc (final fc fp limN limS ops) = [].
Proof. exact T5_complete. Qed.

(* non-vacuity of T5's hypotheses: the diamond 1 <- 2,3 <- 4 pushed children first, limits exactly
   sufficient, rank = event id *)
Definition c14_t5_ex : list (N * list N * N) := [(4, [2; 3], 4); (3, [1], 3); (2, [1], 2); (1, [], 1)].
Example C14_T5_nonvacuous :
  let cs := copies_of (push_ops c14_t5_ex) in
  NoDup (map eid cs) /\ total_num cs <= 4 /\ total_size cs <= 10 /\
  (forall x, In x cs -> forall p, In p (pars x) ->
             (exists y, In y cs /\ eid y = p) /\ (N.to_nat p < N.to_nat (eid x))%nat) /\
  hist (fun _ _ => false) (fun _ _ => false) 4 10 (push_ops c14_t5_ex) =
  [ OPushed 0 false 1 4; OPushed 1 false 2 7; OPushed 2 false 3 9;
    OCheck 3 1 true; OProcess 3 1 true; OReleased 3 1 0;
    OCheck 1 3 true; OProcess 1 3 true; OReleased 1 3 0;
    OCheck 2 2 true; OProcess 2 2 true; OReleased 2 2 0;
    OCheck 0 4 true; OProcess 0 4 true; OReleased 0 4 0; OPushed 3 true 0 0 ].
Proof.
  cbv zeta. split; [|split; [|split; [|split]]].
  - vm_compute. repeat (constructor; [simpl; intuition discriminate|]). constructor.
  - vm_compute. discriminate.
  - vm_compute. discriminate.
  - intros x Hx p Hp. vm_compute in Hx.
    repeat (destruct Hx as [Hx|Hx]; [subst x; simpl in Hp;
      repeat (destruct Hp as [Hp|Hp]; [subst p; split; [vm_compute; eauto 10 | vm_compute; repeat constructor]|]);
      try contradiction|]); contradiction.
  - vm_compute. reflexivity.
Qed.

(* non-vacuity: a history in which the recursion runs, a Process fails inside it, a copy is a
   duplicate and one is spilled; the theorems' hypotheses (a Process in the history, a pushed
   copy) are met by it *)
Definition c14_ex : list op :=
  [OpPush 2 [1] 1; OpPush 3 [1; 2] 1; OpPush 3 [1; 2] 1; OpPush 9 [8] 5; OpPush 1 [] 1].
Example C14_nonvacuous :
  hist (tbl_check []) (tbl_process [(3, 0)]) 3 4 c14_ex =
  [ OPushed 0 false 1 1; OPushed 1 false 2 2; OReleased 2 3 5; OPushed 2 false 2 2;
    OReleased 0 2 4; OReleased 1 3 4; OReleased 3 9 4; OPushed 3 false 0 0;
    OCheck 4 1 true; OProcess 4 1 true; OReleased 4 1 0; OPushed 4 true 0 0 ].
Proof. vm_compute. reflexivity. Qed.
Example C14_nonvacuous_recursion :
  hist (tbl_check []) (tbl_process [(3, 0)]) 9 9 [OpPush 2 [1] 1; OpPush 3 [1; 2] 1; OpPush 1 [] 1; OpClear] =
  [ OPushed 0 false 1 1; OPushed 1 false 2 2;
    OCheck 2 1 true; OProcess 2 1 true; OReleased 2 1 0;
    OCheck 0 2 true; OProcess 0 2 true; OReleased 0 2 0;
    OCheck 1 3 true; OProcess 1 3 false; OReleased 1 3 3;
    OPushed 2 true 0 0; OCleared 0 0 ].
Proof. vm_compute. reflexivity. Qed.

Print Assumptions C14_T1_parents_first.
Print Assumptions C14_T2_process_once.
Print Assumptions C14_T2_not_after_released.
Print Assumptions C14_T3_released_at_most_once.
Print Assumptions C14_T3_only_pushed_released.
Print Assumptions C14_T3_buffered_or_released.
Print Assumptions C14_T3_cleared_exactly_once.
Print Assumptions C14_T4_within_limits.
Print Assumptions C14_T4_push_reports_total.
Print Assumptions C14_fuel_suffices.
Print Assumptions C14_T5_complete.
Print Assumptions C14_model_passes_checkers_T1_T2.
Print Assumptions C14_model_passes_checkers_T3_T4.
Print Assumptions C14_model_passes_c14_check.
Print Assumptions C14_closed_dag_complete.
Print Assumptions C14_closed_dag_sound.
Print Assumptions C14_checker_T1_sound.
Print Assumptions C14_checker_T2_sound.
Print Assumptions C14_checker_T3_sound.
