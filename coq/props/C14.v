(* C14 — placeholder until the theorems land (step 2). *)
From LV Require Import model.Buffer spec.BufferSpec proofs.BufferOld.
