(* C25 — Multi-database flushes are crash consistent.  (theorems are added as they are proved) *)
From Coq Require Import NArith List.
From LV Require Import lib.Bytes model.CrashBase model.SyncedPool model.Flagged.
