(* C25 — Multi-database flushes are crash consistent.
   Only theorem statements, each closed by [exact <lemma>], and Print Assumptions.

   [run_pool fk scale h] runs the history h of user operations through the model of
   flushable.SyncedPool and yields the log of durable operations (rs_log) and one record per
   completed flush (rs_recs): position in the log, flush ID, and the contents of every open
   database according to the independent specification CrashBase.spec_step (an abstract map per
   database driven by the user's puts, deletes, batches and drops only).  The orders in which the
   four loops of flush() range over Go maps are oracle lists inside each HFlush of h, so "for
   every h" includes "for every phase order".  [crash log k] is the world after the first k
   durable operations; l is the surviving databases in ANY order (CheckDBsSynced ranges over a
   Go map); [crash_consistent] says: the verdict is dirty / not synced / non-initialised, or it is
   "no flush" and every surviving database is empty, or it is the mark of a flush completed at or
   before k and every surviving database holds exactly its contents at that flush (databases
   absent at that flush are empty). *)
From Coq Require Import NArith List Permutation.
From LV Require Import lib.Bytes model.CrashBase model.SyncedPool model.Flagged
  proofs.CrashBaseProofs proofs.SyncedPoolProofs proofs.FlaggedProofs proofs.FlaggedAnyIds proofs.CrashSessions.
Import ListNotations.
Local Open Scope N_scope.

Theorem C25_pool_crash_consistent : forall fk scale h k l,
  history_avoids fk h = true ->
  lists_world l (crash (rs_log (run_pool fk scale h)) k) ->
  crash_consistent fk (rs_recs (run_pool fk scale h)) k (crash (rs_log (run_pool fk scale h)) k) l.
Proof. exact pool_crash_consistent. Qed.

(* The same for flaggedproducer.Producer (writes go straight to the backend, preceded by the dirty
   mark on the first write after an open or a flush; Flush writes the clean marks).  Hypothesis:
   two consecutive flushes use different IDs — with equal IDs the statement holds only with the
   flush that is still in progress (Example C25_flagged_same_id). *)
Theorem C25_flagged_crash_consistent : forall fk h k l,
  history_avoids fk h = true -> flush_ids_change None h = true ->
  lists_world l (crash (fr_log (run_flagged fk h)) k) ->
  crash_consistent fk (fr_recs (run_flagged fk h)) k (crash (fr_log (run_flagged fk h)) k) l.
Proof. exact flagged_crash_consistent. Qed.

(* Without any assumption on the flush IDs: the record completed at or before k, or it is the FIRST
   record of the history that completes after k, i.e. the flush in progress at the crash point
   (CrashBase.rec_at / crash_consistent_ip). *)
Theorem C25_flagged_crash_consistent_any_ids : forall fk h k l,
  history_avoids fk h = true ->
  lists_world l (crash (fr_log (run_flagged fk h)) k) ->
  crash_consistent_ip fk (fr_recs (run_flagged fk h)) k (crash (fr_log (run_flagged fk h)) k) l.
Proof. exact flagged_crash_consistent_any_ids. Qed.

(* The other direction (an implementation that always reports "dirty" does not satisfy the theorem
   set): a crash exactly when a flush has returned is reported as that flush, by any visiting order,
   whenever a database survives. *)
Theorem C25_pool_flush_reported : forall fk scale h rc l,
  history_avoids fk h = true -> In rc (rs_recs (run_pool fk scale h)) ->
  lists_world l (crash (rs_log (run_pool fk scale h)) (r_pos rc)) -> l <> [] ->
  check_synced fk l = COk (Some (mark_of CLEAN (r_id rc))).
Proof. exact pool_flush_reported. Qed.
Theorem C25_flagged_flush_reported : forall fk h rc l,
  history_avoids fk h = true -> In rc (fr_recs (run_flagged fk h)) ->
  lists_world l (crash (fr_log (run_flagged fk h)) (r_pos rc)) -> l <> [] ->
  check_synced fk l = COk (Some (mark_of CLEAN (r_id rc))).
Proof. exact flagged_flush_reported. Qed.

(* Several sessions.  A session ends in a crash after k durable operations; a new SyncedPool is
   Initialize()d over the survivors (restart_pool: opens every name, CheckDBsSynced; unflushed writes
   and queued drops are lost, flushes not completed by k never completed); when it succeeds the next
   session's history runs on it.  After any number of such sessions, every crash point of the
   combined durable log is consistent with the flushes completed in this timeline. *)
Theorem C25_pool_sessions_crash_consistent : forall fk scale ss s h k l,
  sessions_avoid fk ss = true -> run_sessions fk scale run_init ss = Some s ->
  history_avoids fk h = true ->
  let s' := fold_left (run_step fk scale) h s in
  lists_world l (crash (rs_log s') k) ->
  crash_consistent fk (rs_recs s') k (crash (rs_log s') k) l.
Proof. exact pool_sessions_crash_consistent. Qed.
(* The seed of the next session's specification is the crash world itself, and that world is db_eq,
   database by database, to r_snap of the record the recovery reported (crash_consistent at l := the
   world): "contents at that flush" in later sessions is not relative to anything but completed flushes. *)
Theorem C25_pool_restart_seed : forall fk scale ss s h k o s2,
  sessions_avoid fk ss = true -> run_sessions fk scale run_init ss = Some s ->
  history_avoids fk h = true ->
  let s1 := fold_left (run_step fk scale) h s in
  restart_pool fk s1 k o = Some s2 ->
  sp_dbs (rs_spec s2) = crash (rs_log s1) k /\
  crash_consistent fk (rs_recs s1) k (crash (rs_log s1) k) (crash (rs_log s1) k).
Proof. exact pool_restart_seed. Qed.

(* The flagged producer, two sessions; the first flush of the second session must not re-use the ID
   the recovery reported. *)
Theorem C25_flagged_two_sessions : forall fk h1 k1 o s1 h2 k l,
  history_avoids fk h1 = true -> flush_ids_change None h1 = true ->
  restart_flagged fk (run_flagged fk h1) k1 o = Some s1 ->
  history_avoids fk h2 = true ->
  flush_ids_change (verdict_id (check_synced fk (crash (fr_log (run_flagged fk h1)) k1))) h2 = true ->
  let s2 := fold_left (frun_step fk) h2 s1 in
  lists_world l (crash (fr_log s2) k) ->
  crash_consistent fk (fr_recs s2) k (crash (fr_log s2) k) l.
Proof. exact flagged_two_sessions. Qed.

(* Initialize(names, f) with an expected flush ID f (CheckDBsSynced started with flushID = f): an OK
   verdict reports f itself and has the same meaning; "no flush" is never reported then. *)
Theorem C25_pool_crash_consistent_expected : forall fk scale h k l f m,
  history_avoids fk h = true ->
  lists_world l (crash (rs_log (run_pool fk scale h)) k) -> l <> [] ->
  check_loop fk l (Some f) false = COk (Some m) ->
  m = f /\
  exists rc, In rc (rs_recs (run_pool fk scale h)) /\ (r_pos rc <= k)%nat /\ m = mark_of CLEAN (r_id rc) /\
    forall n c, wget n (crash (rs_log (run_pool fk scale h)) k) = Some c ->
      match wget n (r_snap rc) with Some s => db_eq c s | None => db_empty c end.
Proof. exact pool_crash_consistent_expected. Qed.
Theorem C25_flagged_crash_consistent_expected : forall fk h k l f m,
  history_avoids fk h = true -> flush_ids_change None h = true ->
  lists_world l (crash (fr_log (run_flagged fk h)) k) -> l <> [] ->
  check_loop fk l (Some f) false = COk (Some m) ->
  m = f /\
  exists rc, In rc (fr_recs (run_flagged fk h)) /\ (r_pos rc <= k)%nat /\ m = mark_of CLEAN (r_id rc) /\
    forall n c, wget n (crash (fr_log (run_flagged fk h)) k) = Some c ->
      match wget n (r_snap rc) with Some s => db_eq c s | None => db_empty c end.
Proof. exact flagged_crash_consistent_expected. Qed.
Theorem C25_expected_never_none : forall fk l f, check_loop fk l (Some f) false <> COk None.
Proof. exact check_expected_not_none. Qed.

(* Recovery reads the verdict off the marks alone: an OK verdict means every surviving database
   carries exactly that (non-dirty) mark, "no flush" means no database carries a mark. *)
Theorem C25_check_ok_some : forall fk l m,
  check_synced fk l = COk (Some m) ->
  l <> [] /\ forall n c, In (n, c) l -> dget fk c = Some m /\ is_dirty m = false.
Proof. exact check_ok_some. Qed.
Theorem C25_check_ok_none : forall fk l,
  check_synced fk l = COk None -> forall n c, In (n, c) l -> dget fk c = None.
Proof. exact check_ok_none. Qed.

(* ... and therefore an OK verdict does not depend on the order in which the Go map of surviving
   databases is visited (only the kind of error may). *)
Theorem C25_check_order_independent : forall fk l1 l2 x,
  Permutation l1 l2 -> check_synced fk l1 = COk x -> check_synced fk l2 = COk x.
Proof. exact check_synced_perm. Qed.

(* non-vacuity: a history with two flushes, a queued drop and crash points of every kind *)
Example C25_pool_example :
  history_avoids C25Ex.fk C25Ex.h = true /\
  map (fun k => check_synced C25Ex.fk (crash (rs_log (run_pool C25Ex.fk 1 C25Ex.h)) k)) (seq 0 13)
  = [COk None; COk None; CDirty; CDirty; CDirty; CDirty; CDirty; CDirty;
     COk (Some [0; 1]); COk (Some [0; 1]); CDirty; CDirty; COk (Some [0; 2])] /\
  map r_pos (rs_recs (run_pool C25Ex.fk 1 C25Ex.h)) = [8%nat; 12%nat].
Proof. vm_compute. repeat split. Qed.

(* two crashed sessions of the example history (after the queued drop of flush 2; in the middle of it: refused) *)
Example C25_sessions_example :
  (exists s, run_sessions C25Ex.fk 1 run_init [(C25Ex.h, 9%nat, [])] = Some s /\
             map fst (p_wr (rs_pool s)) = [1] /\ map r_pos (rs_recs s) = [8%nat]) /\
  run_sessions C25Ex.fk 1 run_init [(C25Ex.h, 10%nat, [])] = None.
Proof. split; [eexists; split; [vm_compute; reflexivity|split; reflexivity]|vm_compute; reflexivity]. Qed.

Example C25_flagged_example :
  history_avoids C25Ex.fk C25Ex.h = true /\ flush_ids_change None C25Ex.h = true /\
  map (fun k => check_synced C25Ex.fk (crash (fr_log (run_flagged C25Ex.fk C25Ex.h)) k)) (seq 0 13)
  = [COk None; COk None; CDirty; CDirty; CDirty; CDirty; CDirty; CDirty;
     COk (Some [0; 1]); CDirty; CDirty; CDirty; COk (Some [0; 2])].
Proof. vm_compute. repeat split. Qed.

Example C25_flagged_same_id :
  history_avoids SameId.fk SameId.h = true /\ flush_ids_change None SameId.h = false /\
  ~ crash_consistent SameId.fk SameId.recs 11 (crash SameId.log 11) (crash SameId.log 11) /\
  (exists rc, In rc SameId.recs /\ r_pos rc = 13%nat /\ r_snap rc = crash SameId.log 11).
Proof. exact flagged_same_id_counterexample. Qed.

Print Assumptions C25_pool_crash_consistent.
Print Assumptions C25_flagged_crash_consistent.
Print Assumptions C25_flagged_crash_consistent_any_ids.
Print Assumptions C25_pool_sessions_crash_consistent.
Print Assumptions C25_pool_restart_seed.
Print Assumptions C25_flagged_two_sessions.
Print Assumptions C25_pool_crash_consistent_expected.
Print Assumptions C25_flagged_crash_consistent_expected.
Print Assumptions C25_expected_never_none.
Print Assumptions C25_pool_flush_reported.
Print Assumptions C25_flagged_flush_reported.
Print Assumptions C25_check_ok_some.
Print Assumptions C25_check_ok_none.
Print Assumptions C25_check_order_independent.
