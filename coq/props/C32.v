(* C32 — Index encodings are invertible and order preserving.
   Only theorem statements, each closed by [exact <lemma>], and Print Assumptions. *)
From Coq Require Import NArith List.
From Coq Require Import Permutation Sorted.
From LV Require Import lib.Bytes model.Codec model.IdOrder model.EncHist proofs.CodecProofs proofs.IdOrderProofs proofs.EncHistProofs.
Import ListNotations.
Local Open Scope N_scope.

(* widths: k = 2, 4, 8 are the instances the code uses; the theorems hold for every k. *)
Theorem C32_be_roundtrip : forall k n, n < pow256 k -> unbe (be k n) = n.
Proof. exact unbe_be. Qed.
Theorem C32_be_decode_prefix : forall k n rest, n < pow256 k -> unbe_k k (be k n ++ rest) = n.
Proof. exact unbe_k_be. Qed.
Theorem C32_le_roundtrip : forall k n, n < pow256 k -> unle (le k n) = n.
Proof. exact unle_le. Qed.
Theorem C32_be_length : forall k n, length (be k n) = k /\ wf_bytes (be k n) = true.
Proof. intros k n; split; [exact (be_length k n) | exact (be_wf k n)]. Qed.
Theorem C32_be_order : forall k a b, a < pow256 k -> b < pow256 k ->
  lex_compare (be k a) (be k b) = N.compare a b.
Proof. exact be_order. Qed.
Theorem C32_id_epoch : forall e l t, e < pow256 4 -> id_epoch (event_id e l t) = e.
Proof. exact id_epoch_event_id. Qed.
Theorem C32_id_lamport : forall e l t, l < pow256 4 -> id_lamport (event_id e l t) = l.
Proof. exact id_lamport_event_id. Qed.
Theorem C32_id_order : forall e1 l1 t1 e2 l2 t2,
  e1 < pow256 4 -> e2 < pow256 4 -> l1 < pow256 4 -> l2 < pow256 4 ->
  lex_compare (event_id e1 l1 t1) (event_id e2 l2 t2) = triple_compare (e1, l1, t1) (e2, l2, t2).
Proof. exact event_id_order. Qed.

(* for every sequence of SetEpoch / SetLamport / SetID / Build calls on one builder, every id
   produced carries the epoch and Lamport time current at that call *)
Theorem C32_builder_ids : forall b ops,
  b_epoch b < pow256 4 -> b_lamport b < pow256 4 -> bops_ok ops ->
  map (fun id => (id_epoch id, id_lamport id)) (brun b ops) = bspec (b_epoch b) (b_lamport b) ops.
Proof. exact brun_carries. Qed.

(* --- byte-wise ID order (hash.OrderedEvents.Less = bytes.Compare < 0, ByEpochAndLamport = sort by it) ---
   Less is a strict total order on all byte strings; on ids built with any uint32 epoch and lamport it
   is the (epoch, lamport, tail) order; hence sorting ids by Less - with ANY correct sort - is sorting
   by epoch, then Lamport time, then tail *)
Theorem C32_less_strict_total_order : forall a b c,
  less_ids a a = false /\ (less_ids a b = true -> less_ids b c = true -> less_ids a c = true) /\
  (a <> b -> less_ids a b = true \/ less_ids b a = true).
Proof. intros a b c; split; [exact (less_irrefl a)|split; [exact (less_trans a b c)|exact (less_total a b)]]. Qed.
Theorem C32_less_is_epoch_lamport_order : forall a b, in_range a -> in_range b ->
  less_ids (mk_id a) (mk_id b) = tless a b.
Proof. exact less_mk_id. Qed.
Theorem C32_any_sort_by_less : forall l l', Permutation l' l -> StronglySorted ile l' -> l' = id_sort l.
Proof. exact id_sort_unique. Qed.
Theorem C32_sorted_ids_sort_by_epoch_lamport : forall ts, Forall in_range ts ->
  id_sort (map mk_id ts) = map mk_id (tsort ts) /\ triples_sorted (tsort ts) = true /\
  Permutation (id_sort (map mk_id ts)) (map mk_id ts).
Proof. intros ts H; split; [exact (id_sort_is_triple_sort ts H)|split; [exact (tsort_sorted ts)|exact (id_sort_perm _)]]. Qed.
(* the witness on which a comparison of the 8-byte prefix by the sign of a 64-bit difference fails *)
Example C32_ex_wide_epochs :
  less_ids (event_id 1 5 []) (event_id 2147483650 0 []) = true /\
  less_ids (event_id 2147483650 0 []) (event_id 1 5 []) = false /\
  map id_epoch (id_sort [event_id 2147483650 0 [7]; event_id 1 5 [9]; event_id 4294967295 1 []; event_id 0 4294967295 []])
    = [0; 1; 2147483650; 4294967295].
Proof. repeat split; vm_compute; reflexivity. Qed.

(* --- freshness of results: histories of encoder calls interleaved with caller-side mutations of the
   returned slices (append, overwrite in place, append(enc a, enc b...)): whatever the caller did with
   earlier results and whatever it still holds, the i-th call returns the encoding of its own argument *)
Theorem C32_encodings_history_independent : forall ops held i op bs,
  nth_error ops i = Some op -> enc_of op = Some bs -> nth_error (hrun held ops) i = Some (OBytes bs).
Proof. exact hrun_history_independent. Qed.
Example C32_ex_history :
  hrun [] [HEnc 4 5; HAppendEnc 0 4 9; HWrite 0 3 7; HDec 4 0; HEnc 4 6; HEnc 4 5; HDec 4 1]
  = [OBytes [0; 0; 0; 5]; OBytes [0; 0; 0; 9]; ONone; ONum 7; OBytes [0; 0; 0; 6]; OBytes [0; 0; 0; 5]; ONum 9].
Proof. exact hrun_caller_copy_mutated. Qed.

(* non-vacuity: the bounds are the ranges of uint16/32/64 *)
Example C32_ranges : pow256 2 = 65536 /\ pow256 4 = 4294967296 /\ pow256 8 = 18446744073709551616.
Proof. repeat split; vm_compute; reflexivity. Qed.

Print Assumptions C32_be_roundtrip.
Print Assumptions C32_be_decode_prefix.
Print Assumptions C32_le_roundtrip.
Print Assumptions C32_be_length.
Print Assumptions C32_be_order.
Print Assumptions C32_id_epoch.
Print Assumptions C32_id_lamport.
Print Assumptions C32_id_order.
Print Assumptions C32_builder_ids.
Print Assumptions C32_less_strict_total_order.
Print Assumptions C32_less_is_epoch_lamport_order.
Print Assumptions C32_any_sort_by_less.
Print Assumptions C32_sorted_ids_sort_by_epoch_lamport.
Print Assumptions C32_encodings_history_independent.
