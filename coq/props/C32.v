(* C32 — Index encodings are invertible and order preserving.
   Only theorem statements, each closed by [exact <lemma>], and Print Assumptions. *)
From Coq Require Import NArith List.
From LV Require Import lib.Bytes model.Codec proofs.CodecProofs.
Local Open Scope N_scope.

(* widths: k = 2, 4, 8 are the instances the code uses; the theorems hold for every k. *)
Theorem C32_be_roundtrip : forall k n, n < pow256 k -> unbe (be k n) = n.
Proof. exact unbe_be. Qed.
Theorem C32_be_decode_prefix : forall k n rest, n < pow256 k -> unbe_k k (be k n ++ rest) = n.
Proof. exact unbe_k_be. Qed.
Theorem C32_le_roundtrip : forall k n, n < pow256 k -> unle (le k n) = n.
Proof. exact unle_le. Qed.
Theorem C32_be_length : forall k n, length (be k n) = k /\ wf_bytes (be k n) = true.
Proof. intros k n; split; [exact (be_length k n) | exact (be_wf k n)]. Qed.
Theorem C32_be_order : forall k a b, a < pow256 k -> b < pow256 k ->
  lex_compare (be k a) (be k b) = N.compare a b.
Proof. exact be_order. Qed.
Theorem C32_id_epoch : forall e l t, e < pow256 4 -> id_epoch (event_id e l t) = e.
Proof. exact id_epoch_event_id. Qed.
Theorem C32_id_lamport : forall e l t, l < pow256 4 -> id_lamport (event_id e l t) = l.
Proof. exact id_lamport_event_id. Qed.
Theorem C32_id_order : forall e1 l1 t1 e2 l2 t2,
  e1 < pow256 4 -> e2 < pow256 4 -> l1 < pow256 4 -> l2 < pow256 4 ->
  lex_compare (event_id e1 l1 t1) (event_id e2 l2 t2) = triple_compare (e1, l1, t1) (e2, l2, t2).
Proof. exact event_id_order. Qed.

(* for every sequence of SetEpoch / SetLamport / SetID / Build calls on one builder, every id
   produced carries the epoch and Lamport time current at that call *)
Theorem C32_builder_ids : forall b ops,
  b_epoch b < pow256 4 -> b_lamport b < pow256 4 -> bops_ok ops ->
  map (fun id => (id_epoch id, id_lamport id)) (brun b ops) = bspec (b_epoch b) (b_lamport b) ops.
Proof. exact brun_carries. Qed.

(* non-vacuity: the bounds are the ranges of uint16/32/64 *)
Example C32_ranges : pow256 2 = 65536 /\ pow256 4 = 4294967296 /\ pow256 8 = 18446744073709551616.
Proof. repeat split; vm_compute; reflexivity. Qed.

Print Assumptions C32_be_roundtrip.
Print Assumptions C32_be_decode_prefix.
Print Assumptions C32_le_roundtrip.
Print Assumptions C32_be_length.
Print Assumptions C32_be_order.
Print Assumptions C32_id_epoch.
Print Assumptions C32_id_lamport.
Print Assumptions C32_id_order.
Print Assumptions C32_builder_ids.
