(* C11 — Quorum arithmetic is safe for every validator set.
   Only theorem statements, each closed by [exact <lemma>], Examples, and Print Assumptions.
   Model: model/Pos.v (uint32 arithmetic written out).  Specification: spec/PosSpec.v
   (unbounded arithmetic, last-write-wins pair set, rank instead of sort, counter = set of positions). *)
From Coq Require Import NArith List Bool.
From LV Require Import lib.WordArith lib.WSum model.Pos spec.PosSpec.
From LV Require Import proofs.PosQuorumProofs proofs.PosBuildProofs proofs.PosCounterProofs.
Import ListNotations.
Local Open Scope N_scope.

(* --- the uint32 expression, for every total up to the guard (2^31-1) --- *)
Theorem C11_quorum_no_wrap : forall W, W <= max_total -> quorum32 W = 2 * W / 3 + 1.
Proof. exact quorum_no_wrap. Qed.
Theorem C11_whole_set : forall W, 1 <= W -> W <= max_total -> quorum32 W <= W.
Proof. exact whole_set. Qed.
Theorem C11_two_thirds_fail : forall W a, W <= max_total -> 3 * a <= 2 * W -> a < quorum32 W.
Proof. exact two_thirds_fail. Qed.
Theorem C11_quorum_above_two_thirds : forall W, W <= max_total -> 3 * quorum32 W > 2 * W.
Proof. exact quorum32_above. Qed.
(* the guard is exactly what makes it safe: every larger uint32 total gives a wrong quorum *)
Theorem C11_guard_tight : forall W, max_total < W -> W < two32 -> quorum32 W <> 2 * W / 3 + 1.
Proof. exact above_guard_wrong. Qed.
Example C11_guard_tight_example : quorum32 (max_total + 1) = 1 /\ quorum_spec (max_total + 1) = 1431655766.
Proof. exact guard_tight. Qed.

(* --- calcCaches: both overflow tests together accept exactly the totals <= 2^31-1;
       weights_fit = every written weight is a uint32 --- *)
Theorem C11_build_guard : forall ops, weights_fit ops ->
  (build ops = None <-> max_total < spec_total ops).
Proof. exact build_guard. Qed.
Theorem C11_build_total : forall ops vs, weights_fit ops -> build ops = Some vs ->
  total_weight vs = spec_total ops /\ total_weight vs = sumN (sorted_weights vs) /\
  total_weight vs <= max_total /\ v_len vs = length (sorted_weights vs).
Proof. exact build_total. Qed.

(* --- subsets of a built set (P, Q : sets of canonical positions) --- *)
Theorem C11_whole_set_reaches : forall ops vs, weights_fit ops -> build ops = Some vs ->
  1 <= total_weight vs ->
  quorum vs <= wsum (wpos (sorted_weights vs)) (positions (sorted_weights vs)) (fun _ => true).
Proof. exact whole_set_built. Qed.
Theorem C11_two_thirds_do_not : forall ops vs P, weights_fit ops -> build ops = Some vs ->
  3 * wsum (wpos (sorted_weights vs)) (positions (sorted_weights vs)) P <= 2 * total_weight vs ->
  wsum (wpos (sorted_weights vs)) (positions (sorted_weights vs)) P < quorum vs.
Proof. exact two_thirds_built. Qed.
Theorem C11_intersection : forall ops vs P Q, weights_fit ops -> build ops = Some vs ->
  quorum vs <= wsum (wpos (sorted_weights vs)) (positions (sorted_weights vs)) P ->
  quorum vs <= wsum (wpos (sorted_weights vs)) (positions (sorted_weights vs)) Q ->
  3 * wsum (wpos (sorted_weights vs)) (positions (sorted_weights vs)) (fun i => P i && Q i)
    > total_weight vs.
Proof. exact intersection_built. Qed.

(* --- the weight counter, over every sequence of CountByIdx / Count / HasQuorum / Sum calls:
       its answers are those of the set-of-positions specification (Count* returns true iff the
       position was not counted before, Sum is the weight of the SET of counted positions,
       HasQuorum iff that weight >= floor(2W/3)+1, out-of-range index panics) --- *)
Theorem C11_counter_refines_spec : forall ops vs cops, weights_fit ops -> build ops = Some vs ->
  fst (run_counter (new_counter vs) cops) =
  spec_counter (map snd (spec_array (eff_pairs ops))) (spec_total ops) (spec_idx ops) [] cops.
Proof. exact counter_refines_rank. Qed.
(* the right-hand side above uses no sort: spec_array places every pair by its rank.  It is the
   same array as the model's sorted one (so the theorem can equally be read with canon ops) *)
Theorem C11_spec_array_is_canon : forall ops, spec_array (eff_pairs ops) = canon ops.
Proof. exact spec_array_canon. Qed.
(* each weight at most once: the specification's counted sum is a weighted sum over a set *)
Theorem C11_counted_once : forall ws counted,
  counted_sum ws counted = wsum (wpos ws) (positions ws) (in_set counted) /\
  counted_sum ws counted <= sumN ws.
Proof. intros ws c; split; [exact (counted_sum_wsum ws c) | exact (counted_sum_le ws c)]. Qed.
(* state invariant form: every counter state reachable by a call sequence on a built set
   corresponds to a set c of counted positions (cinv), and in every such state
   HasQuorum <-> counted weight >= quorum <-> counted weight > 2/3 of the total *)
Theorem C11_reachable_states_invariant : forall ops vs cops k, weights_fit ops -> build ops = Some vs ->
  snd (run_counter (new_counter vs) cops) = Some k -> exists c, cinv vs k c.
Proof. exact counter_reachable_inv. Qed.
Theorem C11_has_quorum_iff : forall vs k c, cinv vs k c ->
  (has_quorum k = true <->
     quorum_spec (total_weight vs) <= wsum (wpos (sorted_weights vs)) (positions (sorted_weights vs)) (in_set c)) /\
  (has_quorum k = true <->
     3 * wsum (wpos (sorted_weights vs)) (positions (sorted_weights vs)) (in_set c) > 2 * total_weight vs).
Proof. exact has_quorum_iff. Qed.

(* --- non-vacuity: a concrete set (with an overwrite and a delete), two quorums, a call sequence --- *)
Definition ex_ops : list (N * N) := [(5, 7); (9, 3); (2, 4); (9, 0); (7, 4); (5, 2)].
Example C11_ex_build : exists vs, build ex_ops = Some vs /\ weights_fit ex_ops /\
  sorted_ids vs = [2; 7; 5] /\ sorted_weights vs = [4; 4; 2] /\ total_weight vs = 10 /\ quorum vs = 7.
Proof.
  eexists. split; [vm_compute; reflexivity|]. split; [|vm_compute; repeat split].
  repeat constructor.
Qed.
Example C11_ex_counter : forall vs, build ex_ops = Some vs ->
  fst (run_counter (new_counter vs) [OpIdx 0; OpHas; OpId 7; OpIdx 1; OpSum; OpHas; OpId 5; OpHas; OpIdx 3]) =
  [RBool true; RBool false; RBool true; RBool false; RNum 8; RBool true; RBool true; RBool true; RPanic].
Proof. intros vs H. vm_compute in H. inversion H; subst. vm_compute. reflexivity. Qed.
Example C11_ex_panic : build [(1, 2147483647); (2, 1)] = None /\ build [(1, 4294967295); (2, 4294967295)] = None
  /\ (exists vs, build [(1, 2147483646); (2, 1)] = Some vs).
Proof. split; [vm_compute; reflexivity|]. split; [vm_compute; reflexivity|]. eexists; vm_compute; reflexivity. Qed.

Print Assumptions C11_quorum_no_wrap.
Print Assumptions C11_whole_set.
Print Assumptions C11_two_thirds_fail.
Print Assumptions C11_quorum_above_two_thirds.
Print Assumptions C11_guard_tight.
Print Assumptions C11_build_guard.
Print Assumptions C11_build_total.
Print Assumptions C11_whole_set_reaches.
Print Assumptions C11_two_thirds_do_not.
Print Assumptions C11_intersection.
Print Assumptions C11_counter_refines_spec.
Print Assumptions C11_spec_array_is_canon.
Print Assumptions C11_reachable_states_invariant.
Print Assumptions C11_counted_once.
Print Assumptions C11_has_quorum_iff.
