(* C11 — Quorum arithmetic is safe for every validator set. (theorems added below as proved) *)
From Coq Require Import NArith List.
From LV Require Import lib.WordArith model.Pos spec.PosSpec.
Local Open Scope N_scope.
