(* C05 — Forkless-cause index equals the graph definition.
   Only theorem statements, each closed by [exact <lemma>], non-vacuity examples, Print Assumptions.
   model: model/VecIndex.v (Engine.Add = add, Index.forklessCause = fc, Index.ForklessCause with its
   LRU = fc_query); specification: spec/FcSpec.v (fc_spec: ancestry closure + seq-forks). *)
From Coq Require Import NArith ZArith List Permutation Bool.
From LV Require model.Wlru proofs.WlruProofs.
From LV Require Import model.VecIndex model.VecPersist proofs.VecPersistProofs spec.FcSpec spec.StreamSpec proofs.FcSpecFast proofs.FcSpecFacts proofs.VecInv proofs.VecStep proofs.VecMain.
Import ListNotations.
Local Open Scope N_scope.
Local Open Scope bool_scope.

(* the specification side: [anc] is the ancestor-or-self closure; a validator is counted iff it
   shows no fork below A and has an event that is a descendant-or-self of B and an ancestor-or-self
   of A; the table-driven evaluation used by the check driver is the same function *)
Theorem C05_anc_is_ancestry : forall E a x, In x (anc E a) <-> reach E a x.
Proof. exact anc_iff. Qed.
Theorem C05_spec_counts_validator : forall E a b v,
  (negb (sees_fork E (anc E a) v) &&
   existsb (fun x => match alookup x E with Some ex => Nat.eqb (ecr ex) v && existsb (N.eqb b) (anc E x) | None => false end) (anc E a)) = true
  <-> (~ SeesFork E a v /\ Between E a b v).
Proof. exact fc_spec_counted. Qed.
Theorem C05_spec_row_is_spec : forall ws q n E a bs,
  fc_spec_row ws q n E (anc_table E) a bs = map (fc_spec ws q n E a) bs.
Proof. exact fc_spec_row_eq. Qed.

(* one Engine.Add: for a well-formed new event whose parents are indexed, Add succeeds (the DFS fuel
   suffices, no error path) and the invariant I1-I3 is preserved *)
Theorem C05_add_preserves_invariant : forall n s e, vinv n s -> wf_new n s e ->
  exists s', add s e = Some s' /\ vinv n s' /\ evs s' = (eid e, e) :: evs s.
Proof. exact add_preserves. Qed.

(* the property: for every validator count, weight vector, quorum q > 0, every well-formed
   parents-first stream (forks included) and every pair of indexed events *)
Theorem C05_forkless_cause_equals_spec : forall ws q n o a b,
  wf_stream n o -> 0 < q -> indexed o a -> indexed o b ->
  fc ws q (index_all n o) a b = fc_spec ws q n (dag_of o) a b.
Proof. exact fc_index_all. Qed.

(* independence of the indexing order *)
Theorem C05_order_independent : forall ws q n o1 o2 a b,
  wf_stream n o1 -> wf_stream n o2 -> Permutation o1 o2 -> 0 < q -> indexed o1 a -> indexed o1 b ->
  fc ws q (index_all n o1) a b = fc ws q (index_all n o2) a b.
Proof. exact fc_order_independent. Qed.

(* independence of earlier queries and of the cache: any interleaving of Adds and ForklessCause
   calls (through the LRU of any capacity, 0 included); every answer equals the specification on the
   final DAG *)
Theorem C05_cached_queries_equal_spec : forall ws q n cap ops, 0 < q -> wf_ops n [] ops ->
  let '(s, _, out) := fold_left (istep ws q) ops (init n, fcache_new cap, []) in
  forall a b r, In (a, b, r) out -> r = fc_spec ws q n (evs s) a b.
Proof. exact queries_equal_spec. Qed.
Theorem C05_spec_stable_under_growth : forall ws q n E1 E2 a b, submap E1 E2 -> closed E1 ->
  (exists ea, alookup a E1 = Some ea) -> (exists eb, alookup b E1 = Some eb) ->
  fc_spec ws q n E2 a b = fc_spec ws q n E1 a b.
Proof. exact fc_spec_submap. Qed.

(* Flush / DropNotFlushed: in every history of well-formed Adds, Flushes and Drops both the flushed
   and the current view satisfy the invariant (so every query on either equals the specification) *)
Theorem C05_flush_drop_histories : forall n ops st, vinv n (vs_flushed st) -> vinv n (vs_cur st) ->
  wf_vops n (evs (vs_flushed st)) (evs (vs_cur st)) ops ->
  let st' := fold_left vs_step ops st in vinv n (vs_flushed st') /\ vinv n (vs_cur st').
Proof. exact vstore_inv. Qed.
Theorem C05_query_from_invariant : forall n s ws q a b ea eb, vinv n s -> 0 < q -> evt s a ea -> evt s b eb ->
  fc ws q s a b = fc_spec ws q n (evs s) a b.
Proof. intros n s ws q a b ea eb I. exact (fc_eq_spec n s I ws q a b ea eb). Qed.

(* Round 2.  One history type: Adds (without Flush), ForklessCause through the LRU (any capacity, never
   purged - the real onDropNotFlushed does not purge cache.ForklessCause), Flush and DropNotFlushed.
   Every answer equals the specification on the view that was current when it was asked.  Why the stale
   LRU entries are harmless: an answer depends only on the sub-DAG below A (C05_spec_stable_under_growth)
   and ids determine events (hypothesis: every added event is drawn from one id -> event assignment U). *)
Theorem C05_history_answers_equal_spec : forall ws q n cap U ops, 0 < q -> wf_hops n U [] [] ops ->
  let '(_, _, out) := fold_left (hstep ws q) ops (vs_init n, fcache_new cap, []) in
  forall a b r E, In (a, b, r, E) out -> r = fc_spec ws q n E a b.
Proof. exact history_answers_equal_spec. Qed.
(* crit-freedom: under the invariant forklessCause never reaches a "not found" crit path *)
Theorem C05_query_never_crits : forall n s ws q a b ea eb, vinv n s -> 0 < q -> evt s a ea -> evt s b eb ->
  fc_res ws q s a b = Some (fc_spec ws q n (evs s) a b).
Proof. exact fc_res_spec. Qed.

(* Round 3: persistence and restart.  (A) what Flush writes is read back unchanged (uint32 fields,
   4-byte branch ids) whenever the stored numbers fit into 32 bits, and Add keeps them so. *)
Theorem C05_reopen_reads_back_what_was_flushed : forall n s, vbounded s -> nvals s = n ->
  reopen n (evs s) (persisted s) = s.
Proof. exact reopen_persisted. Qed.
Theorem C05_add_keeps_numbers_in_uint32 : forall n s e s', vinv n s -> wf_new n s e -> VecIndex.add s e = Some s' ->
  vbounded s -> eseq e < U32 -> N.of_nat (S (nbr s)) < U32 -> vbounded s'.
Proof. exact add_bounded. Qed.
(* (C) restart_index_equiv: over any history of Add / Flush / DropNotFlushed / Restart (Restart = a NEW
   vecfc.Index, Reset over the flushed database; BranchesInfo is reloaded from the record written by Flush),
   the engine's view is, step by step, the state of the index that kept running and dropped its unflushed
   writes.  Hence identical answers (forkless cause, merged clocks, branch bookkeeping), equal to the
   graph specification on the current view. *)
Theorem C05_restart_index_equiv : forall n ops p st, prel n p st -> pops_ok n st ops ->
  prel n (fold_left p_step ops p) (fold_left vs_step (map vop_of ops) st).
Proof. exact restart_index_equiv. Qed.
Theorem C05_restart_same_answers : forall n ops ws q a b, pops_ok n (vs_init n) ops ->
  let p := fold_left p_step ops (p_init n) in
  let st := fold_left vs_step (map vop_of ops) (vs_init n) in
  p_view p = vs_cur st /\
  fc ws q (p_view p) a b = fc ws q (vs_cur st) a b /\ merged (p_view p) a = merged (vs_cur st) a /\
  (br_last (p_view p), br_cr (p_view p), by_cr (p_view p)) = (br_last (vs_cur st), br_cr (vs_cur st), by_cr (vs_cur st)).
Proof. exact restart_answers. Qed.
Theorem C05_restart_answers_equal_spec : forall n ops ws q a b ea eb, pops_ok n (vs_init n) ops -> 0 < q ->
  let s := p_view (fold_left p_step ops (p_init n)) in
  evt s a ea -> evt s b eb -> fc ws q s a b = fc_spec ws q n (evs s) a b.
Proof. exact restart_fc_spec. Qed.
(* (B) the HighestBefore / LowestAfter caches (simplewlru, any capacity incl. 0, weight = byte length) are
   transparent: every history of Get / Set / Flush / DropNotFlushed (purge) / reopen (fresh cache) over a
   table with its cache returns what the plain two-level map returns *)
Theorem C05_vector_caches_transparent : forall ops t, coh t -> Forall top_small ops ->
  t_run t ops = m_run (t_fl t, t_cur t) ops.
Proof. exact cache_transparent. Qed.

(* Round 4: the COMPOSED engine (VecPersist.ceng): byte tables + BranchesInfo record + HB/LA write-through
   caches + ForklessCause LRU + dirty flag.  Adds write key by key through the caches (t_set), queries read
   through the LRU and, on a miss, through t_get; DropNotFlushed purges the vector caches only if something was
   unflushed and KEEPS the ForklessCause LRU; Restart is a new object: three new caches (any capacities).
   One history theorem: every answer equals the specification on the view current when it was asked. *)
Theorem C05_engine_history_answers : forall ws q n U cap mw ms c0 ops,
  0 < q -> WlruProofs.small mw -> Wlru.new mw ms = Some c0 ->
  cops_ok ws q n U (ce_new n cap c0 c0, []) ops ->
  forall a b r E, In (a, b, r, E) (snd (fold_left (cstep ws q) ops (ce_new n cap c0 c0, []))) -> r = fc_spec ws q n E a b.
Proof. exact engine_history_answers. Qed.
Theorem C05_restart_is_not_drop : exists ce cap c0, ce_fc (ce_restart cap c0 c0 ce) <> ce_fc (ce_drop ce).
Proof. exact restart_differs_from_drop. Qed.

(* Round 5: the SAME Index object reused after Reset (Reset purges the ForklessCause, HighestBefore and
   LowestAfter caches itself - Engine.Reset's DropNotFlushed does not fire the callback; capacities stay).
   Histories of engine operations and Resets onto the same DB (other weights; an unflushed tail is lost and its
   events may be REPLACED by other events with the same ids) or onto another DB (other validators): every
   answer equals the specification under the weights / validator count and on the view current when asked. *)
Theorem C05_reuse_history_answers : forall ws n cap mw ms c0 U ops, WlruProofs.small mw -> Wlru.new mw ms = Some c0 ->
  rops_ok U (r_init ws n cap c0) ops ->
  forall ws1 n1 a b r E, In (ws1, n1, (a, b, r, E)) (r_answers (fold_left rstep (map fst ops) (r_init ws n cap c0))) ->
    r = fc_spec ws1 (quorum_of ws1) n1 E a b.
Proof. exact reuse_history_answers. Qed.

(* Round 6: a Reset onto a new, empty database (abft at every epoch seal) may come with ANY validator count:
   the reused object is then exactly a new index for n' validators (C05_reuse_history_answers already ranges
   over RResetFresh ws' n' with n' <> n) *)
Theorem C05_reset_fresh_is_init : forall n' ce,
  ce_view (ce_reset_fresh n' ce) = init n' /\ fc_items (ce_fc (ce_reset_fresh n' ce)) = [] /\
  Wlru.c_entries (ce_hbc (ce_reset_fresh n' ce)) = [] /\ Wlru.c_entries (ce_lac (ce_reset_fresh n' ce)) = [] /\
  ce_dirty (ce_reset_fresh n' ce) = false.
Proof. exact reset_fresh_is_init. Qed.

(* the executable hypothesis check run by the driver on every generated stream *)
Theorem C05_wf_check_is_hypothesis : forall n E e, wf_evb n E e = true <-> wf_ev n E e.
Proof. exact wf_evb_iff. Qed.

(* non-vacuity: 3 validators (weights 1,1,1, quorum 3); validator 0 forks at seq 2 (events 4 and 5);
   event 6 sees the fork.  The stream is well-formed, a query is true, a query is false because of the
   fork, and the cached history returns exactly these answers. *)
Definition ex_o : list event :=
  [ {| eid := 1; ecr := 0; eseq := 1; epar := [] |};
    {| eid := 2; ecr := 1; eseq := 1; epar := [1] |};
    {| eid := 3; ecr := 2; eseq := 1; epar := [2] |};
    {| eid := 4; ecr := 0; eseq := 2; epar := [1; 3] |};
    {| eid := 5; ecr := 0; eseq := 2; epar := [1] |};
    {| eid := 6; ecr := 1; eseq := 2; epar := [2; 4; 5] |} ].
Example C05_ex_wf : wf_stream 3 ex_o.
Proof.
  unfold wf_stream, ex_o. cbn [wf_from].
  repeat (split; [unfold wf_ev; cbn [eid ecr eseq epar self_parent N.leb N.compare Pos.compare Pos.compare_cont];
    repeat split; try reflexivity; try (vm_compute; intros H; discriminate H); try (unfold lt; repeat constructor);
    try (intros p Hp; cbn [In] in Hp;
         repeat (destruct Hp as [<-|Hp]; [eexists; vm_compute; reflexivity|]); destruct Hp);
    try (eexists; split; [vm_compute; reflexivity|split; reflexivity])|]).
  exact I.
Qed.
Example C05_ex_answers :
  fc [1;1;1] 3 (index_all 3 ex_o) 4 1 = true /\ fc_spec [1;1;1] 3 3 (dag_of ex_o) 4 1 = true /\
  fc [1;1;1] 3 (index_all 3 ex_o) 6 1 = false /\ sees_fork (dag_of ex_o) (anc (dag_of ex_o) 6) 0 = true /\
  nbr (index_all 3 ex_o) = 4%nat.
Proof. vm_compute. repeat split; reflexivity. Qed.
Example C05_ex_indexed : indexed ex_o 4 /\ indexed ex_o 1 /\ indexed ex_o 6 /\ quorum_of [1;1;1] = 3.
Proof. repeat split; try (eexists; vm_compute; reflexivity). Qed.

(* a history in which a cached answer survives a Drop and is served again after the re-add *)
Definition ex_U : list (N * event) := map (fun e => (eid e, e)) ex_o.
Definition ex_hist : list hop :=
  map HAdd (firstn 3 ex_o) ++ [HFlush; HAdd (nth 3 ex_o (nth 0 ex_o (Build_event 0 0 0 []))); HQuery 4 1; HDrop;
                               HAdd (nth 3 ex_o (nth 0 ex_o (Build_event 0 0 0 []))); HQuery 4 1].
Example C05_ex_history :
  let '(_, c, out) := fold_left (hstep [1;1;1] 3) ex_hist (vs_init 3, fcache_new 5, []) in
  map (fun x => snd (fst x)) out = [true; true] /\ length (fc_items c) = 1%nat.
Proof. vm_compute. split; reflexivity. Qed.

(* restart right after the fork (events 4 and 5) was first indexed, with unflushed event 6 lost *)
Definition ex_pops : list pop :=
  map PAdd (firstn 5 ex_o) ++ [PFlush; PAdd (nth 5 ex_o (Build_event 0 0 0 [])); PRestart; PAdd (nth 5 ex_o (Build_event 0 0 0 []))].
Example C05_ex_restart :
  let p := fold_left p_step ex_pops (p_init 3) in
  fc [1;1;1] 3 (p_view p) 6 1 = false /\ fc [1;1;1] 3 (p_view p) 4 1 = true /\ nbr (p_view p) = 4%nat /\
  length (pd_hb (p_db p)) = 5%nat /\ length (pd_hb (p_cur p)) = 6%nat.
Proof. vm_compute. repeat split; reflexivity. Qed.

(* non-vacuity of C05_vector_caches_transparent: a coherent table + cache of weight/size 16 (evictions happen:
   three 8-byte values do not fit), a drop, a reopen with capacity 0 (nothing is ever resident) *)
Definition ex_c16 : bcache := Wlru.mkCache [] 0 16 16 false.
Definition ex_tops : list top :=
  [TSet 1 [1;0;0;0;1;0;0;0]; TSet 2 [2;0;0;0;2;0;0;0]; TGet 1; TSet 3 [3;0;0;0;3;0;0;0]; TGet 2; TGet 1; TFlush;
   TSet 4 [4;0;0;0]; TGet 4; TDrop; TGet 4; TGet 3; TReopen 0 0%Z; TGet 1; TGet 1; TSet 1 [9;0;0;0]; TGet 1].
Example C05_ex_coh : coh {| t_fl := []; t_cur := []; t_c := ex_c16 |} /\ Forall top_small ex_tops.
Proof.
  split; [apply (coh_new 16 16%Z ex_c16); [vm_compute; reflexivity|reflexivity]|].
  repeat constructor; vm_compute; reflexivity.
Qed.
Example C05_ex_cache_run :
  t_run {| t_fl := []; t_cur := []; t_c := ex_c16 |} ex_tops = m_run ([], []) ex_tops /\
  length (Wlru.c_entries (t_c (snd (t_step (snd (t_step (snd (t_step {| t_fl := []; t_cur := []; t_c := ex_c16 |}
     (TSet 1 [1;0;0;0;1;0;0;0]))) (TSet 2 [2;0;0;0;2;0;0;0]))) (TSet 3 [3;0;0;0;3;0;0;0]))))) = 2%nat.
Proof. vm_compute. split; reflexivity. Qed.
(* the composed engine on the fork stream: a query cached before a Drop, answered from the LRU after the re-add,
   then a restart (empty LRU, caches of capacity 0) and the same query computed again through t_get *)
Definition ex_cops : list cop :=
  map CAdd (firstn 3 ex_o) ++ [CFlush; CAdd (nth 3 ex_o (Build_event 0 0 0 [])); CQuery 4 1; CDrop;
    CAdd (nth 3 ex_o (Build_event 0 0 0 [])); CQuery 4 1; CFlush; CRestart 0 0 0%Z; CQuery 4 1; CQuery 4 1].
Example C05_ex_engine :
  let '(ce, out) := fold_left (cstep [1;1;1] 3) ex_cops (ce_new 3 5 ex_c16 ex_c16, []) in
  map (fun x => snd (fst x)) out = [true; true; true; true] /\ fc_items (ce_fc ce) = [] /\ nbr (ce_view ce) = 3%nat.
Proof. vm_compute. repeat split; reflexivity. Qed.

(* reuse: query (2,1) is false under weights 1,1,1 (quorum 3: validators 0 and 1 only) and cached; after a Reset
   onto the same DB with weights 5,1,1 (quorum 5) the same pair is true: the stale LRU entry is gone *)
Definition ex_rops : list rop :=
  map (fun e => RO (CAdd e)) (firstn 4 ex_o) ++ [RO CFlush; RO (CQuery 2 1); RO (CQuery 2 1); RResetSame [5;1;1]; RO (CQuery 2 1)].
Example C05_ex_reuse :
  map (fun x => (fst (fst x), snd (fst (snd x)))) (r_answers (fold_left rstep ex_rops (r_init [1;1;1] 3 5 ex_c16))) =
  [([5;1;1], true); ([1;1;1], false); ([1;1;1], false)].
Proof. vm_compute. reflexivity. Qed.

Print Assumptions C05_anc_is_ancestry.
Print Assumptions C05_spec_counts_validator.
Print Assumptions C05_spec_row_is_spec.
Print Assumptions C05_add_preserves_invariant.
Print Assumptions C05_forkless_cause_equals_spec.
Print Assumptions C05_order_independent.
Print Assumptions C05_cached_queries_equal_spec.
Print Assumptions C05_spec_stable_under_growth.
Print Assumptions C05_wf_check_is_hypothesis.
Print Assumptions C05_flush_drop_histories.
Print Assumptions C05_query_from_invariant.
Print Assumptions C05_history_answers_equal_spec.
Print Assumptions C05_query_never_crits.
Print Assumptions C05_reopen_reads_back_what_was_flushed.
Print Assumptions C05_add_keeps_numbers_in_uint32.
Print Assumptions C05_restart_index_equiv.
Print Assumptions C05_restart_same_answers.
Print Assumptions C05_restart_answers_equal_spec.
Print Assumptions C05_vector_caches_transparent.
Print Assumptions C05_engine_history_answers.
Print Assumptions C05_restart_is_not_drop.
Print Assumptions C05_reuse_history_answers.
Print Assumptions C05_reset_fresh_is_init.
