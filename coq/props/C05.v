(* C05 — Forkless-cause index equals the graph definition.  (theorems are added below as they are proved) *)
From Coq Require Import NArith List.
From LV Require Import model.VecIndex spec.FcSpec proofs.FcSpecFast.
Local Open Scope N_scope.

(* the table-driven evaluation used by the check driver is the specification itself *)
Theorem C05_spec_row_is_spec : forall ws q n E a bs,
  fc_spec_row ws q n E (anc_table E) a bs = map (fc_spec ws q n E a) bs.
Proof. exact fc_spec_row_eq. Qed.
Print Assumptions C05_spec_row_is_spec.
