(* C13 — Event checkers accept exactly well-formed events (and pin the error kind).
   Only theorem statements, each closed by [exact <lemma>], non-vacuity examples, Print Assumptions.
   Model: model/EventCheck.v (port of eventcheck/{all,basiccheck,epochcheck,parentscheck}).
   Specification: spec/EventCheckSpec.v ([wf_event] = the property's sentence clause by clause,
   [blames k] = clause k is the first violated one). *)
From Coq Require Import NArith List.
From LV Require Import model.EventCheck spec.EventCheckSpec proofs.EventCheckProofs proofs.EventCheckGeneral.
Import ListNotations.
Local Open Scope N_scope.

(* The combined checkers accept exactly the well-formed events.
   [typed]: fields are uint32.  [parents_of]: the caller passes the events named by e.Parents(). *)
Theorem C13_validate_ok_iff_wf : forall cur vals e ps,
  typed e ps -> parents_of e ps ->
  (validate cur vals e ps = Ok <-> wf_event cur vals e ps).
Proof. exact validate_ok_iff_wf. Qed.

(* The same without the caller's contract: on EVERY call with uint32 fields the checkers accept
   exactly when the lengths agree, the event is well-formed w.r.t. the events passed, and the first
   event passed is the one named first in the id list (the code's "sanity check"). *)
Theorem C13_validate_ok_iff_general : forall cur vals e ps,
  typed e ps ->
  (validate cur vals e ps = Ok <->
   length (e_parents e) = length ps /\ wf_event cur vals e ps /\ c_firstid e ps).
Proof. exact validate_ok_iff_general. Qed.

(* ... and every answer (nil, each error value, the length panic) is pinned on every call: the
   executable verdict [answer_ok_gen] accepts exactly the model's answer *)
Theorem C13_answer_ok_gen_unique : forall cur vals e ps r,
  typed e ps -> (answer_ok_gen cur vals e ps r = true <-> r = validate cur vals e ps).
Proof. exact answer_ok_gen_unique. Qed.

(* a Reader that returns nil validators (outside its contract): unchanged up to the creator lookup,
   which is then a nil dereference ([None]) *)
Theorem C13_validate_opt_some : forall cur vals e ps,
  validate_opt cur (Some vals) e ps = Some (validate cur vals e ps).
Proof. exact validate_opt_some. Qed.
Theorem C13_validate_opt_none : forall cur e ps,
  validate_opt cur None e ps =
    match basic_validate e with
    | Err k => Some (Err k)
    | Ok => if e_epoch e =? cur then None else Some (Err NotRelevant)
    end.
Proof. exact validate_opt_none. Qed.

(* one Checkers object, a Reader whose answer changes between calls: every answer of a history is
   [validate] under the Reader state current at that call (the Checker keeps nothing) *)
Theorem C13_history_pointwise : forall h st i,
  nth_error (run_history st h) i =
  option_map (fun x => validate (r_epoch (fst (fst x))) (r_vals (fst (fst x))) (snd (fst x)) (snd x))
             (nth_error h i).
Proof. exact history_pointwise. Qed.
Theorem C13_history_late_event : forall st rs rs' e ps,
  e_epoch e = r_epoch rs -> r_epoch rs' <> r_epoch rs -> basic_validate e = Ok ->
  nth_error (run_history st [(rs, e, ps); (rs', e, ps)]) 1 = Some (Err NotRelevant).
Proof. exact history_late_event. Qed.

(* first-error: error k is returned exactly when clause k is violated and all earlier clauses hold *)
Theorem C13_validate_err_iff_blames : forall cur vals e ps k,
  typed e ps -> parents_of e ps ->
  (validate cur vals e ps = Err k <-> blames cur vals e ps k).
Proof. exact validate_err_iff_blames. Qed.

(* the executable verdict used by the correspondence driver accepts exactly the model's answer *)
Theorem C13_answer_ok_unique : forall cur vals e ps r,
  typed e ps -> parents_of e ps ->
  (answer_ok cur vals e ps r = true <-> r = validate cur vals e ps).
Proof. exact answer_ok_unique. Qed.

(* the three checkers on their own *)
Theorem C13_basic_ok_iff : forall e,
  basic_validate e = Ok <-> c_range e /\ c_present e /\ c_distinct e.
Proof. exact basic_ok_iff. Qed.
Theorem C13_epoch_ok_iff : forall cur vals e,
  epoch_validate cur vals e = Ok <-> c_epoch cur e /\ c_creator vals e.
Proof. exact epoch_ok_iff. Qed.
Theorem C13_parents_ok_iff : forall e ps,
  typed e ps -> parents_of e ps -> basic_validate e = Ok ->
  (parents_validate e ps = Ok <-> c_lamport e ps /\ c_selfparent e ps /\ c_seq e ps).
Proof. exact parents_ok_iff. Qed.

(* the panic of parentscheck is reached exactly through a broken caller contract *)
Theorem C13_no_panic : forall cur vals e ps,
  length (e_parents e) = length ps -> validate cur vals e ps <> Err PanicLen.
Proof. exact no_panic. Qed.
Theorem C13_length_mismatch_panics : forall e ps,
  length (e_parents e) <> length ps -> parents_validate e ps = Err PanicLen.
Proof. exact length_mismatch_panics. Qed.

(* ---- non-vacuity: a well-formed event with a self-parent and one other parent; and one witness
   per error value, all satisfying the hypotheses [typed] and [parents_of]. *)
Definition ex_sp := {| p_id := 100; p_creator := 7; p_seq := 4; p_lamport := 9 |}.
Definition ex_op := {| p_id := 200; p_creator := 8; p_seq := 2; p_lamport := 12 |}.
Definition ex_e := {| e_epoch := 3; e_seq := 5; e_frame := 2; e_creator := 7; e_lamport := 13;
                      e_parents := [100; 200] |}.
Example C13_ex_hyps : typed ex_e [ex_sp; ex_op] /\ parents_of ex_e [ex_sp; ex_op].
Proof. unfold typed, parents_of, u32. cbn. repeat split; repeat constructor. Qed.
Example C13_ex_accepts : validate 3 [7; 8; 9] ex_e [ex_sp; ex_op] = Ok.
Proof. vm_compute. reflexivity. Qed.
Example C13_ex_first : validate 3 [7] {| e_epoch := 3; e_seq := 1; e_frame := 1; e_creator := 7;
                                         e_lamport := 1; e_parents := [] |} [] = Ok.
Proof. vm_compute. reflexivity. Qed.
(* a call that breaks the contract in a way the checkers notice: first id names another event *)
Example C13_ex_firstid : validate 3 [7] {| e_epoch := 3; e_seq := 5; e_frame := 2; e_creator := 7;
    e_lamport := 13; e_parents := [101; 200] |} [ex_sp; ex_op] = Err WrongSelfParent
  /\ parents_validate ex_e [ex_sp] = Err PanicLen.
Proof. vm_compute. split; reflexivity. Qed.
Definition with_seq s e := {| e_epoch := e_epoch e; e_seq := s; e_frame := e_frame e;
  e_creator := e_creator e; e_lamport := e_lamport e; e_parents := e_parents e |}.
Definition with_lamport l e := {| e_epoch := e_epoch e; e_seq := e_seq e; e_frame := e_frame e;
  e_creator := e_creator e; e_lamport := l; e_parents := e_parents e |}.
Example C13_ex_errors :
  validate 3 [7] (with_seq 2147483646 ex_e) [ex_sp; ex_op] = Err HugeValue /\
  validate 3 [7] (with_lamport 0 ex_e) [ex_sp; ex_op] = Err NotInited /\
  validate 3 [7] {| e_epoch := 3; e_seq := 2; e_frame := 1; e_creator := 7; e_lamport := 1;
                    e_parents := [] |} [] = Err NoParents /\
  validate 3 [7] {| e_epoch := 3; e_seq := 5; e_frame := 2; e_creator := 7; e_lamport := 10;
                    e_parents := [100; 100] |} [ex_sp; ex_sp] = Err DoubleParents /\
  validate 4 [7] ex_e [ex_sp; ex_op] = Err NotRelevant /\
  validate 3 [8] ex_e [ex_sp; ex_op] = Err Auth /\
  validate 3 [7] (with_lamport 12 ex_e) [ex_sp; ex_op] = Err WrongLamport /\
  validate 3 [8] {| e_epoch := 3; e_seq := 5; e_frame := 2; e_creator := 8; e_lamport := 13;
                    e_parents := [100; 200] |} [ex_sp; ex_op] = Err WrongSelfParent /\
  validate 3 [7] (with_seq 6 ex_e) [ex_sp; ex_op] = Err WrongSeq.
Proof. vm_compute. repeat split. Qed.

Print Assumptions C13_validate_ok_iff_wf.
Print Assumptions C13_validate_ok_iff_general.
Print Assumptions C13_answer_ok_gen_unique.
Print Assumptions C13_validate_opt_some.
Print Assumptions C13_validate_opt_none.
Print Assumptions C13_history_pointwise.
Print Assumptions C13_history_late_event.
Print Assumptions C13_validate_err_iff_blames.
Print Assumptions C13_answer_ok_unique.
Print Assumptions C13_basic_ok_iff.
Print Assumptions C13_epoch_ok_iff.
Print Assumptions C13_parents_ok_iff.
Print Assumptions C13_no_panic.
Print Assumptions C13_length_mismatch_panics.
