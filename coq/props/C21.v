(* C21 — Double-sign guard never permits emission too early.
   Model: model/DoubleSign.v = emitter/doublesign/{synced_heuristic,parallel_instance_heuristic}.go
   (REPAIRED: fixes/C21.patch) on top of a model of Go's wall-clock time.Time.Sub/Add with int64
   wrap-around and saturation written out.  Specification: spec/DoubleSignSpec.v, exact integers.
   [wf_status]: every time value is a representable wall-clock time.Time (int64 seconds since year 1,
   nanoseconds in [0,1e9)) — all of them, including the far past and future. *)
From Coq Require Import ZArith List.
From LV Require Import model.DoubleSign spec.DoubleSignSpec proofs.DoubleSignProofs.
Import ListNotations.
Local Open Scope Z_scope.

(* Go's Time.Sub, as compiled (wrapping int64 arithmetic, overflow test through Add/Equal), is the
   exact difference saturated to int64 — for ALL representable wall-clock times. *)
Theorem C21_time_sub_saturates : forall t u, wf_time t -> wf_time u ->
  go_sub t u = sat64 (ns t - ns u).
Proof. exact go_sub_sat. Qed.

(* ... and so is the monotonic-clock path (subMono on the two readings) *)
Theorem C21_sub_mono_saturates : forall t u, is_dur t -> is_dur u -> sub_mono t u = sat64 (t - u).
Proof. exact sub_mono_sat. Qed.

(* the repair: subDuration is the saturated difference of two durations *)
Theorem C21_sub_duration_saturates : forall a b, is_dur a -> is_dur b ->
  sub_duration a b = sat64 (a - b).
Proof. exact sub_duration_sat. Qed.

(* Emission is permitted (nil error) exactly when there is a peer, P2P sync has finished and each of
   the five stamps lies at least th in the past (exact integer comparison).  Every threshold except
   MinInt64 itself. *)
Theorem C21_emit_iff : forall s th, wf_status s -> min64 < th <= max64 ->
  (snd (synced_to_emit s th) = NoErr <-> may_emit s th).
Proof. exact emit_iff. Qed.

(* For every threshold >= 0 the whole answer is the specified one: wait = longest remaining time
   capped at MaxInt64 (0 when permitted / no peers / not synced), error = the one of the first stamp
   that attains it. *)
Theorem C21_answer_exact : forall s th, wf_status s -> 0 <= th <= max64 ->
  synced_to_emit s th = expected s th.
Proof. exact synced_exact. Qed.

(* Every threshold above MinInt64 (negative ones included): when emission is refused because of a
   stamp, the wait is positive and at most the capped longest remaining time; it equals it (and the
   error is the first attaining stamp's) whenever no stamp is more than 2^63 ns ahead of now. *)
Theorem C21_wait_bounds : forall s th, wf_status s -> min64 < th <= max64 ->
  peers s <> 0 -> ns (synced s) <> 0 -> ~ may_emit s th ->
  0 < fst (synced_to_emit s th) <= capped (longest s th) /\
  ((forall t, In t (five s) -> min64 <= elapsed s t) ->
     fst (synced_to_emit s th) = capped (longest s th) /\
     snd (synced_to_emit s th) = first_with s th (capped (longest s th)) (stamps s)).
Proof. exact wait_bounds. Qed.

Theorem C21_no_peers : forall s th, peers s = 0 -> synced_to_emit s th = (0, ErrNoConnections).
Proof. exact no_peers. Qed.
Theorem C21_not_synced : forall s th, wf_status s -> peers s <> 0 -> ns (synced s) = 0 ->
  synced_to_emit s th = (0, ErrP2PSyncOngoing).
Proof. exact not_synced. Qed.

(* A parallel instance is reported exactly when the external self-event is not older than startup
   and younger than the threshold. *)
Theorem C21_parallel_iff : forall s th, wf_status s -> min64 < th <= max64 ->
  (detect_parallel s th = true <-> parallel s th).
Proof. exact parallel_iff. Qed.

(* The whole answer is the specified one on the whole domain where the code can know the distances:
   any threshold (negative ones and MinInt64 included) when no stamp is more than 2^63 ns ahead of now,
   and any stamps when the threshold is >= 0.  [answer_ok] is the STRICT verdict (= [expected], the
   literal property) that the correspondence driver applies to every answer of the implementation. *)
Theorem C21_answer_exact_domain : forall s th, wf_status s -> is_dur th ->
  0 <= th \/ saturated_b s = false ->
  synced_to_emit s th = expected s th.
Proof. exact synced_exact_domain. Qed.
Theorem C21_answer_ok_model : forall s th, wf_status s -> is_dur th ->
  0 <= th \/ saturated_b s = false ->
  answer_ok s th (synced_to_emit s th) = true.
Proof. exact answer_ok_model. Qed.
Theorem C21_parallel_iff_domain : forall s th, wf_status s -> is_dur th ->
  min64 < th \/ min64 <= elapsed s (created s) ->
  (detect_parallel s th = true <-> parallel s th).
Proof. exact parallel_iff_domain. Qed.

(* ---- outside that domain the REPAIRED code still violates the literal property (unrepaired, known
   findings C21-min-threshold-emit / -parallel and C21-neg-threshold-wait; design-notes/C21.md).
   What the code does at threshold = MinInt64, exactly: *)
Theorem C21_min_threshold_emits : forall s, wf_status s -> peers s <> 0 -> ns (synced s) <> 0 ->
  synced_to_emit s min64 = (0, NoErr).
Proof. exact min_threshold_emits. Qed.
Theorem C21_min_threshold_no_parallel : forall s, wf_status s -> detect_parallel s min64 = false.
Proof. exact min_threshold_no_parallel. Qed.
(* ... which contradicts the property when a stamp is more than 2^63 ns ahead of now: *)
Theorem C21_min_threshold_refuted :
  exists s, wf_status s /\ ~ may_emit s min64 /\ snd (synced_to_emit s min64) = NoErr.
Proof. exact min_threshold_refuted. Qed.
Theorem C21_min_threshold_parallel_refuted :
  exists s, wf_status s /\ parallel s min64 /\ detect_parallel s min64 = false.
Proof. exact min_threshold_parallel_refuted. Qed.
(* MinInt64 < threshold < 0 and such a stamp: the decision is right (C21_emit_iff) but the wait is below
   the capped longest remaining time (C21_wait_bounds gives the bound) *)
Theorem C21_negative_threshold_wait_refuted :
  exists s th, wf_status s /\ min64 < th < 0 /\ peers s <> 0 /\ ns (synced s) <> 0 /\
               ~ may_emit s th /\ fst (synced_to_emit s th) <> capped (longest s th).
Proof. exact negative_threshold_wait_refuted. Qed.

(* ---- non-vacuity: a status where emission is refused for 3 s more; one where it is permitted *)
Definition ex_t (sec_ : Z) : gtime := {| sec := 63900000000 + sec_; nsec := 500 |}.
Definition ex_status : status :=
  {| peers := 2; now := ex_t 100; startup := ex_t 0; connected := ex_t 10; synced := ex_t 20;
     became := ex_t 5; created := ex_t 93; detected := ex_t 95 |}.
Example C21_ex_wf : wf_status ex_status /\ min64 < 10 * giga <= max64 /\ peers ex_status <> 0
                    /\ ns (synced ex_status) <> 0.
Proof. vm_compute. repeat split; congruence. Qed.
Example C21_ex_refused : synced_to_emit ex_status (10 * giga) = (5 * giga, ErrSelfEventsOngoing)
                         /\ ~ may_emit ex_status (10 * giga).
Proof.
  split; [vm_compute; reflexivity|]. intros [_ [_ H]].
  assert (Hin : In (detected ex_status) (five ex_status)) by (cbn; tauto).
  apply H in Hin. vm_compute in Hin. apply Hin. reflexivity.
Qed.
Example C21_ex_permitted : synced_to_emit ex_status (5 * giga) = (0, NoErr).
Proof. vm_compute. reflexivity. Qed.
Example C21_ex_parallel : detect_parallel ex_status (10 * giga) = true /\ detect_parallel ex_status (7 * giga) = false.
Proof. split; vm_compute; reflexivity. Qed.

Print Assumptions C21_time_sub_saturates.
Print Assumptions C21_sub_mono_saturates.
Print Assumptions C21_sub_duration_saturates.
Print Assumptions C21_emit_iff.
Print Assumptions C21_answer_exact.
Print Assumptions C21_wait_bounds.
Print Assumptions C21_no_peers.
Print Assumptions C21_not_synced.
Print Assumptions C21_parallel_iff.
Print Assumptions C21_answer_exact_domain.
Print Assumptions C21_answer_ok_model.
Print Assumptions C21_parallel_iff_domain.
Print Assumptions C21_min_threshold_emits.
Print Assumptions C21_min_threshold_no_parallel.
Print Assumptions C21_min_threshold_refuted.
Print Assumptions C21_min_threshold_parallel_refuted.
Print Assumptions C21_negative_threshold_wait_refuted.
