(* C07 -- Rejected and merely built events leave no trace.
   Statements only; proofs in proofs/AbftProcess.v AbftBuild.v AbftFrame.v (AbftOld.v: refutation of the
   pinned sampler). *)
From Coq Require Import NArith List.
From LV Require Import model.VecIndex model.Abft model.AbftRun
  proofs.AbftFrame proofs.AbftBuild proofs.AbftProcess proofs.AbftTransparent proofs.AbftNoCache proofs.AbftNoTrace proofs.AbftWitness proofs.AbftOld.
Import ListNotations.
Local Open Scope N_scope.

(* A Build -- whatever it returns, with any sampler -- changes the forkless-cause cache and the build
   counter and nothing else: epoch state, decided frame, roots, confirmed marks, vector index and election
   are those of the instance that never saw the event. *)
Theorem C07_build_leaves_no_trace : forall cap smp es st e,
  exists c', snd (build_with cap smp es st e) = set_fcc (set_ctr st (l_ctr st + 1)) c'.
Proof. exact build_with_shape. Qed.

(* A Process that ends with ErrWrongFrame emits no block and changes the forkless-cause cache only. *)
Theorem C07_rejected_process_leaves_no_trace : forall cap end_block es st e r bl st',
  process cap end_block es st e = (r, bl, st') -> r = Err EWrongFrame -> bl = [] /\ exists c', st' = set_fcc st c'.
Proof. exact process_early_exit. Qed.

(* What is left behind is harmless: the next frame computation for an event whose cached answers are
   coherent ignores the cache ... *)
Theorem C07_frame_check_ignores_cache : forall cap es st e co, cache_ok (a_id e) st ->
  exists c', calc_frame cap es st e co = (frame_pure es (l_vals st) (l_idx st) (l_roots st) e co, set_fcc st c') /\
             cache_ok (a_id e) (set_fcc st c').
Proof. exact calc_frame_pure. Qed.

(* ... and later Builds assign the frames of the clean instance whatever was built in between (the
   repaired sampler never reuses a temporary id; [real] = ids of processed events) *)
Theorem C07_later_builds_unaffected : forall cap (real : N -> Prop) bound,
  (forall a, real a -> ~ is_temp bound a) ->
  forall es st hist e, keys_inv real st -> l_ctr st + N.of_nat (length hist) + 1 <= bound ->
  fst (build cap es (builds cap es st hist) e) =
  build_pure es (l_vals st) (l_idx st) (l_roots st) (l_epoch st) (l_ctr st + N.of_nat (length hist) + 1) e.
Proof. exact build_any_history. Qed.

(* ... and a later Process -- frame check, root registration, the whole election, the emitted blocks and the
   next state -- is the same for two instances that differ in the cache only, as long as both caches are
   coherent with the index ([coh]: every cached answer is the index' answer; for entries left by earlier
   calls this is the stability of forkless cause under index growth, a consequence of C05, and for entries
   of dropped speculative events it is vacuous once their ids never recur: C04) *)
Theorem C07_process_ignores_coherent_cache : forall cap end_block es st c n e s',
  add (l_idx st) (vev (l_vals st) e) = Some s' ->
  coh (set_idx st s') -> coh (set_idx (set_fcc (set_ctr st n) c) s') ->
  let x := process cap end_block es st e in
  let x' := process cap end_block es (set_fcc (set_ctr st n) c) e in
  fst (fst x) = fst (fst x') /\ snd (fst x) = snd (fst x') /\ R (snd x) (snd x').
Proof. exact process_cache_transparent. Qed.

(* ================= Round 2: whole runs =================
   With the forkless-cause cache disabled (ForklessCausePairs = 0; the cache then stays empty) the property
   holds for EVERY operation sequence: delete every Build and every Process that ended with ErrWrongFrame
   (of an event the event store had never held) -- the clean run reproduces, one for one, every observation of
   the remaining operations (Process results, blocks, decided frames, epochs, merged clocks, root lists,
   forkless-cause probes, restarts, Resets).  [kept i ops] = (remaining ops, their observations in the main
   run); [drops_alive]: no deleted operation hit crit.  With a cache (any capacity) the same follows from
   C07_process_ignores_coherent_cache once the caches are coherent with the grown index; that part is the
   index theorem C05_cached_queries_equal_spec / C05_spec_stable_under_growth of worker vecidx (any LRU
   capacity, any interleaving of Adds and queries) and is not re-proved over this model. *)
Theorem C07_no_trace_run : forall pol smp ops i i', Rc i i' -> drops_alive pol smp i ops ->
  run 0 pol smp i' (fst (kept pol smp i ops)) = snd (kept pol smp i ops).
Proof. exact no_trace_run. Qed.
Theorem C07_no_trace_from_genesis : forall pol smp epoch raw ops, drops_alive pol smp (start epoch raw) ops ->
  run 0 pol smp (start epoch raw) (fst (kept pol smp (start epoch raw) ops)) = snd (kept pol smp (start epoch raw) ops).
Proof.
  intros. apply no_trace_run; auto. unfold Rc. repeat split; try reflexivity. apply R_refl.
Qed.

(* non-vacuity: a run with a rejected wrong-frame Process, a ghost-like rejected event and a Build injected *)
Definition nt_ops : list op :=
  [OpP a1; OpP b1; OpP (set_frame c1 7); OpP c1; OpB x12; OpP (set_frame a2 0); OpP a2; OpP b2; OpB cheap; OpP c2; OpM (a_id c2)].
Example C07_no_trace_witness :
  fst (kept [] sample (start 1 w_vals) nt_ops) = [OpP a1; OpP b1; OpP c1; OpP a2; OpP b2; OpP c2; OpM (a_id c2)] /\
  length (snd (kept [] sample (start 1 w_vals) nt_ops)) = 7%nat /\
  run 0 [] sample (start 1 w_vals) (fst (kept [] sample (start 1 w_vals) nt_ops)) = snd (kept [] sample (start 1 w_vals) nt_ops).
Proof. vm_compute. repeat split. Qed.

(* non-vacuity: see C04_hypotheses_satisfiable; the same witness read as a C07 differential run *)
Example C07_witness : last_obs (run_w sample (w_base ++ w_hist ++ [OpB x123])) = last_obs (run_w sample (w_base ++ [OpB x123])).
Proof. vm_compute. reflexivity. Qed.

Print Assumptions C07_build_leaves_no_trace.
Print Assumptions C07_rejected_process_leaves_no_trace.
Print Assumptions C07_frame_check_ignores_cache.
Print Assumptions C07_later_builds_unaffected.
Print Assumptions C07_process_ignores_coherent_cache.
Print Assumptions C07_no_trace_run.
Print Assumptions C07_no_trace_from_genesis.

(* ================= C07 at full strength through L1 (worker link; proofs/LinkNoise*.v) =================
   For ANY capacity of the forkless-cause LRU: take a valid run D (every event accepted by the rules,
   forkers < 1/3; validator list in any order) and interleave it arbitrarily with noise — before each
   valid event's Build (s_pre), between its Build and its Process (s_mid) and after the last event (tl):
     OpB x   speculative Builds of arbitrary events (temporary ids from the build counter),
     OpP x   Process calls that the application's guard skips or that end with ErrWrongFrame,
             under ids J that no valid event carries,
     OpR     restarts (new Store over the same databases, fresh index, Bootstrap),
     OpM / OpG / OpQ / OpV  probes.
   Then the observations of the valid events (accept codes, frames assigned by Build, blocks with
   Atropos and cheaters) are exactly those of the run without noise, and equal the reference:
   rejected and merely built events leave no trace.  ok_from: every noise operation, in the state in
   which it is executed, is such an operation: nothing is asked of Builds and probes (LinkNoise.build_alive:
   a Build never crashes here); a noise Process was skipped or rejected with ErrWrongFrame.
   noise_side: ids of valid and rejected events are not temporary ids for a counter <= K, K >= number of
   Builds in the whole schedule, K < 2^192. *)
From LV Require Import spec.ElectionSpec proofs.BftProps proofs.LinkVals proofs.LinkPerm proofs.LinkDefs
  proofs.LinkRaw proofs.LinkNoise proofs.LinkNoiseRaw proofs.LinkExample proofs.LinkNoiseExample.

Theorem C07_no_trace_any_cache : forall (cap : nat) lam vals (sc : list slot) (tl : list op) J K,
  let D := map s_ev sc in let ops := sched_ops lam vals sc tl in let mask := sched_mask sc tl in
  raw_ok vals -> v_total vals < 2 ^ 31 -> noise_side D J K ops -> valid_run vals D ->
  ok_from cap J (start 1 vals) ops mask ->
  render (pick mask (run cap [] sample (start 1 vals) ops)) = reference vals D /\
  render (pick mask (run cap [] sample (start 1 vals) ops)) = abft_run cap lam vals D.
Proof. exact link_noise_raw. Qed.

(* non-vacuity: 48 valid events + 62 noise operations (a wrong-frame Process offered twice, speculative
   Builds, three restarts, probes), cache capacity 3; the instance of the theorem and the same by evaluation *)
Example C07_no_trace_any_cache_example :
  map s_ev nx_sc = ex3_D /\ noise_side ex3_D nx_J 100 nx_ops /\ valid_run ex_vals ex3_D /\
  ok_from 3 nx_J (start 1 ex_vals) nx_ops nx_mask /\
  (count_builds nx_ops = 52%nat /\ length nx_ops = 110%nat /\
   existsb (fun o => match o with ObsP (Some EWrongFrame) _ _ _ => true | _ => false end) (run 3 [] sample (start 1 ex_vals) nx_ops) = true) /\
  render (pick nx_mask (run 3 [] sample (start 1 ex_vals) nx_ops)) = reference ex_vals ex3_D.
Proof. exact (conj nx_D (conj nx_side (conj ex3_valid (conj nx_ok (conj nx_has_noise nx_no_trace_by_evaluation))))). Qed.

Print Assumptions C07_no_trace_any_cache.

(* ================= Round 3 (worker link): no trace across epochs, hypotheses on the INPUT =================
   C07_no_trace_input_level (proofs/LinkXCor.v: link_x_noise_invisible, from LinkEpochsX.link_x): a run over
   several epochs under an arbitrary policy, with noise before / between / after the calls of every event --
   speculative Builds of arbitrary events, Process calls that the application's guard stops, probes, restarts;
   also after a sealing block -- and with events INSIDE the stream that the reference rejects for their frame
   (code 1: a failed Process; with or without a preceding Build) or does not offer (code 2), gives, once the
   entries of the restarts are removed, exactly the observations of the run of the same schedules without
   any noise: the same verdict and Build frame for every event (accepted, rejected or skipped alike -- "later
   events are rejected identically"), the same decided frames, blocks, cheaters, seals, validator sets.
   Nothing is assumed about observed outcomes: epochs_ok_x (LinkEpochsX.v) speaks about the input only
   (reference codes 0/1/2, forkers < 1/3, ids: not temporary Build ids, an id rejected for its frame does not
   come back in the epoch; LinkReject.noise_in for the noise) and is decidable (LinkXCheck.epochs_ok_xb).
   The observation-level theorem C07_no_trace_any_cache above stays as it is: it also covers noise Process
   calls on arbitrary aevents and the re-submission of a rejected event under the same id. *)
From LV Require Import proofs.LinkReject proofs.LinkX proofs.LinkEpochsX proofs.LinkXCheck proofs.LinkXCor proofs.LinkXExample proofs.LinkXCorExample.

Theorem C07_no_trace_input_level : forall cap lam pol vals Ss K,
  vals <> [] -> epochs_ok_x pol K vals 1 Ss -> N.of_nat (total_builds Ss) <= K -> K < 2 ^ 192 ->
  map strip8 (model_epochs_x cap lam pol (start 1 vals) vals 1 Ss) = model_epochs_x cap lam pol (start 1 vals) vals 1 (map clean_S Ss).
Proof. exact link_x_noise_invisible. Qed.

(* the rejection itself is derived: reference code 1 => the model's Process returns ErrWrongFrame and keeps the
   simulation (with the rejected id added to the set of spent ids) *)
Theorem C07_rejected_by_the_rules_is_rejected_by_the_code :
  forall cap pol ep lam vals, vals_ok vals -> forall K, K < 2 ^ 192 -> forall (J : N -> Prop), (forall a, J a -> id_fresh K a) ->
  forall i T Dr B e, LinkStep.Sim ep lam vals J K i T Dr B -> BftMain.few_forkers vals T ->
  BftGraph.parents_known T e -> nlookup (eid (fe e)) T = None -> (ecr (fe e) < length vals)%nat -> BftGraph.ev_wf T e ->
  r_frame_ok vals T (mk_node (length vals) T e) = false -> id_fresh K (eid (fe e)) -> ~ J (eid (fe e)) ->
  exists i', step cap pol sample i (OpP (to_aevent ep lam vals e)) = (ObsP (Some EWrongFrame) [] (l_ldf (i_st i)) (l_epoch (i_st i)), i', false) /\
    LinkStep.Sim ep lam vals (fun a => J a \/ a = eid (fe e)) K i' T Dr B /\ l_ctr (i_st i') = l_ctr (i_st i).
Proof. exact reject_step. Qed.

Example C07_no_trace_input_level_example :
  epochs_ok_xb xx_pol 400 ex_vals 1 xx_Ss = true /\ xx_Ss <> map clean_S xx_Ss /\
  map (fun r => length (fst (fst r))) (model_epochs_x 3 xx_lam xx_pol (start 1 ex_vals) ex_vals 1 xx_Ss) = [59; 50; 50]%nat /\
  map (fun r => length (fst (fst r))) (model_epochs_x 3 xx_lam xx_pol (start 1 ex_vals) ex_vals 1 (map clean_S xx_Ss)) = [52; 48; 48]%nat /\
  map strip8 (model_epochs_x 3 xx_lam xx_pol (start 1 ex_vals) ex_vals 1 xx_Ss) =
  model_epochs_x 3 xx_lam xx_pol (start 1 ex_vals) ex_vals 1 (map clean_S xx_Ss).
Proof. exact (conj xx_input_ok (conj (proj1 xx_noise_is_there) (conj (proj1 (proj2 xx_noise_is_there)) (conj (proj2 (proj2 xx_noise_is_there)) xx_noise_invisible)))). Qed.

Print Assumptions C07_no_trace_input_level.
Print Assumptions C07_rejected_by_the_rules_is_rejected_by_the_code.
(* the hypotheses of C07_rejected_by_the_rules_is_rejected_by_the_code hold at genesis for a first event that
   claims frame 2; the model's answer by evaluation *)
From LV Require Import proofs.LinkCodesExample.
Example C07_rejection_example :
  (LinkStep.Sim 1 (fun _ => 0) ex2_vals (fun _ => False) 48 (start 1 ex2_vals) [] [] [] /\ BftMain.few_forkers ex2_vals [] /\
   BftGraph.parents_known [] rj_e /\ nlookup (eid (fe rj_e)) [] = None /\ (ecr (fe rj_e) < length ex2_vals)%nat /\ BftGraph.ev_wf [] rj_e /\
   r_frame_ok ex2_vals [] (mk_node (length ex2_vals) [] rj_e) = false /\ id_fresh 48 (eid (fe rj_e))) /\
  fst (fst (step 3 [] sample (start 1 ex2_vals) (OpP (to_aevent 1 (fun _ => 0) ex2_vals rj_e)))) = ObsP (Some EWrongFrame) [] 0 1.
Proof. exact (conj rj_hyps rj_rejected). Qed.
