(* C23x — extension of C23 to the kvdb wrappers outside the C22-C24 models: batched, skipkeys,
   nokeyiserr, readonlystore, skiperrors, fallible, devnulldb, cachedproducer's store.
   Statements only.  Stacks [wst] are written top-down over an ordered map of spec/KvSpec.v. *)
From Coq Require Import NArith ZArith List.
From LV Require Import lib.Bytes lib.SortedMap spec.KvSpec model.KvWrappers spec.KvWrappersSpec
  proofs.KvWrappersProofs.
Import ListNotations.

(* Reads of ANY stack without the failing test double are the ordered-map reads of its view: the
   base map with every skipkeys prefix filtered out (buffered writes of batched layers are not in it,
   devnulldb shows nothing); a key absent from the view gets (nil,nil), or errNotFound under an
   uncovered nokeyiserr layer. *)
Theorem C23x_stack_reads : forall s, no_err s = true -> sm_sorted (wbase s) -> forall k,
  whas s k = ROk (kv_has (wview s) k) /\
  (forall p st, witer s p st = kv_iterate (wview s) p st) /\
  wget s k = match kv_get (wview s) k with Some v => ROk (Some v) | None => absent_res s k end.
Proof. exact stack_reads. Qed.

(* Snapshots are taken below skipkeys/batched/readonly/fallible/cached layers: they show the whole
   base map, the hidden prefix included (Example C23x_skipkeys_snapshot). *)
Theorem C23x_snapshot_reads : forall s, no_err s = true -> sm_sorted (wbase s) -> forall k,
  whas (wsnap s) k = ROk (kv_has (wbase s) k) /\
  (forall p st, witer (wsnap s) p st = kv_iterate (wbase s) p st) /\
  wget (wsnap s) k = match kv_get (wbase s) k with
                     | Some v => ROk (Some v)
                     | None => absent_res (wsnap s) k   (* nokeyiserr / skiperrors still act on a snapshot *)
                     end.
Proof. exact snapshot_reads. Qed.

(* Writes.  In a stack of batched / skipkeys / nokeyiserr / readonly / cached layers over memorydb whose
   inner buffers are empty (every stack used from the top only), without a readonly layer: every
   Put/Delete is accepted, the settled map (base + buffer) is the ordered map of the writes in order,
   and after Close the base store holds exactly that map — whatever MayFlush did in between. *)
Theorem C23x_batched_stack_refines : forall scale ops s,
  quiet s = true -> is_null s = false -> inner_empty s = true -> has_ro s = false ->
  wsettled (wwrites scale s ops) = kv_write (wsettled s) ops /\
  wbase (fst (wclose (wwrites scale s ops))) = kv_write (wsettled s) ops.
Proof. exact batched_stack_refines. Qed.
Theorem C23x_close_settles : forall s, quiet s = true -> is_null s = false ->
  snd (wclose s) = ROk tt /\ wbase (fst (wclose s)) = wsettled s.
Proof. exact close_settles. Qed.
(* The view is the base minus the keys hidden by skipkeys layers; after batched.Flush the buffered
   writes are in the base, hence in the view. *)
Theorem C23x_view_hidden : forall s, wview s = sm_filter (fun k => negb (hidden s k)) (wbase s).
Proof. exact wview_hidden. Qed.
Theorem C23x_flush_shows_writes : forall pend u,
  is_null u = false -> base_closed u = false -> all_empty u = true ->
  wbase (l_flush (WBatched pend u)) = wsettled (WBatched pend u) /\
  wpending (l_flush (WBatched pend u)) = [] /\
  wview (l_flush (WBatched pend u)) = sm_filter (fun k => negb (hidden u k)) (wsettled (WBatched pend u)).
Proof. exact flush_shows_writes. Qed.

(* With a readonly layer anywhere in the stack, every write is refused and nothing changes. *)
Theorem C23x_readonly_stack_rejects : forall scale ops s,
  quiet s = true -> is_null s = false -> inner_empty s = true -> has_ro s = true ->
  wsettled (wwrites scale s ops) = wsettled s /\
  forall o, snd (wwrite scale (wwrites scale s ops) o) = RErr E_UNSUPPORTED.
Proof. exact readonly_stack_rejects. Qed.

(* Single-layer deviations. *)
Theorem C23x_nokey_never_nil : forall u k, wget (WNoKey u) k <> ROk None.
Proof. exact nokey_never_nil. Qed.
Theorem C23x_skiperrors_get : forall l u k e, wget (WSkipErr l u) k = RErr e -> nmemb e l = false.
Proof. exact skiperrors_get_never_listed. Qed.
Theorem C23x_skiperrors_has : forall l u k e, whas (WSkipErr l u) k = RErr e -> nmemb e l = false.
Proof. exact skiperrors_has_never_listed. Qed.
Theorem C23x_skiperrors_write : forall scale l u o e,
  snd (wwrite scale (WSkipErr l u) o) = RErr e -> nmemb e l = false.
Proof. exact skiperrors_write_never_listed. Qed.
Theorem C23x_fallible_put : forall scale n u k v,
  wwrite scale (WFall n u) (WPut k v) =
  if (n <=? 0)%Z then (WFall (n - 1) u, RPanic)
  else (WFall (n - 1) (fst (wwrite scale u (WPut k v))), snd (wwrite scale u (WPut k v))).
Proof. exact fallible_put. Qed.
Theorem C23x_fallible_delete : forall scale n u k,
  wwrite scale (WFall n u) (WDel k) = (WFall n (fst (wwrite scale u (WDel k))), snd (wwrite scale u (WDel k))).
Proof. exact fallible_delete. Qed.
Theorem C23x_devnull_view : forall s, is_null s = true -> wview s = [].
Proof. exact wview_null. Qed.

Example C23x_skipkeys_snapshot :
  let s := WSkip [107%N] (WBase [([107; 1]%N, [9%N])]) in
  wget s [107; 1]%N = ROk None /\ witer s [] [] = [] /\
  wget (wsnap s) [107; 1]%N = ROk (Some [9%N]) /\ witer (wsnap s) [] [] = [([107; 1]%N, [9%N])].
Proof. exact skipkeys_snapshot_shows_hidden. Qed.

(* the cachedproducer reference count and the real memorydb's life cycle (differential-tested; here as
   computed instances): two handles — the first Close closes nothing, the second really closes (the real
   memorydb is emptied by Close), the third is refused; after the close Get answers errClosed and Put
   panics; Drop of an open memorydb panics, Drop after Close works, a second Drop is swallowed. *)
Example C23x_cached_lifecycle :
  let s := WCached 1 true (WMem [] false) in
  xrun 1 (x_init s) [XReopen 0; XPut [97%N] [1%N]; XClose; XGet [97%N]; XClose; XGet [97%N]; XPut [97%N] [1%N];
                     XClose; XDrop; XDrop]
  = [BUnit (ROk tt); BUnit (ROk tt); BEnd (ROk tt) [([97%N], [1%N])]; BVal (ROk (Some [1%N]));
     BEnd (ROk tt) []; BVal (RErr E_CLOSED); BUnit RPanic; BEnd (RErr E_CLOSEMORE) [];
     BEnd (ROk tt) []; BEnd (ROk tt) []].
Proof. vm_compute. reflexivity. Qed.

(* non-vacuity: a batched + skipkeys stack; reads before Flush do not see the buffer *)
Example C23x_batched_example :
  let s := WBatched [] (WSkip [107%N] (WBase [])) in
  xrun 1 (x_init s) [XPut [97%N] [1%N]; XGet [97%N]; XFlush 0; XGet [97%N]; XPut [107%N] [2%N]; XClose]
  = [BUnit (ROk tt); BVal (ROk None); BUnit (ROk tt); BVal (ROk (Some [1%N])); BUnit (ROk tt);
     BEnd (ROk tt) [([97%N], [1%N]); ([107%N], [2%N])]].
Proof. vm_compute. reflexivity. Qed.

Print Assumptions C23x_stack_reads.
Print Assumptions C23x_snapshot_reads.
Print Assumptions C23x_batched_stack_refines.
Print Assumptions C23x_close_settles.
Print Assumptions C23x_view_hidden.
Print Assumptions C23x_flush_shows_writes.
Print Assumptions C23x_readonly_stack_rejects.
Print Assumptions C23x_nokey_never_nil.
Print Assumptions C23x_skiperrors_get.
Print Assumptions C23x_skiperrors_has.
Print Assumptions C23x_skiperrors_write.
Print Assumptions C23x_fallible_put.
Print Assumptions C23x_fallible_delete.
Print Assumptions C23x_devnull_view.
