(* C02 -- Each block delivers exactly the new ancestry of its Atropos.
   Statements only; proofs in proofs/AbftDfs.v AbftChain.v AbftSeal.v AbftProcess.v. *)
From Coq Require Import NArith List.
From LV Require Import model.VecIndex model.Abft model.AbftRun spec.AbftSpec proofs.AbftFrame
  proofs.AbftDfs proofs.AbftDfsFuel proofs.AbftSeal proofs.AbftProcess proofs.AbftChain proofs.AbftRoots proofs.AbftRooted proofs.AbftRunInv proofs.VecStep proofs.AbftInv proofs.AbftInvStep proofs.AbftGraph proofs.AbftFuel proofs.AbftClosedInv proofs.AbftSealWitness.
Import ListNotations.
Local Open Scope N_scope.

(* The DFS of confirmEvents/dfsSubgraph: started at the Atropos over ancestor-closed confirmed marks C0 it
   delivers, each once, exactly the ancestors-or-self of the Atropos that are not yet confirmed, marks them
   with the frame, and leaves the marks ancestor-closed.  [reach] = reflexive-transitive parent closure. *)
Theorem C02_dfs_delivers_new_ancestry : forall es frame, frame <> 0 -> forall C0, closed es C0 ->
  forall atr fuel dl conf',
  dfs_confirm fuel es frame [atr] C0 [] = Ok (dl, conf') ->
  NoDup dl /\
  (forall x, In x dl <-> reach es atr x /\ conf_get C0 x = 0) /\
  (forall x, conf_get conf' x = if in_dec N.eq_dec x dl then frame else conf_get C0 x) /\
  closed es conf'.
Proof. exact dfs_confirm_spec. Qed.

(* the fuel the model gives to that DFS always suffices (the traversal terminates) *)
Theorem C02_dfs_fuel_enough : forall es frame atr conf, frame <> 0 ->
  dfs_confirm (confirm_fuel es) es frame [atr] conf [] <> Err EFuel.
Proof. exact confirm_never_out_of_fuel. Qed.

(* One Process call: its blocks deliver in turn, without repetition, exactly the ancestry of their Atropos
   that was neither confirmed before the call nor delivered by an earlier block of the call; afterwards
   (no seal) the confirmed set is the old one plus everything delivered, and it is ancestor-closed again --
   so the statement chains over the calls of an epoch: no event is delivered twice, and every delivered
   event's ancestors were delivered no later. *)
Theorem C02_process_delivers : forall cap end_block es st e r bl st',
  elinv st -> closed es (l_conf st) -> process cap end_block es st e = (r, bl, st') ->
  delivered_ok es (marked (l_conf st)) bl /\
  (existsb is_sealed bl = false ->
     closed es (l_conf st') /\
     forall x, marked (l_conf st') x <-> marked (l_conf st) x \/ exists b, In b bl /\ In x (b_delivered b)).
Proof. exact process_delivers. Qed.

(* a new epoch starts with no confirmed event (sealing and Reset), and the empty set is ancestor-closed *)
Theorem C02_epoch_starts_unconfirmed : forall es st ep nv, l_conf (reset st ep nv) = [] /\ closed es [].
Proof. intros. split; [reflexivity | intros w ev p M; elim M; reflexivity]. Qed.

(* the blocks of an epoch have consecutive frame numbers starting at 1: each call continues at
   LastDecidedFrame+1, a seal ends the call and the next epoch starts with LastDecidedFrame = 0 *)
Theorem C02_frames_consecutive : forall cap end_block es st e r bl st',
  elinv st -> process cap end_block es st e = (r, bl, st') -> call_post st bl st'.
Proof. exact process_frames. Qed.

(* each block's Atropos is a root of the block's frame: it is stored in the root table for exactly that
   frame.  R is the root table right after the processed event's own slots were registered, and it is
   bounded from both sides (audit-F issue 1: an unbounded R made the clause trivial): it contains the old
   table and nothing but the old table plus the slots (g, creator e, id e), self-parent frame < g <= frame e;
   when the call accepts the event without sealing, R is the root table of the resulting state.
   [V] = every yes-vote of the election that names a root names a stored root of the frame being decided.
   The statement over the GRAPH (the Atropos is an accepted event whose frame interval contains the block's
   frame) is C02_atropos_is_graph_root below. *)
Theorem C02_atropos_is_root : forall cap end_block es st e r bl st',
  V st -> elinv st -> process cap end_block es st e = (r, bl, st') ->
  exists R,
    (forall r0, In r0 (l_roots st) -> In r0 R) /\
    (forall r0, In r0 R -> In r0 (l_roots st) \/
        (r_val r0 = a_creator e /\ r_id r0 = a_id e /\ r_frame r0 <= a_frame e /\
         exists spf, AbftFrame.spf_of es e = Ok spf /\ spf < r_frame r0)) /\
    all_rooted R bl /\
    (sealed_last bl = false -> V st' /\ (r = Ok tt -> l_roots st' = R)).
Proof. exact process_atropos_rooted_exact. Qed.
Theorem C02_V_initially : forall ep v st, V (genesis ep v) /\ V (reset st ep v).
Proof. intros; split; [apply V_genesis | apply V_reset_state]. Qed.

(* the hypotheses elinv and V of the theorems above hold in every state reachable by any operation sequence *)
Theorem C02_invariants_hold_on_every_run : forall cap pol smp epoch raw ops,
  let st := i_st (run_inst cap pol smp (start epoch raw) ops) in elinv st /\ V st.
Proof. intros. apply run_good. apply start_good. Qed.

(* Round 2: ... and the root table IS the set of graph root slots (invariant J, preserved by every operation:
   C04_J_on_every_run), so: the Atropos of every block is an ACCEPTED EVENT of the epoch (possibly the one
   just processed) whose self-parent frame is below and whose own frame is at least the block's frame --
   a root of that frame in the sense of the frame rule *)
Theorem C02_atropos_is_graph_root : forall cap eb i e u bl st',
  J i -> elinv (i_st i) -> V (i_st i) -> guard i e true = None ->
  wf_new (length (l_vals (i_st i))) (l_idx (i_st i)) (vev (l_vals (i_st i)) e) ->
  process cap eb (aput (a_id e) e (i_es i)) (i_st i) e = (Ok u, bl, st') ->
  forall b, In b bl ->
    exists e0, (e0 = e \/ In e0 (acc_events i)) /\ a_id e0 = b_atropos b /\
               spf_in (aput (a_id e) e (i_es i)) e0 < b_frame b <= a_frame e0.
Proof. intros cap eb i e u bl st' HJ HI HV G W E b Hb. exact (proj1 (accepted_blocks_graph cap eb i e u bl st' HJ HI HV G W E b Hb)). Qed.
(* the root table = graph root slots, as an invariant of every run *)
Theorem C02_root_table_is_graph_slots : forall i, J i -> forall r,
  In r (l_roots (i_st i)) <->
  exists e, In (a_id e) (i_proc i) /\ get_event (i_es i) (a_id e) = Some e /\ slot_of (i_es i) e r.
Proof. intros i HJ. exact (j_roots i HJ). Qed.

(* audit-F: the hypothesis "confirmed marks are ancestor-closed" of C02_process_delivers holds before every
   operation of every run (the event store grows by accepted events and shrinks by rejected ones in between),
   and only accepted events of the epoch are ever marked: so within an epoch no event is delivered twice and
   every delivered event's ancestors were delivered no later, over whole runs.  [ops_wf]: events passing the
   guard are well-formed for the index; [alive]: no operation hit crit. *)
Theorem C02_confirmed_closed_on_every_run : forall cap pol smp epoch raw ops,
  ops_wf cap pol smp (start epoch raw) ops -> alive cap pol smp (start epoch raw) ops ->
  let i := run_inst cap pol smp (start epoch raw) ops in
  closed (i_es i) (l_conf (i_st i)) /\ (forall x, marked (l_conf (i_st i)) x -> In x (i_proc i)).
Proof. intros. apply run_K; auto; [apply start_J | apply start_good | apply start_K]. Qed.

(* audit-F F4: no call ever runs out of the model's fuel (all loops: frame computation, processKnownRoots,
   bootstrapElection, handleElection, the confirm DFS); V and elinv hold in every reachable state *)
Theorem C02_process_never_out_of_fuel : forall cap eb es st e, V st -> elinv st ->
  fst (fst (process cap eb es st e)) <> Err EFuel.
Proof. exact process_never_out_of_fuel. Qed.
Theorem C02_bootstrap_never_out_of_fuel : forall cap eb es p, fst (fst (bootstrap cap eb es p)) <> Err EFuel.
Proof. exact bootstrap_never_out_of_fuel. Qed.

(* restart: the blocks Bootstrap may emit obey the same numbering *)
Theorem C02_bootstrap_frames : forall cap end_block es p r bl st',
  bootstrap cap end_block es p = (r, bl, st') ->
  frames_ok (p_ldf p) bl /\ elinv st' /\
  if sealed_last bl then l_ldf st' = 0 /\ l_epoch st' = p_epoch p + 1
  else l_ldf st' = p_ldf p + N.of_nat (length bl) /\ l_epoch st' = p_epoch p /\ l_vals st' = p_vals p.
Proof. exact bootstrap_frames. Qed.

(* non-vacuity: the run of proofs/AbftSealWitness.v emits blocks (frame 1 of two epochs) and satisfies the
   executable trace specification (graph ancestry, at-most-once, frame numbering, Atropos is a root) *)
Example C02_witness_run :
  match nth_error s_run 2 with Some (ObsP None [b] 0 2) => b_delivered b | _ => [] end = [a_id s1] /\
  c02_trace (chk_start 1 s_vals) (combine s_ops s_run) = true.
Proof. vm_compute. repeat split. Qed.

Print Assumptions C02_dfs_delivers_new_ancestry.
Print Assumptions C02_dfs_fuel_enough.
Print Assumptions C02_process_delivers.
Print Assumptions C02_epoch_starts_unconfirmed.
Print Assumptions C02_frames_consecutive.
Print Assumptions C02_bootstrap_frames.
Print Assumptions C02_atropos_is_root.
Print Assumptions C02_V_initially.
Print Assumptions C02_invariants_hold_on_every_run.
Print Assumptions C02_atropos_is_graph_root.
Print Assumptions C02_root_table_is_graph_slots.
Print Assumptions C02_confirmed_closed_on_every_run.
Print Assumptions C02_process_never_out_of_fuel.
Print Assumptions C02_bootstrap_never_out_of_fuel.

(* ================= C02 through L1 (worker link; proofs/LinkDeliver.v) =================
   C02_process_delivers above speaks about reachability through the EVENT STORE.  On the states of the
   refinement (LinkStep.Sim: the model state simulates the reference's table T of the processed events Dr)
   the event store holds exactly the reference's events, so that reachability is the reference's ancestry:
   C02_store_reachability_is_graph_ancestry.  Hence the blocks that the Process of an event accepted by the
   reference emits deliver, in turn and without repetition, exactly  anc*(Atropos)  in the reference's table,
   minus what is confirmed already, minus what the earlier blocks of the call delivered:
   C02_blocks_deliver_new_graph_ancestry (delivered_graph).  Its hypothesis K i (the confirmed marks are
   ancestor-closed, only processed events are marked) is C02_confirmed_closed_on_every_run; Sim is what the
   refinement theorems (props/C10.v) maintain along valid runs.
   Cheaters (C03): the cheater list of every block is part of the compared output of the refinement theorems
   (props/C10.v); on the reference side it is cheaters_of = the validators whose fork the Atropos' node sees in
   the graph (nd_forks), so "cheaters = visible forkers at the graph level" is implied there. *)
From LV Require Import spec.ElectionSpec proofs.BftRun proofs.BftMain proofs.BftGraph proofs.BftAccept proofs.BftProps
  proofs.LinkVals proofs.LinkDefs proofs.LinkStep proofs.LinkExample proofs.LinkDeliver proofs.LinkDeliverExample.

Theorem C02_store_reachability_is_graph_ancestry : forall ep lam vals T Dr es, wfTD vals T Dr ->
  (forall e, In e Dr -> get_event es (VecIndex.eid (fe e)) = Some (to_aevent ep lam vals e)) ->
  forall a x, In a T -> (AbftDfs.reach es (nd_id a) x <-> In x (nd_anc a)).
Proof. exact reach_es_anc. Qed.

Theorem C02_blocks_deliver_new_graph_ancestry : forall cap ep lam vals, vals_ok vals -> forall J K pol i T Dr B e,
  Sim ep lam vals J K i T Dr B -> AbftClosedInv.K i ->
  id_fresh K (VecIndex.eid (fe e)) -> ~ J (VecIndex.eid (fe e)) ->
  parents_known T e -> nlookup (VecIndex.eid (fe e)) T = None -> (VecIndex.ecr (fe e) < length vals)%nat -> ev_wf T e ->
  r_frame_ok vals T (mk_node (length vals) T e) = true -> few_forkers vals (mk_node (length vals) T e :: T) ->
  exists bl i' ldf ep', step cap pol sample i (OpP (to_aevent ep lam vals e)) = (ObsP None bl ldf ep', i', false) /\
    delivered_graph (mk_node (length vals) T e :: T) (AbftDfs.marked (l_conf (i_st i))) bl /\
    (existsb AbftSeal.is_sealed bl = false ->
       forall x, AbftDfs.marked (l_conf (i_st i')) x <-> AbftDfs.marked (l_conf (i_st i)) x \/ exists b, In b bl /\ In x (b_delivered b)) /\
    (forall b, In b bl -> b_seal b = policy_fn pol ep (b_frame b) 0 [] []).
Proof. exact deliver_step. Qed.

(* non-vacuity: the hypotheses hold at genesis; on the 48-event run the two blocks deliver 1 and 15 events:
   exactly the reference's ancestry of the Atropos minus what was delivered before (by evaluation) *)
Example C02_graph_delivery_example :
  (Sim 1 (fun _ => 0%N) ex2_vals (fun _ => False) 48 (start 1 ex2_vals) [] [] [] /\ AbftClosedInv.K (start 1 ex2_vals)) /\
  map (fun b => (b_frame b, b_atropos b, length (b_delivered b))) dx_blocks = [(1, 1000, 1%nat); (2, 1015, 15%nat)]%N /\
  dx_check (table ex2_vals ex2_D) [] dx_blocks = true.
Proof. exact (conj dx_hyps dx_delivered_is_new_ancestry). Qed.

Print Assumptions C02_store_reachability_is_graph_ancestry.
Print Assumptions C02_blocks_deliver_new_graph_ancestry.

(* ---- over a whole run (proofs/LinkDeliverRun.v) ----
   On a valid single-epoch run of the model (Build + Process per event, validators in canonical order, any
   forkless-cause cache capacity) the blocks, in the order of emission, deliver without repetition exactly the
   reference's ancestry of their Atropos minus what the EARLIER BLOCKS delivered: delivered_graph from the empty
   set over the reference's final table.  abft's run invariants are carried by its step theorems; the extra
   invariant is "confirmed marks = union of the delivered lists so far". *)
From LV Require Import proofs.LinkDeliverRun.
Theorem C02_run_delivers_new_graph_ancestry : forall cap lam vals, vals_ok vals -> forall K D,
  valid_run vals D -> (forall e, In e D -> id_fresh K (VecIndex.eid (fe e))) -> (N.of_nat (length D) <= K)%N -> (K < 2 ^ 192)%N ->
  delivered_graph (table vals D) (fun _ => False) (blocks_in (run cap [] sample (start 1 vals) (abft_ops 1 lam vals D))).
Proof. exact run_delivers. Qed.
Example C02_run_delivery_example :
  valid_run ex2_vals ex2_D /\ delivered_graph (table ex2_vals ex2_D) (fun _ => False) dx_blocks /\
  map (fun b => (b_frame b, b_atropos b, length (b_delivered b))) dx_blocks = [(1, 1000, 1%nat); (2, 1015, 15%nat)]%N.
Proof. exact (conj ex2_valid (conj dx_run_delivers (proj1 dx_delivered_is_new_ancestry))). Qed.
Print Assumptions C02_run_delivers_new_graph_ancestry.

(* ---- the persisted form of the records C02 relies on (model/AbftStore.v, proofs/AbftStoreCodec.v) ----
   The confirmed-on frame, the last decided frame, the epoch state and the root keys, written as the Go code
   writes them (4-byte big-endian frame / validator), answer every read exactly like the abstract records as
   long as the numbers fit their declared type uint32.  The STORE glue cases of the C02 check run the real
   abft.Store against this model at the width boundaries. *)
From LV Require Import model.AbftStore proofs.AbftStoreCodec.
Theorem C02_store_codecs_are_transparent : forall ops, Forall op_ok ops ->
  srun store_start ops = arun astore_start ops /\
  store_trace astore_start (combine ops (srun store_start ops)) = true.
Proof. intros ops H. split; [exact (run_refines ops _ _ R_start H)|exact (store_model_meets_spec ops H)]. Qed.
Theorem C02_confirmed_frame_roundtrip : forall s e f, (f < 2 ^ 32)%N ->
  fst (sstep (snd (sstep s (SoCF e f))) (SoGC e)) = SbN f.
Proof. exact confirmed_get_after_set. Qed.
Print Assumptions C02_store_codecs_are_transparent.
Print Assumptions C02_confirmed_frame_roundtrip.
