(* C01 — Order-independent agreement on blocks.
   At the reference level (spec/ElectionSpec.v) the property is proved in full for a single epoch:
   for ALL validator sets, ALL event sets whose events are accepted by the rules and whose forkers
   hold < 1/3 of the weight, and ALL parents-first orders:
     - an instance that has processed a subset of another instance's events has emitted an
       initial segment of its blocks (frame, Atropos, cheaters)          [C01_prefix_agreement]
     - equal event sets give equal block sequences, whatever the two orders [C01_same_events]
     - any two instances working on one DAG agree on a common prefix     [C01_comparable]
   (the reference is a function of the event set: the table entry of an event depends only on
   its ancestry — node_indep — and decisions are unique and monotone — BFT core).
   For the implementation the statement is C01_full, proved from impl_refines_spec (model run =
   reference; the L1 invariant of DESIGN 5 C10, owned by the abft model worker). *)
From Coq Require Import NArith List.
From LV Require Import model.VecIndex lib.WSumBft spec.ElectionSpec proofs.BftCore proofs.BftElection
  proofs.BftMono proofs.BftGraph proofs.BftMain proofs.BftRun proofs.BftProps.
Import ListNotations.
Local Open Scope N_scope.

Theorem C01_prefix_agreement :
  forall vals D1 D2, all_accepted vals D1 -> all_accepted vals D2 -> incl D1 D2 ->
    few_forkers vals (table vals D2) ->
    prefix (snd (reference vals D1)) (snd (reference vals D2)).
Proof. exact reference_prefix. Qed.

Theorem C01_same_events :
  forall vals D1 D2, all_accepted vals D1 -> all_accepted vals D2 -> incl D1 D2 -> incl D2 D1 ->
    few_forkers vals (table vals D2) -> snd (reference vals D1) = snd (reference vals D2).
Proof. exact reference_same_set. Qed.

Theorem C01_comparable :
  forall vals D1 D1' D2, all_accepted vals D1 -> all_accepted vals D1' -> all_accepted vals D2 ->
    incl D1 D2 -> incl D1' D2 -> few_forkers vals (table vals D2) ->
    prefix (snd (reference vals D1)) (snd (reference vals D1')) \/
    prefix (snd (reference vals D1')) (snd (reference vals D1)).
Proof. exact reference_comparable. Qed.

(* same epoch transition: instances that have both reached the sealing frame (each on its own accepted
   subset of the epoch's DAG, in its own order) have emitted the same blocks up to and including the
   sealing block; the next validator set is a function of the old one (ElectionSpec.next_vals) *)
Theorem C01_seal_agreement :
  forall vals k D1 D1' D2, all_accepted vals D1 -> all_accepted vals D1' -> all_accepted vals D2 ->
    incl D1 D2 -> incl D1' D2 -> few_forkers vals (table vals D2) ->
    snd (seal_cut k (snd (reference vals D1))) = true -> snd (seal_cut k (snd (reference vals D1'))) = true ->
    seal_cut k (snd (reference vals D1)) = seal_cut k (snd (reference vals D1')).
Proof. exact reference_seal_agreement. Qed.

(* table level: monotonicity of decisions — the blocks of a well-formed sub-table are a prefix *)
Theorem C01_blocks_monotone :
  forall vals T1 T2, wfT vals T1 -> wfT vals T2 -> few_forkers vals T2 -> incl T1 T2 ->
    prefix (r_blocks vals T1) (r_blocks vals T2).
Proof. exact ref_blocks_prefix. Qed.

(* the entry of an event in the reference's table depends only on the event's ancestry *)
Theorem C01_node_independent_of_order :
  forall vals T1 Dr1, wfTD vals T1 Dr1 -> forall T2 Dr2, wfTD vals T2 Dr2 -> incl Dr1 Dr2 -> incl T1 T2.
Proof. exact node_indep. Qed.

(* full statement for a model of the implementation, from the refinement hypothesis *)
Definition C01_full : impl_model -> Prop := BftProps.C01_full.
Theorem C01_full_from_refinement : forall run, impl_refines_spec run -> C01_full run.
Proof. exact C01_from_refinement. Qed.

(* non-vacuity: the hypotheses hold for a generated DAG with a forking validator, a reordering of it
   and an ancestor-closed subset; the subset has decided the first of the two blocks *)
Example C01_example :
  valid_run ex_vals ex_D /\ all_accepted ex_vals ex_D' /\ all_accepted ex_vals ex_Dsub /\
  (incl ex_D' ex_D /\ incl ex_D ex_D') /\ incl ex_Dsub ex_D /\
  snd (reference ex_vals ex_D) = [(1, 0, []); (2, 15, [37094])] /\
  snd (reference ex_vals ex_Dsub) = [(1, 0, [])].
Proof. exact (conj ex_valid (conj ex_accepted' (conj ex_accepted_sub (conj ex_incl' (conj ex_incl_sub (conj ex_blocks ex_blocks_sub)))))). Qed.
Example C01_full_satisfiable : C01_full reference.
Proof. exact (C01_from_refinement reference reference_refines). Qed.

Print Assumptions C01_prefix_agreement.
Print Assumptions C01_same_events.
Print Assumptions C01_comparable.
Print Assumptions C01_seal_agreement.
Print Assumptions C01_blocks_monotone.
Print Assumptions C01_node_independent_of_order.
Print Assumptions C01_full_from_refinement.
